(** C10 - Restart on the same stores resumes without loss or regression ... after a crash at
    any point (mirror model).  Statements only; proofs in Proofs/MirrorResume*.v.

    REPAIRED IN THE GO CODE (found by the first version of this file, which refuted (1) with two
    witnesses confirmed on the real code): a vote message for a later round of the voting height,
    or a replayed commit proof, carrying an entry with an EMPTY signature list was persisted as it
    was, and the next NewKernel panicked in toFullProofMap ("BUG: saw len(sparseSigs) == 0").
    handleFuture*Proofs / addFuture* and handleReplayedHeader now skip entries without signatures
    (and the replay handler validates before it mutates); the model follows ([signed_entries]).
    The theorems [C10_restart_can_fail_refuted] / [C10_clean_restart_can_fail_refuted] are gone,
    the former witnesses are regression examples ([C10_former_witnesses_now_restart]), and the
    guard [op_nonempty] is dropped from every theorem below.

    FULL STATEMENTS and what is proved:
      (1) for every state s reachable by operations, clean restarts and crashes, every operation
          o and every k: xstep s XRestart and xstep s (XCrash k o) are Ok.
          PROVED: [C10_startup_never_fails], for [reachable_g] = closure under ALL crash points
          (the crash between the committed-header write and the position write included:
          [C10_restart_recommits_after_header_write]).  Remaining guards ([wf_op]): [op_bounded]
          and [step_adm] of MirrorTotal (header heights + 1 < 2^64; the next validator set of an
          accepted / applied replayed header has non-zero power; a replayed round is a uint32) and
          "that next set has at least one key" - a MODEL-ONLY guard (in Go non-zero power implies a
          key; [C10_keys_guard_needed_in_model] shows the model needs it).
      (2) nothing committed is lost, the stored position does not regress, the voting height is
          at most one above what the uninterrupted operation reaches: [C10_no_regression],
          [C10_crash_height_bound] (same guards, every crash point).
      (3) cinv / auth_state / sinv / hinv (INV), tinv and the store invariant SI hold after every
          xstep: [C10_invariants_after_every_xstep] (same guards, every crash point);
          for ARBITRARY stores satisfying SI: [C10_restart_total_on_store_invariant]. *)
From Coq Require Import List NArith.
From GV Require Import Base.Ints Gen.Kernel Model.Mirror Proofs.MirrorAuth Proofs.MirrorChain Proofs.MirrorCert
  Proofs.MirrorTotal Proofs.MirrorResumeWit Proofs.MirrorResumeInv Proofs.MirrorResumeStart
  Proofs.MirrorResumeOps Proofs.MirrorResumeOps4 Proofs.MirrorResumeOps5 Proofs.MirrorResumeAhead2 Proofs.MirrorResume Proofs.MirrorResumeHeight Proofs.MirrorResumeEx Proofs.MirrorResumeReload.
Import ListNotations.
Local Open Scope N_scope.

(** the two former witnesses (B: a future-round prevote message with an entry without signatures,
    then a nil precommit; A: a replayed header whose commit proof has such an entry) are still
    handled as before, and the mirror now comes up after a clean restart and after a crash at
    every point of the last operation *)
Theorem C10_former_witnesses_now_restart :
  (is_ok (run_x (init_state 1 ex_vs) [XOp (OpPrevote wB_msg); XOp (OpPrecommit wB_nil); XRestart]) = true /\
   forallb (fun k => is_ok (run_x (init_state 1 ex_vs) [XOp (OpPrevote wB_msg); XCrash k (OpPrecommit wB_nil)]))
           [0; 1; 2; 3]%nat = true) /\
  (is_ok (run_x (init_state 1 ex_vs) [XOp wA_op; XRestart]) = true /\
   forallb (fun k => is_ok (xstep (init_state 1 ex_vs) (XCrash k wA_op))) [0; 1; 2; 3; 4; 5]%nat = true).
Proof. split; [exact wB_now_restarts|exact wA_now_restarts]. Qed.
Print Assumptions C10_former_witnesses_now_restart.

(** MODEL ONLY: the model's [valset] keeps keys and powers in two lists of independent length; a
    committed next validator set with power but without a key makes the model's start-up fail
    ("loadInitialVotingView: BUG: no validators available").  Not replayable on the Go code,
    where a validator set is one list of (key, power) pairs. *)
Theorem C10_keys_guard_needed_in_model :
  exists ih ivs s site,
    1 <= ih /\ vs_ok ivs = true /\ 0 < sum_pows (vs_pows ivs) /\
    reachable_x ih ivs s /\ xstep s XRestart = Panic site.
Proof. exact keys_guard_needed_in_model. Qed.
Print Assumptions C10_keys_guard_needed_in_model.

(** START-UP IS TOTAL ON THE STORE INVARIANT: for ALL stores satisfying [SI] (whatever wrote
    them), NewKernel comes up, the state it returns satisfies INV, tinv and SI again, no committed
    header is lost and the stored position is not behind the given one. *)
Theorem C10_restart_total_on_store_invariant : forall ih ivs st vals log,
  1 <= ih -> vwf ivs -> SI ih ivs st ->
  exists s', restart ih ivs st vals log = Ok s' /\
             INV ih ivs s' /\ tinv s' /\ SI ih ivs (stores_of s') /\ sadv st (stores_of s').
Proof.
  intros ih ivs st vals log H1 H2 H3.
  destruct (restart_from ih ivs st vals log H1 H2 H3) as (s'&E&(HI&_&(_&_&_&_&HS))&HT&A).
  exists s'. repeat (split; [assumption|]). assumption.
Qed.
Print Assumptions C10_restart_total_on_store_invariant.

(** (3) the invariants after every step of [xstep] - operations, clean restarts and crashes at
    EVERY point (also between the committed-header write and the position write of a commit) *)
Theorem C10_invariants_after_every_xstep : forall ih ivs s,
  1 <= ih -> vwf ivs -> reachable_g ih ivs s ->
  INV ih ivs s /\ tinv s /\ SI ih ivs (stores_of s).
Proof. exact reachable_g_INV. Qed.
Print Assumptions C10_invariants_after_every_xstep.

(** (1) start-up never fails: after a clean restart and after a crash at EVERY point of every
    admissible operation the mirror comes up, in a state that is reachable again (so the
    statement applies to it as well) *)
Theorem C10_startup_never_fails : forall ih ivs s,
  1 <= ih -> vwf ivs -> reachable_g ih ivs s ->
  (exists s', xstep s XRestart = Ok (s', 0) /\ reachable_g ih ivs s') /\
  (forall o k s1 r, step s o = Ok (s1, r) -> wf_op o r ->
     exists s', xstep s (XCrash k o) = Ok (s', r) /\ reachable_g ih ivs s').
Proof. exact startup_never_fails. Qed.
Print Assumptions C10_startup_never_fails.

(** the crash between the committed-header write and the position write of a commit: start-up on
    the stores of the committing state [m] plus the committed-header write returns EXACTLY what
    start-up on the stores of [m] returns - its re-evaluation commits the block again *)
Theorem C10_restart_recommits_after_header_write : forall ih ivs m p vals log,
  1 <= ih -> vwf ivs -> K ih ivs m -> commit_cond m p ->
  restart ih ivs (apply_wr (stores_of m) (WHdr (hd_height (ph_hdr p)) (ph_hdr p, shift_pcp m))) vals log =
  restart ih ivs (stores_of m) vals log.
Proof. exact restart_ahead_same. Qed.
Print Assumptions C10_restart_recommits_after_header_write.

(** what start-up sees after a crash at any point: stores satisfying [SI] that lie between the
    stores before and the stores after the uninterrupted operation (the crash stores themselves
    at a clean cut) *)
Theorem C10_crash_stores_satisfy_store_invariant : forall ih ivs s o k s1 r,
  1 <= ih -> vwf ivs -> reachable_g ih ivs s ->
  step s o = Ok (s1, r) -> wf_op o r ->
  exists stc, SI ih ivs stc /\ sadv (stores_of s) stc /\ sadv stc (stores_of s1) /\
              (clean_cut s o k -> stc = crash_stores s s1 k) /\
              forall vals log, restart ih ivs (crash_stores s s1 k) vals log = restart ih ivs stc vals log.
Proof. exact crash_stores_between. Qed.
Print Assumptions C10_crash_stores_satisfy_store_invariant.

(** (2) no committed header is lost; the stored position (voting height, round,
    committing height, round) does not regress: heights do not decrease, and while the voting
    height stays the committing height and round stay and the voting round moves by round
    increments only ([rsteps]: equal to >= as long as the round counter does not wrap at 2^32) *)
Theorem C10_no_regression : forall ih ivs s x s' res,
  1 <= ih -> vwf ivs -> reachable_g ih ivs s -> xwf s x res -> xstep s x = Ok (s', res) ->
  (forall h hc, In (h, hc) (st_hdrs s) -> In (h, hc) (st_hdrs s')) /\
  n_vh (st_nhr s) <= n_vh (st_nhr s') /\ n_ch (st_nhr s) <= n_ch (st_nhr s') /\
  (n_vh (st_nhr s') = n_vh (st_nhr s) ->
     n_ch (st_nhr s') = n_ch (st_nhr s) /\ n_cr (st_nhr s') = n_cr (st_nhr s) /\
     rsteps (n_vr (st_nhr s)) (n_vr (st_nhr s'))).
Proof. exact no_regression. Qed.
Print Assumptions C10_no_regression.

(** (2) how far AHEAD: at most one height above the uninterrupted operation, at every crash point *)
Theorem C10_crash_height_bound : forall ih ivs s o k s1 r s',
  1 <= ih -> vwf ivs -> reachable_g ih ivs s ->
  step s o = Ok (s1, r) -> wf_op o r ->
  xstep s (XCrash k o) = Ok (s', r) ->
  v_h (k_vot s) <= v_h (k_vot s') /\ v_h (k_vot s') <= v_h (k_vot s1) + 1.
Proof. exact crash_height_bound. Qed.
Print Assumptions C10_crash_height_bound.

(** the hypotheses are satisfiable on histories with a crash in the middle of a commit: after the
    first write (the precommits) and after the second write (the committed header) *)
Theorem C10_resume_hypotheses_satisfiable :
  vwf ex_vs /\ reachable_g 1 ex_vs e_s2 /\ st_nhr e_s1 = (1, 0, 0, 0) /\ st_nhr e_s2 = (2, 0, 1, 0) /\
  reachable_g 1 ex_vs e_s3 /\ st_nhr e_s3 = (2, 0, 1, 0).
Proof.
  split; [exact ex_vs_vwf|]. destruct e_s2_reachable as (A&B&C&_). destruct e_s3_reachable as (D&E&_).
  repeat split; assumption.
Qed.
Print Assumptions C10_resume_hypotheses_satisfiable.

(** * "Without loss": persisted votes are reloaded *)

(** the view / round-store correspondence [Y] is an invariant of every reachable state: for the
    voting and the next-round view, each vote map is empty or is - up to signer sets, target by
    target - what loading the view's round-store cell gives; each proposed header of the view is
    in the cell (by hash) or among the replayed headers; the summary names the most voted block *)
Theorem C10_view_store_correspondence : forall ih ivs s,
  1 <= ih -> vwf ivs -> reachable_g ih ivs s -> Y s.
Proof. exact reachable_correspondence. Qed.
Print Assumptions C10_view_store_correspondence.

(** after a clean restart: the round store, the replayed headers and the committed headers are
    all still there; and if the restarted mirror is at the same stored position, its voting and
    its next-round view hold again every signer (prevotes and precommits, target by target) that
    the view held before, and for every proposed header one with the same hash (a replayed header
    is handed back by the round store only together with a stored precommit for its hash).
    PARTIAL: the committing view is not covered; when the restarted mirror is AHEAD (known
    finding) only the first part applies - the votes are in the round store, not in a view. *)
Theorem C10_persisted_votes_reloaded_partial : forall ih ivs s s',
  1 <= ih -> vwf ivs -> reachable_g ih ivs s -> xstep s XRestart = Ok (s', 0) ->
  (st_rounds s' = st_rounds s /\ st_replayed s' = st_replayed s /\
   forall h x, In (h, x) (st_hdrs s) -> In (h, x) (st_hdrs s')) /\
  (st_nhr s' = st_nhr s ->
     (votes_held_again (k_vot s) (k_vot s') /\ phs_held_again (st_replayed s) (k_vot s) (k_vot s')) /\
     (votes_held_again (k_nxt s) (k_nxt s') /\ phs_held_again (st_replayed s) (k_nxt s) (k_nxt s'))).
Proof. exact restart_reloads. Qed.
Print Assumptions C10_persisted_votes_reloaded_partial.

(** the same after a crash that let every write of the operation land, relative to the state the
    uninterrupted operation produces *)
Theorem C10_persisted_votes_reloaded_after_full_crash_partial : forall ih ivs s o s1 r k s',
  1 <= ih -> vwf ivs -> reachable_g ih ivs s -> step s o = Ok (s1, r) -> wf_op o r ->
  (List.length (st_log s1) - List.length (st_log s) <= k)%nat ->
  xstep s (XCrash k o) = Ok (s', r) -> reloaded s1 s'.
Proof. exact crash_after_all_writes_reloads. Qed.
Print Assumptions C10_persisted_votes_reloaded_after_full_crash_partial.
