(** C02 over ALL event histories of the round state machine model (from the initial state, both signer
    settings, restarts included: EvStop; EvStart keeps the stores), by the inductive invariant [Inv]
    (Proofs/SMInvStep.v) and the relational logic of Proofs/SMRel.v.
    Only statements closed by [exact] plus [Print Assumptions]. *)
From Coq Require Import List NArith.
From GV Require Import Base.Ints Gen.Math Gen.StepSM Model.StateMachine Proofs.SMInv Proofs.SMInvStep Proofs.SMRel
  Proofs.SMInvActs Proofs.SMWitness.
Import ListNotations.
Local Open Scope N_scope.

(** restart_never_emits_second: in one history (any number of restarts on the same stores) two emissions
    of a prevote ([pv = true]) / precommit ([pv = false]) for the same height/round are one and the same
    event ... *)
Theorem C02_one_emission_ever : forall sg pv es i j oi oj h r t1 t2,
  nth_error (run_events (sm0 sg) es) i = Some oi -> nth_error (run_events (sm0 sg) es) j = Some oj ->
  In (emit_of pv h r t1) oi -> In (emit_of pv h r t2) oj -> i = j.
Proof. exact emit_once_history. Qed.
Print Assumptions C02_one_emission_ever.

(** ... and that event emits exactly one such vote; it was signed and saved (result 0 = accepted) first in
    the same event, for the round the emission is labelled with; the action store had no vote of this kind
    for the round before the event and has exactly this one after it (the store's DoubleActionError is what
    stops a second one after a restart: Proofs/SMWitness.v w3) *)
Theorem C02_emitted_was_signed_and_saved : forall sg pv es e h r t,
  let s := final_state (sm0 sg) es in
  In (emit_of pv h r t) (snd (step s e)) ->
  (if pv then ra_pv else ra_pc) (getra (aStore s) h r) = None /\
  (if pv then ra_pv else ra_pc) (getra (aStore (fst (step s e))) h r) = Some t /\
  (exists p, In (if pv then OSavePrevote h r t 0 p else OSavePrecommit h r t 0 p) (snd (step s e))) /\
  In (if pv then OSignPrevote h r t else OSignPrecommit h r t) (snd (step s e)) /\
  List.length (filter (if pv then is_emit_pv else is_emit_pc) (snd (step s e))) = 1%nat.
Proof. exact emit_saved_first. Qed.
Print Assumptions C02_emitted_was_signed_and_saved.

(** what is recorded in the action store is never overwritten or forgotten, by any event in any state *)
Theorem C02_action_store_only_grows : forall s e, store_le (aStore s) (aStore (fst (step s e))).
Proof. exact store_only_grows. Qed.
Print Assumptions C02_action_store_only_grows.

(* NOT proved here (still decided by the monitor c02_one_signature_per_lifetime on sampled runs):
   one_signature_per_kind_per_round within one process lifetime, as a statement about SIGNER calls
   (a signer call whose save is refused halts the machine; a signer call per (h, r) can repeat only after
   the round counter wraps or after a restart - the latter is the known finding w3), and the proposal
   variants (OSignProposal / OSavePH / OEmitPH; a recorded proposal is re-sent at start-up). *)

(** the hypotheses are satisfiable: the restart history w3 emits a prevote in its 4th event *)
Theorem C02Inv_example :
  existsb is_emit_pv (nth 3 (run_events (sm0 true) w3) []) = true /\
  List.length (filter is_emit_pv (List.concat (run_events (sm0 true) w3))) = 1%nat.
Proof. exact ex_emit_w3. Qed.
Print Assumptions C02Inv_example.
