(** C14 - Wire codec round-trips every message and never panics on bytes.
    This file contains only statements closed by [exact] plus [Print Assumptions].

    Reading guide.  [r] is ANY registry ([reg_wf_b]: names fit the 8-byte prefix, do not end in NUL,
    and map to a constructor of the registered type); values are ANY values satisfying the written-out
    well-formedness predicates of Model/CodecCheck.v (validators carry registered keys their constructor
    accepts, PubKeys is the projection of Validators, Go maps have unique keys, a message has exactly one
    field set).  [rt_*] is encode-to-intermediate-struct followed by decode; encoding/json between the two is
    trusted (and validated by the correspondence run).  [*_eqv] is the relation of Proofs/Codec.v /
    Monitors/C14m.v: identical in every field except nil~empty Validators, derived PubKeys, and
    nil~empty~reordered Proofs maps (same lookup result for every block hash). *)
From Coq Require Import List NArith String.
From GV Require Import Base.Ints Base.GoBytes Gen.Registry Model.CodecTypes Model.Codec Monitors.C14m Model.CodecCheck Proofs.Codec.
Import ListNotations.
Local Open Scope N_scope.

Theorem C14_header_roundtrip : forall r h,
  reg_wf_b r = true -> header_wf_b r h = true ->
  exists h', rt_header r h = Ok (Some h') /\ header_eqv h h'.
Proof. exact header_roundtrip. Qed.
Print Assumptions C14_header_roundtrip.

Theorem C14_proposed_header_roundtrip : forall r p,
  reg_wf_b r = true -> proposed_wf_b r p = true ->
  exists p', rt_proposed r p = Ok (Some p') /\ proposed_eqv p p'.
Proof. exact proposed_header_roundtrip. Qed.
Print Assumptions C14_proposed_header_roundtrip.

Theorem C14_committed_header_roundtrip : forall r c,
  reg_wf_b r = true -> committed_wf_b r c = true ->
  exists c', rt_committed r c = Ok (Some c') /\ committed_eqv c c'.
Proof. exact committed_header_roundtrip. Qed.
Print Assumptions C14_committed_header_roundtrip.

(** prevote and precommit sparse proofs share one shape and one (duplicated) piece of Go code *)
Theorem C14_sparse_proof_roundtrip : forall p,
  sparse_wf_b p = true -> sparse_eqv p (rt_sparse p).
Proof. exact sparse_proof_roundtrip. Qed.
Print Assumptions C14_sparse_proof_roundtrip.

Theorem C14_message_variant_preserved : forall r m m',
  rt_cmsg r m = Ok (Some m') -> cmsg_variant m' = cmsg_variant m /\ variant_of m' = cmsg_variant m.
Proof. exact message_variant_preserved. Qed.
Print Assumptions C14_message_variant_preserved.

Theorem C14_consensus_message_roundtrip : forall r m,
  reg_wf_b r = true -> cmsg_wf_b r m = true ->
  exists m', rt_cmsg r m = Ok (Some m') /\ cmsg_eqv m m' /\ variant_of m' = variant_of m.
Proof. exact cmsg_roundtrip. Qed.
Print Assumptions C14_consensus_message_roundtrip.

(** no hypothesis at all: any registry, any intermediate-struct value *)
Theorem C14_decode_struct_total : forall r,
  (forall j, c14_nopanic_mon (to_header r j) = true) /\
  (forall j, c14_nopanic_mon (to_proposed r j) = true) /\
  (forall j, c14_nopanic_mon (to_committed r j) = true) /\
  (forall j, c14_nopanic_mon (to_cmsg r j) = true) /\
  (forall b, c14_nopanic_mon (reg_unmarshal r b) = true).
Proof. exact decode_struct_total. Qed.
Print Assumptions C14_decode_struct_total.

Theorem C14_registry_roundtrip : forall r k,
  reg_wf_b r = true -> key_wf_b r k = true ->
  exists b, reg_marshal r (Some k) = Ok b /\ reg_unmarshal r (Some b) = Ok (Some k).
Proof. exact reg_roundtrip. Qed.
Print Assumptions C14_registry_roundtrip.

Theorem C14_short_key_is_error : forall r b,
  (List.length (gb2s b) < prefix_size)%nat -> reg_unmarshal r b = Ok None.
Proof. exact short_key_is_error. Qed.
Print Assumptions C14_short_key_is_error.

Theorem C14_generated_unmarshal_spec : forall (K : Type) bp (b : list N),
  @registry_unmarshal K bp b = registry_unmarshal_spec bp b.
Proof. exact @registry_unmarshal_correct. Qed.
Print Assumptions C14_generated_unmarshal_spec.

Theorem C14_map_order_irrelevant : forall (k : list N) (l l' : list (list N * gsigs)),
  Permutation.Permutation l l' -> NoDup (map fst l) -> alist_find k l = alist_find k l'.
Proof. exact (@alist_find_perm gsigs). Qed.
Print Assumptions C14_map_order_irrelevant.

Theorem C14_decoded_duplicates_last_wins : forall es k,
  alist_find k (build_map es) = find_last k es None.
Proof. exact build_map_last_wins. Qed.
Print Assumptions C14_decoded_duplicates_last_wins.

Theorem C14_decoded_message_single_variant : forall r j m,
  to_cmsg r j = Ok (Some m) -> variant_of m <> 4.
Proof. exact decoded_message_single_variant. Qed.
Print Assumptions C14_decoded_message_single_variant.

Theorem C14_model_satisfies_monitors : forall r,
  reg_wf_b r = true ->
  (forall h, header_wf_b r h = true -> c14_rt_header_mon h (rt_header r h) = true) /\
  (forall p, proposed_wf_b r p = true -> c14_rt_proposed_mon p (rt_proposed r p) = true) /\
  (forall c, committed_wf_b r c = true -> c14_rt_committed_mon c (rt_committed r c) = true) /\
  (forall p, sparse_wf_b p = true -> c14_rt_sparse_mon p (Ok (Some (rt_sparse p))) = true) /\
  (forall m, cmsg_wf_b r m = true ->
     c14_rt_cmsg_mon m (rt_cmsg r m) = true /\ c14_variant_mon m (rt_cmsg r m) = true).
Proof. exact model_satisfies_rt_monitors. Qed.
Print Assumptions C14_model_satisfies_monitors.

Theorem C14_monitor_sound :
  (forall h o, c14_rt_header_mon h o = true -> exists h', o = Ok (Some h') /\ header_eqv h h') /\
  (forall p o, c14_rt_proposed_mon p o = true -> exists p', o = Ok (Some p') /\ proposed_eqv p p') /\
  (forall c o, c14_rt_committed_mon c o = true -> exists c', o = Ok (Some c') /\ committed_eqv c c') /\
  (forall p o, c14_rt_sparse_mon p o = true -> exists p', o = Ok (Some p') /\ sparse_eqv p p') /\
  (forall m o, c14_rt_cmsg_mon m o = true -> exists m', o = Ok (Some m') /\ cmsg_eqv m m').
Proof. exact rt_monitor_sound. Qed.
Print Assumptions C14_monitor_sound.

Theorem C14_harness_registry_wf : reg_wf_b harness_registry = true.
Proof. exact harness_registry_wf. Qed.
Print Assumptions C14_harness_registry_wf.
