(** C14 - Wire codec round-trips every message and never panics on bytes.
    This file contains only statements closed by [exact] plus [Print Assumptions]. *)
From Coq Require Import List NArith String.
From GV Require Import Base.Ints Base.GoBytes Gen.Registry Model.CodecTypes Model.Codec Monitors.C14m Model.CodecCheck Proofs.Codec.
Import ListNotations.
Local Open Scope N_scope.

Theorem C14_harness_registry_wf : reg_wf_b harness_registry = true.
Proof. exact harness_registry_wf. Qed.
Print Assumptions C14_harness_registry_wf.
