(** C06 - Vote power accounting counts every validator exactly once.
    Only statements closed by [exact] plus [Print Assumptions].

    Vocabulary (Model/VoteSummary.v): a validator list is the list of its powers; an entry is
    (target hash, signature bitset of the proof filed under that hash); [set_powers] is the model of
    SetPrevotePowers/SetPrecommitPowers, [set_available] of SetAvailablePower, [summarize] of both
    kinds together; [mask_power vals m] is the power of the validators with index < len vals whose
    bit is set in m (each index once); [union_mask] is the union of the signer sets of all targets;
    [get_step] is GENERATED from tsi/step.go; [prevote_view_shift] & co. are the comparisons of
    tmi/kernel.go.  Guard of the exact statements: sum of the powers < 2^64 (the Go code does not
    check it; without it the same statements hold modulo 2^64, see [C06_total_wrap]). *)
From Coq Require Import List NArith Permutation.
From GV Require Import Base.Ints Gen.Math Gen.Step Model.VoteSummary Monitors.C06m Model.C06Run
  Proofs.Thresholds Proofs.BytesOrder Proofs.VoteSummary Proofs.VoteDistribution Proofs.VoteThresholds.
Import ListNotations.
Local Open Scope N_scope.

Theorem C06_available_spec : forall vals,
  sum_powers vals < two64 -> set_available vals = sum_powers vals.
Proof. exact available_spec. Qed.
Print Assumptions C06_available_spec.

Theorem C06_block_power_spec : forall vals entries h m,
  sum_powers vals < two64 -> NoDup (keys entries) -> In (h, m) entries ->
  map_get (p_block (set_powers vals entries)) h = mask_power vals m.
Proof. exact block_power_spec. Qed.
Print Assumptions C06_block_power_spec.

Theorem C06_block_keys_spec : forall vals entries h,
  In h (keys (p_block (set_powers vals entries))) <-> In h (keys entries).
Proof. exact block_keys_spec. Qed.
Print Assumptions C06_block_keys_spec.

(** total present power = power of the UNION of the per-target signer sets *)
Theorem C06_total_counts_once : forall vals entries,
  sum_powers vals < two64 ->
  p_total (set_powers vals entries) = mask_power vals (union_mask entries).
Proof. exact total_counts_once. Qed.
Print Assumptions C06_total_counts_once.

(** ... i.e. every validator that signed at least one target contributes its power exactly once *)
Theorem C06_total_each_validator_once : forall vals entries,
  sum_powers vals < two64 ->
  p_total (set_powers vals entries) =
  power_where (fun j => existsb (fun e => N.testbit (snd e) j) entries) 0 vals.
Proof. exact total_each_validator_once. Qed.
Print Assumptions C06_total_each_validator_once.

Theorem C06_total_le_available : forall vals entries,
  sum_powers vals < two64 -> p_total (set_powers vals entries) <= set_available vals.
Proof. exact total_le_available. Qed.
Print Assumptions C06_total_le_available.

(** without the guard: the same number modulo 2^64 *)
Theorem C06_total_wrap : forall vals entries,
  p_total (set_powers vals entries) = mask_power vals (union_mask entries) mod two64.
Proof. intros. rewrite total_wrap. exact (bp_wrap _ _). Qed.
Print Assumptions C06_total_wrap.

(** most voted target: empty when nothing has power, else the least hash (bytewise) among the
    targets of maximal power *)
Theorem C06_most_voted_spec : forall vals entries,
  sum_powers vals < two64 ->
  let s := set_powers vals entries in
  let M := max_power vals entries in
  (M = 0 -> p_most s = []) /\
  (0 < M -> (exists m, In (p_most s, m) entries /\ mask_power vals m = M) /\
            (forall h m, In (h, m) entries -> mask_power vals m = M -> bytes_ltb h (p_most s) = false)).
Proof. exact most_voted_spec. Qed.
Print Assumptions C06_most_voted_spec.

(** every Go map iteration order / arrival order gives the same summary (no guard needed) *)
Theorem C06_summary_perm_invariant : forall vals es es',
  Permutation es es' -> NoDup (keys es) ->
  let s := set_powers vals es in
  let s' := set_powers vals es' in
  p_total s = p_total s' /\ p_most s = p_most s' /\
  (forall h, map_get (p_block s) h = map_get (p_block s') h) /\
  (forall h, In h (keys (p_block s)) <-> In h (keys (p_block s'))).
Proof. exact summary_perm_invariant. Qed.
Print Assumptions C06_summary_perm_invariant.

(** Signers whose distinct power is below ByzantineMinority(total) -- however many targets each of
    them signs -- reach none of the thresholds ... *)
Theorem C06_minority_cannot_reach_thresholds : forall vals pv pc Bv Bc,
  1 <= sum_powers vals -> sum_powers vals < two64 ->
  (forall e, In e pv -> mask_subset (snd e) Bv) -> (forall e, In e pc -> mask_subset (snd e) Bc) ->
  mask_power vals Bv < mnr (sum_powers vals) -> mask_power vals Bc < mnr (sum_powers vals) ->
  let s := summarize vals pv pc in
  byz_minority (vs_available s) = Ok (mnr (sum_powers vals)) /\
  byz_majority (vs_available s) = Ok (maj (sum_powers vals)) /\
  vs_total_prevote s < mnr (sum_powers vals) /\ vs_total_precommit s < mnr (sum_powers vals) /\
  vs_total_prevote s < maj (sum_powers vals) /\ vs_total_precommit s < maj (sum_powers vals).
Proof. exact minority_cannot_reach_thresholds. Qed.
Print Assumptions C06_minority_cannot_reach_thresholds.

(** ... the generated GetStepFromVoteSummary stays AwaitingProposal (no delay timeout) ... *)
Theorem C06_minority_cannot_start_delay : forall vals pv pc Bv Bc,
  1 <= sum_powers vals -> sum_powers vals < two64 ->
  (forall e, In e pv -> mask_subset (snd e) Bv) -> (forall e, In e pc -> mask_subset (snd e) Bc) ->
  mask_power vals Bv < mnr (sum_powers vals) -> mask_power vals Bc < mnr (sum_powers vals) ->
  get_step (to_gen (summarize vals pv pc)) = Ok StepAwaitingProposal.
Proof. exact minority_cannot_start_delay. Qed.
Print Assumptions C06_minority_cannot_start_delay.

(** ... the round is never regarded as fully voted ... *)
Theorem C06_minority_cannot_make_fully_voted : forall vals pv pc Bv Bc,
  1 <= sum_powers vals -> sum_powers vals < two64 ->
  (forall e, In e pv -> mask_subset (snd e) Bv) -> (forall e, In e pc -> mask_subset (snd e) Bc) ->
  mask_power vals Bv < mnr (sum_powers vals) -> mask_power vals Bc < mnr (sum_powers vals) ->
  vs_total_precommit (summarize vals pv pc) <> vs_available (summarize vals pv pc) /\
  vs_total_prevote (summarize vals pv pc) <> vs_available (summarize vals pv pc).
Proof. exact minority_cannot_make_fully_voted. Qed.
Print Assumptions C06_minority_cannot_make_fully_voted.

(** ... and none of the mirror kernel's round-shift comparisons fires
    (checkPrevoteViewShift, checkNextRoundPrecommitViewShift, checkVotingPrecommitViewShift). *)
Theorem C06_minority_cannot_skip_round : forall vals pv pc Bv Bc,
  1 <= sum_powers vals -> sum_powers vals < two64 ->
  (forall e, In e pv -> mask_subset (snd e) Bv) -> (forall e, In e pc -> mask_subset (snd e) Bc) ->
  mask_power vals Bv < mnr (sum_powers vals) -> mask_power vals Bc < mnr (sum_powers vals) ->
  NoDup (keys pc) ->
  prevote_view_shift (summarize vals pv pc) = Ok false /\
  next_round_precommit_view_shift (summarize vals pv pc) = Ok NRNothing /\
  voting_precommit_view_shift (summarize vals pv pc) = Ok VPNothing.
Proof. exact minority_cannot_skip_round. Qed.
Print Assumptions C06_minority_cannot_skip_round.

(** The model's observation always satisfies the monitors that the check evaluates on the
    implementation's observations. *)
Theorem C06_model_satisfies_monitor : forall vals pv pc,
  c06_mon vals pv pc (model_obs vals pv pc) = true /\
  c06_minority_mon vals pv pc (model_obs vals pv pc) = true.
Proof. intros. split; [exact (model_satisfies_monitor _ _ _)|exact (model_satisfies_minority_monitor _ _ _)]. Qed.
Print Assumptions C06_model_satisfies_monitor.

(** Mirror level (model of addPrevote/addPrecommit + view shift for ONE message on a fresh mirror,
    run against the real Mirror by the check): a message whose signers hold, counted once each,
    less than the minority threshold leaves the voting round at 0, for prevotes and precommits,
    for the voting round and the next round, whatever targets it names. *)
Theorem C06_minority_message_cannot_move_round : forall vals is_prevote round entries B,
  1 <= sum_powers vals -> sum_powers vals < two64 ->
  (forall e, In e entries -> mask_subset (snd e) B) ->
  mask_power vals B < mnr (sum_powers vals) ->
  NoDup (keys entries) ->
  exists pv pc, mirror_predict vals is_prevote round entries = Some (0, pv, pc).
Proof. exact minority_message_cannot_move_round. Qed.
Print Assumptions C06_minority_message_cannot_move_round.

Theorem C06_model_satisfies_mirror_monitors : forall vals is_prevote round entries r pv pc,
  mirror_predict vals is_prevote round entries = Some (r, pv, pc) ->
  c06_round_mon vals entries 1 r = true /\ c06_sum_mon vals pv pc (model_obs vals pv pc) = true.
Proof. intros. split; [eapply model_satisfies_round_monitor; eassumption|apply model_satisfies_sum_monitor]. Qed.
Print Assumptions C06_model_satisfies_mirror_monitors.

(** tmi/votedistribution.go newVoteDistribution (used by checkMissingPHs and the initial load). *)
Theorem C06_distribution_spec : forall vals entries,
  sum_powers vals < two64 ->
  let d := vote_distribution vals entries in
  d_available d = sum_powers vals /\
  d_present d = mask_power vals (union_mask entries) /\
  (NoDup (keys entries) -> forall h m, In (h, m) entries -> map_get (d_block d) h = mask_power vals m) /\
  (forall h, In h (keys (d_block d)) -> In h (keys entries)) /\
  NoDup (keys (d_block d)).
Proof. exact distribution_spec. Qed.
Print Assumptions C06_distribution_spec.

Theorem C06_model_satisfies_dist_monitor : forall vals entries,
  let d := vote_distribution vals entries in
  dist_mon vals entries (d_available d) (d_present d) (d_block d) = true.
Proof. exact model_satisfies_dist_monitor. Qed.
Print Assumptions C06_model_satisfies_dist_monitor.
