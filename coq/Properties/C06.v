(** C06 - Vote power accounting counts every validator exactly once.
    Only statements closed by [exact] plus [Print Assumptions]. *)
From Coq Require Import List NArith Permutation.
From GV Require Import Base.Ints Gen.Math Gen.Step Model.VoteSummary Monitors.C06m Model.C06Run Proofs.VoteSummary.
Import ListNotations.
Local Open Scope N_scope.

Theorem C06_available_spec : forall vals, sum_powers vals < two64 -> set_available vals = sum_powers vals.
Proof. exact available_spec. Qed.
Print Assumptions C06_available_spec.
