(** C08 - The round state machine follows the Tendermint round rules, forwards only.
    Only statements closed by [exact] plus [Print Assumptions]. Every theorem quantifies over EVERY
    state [s] of the model and every event [e] (so over all event histories); [step] is the function the
    correspondence check runs against the real tmstate.StateMachine. *)
From Coq Require Import List NArith.
From GV Require Import Base.Ints Gen.Math Gen.StepSM Model.StateMachine Model.SMWire Proofs.SMStep Proofs.SMOutputs
  Proofs.SMTheorems Proofs.SMWitness.
Import ListNotations.
Local Open Scope N_scope.

Theorem C08_step_outputs : forall s e, e <> EvStart -> Forall (Pout (ctx_of s) e) (snd (step s e)).
Proof. exact step_outputs. Qed.
Print Assumptions C08_step_outputs.

(* Full statement (false of the faithful model, see C08_finalize_needs_quorum_refuted):
   every OFinalizeReq h r bh is a committed-header replay or is preceded by a view of (h, r) with more
   than two thirds of the precommit power for bh. Proved: the classification below; the late-header
   disjunct is justified by an earlier quorum only when the machine really is in commit wait of that round. *)
Theorem C08_finalize_needs_quorum_partial : forall s e h r bh, e <> EvStart ->
  In (OFinalizeReq h r bh) (snd (step s e)) -> fin_class (ctx_of s) e h r bh.
Proof. exact finalize_needs_quorum_partial. Qed.
Print Assumptions C08_finalize_needs_quorum_partial.

Theorem C08_finalize_needs_quorum_refuted :
  last_outs true w1 = [OFinalizeReq 1 1 [8]] /\
  pc_pow w1_last = 10 /\ byz_majority (avail w1_last) = Ok 27 /\
  forallb (fun e => match e with EvView v _ | EvRERespVRV v => negb ((v_h v =? 1) && (v_r v =? 1)) | _ => true end)
          (removelast w1) = true.
Proof. exact w1_finalizes_without_quorum. Qed.
Print Assumptions C08_finalize_needs_quorum_refuted.

Theorem C08_round_exit_causes_and_next_height_after_finalization : forall s e h r, e <> EvStart ->
  (In (OSetHR h r) (snd (step s e)) \/ exists pk act, In (ORoundEntrance h r pk act) (snd (step s e))) ->
  (h = rH (rl s) /\ r = wrap32 (rR (rl s) + 1) /\ exit_cause (ctx_of s) e) \/
  (h = wrap64 (rH (rl s) + 1) /\ r = 0 /\ height_cause (ctx_of s) e).
Proof. exact round_exit_causes. Qed.
Print Assumptions C08_round_exit_causes_and_next_height_after_finalization.

Theorem C08_entrances_strictly_increase : forall s e h r pk act, e <> EvStart ->
  rH (rl s) < two64 - 1 -> rR (rl s) < two32 - 1 ->
  In (ORoundEntrance h r pk act) (snd (step s e)) -> hr_lt (rH (rl s), rR (rl s)) (h, r).
Proof. exact entrances_strictly_increase. Qed.
Print Assumptions C08_entrances_strictly_increase.

Theorem C08_calls_and_votes_refer_to_current_round : forall s e, e <> EvStart ->
  forall o, In o (snd (step s e)) ->
  match o with
  | OSignPrevote h r _ | OSignPrecommit h r _ | OSignProposal h r _
  | OSavePrevote h r _ _ _ | OSavePrecommit h r _ _ _ | OSavePH h r _ _
  | OTimerStart _ h r _ => h = rH (rl s) /\ r = rR (rl s)
  | _ => True
  end.
Proof. exact calls_and_votes_refer_to_current_round. Qed.
Print Assumptions C08_calls_and_votes_refer_to_current_round.

Theorem C08_targets_only_from_strategy : forall s e, e <> EvStart ->
  forall o, In o (snd (step s e)) ->
  match o with
  | OSignPrevote _ _ t | OSavePrevote _ _ t _ _ | OEmitPrevote _ _ t
  | OSignPrecommit _ _ t | OSavePrecommit _ _ t _ _ | OEmitPrecommit _ _ t => e = EvAnswer 0 t
  | OSignProposal _ _ d => e = EvProposal d
  | OEmitPH _ _ d => e = EvProposal d \/ exists v, e = EvRERespVRV v
  | _ => True
  end.
Proof. exact targets_only_from_strategy. Qed.
Print Assumptions C08_targets_only_from_strategy.

(* Full statement precommit_decision_exactly_once_when_due is false of the faithful model: *)
Theorem C08_precommit_decision_when_due_refuted :
  existsb is_decide (List.concat (run_events (sm0 true) w2)) = false /\
  rS (rl (final_state (sm0 true) w2)) = StepAwaitingPrecommits /\
  existsb (fun o => match o with OSignPrevote 1 0 [7] => true | _ => false end) (List.concat (run_events (sm0 true) w2)) = true.
Proof. exact w2_never_asks_for_precommit. Qed.
Print Assumptions C08_precommit_decision_when_due_refuted.

Theorem C08_honest_histories_panic :
  last_outs true w4 = [OEnterRound 1 0 true; OPanic P_beginRound_default] /\
  last_outs true w5 = [OTimerCancel 1 1 0 true; OPanic P_heightCommitted_step] /\
  last_outs true w6 = [OPanic P_finalization_hr] /\
  last (last_outs true w7) OHalt = OPanic P_jumpAhead_round /\
  last_outs true w8 = [OPanic P_finalize_nokeys].
Proof. exact honest_histories_panic. Qed.
Print Assumptions C08_honest_histories_panic.
