(** C20 - "relay only if the local handler accepted it", the result -> feedback tables (feedbackmapper.go, generated as
    Gen/Mappers.v on every run).  Only statements closed by [exact] plus [Print Assumptions]. *)
From Coq Require Import List NArith ZArith.
From GV Require Import Base.Ints Gen.Mappers Proofs.MappersAccept.
Local Open Scope N_scope.

(** For EVERY value a fine-grained handler could return (any N, not only the enumerated results): the mappers answer
    FeedbackAccepted only for results that mean the engine verified the message - a vote that could not be verified
    (FutureUnverified), a duplicate under DropDuplicate, an error or an out-of-range value is never relayed as accepted. *)
Theorem C20_mappers_accept_only_verified : forall r,
  (aav_map_ph r = Ok FeedbackAccepted -> ph_verified r) /\
  (dd_map_ph r = Ok FeedbackAccepted -> r = HandleProposedHeaderAccepted) /\
  (aav_map_vote r = Ok FeedbackAccepted -> vote_verified r) /\
  (dd_map_vote r = Ok FeedbackAccepted -> r = HandleVoteProofsAccepted \/ r = HandleVoteProofsFutureVerified).
Proof. exact (fun r => conj (aav_ph_accept r) (conj (dd_ph_accept r) (conj (aav_vote_accept r) (dd_vote_accept r)))). Qed.
Print Assumptions C20_mappers_accept_only_verified.
