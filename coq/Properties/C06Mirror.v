(** C06 at mirror level - the summaries the kernel's threshold decisions read, along every history.
    Statements only; proofs in Proofs/MirrorCert.v (the invariant [sinv], part of [INV]). *)
From Coq Require Import List NArith.
From GV Require Import Base.Ints Gen.Math Gen.Kernel Model.Mirror Proofs.MirrorAuth Proofs.MirrorChain Proofs.MirrorCert.
Import ListNotations.
Local Open Scope N_scope.

(** For every operation history of the mirror model (proposals, prevotes, precommits, replayed headers, from
    any initial height and validator set): in the voting view AND in the next-round view, the available power
    is the sum of that view's validator powers, and the precommit block powers are the recomputation
    ([blocks]: power of the distinct signers per target) from that view's own precommit proofs.  In particular
    the next-round view of a new height carries the NEW validator set's total, whatever the previous total was. *)
Theorem C06_mirror_views_carry_recomputed_power : forall ih ivs s,
  1 <= ih -> vs_ok ivs = true -> reachable_b ih ivs s ->
  (sm_avail (v_sum (k_vot s)) = sum_pows (vs_pows (v_vals (k_vot s))) /\
   sm_pcp (v_sum (k_vot s)) = blocks (vs_pows (v_vals (k_vot s))) (v_pc (k_vot s))) /\
  (sm_avail (v_sum (k_nxt s)) = sum_pows (vs_pows (v_vals (k_nxt s))) /\
   sm_pcp (v_sum (k_nxt s)) = blocks (vs_pows (v_vals (k_nxt s))) (v_pc (k_nxt s))).
Proof. exact reachable_summaries. Qed.
Print Assumptions C06_mirror_views_carry_recomputed_power.
