(** C17 - Gossip broadcasts everything the node knows and nothing else.
    This file contains only statements closed by [exact] plus [Print Assumptions].
    Model: Model/Gossip.v (tm/tmgossip/chattystrategy.go after the two fix: commits). *)
From Coq Require Import List NArith Bool Permutation.
From GV Require Import Model.GossipData Model.Gossip Monitors.C17m Proofs.Gossip Proofs.GossipMonitor.
Import ListNotations.
Local Open Scope N_scope.

(** NOTHING ELSE, per step, for every kernel state and every update (no hypothesis):
    every value sent while processing [u] is made of headers and vote signatures of [u]. *)
Theorem C17_step_sound : forall s u b, In b (snd (step s u)) ->
  incl (bcast_headers b) (update_headers u) /\ incl (bcast_votes b) (update_votes u).
Proof. exact (fun s u => step_sound s u). Qed.
Print Assumptions C17_step_sound.

(** NOTHING ELSE over sequences: for every sequence and starting state, what is sent at
    position [length pre] is content of the update at that position (hence of a view
    received so far). *)
Theorem C17_sound : forall s pre u post b,
  In b (nth (length pre) (snd (run s (pre ++ u :: post))) []) ->
  incl (bcast_headers b) (update_headers u) /\ incl (bcast_votes b) (update_votes u).
Proof. exact sound. Qed.
Print Assumptions C17_sound.

(** EVERYTHING: for every well-formed update sequence and every update [u] in it, every
    proposed header and every (kind, height, round, key hash, block hash, signer, signature)
    of its Committing/Voting/NextRound views, and every precommit of its NilVotedRound view,
    is among the values broadcast during the first [length pre + 1] steps, i.e. at or before
    the step that processed [u]. Well-formed = the first update has a voting view and every
    vote map is over one validator set (otherwise the real kernel panics / returns, which the
    model reproduces: see the two C17_malformed theorems below). *)
Theorem C17_complete : forall pre u post, wf_seq (pre ++ u :: post) = true ->
  let B := concat (firstn (S (length pre)) (snd (run_all (pre ++ u :: post)))) in
  incl (update_headers u) (peer_headers B) /\ incl (update_votes u) (peer_votes B).
Proof. exact complete. Qed.
Print Assumptions C17_complete.

(** The kernel keeps running on every non-empty well-formed sequence. *)
Theorem C17_never_stops : forall us, us <> [] -> wf_seq us = true ->
  exists pc pv pn, fst (run_all us) = GRun pc pv pn.
Proof. exact never_stops. Qed.
Print Assumptions C17_never_stops.

(** PEER CAN RECONSTRUCT: the merged broadcasts are exactly the union of the views. *)
Theorem C17_peer_can_reconstruct : forall us, wf_seq us = true ->
  let B := concat (snd (run_all us)) in
  (forall x, In x (peer_headers B) <-> In x (flat_map update_headers us)) /\
  (forall x, In x (peer_votes B) <-> In x (flat_map update_votes us)).
Proof. exact peer_can_reconstruct. Qed.
Print Assumptions C17_peer_can_reconstruct.

(** Per view: proposals and, per kind and block hash, the signer set with signatures. *)
Theorem C17_peer_reconstructs_views : forall us u, wf_seq us = true -> In u us ->
  let B := concat (snd (run_all us)) in
  (forall v, In (Some v) [u_committing u; u_voting u; u_next u] ->
     incl (v_phs v) (peer_headers B) /\
     forall k t, incl (signers (view_all_votes v) k (v_height v) (v_round v) t)
                      (signers (peer_votes B) k (v_height v) (v_round v) t)) /\
  (forall v, u_nil u = Some v ->
     forall t, incl (signers (view_votes Precommit v) Precommit (v_height v) (v_round v) t)
                    (signers (peer_votes B) Precommit (v_height v) (v_round v) t)).
Proof. exact peer_reconstructs_views. Qed.
Print Assumptions C17_peer_reconstructs_views.

(** AsSparse does not depend on Go's map iteration order. *)
Theorem C17_as_sparse_order_independent : forall pm pm', Permutation pm pm' ->
  match as_sparse pm, as_sparse pm' with
  | Some (kh, body), Some (kh', body') => (pm <> [] -> kh = kh') /\ Permutation body body'
  | None, None => True
  | _, _ => False
  end.
Proof. exact as_sparse_perm. Qed.
Print Assumptions C17_as_sparse_order_independent.

(** The model's own output always passes the monitors that judge the implementation. *)
Theorem C17_model_satisfies_monitor : forall us, c17_mon us (snd (run_all us)) = true.
Proof. exact model_satisfies_monitor. Qed.
Print Assumptions C17_model_satisfies_monitor.

(** A run accepted by the completeness monitor is complete in the sense of C17_complete. *)
Theorem C17_monitor_complete_sound : forall us outs, wf_seq us = true -> c17_complete_mon us outs = true ->
  forall pre u post, us = pre ++ u :: post ->
  let B := concat (rev (firstn (S (length pre)) outs)) in
  incl (update_headers u) (peer_headers B) /\ incl (update_votes u) (peer_votes B).
Proof. exact monitor_complete_sound. Qed.
Print Assumptions C17_monitor_complete_sound.

(** Outside the guard the kernel really dies (the guard is necessary, and non-vacuous). *)
Theorem C17_malformed_first_update_panics : forall u, u_voting u = None -> fst (step GInit u) = GPanicked.
Proof. exact first_update_without_voting_panics. Qed.
Print Assumptions C17_malformed_first_update_panics.

Theorem C17_malformed_key_hash_stops :
  exists us, forallb wf_update us = false /\ fst (run_all us) = GStopped.
Proof. exact mixed_key_hash_stops. Qed.
Print Assumptions C17_malformed_key_hash_stops.
