(** C17 - Gossip broadcasts everything the node knows and nothing else.
    This file contains only statements closed by [exact] plus [Print Assumptions]. *)
From Coq Require Import List NArith Bool Permutation.
From GV Require Import Model.GossipData Model.Gossip Monitors.C17m Proofs.Gossip.
Import ListNotations.
Local Open Scope N_scope.

(** Nothing else, per step, for every kernel state and every update (no hypothesis):
    every value sent while processing [u] is made of headers and vote signatures of [u]. *)
Theorem C17_step_sound : forall s u b, In b (snd (step s u)) ->
  incl (bcast_headers b) (update_headers u) /\ incl (bcast_votes b) (update_votes u).
Proof. exact (fun s u => step_sound s u). Qed.
Print Assumptions C17_step_sound.
