(** C13 - Signature proofs merge as verified set union and round-trip.
    Only statements closed by [exact] plus [Print Assumptions]. *)
From Coq Require Import List NArith ZArith.
From GV Require Import Base.Ints Gen.KeyID Model.SimpleProofBase Model.SimpleProof Proofs.SimpleProof.
Import ListNotations.
Local Open Scope N_scope.

Theorem C13_new_total : forall msg keys hash, keys <> [] ->
  new_proof msg keys hash = Ok (mk_proof msg keys hash 0 []).
Proof. exact new_proof_ok. Qed.
Print Assumptions C13_new_total.
