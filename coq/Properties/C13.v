(** C13 - Signature proofs merge as verified set union and round-trip.
    Only statements closed by [exact] plus [Print Assumptions].  Simple scheme
    (gcrypto/simplecommonmessagesignatureproof.go); see design/C13.md for what each means. *)
From Coq Require Import List NArith ZArith Bool Permutation.
From GV Require Import Base.Ints Gen.KeyID Model.SimpleProofBase Model.SimpleProof Monitors.C13m
  Proofs.SimpleProof Proofs.SimpleMerge Proofs.SimpleInv Proofs.SimpleRoundtrip
  Proofs.SimpleFinalize.
Import ListNotations.
Local Open Scope N_scope.

(** flags_spec + total (MergeSparse): never panics; the three flags and the resulting signer set are
    exactly those of the set-union specification [exp_merge_sparse] that the monitor evaluates. *)
Theorem C13_merge_sparse_spec : forall p hash ents,
  exists p' fl, merge_sparse p (hash, ents) = Ok (p', fl) /\
    obs_flags fl (p_bits p') = fst (exp_merge_sparse (mreg_of p) hash ents) /\
    p_bits p' = snd (exp_merge_sparse (mreg_of p) hash ents) /\
    p_msg p' = p_msg p /\ p_keys p' = p_keys p /\ p_hash p' = p_hash p.
Proof. exact merge_sparse_spec. Qed.
Print Assumptions C13_merge_sparse_spec.

Theorem C13_merge_sparse_union : forall p hash ents p' fl i,
  nodup_N (p_keys p) = true ->
  merge_sparse p (hash, ents) = Ok (p', fl) -> bytes_eqb (p_hash p) hash = true ->
  N.testbit (p_bits p') i = N.testbit (p_bits p) i ||
    existsb (fun e => match entry_index (List.length (p_keys p)) (fst e), nth_key (p_keys p) i with
                      | Some n, Some k => N.eqb n i && sig_verify k (p_msg p) (snd e)
                      | _, _ => false end) ents.
Proof. exact merge_sparse_union_ids. Qed.
Print Assumptions C13_merge_sparse_union.

Theorem C13_merge_monotone : forall p s p' fl,
  merge_sparse p s = Ok (p', fl) -> is_superset (p_bits p') (p_bits p) = true.
Proof. exact merge_monotone. Qed.
Print Assumptions C13_merge_monotone.

Theorem C13_merge_idempotent : forall p s p1 fl1,
  merge_sparse p s = Ok (p1, fl1) ->
  exists p2 fl2, merge_sparse p1 s = Ok (p2, fl2) /\ p_bits p2 = p_bits p1 /\
                 fl_increased fl2 = false /\ fl_all_valid fl2 = fl_all_valid fl1.
Proof. exact merge_idempotent. Qed.
Print Assumptions C13_merge_idempotent.

Theorem C13_merge_order_irrelevant : forall p offers offers',
  Permutation offers offers' ->
  exists q q', merge_all p offers = Ok q /\ merge_all p offers' = Ok q' /\ p_bits q = p_bits q'.
Proof. exact merge_order_irrelevant. Qed.
Print Assumptions C13_merge_order_irrelevant.

Theorem C13_merge_entry_order_irrelevant : forall p hash es es' p1 f1 p2 f2,
  Permutation es es' ->
  merge_sparse p (hash, es) = Ok (p1, f1) -> merge_sparse p (hash, es') = Ok (p2, f2) -> p_bits p1 = p_bits p2.
Proof. exact merge_entry_order_irrelevant. Qed.
Print Assumptions C13_merge_entry_order_irrelevant.

(** Invariant over ALL operation sequences of the register machine the correspondence check runs. *)
Theorem C13_no_bit_without_valid_sig : forall tbl ops r p,
  reg_get (exec tbl [] ops) r = Some p ->
  (forall s k, In (s, k) (p_sigs p) ->
     sig_verify k (p_msg p) s = true /\ exists t, key_index (p_keys p) k = Some t /\ N.testbit (p_bits p) t = true) /\
  (forall i, N.testbit (p_bits p) i = true ->
     exists s k, In (s, k) (p_sigs p) /\ key_index (p_keys p) k = Some i /\ sig_verify k (p_msg p) s = true).
Proof. exact no_bit_without_valid_sig. Qed.
Print Assumptions C13_no_bit_without_valid_sig.

Theorem C13_sparse_roundtrip : forall p,
  Inv p -> N.of_nat (List.length (p_keys p)) <= 65536 -> p_keys p <> [] ->
  exists q0 q fl, new_proof (p_msg p) (p_keys p) (p_hash p) = Ok q0 /\
    merge_sparse q0 (as_sparse p) = Ok (q, fl) /\ p_bits q = p_bits p /\ fl_all_valid fl = true.
Proof. exact sparse_roundtrip. Qed.
Print Assumptions C13_sparse_roundtrip.

Theorem C13_validate_finalized_total : forall f hashes,
  f_keys f <> [] -> exists r, validate_finalized f hashes = Ok r.
Proof. exact validate_finalized_total. Qed.
Print Assumptions C13_validate_finalized_total.

(** finalize_validate_roundtrip (simple scheme): for ANY number of rest proofs over the main proof's
    candidate keys and key hash, with pairwise different messages and block hashes, any key-set size up
    to 65536 (the two-byte key id) and any signer sets: ValidateFinalizedProof(Finalize(main, rest))
    never panics, accepts, and returns EXACTLY the per-block signer bit sets the proofs held, in order;
    the uniqueness flag is [pairwise_disjoint] of those sets. *)
Theorem C13_simple_finalize_validate_roundtrip : forall main rest hashes,
  Inv main -> rest_wf main rest ->
  p_keys main <> [] -> N.of_nat (List.length (p_keys main)) <= 65536 ->
  NoDup (map p_msg (main :: rest)) ->
  NoDup (map (fun r => hash_get hashes (p_msg r)) (main :: rest)) ->
  validate_finalized (finalize main rest) hashes =
  Ok (Some (map (out_item hashes) (main :: rest)), pairwise_disjoint (map p_bits (main :: rest))).
Proof. exact simple_finalize_validate_roundtrip. Qed.
Print Assumptions C13_simple_finalize_validate_roundtrip.

(** ... with double signers reported: the flag is false exactly when two blocks share a signer bit. *)
Theorem C13_simple_finalize_reports_double_signers : forall main rest hashes,
  Inv main -> rest_wf main rest ->
  p_keys main <> [] -> N.of_nat (List.length (p_keys main)) <= 65536 ->
  NoDup (map p_msg (main :: rest)) ->
  NoDup (map (fun r => hash_get hashes (p_msg r)) (main :: rest)) ->
  exists out u, validate_finalized (finalize main rest) hashes = Ok (Some out, u) /\
    (u = false <->
     exists i j a b, (i < j)%nat /\ nth_error (map p_bits (main :: rest)) i = Some a /\
       nth_error (map p_bits (main :: rest)) j = Some b /\ N.land a b <> 0).
Proof. exact simple_finalize_reports_double_signers. Qed.
Print Assumptions C13_simple_finalize_reports_double_signers.

(** the hypotheses are satisfiable (two rest proofs, one double signer) and the concrete results. *)
Theorem C13_simple_finalize_example :
  validate_finalized (finalize ex_main [ex_r1]) ex_hashes = Ok (Some [([101], 5); ([102], 2)], true) /\
  validate_finalized (finalize ex_main [ex_r1; ex_r2]) ex_hashes =
    Ok (Some [([101], 5); ([102], 2); ([103], 4)], false).
Proof. exact ex_roundtrip. Qed.
Print Assumptions C13_simple_finalize_example.

Theorem C13_has_sparse_key_id_spec : forall p id,
  has_sparse_key_id p id =
  Ok (match entry_index (List.length (p_keys p)) id with
      | Some n => (N.testbit (p_bits p) n, true)
      | None => (false, false)
      end).
Proof. exact has_sparse_key_id_spec. Qed.
Print Assumptions C13_has_sparse_key_id_spec.

Theorem C13_key_id_valid_spec : forall nkeys id,
  be_uint16_key_id_valid (mk_klc (Z.of_nat nkeys)) id =
  Ok (match entry_index nkeys id with Some _ => true | None => false end).
Proof. exact key_id_valid_spec. Qed.
Print Assumptions C13_key_id_valid_spec.

(* ------------------------------------------------------------------------------------------ *)
(** BLS scheme, finalized key ids: the combinatorial index of gblsminsig/signatureproofscheme.go
    (calculateCombinationIndex / decodeCombinationIndex / binomialCoefficient), Model/CombIndex.v. *)
From GV Require Import Model.CombIndex Proofs.CombIndex.

Theorem C13_binom_pascal : forall n k, binom (n + 1) (k + 1) = binom n k + binom n (k + 1).
Proof. exact binom_pascal. Qed.
Print Assumptions C13_binom_pascal.

Theorem C13_binom_edges : forall n k, binom n 0 = 1 /\ (n < k -> binom n k = 0).
Proof. intros n k. split; [apply binom_0_r|apply binom_gt]. Qed.
Print Assumptions C13_binom_edges.

(** encode never panics on a real subset and the index is below C(n, |S|). *)
Theorem C13_encode_lt_binom : forall n l, asc_in n l ->
  exists idx, encode n (Z.of_nat (length l)) l = Ok idx /\ idx < binom (Z.to_N n) (N.of_nat (length l)).
Proof. exact encode_lt_binom. Qed.
Print Assumptions C13_encode_lt_binom.

Theorem C13_decode_encode : forall n l idx, asc_in n l -> l <> [] ->
  encode n (Z.of_nat (length l)) l = Ok idx -> decode n (Z.of_nat (length l)) idx = Ok (mask_of l).
Proof. exact decode_encode. Qed.
Print Assumptions C13_decode_encode.

(** decode panics exactly for k = 0, k > n or an index >= C(n,k): this is the guard
    [combinationIndexInRange] that ValidateFinalizedProof applies to network input. *)
Theorem C13_decode_total_iff : forall n k idx, (0 <= n)%Z -> (0 <= k)%Z ->
  ((exists m, decode n k idx = Ok m) <-> (1 <= k <= n)%Z /\ idx < binom (Z.to_N n) (Z.to_N k)).
Proof. exact decode_total_iff. Qed.
Print Assumptions C13_decode_total_iff.

Theorem C13_decode_sound : forall n k idx m, (0 <= k)%Z -> decode n k idx = Ok m ->
  exists l, asc_in n l /\ length l = Z.to_nat k /\ m = mask_of l /\ encode n k l = Ok idx.
Proof. exact decode_sound. Qed.
Print Assumptions C13_decode_sound.

Theorem C13_encode_mask_of : forall n l, asc_in n l ->
  encode_mask n (mask_of l) = encode n (Z.of_nat (length l)) l.
Proof. exact encode_mask_of. Qed.
Print Assumptions C13_encode_mask_of.
