(** C02 over ALL event histories of the round state machine model: SIGNER calls.
    [sign_out k h r t] is the call of the signer for kind [k] (KPv prevote / KPc precommit / KPh proposal)
    for height [h], round [r], target / block data [t]. Proofs: Proofs/SMOnceSign.v (on top of the third
    pass of the handler logic, Proofs/SMOnce*.v). Only statements closed by [exact] plus [Print Assumptions]. *)
From Coq Require Import List NArith.
From GV Require Import Base.Ints Gen.Math Gen.StepSM Model.StateMachine Proofs.SMInv Proofs.SMInvStep Proofs.SMRel
  Proofs.SMTheorems Proofs.SMInvActs Proofs.SMWitness Proofs.SMOnce Proofs.SMOnceRel Proofs.SMOnceStep Proofs.SMOnceHist
  Proofs.SMOnceSign.
Import ListNotations.
Local Open Scope N_scope.

(** one_signature_per_kind_per_lifetime. In one process lifetime (a history continued by [es2] without
    Stop from any reachable state), while neither the height nor the round counter is at its last value
    ([nowrap]: rH < 2^64 - 1, rR < 2^32 - 1 in every state passed), two signer calls of the same kind
    for the same (height, round) are one and the same event ... *)
Theorem C02_one_signature_per_kind_per_lifetime : forall sg es1 es2 k h r i j oi oj t1 t2,
  let s1 := final_state (sm0 sg) es1 in
  ~ In EvStop es2 -> along nowrap s1 es2 ->
  nth_error (run_events s1 es2) i = Some oi -> nth_error (run_events s1 es2) j = Some oj ->
  In (sign_out k h r t1) oi -> In (sign_out k h r t2) oj -> i = j.
Proof.
  exact (fun sg es1 es2 k h r i j oi oj t1 t2 NS AL =>
    sign_once_lifetime k h r es2 _ (le7_reachable sg es1) NS AL i j oi oj t1 t2).
Qed.
Print Assumptions C02_one_signature_per_kind_per_lifetime.

(** ... and one event calls the signer at most once (in any state, for any event) *)
Theorem C02_one_signature_per_event : forall s e, (List.length (signs (snd (step s e))) <= 1)%nat.
Proof. exact one_signature_per_event. Qed.
Print Assumptions C02_one_signature_per_event.

(** without any guard: between two signer calls of one kind anywhere in the output history (restarts
    included) a round entrance is announced *)
Theorem C02_one_signature_per_kind_between_entrances : forall k sg es a x b y c,
  List.concat (run_events (sm0 sg) es) = a ++ x :: b ++ y :: c ->
  is_sign_k k x = true -> is_sign_k k y = true -> exists z, In z b /\ is_ent z = true.
Proof. exact (fun k sg es => sign_once k sg es). Qed.
Print Assumptions C02_one_signature_per_kind_between_entrances.

(** who signs: in every state, an event that calls the signer is the strategy's answer (vote) or proposal,
    delivered to an idle machine whose channel of that kind is still open (proposal: handed out);
    the call is for the round the machine is in, it is the only signer call of the event, and if the
    machine is idle afterwards that channel is closed *)
Theorem C02_signer_call_closes_its_channel : forall s e k x,
  In x (snd (step s e)) -> is_sign_k k x = true ->
  run s = Idle /\ (exists t, x = sign_out k (rH (rl s)) (rR (rl s)) t) /\ ~ closed k s /\
  (run (fst (step s e)) = Idle -> closed k (fst (step s e))) /\ signs (snd (step s e)) = [x].
Proof. exact sign_k_facts. Qed.
Print Assumptions C02_signer_call_closes_its_channel.

(* Across restarts the statement is FALSE of the model and of the code (known finding
   restart-resigns-then-halts, Proofs/SMWitness.v w3: the signer is invoked again for (1,0), then the
   action store refuses and the machine halts). With a wrapping round counter (2^32 rounds in one height)
   the machine would sign again for (h, 0): the guard [nowrap] is needed; no witness is given (2^32 events). *)

(** the hypotheses are satisfiable: a lifetime through two rounds with one signature of each kind *)
Theorem C02Once_example :
  along nowrap (sm0 true) ex_sign_hist /\ ~ In EvStop ex_sign_hist /\
  signs (List.concat (run_events (sm0 true) ex_sign_hist)) =
    [OSignPrevote 1 0 [7]; OSignPrecommit 1 0 [7]; OSignProposal 1 1 [9]] /\
  filter is_ent (List.concat (run_events (sm0 true) ex_sign_hist)) =
    [ORoundEntrance 1 0 true true; ORoundEntrance 1 1 true true].
Proof. exact ex_signs. Qed.
Print Assumptions C02Once_example.
