(** C02 over ALL event histories of the round state machine model: SIGNER calls.
    [sign_out k h r t] is the call of the signer for kind [k] (KPv prevote / KPc precommit / KPh proposal)
    for height [h], round [r], target / block data [t]. Proofs: Proofs/SMOnceSign.v (on top of the third
    pass of the handler logic, Proofs/SMOnce*.v). Only statements closed by [exact] plus [Print Assumptions]. *)
From Coq Require Import List NArith.
From GV Require Import Base.Ints Gen.Math Gen.StepSM Model.StateMachine Proofs.SMInv Proofs.SMInvStep Proofs.SMRel
  Proofs.SMTheorems Proofs.SMInvActs Proofs.SMWitness Proofs.SMOnce Proofs.SMOnceRel Proofs.SMOnceStep Proofs.SMOnceHist
  Proofs.SMOnceSign Proofs.SMOncePH.
Import ListNotations.
Local Open Scope N_scope.

(** one_signature_per_kind_per_lifetime. In one process lifetime (a history continued by [es2] without
    Stop from any reachable state), while neither the height nor the round counter is at its last value
    ([nowrap]: rH < 2^64 - 1, rR < 2^32 - 1 in every state passed), two signer calls of the same kind
    for the same (height, round) are one and the same event ... *)
Theorem C02_one_signature_per_kind_per_lifetime : forall sg es1 es2 k h r i j oi oj t1 t2,
  let s1 := final_state (sm0 sg) es1 in
  ~ In EvStop es2 -> along nowrap s1 es2 ->
  nth_error (run_events s1 es2) i = Some oi -> nth_error (run_events s1 es2) j = Some oj ->
  In (sign_out k h r t1) oi -> In (sign_out k h r t2) oj -> i = j.
Proof.
  exact (fun sg es1 es2 k h r i j oi oj t1 t2 NS AL =>
    sign_once_lifetime k h r es2 _ (le7_reachable sg es1) NS AL i j oi oj t1 t2).
Qed.
Print Assumptions C02_one_signature_per_kind_per_lifetime.

(** ... and one event calls the signer at most once (in any state, for any event) *)
Theorem C02_one_signature_per_event : forall s e, (List.length (signs (snd (step s e))) <= 1)%nat.
Proof. exact one_signature_per_event. Qed.
Print Assumptions C02_one_signature_per_event.

(** without any guard: between two signer calls of one kind anywhere in the output history (restarts
    included) a round entrance is announced *)
Theorem C02_one_signature_per_kind_between_entrances : forall k sg es a x b y c,
  List.concat (run_events (sm0 sg) es) = a ++ x :: b ++ y :: c ->
  is_sign_k k x = true -> is_sign_k k y = true -> exists z, In z b /\ is_ent z = true.
Proof. exact (fun k sg es => sign_once k sg es). Qed.
Print Assumptions C02_one_signature_per_kind_between_entrances.

(** who signs: in every state, an event that calls the signer is the strategy's answer (vote) or proposal,
    delivered to an idle machine whose channel of that kind is still open (proposal: handed out);
    the call is for the round the machine is in, it is the only signer call of the event, and if the
    machine is idle afterwards that channel is closed *)
Theorem C02_signer_call_closes_its_channel : forall s e k x,
  In x (snd (step s e)) -> is_sign_k k x = true ->
  run s = Idle /\ (exists t, x = sign_out k (rH (rl s)) (rR (rl s)) t) /\ ~ closed k s /\
  (run (fst (step s e)) = Idle -> closed k (fst (step s e))) /\ signs (snd (step s e)) = [x].
Proof. exact sign_k_facts. Qed.
Print Assumptions C02_signer_call_closes_its_channel.

(* Across restarts the statement is FALSE of the model and of the code (known finding
   restart-resigns-then-halts, Proofs/SMWitness.v w3: the signer is invoked again for (1,0), then the
   action store refuses and the machine halts). With a wrapping round counter (2^32 rounds in one height)
   the machine would sign again for (h, 0): the guard [nowrap] is needed; no witness is given (2^32 events). *)

(** the hypotheses are satisfiable: a lifetime through two rounds with one signature of each kind *)
Theorem C02Once_example :
  along nowrap (sm0 true) ex_sign_hist /\ ~ In EvStop ex_sign_hist /\
  signs (List.concat (run_events (sm0 true) ex_sign_hist)) =
    [OSignPrevote 1 0 [7]; OSignPrecommit 1 0 [7]; OSignProposal 1 1 [9]] /\
  filter is_ent (List.concat (run_events (sm0 true) ex_sign_hist)) =
    [ORoundEntrance 1 0 true true; ORoundEntrance 1 1 true true].
Proof. exact ex_signs. Qed.
Print Assumptions C02Once_example.

(** ** Proposals: the variants of the emission theorems of Properties/C02Inv.v
    (OSignProposal / OSavePH / OEmitPH; a recorded proposal is re-sent at start-up) *)

(** every proposed header emitted, in any reachable state: afterwards the action store holds exactly this
    block data as the proposal of (h, r); and either it is FRESH - the event is the strategy's proposal,
    the store had none for (h, r), the header was signed and saved (result 0) in the same event - or it is
    the RE-SENDING at start-up (first round entrance response of a lifetime) of what the store already held *)
Theorem C02_proposal_emitted_was_signed_and_saved_or_recorded : forall sg es e h r d,
  let s := final_state (sm0 sg) es in
  In (OEmitPH h r d) (snd (step s e)) ->
  ra_ph (getra (aStore (fst (step s e))) h r) = Some d /\
  ((e = EvProposal d /\ ra_ph (getra (aStore s) h r) = None /\ In (OSignProposal h r d) (snd (step s e)) /\
    exists p, In (OSavePH h r 0 p) (snd (step s e))) \/
   ((exists v, e = EvRERespVRV v) /\ run s = AwaitInit /\ ra_ph (getra (aStore s) h r) = Some d)).
Proof. exact (fun sg es e h r d => emit_ph_step _ e h r d (Inv_final _ es (Inv_init sg))). Qed.
Print Assumptions C02_proposal_emitted_was_signed_and_saved_or_recorded.

(** at most one proposal of one block data per (height, round) is EVER emitted: any two emissions for the
    same (h, r) in one history - restarts included - carry the same block data *)
Theorem C02_one_proposal_data_ever : forall sg es i j oi oj h r d1 d2,
  nth_error (run_events (sm0 sg) es) i = Some oi -> nth_error (run_events (sm0 sg) es) j = Some oj ->
  In (OEmitPH h r d1) oi -> In (OEmitPH h r d2) oj -> d1 = d2.
Proof. exact (fun sg es => emit_ph_one_data es _ (Inv_init sg)). Qed.
Print Assumptions C02_one_proposal_data_ever.

(** and a proposal that is not a re-sending (its event is not a round entrance response) is emitted at
    most once per (height, round), ever *)
Theorem C02_one_fresh_proposal_ever : forall sg es i j oi oj h r d1 d2 ei ej,
  nth_error (run_events (sm0 sg) es) i = Some oi -> nth_error (run_events (sm0 sg) es) j = Some oj ->
  nth_error es i = Some ei -> nth_error es j = Some ej ->
  (forall v, ei <> EvRERespVRV v) -> (forall v, ej <> EvRERespVRV v) ->
  In (OEmitPH h r d1) oi -> In (OEmitPH h r d2) oj -> i = j.
Proof. exact (fun sg es => emit_ph_fresh_once es _ (Inv_init sg)). Qed.
Print Assumptions C02_one_fresh_proposal_ever.

(** non-vacuity: a proposal emitted in round (1,0) and re-sent with the same data after a restart *)
Theorem C02Once_example_proposal :
  filter is_emit_ph (List.concat (run_events (sm0 true) ex_ph_hist)) = [OEmitPH 1 0 [9]; OEmitPH 1 0 [9]] /\
  filter is_emit_ph (nth 2 (run_events (sm0 true) ex_ph_hist) []) = [OEmitPH 1 0 [9]] /\
  filter is_emit_ph (nth 5 (run_events (sm0 true) ex_ph_hist) []) = [OEmitPH 1 0 [9]].
Proof. exact ex_ph_resend. Qed.
Print Assumptions C02Once_example_proposal.
