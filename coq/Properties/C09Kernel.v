(** C09, kernel part - "no network message, well formed or malformed, signed or unsigned, for any
    height or round, makes the engine panic": totality of the mirror kernel model
    ([Model/Mirror.v], [step]; a [Panic] result models a Go panic in the kernel goroutine).
    This file contains only statements closed by [exact] plus [Print Assumptions].

    FULL-STRENGTH STATEMENT (over [reachable_b], i.e. histories of arbitrary inputs with bounded
    heights, and with no condition on the validator sets that proposed headers carry):

      forall ih ivs s o, 1 <= ih -> vs_ok ivs = true -> 0 < sum_pows (vs_pows ivs) ->
        reachable_b ih ivs s -> op_bounded o ->
        match o with OpPH _ | OpPrevote _ | OpPrecommit _ => exists s' r, step s o = Ok (s', r) | ... end

    is FALSE of the model: [C09_kernel_message_panics_refuted] (a committed header whose
    NextValidators set has total power 0).  What holds ([C09_kernel_messages_never_panic_partial])
    is the statement over histories in which every proposed header that the mirror ACCEPTED, and
    every replayed header that it APPLIED, announces a NEXT validator set of non-zero total power
    ([reachable_a], [step_adm]) - i.e. the application never returns a validator set of total power 0.  Nothing is
    assumed about a header's OWN validator set (the kernel compares it with the set of the view the
    header belongs to; a zero-power own set is rejected: [C09_kernel_zero_own_valset_rejected]),
    and the message [o] that is delivered last is completely arbitrary (no bound on its height, no
    condition on its validator sets).

    Definitions used below (Proofs/MirrorTotal.v):
      pow_ok vs      := 0 < sum_pows (vs_pows vs)               (uint64 sum, as the kernel computes it)
      step_adm o res := OpPH p => res = HandleProposedHeaderAccepted -> pow_ok (hd_next (ph_hdr p))
                        | OpReplay x cp => res = 0 -> pow_ok (hd_next x) | votes => True
      op_wf o        := OpPH p => pow_ok (hd_next (ph_hdr p)) | OpReplay x cp => pow_ok (hd_next x) | votes => True   (implies step_adm o res)
      reachable_a    := init_state, closed under [step s o = Ok (s', res)] with [op_bounded o] and [step_adm o res]
      replay_round_bounded o := OpReplay _ cp => cp_round cp < two32 | _ => True   (a uint32 in Go)
      replay_earlier_guard s x cp := (hd_height x =? v_h (k_vot s)) && (cp_round cp <? v_r (k_vot s))
      replay_fuel_guard s x cp    := (hd_height x =? v_h (k_vot s)) && (v_r (k_vot s) <=? cp_round cp)
                                     && negb (the jump loop arrived at round cp_round cp of the same height)
    Invariant: [tinv] = [aok] /\ [pok] (on top of [INV] of Proofs/MirrorCert.v).

    Repaired in the Go code since the first version of this file (each followed by the model):
      - the round store refusing a replayed header no longer panics the kernel main loop (the former
        third Panic site of [handle_replay] is gone);
      - HandleProposedHeader rejects a header whose own validator set differs from its view's set
        (the former second refutation witness is rejected; no hypothesis on [hd_vals] is left);
      - handleReplayedHeader validates before it mutates: a rejected replay returns the state
        unchanged ([C09_kernel_replay_rejected_is_identity]), so only an APPLIED replay (result 0)
        has to announce a next validator set of non-zero power, and the uint32 bound on the replayed
        round is no longer part of the history hypothesis (only of the message delivered last). *)
From Coq Require Import List NArith String.
From GV Require Import Base.Ints Gen.Math Gen.Kernel Model.Mirror
  Proofs.MirrorChain Proofs.MirrorCert Proofs.MirrorTotal.
Import ListNotations.
Local Open Scope N_scope.

(** No peer message panics the kernel; a replayed header panics it exactly when the guard of the
    one Panic site inside [handle_replay] holds (replay for a round the mirror already left).
    PARTIAL with respect to the full-strength statement above: the history must be admissible
    ([reachable_a] instead of [reachable_b]); what is missing is excluded by
    [C09_kernel_message_panics_refuted]. *)
Theorem C09_kernel_messages_never_panic_partial : forall ih ivs s o,
  1 <= ih -> vs_ok ivs = true -> 0 < sum_pows (vs_pows ivs) ->
  reachable_a ih ivs s -> replay_round_bounded o ->
  match o with
  | OpPH _ | OpPrevote _ | OpPrecommit _ => exists s' r, step s o = Ok (s', r)
  | OpReplay x cp =>
      ((exists s' r, step s o = Ok (s', r)) /\ replay_earlier_guard s x cp = false) \/
      (replay_earlier_guard s x cp = true /\ step s o = Panic site_replay_earlier)
  end.
Proof. exact kernel_messages_never_panic. Qed.
Print Assumptions C09_kernel_messages_never_panic_partial.

(** The same without any bound on the replayed round: both guards of [handle_replay] are exact. *)
Theorem C09_kernel_messages_never_panic_any_round_partial : forall ih ivs s o,
  1 <= ih -> vs_ok ivs = true -> 0 < sum_pows (vs_pows ivs) ->
  reachable_a ih ivs s ->
  match o with
  | OpPH _ | OpPrevote _ | OpPrecommit _ => exists s' r, step s o = Ok (s', r)
  | OpReplay x cp =>
      ((exists s' r, step s o = Ok (s', r)) /\
       replay_earlier_guard s x cp = false /\ replay_fuel_guard s x cp = false) \/
      (replay_earlier_guard s x cp = true /\ step s o = Panic site_replay_earlier) \/
      (replay_fuel_guard s x cp = true /\ step s o = Panic site_replay_fuel)
  end.
Proof. exact kernel_messages_never_panic_any_round. Qed.
Print Assumptions C09_kernel_messages_never_panic_any_round_partial.

(** The invariant behind it, for every state reachable through admissible inputs: the available
    power of the voting and next-round views is in [1, 2^64), the committing header's validator
    set has non-zero power, and so have both validator sets of every proposed header the voting /
    next-round views hold. *)
Theorem C09_kernel_invariant : forall ih ivs s,
  1 <= ih -> vs_ok ivs = true -> 0 < sum_pows (vs_pows ivs) -> reachable_a ih ivs s ->
  (1 <= sm_avail (v_sum (k_vot s)) /\ sm_avail (v_sum (k_vot s)) < two64) /\
  (1 <= sm_avail (v_sum (k_nxt s)) /\ sm_avail (v_sum (k_nxt s)) < two64) /\
  (forall ch, k_chdr s = Some ch -> 0 < sum_pows (vs_pows (hd_vals ch))) /\
  (forall p, In p (v_phs (k_vot s)) \/ In p (v_phs (k_nxt s)) ->
     0 < sum_pows (vs_pows (hd_vals (ph_hdr p))) /\ 0 < sum_pows (vs_pows (hd_next (ph_hdr p)))).
Proof. exact reachable_tinv_explicit. Qed.
Print Assumptions C09_kernel_invariant.

(** Totality in any state that satisfies the invariants, however it was reached. *)
Theorem C09_kernel_total_in_good_states : forall ih ivs s o,
  INV ih ivs s -> tinv s -> replay_round_bounded o ->
  match o with
  | OpReplay x cp => (exists s' r, step s o = Ok (s', r)) \/ step s o = Panic site_replay_earlier
  | _ => exists s' r, step s o = Ok (s', r)
  end.
Proof. exact kernel_total_in_good_states. Qed.
Print Assumptions C09_kernel_total_in_good_states.

(** The admissibility hypothesis cannot be dropped: a precommit (well formed, correctly signed)
    panics the kernel in a state reached by a proposed header (whose NextValidators set has total
    power 0) and a precommit. *)
Theorem C09_kernel_message_panics_refuted :
  exists ih ivs s o site,
    1 <= ih /\ vs_ok ivs = true /\ 0 < sum_pows (vs_pows ivs) /\
    reachable_b ih ivs s /\ op_bounded o /\ op_wf o /\
    (exists m, o = OpPrecommit m) /\
    step s o = Panic site.
Proof. exact message_panics_refuted. Qed.
Print Assumptions C09_kernel_message_panics_refuted.

(** The former second witness (own validator set of total power 0) is rejected now. *)
Theorem C09_kernel_zero_own_valset_rejected :
  step (init_state 1 ex_vs) (OpPH (ex_ph ex_zero ex_vs)) = Ok (init_state 1 ex_vs, HandleProposedHeaderBadBlockHash).
Proof. exact zero_own_valset_rejected. Qed.
Print Assumptions C09_kernel_zero_own_valset_rejected.

(** The Panic site of [handle_replay]: its guard is exact and it is reachable. *)
Theorem C09_kernel_replay_earlier_guard_panics : forall s x cp,
  replay_earlier_guard s x cp = true -> step s (OpReplay x cp) = Panic site_replay_earlier.
Proof. exact replay_earlier_panics. Qed.
Print Assumptions C09_kernel_replay_earlier_guard_panics.

Theorem C09_kernel_replay_earlier_round_reachable :
  reachable_a 1 ex_vs (state_after ops_round1) /\
  replay_earlier_guard (state_after ops_round1) (ex_hdr ex_vs ex_vs) (mk_cproof 0 [1] []) = true /\
  step (state_after ops_round1) (OpReplay (ex_hdr ex_vs ex_vs) (mk_cproof 0 [1] [])) = Panic site_replay_earlier.
Proof. exact replay_earlier_round_reachable. Qed.
Print Assumptions C09_kernel_replay_earlier_round_reachable.

(** The input that used to hit the "round store refused the replayed header" site is handled:
    the header is filed as a proposed header of the replayed round and committed. *)
Theorem C09_kernel_replay_store_refused_is_ok :
  reachable_a 1 ex_vs (state_after ops_ph_round1) /\
  exists s', step (state_after ops_ph_round1) (OpReplay (ex_hdr ex_vs ex_vs) ex_cp_round1) = Ok (s', 0) /\
             In (WPH (fake_ph (ex_hdr ex_vs ex_vs) 1)) (st_log s').
Proof. exact replay_store_refused_is_ok. Qed.
Print Assumptions C09_kernel_replay_store_refused_is_ok.

(** A rejected replay (any result other than 0) leaves the state exactly as it was - for EVERY
    state, header and commit proof. *)
Theorem C09_kernel_replay_rejected_is_identity : forall s x cp s' res,
  step s (OpReplay x cp) = Ok (s', res) -> res <> 0 -> s' = s.
Proof. exact replay_rejected_is_identity. Qed.
Print Assumptions C09_kernel_replay_rejected_is_identity.

Theorem C09_kernel_replay_rejected_example :
  step (init_state 1 ex_vs) (OpReplay (ex_hdr ex_vs ex_vs) (mk_cproof 1 [1] [])) = Ok (init_state 1 ex_vs, 2).
Proof. exact replay_rejected_example. Qed.
Print Assumptions C09_kernel_replay_rejected_example.

(** The model's "out of fuel" site is unreachable: its guard is false in every reachable state
    (even over [reachable_b]) once the replayed round is a uint32 ... *)
Theorem C09_kernel_replay_fuel_guard_false : forall ih ivs s x cp,
  1 <= ih -> vs_ok ivs = true -> reachable_b ih ivs s -> cp_round cp < two32 ->
  replay_fuel_guard s x cp = false.
Proof. exact replay_fuel_site_unreachable. Qed.
Print Assumptions C09_kernel_replay_fuel_guard_false.

Theorem C09_kernel_replay_fuel_guard_panics : forall s x cp,
  replay_fuel_guard s x cp = true -> step s (OpReplay x cp) = Panic site_replay_fuel.
Proof. exact replay_fuel_guard_panics. Qed.
Print Assumptions C09_kernel_replay_fuel_guard_panics.

(** ... and [step] never returns it. *)
Theorem C09_kernel_replay_never_out_of_fuel : forall ih ivs s x cp,
  1 <= ih -> vs_ok ivs = true -> 0 < sum_pows (vs_pows ivs) -> reachable_a ih ivs s ->
  cp_round cp < two32 -> step s (OpReplay x cp) <> Panic site_replay_fuel.
Proof. exact replay_never_out_of_fuel. Qed.
Print Assumptions C09_kernel_replay_never_out_of_fuel.

(** [handle_replay'], on which the guard is phrased, is the model's [handle_replay]. *)
Theorem C09_kernel_replay_restructured : forall s x cp, handle_replay s x cp = handle_replay' s x cp.
Proof. exact handle_replay_eq. Qed.
Print Assumptions C09_kernel_replay_restructured.

(** The round bound on the replayed commit proof is needed in the model (its rounds are [N]; a
    uint32 in Go). *)
Theorem C09_kernel_replay_fuel_site_needs_round_bound :
  step (init_state 1 ex_vs) (OpReplay (ex_hdr ex_vs ex_vs) (mk_cproof two32 [1] [])) = Panic site_replay_fuel.
Proof. exact replay_fuel_site_needs_round_bound. Qed.
Print Assumptions C09_kernel_replay_fuel_site_needs_round_bound.

(** The hypotheses are satisfiable. *)
Theorem C09_kernel_hypotheses_satisfiable : 1 <= 1 /\ vs_ok ex_vs = true /\ 0 < sum_pows (vs_pows ex_vs).
Proof. exact ex_hypotheses. Qed.
Print Assumptions C09_kernel_hypotheses_satisfiable.
