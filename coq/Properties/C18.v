(** C18 - Byzantine thresholds are exact for every total power.
    This file contains only statements closed by [exact] plus [Print Assumptions]. *)
From Coq Require Import List NArith.
From GV Require Import Base.Ints Gen.Math Proofs.Thresholds.
Import ListNotations.
Local Open Scope N_scope.

Theorem C18_maj_least : forall n, 1 <= n /\ n < two64 ->
  exists m, byz_majority n = Ok m /\ m < two64 /\ 3 * m > 2 * n /\ (forall k, 3 * k > 2 * n -> m <= k).
Proof. exact maj_least. Qed.
Print Assumptions C18_maj_least.

Theorem C18_min_least : forall n, 1 <= n /\ n < two64 ->
  exists m, byz_minority n = Ok m /\ m < two64 /\ 3 * m >= n /\ (forall k, 3 * k >= n -> m <= k).
Proof. exact min_least. Qed.
Print Assumptions C18_min_least.

Theorem C18_no_wrap : forall n, 1 <= n /\ n < two64 ->
  byz_majority n = Ok (maj n) /\ byz_minority n = Ok (mnr n) /\
  2 * (n / 3) + 2 < two64 /\ n / 3 + 1 < two64.
Proof. exact no_wrap. Qed.
Print Assumptions C18_no_wrap.

Theorem C18_zero_panics :
  (exists s, byz_majority 0 = Panic s) /\ (exists s, byz_minority 0 = Panic s).
Proof. exact zero_panics. Qed.
Print Assumptions C18_zero_panics.

Theorem C18_quorum_overlap : forall n a b, 1 <= n -> a <= n -> b <= n ->
  maj n <= a -> maj n <= b -> mnr n <= a + b - n /\ n <= a + b.
Proof. exact quorum_overlap. Qed.
Print Assumptions C18_quorum_overlap.

Theorem C18_minority_cannot_block : forall n x, 1 <= n -> x <= n -> x < mnr n ->
  x < maj n /\ maj n <= n - x.
Proof. exact minority_cannot_block. Qed.
Print Assumptions C18_minority_cannot_block.

Theorem C18_weighted_quorum_overlap : forall vals a b, 1 <= total vals ->
  maj (total vals) <= pow vals a -> maj (total vals) <= pow vals b ->
  mnr (total vals) <= pow vals (N.land a b).
Proof. exact weighted_quorum_overlap. Qed.
Print Assumptions C18_weighted_quorum_overlap.

Theorem C18_model_satisfies_monitor : forall n, 1 <= n /\ n < two64 ->
  exists a b, byz_majority n = Ok a /\ byz_minority n = Ok b /\
              GV.Monitors.C18m.c18_mon n (Some a) (Some b) = true.
Proof. exact model_satisfies_c18_mon. Qed.
Print Assumptions C18_model_satisfies_monitor.
