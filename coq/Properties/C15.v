(** C15 - Block hashes bind all header fields; sign bytes are domain separated.
    This file contains only statements closed by [exact] plus [Print Assumptions].
    Model: Model/HashScheme.v (ser_header = the bytes SimpleHashScheme.Block feeds to BLAKE2b-256),
    Model/SignBytes.v (the bytes SimpleSignatureScheme signs). [H] is an arbitrary function. *)
From Coq Require Import List NArith Permutation.
From GV Require Import Base.Ints Model.TextFmt Model.HashScheme Model.SignBytes Monitors.C15m
  Proofs.TextFmt Proofs.SignBytes Proofs.HashScheme Proofs.C15Monitor.
Import ListNotations.
Local Open Scope N_scope.

(** The stored Hash field is not consulted. *)
Theorem C15_ser_ignores_hash_field : forall h x, ser_header (with_hash x h) = ser_header h.
Proof. exact ser_ignores_hash_field. Qed.
Print Assumptions C15_ser_ignores_hash_field.

(** Scope statement: the validator LISTS are not hashed, only their two hashes are. *)
Theorem C15_ser_ignores_validator_lists : forall h v v', ser_header (with_validators v v' h) = ser_header h.
Proof. exact ser_ignores_validator_lists. Qed.
Print Assumptions C15_ser_ignores_validator_lists.

(** Map iteration order and signature order do not matter: equivalent headers serialise equally. *)
Theorem C15_ser_perm_invariant : forall a b, wf_header a -> wf_header b -> hdr_equiv a b ->
  ser_header a = ser_header b.
Proof. exact ser_perm_invariant. Qed.
Print Assumptions C15_ser_perm_invariant.

Theorem C15_map_order_is_equiv : forall pa pb, proofs_ok pa -> Permutation pa pb -> proofs_equiv pa pb.
Proof. exact perm_proofs_equiv. Qed.
Print Assumptions C15_map_order_is_equiv.

(** Every field other than Hash is bound, including every entry of the previous-commit proof. *)
Theorem C15_ser_injective : forall a b, wf_header a -> wf_header b ->
  ser_header a = ser_header b -> hdr_equiv a b.
Proof. exact ser_injective. Qed.
Print Assumptions C15_ser_injective.

Theorem C15_block_hash_binds : forall (H : list N -> list N) a b, wf_header a -> wf_header b ->
  block_hash H a = block_hash H b -> hdr_equiv a b \/ collision H (ser_header a) (ser_header b).
Proof. exact block_hash_binds. Qed.
Print Assumptions C15_block_hash_binds.

Theorem C15_block_hash_respects_equiv : forall (H : list N -> list N) a b, wf_header a -> wf_header b ->
  hdr_equiv a b -> block_hash H a = block_hash H b.
Proof. exact block_hash_respects_equiv. Qed.
Print Assumptions C15_block_hash_respects_equiv.

(** Votes: kind, height, round and block hash (nil = []) are determined by the signed bytes. *)
Theorem C15_sign_bytes_injective : forall k k' vt vt', vt_ok vt -> vt_ok vt' ->
  vote_sign_bytes k vt = vote_sign_bytes k' vt' -> k = k' /\ vt = vt'.
Proof. exact sign_bytes_injective. Qed.
Print Assumptions C15_sign_bytes_injective.

Theorem C15_proposal_bytes_injective : forall h r pb h' r' pb', proposal_ok h pb -> proposal_ok h' pb' ->
  proposal_sign_bytes h r pb = proposal_sign_bytes h' r' pb' -> proposal_same h r pb h' r' pb'.
Proof. exact proposal_bytes_injective. Qed.
Print Assumptions C15_proposal_bytes_injective.

(** Scope statement: a proposal signature covers exactly the fields of [proposal_same]. *)
Theorem C15_proposal_bytes_only_signed_fields : forall h r pb h' r' pb',
  proposal_same h r pb h' r' pb' -> proposal_sign_bytes h r pb = proposal_sign_bytes h' r' pb'.
Proof. exact proposal_bytes_only_signed_fields. Qed.
Print Assumptions C15_proposal_bytes_only_signed_fields.

Theorem C15_kinds_disjoint : forall k vt vt' h r pb,
  prevote_sign_bytes vt <> precommit_sign_bytes vt' /\ vote_sign_bytes k vt <> proposal_sign_bytes h r pb.
Proof. intros; split; [apply prevote_precommit_disjoint | apply vote_proposal_disjoint]. Qed.
Print Assumptions C15_kinds_disjoint.

(** All sign targets at once: a signature can never be reinterpreted as a different message. *)
Theorem C15_sign_target_injective : forall a b, target_ok a -> target_ok b ->
  sign_bytes a = sign_bytes b -> target_same a b.
Proof. exact sign_target_injective. Qed.
Print Assumptions C15_sign_target_injective.

Theorem C15_model_satisfies_sign_monitor : forall a b, target_ok a -> target_ok b ->
  c15_sign_pair_mon a (sign_bytes a) b (sign_bytes b) = true.
Proof. exact model_satisfies_sign_mon. Qed.
Print Assumptions C15_model_satisfies_sign_monitor.

(** The boolean used by the block monitor decides header equivalence. *)
Theorem C15_hdr_equivb_decides : forall a b, hdr_equivb a b = true <-> hdr_equiv a b.
Proof. exact hdr_equivb_equiv. Qed.
Print Assumptions C15_hdr_equivb_decides.

(** The model's outputs satisfy the block pair monitor, or exhibit a collision of H. *)
Theorem C15_model_satisfies_block_monitor : forall (H : list N -> list N) a b, wf_header a -> wf_header b ->
  c15_block_pair_mon a (block_hash H a) b (block_hash H b) = true \/ collision H (ser_header a) (ser_header b).
Proof. exact model_satisfies_block_mon. Qed.
Print Assumptions C15_model_satisfies_block_monitor.
