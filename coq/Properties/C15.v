(** C15 - Block hashes bind all header fields; sign bytes are domain separated.
    This file contains only statements closed by [exact] plus [Print Assumptions]. *)
From Coq Require Import List NArith.
From GV Require Import Base.Ints Model.TextFmt Model.HashScheme Model.SignBytes Proofs.TextFmt.
Import ListNotations.
Local Open Scope N_scope.

Theorem C15_dec_injective : forall n m, dec n = dec m -> n = m.
Proof. exact dec_inj. Qed.
Print Assumptions C15_dec_injective.
