(** C12 (a) - timer discipline of the round state machine model over ALL event histories from the
    initial state (both signer settings), by the inductive invariant [Inv] (Proofs/SMInvStep.v).
    Only statements closed by [exact] plus [Print Assumptions]. *)
From Coq Require Import List NArith.
From GV Require Import Base.Ints Gen.Math Gen.StepSM Model.StateMachine Proofs.SMInv Proofs.SMInvStep
  Proofs.SMInvTimer Proofs.SMWitness.
Import ListNotations.
Local Open Scope N_scope.

(** the invariant is inductive: it holds initially, every event preserves it *)
Theorem C12sm_invariant_initial : forall sg, Inv (sm0 sg).
Proof. exact Inv_init. Qed.
Print Assumptions C12sm_invariant_initial.

Theorem C12sm_invariant_step : forall s e, Inv s -> Inv (fst (step s e)) /\ Forall Po (snd (step s e)).
Proof. exact step_inv. Qed.
Print Assumptions C12sm_invariant_step.

(** at_most_one_timer: in every history a timer is never started while another one is outstanding
    (the overlap flag the model computes from the outstanding timer is false) *)
Theorem C12sm_at_most_one_timer : forall sg es outs k h r ov,
  In outs (run_events (sm0 sg) es) -> In (OTimerStart k h r ov) outs -> ov = false.
Proof. exact no_timer_overlap. Qed.
Print Assumptions C12sm_at_most_one_timer.

(** timer_iff_timed_step, direction "timer -> step": in every reachable live state an outstanding timer
    (k, h, r) is the one the machine believes to be running, the machine is idle in round (h, r), in the
    timed step of kind k (1 proposal timeout / AwaitingProposal, 2 PrevoteDelay, 3 PrecommitDelay,
    4 CommitWait) *)
Theorem C12sm_outstanding_timer_matches_step : forall sg es k h r,
  let s := final_state (sm0 sg) es in
  alive s -> hTimer s = Some (k, h, r) ->
  run s = Idle /\ rTimer (rl s) = Some (k, h, r) /\ h = rH (rl s) /\ r = rR (rl s) /\ 1 <= k <= 4 /\
  rS (rl s) = tstep k /\ rVRV (rl s) <> None.
Proof. exact outstanding_timer_matches_step. Qed.
Print Assumptions C12sm_outstanding_timer_matches_step.

(** the timer the machine believes to be running is outstanding (none is lost), and none is outstanding
    before the start or while a round entrance response is awaited *)
Theorem C12sm_believed_timer_is_outstanding : forall sg es,
  let s := final_state (sm0 sg) es in
  alive s -> rTimer (rl s) = hTimer s /\ (run s <> Idle -> hTimer s = None).
Proof. exact believed_timer_is_outstanding. Qed.
Print Assumptions C12sm_believed_timer_is_outstanding.

(** every exit from a timed step cancels its timer *)
Theorem C12sm_exit_from_timed_step_cancels : forall sg es e k h r,
  let s := final_state (sm0 sg) es in
  let s' := fst (step s e) in
  alive s' -> hTimer s = Some (k, h, r) ->
  (rS (rl s') <> tstep k \/ rH (rl s') <> h \/ rR (rl s') <> r) -> hTimer s' <> Some (k, h, r).
Proof. exact exit_from_timed_step_cancels. Qed.
Print Assumptions C12sm_exit_from_timed_step_cancels.

(* timer_iff_timed_step, direction "step -> timer" (forall reachable idle s, rS s = tstep k -> hTimer s =
   Some (k, rH s, rR s)) is false of the faithful model: after a committed-header response inside advance
   the step of the previous round stays and no timer is armed. *)
Theorem C12sm_timed_step_has_timer_refuted :
  let s := final_state (sm0 true) w_stale_step in
  run s = Idle /\ rS (rl s) = StepAwaitingProposal /\ (rH (rl s), rR (rl s)) = (1, 1) /\
  hTimer s = None /\ rTimer (rl s) = None.
Proof. exact timed_step_has_timer_refuted. Qed.
Print Assumptions C12sm_timed_step_has_timer_refuted.

(** the hypotheses are satisfiable on a non-trivial history *)
Theorem C12sm_example :
  let s := final_state (sm0 true) ex_timer_hist in
  run s = Idle /\ hTimer s = Some (2, 1, 0) /\ rS (rl s) = StepPrevoteDelay /\
  List.concat (run_events (sm0 true) ex_timer_hist) =
    [ORoundEntrance 1 0 true true; OEnterRound 1 0 true; OTimerStart 1 1 0 false;
     OTimerCancel 1 1 0 true; OTimerStart 2 1 0 false;
     OConsider [[7]] [[7]] [] true].
Proof. exact ex_timer_outstanding. Qed.
Print Assumptions C12sm_example.
