(** C09 - No configuration, message or schedule can crash or wedge the engine (non-kernel parts).
    This file contains only statements closed by [exact] plus [Print Assumptions]. *)
From Coq Require Import List NArith ZArith String.
From GV Require Import Base.Ints Gen.Mappers Monitors.C09m Proofs.Mappers.
From GV Require Import Model.OptTypes Model.Options Gen.Options Proofs.Options.
From GV Require Import Model.Registry Gen.RegistryC09 Proofs.Registry.
Import ListNotations.
Local Open Scope N_scope.

(** (i) Feedback mappers.  Domain: the result enumerations generated from tm/tmconsensus/handler.go. *)
Theorem C09_mappers_total :
  (forall r, In r all_HandleProposedHeaderResult ->
     (exists fb, aav_map_ph r = Ok fb /\ In fb [FeedbackAccepted; FeedbackRejected; FeedbackIgnored]) /\
     (exists fb, dd_map_ph r = Ok fb /\ In fb [FeedbackAccepted; FeedbackRejected; FeedbackIgnored])) /\
  (forall r, In r all_HandleVoteProofsResult ->
     (exists fb, aav_map_vote r = Ok fb /\ In fb [FeedbackAccepted; FeedbackRejected; FeedbackIgnored]) /\
     (exists fb, dd_map_vote r = Ok fb /\ In fb [FeedbackAccepted; FeedbackRejected; FeedbackIgnored])).
Proof. exact mappers_total. Qed.
Print Assumptions C09_mappers_total.

Theorem C09_mappers_follow_documented_classes :
  (forall r name, In (r, name) names_HandleProposedHeaderResult ->
     ph_mon AAV name (model_obs (aav_map_ph r)) = true /\ ph_mon DD name (model_obs (dd_map_ph r)) = true) /\
  (forall r name, In (r, name) names_HandleVoteProofsResult ->
     vote_mon AAV name (model_obs (aav_map_vote r)) = true /\ vote_mon DD name (model_obs (dd_map_vote r)) = true).
Proof. exact model_satisfies_mapper_monitor. Qed.
Print Assumptions C09_mappers_follow_documented_classes.

Theorem C09_every_result_classified :
  (forall r name, In (r, name) names_HandleProposedHeaderResult -> ph_class name <> Unclassified) /\
  (forall r name, In (r, name) names_HandleVoteProofsResult -> vote_class name <> Unclassified).
Proof. exact every_result_classified. Qed.
Print Assumptions C09_every_result_classified.

Theorem C09_mapper_monitor_sound : forall m c obs, mapper_mon m c obs = true ->
  exists f, obs = Some f /\ legal_feedback f = true.
Proof. exact mapper_monitor_sound. Qed.
Print Assumptions C09_mapper_monitor_sound.

Theorem C09_mappers_panic_exactly_outside_enumeration : forall r, r < 256 ->
  (~ In r all_HandleProposedHeaderResult -> is_ok (aav_map_ph r) = false /\ is_ok (dd_map_ph r) = false) /\
  (~ In r all_HandleVoteProofsResult -> is_ok (aav_map_vote r) = false /\ is_ok (dd_map_vote r) = false).
Proof. exact outside_enumeration_panics. Qed.
Print Assumptions C09_mappers_panic_exactly_outside_enumeration.

(** (ii) Constructors: tmengine.New / tmengine.NewMirror over the option table extracted from opts.go.
    Quantified over EVERY list of (option, value) pairs -- any subset, order, repetition, nil / rejected values --
    and both chain states. *)
Theorem C09_constructor_never_panics : forall chain_init opts site,
  run_ctor ctor_New option_table chain_init opts <> CPanic site /\
  run_ctor ctor_NewMirror option_table chain_init opts <> CPanic site.
Proof. exact constructor_never_panics. Qed.
Print Assumptions C09_constructor_never_panics.

Theorem C09_constructor_reports_every_rejected_value : forall chain_init opts,
  rejected_opts option_table opts <> [] ->
  run_ctor ctor_New option_table chain_init opts = CError (rejected_opts option_table opts) /\
  run_ctor ctor_NewMirror option_table chain_init opts = CError (rejected_opts option_table opts).
Proof. exact constructor_reports_every_rejected_value. Qed.
Print Assumptions C09_constructor_reports_every_rejected_value.

Theorem C09_rejected_value_named : forall chain_init opts n a,
  In (n, a) opts -> rejects option_table n a = true ->
  (exists rep, run_ctor ctor_New option_table chain_init opts = CError rep /\ In n rep) /\
  (exists rep, run_ctor ctor_NewMirror option_table chain_init opts = CError rep /\ In n rep).
Proof. exact rejected_value_named. Qed.
Print Assumptions C09_rejected_value_named.

(** (iii) gcrypto Registry.Unmarshal: total on EVERY byte string and every set of registered prefixes. *)
Theorem C09_registry_unmarshal_total : forall known b,
  exists o, unmarshal unmarshal_len_guard registry_prefix_size known b = Ok o.
Proof. exact registry_unmarshal_total. Qed.
Print Assumptions C09_registry_unmarshal_total.

Theorem C09_registry_short_input_is_an_error : forall known b, Z.lt (blen b) registry_prefix_size ->
  unmarshal unmarshal_len_guard registry_prefix_size known b = Ok UErrShort.
Proof. exact short_input_is_an_error. Qed.
Print Assumptions C09_registry_short_input_is_an_error.

Theorem C09_running_instance_passed_every_validation : forall k table chain_init opts c,
  run_ctor k table chain_init opts = CRunning c ->
  forall v, In v (c_checks k ++ c_final_checks k) -> eval_cond c (v_cond v) = false.
Proof. exact running_passed_every_check. Qed.
Print Assumptions C09_running_instance_passed_every_validation.

Theorem C09_mirror_validates_every_required_option : uncovered ctor_NewMirror option_table = [].
Proof. exact mirror_validates_every_required_option. Qed.
Print Assumptions C09_mirror_validates_every_required_option.

(** full statement [uncovered ctor_New option_table = []] is false on the tree (known finding); proved part: *)
Theorem C09_engine_validates_every_required_option_partial :
  uncovered ctor_New option_table = ["WithCommittedHeaderStore"%string].
Proof. exact engine_validates_every_required_option_partial. Qed.
Print Assumptions C09_engine_validates_every_required_option_partial.
