(** C13 (and the certificate hand-over that C01 relies on) - the proposer's CommitProofFinalizer
    (tsi/commitprooffinalizer.go) composed with the receiver's previous-commit-proof validation
    (tmmirror/mirror.go HandleProposedHeader -> ValidateFinalizedProof), simple proof scheme.
    Only statements closed by [exact] plus [Print Assumptions]. *)
From Coq Require Import List NArith ZArith Bool.
From GV Require Import Base.Ints Model.SimpleProofBase Model.SimpleProof Model.CommitFinalizer
  Model.SignBytes Proofs.SignBytes Proofs.TextFmt Proofs.SimpleInv Proofs.SimpleFinalize Proofs.CommitFinalizer Proofs.CommitFinalizerReal
  Monitors.C13Cpfm Proofs.CommitFinalizerMon.
Import ListNotations.
Local Open Scope N_scope.

(** Finalize never panics, whatever precommit proofs it is handed and in whatever order Go iterates the
    map - in particular the assignment into the nil hashesBySignContent map (len(p.Proofs) <= 1) is
    unreachable: a single entry for another block means the main block has no signatures, and that is
    reported as an error before the loop.  [sb] (PrecommitSignBytes) is arbitrary here. *)
Theorem C13_cpf_finalize_never_panics : forall sb keys committed p,
  keys <> [] -> exists r, cpf_finalize sb keys committed p = Ok r.
Proof. exact cpf_finalize_never_panics. Qed.
Print Assumptions C13_cpf_finalize_never_panics.

(** The composition, for ANY sign-bytes function that is injective on the block hashes of the proof:
    when every entry of the commit proof consists of in-range two-byte key ids with signatures that verify
    (at least one per block - what the kernel's views hold by C05), Finalize succeeds, keeps round and key hash,
    lists the committed block first, and the receiver's ValidateFinalizedProof accepts it and returns
    EXACTLY the signer bit set of every block, with the uniqueness flag = no signer in two blocks. *)
Theorem C13_cpf_then_receive : forall sb keys committed p,
  keys <> [] -> N.of_nat (List.length keys) <= 65536 ->
  NoDup (map fst (cp_proofs p)) -> In committed (map fst (cp_proofs p)) ->
  (forall a b, In a (map fst (cp_proofs p)) -> In b (map fst (cp_proofs p)) -> sb a = sb b -> a = b) ->
  (forall e, In e (cp_proofs p) -> entry_ok keys (sb (fst e)) (snd e)) ->
  exists out, cpf_finalize sb keys committed p = Ok (inl out) /\
    cp_round out = cp_round p /\ cp_pkh out = cp_pkh p /\
    map fst (cp_proofs out) = map fst (cp_order committed (cp_proofs p)) /\
    cp_receive sb keys committed out =
      Ok (Some (map (fun e => (fst e, signers keys (sb (fst e)) (snd e))) (cp_order committed (cp_proofs p))),
          pairwise_disjoint (map (fun e => signers keys (sb (fst e)) (snd e)) (cp_order committed (cp_proofs p)))).
Proof. exact cpf_then_receive. Qed.
Print Assumptions C13_cpf_then_receive.

(** ... instantiated with the REAL sign bytes of the simple signature scheme (Model/SignBytes.v, tied to
    simplesignaturescheme.go by C15's correspondence): the injectivity hypothesis is C15's theorem. *)
Theorem C13_cpf_then_receive_real_sign_bytes : forall h r keys committed p,
  keys <> [] -> N.of_nat (List.length keys) <= 65536 ->
  NoDup (map fst (cp_proofs p)) -> In committed (map fst (cp_proofs p)) ->
  (forall a, In a (map fst (cp_proofs p)) -> bytes_ok a) ->
  (forall e, In e (cp_proofs p) -> entry_ok keys (real_sb h r (fst e)) (snd e)) ->
  exists out, cpf_finalize (real_sb h r) keys committed p = Ok (inl out) /\
    cp_round out = cp_round p /\ cp_pkh out = cp_pkh p /\
    cp_receive (real_sb h r) keys committed out =
      Ok (Some (map (fun e => (fst e, signers keys (real_sb h r (fst e)) (snd e))) (cp_order committed (cp_proofs p))),
          pairwise_disjoint (map (fun e => signers keys (real_sb h r (fst e)) (snd e)) (cp_order committed (cp_proofs p)))).
Proof. exact cpf_then_receive_real. Qed.
Print Assumptions C13_cpf_then_receive_real_sign_bytes.

(** Non-vacuity: a two-block proof over three keys (validators 0 and 2 precommitted the committed block,
    validator 1 another one) goes through Finalize and the receiver's validation. *)
Theorem C13_cpf_example :
  exists out, cpf_finalize (real_sb 5 1) ex_cpf_keys [170] ex_cpf_proof = Ok (inl out) /\
    cp_receive (real_sb 5 1) ex_cpf_keys [170] out = Ok (Some [([170], 5); ([187], 2)], true).
Proof. exact cpf_example. Qed.
Print Assumptions C13_cpf_example.

(** model_satisfies_monitor for the hand-over run, as a theorem: on EVERY input (well formed or not, any table of signature
    tokens) the model's observation is accepted by the monitor that judges the implementation's observations. *)
Theorem C13_cpf_model_satisfies_monitor : forall sb keys committed p tbl,
  (forall a b, In a (map fst (cp_proofs p)) -> In b (map fst (cp_proofs p)) -> sb a = sb b -> a = b) ->
  N.of_nat (List.length keys) <= 65536 ->
  cpf_mon sb keys committed (cp_round p) (cp_proofs p) (cpf_case_obs sb tbl keys committed p) = 0.
Proof. exact cpf_model_satisfies_monitor. Qed.
Print Assumptions C13_cpf_model_satisfies_monitor.
