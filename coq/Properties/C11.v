(** C11 - View consumers see strictly newer, growing views and end up current (mirror model).
    Statements only; proofs in Proofs/MirrorMgr.v. *)
From Coq Require Import List NArith.
From GV Require Import Base.Ints Gen.Kernel Model.Mirror Model.MirrorMgr Proofs.MirrorMgr.
Import ListNotations.
Local Open Scope N_scope.

(** From ANY state of mirror + view managers, for every sequence of kernel operations (messages,
    crashes excluded), state-machine reads and gossip reads between two round entrances: the views
    handed to the state machine are views of the round it entered, their versions strictly
    increase, and all are newer than the last version it was sent (on entrance: the version it was
    answered with). *)
Theorem C11_sm_versions_strictly_increase : forall ops s,
  forallb epoch_op ops = true ->
  increasing_from (smm_last (sm_of s)) (map v_ver (sm_deliveries s ops)) /\
  Forall (fun v => v_h v = smm_h (sm_of s) /\ v_r v = smm_r (sm_of s)) (sm_deliveries s ops).
Proof. exact sm_versions_strictly_increase. Qed.
Print Assumptions C11_sm_versions_strictly_increase.

Theorem C11_entrance_sets_the_bar : forall s h r s' c v,
  mstep s (MEnter h r) = Ok (s', c, IOEnterView v) ->
  smm_h (sm_of s') = h /\ smm_r (sm_of s') = r /\ smm_last (sm_of s') = v_ver v.
Proof. exact entrance_sets_the_bar. Qed.
Print Assumptions C11_entrance_sets_the_bar.

(** Kernel events never move the state machine's bar or its entered round. *)
Theorem C11_kernel_events_keep_the_bar : forall evs m,
  smm_h (m_sm (fold_left mgr_step evs m)) = smm_h (m_sm m) /\
  smm_r (m_sm (fold_left mgr_step evs m)) = smm_r (m_sm m) /\
  smm_last (m_sm (fold_left mgr_step evs m)) = smm_last (m_sm m).
Proof. exact fold_mgr_step_sm_fixed. Qed.
Print Assumptions C11_kernel_events_keep_the_bar.

(** Known finding (mirror-c11nil-monitor): "the votes that justified a nil commit are delivered to
    gossip before the round's view is dropped" is false of the faithful model. *)
Theorem C11_nil_votes_reach_gossip_refuted :
  gossip_rounds (run_m (ms_init 1 n_vs)
    [MK (XOp (OpPrecommit (n_pc 0))); MK (XOp (OpPrecommit (n_pc 1))); MGRead; MGRead]) = [(1, 2); (1, 3); (1, 1)].
Proof. exact nil_votes_reach_gossip_refuted. Qed.
Print Assumptions C11_nil_votes_reach_gossip_refuted.
