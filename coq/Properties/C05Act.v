(** C05 (and the invariants C01 / C04 / C07 rest on) with the LOCAL validator's own actions: the state
    machine's proposed header, prevote and precommit reach the mirror through kernel.go
    handleStateMachineAction ([MAct] of Model/MirrorMgr.v: [act_vote], [act_ph]), not through the Handle*
    methods.  Statements only; proofs in Proofs/MirrorAct.v, Proofs/MirrorActInv.v and Proofs/MirrorActTotal.v. *)
From Coq Require Import List NArith.
From GV Require Import Base.Ints Gen.Math Gen.Kernel Model.Mirror Model.MirrorMgr
  Proofs.MirrorAuth Proofs.MirrorChain Proofs.MirrorCert Proofs.MirrorTotal Proofs.MirrorAct Proofs.MirrorActInv
  Proofs.MirrorActTotal.
Import ListNotations.
Local Open Scope N_scope.

(** For EVERY history of consumer-facing operations from start-up - kernel operations (proposed headers, vote
    messages, replayed headers, crashes after any number of store writes, restarts), round entrances with any
    key or none, reads, and the state machine's own proposed headers, prevotes and precommits with ANY
    signature bytes - every signature in the committing, voting and next-round view is a genuine signature by
    the validator at that index of the view's validator set, for exactly the vote kind, height, round and block
    hash it is filed under.  No hypothesis on the state machine: AddSignature verifies before the bit is set. *)
Theorem C05_views_authentic_with_local_votes : forall ih ivs s, mreachable ih ivs s ->
  forall v, (v = k_com (ms_k s) \/ v = k_vot (ms_k s) \/ v = k_nxt (ms_k s)) ->
  (forall t p i sg, In (t, p) (v_pv v) -> In (i, sg) p ->
     exists key, nth_n (vs_keys (v_vals v)) i = Some key /\ sg = SVote key KPrevote (v_h v) (v_r v) t) /\
  (forall t p i sg, In (t, p) (v_pc v) -> In (i, sg) p ->
     exists key, nth_n (vs_keys (v_vals v)) i = Some key /\ sg = SVote key KPrecommit (v_h v) (v_r v) t).
Proof. exact views_authentic_with_local_votes_full. Qed.
Print Assumptions C05_views_authentic_with_local_votes.

(** one step: any operation keeps the views authentic *)
Theorem C05_any_operation_keeps_views_authentic : forall s o s' r io,
  auth_state (ms_k s) -> mstep s o = Ok (s', r, io) -> auth_state (ms_k s').
Proof. exact auth_mstep. Qed.
Print Assumptions C05_any_operation_keeps_views_authentic.

(** one local action, from any kernel state with authentic views, for any entered round and any key *)
Theorem C05_local_action_keeps_views_authentic : forall s h r key a s',
  auth_state s -> act_step s h r key a = Ok s' -> auth_state s'.
Proof. exact auth_act_step. Qed.
Print Assumptions C05_local_action_keeps_views_authentic.

(** a local vote whose signature does not verify under the state machine's key, or whose key is not in the
    validator set of the view it is looked up in, leaves the whole kernel state unchanged *)
Theorem C05_local_vote_rejected_is_noop : forall kind s h r key target sg s',
  (forall k, key = Some k ->
     verify_vote k kind h r target sg = false \/
     (forall vid st, find_view (kpos_of s) h r = Ok (vid, st) -> ~ In k (vs_keys (v_vals (get_view s vid))))) ->
  act_vote kind s h r key target sg = Ok s' -> s' = s.
Proof. exact local_vote_rejected_is_noop. Qed.
Print Assumptions C05_local_vote_rejected_is_noop.

(** the index AddSignature files the key under holds that key *)
Theorem C05_local_vote_key_index : forall keys key i, key_index keys key = Some i -> nth_n keys i = Some key.
Proof. exact key_index_nth. Qed.
Print Assumptions C05_local_vote_key_index.

(** non-vacuity: a validator's own prevote is filed in the voting view under its index *)
Theorem C05_local_vote_is_filed :
  mreachable 1 e_vs e_state /\ v_pv (k_vot (ms_k e_state)) = [([9], [(1, SVote 6 KPrevote 1 0 [9])])].
Proof. exact local_vote_is_filed. Qed.
Print Assumptions C05_local_vote_is_filed.

(** ** The chain invariant, summaries and commit certificates with local actions *)

(** a local vote keeps the chain / position / validator-set invariant and never moves the mirror backwards;
    no hypothesis on the vote *)
Theorem C05Act_local_vote_keeps_chain_invariant : forall ih ivs kind s h r key target sg s',
  cinv ih ivs s -> act_vote kind s h r key target sg = Ok s' -> cinv ih ivs s' /\ adv s s'.
Proof. exact cinv_act_vote. Qed.
Print Assumptions C05Act_local_vote_keeps_chain_invariant.

(** a local action keeps [INV] (chain invariant, authenticity, summaries = recomputation, every committed
    header certified); a local proposed header under [accept_facts]: correct block hash, consistent next
    validator set, height below 2^64 - 1, extends the committing header *)
Theorem C05Act_local_action_keeps_INV : forall ih ivs s h r key a s',
  INV ih ivs s -> lact_ok s a -> act_step s h r key a = Ok s' -> INV ih ivs s'.
Proof. exact INV_act_step. Qed.
Print Assumptions C05Act_local_action_keeps_INV.

(** over all histories without crashes/restarts (kernel operations, entrances, reads, local actions) *)
Theorem C05Act_invariants_with_local_actions : forall ih ivs s,
  1 <= ih -> vs_ok ivs = true -> lreachable ih ivs s -> INV ih ivs (ms_k s).
Proof. exact lreachable_INV. Qed.
Print Assumptions C05Act_invariants_with_local_actions.

(** C01 over the extended closure: local votes cannot commit a header without a >2/3 certificate of genuine
    precommits by distinct members of the chain-prescribed set *)
Theorem C05Act_commit_needs_certificate_with_local_actions : forall ih ivs s,
  1 <= ih -> vs_ok ivs = true -> lreachable ih ivs s ->
  (forall h x cp, In (h, (x, cp)) (st_hdrs (ms_k s)) ->
     exists p maj,
       In (hd_hash x, as_sparse p) (cp_proofs cp) /\
       (forall i sg, In (i, sg) p ->
          exists key, nth_n (vs_keys (chain_vals ih ivs (st_hdrs (ms_k s)) h)) i = Some key /\
                      sg = SVote key KPrecommit h (cp_round cp) (hd_hash x)) /\
       byz_majority (sum_pows (vs_pows (chain_vals ih ivs (st_hdrs (ms_k s)) h))) = Ok maj /\
       maj <= proof_power (vs_pows (chain_vals ih ivs (st_hdrs (ms_k s)) h)) p).
Proof. exact commit_needs_certificate_with_local_actions. Qed.
Print Assumptions C05Act_commit_needs_certificate_with_local_actions.

(** the kernel-only closure of Proofs/MirrorChain.v is contained in the extended one *)
Theorem C05Act_closure_extends_reachable_b : forall ih ivs k,
  reachable_b ih ivs k -> exists s, lreachable ih ivs s /\ ms_k s = k.
Proof. exact reachable_b_lreachable. Qed.
Print Assumptions C05Act_closure_extends_reachable_b.

(** FULL statement "every local action keeps the chain invariant" is false: the kernel files the state
    machine's own proposed header without any of the checks of HandleProposedHeader; a header whose block hash
    is not the hash of its fields enters the voting view (the hypothesis [accept_facts] is necessary).
    The harness delivers such a header as a local action on the real mirror (stat sm_action_ph_unchecked) and
    the correspondence confirms that the real kernel files it as well. *)
Theorem C05Act_local_ph_keeps_chain_invariant_refuted :
  exists ih ivs s p s', reachable_b ih ivs s /\ cinv ih ivs s /\ act_ph s p = Ok s' /\
                        In p (v_phs (k_vot s')) /\ hd_ok (ph_hdr p) = false /\ ~ cinv ih ivs s'.
Proof. exact cinv_local_ph_refuted. Qed.
Print Assumptions C05Act_local_ph_keeps_chain_invariant_refuted.

(** ** C09 for local actions: where handleStateMachineAction can panic, exactly *)

(** In any kernel state whose power totals are in range ([aok], an invariant of every state reached through
    admissible inputs: Proofs/MirrorTotal.v) a local vote - ANY signature bytes, any target, any key, timely or
    late - is handled without a panic unless the guard holds: the entered round is the voting or committing view
    AND (the state machine named no key, OR the view has no proof for the target yet and its validator set lists
    no keys).  The result keeps the totality invariant. *)
Theorem C09Act_local_vote_never_panics_outside_guard : forall kind s h r key target sg,
  aok s -> act_vote_panic_guard kind s h r key target = false ->
  exists s', act_vote kind s h r key target sg = Ok s' /\ (pok s -> tinv s').
Proof. exact local_vote_total. Qed.
Print Assumptions C09Act_local_vote_never_panics_outside_guard.

(** the guard is exact *)
Theorem C09Act_local_vote_panics_under_guard : forall kind s h r key target sg,
  act_vote_panic_guard kind s h r key target = true ->
  exists site, act_vote kind s h r key target sg = Panic site.
Proof. exact local_vote_panics_under_guard. Qed.
Print Assumptions C09Act_local_vote_panics_under_guard.

(** a state machine WITH a key never panics the kernel by voting when the voting and the committing view list
    at least one validator key (false only for the empty committing view before the first commit, which a state
    machine reaches by entering height 0, and for a validator set without keys) *)
Theorem C09Act_local_vote_with_key_never_panics : forall kind s h r k target sg,
  aok s -> vs_keys (v_vals (k_vot s)) <> [] -> vs_keys (v_vals (k_com s)) <> [] ->
  exists s', act_vote kind s h r (Some k) target sg = Ok s' /\ (pok s -> tinv s').
Proof. exact local_vote_total_with_keys. Qed.
Print Assumptions C09Act_local_vote_with_key_never_panics.

(** the state machine's own proposed header (an action is present: non-empty hash) never panics the kernel *)
Theorem C09Act_local_ph_never_panics : forall s p,
  tinv s -> hd_hash (ph_hdr p) <> [] ->
  exists s', act_ph s p = Ok s' /\
    (pow_ok (hd_next (ph_hdr p)) -> (pow_ok (hd_vals (ph_hdr p)) \/ hd_height (ph_hdr p) <> v_h (k_vot s)) -> tinv s').
Proof. exact local_ph_total. Qed.
Print Assumptions C09Act_local_ph_never_panics.
