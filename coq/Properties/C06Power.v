(** C06, second sentence, at mirror level: "validators holding less than one third of the power cannot by
    themselves make a node skip a round ... or regard a round as fully voted".
    Statements only; proofs in Proofs/MirrorPower.v, witnesses and examples in Proofs/MirrorPowerWitness.v.

    Vocabulary.  [step] is the mirror kernel model of Model/Mirror.v, [reachable_b ih ivs] its reachable
    states from genesis height [ih] / validator set [ivs] (any history of proposed headers, prevotes,
    precommits and replayed headers whose header heights are below 2^64-1).  A view's [v_sum] is the vote
    summary the kernel's threshold decisions read.  [signer_set pm] is the list of DISTINCT validator
    indices that have a signature in any entry of the vote map [pm]; [idx_power pows l] adds the powers
    of the indices in [l]; [blocks] is the per-target power; [most_voted] is the target picked by
    SetPrevotePowers/SetPrecommitPowers (highest power, ties to the smaller hash, nil when empty).
    [vote_op o = Some (kind, m)]: [o] is a prevote or precommit message [m].  [merge_point kind s m =
    Some (vid, sm)]: the message addresses view [vid] of [s] and brings new valid signatures; [sm] is
    the state right after these were merged into the view and its summary was recomputed, BEFORE the
    kernel looks at any threshold ([merge_point = None]: nothing is merged and no view changes,
    [C06_no_merge_no_move]).  [nowrap pows]: the powers add up to less than 2^64 (not checked by the
    Go code; needed wherever two different sums are compared, see [C06_minority_needs_nowrap_refuted]).

    A replayed header (OpReplay) is a different cause of a round change and is excluded from the vote
    theorems below by [vote_op]; what it does is stated in [C06_replay_goes_to_the_replayed_round] and
    [C06_rejected_replay_leaves_the_state_unchanged]. *)
From Coq Require Import List NArith.
From GV Require Import Base.Ints Gen.Math Gen.Kernel Model.Mirror
  Proofs.MirrorAuth Proofs.MirrorChain Proofs.MirrorCert Proofs.MirrorPower Proofs.MirrorPowerWitness
  Proofs.MirrorPowerMsg.
Import ListNotations.
Local Open Scope N_scope.

(** (1) In every reachable state, for the voting and the next-round view: the total prevote / precommit
    power is the power of the distinct signer indices of the view's own prevote / precommit map (a
    validator that signed several targets counts once), the block powers are [blocks] of these maps, the
    most voted targets are [most_voted] of these maps, the available power is the sum of the view's
    validator powers; in one line: the summary is what [set_powers] returns on the view's maps. *)
Theorem C06_mirror_totals_recomputed : forall ih ivs s,
  1 <= ih -> vs_ok ivs = true -> reachable_b ih ivs s ->
  forall v, v = k_vot s \/ v = k_nxt s ->
    let pows := vs_pows (v_vals v) in
    sm_tpv (v_sum v) = idx_power pows (sort_n (signer_set (v_pv v))) /\
    sm_tpc (v_sum v) = idx_power pows (sort_n (signer_set (v_pc v))) /\
    sm_pvp (v_sum v) = blocks pows (v_pv v) /\
    sm_pcp (v_sum v) = blocks pows (v_pc v) /\
    sm_mpv (v_sum v) = most_voted pows (v_pv v) /\
    sm_mpc (v_sum v) = most_voted pows (v_pc v) /\
    sm_avail (v_sum v) = sum_pows pows /\
    set_powers pows (v_pv v) = (sm_tpv (v_sum v), sm_pvp (v_sum v), sm_mpv (v_sum v)) /\
    set_powers pows (v_pc v) = (sm_tpc (v_sum v), sm_pcp (v_sum v), sm_mpc (v_sum v)).
Proof. exact totals_recomputed. Qed.
Print Assumptions C06_mirror_totals_recomputed.

(** [signer_set] has no repetitions and is exactly the set of indices with a signature somewhere *)
Theorem C06_signer_set_is_the_distinct_signers : forall pm,
  NoDup (signer_set pm) /\
  forall i, In i (signer_set pm) <-> exists t p sg, In (t, p) pm /\ In (i, sg) p.
Proof. exact signer_set_spec. Qed.
Print Assumptions C06_signer_set_is_the_distinct_signers.

(** under the guard the wrapped machine sum is the plain sum over the distinct signers, no target has
    more power than the total, and the total is at most the available power *)
Theorem C06_total_is_plain_sum_over_distinct_signers : forall pows pm,
  nowrap pows ->
  total_power pows pm = psum pows (sort_n (signer_set pm)) /\
  (forall t, map_get (blocks pows pm) t <= total_power pows pm) /\
  total_power pows pm <= sum_pows pows.
Proof. exact total_plain_facts. Qed.
Print Assumptions C06_total_is_plain_sum_over_distinct_signers.

(** (2) Causes of a round change.

    FULL STATEMENT ASKED FOR: a vote operation that keeps the voting height and changes the voting round
    (a) moves to exactly the next round and (b) has one of the causes below.  Clause (a) is FALSE of the
    model and of the Go code (kernel.go, checkNextRoundPrecommitViewShift calls
    checkVotingPrecommitViewShift after the jump): [C06_round_change_next_round_refuted].  Proved:
    (a') next or next-but-one, (b) as asked, and in [C06_round_change_exact_cause] which cause goes with
    which message kind / view, and that next-but-one happens only when the next round has a majority of
    precommits for nil. *)
Theorem C06_round_change_next_round_refuted :
  exists ih ivs s o kind m s' res,
    1 <= ih /\ vs_ok ivs = true /\ reachable_b ih ivs s /\
    vote_op o = Some (kind, m) /\ step s o = Ok (s', res) /\
    v_h (k_vot s') = v_h (k_vot s) /\ v_r (k_vot s') <> v_r (k_vot s) /\
    v_r (k_vot s') <> wrap32 (v_r (k_vot s) + 1) /\
    v_r (k_vot s') = wrap32 (wrap32 (v_r (k_vot s) + 1) + 1).
Proof. exact round_change_next_refuted. Qed.
Print Assumptions C06_round_change_next_round_refuted.

(** In the merged state [sm] (same position as [s]): the voting view's total precommit power is at least
    the Byzantine majority of the available power [nil commit], or equals the available power [everybody
    precommitted, no majority], or the next-round view's total prevote or total precommit power is at
    least the Byzantine minority of the available power. *)
Theorem C06_round_change_has_cause_partial : forall ih ivs s o kind m s' res,
  1 <= ih -> vs_ok ivs = true -> reachable_b ih ivs s ->
  vote_op o = Some (kind, m) -> step s o = Ok (s', res) ->
  v_h (k_vot s') = v_h (k_vot s) -> v_r (k_vot s') <> v_r (k_vot s) ->
  nowrap (vs_pows (v_vals (k_vot s))) ->
  (v_r (k_vot s') = wrap32 (v_r (k_vot s) + 1) \/
   v_r (k_vot s') = wrap32 (wrap32 (v_r (k_vot s) + 1) + 1)) /\
  exists vid sm, merge_point kind s m = Some (vid, sm) /\ kpos_of sm = kpos_of s /\
    ((exists maj, byz_majority (sm_avail (v_sum (k_vot sm))) = Ok maj /\ maj <= sm_tpc (v_sum (k_vot sm))) \/
     sm_tpc (v_sum (k_vot sm)) = sm_avail (v_sum (k_vot sm)) \/
     (exists mn, byz_minority (sm_avail (v_sum (k_nxt sm))) = Ok mn /\
        (mn <= sm_tpv (v_sum (k_nxt sm)) \/ mn <= sm_tpc (v_sum (k_nxt sm))))).
Proof. exact round_change_has_cause_partial. Qed.
Print Assumptions C06_round_change_has_cause_partial.

(** The exact causes, without the guard, for every state satisfying the chain invariant [cinv] (all
    reachable states do: Proofs/MirrorChain.v [reachable_cinv]).
    [nil_majority sm]: most voted precommit target is nil and its power is at least the majority;
    [all_in_no_majority sm]: most voted target below the majority and total precommit power = available;
    [minority_prevotes sm] / [minority_precommits sm]: total at least the minority. *)
Theorem C06_round_change_exact_cause : forall ih ivs kind s m s' res,
  (kind = KPrevote \/ kind = KPrecommit) -> cinv ih ivs s ->
  handle_votes kind s m = Ok (s', res) ->
  v_h (k_vot s') = v_h (k_vot s) -> v_r (k_vot s') <> v_r (k_vot s) ->
  exists vid sm, merge_point kind s m = Some (vid, sm) /\ frame_eq s sm /\ kpos_of sm = kpos_of s /\
    ((v_r (k_vot s') = wrap32 (v_r (k_vot s) + 1) /\
       ((kind = KPrecommit /\ vid = ViewIDVoting /\
           (nil_majority (v_sum (k_vot sm)) \/ all_in_no_majority (v_sum (k_vot sm)))) \/
        (kind = KPrevote /\ vid = ViewIDNextRound /\ minority_prevotes (v_sum (k_nxt sm))) \/
        (kind = KPrecommit /\ vid = ViewIDNextRound /\ minority_precommits (v_sum (k_nxt sm))))) \/
     (v_r (k_vot s') = wrap32 (wrap32 (v_r (k_vot s) + 1) + 1) /\
        kind = KPrecommit /\ vid = ViewIDNextRound /\
        minority_precommits (v_sum (k_nxt sm)) /\ nil_majority (v_sum (k_nxt sm)))).
Proof. exact round_change_exact. Qed.
Print Assumptions C06_round_change_exact_cause.

(** (3) The consequence.  [has_genuine_vote v i]: validator [i] of the view's validator set has, in the
    view's prevote or precommit map, a genuine signature of its own key for exactly the view's height
    and round (by authenticity every held signature is of this kind).  If all validators with a genuine
    prevote or precommit for round r (voting view) or round r+1 (next-round view) of the voting height,
    in the merged state, lie in a set [S] whose distinct power ([nodup_n S]: each index once, so an
    equivocating validator counts once) is below the Byzantine minority of the available power, then the
    operation changes neither round nor height: it only merges. *)
Theorem C06_minority_cannot_move_the_mirror : forall ih ivs s o kind m s' res vid sm S mn,
  1 <= ih -> vs_ok ivs = true -> reachable_b ih ivs s ->
  vote_op o = Some (kind, m) -> step s o = Ok (s', res) ->
  merge_point kind s m = Some (vid, sm) ->
  nowrap (vs_pows (v_vals (k_vot sm))) ->
  byz_minority (sm_avail (v_sum (k_vot sm))) = Ok mn ->
  (forall i, has_genuine_vote (k_vot sm) i \/ has_genuine_vote (k_nxt sm) i -> In i S) ->
  idx_power (vs_pows (v_vals (k_vot sm))) (nodup_n S) < mn ->
  v_h (k_vot s') = v_h (k_vot s) /\ v_r (k_vot s') = v_r (k_vot s) /\ kpos_of s' = kpos_of s /\ s' = sm.
Proof. exact minority_cannot_move. Qed.
Print Assumptions C06_minority_cannot_move_the_mirror.

Theorem C06_no_merge_no_move : forall s o kind m s' res,
  vote_op o = Some (kind, m) -> step s o = Ok (s', res) -> merge_point kind s m = None ->
  k_vot s' = k_vot s /\ k_nxt s' = k_nxt s /\ k_com s' = k_com s.
Proof. exact no_merge_no_move. Qed.
Print Assumptions C06_no_merge_no_move.

(** the indices in the vote maps are exactly validators with genuine votes (authenticity, for the merged
    state as for every reachable state) *)
Theorem C06_held_signatures_are_genuine_votes : forall v i,
  auth_view v -> In i (signer_set (v_pv v)) \/ In i (signer_set (v_pc v)) -> has_genuine_vote v i.
Proof. exact held_signatures_genuine. Qed.
Print Assumptions C06_held_signatures_are_genuine_votes.

(** the two views of (3) are rounds r and r+1 of the voting height, over one validator set *)
Theorem C06_views_are_round_r_and_next : forall ih ivs s,
  1 <= ih -> vs_ok ivs = true -> reachable_b ih ivs s ->
  v_h (k_nxt s) = v_h (k_vot s) /\ v_r (k_nxt s) = wrap32 (v_r (k_vot s) + 1) /\
  v_vals (k_nxt s) = v_vals (k_vot s).
Proof. exact views_are_round_r_and_next. Qed.
Print Assumptions C06_views_are_round_r_and_next.

(** (3) on the inputs of the operation.  [msg_signer keys kind m i]: validator [i] has in message [m] a
    signature of its own key for exactly (kind, height and round of the message, the target it is filed
    under).  [view_signer v i]: index [i] has a signature in a vote map of [v].  Every signer of the
    merged state was a signer before or signs validly in the message ... *)
Theorem C06_merged_signers_come_from_state_or_message : forall ih ivs kind s m vid sm i,
  (kind = KPrevote \/ kind = KPrecommit) -> cinv ih ivs s ->
  merge_point kind s m = Some (vid, sm) ->
  view_signer (k_vot sm) i \/ view_signer (k_nxt sm) i ->
  view_signer (k_vot s) i \/ view_signer (k_nxt s) i \/
  msg_signer (vs_keys (v_vals (k_vot s))) kind m i.
Proof. exact merged_signers_from_inputs. Qed.
Print Assumptions C06_merged_signers_come_from_state_or_message.

(** ... hence: if the validators that hold a genuine prevote or precommit for round r or r+1 of the voting
    height before the message, together with the validators that sign validly in the message, have
    distinct power below the Byzantine minority, the message moves neither round nor height. *)
Theorem C06_minority_cannot_move_the_mirror_inputs : forall ih ivs s o kind m s' res S mn,
  1 <= ih -> vs_ok ivs = true -> reachable_b ih ivs s ->
  vote_op o = Some (kind, m) -> step s o = Ok (s', res) ->
  nowrap (vs_pows (v_vals (k_vot s))) ->
  byz_minority (sm_avail (v_sum (k_vot s))) = Ok mn ->
  (forall i, has_genuine_vote (k_vot s) i \/ has_genuine_vote (k_nxt s) i \/
             msg_signer (vs_keys (v_vals (k_vot s))) kind m i -> In i S) ->
  idx_power (vs_pows (v_vals (k_vot s))) (nodup_n S) < mn ->
  kpos_of s' = kpos_of s.
Proof. exact minority_cannot_move_inputs. Qed.
Print Assumptions C06_minority_cannot_move_the_mirror_inputs.

(** without [nowrap] statement (3) is false: validator powers that overflow uint64 *)
Theorem C06_minority_needs_nowrap_refuted :
  exists ih ivs s o kind m s' res vid sm S mn,
    1 <= ih /\ vs_ok ivs = true /\ reachable_b ih ivs s /\
    vote_op o = Some (kind, m) /\ step s o = Ok (s', res) /\
    merge_point kind s m = Some (vid, sm) /\
    byz_minority (sm_avail (v_sum (k_vot sm))) = Ok mn /\
    (forall i, has_genuine_vote (k_vot sm) i \/ has_genuine_vote (k_nxt sm) i -> In i S) /\
    idx_power (vs_pows (v_vals (k_vot sm))) (nodup_n S) < mn /\
    v_h (k_vot s') = v_h (k_vot s) /\ v_r (k_vot s') <> v_r (k_vot s).
Proof. exact minority_without_guard_refuted. Qed.
Print Assumptions C06_minority_needs_nowrap_refuted.

(** Replayed headers.
    REPAIRED IN THE GO CODE (handleReplayedHeader now validates the header and its commit proof against
    the round it would jump to BEFORE it changes anything): earlier versions of this file proved
    "a rejected replay still moves the round" by a witness; that witness is gone and the opposite holds
    for EVERY state: a replayed header that is not accepted (result 1 = other height, 2 = validation
    error) is the identity on the mirror state. *)
Theorem C06_rejected_replay_leaves_the_state_unchanged : forall s0 hd cp s' res,
  handle_replay s0 hd cp = Ok (s', res) -> res <> 0 -> s' = s0.
Proof. exact replay_rejected_identity. Qed.
Print Assumptions C06_rejected_replay_leaves_the_state_unchanged.

(** An accepted replayed header (result 0) is for the voting height and for the voting round or a later
    one (an earlier one is a panic site), CARRIES A CERTIFICATE - a proof [hp] of genuine precommits of
    the voting view's validators for exactly (height, replayed round, the header's hash) whose power is at
    least the Byzantine majority of that validator set (replayed signatures merged with those already held
    for that round) - and, if the height stays, leaves the mirror in the replayed commit round, or one
    past it when the merged precommits make the kernel advance.  This is the other cause of a round
    change, excluded from (2)/(3) by [vote_op]. *)
Theorem C06_replay_goes_to_the_replayed_round : forall ih ivs s0 hd cp s' res,
  1 <= ih -> vs_ok ivs = true -> reachable_b ih ivs s0 -> hd_height hd + 1 < two64 ->
  step s0 (OpReplay hd cp) = Ok (s', res) ->
  (res <> 0 /\ s' = s0) \/
  (res = 0 /\ hd_height hd = v_h (k_vot s0) /\ v_r (k_vot s0) <= cp_round cp /\
   (exists hp maj,
      auth_proof (vs_keys (v_vals (k_vot s0))) KPrecommit (hd_height hd) (cp_round cp) (hd_hash hd) hp /\
      byz_majority (sum_pows (vs_pows (v_vals (k_vot s0)))) = Ok maj /\
      maj <= proof_power (vs_pows (v_vals (k_vot s0))) hp) /\
   (v_h (k_vot s') = v_h (k_vot s0) ->
      v_r (k_vot s') = cp_round cp \/ v_r (k_vot s') = wrap32 (cp_round cp + 1))).
Proof. exact replay_round_reachable. Qed.
Print Assumptions C06_replay_goes_to_the_replayed_round.
