(** C03 for mirrors - "Correct nodes never finalize different blocks at the same height ... for
    every message schedule, Byzantine behaviour below one third, and RESTARTS" - lifted from the
    kernel-operation closure [reachable_b] of Properties/C03Mirror.v to the crash / restart /
    local-action closures of C10Resume, C05Act and C09KernelX.
    Statements only; proofs in Proofs/MirrorAgreeX.v (agreement from the invariant bundle),
    Proofs/MirrorHdrGoodX.v (the bundle over the closures), Proofs/MirrorAgreeXC.v,
    Proofs/MirrorAgreeXCompose.v (A1 from the state machine model), Proofs/MirrorAgreeXWit.v.

    (1) [C03X_mirrors_agree_from_invariants]: the agreement proof uses reachability of the two
        states ONLY through the bundle [AgreeInv] ([C03X_invariant_bundle_unfolded]): the
        committed headers form a hash-linked contiguous chain, each carries its >2/3 certificate
        of genuine precommits under the chain-prescribed set, each has a non-nil hash and its
        hash flag set.  [C03X_mirrors_agree_rederived] re-derives C03_mirrors_agree.
    (2) [C03X_mirrors_agree_after_crashes] (+ _upto, _same_round*, composed with the state machine
        model): both states in [reachable_g] - kernel operations, a crash after ANY number of
        store writes of an operation followed by start-up, clean restarts.  FULL for the mirror
        model up to the admissibility conditions of C10Resume, which are kept explicit:
        [vwf ivs] and [xwf] of every step ([op_bounded]; [step_adm]: the next validator set of an
        accepted / applied replayed header has non-zero power, a replayed round is a uint32; and
        the MODEL-ONLY "that next set lists a key" - in Go non-zero power implies a key).  Over
        [reachable_x] (without the model-only key condition) the invariants INV / SI themselves
        are not available: start-up can fail in the model (C10_keys_guard_needed_in_model).
        New invariant proved over the closures: committed headers are good
        ([C03X_committed_headers_good_after_crashes]); the store invariant SI of C10Resume does not
        contain it.
    (3) [C03X_mirrors_agree_with_local_actions_partial]: both states kernel states of
        [mreachable_a] - additionally round entrances, reads, the local validator's own prevotes /
        precommits (NO hypothesis) and own proposed headers.  PARTIAL: what remains is the side
        condition [lph_okb] of C09KernelX on an own proposed header that the kernel files (the
        kernel files it without any of the checks of HandleProposedHeader: known finding
        local-ph-unchecked).  It is NEEDED: [C03X_local_ph_condition_needed_refuted] - in the
        closure without it two mirrors finalize different blocks at height 2 with every other
        hypothesis in place.  Also over [lreachable] of C05Act ([accept_facts], no crashes).
    (4) [C03X_hypotheses_satisfiable_after_crash]: two mirrors, one of which crashed between the
        committed-header write and the position write of a commit and was later restarted. *)
From Coq Require Import List NArith Bool.
From GV Require Import Base.Ints Gen.Math Gen.Kernel Model.Network Model.Mirror Model.MirrorMgr
  Proofs.Thresholds Proofs.Network Proofs.MirrorAuth Proofs.MirrorChain Proofs.MirrorCert
  Proofs.MirrorHdrGood Proofs.MirrorTotal Proofs.MirrorActInv Proofs.MirrorResumeWit Proofs.MirrorResumeInv
  Proofs.MirrorResumeOps Proofs.MirrorResume Proofs.MirrorTotalM Proofs.MirrorTotalXEx
  Proofs.MirrorAgree Proofs.MirrorAgreeWitness
  Proofs.MirrorAgreeX Proofs.MirrorHdrGoodX Proofs.MirrorAgreeXC Proofs.MirrorAgreeXWit.
From GV Require Import Gen.StepSM Model.StateMachine Proofs.ComposeA1 Proofs.ComposeA1Witness
  Proofs.MirrorAgreeXCompose Proofs.MirrorAgreeXComposeWit.
Import ListNotations.
Local Open Scope N_scope.

(** * (1) Agreement from the invariants alone *)

Theorem C03X_invariant_bundle_unfolded : forall ih ivs (s : kstate),
  AgreeInv ih ivs s <->
  (Mirror.st_hdrs s = [] \/ exists top, hchain ih top (Mirror.st_hdrs s)) /\
  (forall h x cp, In (h, (x, cp)) (Mirror.st_hdrs s) ->
     exists p maj,
       In (hd_hash x, as_sparse p) (cp_proofs cp) /\
       (forall i sg, In (i, sg) p ->
          exists key, nth_n (vs_keys (chain_vals ih ivs (Mirror.st_hdrs s) h)) i = Some key /\
                      sg = SVote key KPrecommit h (cp_round cp) (hd_hash x)) /\
       byz_majority (sum_pows (vs_pows (chain_vals ih ivs (Mirror.st_hdrs s) h))) = Ok maj /\
       maj <= proof_power (vs_pows (chain_vals ih ivs (Mirror.st_hdrs s) h)) p) /\
  (forall h x cp, In (h, (x, cp)) (Mirror.st_hdrs s) -> hd_hash x <> [] /\ hd_ok x = true).
Proof. intros; reflexivity. Qed.
Print Assumptions C03X_invariant_bundle_unfolded.

(** the conclusion of C03_mirrors_agree for ANY two kernel states satisfying the bundle *)
Theorem C03X_mirrors_agree_from_invariants : forall ih ivs (s1 s2 : kstate) V (B : N -> list N),
  AgreeInv ih ivs s1 -> AgreeInv ih ivs s2 ->
  cert_sigs_in V s1 -> cert_sigs_in V s2 -> hash_binds_next s1 s2 ->
  (forall h x1 cp1 x2 cp2, In (h, (x1, cp1)) (Mirror.st_hdrs s1) -> In (h, (x2, cp2)) (Mirror.st_hdrs s2) ->
     byz_bound (chain_vals ih ivs (Mirror.st_hdrs s1) h) (B h) /\
     A1m (chain_vals ih ivs (Mirror.st_hdrs s1) h) (B h) V h /\
     A2m (chain_vals ih ivs (Mirror.st_hdrs s1) h) (B h) V h /\
     A3m (chain_vals ih ivs (Mirror.st_hdrs s1) h) (B h) V h) ->
  forall h x1 cp1 x2 cp2, In (h, (x1, cp1)) (Mirror.st_hdrs s1) -> In (h, (x2, cp2)) (Mirror.st_hdrs s2) ->
    hd_hash x1 = hd_hash x2 /\
    valset_equal (hd_next x1) (hd_next x2) = true /\
    vs_keys (chain_vals ih ivs (Mirror.st_hdrs s1) h) = vs_keys (chain_vals ih ivs (Mirror.st_hdrs s2) h) /\
    vs_pows (chain_vals ih ivs (Mirror.st_hdrs s1) h) = vs_pows (chain_vals ih ivs (Mirror.st_hdrs s2) h).
Proof. exact mirrors_agree_inv. Qed.
Print Assumptions C03X_mirrors_agree_from_invariants.

(** the general form: at each common height up to h the bound, A1 and (same round, or A2 and A3) *)
Theorem C03X_mirrors_agree_upto_from_invariants : forall ih ivs (s1 s2 : kstate) V (B : N -> list N),
  AgreeInv ih ivs s1 -> AgreeInv ih ivs s2 ->
  cert_sigs_in V s1 -> cert_sigs_in V s2 -> hash_binds_next s1 s2 ->
  forall h,
  (forall h' x1 cp1 x2 cp2, h' <= h ->
     In (h', (x1, cp1)) (Mirror.st_hdrs s1) -> In (h', (x2, cp2)) (Mirror.st_hdrs s2) ->
     byz_bound (chain_vals ih ivs (Mirror.st_hdrs s1) h') (B h') /\
     A1m (chain_vals ih ivs (Mirror.st_hdrs s1) h') (B h') V h' /\
     (cp_round cp1 = cp_round cp2 \/
      (A2m (chain_vals ih ivs (Mirror.st_hdrs s1) h') (B h') V h' /\
       A3m (chain_vals ih ivs (Mirror.st_hdrs s1) h') (B h') V h'))) ->
  forall x1 cp1 x2 cp2, In (h, (x1, cp1)) (Mirror.st_hdrs s1) -> In (h, (x2, cp2)) (Mirror.st_hdrs s2) ->
    hd_hash x1 = hd_hash x2 /\
    valset_equal (hd_next x1) (hd_next x2) = true /\
    vs_keys (chain_vals ih ivs (Mirror.st_hdrs s1) h) = vs_keys (chain_vals ih ivs (Mirror.st_hdrs s2) h) /\
    vs_pows (chain_vals ih ivs (Mirror.st_hdrs s1) h) = vs_pows (chain_vals ih ivs (Mirror.st_hdrs s2) h).
Proof. exact mirrors_agree_upto_inv. Qed.
Print Assumptions C03X_mirrors_agree_upto_from_invariants.

(** the bundle from the named invariants of C01 / C07 / C03Mirror *)
Theorem C03X_bundle_from_named_invariants : forall ih ivs (s : kstate),
  INV ih ivs s ->
  (forall h x cp, In (h, (x, cp)) (Mirror.st_hdrs s) -> hd_hash x <> [] /\ hd_ok x = true /\ vs_ok (hd_next x) = true) ->
  AgreeInv ih ivs s.
Proof. exact AgreeInv_INV. Qed.
Print Assumptions C03X_bundle_from_named_invariants.

(** sanity check: the kernel-only closure satisfies the bundle, and C03_mirrors_agree follows *)
Theorem C03X_reachable_b_satisfies_bundle : forall ih ivs (s : kstate),
  1 <= ih -> vs_ok ivs = true -> reachable_b ih ivs s -> AgreeInv ih ivs s.
Proof. exact reachable_b_AgreeInv. Qed.
Print Assumptions C03X_reachable_b_satisfies_bundle.

Theorem C03X_mirrors_agree_rederived : forall ih ivs (s1 s2 : kstate) V (B : N -> list N),
  1 <= ih -> vs_ok ivs = true -> reachable_b ih ivs s1 -> reachable_b ih ivs s2 ->
  cert_sigs_in V s1 -> cert_sigs_in V s2 -> hash_binds_next s1 s2 ->
  (forall h x1 cp1 x2 cp2, In (h, (x1, cp1)) (Mirror.st_hdrs s1) -> In (h, (x2, cp2)) (Mirror.st_hdrs s2) ->
     byz_bound (chain_vals ih ivs (Mirror.st_hdrs s1) h) (B h) /\
     A1m (chain_vals ih ivs (Mirror.st_hdrs s1) h) (B h) V h /\
     A2m (chain_vals ih ivs (Mirror.st_hdrs s1) h) (B h) V h /\
     A3m (chain_vals ih ivs (Mirror.st_hdrs s1) h) (B h) V h) ->
  forall h x1 cp1 x2 cp2, In (h, (x1, cp1)) (Mirror.st_hdrs s1) -> In (h, (x2, cp2)) (Mirror.st_hdrs s2) ->
    hd_hash x1 = hd_hash x2 /\
    valset_equal (hd_next x1) (hd_next x2) = true /\
    vs_keys (chain_vals ih ivs (Mirror.st_hdrs s1) h) = vs_keys (chain_vals ih ivs (Mirror.st_hdrs s2) h) /\
    vs_pows (chain_vals ih ivs (Mirror.st_hdrs s1) h) = vs_pows (chain_vals ih ivs (Mirror.st_hdrs s2) h).
Proof. exact mirrors_agree_rederived. Qed.
Print Assumptions C03X_mirrors_agree_rederived.

(** * (2) Operations, crashes after every store write, restarts *)

(** the new invariant over the closure: committed headers are good *)
Theorem C03X_committed_headers_good_after_crashes : forall ih ivs (s : kstate),
  1 <= ih -> vwf ivs -> reachable_g ih ivs s ->
  forall h x cp, In (h, (x, cp)) (Mirror.st_hdrs s) ->
    hd_hash x <> [] /\ hd_ok x = true /\ vs_ok (hd_next x) = true.
Proof. exact committed_headers_good_x. Qed.
Print Assumptions C03X_committed_headers_good_after_crashes.

(** ... preserved by every step of [xstep] from a state satisfying the invariants of C10Resume *)
Theorem C03X_good_headers_after_every_xstep : forall ih ivs (s : kstate) x s' res,
  1 <= ih -> vwf ivs -> K ih ivs s -> tinv s ->
  (forall h y cp, In (h, (y, cp)) (Mirror.st_hdrs s) -> hd_hash y <> [] /\ hd_ok y = true /\ vs_ok (hd_next y) = true) ->
  xwf s x res -> xstep s x = Ok (s', res) ->
  forall h y cp, In (h, (y, cp)) (Mirror.st_hdrs s') -> hd_hash y <> [] /\ hd_ok y = true /\ vs_ok (hd_next y) = true.
Proof. exact ginv_xstep. Qed.
Print Assumptions C03X_good_headers_after_every_xstep.

(** ... and by start-up on ANY stores satisfying the store invariant whose committed headers are good *)
Theorem C03X_good_headers_after_startup : forall ih ivs st vals log (s' : kstate),
  1 <= ih -> vwf ivs -> SI ih ivs st ->
  (forall h y cp, In (h, (y, cp)) (sr_hdrs st) -> hd_hash y <> [] /\ hd_ok y = true /\ vs_ok (hd_next y) = true) ->
  restart ih ivs st vals log = Ok s' ->
  forall h y cp, In (h, (y, cp)) (Mirror.st_hdrs s') -> hd_hash y <> [] /\ hd_ok y = true /\ vs_ok (hd_next y) = true.
Proof. exact ginv_restart. Qed.
Print Assumptions C03X_good_headers_after_startup.

Theorem C03X_bundle_after_crashes : forall ih ivs (s : kstate),
  1 <= ih -> vwf ivs -> reachable_g ih ivs s -> AgreeInv ih ivs s.
Proof. exact reachable_g_AgreeInv. Qed.
Print Assumptions C03X_bundle_after_crashes.

(** C03 for mirrors, all rounds, after crashes and restarts *)
Theorem C03X_mirrors_agree_after_crashes : forall ih ivs (s1 s2 : kstate) V (B : N -> list N),
  1 <= ih -> vwf ivs -> reachable_g ih ivs s1 -> reachable_g ih ivs s2 ->
  cert_sigs_in V s1 -> cert_sigs_in V s2 -> hash_binds_next s1 s2 ->
  (forall h x1 cp1 x2 cp2, In (h, (x1, cp1)) (Mirror.st_hdrs s1) -> In (h, (x2, cp2)) (Mirror.st_hdrs s2) ->
     byz_bound (chain_vals ih ivs (Mirror.st_hdrs s1) h) (B h) /\
     A1m (chain_vals ih ivs (Mirror.st_hdrs s1) h) (B h) V h /\
     A2m (chain_vals ih ivs (Mirror.st_hdrs s1) h) (B h) V h /\
     A3m (chain_vals ih ivs (Mirror.st_hdrs s1) h) (B h) V h) ->
  forall h x1 cp1 x2 cp2, In (h, (x1, cp1)) (Mirror.st_hdrs s1) -> In (h, (x2, cp2)) (Mirror.st_hdrs s2) ->
    hd_hash x1 = hd_hash x2 /\
    valset_equal (hd_next x1) (hd_next x2) = true /\
    vs_keys (chain_vals ih ivs (Mirror.st_hdrs s1) h) = vs_keys (chain_vals ih ivs (Mirror.st_hdrs s2) h) /\
    vs_pows (chain_vals ih ivs (Mirror.st_hdrs s1) h) = vs_pows (chain_vals ih ivs (Mirror.st_hdrs s2) h).
Proof. exact mirrors_agree_x. Qed.
Print Assumptions C03X_mirrors_agree_after_crashes.

(** the general form *)
Theorem C03X_mirrors_agree_upto_after_crashes : forall ih ivs (s1 s2 : kstate) V (B : N -> list N),
  1 <= ih -> vwf ivs -> reachable_g ih ivs s1 -> reachable_g ih ivs s2 ->
  cert_sigs_in V s1 -> cert_sigs_in V s2 -> hash_binds_next s1 s2 ->
  forall h,
  (forall h' x1 cp1 x2 cp2, h' <= h ->
     In (h', (x1, cp1)) (Mirror.st_hdrs s1) -> In (h', (x2, cp2)) (Mirror.st_hdrs s2) ->
     byz_bound (chain_vals ih ivs (Mirror.st_hdrs s1) h') (B h') /\
     A1m (chain_vals ih ivs (Mirror.st_hdrs s1) h') (B h') V h' /\
     (cp_round cp1 = cp_round cp2 \/
      (A2m (chain_vals ih ivs (Mirror.st_hdrs s1) h') (B h') V h' /\
       A3m (chain_vals ih ivs (Mirror.st_hdrs s1) h') (B h') V h'))) ->
  forall x1 cp1 x2 cp2, In (h, (x1, cp1)) (Mirror.st_hdrs s1) -> In (h, (x2, cp2)) (Mirror.st_hdrs s2) ->
    hd_hash x1 = hd_hash x2 /\
    valset_equal (hd_next x1) (hd_next x2) = true /\
    vs_keys (chain_vals ih ivs (Mirror.st_hdrs s1) h) = vs_keys (chain_vals ih ivs (Mirror.st_hdrs s2) h) /\
    vs_pows (chain_vals ih ivs (Mirror.st_hdrs s1) h) = vs_pows (chain_vals ih ivs (Mirror.st_hdrs s2) h).
Proof. exact mirrors_agree_upto_x. Qed.
Print Assumptions C03X_mirrors_agree_upto_after_crashes.

(** same certificate rounds: only A1 and the Byzantine bound *)
Theorem C03X_mirrors_agree_same_round_at_after_crashes : forall ih ivs (s1 s2 : kstate) V Bh h x1 cp1 x2 cp2,
  1 <= ih -> vwf ivs -> reachable_g ih ivs s1 -> reachable_g ih ivs s2 ->
  cert_sigs_in V s1 -> cert_sigs_in V s2 ->
  In (h, (x1, cp1)) (Mirror.st_hdrs s1) -> In (h, (x2, cp2)) (Mirror.st_hdrs s2) ->
  vs_keys (chain_vals ih ivs (Mirror.st_hdrs s1) h) = vs_keys (chain_vals ih ivs (Mirror.st_hdrs s2) h) ->
  vs_pows (chain_vals ih ivs (Mirror.st_hdrs s1) h) = vs_pows (chain_vals ih ivs (Mirror.st_hdrs s2) h) ->
  cp_round cp1 = cp_round cp2 ->
  byz_bound (chain_vals ih ivs (Mirror.st_hdrs s1) h) Bh -> A1m (chain_vals ih ivs (Mirror.st_hdrs s1) h) Bh V h ->
  hd_hash x1 = hd_hash x2.
Proof. exact mirrors_agree_same_round_at_x. Qed.
Print Assumptions C03X_mirrors_agree_same_round_at_after_crashes.

Theorem C03X_mirrors_agree_same_round_genesis_after_crashes : forall ih ivs (s1 s2 : kstate) V Bh x1 cp1 x2 cp2,
  1 <= ih -> vwf ivs -> reachable_g ih ivs s1 -> reachable_g ih ivs s2 ->
  cert_sigs_in V s1 -> cert_sigs_in V s2 ->
  In (ih, (x1, cp1)) (Mirror.st_hdrs s1) -> In (ih, (x2, cp2)) (Mirror.st_hdrs s2) ->
  cp_round cp1 = cp_round cp2 ->
  byz_bound ivs Bh -> A1m ivs Bh V ih ->
  hd_hash x1 = hd_hash x2.
Proof. exact mirrors_agree_same_round_genesis_x. Qed.
Print Assumptions C03X_mirrors_agree_same_round_genesis_after_crashes.

Theorem C03X_mirrors_agree_same_round_after_crashes : forall ih ivs (s1 s2 : kstate) V (B : N -> list N),
  1 <= ih -> vwf ivs -> reachable_g ih ivs s1 -> reachable_g ih ivs s2 ->
  cert_sigs_in V s1 -> cert_sigs_in V s2 -> hash_binds_next s1 s2 ->
  forall h,
  (forall h' x1 cp1 x2 cp2, h' <= h ->
     In (h', (x1, cp1)) (Mirror.st_hdrs s1) -> In (h', (x2, cp2)) (Mirror.st_hdrs s2) ->
     cp_round cp1 = cp_round cp2 /\
     byz_bound (chain_vals ih ivs (Mirror.st_hdrs s1) h') (B h') /\
     A1m (chain_vals ih ivs (Mirror.st_hdrs s1) h') (B h') V h') ->
  forall x1 cp1 x2 cp2, In (h, (x1, cp1)) (Mirror.st_hdrs s1) -> In (h, (x2, cp2)) (Mirror.st_hdrs s2) ->
    hd_hash x1 = hd_hash x2 /\ valset_equal (hd_next x1) (hd_next x2) = true.
Proof. exact mirrors_agree_same_round_x. Qed.
Print Assumptions C03X_mirrors_agree_same_round_after_crashes.

(** the bridge to Model/Network.v after crashes: a committed header is a Network precommit quorum *)
Theorem C03X_mirror_commit_is_network_quorum_after_crashes : forall ih ivs (s : kstate) V Bh h x cp,
  1 <= ih -> vwf ivs -> reachable_g ih ivs s ->
  In (h, (x, cp)) (Mirror.st_hdrs s) ->
  (forall sigs ss, In (hd_hash x, sigs) (cp_proofs cp) -> In ss sigs -> In (ss_sig ss) V) ->
  total (vs_pows (chain_vals ih ivs (Mirror.st_hdrs s) h)) < two64 ->
  hd_hash x <> [] /\
  decided (fun _ => vs_pows (chain_vals ih ivs (Mirror.st_hdrs s) h))
          (fun _ => byz_mask (chain_vals ih ivs (Mirror.st_hdrs s) h) Bh)
          (tr_votes (vs_keys (chain_vals ih ivs (Mirror.st_hdrs s) h)) h V) h (enc (hd_hash x)).
Proof. exact committed_is_network_quorum_x. Qed.
Print Assumptions C03X_mirror_commit_is_network_quorum_after_crashes.

(** ** composed with the state machine model: A1 discharged by [V_from_machines] *)

(** same certificate rounds: no A1 / A2 / A3 hypothesis left (FULL up to the admissibility above) *)
Theorem C03X_mirrors_agree_same_round_after_crashes_composed :
  forall ih ivs (s1 s2 : kstate) V (B : N -> list N) sg runs,
  1 <= ih -> vwf ivs -> reachable_g ih ivs s1 -> reachable_g ih ivs s2 ->
  cert_sigs_in V s1 -> cert_sigs_in V s2 -> hash_binds_next s1 s2 ->
  V_from_machines V B sg runs ->
  forall h,
  (forall h' x1 cp1 x2 cp2, h' <= h ->
     In (h', (x1, cp1)) (Mirror.st_hdrs s1) -> In (h', (x2, cp2)) (Mirror.st_hdrs s2) ->
     cp_round cp1 = cp_round cp2 /\
     byz_bound (chain_vals ih ivs (Mirror.st_hdrs s1) h') (B h')) ->
  forall x1 cp1 x2 cp2, In (h, (x1, cp1)) (Mirror.st_hdrs s1) -> In (h, (x2, cp2)) (Mirror.st_hdrs s2) ->
    hd_hash x1 = hd_hash x2 /\ valset_equal (hd_next x1) (hd_next x2) = true.
Proof. exact mirrors_agree_same_round_x_composed. Qed.
Print Assumptions C03X_mirrors_agree_same_round_after_crashes_composed.

(** all rounds (PARTIAL as a composition, as in C03Compose: A2 and A3 - obligations of the consensus
    strategy - remain hypotheses) *)
Theorem C03X_mirrors_agree_after_crashes_composed_partial :
  forall ih ivs (s1 s2 : kstate) V (B : N -> list N) sg runs,
  1 <= ih -> vwf ivs -> reachable_g ih ivs s1 -> reachable_g ih ivs s2 ->
  cert_sigs_in V s1 -> cert_sigs_in V s2 -> hash_binds_next s1 s2 ->
  V_from_machines V B sg runs ->
  (forall h x1 cp1 x2 cp2, In (h, (x1, cp1)) (Mirror.st_hdrs s1) -> In (h, (x2, cp2)) (Mirror.st_hdrs s2) ->
     byz_bound (chain_vals ih ivs (Mirror.st_hdrs s1) h) (B h) /\
     A2m (chain_vals ih ivs (Mirror.st_hdrs s1) h) (B h) V h /\
     A3m (chain_vals ih ivs (Mirror.st_hdrs s1) h) (B h) V h) ->
  forall h x1 cp1 x2 cp2, In (h, (x1, cp1)) (Mirror.st_hdrs s1) -> In (h, (x2, cp2)) (Mirror.st_hdrs s2) ->
    hd_hash x1 = hd_hash x2 /\
    valset_equal (hd_next x1) (hd_next x2) = true /\
    vs_keys (chain_vals ih ivs (Mirror.st_hdrs s1) h) = vs_keys (chain_vals ih ivs (Mirror.st_hdrs s2) h) /\
    vs_pows (chain_vals ih ivs (Mirror.st_hdrs s1) h) = vs_pows (chain_vals ih ivs (Mirror.st_hdrs s2) h).
Proof. exact mirrors_agree_x_composed. Qed.
Print Assumptions C03X_mirrors_agree_after_crashes_composed_partial.

Theorem C03X_mirrors_agree_upto_after_crashes_composed_partial :
  forall ih ivs (s1 s2 : kstate) V (B : N -> list N) sg runs,
  1 <= ih -> vwf ivs -> reachable_g ih ivs s1 -> reachable_g ih ivs s2 ->
  cert_sigs_in V s1 -> cert_sigs_in V s2 -> hash_binds_next s1 s2 ->
  V_from_machines V B sg runs ->
  forall h,
  (forall h' x1 cp1 x2 cp2, h' <= h ->
     In (h', (x1, cp1)) (Mirror.st_hdrs s1) -> In (h', (x2, cp2)) (Mirror.st_hdrs s2) ->
     byz_bound (chain_vals ih ivs (Mirror.st_hdrs s1) h') (B h') /\
     (cp_round cp1 = cp_round cp2 \/
      (A2m (chain_vals ih ivs (Mirror.st_hdrs s1) h') (B h') V h' /\
       A3m (chain_vals ih ivs (Mirror.st_hdrs s1) h') (B h') V h'))) ->
  forall x1 cp1 x2 cp2, In (h, (x1, cp1)) (Mirror.st_hdrs s1) -> In (h, (x2, cp2)) (Mirror.st_hdrs s2) ->
    hd_hash x1 = hd_hash x2 /\
    valset_equal (hd_next x1) (hd_next x2) = true /\
    vs_keys (chain_vals ih ivs (Mirror.st_hdrs s1) h) = vs_keys (chain_vals ih ivs (Mirror.st_hdrs s2) h) /\
    vs_pows (chain_vals ih ivs (Mirror.st_hdrs s1) h) = vs_pows (chain_vals ih ivs (Mirror.st_hdrs s2) h).
Proof. exact mirrors_agree_upto_x_composed. Qed.
Print Assumptions C03X_mirrors_agree_upto_after_crashes_composed_partial.

(** * (3) ... plus round entrances, reads and the local validator's own actions *)

Theorem C03X_committed_headers_good_with_local_actions : forall ih ivs (s : mstate),
  1 <= ih -> vwf ivs -> mreachable_a ih ivs s ->
  forall h x cp, In (h, (x, cp)) (Mirror.st_hdrs (ms_k s)) ->
    hd_hash x <> [] /\ hd_ok x = true /\ vs_ok (hd_next x) = true.
Proof. exact committed_headers_good_m. Qed.
Print Assumptions C03X_committed_headers_good_with_local_actions.

(** one local action: a vote needs nothing, the own proposed header the side condition when filed *)
Theorem C03X_local_action_keeps_headers_good : forall ih ivs (s : kstate) h r key a s',
  cinv ih ivs s ->
  (forall h y cp, In (h, (y, cp)) (Mirror.st_hdrs s) -> hd_hash y <> [] /\ hd_ok y = true /\ vs_ok (hd_next y) = true) ->
  lact_okb s a = true -> act_step s h r key a = Ok s' ->
  forall h y cp, In (h, (y, cp)) (Mirror.st_hdrs s') -> hd_hash y <> [] /\ hd_ok y = true /\ vs_ok (hd_next y) = true.
Proof. exact ginv_act_step. Qed.
Print Assumptions C03X_local_action_keeps_headers_good.

Theorem C03X_bundle_with_local_actions : forall ih ivs (s : mstate),
  1 <= ih -> vwf ivs -> mreachable_a ih ivs s -> AgreeInv ih ivs (ms_k s).
Proof. exact mreachable_a_AgreeInv. Qed.
Print Assumptions C03X_bundle_with_local_actions.

(** PARTIAL: [mreachable_a] asks [lph_okb] of each own proposed header the kernel files *)
Theorem C03X_mirrors_agree_with_local_actions_partial : forall ih ivs (s1 s2 : mstate) V (B : N -> list N),
  1 <= ih -> vwf ivs -> mreachable_a ih ivs s1 -> mreachable_a ih ivs s2 ->
  cert_sigs_in V (ms_k s1) -> cert_sigs_in V (ms_k s2) -> hash_binds_next (ms_k s1) (ms_k s2) ->
  (forall h x1 cp1 x2 cp2, In (h, (x1, cp1)) (Mirror.st_hdrs (ms_k s1)) -> In (h, (x2, cp2)) (Mirror.st_hdrs (ms_k s2)) ->
     byz_bound (chain_vals ih ivs (Mirror.st_hdrs (ms_k s1)) h) (B h) /\
     A1m (chain_vals ih ivs (Mirror.st_hdrs (ms_k s1)) h) (B h) V h /\
     A2m (chain_vals ih ivs (Mirror.st_hdrs (ms_k s1)) h) (B h) V h /\
     A3m (chain_vals ih ivs (Mirror.st_hdrs (ms_k s1)) h) (B h) V h) ->
  forall h x1 cp1 x2 cp2, In (h, (x1, cp1)) (Mirror.st_hdrs (ms_k s1)) -> In (h, (x2, cp2)) (Mirror.st_hdrs (ms_k s2)) ->
    hd_hash x1 = hd_hash x2 /\
    valset_equal (hd_next x1) (hd_next x2) = true /\
    vs_keys (chain_vals ih ivs (Mirror.st_hdrs (ms_k s1)) h) = vs_keys (chain_vals ih ivs (Mirror.st_hdrs (ms_k s2)) h) /\
    vs_pows (chain_vals ih ivs (Mirror.st_hdrs (ms_k s1)) h) = vs_pows (chain_vals ih ivs (Mirror.st_hdrs (ms_k s2)) h).
Proof. exact mirrors_agree_m. Qed.
Print Assumptions C03X_mirrors_agree_with_local_actions_partial.

Theorem C03X_mirrors_agree_upto_with_local_actions_partial : forall ih ivs (s1 s2 : mstate) V (B : N -> list N),
  1 <= ih -> vwf ivs -> mreachable_a ih ivs s1 -> mreachable_a ih ivs s2 ->
  cert_sigs_in V (ms_k s1) -> cert_sigs_in V (ms_k s2) -> hash_binds_next (ms_k s1) (ms_k s2) ->
  forall h,
  (forall h' x1 cp1 x2 cp2, h' <= h ->
     In (h', (x1, cp1)) (Mirror.st_hdrs (ms_k s1)) -> In (h', (x2, cp2)) (Mirror.st_hdrs (ms_k s2)) ->
     byz_bound (chain_vals ih ivs (Mirror.st_hdrs (ms_k s1)) h') (B h') /\
     A1m (chain_vals ih ivs (Mirror.st_hdrs (ms_k s1)) h') (B h') V h' /\
     (cp_round cp1 = cp_round cp2 \/
      (A2m (chain_vals ih ivs (Mirror.st_hdrs (ms_k s1)) h') (B h') V h' /\
       A3m (chain_vals ih ivs (Mirror.st_hdrs (ms_k s1)) h') (B h') V h'))) ->
  forall x1 cp1 x2 cp2, In (h, (x1, cp1)) (Mirror.st_hdrs (ms_k s1)) -> In (h, (x2, cp2)) (Mirror.st_hdrs (ms_k s2)) ->
    hd_hash x1 = hd_hash x2 /\
    valset_equal (hd_next x1) (hd_next x2) = true /\
    vs_keys (chain_vals ih ivs (Mirror.st_hdrs (ms_k s1)) h) = vs_keys (chain_vals ih ivs (Mirror.st_hdrs (ms_k s2)) h) /\
    vs_pows (chain_vals ih ivs (Mirror.st_hdrs (ms_k s1)) h) = vs_pows (chain_vals ih ivs (Mirror.st_hdrs (ms_k s2)) h).
Proof. exact mirrors_agree_upto_m. Qed.
Print Assumptions C03X_mirrors_agree_upto_with_local_actions_partial.

Theorem C03X_mirrors_agree_same_round_with_local_actions_partial : forall ih ivs (s1 s2 : mstate) V (B : N -> list N),
  1 <= ih -> vwf ivs -> mreachable_a ih ivs s1 -> mreachable_a ih ivs s2 ->
  cert_sigs_in V (ms_k s1) -> cert_sigs_in V (ms_k s2) -> hash_binds_next (ms_k s1) (ms_k s2) ->
  forall h,
  (forall h' x1 cp1 x2 cp2, h' <= h ->
     In (h', (x1, cp1)) (Mirror.st_hdrs (ms_k s1)) -> In (h', (x2, cp2)) (Mirror.st_hdrs (ms_k s2)) ->
     cp_round cp1 = cp_round cp2 /\
     byz_bound (chain_vals ih ivs (Mirror.st_hdrs (ms_k s1)) h') (B h') /\
     A1m (chain_vals ih ivs (Mirror.st_hdrs (ms_k s1)) h') (B h') V h') ->
  forall x1 cp1 x2 cp2, In (h, (x1, cp1)) (Mirror.st_hdrs (ms_k s1)) -> In (h, (x2, cp2)) (Mirror.st_hdrs (ms_k s2)) ->
    hd_hash x1 = hd_hash x2 /\ valset_equal (hd_next x1) (hd_next x2) = true.
Proof. exact mirrors_agree_same_round_m. Qed.
Print Assumptions C03X_mirrors_agree_same_round_with_local_actions_partial.

(** composed with the state machine model (A1 discharged; A2/A3 or same rounds remain) *)
Theorem C03X_mirrors_agree_upto_with_local_actions_composed_partial :
  forall ih ivs (s1 s2 : mstate) V (B : N -> list N) sg runs,
  1 <= ih -> vwf ivs -> mreachable_a ih ivs s1 -> mreachable_a ih ivs s2 ->
  cert_sigs_in V (ms_k s1) -> cert_sigs_in V (ms_k s2) -> hash_binds_next (ms_k s1) (ms_k s2) ->
  V_from_machines V B sg runs ->
  forall h,
  (forall h' x1 cp1 x2 cp2, h' <= h ->
     In (h', (x1, cp1)) (Mirror.st_hdrs (ms_k s1)) -> In (h', (x2, cp2)) (Mirror.st_hdrs (ms_k s2)) ->
     byz_bound (chain_vals ih ivs (Mirror.st_hdrs (ms_k s1)) h') (B h') /\
     (cp_round cp1 = cp_round cp2 \/
      (A2m (chain_vals ih ivs (Mirror.st_hdrs (ms_k s1)) h') (B h') V h' /\
       A3m (chain_vals ih ivs (Mirror.st_hdrs (ms_k s1)) h') (B h') V h'))) ->
  forall x1 cp1 x2 cp2, In (h, (x1, cp1)) (Mirror.st_hdrs (ms_k s1)) -> In (h, (x2, cp2)) (Mirror.st_hdrs (ms_k s2)) ->
    hd_hash x1 = hd_hash x2 /\
    valset_equal (hd_next x1) (hd_next x2) = true /\
    vs_keys (chain_vals ih ivs (Mirror.st_hdrs (ms_k s1)) h) = vs_keys (chain_vals ih ivs (Mirror.st_hdrs (ms_k s2)) h) /\
    vs_pows (chain_vals ih ivs (Mirror.st_hdrs (ms_k s1)) h) = vs_pows (chain_vals ih ivs (Mirror.st_hdrs (ms_k s2)) h).
Proof. exact mirrors_agree_upto_m_composed. Qed.
Print Assumptions C03X_mirrors_agree_upto_with_local_actions_composed_partial.

(** over the closure of C05Act: [mreachable] restricted by [accept_facts] of each own proposed header
    (correct block hash, consistent next set, height below 2^64 - 1, extends the committing header)
    and without crashes / restarts; the genesis set only needs [vs_ok] *)
Theorem C03X_mirrors_agree_with_local_actions_no_crashes_partial : forall ih ivs (s1 s2 : mstate) V (B : N -> list N),
  1 <= ih -> vs_ok ivs = true -> lreachable ih ivs s1 -> lreachable ih ivs s2 ->
  cert_sigs_in V (ms_k s1) -> cert_sigs_in V (ms_k s2) -> hash_binds_next (ms_k s1) (ms_k s2) ->
  (forall h x1 cp1 x2 cp2, In (h, (x1, cp1)) (Mirror.st_hdrs (ms_k s1)) -> In (h, (x2, cp2)) (Mirror.st_hdrs (ms_k s2)) ->
     byz_bound (chain_vals ih ivs (Mirror.st_hdrs (ms_k s1)) h) (B h) /\
     A1m (chain_vals ih ivs (Mirror.st_hdrs (ms_k s1)) h) (B h) V h /\
     A2m (chain_vals ih ivs (Mirror.st_hdrs (ms_k s1)) h) (B h) V h /\
     A3m (chain_vals ih ivs (Mirror.st_hdrs (ms_k s1)) h) (B h) V h) ->
  forall h x1 cp1 x2 cp2, In (h, (x1, cp1)) (Mirror.st_hdrs (ms_k s1)) -> In (h, (x2, cp2)) (Mirror.st_hdrs (ms_k s2)) ->
    hd_hash x1 = hd_hash x2 /\
    valset_equal (hd_next x1) (hd_next x2) = true /\
    vs_keys (chain_vals ih ivs (Mirror.st_hdrs (ms_k s1)) h) = vs_keys (chain_vals ih ivs (Mirror.st_hdrs (ms_k s2)) h) /\
    vs_pows (chain_vals ih ivs (Mirror.st_hdrs (ms_k s1)) h) = vs_pows (chain_vals ih ivs (Mirror.st_hdrs (ms_k s2)) h).
Proof. exact mirrors_agree_l. Qed.
Print Assumptions C03X_mirrors_agree_with_local_actions_no_crashes_partial.

(** the two nodes need not be described by the same closure: each is a kernel state reached in one
    of the four ways ([reachable_b], [reachable_g], kernel state of [mreachable_a] / of [lreachable]) *)
Theorem C03X_mirrors_agree_upto_mixed_closures_partial : forall ih ivs (k1 k2 : kstate) V (B : N -> list N),
  1 <= ih -> vwf ivs ->
  (reachable_b ih ivs k1 \/ reachable_g ih ivs k1 \/
   (exists s, mreachable_a ih ivs s /\ ms_k s = k1) \/ (exists s, lreachable ih ivs s /\ ms_k s = k1)) ->
  (reachable_b ih ivs k2 \/ reachable_g ih ivs k2 \/
   (exists s, mreachable_a ih ivs s /\ ms_k s = k2) \/ (exists s, lreachable ih ivs s /\ ms_k s = k2)) ->
  cert_sigs_in V k1 -> cert_sigs_in V k2 -> hash_binds_next k1 k2 ->
  forall h,
  (forall h' x1 cp1 x2 cp2, h' <= h ->
     In (h', (x1, cp1)) (Mirror.st_hdrs k1) -> In (h', (x2, cp2)) (Mirror.st_hdrs k2) ->
     byz_bound (chain_vals ih ivs (Mirror.st_hdrs k1) h') (B h') /\
     A1m (chain_vals ih ivs (Mirror.st_hdrs k1) h') (B h') V h' /\
     (cp_round cp1 = cp_round cp2 \/
      (A2m (chain_vals ih ivs (Mirror.st_hdrs k1) h') (B h') V h' /\ A3m (chain_vals ih ivs (Mirror.st_hdrs k1) h') (B h') V h'))) ->
  forall x1 cp1 x2 cp2, In (h, (x1, cp1)) (Mirror.st_hdrs k1) -> In (h, (x2, cp2)) (Mirror.st_hdrs k2) ->
    hd_hash x1 = hd_hash x2 /\
    valset_equal (hd_next x1) (hd_next x2) = true /\
    vs_keys (chain_vals ih ivs (Mirror.st_hdrs k1) h) = vs_keys (chain_vals ih ivs (Mirror.st_hdrs k2) h) /\
    vs_pows (chain_vals ih ivs (Mirror.st_hdrs k1) h) = vs_pows (chain_vals ih ivs (Mirror.st_hdrs k2) h).
Proof. exact mirrors_agree_upto_mixed. Qed.
Print Assumptions C03X_mirrors_agree_upto_mixed_closures_partial.

(** ** The side condition on own proposed headers is NEEDED: REFUTED without it.
    Witness (replayable on the real mirror through handleStateMachineAction; genesis set: one
    validator, key 7, power 1):
      node W: the state machine enters (1, 0) with key 7; its action carries a proposed header with
        block hash [9] whose next validator set is {key 8} and whose hash is NOT the hash of its
        fields (the kernel files it unchecked: sm_action_ph_unchecked); its own precommit for [9]
        commits it at height 1.  At height 2 - validator set {8} - a peer's proposed header with
        hash [5] and the precommit of key 8 for [5]: committed.
      node Q: a peer's proposed header with hash [9], well-formed, next set {7}; the precommit of
        key 7 for [9]: committed at height 1.  At height 2 - validator set {7} - the proposed
        header [6] and the precommit of key 7 for [6]: committed.
    Every signature is genuine, nobody signs twice in a round, no Byzantine key, prevote quorums
    exist for every precommit; "the hash binds the next set" holds (it speaks about headers whose
    hash IS the hash of their fields).  Different blocks at height 2, in the same round. *)
Theorem C03X_local_ph_condition_needed_refuted :
  exists ih ivs (s1 s2 : mstate) V (B : N -> list N),
    1 <= ih /\ vwf ivs /\ mreachable_0 ih ivs s1 /\ mreachable_a ih ivs s2 /\
    cert_sigs_in V (ms_k s1) /\ cert_sigs_in V (ms_k s2) /\ hash_binds_next (ms_k s1) (ms_k s2) /\
    (forall h x1 cp1 x2 cp2, In (h, (x1, cp1)) (Mirror.st_hdrs (ms_k s1)) -> In (h, (x2, cp2)) (Mirror.st_hdrs (ms_k s2)) ->
       byz_bound (chain_vals ih ivs (Mirror.st_hdrs (ms_k s1)) h) (B h) /\
       A1m (chain_vals ih ivs (Mirror.st_hdrs (ms_k s1)) h) (B h) V h /\
       A2m (chain_vals ih ivs (Mirror.st_hdrs (ms_k s1)) h) (B h) V h /\
       A3m (chain_vals ih ivs (Mirror.st_hdrs (ms_k s1)) h) (B h) V h) /\
    (exists x1 cp1 x2 cp2,
       In (2, (x1, cp1)) (Mirror.st_hdrs (ms_k s1)) /\ In (2, (x2, cp2)) (Mirror.st_hdrs (ms_k s2)) /\
       cp_round cp1 = cp_round cp2 /\ hd_hash x1 <> hd_hash x2) /\
    (exists x1 cp1 x2 cp2,
       In (1, (x1, cp1)) (Mirror.st_hdrs (ms_k s1)) /\ In (1, (x2, cp2)) (Mirror.st_hdrs (ms_k s2)) /\
       hd_hash x1 = hd_hash x2 /\ hd_ok x1 = false /\ valset_equal (hd_next x1) (hd_next x2) = false).
Proof. exact mirrors_agree_needs_local_ph_condition_refuted. Qed.
Print Assumptions C03X_local_ph_condition_needed_refuted.

(** the closure without the side condition contains the admissible one *)
Theorem C03X_closure_without_condition_extends : forall ih ivs (s : mstate),
  mreachable_a ih ivs s -> mreachable_0 ih ivs s.
Proof. exact mreachable_a_0. Qed.
Print Assumptions C03X_closure_without_condition_extends.

(** * (4) Non-vacuity *)

(** two nodes from [init_state 1 evs] (Proofs/MirrorAgreeWitness.v: four validators of power 1, a
    changed set from height 2 on, Byzantine key 13 equivocating at height 1): node [g1] runs [ops1]
    uninterrupted; node [g2] runs [ops2] where the precommit that commits height 1 is interrupted
    after two of its three store writes (precommits and committed header written, position not:
    [C03X_crash_is_mid_commit]) and the mirror is started again, and a clean restart follows in the
    middle of height 2.  All hypotheses of [C03X_mirrors_agree_after_crashes] hold; both committed
    heights 1 and 2 (height 1 in different rounds, from different certificates). *)
Theorem C03X_hypotheses_satisfiable_after_crash :
  vwf evs /\ reachable_g 1 evs g1 /\ reachable_g 1 evs g2 /\
  cert_sigs_in xV g1 /\ cert_sigs_in xV g2 /\ hash_binds_next g1 g2 /\
  (forall h x1 cp1 x2 cp2, In (h, (x1, cp1)) (Mirror.st_hdrs g1) -> In (h, (x2, cp2)) (Mirror.st_hdrs g2) ->
     byz_bound (chain_vals 1 evs (Mirror.st_hdrs g1) h) (exB h) /\
     A1m (chain_vals 1 evs (Mirror.st_hdrs g1) h) (exB h) xV h /\
     A2m (chain_vals 1 evs (Mirror.st_hdrs g1) h) (exB h) xV h /\
     A3m (chain_vals 1 evs (Mirror.st_hdrs g1) h) (exB h) xV h) /\
  commits g1 = [(2, [3], 0); (1, [1], 0)] /\ commits g2 = [(2, [3], 0); (1, [1], 1)] /\
  cert_sigs g1 <> cert_sigs g2 /\
  chain_vals 1 evs (Mirror.st_hdrs g1) 1 = evs /\ chain_vals 1 evs (Mirror.st_hdrs g1) 2 = evs2 /\
  In (SVote 13 KPrecommit 1 0 [2]) xV /\ In (SVote 13 KPrecommit 1 0 []) xV /\ In (SVote 13 KPrecommit 1 1 [1]) xV.
Proof. exact mirrors_agree_x_hypotheses_satisfiable. Qed.
Print Assumptions C03X_hypotheses_satisfiable_after_crash.

Theorem C03X_crash_is_mid_commit :
  reachable_g 1 evs c_s /\ st_nhr c_s = (1, 1, 0, 0) /\ Mirror.st_hdrs c_s = [] /\
  Mirror.step c_s c_op = Ok (c_s1, HandleVoteProofsAccepted) /\
  (List.length (st_log c_s1) - List.length (st_log c_s) = 3)%nat /\
  ends_hdr (firstn 2 (skipn (List.length (st_log c_s)) (st_log c_s1))) = true /\
  sr_nhr (crash_stores c_s c_s1 2) = (1, 1, 0, 0) /\
  map fst (sr_hdrs (crash_stores c_s c_s1 2)) = [1] /\
  xstep c_s (XCrash 2 c_op) = Ok (c_s', HandleVoteProofsAccepted) /\
  st_nhr c_s' = (2, 0, 1, 1) /\ commits c_s' = [(1, [1], 1)].
Proof. exact crash_is_mid_commit. Qed.
Print Assumptions C03X_crash_is_mid_commit.

(** with local actions: node [mL] (a proposed header, entrance with key 7, own prevote and precommit -
    height 1 committed -, a crash in the middle of a nil precommit, a restart, its OWN proposed header
    for height 2 and its own precommit for it - height 2 committed) and node [mP] (peers' messages) *)
Theorem C03X_hypotheses_satisfiable_with_local_actions :
  vwf MirrorTotal.ex_vs /\ mreachable_a 1 MirrorTotal.ex_vs mL /\ mreachable_a 1 MirrorTotal.ex_vs mP /\
  cert_sigs_in lV (ms_k mL) /\ cert_sigs_in lV (ms_k mP) /\ hash_binds_next (ms_k mL) (ms_k mP) /\
  (forall h x1 cp1 x2 cp2, In (h, (x1, cp1)) (Mirror.st_hdrs (ms_k mL)) -> In (h, (x2, cp2)) (Mirror.st_hdrs (ms_k mP)) ->
     byz_bound (chain_vals 1 MirrorTotal.ex_vs (Mirror.st_hdrs (ms_k mL)) h) [] /\
     A1m (chain_vals 1 MirrorTotal.ex_vs (Mirror.st_hdrs (ms_k mL)) h) [] lV h /\
     A2m (chain_vals 1 MirrorTotal.ex_vs (Mirror.st_hdrs (ms_k mL)) h) [] lV h /\
     A3m (chain_vals 1 MirrorTotal.ex_vs (Mirror.st_hdrs (ms_k mL)) h) [] lV h) /\
  commits (ms_k mL) = [(2, [8], 1); (1, [9], 0)] /\ commits (ms_k mP) = [(2, [8], 1); (1, [9], 0)].
Proof. exact mirrors_agree_m_hypotheses_satisfiable. Qed.
Print Assumptions C03X_hypotheses_satisfiable_with_local_actions.

(** the closure of C05Act: node [mD] (a peer's proposed header, entrance with key 7, own prevote and
    precommit, entrance at height 2, its OWN proposed header - filed under [accept_facts] - and its own
    precommit for it) and node [mE] (peers' messages only) *)
Theorem C03X_hypotheses_satisfiable_with_local_actions_no_crashes :
  vs_ok MirrorTotal.ex_vs = true /\ lreachable 1 MirrorTotal.ex_vs mD /\ lreachable 1 MirrorTotal.ex_vs mE /\
  cert_sigs_in dV (ms_k mD) /\ cert_sigs_in dV (ms_k mE) /\ hash_binds_next (ms_k mD) (ms_k mE) /\
  (forall h x1 cp1 x2 cp2, In (h, (x1, cp1)) (Mirror.st_hdrs (ms_k mD)) -> In (h, (x2, cp2)) (Mirror.st_hdrs (ms_k mE)) ->
     byz_bound (chain_vals 1 MirrorTotal.ex_vs (Mirror.st_hdrs (ms_k mD)) h) [] /\
     A1m (chain_vals 1 MirrorTotal.ex_vs (Mirror.st_hdrs (ms_k mD)) h) [] dV h /\
     A2m (chain_vals 1 MirrorTotal.ex_vs (Mirror.st_hdrs (ms_k mD)) h) [] dV h /\
     A3m (chain_vals 1 MirrorTotal.ex_vs (Mirror.st_hdrs (ms_k mD)) h) [] dV h) /\
  commits (ms_k mD) = [(2, [8], 0); (1, [9], 0)] /\ commits (ms_k mE) = [(2, [8], 0); (1, [9], 0)].
Proof. exact mirrors_agree_l_hypotheses_satisfiable. Qed.
Print Assumptions C03X_hypotheses_satisfiable_with_local_actions_no_crashes.

(** the composed theorem end to end: the engines of the correct keys 10, 11, 12 each run the state
    machine history [hist1]; Byzantine key 13 precommits [1] and [2]; mirror [xA] commits header [1]
    from the precommits of 10, 11, 12 and is restarted; mirror [xC] crashes between the
    committed-header write and the position write of its commit (precommits of 11, 12, 13) *)
Theorem C03X_composed_hypotheses_satisfiable_after_crash :
  vwf evs /\ reachable_g 1 evs xA /\ reachable_g 1 evs xC /\
  cert_sigs_in e2e_V xA /\ cert_sigs_in e2e_V xC /\ hash_binds_next xA xC /\
  V_from_machines e2e_V e2e_B e2e_sg e2e_runs /\
  (forall h' x1 cp1 x2 cp2, h' <= 1 ->
     In (h', (x1, cp1)) (Mirror.st_hdrs xA) -> In (h', (x2, cp2)) (Mirror.st_hdrs xC) ->
     cp_round cp1 = cp_round cp2 /\ byz_bound (chain_vals 1 evs (Mirror.st_hdrs xA) h') (e2e_B h')) /\
  commits xA = [(1, [1], 0)] /\ commits xC = [(1, [1], 0)] /\ cert_sigs xA <> cert_sigs xC /\
  st_nhr xA = (2, 0, 1, 0) /\ st_nhr xC = (2, 0, 1, 0) /\
  In (SVote 13 KPrecommit 1 0 [1]) e2e_V /\ In (SVote 13 KPrecommit 1 0 [2]) e2e_V.
Proof. exact composed_hypotheses_satisfiable_after_crash. Qed.
Print Assumptions C03X_composed_hypotheses_satisfiable_after_crash.
