(** C12 - the durations the production round timer is armed with: LinearTimeoutStrategy
    (tm/tmengine/timeoutstrategy.go), GENERATED as Gen/Timeouts.v on every run with int64 wrap-around.
    Only statements closed by [exact] plus [Print Assumptions]. *)
From Coq Require Import List NArith ZArith Bool.
From GV Require Import Base.Ints Base.SInts Gen.Timeouts Proofs.Timeouts.
Local Open Scope Z_scope.

(** Each of the four methods is exactly "field or default, base + Duration(round) * increment" in int64 arithmetic,
    for every configuration and every round; none of them can panic. *)
Theorem C12_proposal_timeout_spec : forall s r,
  proposal_timeout s r = Ok (lin (eff (lts_ProposalBase s) sec5) (eff (lts_ProposalIncrement s) ms500) r).
Proof. exact proposal_timeout_spec. Qed.
Print Assumptions C12_proposal_timeout_spec.

Theorem C12_prevote_delay_timeout_spec : forall s r,
  prevote_delay_timeout s r = Ok (lin (eff (lts_PrevoteDelayBase s) sec5) (eff (lts_PrevoteDelayIncrement s) ms500) r).
Proof. exact prevote_delay_timeout_spec. Qed.
Print Assumptions C12_prevote_delay_timeout_spec.

Theorem C12_precommit_delay_timeout_spec : forall s r,
  precommit_delay_timeout s r = Ok (lin (eff (lts_PrecommitDelayBase s) sec5) (eff (lts_PrecommitDelayIncrement s) ms500) r).
Proof. exact precommit_delay_timeout_spec. Qed.
Print Assumptions C12_precommit_delay_timeout_spec.

Theorem C12_commit_wait_timeout_spec : forall s r,
  commit_wait_timeout s r = Ok (lin (eff (lts_CommitWaitBase s) sec2) (eff (lts_CommitWaitIncrement s) ms500) r).
Proof. exact commit_wait_timeout_spec. Qed.
Print Assumptions C12_commit_wait_timeout_spec.

(** The defaults, for EVERY round a uint32 can hold (not a sample): 5 s / 5 s / 5 s / 2 s plus 500 ms per round, exactly,
    strictly positive and below 2^63 ns - the timer is never armed with a wrapped or non-positive duration. *)
Theorem C12_default_timeouts_exact : forall r, Z.of_N r < 4294967296 ->
  proposal_timeout zero_lts r = Ok (sec5 + Z.of_N r * ms500) /\
  prevote_delay_timeout zero_lts r = Ok (sec5 + Z.of_N r * ms500) /\
  precommit_delay_timeout zero_lts r = Ok (sec5 + Z.of_N r * ms500) /\
  commit_wait_timeout zero_lts r = Ok (sec2 + Z.of_N r * ms500) /\
  0 < sec2 + Z.of_N r * ms500 /\ sec5 + Z.of_N r * ms500 < two63.
Proof. exact default_timeouts_exact. Qed.
Print Assumptions C12_default_timeouts_exact.

(** Any configuration whose largest duration (round 2^32-1) fits int64: exact linear, positive, strictly increasing. *)
Theorem C12_timeouts_linear_without_wrap : forall b i r,
  0 <= b -> 0 <= i -> Z.of_N r < 4294967296 -> b + 4294967295 * i < two63 -> lin b i r = b + Z.of_N r * i.
Proof. exact lin_exact. Qed.
Print Assumptions C12_timeouts_linear_without_wrap.

Theorem C12_timeouts_positive_monotone : forall b i r r',
  0 < b -> 0 < i -> b + 4294967295 * i < two63 -> Z.of_N r < Z.of_N r' -> Z.of_N r' < 4294967296 ->
  0 < lin b i r /\ lin b i r < lin b i r'.
Proof. exact lin_positive_monotone. Qed.
Print Assumptions C12_timeouts_positive_monotone.

(** The guard is necessary (the strategy does not validate its fields): a huge configured increment wraps to a negative
    duration.  Outside C12's statement; recorded as an observation in DESIGN.md. *)
Theorem C12_timeouts_wrap_without_guard_refuted :
  exists s r, Z.of_N r < 4294967296 /\ 0 < lts_ProposalBase s /\ 0 < lts_ProposalIncrement s /\
    exists d, proposal_timeout s r = Ok d /\ d < 0.
Proof. exact lin_wraps_without_guard. Qed.
Print Assumptions C12_timeouts_wrap_without_guard_refuted.
