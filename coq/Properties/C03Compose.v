(** C03 "Correct nodes never finalize different blocks at the same height" COMPOSED with C02 "the
    local validator never signs two votes in one round": hypothesis A1 of Properties/C03Mirror.v
    ([A1m]: a correct validator has ONE prevote target and ONE precommit target per (h, r) in the
    global list [V] of ideal signatures) is discharged from the round state machine model
    (Model/StateMachine.v, theorems of Properties/C02Inv.v / C02Once.v over ALL event histories).

    Statements only; proofs in Proofs/ComposeA1.v, Proofs/ComposeA1Witness.v.

    The remaining assumption is unforgeability, stated as a predicate on [V] (not an axiom):
    [V_from_machines V B sg runs] - every prevote/precommit signature in [V] under a key that is
    correct at its height ([key] not in [B h]) was EMITTED by that key's engine, which is ONE state
    machine run [runs key] from [sm0 (sg key)]: any event history, in any interleaving with the
    other keys' histories (the histories are independent arguments), with any number of restarts
    (EvStop / EvStart keep the stores), on the ONE action store of that run.
    ([step], [view], ... below are the state machine's; the Mirror modules are imported first.) *)
From Coq Require Import List NArith Bool.
From GV Require Import Base.Ints Gen.Math Gen.Kernel Model.Network Model.Mirror
  Proofs.Thresholds Proofs.Network Proofs.MirrorAuth Proofs.MirrorChain Proofs.MirrorCert
  Proofs.MirrorHdrGood Proofs.MirrorAgree Proofs.MirrorAgreeWitness.
From GV Require Import Gen.StepSM Model.StateMachine Proofs.SMInv Proofs.SMInvStep Proofs.SMRel
  Proofs.SMInvActs Proofs.SMWitness Proofs.SMOnce Proofs.SMOnceSign Proofs.SMOncePH
  Proofs.ComposeA1 Proofs.ComposeA1Witness.
Import ListNotations.
Local Open Scope N_scope.

(** ** The vocabulary of the bridge (each clause holds by unfolding the definition) *)
Theorem C03Compose_vocabulary :
  (* the votes an engine handed to the mirror / network, as ideal signatures of its key *)
  (forall key outs, emitted_votes key outs =
     flat_map (fun o => match o with
                        | OEmitPrevote h r t => [SVote key KPrevote h r t]
                        | OEmitPrecommit h r t => [SVote key KPrecommit h r t]
                        | _ => [] end) (List.concat outs)) /\
  (* ... exactly the [emit_of] outputs of Properties/C02Inv.v *)
  (forall key outs key' kind h r t, In (SVote key' kind h r t) (emitted_votes key outs) <->
     key' = key /\ exists pv : bool, kind = (if pv then KPrevote else KPrecommit) /\
                   exists o, In o outs /\ In (emit_of pv h r t) o) /\
  (* the proposals (block data) an engine emitted *)
  (forall outs h r d, In (h, r, d) (emitted_proposals outs) <-> exists o, In o outs /\ In (OEmitPH h r d) o) /\
  (* what the signer produced, emitted or not *)
  (forall key outs, signed_votes key outs =
     flat_map (fun o => match o with
                        | OSignPrevote h r t => [SVote key KPrevote h r t]
                        | OSignPrecommit h r t => [SVote key KPrecommit h r t]
                        | _ => [] end) (List.concat outs)) /\
  (* unforgeability: a correct key's votes in V come from its one engine run *)
  (forall V B sg runs, V_from_machines V B sg runs <->
     forall key kind h r t, kind = KPrevote \/ kind = KPrecommit -> ~ In key (B h) ->
       In (SVote key kind h r t) V ->
       In (SVote key kind h r t) (emitted_votes key (run_events (sm0 (sg key)) (runs key)))) /\
  (* the two-machines-per-key variant that is refuted below *)
  (forall V B sg runs1 runs2, V_from_two_machines V B sg runs1 runs2 <->
     forall key kind h r t, kind = KPrevote \/ kind = KPrecommit -> ~ In key (B h) ->
       In (SVote key kind h r t) V ->
       In (SVote key kind h r t) (emitted_votes key (run_events (sm0 (sg key)) (runs1 key))) \/
       In (SVote key kind h r t) (emitted_votes key (run_events (sm0 (sg key)) (runs2 key)))).
Proof.
  split; [intros; reflexivity|]. split; [exact emitted_votes_in|]. split; [exact emitted_proposals_in|].
  split; [intros; reflexivity|]. split; intros; reflexivity.
Qed.
Print Assumptions C03Compose_vocabulary.

(** ** One target per kind and (height, round) in one history (FULL).
    Any two emissions of one kind (prevote: pv = true, precommit: pv = false) for one (h, r) anywhere
    in one event history from the initial state - restarts included - carry the same target.  They are
    the same event (C02_one_emission_ever), and ONE event cannot emit two different targets: after the
    event the action store holds exactly one vote of the kind for (h, r), equal to each emission of the
    event (C02_emitted_was_signed_and_saved).  The model does NOT allow two emissions with different
    targets in one event. *)
Theorem C03_one_vote_target_per_round_ever : forall sg pv es oi oj h r t t',
  In oi (run_events (sm0 sg) es) -> In oj (run_events (sm0 sg) es) ->
  In (emit_of pv h r t) oi -> In (emit_of pv h r t') oj -> t = t'.
Proof. exact one_target_per_history. Qed.
Print Assumptions C03_one_vote_target_per_round_ever.

(** ** A1 from the state machines (FULL): for ANY assignment of event histories to keys *)
Theorem C03_A1_from_state_machines : forall V (B : N -> list N) (sg : N -> bool) (runs : N -> list event),
  V_from_machines V B sg runs -> forall vs h, A1m vs (B h) V h.
Proof. exact A1_from_state_machines. Qed.
Print Assumptions C03_A1_from_state_machines.

(** ** Mirror agreement, same certificate rounds (FULL; no A1 / A2 / A3 hypothesis left):
    the Byzantine bound, unforgeability and the mirrors' own hypotheses of C03_mirrors_agree_same_round. *)
Theorem C03_mirrors_agree_same_round_composed : forall ih ivs s1 s2 V (B : N -> list N) sg runs,
  1 <= ih -> vs_ok ivs = true -> reachable_b ih ivs s1 -> reachable_b ih ivs s2 ->
  cert_sigs_in V s1 -> cert_sigs_in V s2 -> hash_binds_next s1 s2 ->
  V_from_machines V B sg runs ->
  forall h,
  (forall h' x1 cp1 x2 cp2, h' <= h ->
     In (h', (x1, cp1)) (st_hdrs s1) -> In (h', (x2, cp2)) (st_hdrs s2) ->
     cp_round cp1 = cp_round cp2 /\
     byz_bound (chain_vals ih ivs (st_hdrs s1) h') (B h')) ->
  forall x1 cp1 x2 cp2, In (h, (x1, cp1)) (st_hdrs s1) -> In (h, (x2, cp2)) (st_hdrs s2) ->
    hd_hash x1 = hd_hash x2 /\ valset_equal (hd_next x1) (hd_next x2) = true.
Proof. exact mirrors_agree_same_round_composed. Qed.
Print Assumptions C03_mirrors_agree_same_round_composed.

(** ** Mirror agreement, all rounds (PARTIAL as a composition: A1 is discharged; A2 and A3 - the lock
    rules - REMAIN hypotheses.  In gordian they are obligations of the consensus STRATEGY
    (tmconsensus.ConsensusStrategy: ChooseProposedBlock / DecidePrecommit), the engine's state machine
    records whatever target the strategy answers and does not enforce them; nothing in
    Model/StateMachine.v could discharge them.)  Missing for the full statement: a model of a
    strategy that obeys A2/A3, or the hypothesis that each correct key's strategy does. *)
Theorem C03_mirrors_agree_composed_partial : forall ih ivs s1 s2 V (B : N -> list N) sg runs,
  1 <= ih -> vs_ok ivs = true -> reachable_b ih ivs s1 -> reachable_b ih ivs s2 ->
  cert_sigs_in V s1 -> cert_sigs_in V s2 -> hash_binds_next s1 s2 ->
  V_from_machines V B sg runs ->
  (forall h x1 cp1 x2 cp2, In (h, (x1, cp1)) (st_hdrs s1) -> In (h, (x2, cp2)) (st_hdrs s2) ->
     byz_bound (chain_vals ih ivs (st_hdrs s1) h) (B h) /\
     A2m (chain_vals ih ivs (st_hdrs s1) h) (B h) V h /\
     A3m (chain_vals ih ivs (st_hdrs s1) h) (B h) V h) ->
  forall h x1 cp1 x2 cp2, In (h, (x1, cp1)) (st_hdrs s1) -> In (h, (x2, cp2)) (st_hdrs s2) ->
    hd_hash x1 = hd_hash x2 /\
    valset_equal (hd_next x1) (hd_next x2) = true /\
    vs_keys (chain_vals ih ivs (st_hdrs s1) h) = vs_keys (chain_vals ih ivs (st_hdrs s2) h) /\
    vs_pows (chain_vals ih ivs (st_hdrs s1) h) = vs_pows (chain_vals ih ivs (st_hdrs s2) h).
Proof. exact mirrors_agree_composed. Qed.
Print Assumptions C03_mirrors_agree_composed_partial.

(** ... and the general form: at each common height up to h the bound and (same round, or A2 and A3) *)
Theorem C03_mirrors_agree_upto_composed_partial : forall ih ivs s1 s2 V (B : N -> list N) sg runs,
  1 <= ih -> vs_ok ivs = true -> reachable_b ih ivs s1 -> reachable_b ih ivs s2 ->
  cert_sigs_in V s1 -> cert_sigs_in V s2 -> hash_binds_next s1 s2 ->
  V_from_machines V B sg runs ->
  forall h,
  (forall h' x1 cp1 x2 cp2, h' <= h ->
     In (h', (x1, cp1)) (st_hdrs s1) -> In (h', (x2, cp2)) (st_hdrs s2) ->
     byz_bound (chain_vals ih ivs (st_hdrs s1) h') (B h') /\
     (cp_round cp1 = cp_round cp2 \/
      (A2m (chain_vals ih ivs (st_hdrs s1) h') (B h') V h' /\ A3m (chain_vals ih ivs (st_hdrs s1) h') (B h') V h'))) ->
  forall x1 cp1 x2 cp2, In (h, (x1, cp1)) (st_hdrs s1) -> In (h, (x2, cp2)) (st_hdrs s2) ->
    hd_hash x1 = hd_hash x2 /\
    valset_equal (hd_next x1) (hd_next x2) = true /\
    vs_keys (chain_vals ih ivs (st_hdrs s1) h) = vs_keys (chain_vals ih ivs (st_hdrs s2) h) /\
    vs_pows (chain_vals ih ivs (st_hdrs s1) h) = vs_pows (chain_vals ih ivs (st_hdrs s2) h).
Proof. exact mirrors_agree_upto_composed. Qed.
Print Assumptions C03_mirrors_agree_upto_composed_partial.

(** ** Proposals (FULL): all proposals one engine history emits for one (h, r) - restarts and the
    re-sending at start-up included - carry the same block data: a correct proposer never equivocates
    (C02_one_proposal_data_ever over the [emitted_proposals] list). *)
Theorem C03_one_proposal_per_round_from_state_machines : forall sg es h r d1 d2,
  In (h, r, d1) (emitted_proposals (run_events (sm0 sg) es)) ->
  In (h, r, d2) (emitted_proposals (run_events (sm0 sg) es)) -> d1 = d2.
Proof. exact one_proposal_per_round_from_state_machines. Qed.
Print Assumptions C03_one_proposal_per_round_from_state_machines.

(** ** Non-vacuity of the bridge: key 10 runs [ex_sign_hist], key 11 runs [hist8]; V = their emitted
    votes (a prevote and a precommit each); [V_from_machines] holds; the premises of [A1m] are met by
    real entries of V *)
Theorem C03Compose_example :
  V_from_machines exV2 (fun _ => []) ex_sg ex_runs /\
  In 10 (vs_keys ex_vs) /\ ~ In 10 ([] : list N) /\
  In (SVote 10 KPrevote 1 0 [7]) exV2 /\ In (SVote 10 KPrecommit 1 0 [7]) exV2 /\
  In (SVote 11 KPrevote 1 0 [8]) exV2 /\ In (SVote 11 KPrecommit 1 0 [8]) exV2 /\
  A1m ex_vs [] exV2 1 /\
  emitted_proposals (run_events (sm0 true) ex_sign_hist) = [(1, 1, [9])].
Proof. exact ex_V_from_machines. Qed.
Print Assumptions C03Compose_example.

(** ** Non-vacuity of the composed agreement theorem, end to end: the engines of the correct keys 10,
    11, 12 each run [hist1] (prevote and precommit [1] in (1,0)); Byzantine key 13 precommits [1] and
    [2]; mirror A commits header [1] from the precommits of 10, 11, 12, mirror C from 11, 12, 13. *)
Theorem C03Compose_hypotheses_satisfiable :
  reachable_b 1 evs mA /\ reachable_b 1 evs mC /\
  cert_sigs_in e2e_V mA /\ cert_sigs_in e2e_V mC /\ hash_binds_next mA mC /\
  V_from_machines e2e_V e2e_B e2e_sg e2e_runs /\
  (forall h' x1 cp1 x2 cp2, h' <= 1 ->
     In (h', (x1, cp1)) (st_hdrs mA) -> In (h', (x2, cp2)) (st_hdrs mC) ->
     cp_round cp1 = cp_round cp2 /\ byz_bound (chain_vals 1 evs (st_hdrs mA) h') (e2e_B h')) /\
  commits mA = [(1, [1], 0)] /\ commits mC = [(1, [1], 0)] /\ cert_sigs mA <> cert_sigs mC /\
  In (SVote 13 KPrecommit 1 0 [1]) e2e_V /\ In (SVote 13 KPrecommit 1 0 [2]) e2e_V.
Proof. exact composed_hypotheses_satisfiable. Qed.
Print Assumptions C03Compose_hypotheses_satisfiable.

(** ** Why ONE history on ONE action store per key: REFUTED with two machines per key.
    Witness (replayable on the real state machine): key 10, signer present, genesis validator.
    Machine 1 on a fresh action store: Start; round entrance response for (1,0) with an empty view;
    proposal timeout; the strategy answers prevote [7]  -> prevote [7] for (1,0) emitted.
    Machine 2 on ANOTHER fresh store, same events with answer [8] -> prevote [8] for (1,0) emitted.
    On ONE store (history [w3] = machine 1's events, Stop, machine 2's events) only [7] is emitted:
    the store's DoubleActionError refuses the second and the machine halts. *)
Theorem C03_A1_needs_one_store_refuted :
  exists V (B : N -> list N) (sg : N -> bool) runs1 runs2 vs h,
    V_from_two_machines V B sg runs1 runs2 /\ ~ A1m vs (B h) V h /\
    w3 = runs1 10 ++ EvStop :: runs2 10 /\
    emitted_votes 10 (run_events (sm0 (sg 10)) (runs1 10)) = [SVote 10 KPrevote 1 0 [7]] /\
    emitted_votes 10 (run_events (sm0 (sg 10)) (runs2 10)) = [SVote 10 KPrevote 1 0 [8]] /\
    emitted_votes 10 (run_events (sm0 (sg 10)) w3) = [SVote 10 KPrevote 1 0 [7]].
Proof. exact A1_needs_one_store_refuted. Qed.
Print Assumptions C03_A1_needs_one_store_refuted.

(** ** Why EMISSIONS and not signer calls: REFUTED over what the signer produced.
    In the ONE history [w3] (restart after the prevote [7] of (1,0) was saved and emitted, the
    strategy then answers [8]) the signer produces prevote signatures for [7] AND for [8] in (1,0)
    (known finding restart-resigns-then-halts); only [7] is emitted.  [V_from_machines] therefore
    also assumes that a signature the signer produced but the engine did not emit never reaches
    anybody (in the Go code it lives in a local variable of recordPrevote until the kernel halts). *)
Theorem C03_A1_from_signer_calls_refuted :
  exists sg es key h r t t',
    In (SVote key KPrevote h r t) (signed_votes key (run_events (sm0 sg) es)) /\
    In (SVote key KPrevote h r t') (signed_votes key (run_events (sm0 sg) es)) /\ t <> t' /\
    emitted_votes key (run_events (sm0 sg) es) = [SVote key KPrevote h r t].
Proof. exact A1_from_signer_calls_refuted. Qed.
Print Assumptions C03_A1_from_signer_calls_refuted.

(** non-vacuity for proposals: a proposal emitted in (1,0) and re-sent after a restart *)
Theorem C03Compose_example_proposal :
  emitted_proposals (run_events (sm0 true) ex_ph_hist) = [(1, 0, [9]); (1, 0, [9])].
Proof. exact ex_proposals. Qed.
Print Assumptions C03Compose_example_proposal.

(** ** What was emitted was signed (FULL): every vote in [emitted_votes] - labelled with the (h, r) of
    the emission - is a signature the signer produced, with exactly that (h, r, target), in the same
    history (C02_emitted_was_signed_and_saved over the bridge).  The converse is false:
    C03_A1_from_signer_calls_refuted. *)
Theorem C03_emitted_votes_were_signed : forall sg es key v,
  In v (emitted_votes key (run_events (sm0 sg) es)) -> In v (signed_votes key (run_events (sm0 sg) es)).
Proof. exact emitted_votes_were_signed. Qed.
Print Assumptions C03_emitted_votes_were_signed.
