(** C11 (streams) - what the gossip strategy and the state machine receive from the mirror's view
    managers, over ALL histories of [mstep] from [ms_init] made of kernel operations without crash
    or restart ([MK (XOp _)], every kind of message including replayed headers), round entrances,
    state-machine reads and gossip reads.  Statements only; proofs in Proofs/MirrorStreams.v.

    Standing hypotheses: the initial height is in [1, 2^64), and [ev_ok] on the events the kernel
    raised: no marked view has version 0 or height 0, no next-round view (and no jump) has round 0 -
    i.e. no uint32 version / round and no uint64 height wrapped around during the history. *)
From Coq Require Import List NArith Bool.
From GV Require Import Base.Ints Gen.Kernel Model.Mirror Model.MirrorMgr Proofs.MirrorMgr Proofs.MirrorStreams.
Import ListNotations.
Local Open Scope N_scope.

(** ** Kernel side: every view slot only moves up.  [vle a b]: [b] is of a later (height, round),
    or of the same with a version at least as high, all of [a]'s proposed headers and, per vote
    target, all of [a]'s prevote / precommit signers ([view_le]). *)
Theorem C11_kernel_slots_monotone : forall s o s' res,
  step s o = Ok (s', res) ->
  exists new, st_ev s' = st_ev s ++ new /\
    (Forall ev_ok new -> kinv (views s) ->
     kinv (views s') /\ forall vid, vle (get_view s vid) (get_view s' vid)).
Proof. exact kernel_slots_monotone. Qed.
Print Assumptions C11_kernel_slots_monotone.

(** The full two-state relation [TR] (Proofs/MirrorStreams.v): besides the above, every event the
    step raised carries a view that is above everything visible before the step (strictly newer
    in version than every earlier view of its own (height, round), across the three slots), below
    what is visible after it, and the events of one step are ordered among themselves. *)
Theorem C11_kernel_step_relation : forall s o s' res, step s o = Ok (s', res) -> TR s s'.
Proof. exact TR_step. Qed.
Print Assumptions C11_kernel_step_relation.

(** ** (1) Gossip stream.  [nth_deliveries k ios]: the views delivered in slot [k] (voting,
    committing, next round) by the [IOGossip] outputs of the history, in order. *)
Theorem C11_gossip_versions_strictly_increase : forall ih ivs ops s' ios k,
  1 <= ih -> ih < two64 -> is_slot k ->
  forallb no_restart ops = true -> mrun (ms_init ih ivs) ops = Ok (s', ios) ->
  Forall ev_ok (st_ev (ms_k s')) ->
  forall l1 a l2 b l3, nth_deliveries k ios = l1 ++ a :: l2 ++ b :: l3 ->
  v_h a = v_h b -> v_r a = v_r b -> v_ver a < v_ver b.
Proof. exact gossip_versions_strictly_increase. Qed.
Print Assumptions C11_gossip_versions_strictly_increase.

Theorem C11_gossip_views_grow : forall ih ivs ops s' ios k,
  1 <= ih -> ih < two64 -> is_slot k ->
  forallb no_restart ops = true -> mrun (ms_init ih ivs) ops = Ok (s', ios) ->
  Forall ev_ok (st_ev (ms_k s')) ->
  forall l1 a l2 b l3, nth_deliveries k ios = l1 ++ a :: l2 ++ b :: l3 ->
  v_h a = v_h b -> v_r a = v_r b -> view_le a b.
Proof. exact gossip_views_grow. Qed.
Print Assumptions C11_gossip_views_grow.

(** within one slot the (height, round) of the deliveries never goes back *)
Theorem C11_gossip_rounds_never_go_back : forall ih ivs ops s' ios k,
  1 <= ih -> ih < two64 -> is_slot k ->
  forallb no_restart ops = true -> mrun (ms_init ih ivs) ops = Ok (s', ios) ->
  Forall ev_ok (st_ev (ms_k s')) ->
  forall l1 a l2 b l3, nth_deliveries k ios = l1 ++ a :: l2 ++ b :: l3 ->
  v_h a < v_h b \/ (v_h a = v_h b /\ v_r a <= v_r b).
Proof. exact gossip_rounds_never_go_back. Qed.
Print Assumptions C11_gossip_rounds_never_go_back.

(** [view_le] read by block hash for the proposals *)
Theorem C11_view_le_phs_by_hash : forall a b, view_le a b ->
  forall p, In p (v_phs a) -> exists q, In q (v_phs b) /\ hd_hash (ph_hdr q) = hd_hash (ph_hdr p).
Proof. exact view_le_phs_by_hash. Qed.
Print Assumptions C11_view_le_phs_by_hash.

(** Example: one validator; the voting view of (1, 0) is delivered, a prevote arrives, the view is
    delivered again with version 2 and the prevote. *)
Definition ex_pv : vmsg := mk_vmsg 1 0 [1] [([7], [mk_ssig [0; 0] (SVote 0 0 1 0 [7])])].
Definition ex_ops : list mop := [MGRead; MK (XOp (OpPrevote ex_pv)); MGRead; MGRead].

Example C11_gossip_example :
  exists s' ios, mrun (ms_init 1 n_vs) ex_ops = Ok (s', ios) /\
    forallb no_restart ex_ops = true /\ forallb ev_okb (st_ev (ms_k s')) = true /\
    map (fun v => (triple v, List.length (v_pv v))) (nth_deliveries ViewIDVoting ios) = [((1, 0, 1), 0%nat); ((1, 0, 2), 1%nat)] /\
    last ios IONone = IOGEmpty.
Proof. eexists. eexists. split; [vm_compute; reflexivity|]. repeat split; vm_compute; reflexivity. Qed.

(** ** (2) State-machine stream.  After an entrance to (h, r) answered with view [v0], within the
    entrance (no further entrance, no restart): the delivered views ([sm_vrv]) form a chain that
    starts above [v0] - strictly increasing versions, growing content; every delivered jump-ahead
    view ([sm_jmp]) is of a later round of the entered height or of a later height, and two
    delivered jump-ahead views of the same (height, round) are ordered (version not lower, content
    grows: [jumps_ok]). *)
Theorem C11_sm_stream_grows : forall ih ivs ops0 s0 ios0 h r s1 c v0 ops s2 ios,
  1 <= ih -> ih < two64 ->
  forallb no_restart ops0 = true -> mrun (ms_init ih ivs) ops0 = Ok (s0, ios0) ->
  mstep s0 (MEnter h r) = Ok (s1, c, IOEnterView v0) ->
  forallb epoch_op ops = true -> mrun s1 ops = Ok (s2, ios) ->
  Forall ev_ok (st_ev (ms_k s2)) ->
  v_h v0 = h /\ v_r v0 = r /\
  chain_from vqs v0 (flat_map sm_vrv ios) /\
  Forall (later_than h r) (flat_map sm_jmp ios) /\
  jumps_ok [] (flat_map sm_jmp ios).
Proof. exact sm_stream_grows. Qed.
Print Assumptions C11_sm_stream_grows.

(** the same, pairwise *)
Theorem C11_sm_views_grow : forall ih ivs ops0 s0 ios0 h r s1 c v0 ops s2 ios,
  1 <= ih -> ih < two64 ->
  forallb no_restart ops0 = true -> mrun (ms_init ih ivs) ops0 = Ok (s0, ios0) ->
  mstep s0 (MEnter h r) = Ok (s1, c, IOEnterView v0) ->
  forallb epoch_op ops = true -> mrun s1 ops = Ok (s2, ios) ->
  Forall ev_ok (st_ev (ms_k s2)) ->
  (forall v, In v (flat_map sm_vrv ios) -> v_ver v0 < v_ver v /\ view_le v0 v) /\
  (forall l1 a l2 b l3, flat_map sm_vrv ios = l1 ++ a :: l2 ++ b :: l3 -> v_ver a < v_ver b /\ view_le a b).
Proof. exact sm_stream_pairs. Qed.
Print Assumptions C11_sm_views_grow.

Theorem C11_sm_jump_aheads_ordered : forall l JD, jumps_ok JD l ->
  (forall jd b, In jd JD -> In b l -> samepos jd b -> vq jd b) /\
  (forall l1 a l2 b l3, l = l1 ++ a :: l2 ++ b :: l3 -> samepos a b -> vq a b).
Proof. exact jumps_ok_pairs. Qed.
Print Assumptions C11_sm_jump_aheads_ordered.

(** Example: the state machine enters (1, 0), a prevote arrives, the view is delivered (version 2);
    then the only validator prevotes in round 1: the kernel jumps to round 1 and the state machine
    is handed the jump-ahead view of (1, 1). *)
Definition ex_pv1 : vmsg := mk_vmsg 1 1 [1] [([7], [mk_ssig [0; 0] (SVote 0 0 1 1 [7])])].
Definition ex_sm_ops : list mop :=
  [MK (XOp (OpPrevote ex_pv)); MSMRead; MK (XOp (OpPrevote ex_pv1)); MSMRead; MSMRead].

Example C11_sm_example :
  exists s1 v0 s2 ios, mstep (ms_init 1 n_vs) (MEnter 1 0) = Ok (s1, 0, IOEnterView v0) /\
    mrun s1 ex_sm_ops = Ok (s2, ios) /\ forallb epoch_op ex_sm_ops = true /\
    forallb ev_okb (st_ev (ms_k s2)) = true /\
    triple v0 = (1, 0, 1) /\
    map triple (flat_map sm_vrv ios) = [(1, 0, 2)] /\
    map triple (flat_map sm_jmp ios) = [(1, 1, 3)].
Proof.
  eexists. eexists. eexists. eexists. split; [vm_compute; reflexivity|]. split; [vm_compute; reflexivity|].
  repeat split; vm_compute; reflexivity.
Qed.

(** ** (3) Currency.  All four kinds of kernel operation, histories without crash / restart.
    Repaired in the Go code after earlier versions of this file (the witnesses of the former
    [_refuted] theorems, both confirmed on the real mirror): handleReplayedHeader (a) appended the
    replayed header to the voting view before validating the commit proof, so a REJECTED replay left
    a proposed header behind, and (b) stored the header and precommits of an ACCEPTED replay without
    version bump or MarkVotingViewUpdated, so both consumers stayed on the old content whenever the
    commit check that follows did not move the voting view on.  Now a rejected replay is the
    identity ([C11_rejected_replay_is_identity]) and an accepted one bumps and marks the voting view;
    the guards of the former [_partial] theorems ("no replayed headers", later "every accepted replay
    settles its round") are gone. *)

Theorem C11_rejected_replay_is_identity : forall s hd cp s' res,
  handle_replay s hd cp = Ok (s', res) -> res <> 0 -> s' = s.
Proof. exact rejected_replay_is_identity. Qed.
Print Assumptions C11_rejected_replay_is_identity.

(** every change of a kernel view comes with a later (height, round) or a version bump ... *)
Theorem C11_kernel_version_bumped_on_change : forall s o s' res,
  MirrorAuth.auth_state s -> step s o = Ok (s', res) ->
  exists new, st_ev s' = st_ev s ++ new /\
    (Forall ev_ok new -> kinv (views s) ->
     forall k, is_slot k -> get_view s' k = get_view s k \/ vlt (get_view s k) (get_view s' k)).
Proof. exact kernel_version_bumped_on_change. Qed.
Print Assumptions C11_kernel_version_bumped_on_change.

(** ... and with a Mark*ViewUpdated event carrying exactly the new view: after the step every
    kernel view is the last view marked for its slot during the step, or unchanged ([SY]) *)
Theorem C11_kernel_views_are_last_marked : forall s o s' res,
  MirrorAuth.auth_state s -> step s o = Ok (s', res) -> SY s s'.
Proof. exact SY_step. Qed.
Print Assumptions C11_kernel_views_are_last_marked.

(** [auth_state] (every signature held in a view is a valid one of that view's validator set)
    holds in every reachable state: Proofs/MirrorAuth.v [views_authentic]; it is what makes a
    commit-proof backfill that increased no signer set an exact no-op. *)

(** After a gossip read that returned nothing: no nil-voted round is pending, all three slots are
    marked sent and ARE the kernel's current committing / voting / next-round views. *)
Theorem C11_gossip_current_after_empty_read : forall ih ivs ops s' ios s'' c,
  forallb no_restart ops = true -> mrun (ms_init ih ivs) ops = Ok (s', ios) ->
  mstep s' MGRead = Ok (s'', c, IOGEmpty) ->
  gm_nil (m_g (ms_m s'')) = None /\
  forall k, is_slot k ->
    go_has_been_sent (gslot (m_g (ms_m s'')) k) = true /\
    go_v (gslot (m_g (ms_m s'')) k) = get_view (ms_k s'') k.
Proof. exact gossip_current_after_empty_read. Qed.
Print Assumptions C11_gossip_current_after_empty_read.

(** After a state-machine read that returned nothing: lastSentVersion is the version of the
    kernel's view of the entered round, when that round is the voting or the committing round
    (for every kernel operation each kernel view has the (height, round, version) of the last view
    marked for its slot, [SYW] - a consequence of [SY]). *)
Theorem C11_kernel_views_agree_with_last_marked : forall s o s' res,
  MirrorAuth.auth_state s -> step s o = Ok (s', res) -> SYW s s'.
Proof. exact SYW_step. Qed.
Print Assumptions C11_kernel_views_agree_with_last_marked.

Theorem C11_sm_current_after_empty_read : forall ih ivs ops s' ios s'' c,
  1 <= ih -> ih < two64 ->
  forallb no_restart ops = true -> mrun (ms_init ih ivs) ops = Ok (s', ios) ->
  Forall ev_ok (st_ev (ms_k s')) ->
  mstep s' MSMRead = Ok (s'', c, IOEmpty) ->
  forall vid, vid = ViewIDVoting \/ vid = ViewIDCommitting ->
  v_h (get_view (ms_k s'') vid) = smm_h (sm_of s'') -> v_r (get_view (ms_k s'') vid) = smm_r (sm_of s'') ->
  smm_last (sm_of s'') = v_ver (get_view (ms_k s'') vid).
Proof. exact sm_current_after_empty_read. Qed.
Print Assumptions C11_sm_current_after_empty_read.

(** why restarts are excluded from (1): the views are reloaded with version 1 *)
Theorem C11_gossip_versions_across_restart_refuted :
  exists s' ios, mrun (ms_init 1 n_vs) w_restart_ops = Ok (s', ios) /\
    map triple (nth_deliveries ViewIDVoting ios) = [(1, 0, 1); (1, 0, 2); (1, 0, 1)].
Proof. exact gossip_versions_across_restart_refuted. Qed.
Print Assumptions C11_gossip_versions_across_restart_refuted.

(** Example for (3): entrance, a prevote, both consumers read until nothing is offered. *)
Definition ex_cur_ops : list mop := [MEnter 1 0; MK (XOp (OpPrevote ex_pv)); MSMRead; MGRead].

Example C11_current_example :
  exists s' ios, mrun (ms_init 1 n_vs) ex_cur_ops = Ok (s', ios) /\
    forallb no_restart ex_cur_ops = true /\ forallb ev_okb (st_ev (ms_k s')) = true /\
    mstep s' MGRead = Ok (s', 0, IOGEmpty) /\ mstep s' MSMRead = Ok (s', 0, IOEmpty) /\
    (smm_h (sm_of s'), smm_r (sm_of s'), smm_last (sm_of s')) = triple (get_view (ms_k s') ViewIDVoting) /\
    triple (get_view (ms_k s') ViewIDVoting) = (1, 0, 2).
Proof. eexists. eexists. split; [vm_compute; reflexivity|]. repeat split; vm_compute; reflexivity. Qed.

(** Example for (3) with replayed headers (one validator): one that is rejected (empty commit proof -
    the first former witness, now the identity), one that is accepted although the validator also
    precommitted another block [1] of smaller hash, so that nothing is committed (the second former
    witness: the voting view now goes to version 2 and is offered to gossip with the header and
    both precommit proofs), and after the reads the gossip strategy is current. *)
Definition ex_hd : hdr := mk_hdr [9] true 1 [] empty_cproof n_vs n_vs.
Definition ex_sg (t : bytes) : ssig := mk_ssig [0; 0] (SVote 0 1 1 0 t).
Definition ex_cp_none : cproof := mk_cproof 0 [1] [].
Definition ex_cp_two : cproof := mk_cproof 0 [1] [([9], [ex_sg [9]]); ([1], [ex_sg [1]])].
Definition ex_replay_ops : list mop :=
  [MGRead; MK (XOp (OpReplay ex_hd ex_cp_none)); MK (XOp (OpReplay ex_hd ex_cp_two)); MGRead].

Example C11_current_with_replays_example :
  exists s' ios, mrun (ms_init 1 n_vs) ex_replay_ops = Ok (s', ios) /\
    forallb no_restart ex_replay_ops = true /\ forallb ev_okb (st_ev (ms_k s')) = true /\
    mstep s' MGRead = Ok (s', 0, IOGEmpty) /\
    map (fun v => (triple v, List.length (v_phs v), List.length (v_pc v))) (nth_deliveries ViewIDVoting ios)
      = [((1, 0, 1), 0%nat, 0%nat); ((1, 0, 2), 1%nat, 2%nat)] /\
    go_v (gslot (m_g (ms_m s')) ViewIDVoting) = k_vot (ms_k s').
Proof. eexists. eexists. split; [vm_compute; reflexivity|]. repeat split; vm_compute; reflexivity. Qed.
