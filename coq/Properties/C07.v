(** C07 - The validator set used at each height is the one the chain committed (mirror part).
    Statements only; proofs in Proofs/MirrorChain.v. *)
From Coq Require Import List NArith.
From GV Require Import Base.Ints Gen.Kernel Model.Mirror Proofs.MirrorChain.
Import ListNotations.
Local Open Scope N_scope.

(** In every reachable state the voting (and next-round) validator set is the genesis set before
    the first commit and otherwise exactly the next-validator set of the committing header, and its
    lists are the ones its hashes were computed from. *)
Theorem C07_voting_valset_is_committed_next : forall ih ivs s,
  1 <= ih -> vs_ok ivs = true -> reachable_b ih ivs s ->
  v_vals (k_vot s) = match k_chdr s with None => ivs | Some ch => hd_next ch end /\
  v_vals (k_nxt s) = v_vals (k_vot s) /\
  vs_ok (v_vals (k_vot s)) = true.
Proof.
  intros ih ivs s Hi Hok Hr. eapply voting_valset_is_committed_next. eapply reachable_cinv; eassumption.
Qed.
Print Assumptions C07_voting_valset_is_committed_next.

(** Every header in the committed chain was accepted with a hash that matches its content and a
    next-validator list matching the hashes that block hash covers: proposals held for the voting
    height satisfy [ph_good], and only such a proposal can become the committing header. *)
Theorem C07_held_proposals_are_consistent : forall ih ivs s p,
  1 <= ih -> vs_ok ivs = true -> reachable_b ih ivs s ->
  In p (v_phs (k_vot s)) \/ In p (v_phs (k_nxt s)) ->
  hd_height (ph_hdr p) = v_h (k_vot s) /\ hd_ok (ph_hdr p) = true /\ vs_ok (hd_next (ph_hdr p)) = true.
Proof.
  intros ih ivs s p Hi Hok Hr Hin.
  pose proof (reachable_cinv ih ivs s Hi Hok Hr) as (_&_&_&_&_&_&_&_&_&Hphs&_).
  destruct (Hphs p Hin) as (A&B&C&_). repeat split; assumption.
Qed.
Print Assumptions C07_held_proposals_are_consistent.
