(** C07 - The validator set used at each height is the one the chain committed (mirror part).
    Statements only; proofs in Proofs/MirrorChain.v. *)
From Coq Require Import List NArith.
From GV Require Import Base.Ints Gen.Kernel Model.Mirror Proofs.MirrorChain.
Import ListNotations.
Local Open Scope N_scope.

(** In every reachable state the voting (and next-round) validator set is the genesis set before
    the first commit and otherwise exactly the next-validator set of the committing header, and its
    lists are the ones its hashes were computed from. *)
Theorem C07_voting_valset_is_committed_next : forall ih ivs s,
  1 <= ih -> vs_ok ivs = true -> reachable_b ih ivs s ->
  v_vals (k_vot s) = match k_chdr s with None => ivs | Some ch => hd_next ch end /\
  v_vals (k_nxt s) = v_vals (k_vot s) /\
  vs_ok (v_vals (k_vot s)) = true.
Proof.
  intros ih ivs s Hi Hok Hr. eapply voting_valset_is_committed_next. eapply reachable_cinv; eassumption.
Qed.
Print Assumptions C07_voting_valset_is_committed_next.

(** Every header in the committed chain was accepted with a hash that matches its content and a
    next-validator list matching the hashes that block hash covers: proposals held for the voting
    height satisfy [ph_good], and only such a proposal can become the committing header. *)
Theorem C07_held_proposals_are_consistent : forall ih ivs s p,
  1 <= ih -> vs_ok ivs = true -> reachable_b ih ivs s ->
  In p (v_phs (k_vot s)) \/ In p (v_phs (k_nxt s)) ->
  hd_height (ph_hdr p) = v_h (k_vot s) /\ hd_ok (ph_hdr p) = true /\ vs_ok (hd_next (ph_hdr p)) = true.
Proof.
  intros ih ivs s p Hi Hok Hr Hin.
  pose proof (reachable_cinv ih ivs s Hi Hok Hr) as (_&_&_&_&_&_&_&_&_&Hphs&_).
  destruct (Hphs p Hin) as (A&B&C&_). repeat split; assumption.
Qed.
Print Assumptions C07_held_proposals_are_consistent.

(** ** The validator set a header names as its own (Proofs/MirrorVals.v)

    "Names" is [valset_equal] - both hashes, the keys and the powers, i.e.
    tmconsensus.ValidatorSet.Equal, which is what the kernel checks.  (Leibniz equality of the
    model records would also compare the model-only flag [vs_ok], which [valset_equal] ignores.) *)
From GV Require Import Proofs.MirrorCert Proofs.MirrorVals.

(** Every header in the committed-header store names, as its own validator set, the set the chain
    prescribes for its height: the genesis set at the initial height, otherwise the next set of the
    header stored one height below. *)
Theorem C07_committed_headers_name_chain_vals : forall ih ivs s,
  1 <= ih -> vs_ok ivs = true -> reachable_b ih ivs s ->
  forall h x cp, In (h, (x, cp)) (st_hdrs s) ->
    valset_equal (hd_vals x) (chain_vals ih ivs (st_hdrs s) h) = true.
Proof. exact committed_headers_name_chain_vals. Qed.
Print Assumptions C07_committed_headers_name_chain_vals.

(** Every proposed header held by the voting / next-round view (and by the committing view) names
    the view's own validator set. *)
Theorem C07_held_proposals_name_view_vals : forall ih ivs s,
  1 <= ih -> vs_ok ivs = true -> reachable_b ih ivs s ->
  (forall p, In p (v_phs (k_vot s)) -> valset_equal (hd_vals (ph_hdr p)) (v_vals (k_vot s)) = true) /\
  (forall p, In p (v_phs (k_nxt s)) -> valset_equal (hd_vals (ph_hdr p)) (v_vals (k_nxt s)) = true) /\
  (forall p, In p (v_phs (k_com s)) -> valset_equal (hd_vals (ph_hdr p)) (v_vals (k_com s)) = true).
Proof. exact held_proposals_name_view_vals. Qed.
Print Assumptions C07_held_proposals_name_view_vals.

(** In particular the committing header. *)
Theorem C07_committing_header_names_chain_vals : forall ih ivs s ch,
  1 <= ih -> vs_ok ivs = true -> reachable_b ih ivs s -> k_chdr s = Some ch ->
  valset_equal (hd_vals ch) (chain_vals ih ivs (st_hdrs s) (hd_height ch)) = true.
Proof. exact committing_header_names_chain_vals. Qed.
Print Assumptions C07_committing_header_names_chain_vals.
