(** C20 - Peers relay a consensus message only if the local handler accepted it.
    This file contains only statements closed by [exact] plus [Print Assumptions]. *)
From Coq Require Import List NArith ZArith.
From GV Require Import Base.Ints Model.P2PRelayVocab Gen.Feedback Gen.RelaySwap Model.P2PRelay Monitors.C20m Proofs.P2PRelay Proofs.DaisyChain.
Import ListNotations.
Local Open Scope N_scope.

Theorem C20_accept_iff_accepted : forall f,
  exchange_feedback_to_libp2p f = Ok ValidationAccept <-> f = FeedbackAccepted.
Proof. exact accept_iff_accepted. Qed.
Print Assumptions C20_accept_iff_accepted.

Theorem C20_out_of_range_ignored : forall f,
  ~ In f all_Feedback -> exchange_feedback_to_libp2p f = Ok ValidationIgnore.
Proof. exact out_of_range_ignored. Qed.
Print Assumptions C20_out_of_range_ignored.

Theorem C20_feedback_total : forall f, exists z, exchange_feedback_to_libp2p f = Ok z /\
  (z = ValidationAccept \/ z = ValidationReject \/ z = ValidationIgnore).
Proof. exact feedback_total. Qed.
Print Assumptions C20_feedback_total.

Theorem C20_wrapper_spec : forall h m,
  wrapper h m =
    if from_self m then (Ok ValidationAccept, [])
    else match body m with
         | Undecodable => (Ok ValidationIgnore, [])
         | Decoded d =>
             match h, first_variant d with
             | Some hf, Some (k, i) => (exchange_feedback_to_libp2p (hf k i), [(k, i)])
             | _, _ => (Ok ValidationReject, [])
             end
         end.
Proof. exact wrapper_spec. Qed.
Print Assumptions C20_wrapper_spec.

Theorem C20_wrapper_accept : forall h m, from_self m = false ->
  (fst (wrapper h m) = Ok ValidationAccept <-> exists hf, h = Some hf /\ accepted_by hf m).
Proof. exact wrapper_accept. Qed.
Print Assumptions C20_wrapper_accept.

Theorem C20_relay_only_if_accepted : forall reqs evs,
  Forall relay_ok (run extracted_prog (rinit extracted_prog reqs) evs).
Proof. exact relay_only_if_accepted. Qed.
Print Assumptions C20_relay_only_if_accepted.

Theorem C20_relay_only_if_accepted_safe : forall P, prog_safe P = true ->
  forall reqs evs, Forall relay_ok (run P (rinit P reqs) evs).
Proof. exact relay_only_if_accepted_safe. Qed.
Print Assumptions C20_relay_only_if_accepted_safe.

Theorem C20_no_handler_no_relay : forall reqs evs m o al,
  In (m, o, al) (run extracted_prog (rinit extracted_prog reqs) evs) ->
  from_self m = false -> (forall h, In h al -> h = None) -> a_forwarded o = false.
Proof. exact no_handler_no_relay. Qed.
Print Assumptions C20_no_handler_no_relay.

Theorem C20_swap_is_atomic : forall rh, List.length (swap_ops extracted_prog rh) = 1%nat.
Proof. exact swap_is_atomic. Qed.
Print Assumptions C20_swap_is_atomic.

Theorem C20_model_satisfies_feedback_mon : forall f,
  exists r, exchange_feedback_to_libp2p f = Ok r /\ c20_feedback_mon f r = true.
Proof. exact model_satisfies_feedback_mon. Qed.
Print Assumptions C20_model_satisfies_feedback_mon.

Theorem C20_model_satisfies_wrapper_mon : forall h m, c20_wrapper_mon (wobs_of h m) = true.
Proof. exact model_satisfies_wrapper_mon. Qed.
Print Assumptions C20_model_satisfies_wrapper_mon.

(** DaisyChain test network *)
Theorem C20_daisy_travel_spec : forall l k i j, NoDup (map fst l) ->
  (In j (dc_travel l k i) <-> exists l1 h l2, l = l1 ++ (j, Some h) :: l2 /\ Forall (passes k i) l1).
Proof. exact daisy_travel_spec. Qed.
Print Assumptions C20_daisy_travel_spec.

(* Full statement, FALSE of the DaisyChain model (known finding daisychain-nil-handler-passthrough):
   forall l k i j, In j (dc_travel l k i) -> exists l1 h l2, l = l1 ++ (j, Some h) :: l2 /\
     Forall (fun n => exists hx, snd n = Some hx /\ hx k i = FeedbackAccepted) l1. *)
Theorem C20_daisy_no_handler_no_relay_refuted : ~ daisy_no_handler_no_relay_statement.
Proof. exact daisy_no_handler_no_relay_refuted. Qed.
Print Assumptions C20_daisy_no_handler_no_relay_refuted.

Theorem C20_daisy_relay_only_if_accepted_partial : forall l k i j,
  Forall (fun n => snd n <> None) l -> In j (dc_travel l k i) ->
  exists l1 h l2, l = l1 ++ (j, Some h) :: l2 /\
    Forall (fun n => exists hx, snd n = Some hx /\ hx k i = FeedbackAccepted) l1.
Proof. exact daisy_relay_only_if_accepted_partial. Qed.
Print Assumptions C20_daisy_relay_only_if_accepted_partial.

Theorem C20_model_satisfies_daisy_mon_abc : forall (hb : option handler) (origin : nat) k i, (origin < 3)%nat ->
  c20_daisy_mon false
    [Some 1; match hb with Some h => Some (h k i) | None => None end; Some 1] origin
    (dc_send [Some acc_all; hb; Some acc_all] origin k i) = true.
Proof. exact model_satisfies_daisy_mon_abc. Qed.
Print Assumptions C20_model_satisfies_daisy_mon_abc.
