(** C12 - Exactly one step timer, armed iff waiting, and re-arming never fails.
    Part (b): the production round timer (tmstate.StandardRoundTimer), for EVERY interleaving of
    start / cancel / observe / fire / context-cancel with every statement of the timer goroutine.
    The system is Model/Timer.v interpreted from Gen/Timer.v (regenerated from roundtimer.go).
    This file contains only statements closed by [exact] plus [Print Assumptions]. *)
From Coq Require Import List Bool.
From GV Require Import Model.TimerVocab Monitors.C12m Model.Timer Gen.Timer Proofs.Timer.
Import ListNotations.

Theorem C12_cancel_then_start_ok : forall sched s tr,
  run timer_prog true (init timer_prog) sched = Some (s, tr) ->
  c12_no_panic tr = true /\ s_pc s <> PPanic /\ s_pc s <> PLimit.
Proof. exact cancel_then_start_ok. Qed.
Print Assumptions C12_cancel_then_start_ok.

Theorem C12_start_always_served : forall sched s tr,
  run timer_prog true (init timer_prog) sched = Some (s, tr) ->
  s_ctx s = false -> bg_all_paths_reply timer_prog 40 s = true.
Proof. exact start_always_served. Qed.
Print Assumptions C12_start_always_served.

Theorem C12_fires_at_most_once : forall sched s tr,
  run timer_prog false (init timer_prog) sched = Some (s, tr) -> c12_fires_once tr = true.
Proof. exact fires_at_most_once. Qed.
Print Assumptions C12_fires_at_most_once.

Theorem C12_cancelled_never_elapses : forall sched s tr,
  run timer_prog false (init timer_prog) sched = Some (s, tr) -> c12_cancel_final tr = true.
Proof. exact cancelled_never_elapses. Qed.
Print Assumptions C12_cancelled_never_elapses.

Theorem C12_model_satisfies_monitor : forall sched s tr,
  run timer_prog true (init timer_prog) sched = Some (s, tr) -> c12_mon tr = true.
Proof. exact model_satisfies_c12_mon. Qed.
Print Assumptions C12_model_satisfies_monitor.

Theorem C12_cancel_final_sound : forall tr, c12_cancel_final tr = true ->
  forall a b c, tr = a ++ OCancelRet :: b ++ OElapsed :: c -> In OStartRet b.
Proof. exact cancel_final_sound. Qed.
Print Assumptions C12_cancel_final_sound.

Theorem C12_fires_once_sound : forall tr, c12_fires_once tr = true ->
  (forall a b c, tr = a ++ OElapsed :: b ++ OElapsed :: c -> In OStartRet b) /\ ~ In OElapsedOther tr.
Proof. exact fires_once_sound. Qed.
Print Assumptions C12_fires_once_sound.

Theorem C12_no_panic_sound : forall tr, c12_no_panic tr = true -> ~ In OPanic tr.
Proof. exact no_panic_sound. Qed.
Print Assumptions C12_no_panic_sound.

Theorem C12_monitor_judges_each_timer : forall a b,
  c12_mon (a ++ OStartRet :: b) = c12_mon a && c12_mon (OStartRet :: b).
Proof. exact mon_split. Qed.
Print Assumptions C12_monitor_judges_each_timer.
