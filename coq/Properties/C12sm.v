(** C12 (a) - timer discipline of the round state machine model.
    Only statements closed by [exact] plus [Print Assumptions]. *)
From Coq Require Import List NArith.
From GV Require Import Base.Ints Gen.Math Gen.StepSM Model.StateMachine Proofs.SMStep Proofs.SMOutputs Proofs.SMTheorems.
Import ListNotations.
Local Open Scope N_scope.

(* Full statements timer_iff_timed_step / at_most_one_timer need an inductive invariant over event
   histories that is not proved (see design/C08.md); proved: every timer the model starts is one of the
   four step timers and is for the round the machine is in; the at-most-one discipline is decided by the
   monitor c12_one_timer on the implementation's observations and by the correspondence. *)
Theorem C12sm_timer_kinds_partial : forall s e k h r ov, e <> EvStart ->
  In (OTimerStart k h r ov) (snd (step s e)) -> 1 <= k <= 4 /\ h = rH (rl s) /\ r = rR (rl s).
Proof. exact timer_kinds. Qed.
Print Assumptions C12sm_timer_kinds_partial.
