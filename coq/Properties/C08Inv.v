(** C08 over ALL event histories of the round state machine model: what is proved about how often the
    strategy is asked. Only statements closed by [exact] plus [Print Assumptions]. *)
From Coq Require Import List NArith.
From GV Require Import Base.Ints Gen.Math Gen.StepSM Model.StateMachine Proofs.SMInv Proofs.SMInvStep Proofs.SMRel
  Proofs.SMInvActs Proofs.SMWitness.
Import ListNotations.
Local Open Scope N_scope.

(* Full statement (prevote_choice_at_most_once / precommit_decision_at_most_once): between two OChoose
   (two ODecide) outputs of a history there is a round entrance. NOT proved: it needs "the step never
   decreases within a round" through every handler with the step the handler was selected for as a
   precondition (a third pass of the logic of Proofs/SMInv.v); still decided by the monitor
   c08_once_per_round on sampled runs. Proved, for EVERY state and event (hence along every history): *)

(** the strategy is asked at most one thing (consider / choose / decide) per event, and only when the
    consensus manager holds no call; every request made is registered in its single slot *)
Theorem C08_one_request_per_event_partial : forall s e,
  reqs (snd (step s e)) = [] \/ (cm s = None /\ exists k, reqs (snd (step s e)) = [k]).
Proof. exact one_request_per_event. Qed.
Print Assumptions C08_one_request_per_event_partial.

(** non-vacuity: the last event of this history asks the strategy exactly one thing (consider) *)
Theorem C08Inv_example :
  reqs (last (run_events (sm0 true) ex_req_hist) []) = [K_consider].
Proof. exact ex_one_request. Qed.
Print Assumptions C08Inv_example.
