(** C13 - BLS scheme, finalized commit proofs: gblsminsig.SignatureProofScheme.Finalize followed by
    ValidateFinalizedProof (Model/BlsFinal.v).  Only statements closed by [exact] plus [Print Assumptions];
    see design/C13.md.  A block is (sign content, strictly ascending list of signer key indices); the proof
    object handed to Finalize for it is [fp_of] (SigBits = the mask of that list).  Ideal aggregate
    signatures as in Model/BlsTree.v. *)
From Coq Require Import List NArith ZArith String Bool Permutation Sorted.
From GV Require Import Base.Ints Base.GoBytes Model.SimpleProofBase Model.CombIndex Model.BlsFinal
  Proofs.CombIndex Proofs.BlsFinalBase Proofs.BlsFinalSort Proofs.BlsFinal Proofs.BlsFinalMask.
Import ListNotations.
Local Open Scope N_scope.

(** finalize_validate_roundtrip.  For every key-set size n <= 65535, every non-empty main signer set and every
    list of rest blocks in any order and of any sizes (empty ones included) with distinct sign contents:
    if the blocks are pairwise disjoint (no key index occurs twice in the concatenation of the signer lists)
    then ValidateFinalizedProof (Finalize main rest) returns exactly the blocks' signer sets, keyed by their
    hashes - the main block first, then the non-empty rest blocks in Finalize's order - and allSignaturesUnique
    = true.  (A rest block nobody signed is not represented: repo fix 11bfd7d.) *)
Theorem C13BlsFinal_finalize_validate_roundtrip : forall n main rest hashes hf,
  (0 <= n < 65536)%Z ->
  Forall (fun b : block => asc_in n (snd b)) (main :: rest) ->
  snd main <> [] ->
  NoDup (List.concat (map snd (main :: rest))) ->
  NoDup (map fst (main :: rest)) ->
  (forall b, In b (main :: rest) -> alist_find (fst b) hashes = Some (hf (fst b))) ->
  NoDup (map (fun b : block => hf (fst b)) (main :: rest)) ->
  exists sorted, Permutation sorted rest /\ StronglySorted blt (map fp_of sorted) /\
    finalize_validate n (fp_of main) (map fp_of rest) hashes =
    Ok (Some (map (hash_entry hf) (main :: filter nonempty sorted)), true).
Proof. exact finalize_validate_roundtrip. Qed.
Print Assumptions C13BlsFinal_finalize_validate_roundtrip.

(** The same on the proof objects' bit masks (what SignatureBitSet returns): every SigBits below n, main not
    empty, no key index in two of the bit sets. *)
Theorem C13BlsFinal_finalize_validate_roundtrip_masks : forall n main rest hashes hf,
  (0 <= n < 65536)%Z ->
  Forall (fun p => below n (fp_bits p)) (main :: rest) ->
  fp_bits main <> 0 ->
  NoDup (List.concat (map (fun p => positions n (fp_bits p)) (main :: rest))) ->
  NoDup (map fp_msg (main :: rest)) ->
  (forall p, In p (main :: rest) -> alist_find (fp_msg p) hashes = Some (hf (fp_msg p))) ->
  NoDup (map (fun p => hf (fp_msg p)) (main :: rest)) ->
  exists sorted, Permutation sorted rest /\ StronglySorted blt sorted /\
    finalize_validate n main rest hashes =
    Ok (Some (map (fun p => (hf (fp_msg p), fp_bits p)) (main :: filter (fun p => negb (fp_bits p =? 0)) sorted)), true).
Proof. exact finalize_validate_roundtrip_masks. Qed.
Print Assumptions C13BlsFinal_finalize_validate_roundtrip_masks.

(** The other half of "the all-unique flag is true iff the blocks are pairwise disjoint": the real code cannot
    represent a double signer in the reduced key space.  Whenever some validator signed two of the blocks,
    Finalize PANICS - for every n, every such partition, every order of the rest proofs. *)
Theorem C13BlsFinal_finalize_double_signer_panics : forall n main rest,
  (0 <= n)%Z -> Forall (fun b : block => asc_in n (snd b)) (main :: rest) -> NoDup (map fst rest) ->
  ~ NoDup (List.concat (map snd (main :: rest))) ->
  exists s, finalize n (fp_of main) (map fp_of rest) = Panic s.
Proof. exact finalize_double_signer_panics. Qed.
Print Assumptions C13BlsFinal_finalize_double_signer_panics.

(** ... hence the sentence "validates back ... with double signers reported ... never panics" is FALSE of the
    faithful model (vm_compute witness: 4 keys, 0,1,2 sign [1], 2 also signs [2]); replayed on the real code by
    the check on every run (known finding bls-finalize-double-signer-panic). *)
Theorem C13BlsFinal_finalize_validate_double_signer_refuted :
  exists n main rest hashes,
    (0 <= n < 65536)%Z /\ Forall (fun b : block => asc_in n (snd b)) (main :: rest) /\ snd main <> [] /\
    NoDup (map fst (main :: rest)) /\
    (forall b, In b (main :: rest) -> alist_find (fst b) hashes <> None) /\
    finalize_validate n (fp_of main) (map fp_of rest) hashes =
    Panic "Finalize:253(index not part of the projection)".
Proof. exact finalize_validate_double_signer_refuted. Qed.
Print Assumptions C13BlsFinal_finalize_validate_double_signer_refuted.

(** validate_finalized_total: no panic for ANY finalized input (any key id bytes, any signatures, any number of
    rest entries and of signatures per entry, any number of keys, none included) as long as hashesBySignContent
    names every sign content of the proof - the one remaining panic site ("BUG: missing hash"), see
    Proofs/BlsFinal.v validate_missing_hash_panics. *)
Theorem C13BlsFinal_validate_finalized_total : forall f hashes,
  (0 <= ff_n f)%Z -> hashes_cover hashes f -> exists r, validate f hashes = Ok r.
Proof. exact validate_finalized_total. Qed.
Print Assumptions C13BlsFinal_validate_finalized_total.

(** Finalize does not depend on the order in which the rest proofs are passed (any bit sets). *)
Theorem C13BlsFinal_finalize_order_irrelevant : forall n main rest rest',
  Permutation rest rest' -> NoDup (map fp_msg rest) -> finalize n main rest = finalize n main rest'.
Proof. exact finalize_order_irrelevant. Qed.
Print Assumptions C13BlsFinal_finalize_order_irrelevant.

(** ValidateFinalizedProof does not depend on the iteration order of the Rest map. *)
Theorem C13BlsFinal_validate_map_order_irrelevant : forall n mm ms r r' hashes,
  Permutation r r' -> NoDup (map fst r) ->
  validate (mk_ffin n mm ms r) hashes = validate (mk_ffin n mm ms r') hashes.
Proof. exact validate_map_order_irrelevant. Qed.
Print Assumptions C13BlsFinal_validate_map_order_irrelevant.

(** sortRestForFinalizing: distinct sign contents never reach the comparator's panic; the result is the
    permutation sorted by signer count descending, then sign content ascending. *)
Theorem C13BlsFinal_sort_rest_spec : forall l, NoDup (map fp_msg l) ->
  exists s, sort_rest l = Ok s /\ Permutation s l /\ StronglySorted blt s.
Proof. exact sort_rest_spec. Qed.
Print Assumptions C13BlsFinal_sort_rest_spec.

(** Non-vacuity: 10 keys, main 0..5, rest blocks of sizes 1, 2, 0, 1 passed in a non-sorted order. *)
Theorem C13BlsFinal_roundtrip_example :
  finalize_validate 10 (fp_of ex_main) (map fp_of ex_rest) ex_hashes =
  Ok (Some [([201], 63); ([202], 192); ([203], 256); ([205], 512)], true).
Proof. exact ex_roundtrip_computed. Qed.
Print Assumptions C13BlsFinal_roundtrip_example.
