(** C01 - A header is committed only on a valid >2/3 precommit certificate (mirror model).
    Statements only; proofs in Proofs/MirrorCert.v. *)
From Coq Require Import List NArith.
From GV Require Import Base.Ints Gen.Math Gen.Kernel Model.Mirror Proofs.MirrorAuth Proofs.MirrorChain Proofs.MirrorCert.
Import ListNotations.
Local Open Scope N_scope.

(** For every operation history: each committed-header store entry (h, header, proof) carries, under
    the header's hash, the sparse form of a signature proof [p] such that every signature in [p] is a
    genuine precommit for exactly (h, proof round, header hash) by the validator at that index of the
    validator set the chain prescribes for h ([chain_vals]: genesis at the initial height, otherwise
    the next set of the header stored one height below), and the power of the DISTINCT signers is at
    least ByzantineMajority of that set's total power.  The committing header is always the newest
    entry of that store. *)
Theorem C01_commit_needs_certificate : forall ih ivs s,
  1 <= ih -> vs_ok ivs = true -> reachable_b ih ivs s ->
  (forall h x cp, In (h, (x, cp)) (st_hdrs s) ->
     exists p maj,
       In (hd_hash x, as_sparse p) (cp_proofs cp) /\
       (forall i sg, In (i, sg) p ->
          exists key, nth_n (vs_keys (chain_vals ih ivs (st_hdrs s) h)) i = Some key /\
                      sg = SVote key KPrecommit h (cp_round cp) (hd_hash x)) /\
       byz_majority (sum_pows (vs_pows (chain_vals ih ivs (st_hdrs s) h))) = Ok maj /\
       maj <= proof_power (vs_pows (chain_vals ih ivs (st_hdrs s) h)) p) /\
  (forall ch, k_chdr s = Some ch -> exists cp rest, st_hdrs s = (hd_height ch, (ch, cp)) :: rest).
Proof. exact commit_needs_certificate. Qed.
Print Assumptions C01_commit_needs_certificate.

(** The summary the commit decision reads is the recomputation from the view's own proofs. *)
Theorem C01_decision_reads_recomputed_powers : forall ih ivs s,
  1 <= ih -> vs_ok ivs = true -> reachable_b ih ivs s ->
  sm_avail (v_sum (k_vot s)) = sum_pows (vs_pows (v_vals (k_vot s))) /\
  sm_pcp (v_sum (k_vot s)) = blocks (vs_pows (v_vals (k_vot s))) (v_pc (k_vot s)).
Proof.
  intros ih ivs s Hi Hok Hr. destruct (reachable_INV ih ivs s Hi Hok Hr) as (_&_&[Sv _]&_). exact Sv.
Qed.
Print Assumptions C01_decision_reads_recomputed_powers.
