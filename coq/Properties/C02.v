(** C02 - The local validator never signs two proposals or votes in one round (state-machine model).
    Only statements closed by [exact] plus [Print Assumptions]. *)
From Coq Require Import List NArith.
From GV Require Import Base.Ints Gen.Math Gen.StepSM Model.StateMachine Model.SMWire Proofs.SMStep Proofs.SMOutputs
  Proofs.SMTheorems Proofs.SMWitness.
Import ListNotations.
Local Open Scope N_scope.

(** save before emit: a prevote is put on the outgoing channel only after the signer was called and the
    action store accepted the same prevote, in this order (for every state and target) *)
Theorem C02_save_before_emit_prevote : forall t s o1 o2 h r,
  snd (fst (record_prevote t s)) = o1 ++ OEmitPrevote h r t :: o2 ->
  In (OSavePrevote (rH (rl s)) (rR (rl s)) t 0 (pend s)) o1 /\ In (OSignPrevote (rH (rl s)) (rR (rl s)) t) o1.
Proof. exact record_prevote_order. Qed.
Print Assumptions C02_save_before_emit_prevote.

(** signatures and saves are for the current round and only for the strategy's answer / proposal *)
Theorem C02_signatures_for_current_round_from_strategy : forall s e, e <> EvStart ->
  forall o, In o (snd (step s e)) ->
  match o with
  | OSignPrevote h r t | OSavePrevote h r t _ _ => h = rH (rl s) /\ r = rR (rl s) /\ e = EvAnswer 0 t
  | OSignPrecommit h r t | OSavePrecommit h r t _ _ => h = rH (rl s) /\ r = rR (rl s) /\ e = EvAnswer 0 t
  | OSignProposal h r d => h = rH (rl s) /\ r = rR (rl s) /\ e = EvProposal d
  | _ => True
  end.
Proof. exact signatures_for_current_round_from_strategy. Qed.
Print Assumptions C02_signatures_for_current_round_from_strategy.

(* Full statement restart_never_signs_second is false of the faithful model (and of the code): *)
Theorem C02_restart_never_signs_second_refuted :
  List.length (filter (is_sign_pv 1 0) (List.concat (run_events (sm0 true) w3))) = 2%nat /\
  last_outs true w3 = [OSignPrevote 1 0 [8]; OSavePrevote 1 0 [8] 1 0; OHalt] /\
  List.length (filter (fun o => match o with OEmitPrevote _ _ _ => true | _ => false end)
                      (List.concat (run_events (sm0 true) w3))) = 1%nat.
Proof. exact w3_signs_twice_then_halts. Qed.
Print Assumptions C02_restart_never_signs_second_refuted.
