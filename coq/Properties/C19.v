(** C19 - The transaction buffer's pending list always applies cleanly in order.
    Statements only (closed by [exact]) plus [Print Assumptions].

    All theorems are generic: for EVERY state type S, transaction type T, user apply function
    (ok / invalid / fatal) and user deleter function.  Model: Model/TxBuf.v (after the fix:
    commit in the repo: invalidated entries are dropped by position).

    Guard present in the sequence theorems: no Rebase has returned a FATAL (non-TxInvalidError)
    error so far -- errors.go documents such an error as fatal to the buffer, and
    Proofs/TxBufInst.v [fatal_rebase_leaves_invariant_broken] shows the guard is necessary. *)
From Coq Require Import List NArith Bool Permutation.
From GV Require Import Model.TxBuf Model.TxBufSpec Model.TxBufInst Monitors.C19m Proofs.TxBuf Proofs.TxBufInst.
Import ListNotations.

(** The invariant (working state = pending list applied in order to the base, every step ok)
    holds after every request of every request sequence. *)
Theorem C19_invariant_always :
  forall (S T : Type) (apply : S -> T -> ares S) (deleter : list T -> T -> bool)
         (ops : list (op S T)) (w : wstate S T),
    Inv apply w ->
    forall pre x w' post,
      run_states apply deleter w ops = pre ++ (x, w') :: post ->
      (forall y, In y pre -> is_fatal_rebase (fst y) = false) ->
      is_fatal_rebase x = false ->
      fold_apply apply (base w') (txs w') = Some (cur w').
Proof. exact (@inv_always). Qed.
Print Assumptions C19_invariant_always.

Theorem C19_invariant_from_init :
  forall (S T : Type) (apply : S -> T -> ares S) (deleter : list T -> T -> bool)
         (ops : list (op S T)) (b : S),
    existsb (@is_fatal_rebase T) (snd (run apply deleter (init b) ops)) = false ->
    Inv apply (fst (run apply deleter (init b) ops)).
Proof. exact (@inv_final). Qed.
Print Assumptions C19_invariant_from_init.

(** A transaction is appended iff it applies to the state produced by the earlier pending
    ones; otherwise nothing changes and the user's error is returned. *)
Theorem C19_add_appends_iff_applies :
  forall (S T : Type) (apply : S -> T -> ares S) (w : wstate S T) (t : T) w' e,
    Inv apply w -> check_add_tx apply w t = (w', e) ->
    (e = ENone <-> applies apply (base w) (txs w ++ [t]) = true) /\
    (e = ENone -> txs w' = txs w ++ [t] /\ base w' = base w /\ Inv apply w') /\
    (e <> ENone -> w' = w) /\
    (forall c, e = EInvalid c <-> apply (cur w) t = AInvalid c) /\
    (forall c, e = EFatal c <-> apply (cur w) t = AFatal c).
Proof. exact (@add_spec). Qed.
Print Assumptions C19_add_appends_iff_applies.

(** A rebase keeps exactly the greedy in-order applicable subsequence of the not-applied
    pending transactions and returns the rest as invalidated; it re-establishes the invariant
    from ANY previous state. *)
Theorem C19_rebase_exact :
  forall (S T : Type) (apply : S -> T -> ares S) (deleter : list T -> T -> bool)
         (w : wstate S T) nb ap w' e i,
    rebase apply deleter w nb ap = (w', (e, i)) ->
    match greedy apply nb (not_applied deleter ap (txs w)) with
    | GDone k i' => e = ENone /\ i = i' /\ txs w' = k /\ base w' = nb /\ Inv apply w'
    | GFatal e' => e = EFatal e' /\ i = [] /\ base w' = nb /\ txs w' = not_applied deleter ap (txs w)
    end.
Proof. exact (@rebase_spec). Qed.
Print Assumptions C19_rebase_exact.

(** What "greedy" means, declaratively. (1) kept and invalidated are an order-preserving
    split of the input (hence kept ++ invalidated is a permutation of it); *)
Theorem C19_greedy_partition :
  forall (S T : Type) (apply : S -> T -> ares S) l s k i,
    greedy apply s l = GDone k i ->
    interleave k i l /\ Permutation (k ++ i) l /\ exists s', fold_apply apply s k = Some s'.
Proof.
  exact (fun S T apply l s k i H =>
           conj (greedy_interleave apply l s k i H)
                (conj (interleave_perm _ _ _ (greedy_interleave apply l s k i H))
                      (greedy_kept_applies apply l s k i H))).
Qed.
Print Assumptions C19_greedy_partition.

(** (2) at every position: the transaction met there is kept iff it applies to the state
    produced by the transactions kept before it, and invalidated iff the user's function
    reports it invalid there. *)
Theorem C19_greedy_pointwise :
  forall (S T : Type) (apply : S -> T -> ares S) l1 t l2 s k i,
    greedy apply s (l1 ++ t :: l2) = GDone k i ->
    exists k1 i1 c, greedy apply s l1 = GDone k1 i1 /\ fold_apply apply s k1 = Some c /\
      ((exists c' k2 i2, apply c t = AOk c' /\ greedy apply c' l2 = GDone k2 i2 /\
                         k = k1 ++ t :: k2 /\ i = i1 ++ i2) \/
       (exists e k2 i2, apply c t = AInvalid e /\ greedy apply c l2 = GDone k2 i2 /\
                        k = k1 ++ k2 /\ i = i1 ++ t :: i2)).
Proof. exact (@greedy_split). Qed.
Print Assumptions C19_greedy_pointwise.

(** Refinement: for every request sequence the results of the model are the results of the
    specification machine whose state is only (base, pending), up to and including the first
    fatal rebase response. *)
Theorem C19_refines_spec :
  forall (S T : Type) (apply : S -> T -> ares S) (deleter : list T -> T -> bool)
         (ops : list (op S T)) (w : wstate S T),
    Inv apply w ->
    cut_fatal (map fst (run_states apply deleter w ops)) = spec_outs apply deleter (base w) (txs w) ops.
Proof. exact (@refines_spec). Qed.
Print Assumptions C19_refines_spec.

(** Any concurrent mix of callers: whichever order the kernel goroutine takes the callers'
    requests in, invariant and specification results hold. *)
Theorem C19_any_schedule :
  forall (S T : Type) (apply : S -> T -> ares S) (deleter : list T -> T -> bool)
         (ths : list (list (op S T))) ops b,
    schedule ths ops ->
    existsb (@is_fatal_rebase T) (snd (run apply deleter (init b) ops)) = false ->
    Inv apply (fst (run apply deleter (init b) ops)) /\
    snd (run apply deleter (init b) ops) = spec_outs apply deleter b [] ops.
Proof. exact (@inv_any_schedule). Qed.
Print Assumptions C19_any_schedule.

(** The monitors evaluated on the implementation's observations are satisfied by the model on
    every request sequence (here for the fixture instance the check runs)... *)
Theorem C19_model_satisfies_monitors :
  forall mode cap ops b,
    let rs := run_states (apply_inst cap) (deleter_inst mode) (init b) ops in
    c19_api_mon (apply_inst cap) (deleter_inst mode) tx_eqb b [] (api_trace ops rs) = true /\
    c19_inv_mon (apply_inst cap) st_eqb (map (fun xw => (fst xw, snap_of (snd xw))) rs) = true.
Proof. exact inst_model_satisfies_monitors. Qed.
Print Assumptions C19_model_satisfies_monitors.

(** ... and the API monitor is sound: a trace it accepts has exactly the specification's results. *)
Theorem C19_api_monitor_sound :
  forall (S T : Type) (apply : S -> T -> ares S) (deleter : list T -> T -> bool)
         (T_eqb : T -> T -> bool),
    (forall a b, T_eqb a b = true -> a = b) ->
    forall tr b p, applies apply b p = true ->
      c19_api_mon apply deleter T_eqb b p tr = true ->
      cut_fatal (map (fun e : op S T * out T * list T => snd (fst e)) tr) =
      spec_outs apply deleter b p (map (fun e : op S T * out T * list T => fst (fst e)) tr).
Proof. exact (@api_mon_sound). Qed.
Print Assumptions C19_api_monitor_sound.
