(** C19 - The transaction buffer's pending list always applies cleanly in order. *)
From Coq Require Import List NArith.
From GV Require Import Model.TxBuf Model.TxBufSpec Proofs.TxBuf.
Import ListNotations.

Theorem C19_buffered_is_pending : forall (S T : Type) (w : wstate S T) dst, buffered w dst = dst ++ txs w.
Proof. exact (@buffered_spec). Qed.
Print Assumptions C19_buffered_is_pending.
