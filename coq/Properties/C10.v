(** C10 - Restart on the same stores resumes without loss or regression (mirror model).
    Statements only; proofs in Proofs/MirrorLog.v and Proofs/MirrorRestart.v. *)
From Coq Require Import List NArith.
From GV Require Import Base.Ints Gen.Kernel Model.Mirror Proofs.MirrorAuth Proofs.MirrorLog Proofs.MirrorRestart.
Import ListNotations.
Local Open Scope N_scope.

(** The crash model is faithful to the step model: every operation's effect on the three stores
    is exactly the replay of the writes it logged, in order, and the log only grows. *)
Theorem C10_log_is_store_delta : forall s o s' res, step s o = Ok (s', res) ->
  exists ws, st_log s' = st_log s ++ ws /\ stores_of s' = fold_left apply_wr ws (stores_of s).
Proof. exact step_is_logged. Qed.
Print Assumptions C10_log_is_store_delta.

(** Hence a crash between two store writes leaves exactly a prefix of the operation's writes ... *)
Theorem C10_crash_states_are_write_prefixes : forall s o s1 r k, step s o = Ok (s1, r) ->
  exists ws, st_log s1 = st_log s ++ ws /\
             stores_of s1 = fold_left apply_wr ws (stores_of s) /\
             fold_left apply_wr (firstn k (skipn (List.length (st_log s)) (st_log s1))) (stores_of s) =
             fold_left apply_wr (firstn k ws) (stores_of s).
Proof. exact crash_stores_are_write_prefixes. Qed.
Print Assumptions C10_crash_states_are_write_prefixes.

(** ... and a crash after the last write is a clean restart on the stores the operation produced. *)
Theorem C10_crash_after_all_writes_is_clean_restart : forall s o s1 r k,
  step s o = Ok (s1, r) ->
  (List.length (st_log s1) - List.length (st_log s) <= k)%nat ->
  xstep s (XCrash k o) =
  bind (restart (k_init_h s) (k_init_vs s) (stores_of s1) (st_vals s) (st_log s1)) (fun s' => Ok (s', r)).
Proof. exact crash_after_all_writes_is_clean_restart. Qed.
Print Assumptions C10_crash_after_all_writes_is_clean_restart.

(** For ALL store contents, a start-up that succeeds holds only votes that still verify under
    the validator set of the round they are filed under. *)
Theorem C10_reloaded_votes_verify : forall ih ivs st vals log s',
  restart ih ivs st vals log = Ok s' ->
  forall v, (v = k_com s' \/ v = k_vot s' \/ v = k_nxt s') ->
  (forall t p i sg, In (t, p) (v_pv v) -> In (i, sg) p ->
     exists key, nth_n (vs_keys (v_vals v)) i = Some key /\ sg = SVote key KPrevote (v_h v) (v_r v) t) /\
  (forall t p i sg, In (t, p) (v_pc v) -> In (i, sg) p ->
     exists key, nth_n (vs_keys (v_vals v)) i = Some key /\ sg = SVote key KPrecommit (v_h v) (v_r v) t).
Proof.
  intros ih ivs st vals log s' Hr v Hv.
  destruct (restart_views_authentic _ _ _ _ _ _ Hr) as (Hc & Hvo & Hn).
  assert (Ha : auth_view v) by (destruct Hv as [->|[->| ->]]; assumption).
  destruct Ha as [Hpv Hpc]. split; intros t p i sg Hin Hs; [exact (Hpv t p Hin i sg Hs)|exact (Hpc t p Hin i sg Hs)].
Qed.
Print Assumptions C10_reloaded_votes_verify.

(** Known finding (restart-ahead-of-uninterrupted-run): the full statement "after a restart the
    node is at the position of the uninterrupted run" is false of the faithful model. *)
Theorem C10_restart_same_position_refuted :
  vpos (run_x (init_state 1 w_vs) [XOp (OpPrevote w_m1); XOp (OpPrecommit w_m2)]) = Some (1, 1) /\
  vpos (run_x (init_state 1 w_vs) [XOp (OpPrevote w_m1); XOp (OpPrecommit w_m2); XRestart]) = Some (1, 2).
Proof. exact restart_same_position_refuted. Qed.
Print Assumptions C10_restart_same_position_refuted.
