(** C13 - BLS aggregation tree (gblsminsig/internal/sigtree/tree.go, gblsminsig/signatureproof.go):
    statements only; the proofs are in Proofs/BlsTree*.v.
    Ideal aggregate signatures (Model/BlsTree.v): [verify (Some ks) msg (SAgg m l)] iff [m = msg], [l = ks]. *)
From Coq Require Import List NArith ZArith String Bool Permutation.
From GV Require Import Base.Ints Model.SimpleProofBase Model.BlsTree
  Proofs.BlsTreeBase Proofs.BlsTreeAdd Proofs.BlsTreeProof Proofs.BlsTreeMachine Proofs.BlsTreeWitness.
Import ListNotations.
Local Open Scope N_scope.

(** New, for EVERY admitted key-set size (powers of two or not): the array has 2W-1 nodes, W = leaves_width n
    a power of two >= n, and the key at node (layer width 2^d, offset off) is the aggregate of the REAL leaves
    in [off * 2^(h-d), (off+1) * 2^(h-d)) - none for padding nodes. *)
Theorem C13Bls_new_tree_layout : forall n, 1 <= n <= 65535 ->
  exists h t, tree_new n = Ok t /\ wf_tree h t /\ t_n t = n /\ t_bits t = 0 /\
              (forall idx, idx < lenN (t_sigs t) -> nthN (t_sigs t) idx = Some None).
Proof. exact tree_new_wf. Qed.
Print Assumptions C13Bls_new_tree_layout.

(** (1) Invariant over ALL operation sequences from the empty machine (New, AddSignature, Merge, MergeSparse with
    arbitrary entries, MergeSparse(AsSparse), Clone, Derive, ...): every set bit is < n and lies under a node whose
    stored signature is set; every stored signature verifies under its node's aggregate key (is the genuine
    aggregate of the real leaves below it) and all those leaves have their bit set. *)
Theorem C13Bls_no_bit_without_valid_sig : forall ops r p,
  reg_get (regs_after [] ops) r = Some p ->
  (forall i, N.testbit (p_bits p) i = true ->
     i < t_n (p_tree p) /\
     exists idx sg, nthN (t_sigs (p_tree p)) idx = Some (Some sg) /\
                    In i (leaves_of (t_keys (p_tree p)) idx)) /\
  (forall idx sg, nthN (t_sigs (p_tree p)) idx = Some (Some sg) ->
     verify (key_at (t_keys (p_tree p)) idx) (p_msg p) sg = true /\
     forall i, In i (leaves_of (t_keys (p_tree p)) idx) -> N.testbit (p_bits p) i = true).
Proof. exact no_bit_without_valid_sig. Qed.
Print Assumptions C13Bls_no_bit_without_valid_sig.

(** Tree.AddSignature with its cascade: total, keeps the invariant, adds exactly the real leaves of the node. *)
Theorem C13Bls_tree_add_union : forall msg h t idx ks,
  inv msg h t -> nthN (t_keys t) idx = Some (Some ks) -> ks <> [] ->
  exists t', tree_add_signature t idx (SAgg msg ks) = Ok t' /\ inv msg h t' /\
    t_keys t' = t_keys t /\ t_n t' = t_n t /\
    (forall i, N.testbit (t_bits t') i = true <-> N.testbit (t_bits t) i = true \/ In i ks).
Proof. exact tree_add_signature_spec. Qed.
Print Assumptions C13Bls_tree_add_union.

(** (2) + (4) MergeSparse on any proof built by the API and ANY input (any key-id bytes, any signature values):
    never panics; AllValidSignatures is false iff some entry is malformed, unknown or fails verification
    ([entry_ok]); IncreasedSignatures iff the bit count grew; the bits afterwards are the bits before united
    with the real leaves under the entries that verify. *)
Theorem C13Bls_merge_sparse_spec : forall p hash ents, pinv p ->
  exists p', merge_sparse p hash ents =
             Ok (p', if N.eqb hash (p_hash p)
                     then mk_flags (forallb (entry_ok (t_keys (p_tree p)) (p_msg p)) ents)
                                   (popcount (p_bits p) <? popcount (p_bits p')) false
                     else no_flags) /\
    pinv p' /\ p_msg p' = p_msg p /\ p_hash p' = p_hash p /\
    t_keys (p_tree p') = t_keys (p_tree p) /\ t_n (p_tree p') = t_n (p_tree p) /\
    (forall i, N.testbit (p_bits p') i = true <->
               N.testbit (p_bits p) i = true \/
               (hash = p_hash p /\
                exists e, In e ents /\ entry_ok (t_keys (p_tree p)) (p_msg p) e = true /\
                          In i (entry_leaves (t_keys (p_tree p)) e))).
Proof. exact merge_sparse_spec. Qed.
Print Assumptions C13Bls_merge_sparse_spec.

Theorem C13Bls_merge_sparse_monotone : forall p hash ents p' f, pinv p ->
  merge_sparse p hash ents = Ok (p', f) ->
  forall i, N.testbit (p_bits p) i = true -> N.testbit (p_bits p') i = true.
Proof. exact merge_sparse_monotone. Qed.
Print Assumptions C13Bls_merge_sparse_monotone.

Theorem C13Bls_merge_sparse_idempotent : forall p hash ents p1 f1, pinv p ->
  merge_sparse p hash ents = Ok (p1, f1) ->
  exists p2 f2, merge_sparse p1 hash ents = Ok (p2, f2) /\ p_bits p2 = p_bits p1 /\
                f_increased f2 = false /\ f_all_valid f2 = f_all_valid f1.
Proof. exact merge_sparse_idempotent. Qed.
Print Assumptions C13Bls_merge_sparse_idempotent.

Theorem C13Bls_merge_sparse_order_irrelevant : forall p hash ents ents' p1 f1 p2 f2, pinv p ->
  Permutation ents ents' ->
  merge_sparse p hash ents = Ok (p1, f1) -> merge_sparse p hash ents' = Ok (p2, f2) ->
  p_bits p1 = p_bits p2 /\ f1 = f2.
Proof. exact merge_sparse_order_irrelevant. Qed.
Print Assumptions C13Bls_merge_sparse_order_irrelevant.

(** AddSignature: total; code 0 only for a key of the tree with a signature that verifies; the bits grow by
    exactly that key's leaves. *)
Theorem C13Bls_add_signature_spec : forall p sg key, pinv p ->
  exists p' code, add_signature p sg key = Ok (p', code) /\ pinv p' /\
    p_msg p' = p_msg p /\ p_hash p' = p_hash p /\
    t_keys (p_tree p') = t_keys (p_tree p) /\ t_n (p_tree p') = t_n (p_tree p) /\
    (forall i, N.testbit (p_bits p') i = true <->
               N.testbit (p_bits p) i = true \/
               (code = 0 /\ exists ks, key = Some ks /\ In i ks)) /\
    (code = 0 -> verify key (p_msg p) sg = true) /\ code <= 3.
Proof. exact add_signature_spec. Qed.
Print Assumptions C13Bls_add_signature_spec.

(** Merge: total on proofs built by the API, keeps the invariant, monotone.
    (PARTIAL: "bits afterwards = bits of p united with bits of o" and the exact flags of Merge are not proved -
     they need the cover property of SparseIndices; decided by the monitor on every run.) *)
Theorem C13Bls_merge_partial : forall p o, pinv p -> pinv o ->
  exists p' f, merge p o = Ok (p', f) /\ pinv p' /\
    (forall i, N.testbit (p_bits p) i = true -> N.testbit (p_bits p') i = true).
Proof. exact merge_total_pinv. Qed.
Print Assumptions C13Bls_merge_partial.

(** (4) No operation panics on any machine state reachable through the API, for ANY input, except the
    documented constructor panic (n outside 1..65535). *)
Theorem C13Bls_no_panic : forall ops o,
  snd (step (regs_after [] ops) o) = obs_panic ->
  (exists r n msg hash, o = BNew r n msg hash /\ (n < 1 \/ 65535 < n)) \/ (exists r, o = BBits r).
Proof. exact run_no_panic. Qed.
Print Assumptions C13Bls_no_panic.

(** (5) Clone / Derive independence in the (functional) model: operations aimed at other registers leave a
    register untouched.  The aliasing question of the real code is decided by the correspondence run. *)
Theorem C13Bls_clone_independent : forall ops rs r,
  (forall o, In o ops -> target o <> r) -> reg_get (regs_after rs ops) r = reg_get rs r.
Proof. exact clone_independent. Qed.
Print Assumptions C13Bls_clone_independent.

(** (3) Sparse ids.  Up to 32768 keys every node id survives AsSparse's [uint16(id)] and MergeSparse's decoding ... *)
Theorem C13Bls_node_ids_fit : forall n id, 1 <= n <= 32768 -> id < 2 * leaves_width n - 1 ->
  id_of_bytes (be16 (id mod 65536)) = id.
Proof. exact node_ids_fit. Qed.
Print Assumptions C13Bls_node_ids_fit.

(** ... but NOT beyond: New admits 65535 keys, and with 32769 keys the aggregate of leaves 0,1 lives at node
    65536.  The sparse round trip "Derive(), MergeSparse(AsSparse p) has p's bits" is FALSE of the faithful
    model (witness replayed on the real code by the check: finding bls-sparse-keyid-overflow).
    (The positive round-trip theorem for n <= 32768 is NOT proved: it needs the cover property of the walk.) *)
Theorem C13Bls_sparse_roundtrip_refuted : exists ops, roundtrip_fails ops = true.
Proof. exact sparse_roundtrip_refuted. Qed.
Print Assumptions C13Bls_sparse_roundtrip_refuted.

Theorem C13Bls_sparse_id_truncation_refuted :
  exists n id, 1 <= n <= 65535 /\ id < 2 * leaves_width n - 1 /\ id_of_bytes (be16 (id mod 65536)) <> id.
Proof. exact sparse_id_truncation_refuted. Qed.
Print Assumptions C13Bls_sparse_id_truncation_refuted.

(** SparseIndices (walkFromRoot) never runs out of fuel / never indexes out of range on a well-formed tree. *)
Theorem C13Bls_sparse_indices_total : forall h t, wf_tree h t -> exists ids, sparse_indices t = Ok ids.
Proof. exact sparse_indices_total. Qed.
Print Assumptions C13Bls_sparse_indices_total.

(* ====================================================================================================== *)
(** Second round (Proofs/BlsTreeSparse.v, BlsTreeMerge.v, BlsTreeRoundtrip.v, BlsTreeClosed.v): the items
    left partial above. *)
From GV Require Import Proofs.BlsTreeSparse Proofs.BlsTreeMerge Proofs.BlsTreeRoundtrip.

(** (2) walkFromRoot / SparseIndices on any tree satisfying the invariant: total; every id listed once; the
    listed ids are EXACTLY the maximal nodes whose stored signature is set ([is_max]: node (d, off) is set and
    [anc_setb .. 0 d off = false], i.e. no proper ancestor up to and including the root is set). *)
Theorem C13Bls_sparse_indices_maximal : forall msg h t, inv msg h t ->
  exists ids, sparse_indices t = Ok ids /\ NoDup ids /\ forall x, In x ids <-> is_max h (t_sigs t) x.
Proof. exact sparse_indices_spec. Qed.
Print Assumptions C13Bls_sparse_indices_maximal.

(** no listed node has a set (a fortiori: listed) proper ancestor, m >= 1 levels up *)
Theorem C13Bls_sparse_no_listed_ancestor : forall h sigs d off m, maxb h sigs (m + d) off = true -> (1 <= m)%nat ->
  set_at sigs (nidx h d (upn m off)) = false.
Proof. exact max_no_set_ancestor. Qed.
Print Assumptions C13Bls_sparse_no_listed_ancestor.

(** the real-leaf ranges of the listed nodes cover exactly the bit set and are pairwise disjoint *)
Theorem C13Bls_sparse_indices_cover : forall msg h t ids, inv msg h t -> sparse_indices t = Ok ids ->
  (forall i, N.testbit (t_bits t) i = true <-> exists x, In x ids /\ In i (leaves_of (t_keys t) x)) /\
  (forall x y i, In x ids -> In y ids -> In i (leaves_of (t_keys t) x) -> In i (leaves_of (t_keys t) y) -> x = y).
Proof.
  intros msg h t ids Hinv E. split; [exact (sparse_cover msg h t ids Hinv E)|exact (sparse_disjoint msg h t ids Hinv E)].
Qed.
Print Assumptions C13Bls_sparse_indices_cover.

(** (1) Merge of two API-built proofs over the same keys: total, keeps the invariant; if message or key hash differ
    nothing happens and all flags are false; otherwise bits afterwards = bits of p UNION bits of o,
    AllValidSignatures = true, IncreasedSignatures iff the count grew, WasStrictSuperset = looksLikeStrictSuperset
    (both empty, or o's Count greater and o a superset - bitset v1.20) /\ AllValid, as the Go code computes it. *)
Theorem C13Bls_merge_spec : forall p o, pinv p -> pinv o -> t_keys (p_tree p) = t_keys (p_tree o) ->
  exists p', merge p o =
             Ok (p', if matches p o
                     then mk_flags true (popcount (p_bits p) <? popcount (p_bits p'))
                                   (looks_superset_b (p_bits o) (p_bits p))
                     else no_flags) /\
    pinv p' /\ p_msg p' = p_msg p /\ p_hash p' = p_hash p /\
    t_keys (p_tree p') = t_keys (p_tree p) /\ t_n (p_tree p') = t_n (p_tree p) /\
    (forall i, N.testbit (p_bits p') i = true <->
               N.testbit (p_bits p) i = true \/ (matches p o = true /\ N.testbit (p_bits o) i = true)).
Proof. exact merge_spec. Qed.
Print Assumptions C13Bls_merge_spec.

(** "WasStrictSuperset means o's signers strictly contain p's" is FALSE of the model and of the code (the Go
    comment concedes it): merging an empty proof into an empty proof reports WasStrictSuperset = true. *)
Theorem C13Bls_merge_superset_strict_refuted : exists n, merge_superset_of_equal n = true.
Proof. exact merge_superset_strict_refuted. Qed.
Print Assumptions C13Bls_merge_superset_strict_refuted.

(** (3) the POSITIVE sparse round trip for n <= 32768: AsSparse lists the maximal nodes; a fresh Derive()d proof
    after MergeSparse(AsSparse p) has exactly p's bits, AllValid = true, Increased iff p is not empty. *)
Theorem C13Bls_sparse_roundtrip : forall p, pinv p -> t_n (p_tree p) <= 32768 ->
  exists ids q,
    sparse_indices (p_tree p) = Ok ids /\
    as_sparse p = Ok (p_hash p, map (sparse_entry_of p) ids) /\
    merge_sparse (derive p) (p_hash p) (map (sparse_entry_of p) ids) =
      Ok (q, mk_flags true (0 <? popcount (p_bits p)) false) /\
    pinv q /\ p_bits q = p_bits p.
Proof. exact sparse_roundtrip. Qed.
Print Assumptions C13Bls_sparse_roundtrip.

From GV Require Import Proofs.BlsTreeClosed Proofs.BlsTreeCanon Proofs.BlsTreeWitness2.

(** Every proof reachable through the API satisfies the invariant AND is closed: a set node whose parent is not
    set has a keyed, unset sibling (the cascade of Tree.AddSignature always aggregates what it can). *)
Theorem C13Bls_reachable_closed : forall ops r p,
  reg_get (regs_after [] ops) r = Some p -> pinv p /\ pcl p.
Proof. exact reachable_pinv_pcl. Qed.
Print Assumptions C13Bls_reachable_closed.

(** In a closed tree the maximal set nodes are exactly the canonical nodes of the bit set: full (has a real leaf,
    all real leaves signed) with a parent that is not full.  So the sparse form is a function of the bits. *)
Theorem C13Bls_maximal_is_canonical : forall msg h t d off, inv msg h t -> closed h t -> (d <= h)%nat -> off < p2 d ->
  (maxb h (t_sigs t) d off = true <-> canon h (t_n t) (t_bits t) d off).
Proof. exact max_canon. Qed.
Print Assumptions C13Bls_maximal_is_canonical.

Theorem C13Bls_sparse_canonical : forall p q ids ids', pinv p -> pcl p -> pinv q -> pcl q ->
  t_n (p_tree p) = t_n (p_tree q) -> p_bits p = p_bits q ->
  sparse_indices (p_tree p) = Ok ids -> sparse_indices (p_tree q) = Ok ids' -> Permutation ids ids'.
Proof. exact sparse_canonical. Qed.
Print Assumptions C13Bls_sparse_canonical.

(** (3), second half: the derived proof after MergeSparse(AsSparse p) lists the same ids as p (idempotence of the
    sparse form), for n <= 32768; the hypotheses hold for every reachable proof (C13Bls_reachable_closed). *)
Theorem C13Bls_sparse_roundtrip_ids : forall p, pinv p -> pcl p -> t_n (p_tree p) <= 32768 ->
  exists ids q ids',
    sparse_indices (p_tree p) = Ok ids /\
    merge_sparse (derive p) (p_hash p) (map (sparse_entry_of p) ids) =
      Ok (q, mk_flags true (0 <? popcount (p_bits p)) false) /\
    p_bits q = p_bits p /\ sparse_indices (p_tree q) = Ok ids' /\ Permutation ids' ids.
Proof. exact sparse_roundtrip_ids. Qed.
Print Assumptions C13Bls_sparse_roundtrip_ids.

From GV Require Import Monitors.C13Blsm Proofs.BlsTreeMonBase Proofs.BlsTreeMonitor.

(** (4) model_satisfies_monitor as a theorem: the monitor C13Blsm (the set-union specification that judges the
    real code's observations on every run) accepts the model's own run of ANY operation sequence - New,
    AddSignature with any key and signature, Merge, MergeSparse with any entries, MergeSparse(AsSparse),
    HasSparseKeyID, AsSparse, Clone, Derive, SignatureBitSet, unknown registers - provided every constructed key
    set has at most 32768 keys or is rejected by the constructor ([op_small]). *)
Theorem C13Bls_model_satisfies_monitor : forall ops, Forall op_small ops -> c13bls_mon ops (run ops) = None.
Proof. exact model_satisfies_monitor. Qed.
Print Assumptions C13Bls_model_satisfies_monitor.

(** the guard is exact in kind: with 32769 keys the monitor rejects the model's sparse round trip (the known finding) *)
Theorem C13Bls_model_satisfies_monitor_guard_needed : exists ops, c13bls_mon ops (run ops) <> None.
Proof. exact model_satisfies_monitor_guard_needed. Qed.
Print Assumptions C13Bls_model_satisfies_monitor_guard_needed.
