(** C13 - BLS aggregation tree (gblsminsig/internal/sigtree/tree.go, gblsminsig/signatureproof.go):
    statements only; the proofs are in Proofs/BlsTree*.v.
    Ideal aggregate signatures (Model/BlsTree.v): [verify (Some ks) msg (SAgg m l)] iff [m = msg], [l = ks]. *)
From Coq Require Import List NArith ZArith String Bool Permutation.
From GV Require Import Base.Ints Model.SimpleProofBase Model.BlsTree
  Proofs.BlsTreeBase Proofs.BlsTreeAdd Proofs.BlsTreeProof Proofs.BlsTreeMachine Proofs.BlsTreeWitness.
Import ListNotations.
Local Open Scope N_scope.

(** New, for EVERY admitted key-set size (powers of two or not): the array has 2W-1 nodes, W = leaves_width n
    a power of two >= n, and the key at node (layer width 2^d, offset off) is the aggregate of the REAL leaves
    in [off * 2^(h-d), (off+1) * 2^(h-d)) - none for padding nodes. *)
Theorem C13Bls_new_tree_layout : forall n, 1 <= n <= 65535 ->
  exists h t, tree_new n = Ok t /\ wf_tree h t /\ t_n t = n /\ t_bits t = 0 /\
              (forall idx, idx < lenN (t_sigs t) -> nthN (t_sigs t) idx = Some None).
Proof. exact tree_new_wf. Qed.
Print Assumptions C13Bls_new_tree_layout.

(** (1) Invariant over ALL operation sequences from the empty machine (New, AddSignature, Merge, MergeSparse with
    arbitrary entries, MergeSparse(AsSparse), Clone, Derive, ...): every set bit is < n and lies under a node whose
    stored signature is set; every stored signature verifies under its node's aggregate key (is the genuine
    aggregate of the real leaves below it) and all those leaves have their bit set. *)
Theorem C13Bls_no_bit_without_valid_sig : forall ops r p,
  reg_get (regs_after [] ops) r = Some p ->
  (forall i, N.testbit (p_bits p) i = true ->
     i < t_n (p_tree p) /\
     exists idx sg, nthN (t_sigs (p_tree p)) idx = Some (Some sg) /\
                    In i (leaves_of (t_keys (p_tree p)) idx)) /\
  (forall idx sg, nthN (t_sigs (p_tree p)) idx = Some (Some sg) ->
     verify (key_at (t_keys (p_tree p)) idx) (p_msg p) sg = true /\
     forall i, In i (leaves_of (t_keys (p_tree p)) idx) -> N.testbit (p_bits p) i = true).
Proof. exact no_bit_without_valid_sig. Qed.
Print Assumptions C13Bls_no_bit_without_valid_sig.

(** Tree.AddSignature with its cascade: total, keeps the invariant, adds exactly the real leaves of the node. *)
Theorem C13Bls_tree_add_union : forall msg h t idx ks,
  inv msg h t -> nthN (t_keys t) idx = Some (Some ks) -> ks <> [] ->
  exists t', tree_add_signature t idx (SAgg msg ks) = Ok t' /\ inv msg h t' /\
    t_keys t' = t_keys t /\ t_n t' = t_n t /\
    (forall i, N.testbit (t_bits t') i = true <-> N.testbit (t_bits t) i = true \/ In i ks).
Proof. exact tree_add_signature_spec. Qed.
Print Assumptions C13Bls_tree_add_union.

(** (2) + (4) MergeSparse on any proof built by the API and ANY input (any key-id bytes, any signature values):
    never panics; AllValidSignatures is false iff some entry is malformed, unknown or fails verification
    ([entry_ok]); IncreasedSignatures iff the bit count grew; the bits afterwards are the bits before united
    with the real leaves under the entries that verify. *)
Theorem C13Bls_merge_sparse_spec : forall p hash ents, pinv p ->
  exists p', merge_sparse p hash ents =
             Ok (p', if N.eqb hash (p_hash p)
                     then mk_flags (forallb (entry_ok (t_keys (p_tree p)) (p_msg p)) ents)
                                   (popcount (p_bits p) <? popcount (p_bits p')) false
                     else no_flags) /\
    pinv p' /\ p_msg p' = p_msg p /\ p_hash p' = p_hash p /\
    t_keys (p_tree p') = t_keys (p_tree p) /\ t_n (p_tree p') = t_n (p_tree p) /\
    (forall i, N.testbit (p_bits p') i = true <->
               N.testbit (p_bits p) i = true \/
               (hash = p_hash p /\
                exists e, In e ents /\ entry_ok (t_keys (p_tree p)) (p_msg p) e = true /\
                          In i (entry_leaves (t_keys (p_tree p)) e))).
Proof. exact merge_sparse_spec. Qed.
Print Assumptions C13Bls_merge_sparse_spec.

Theorem C13Bls_merge_sparse_monotone : forall p hash ents p' f, pinv p ->
  merge_sparse p hash ents = Ok (p', f) ->
  forall i, N.testbit (p_bits p) i = true -> N.testbit (p_bits p') i = true.
Proof. exact merge_sparse_monotone. Qed.
Print Assumptions C13Bls_merge_sparse_monotone.

Theorem C13Bls_merge_sparse_idempotent : forall p hash ents p1 f1, pinv p ->
  merge_sparse p hash ents = Ok (p1, f1) ->
  exists p2 f2, merge_sparse p1 hash ents = Ok (p2, f2) /\ p_bits p2 = p_bits p1 /\
                f_increased f2 = false /\ f_all_valid f2 = f_all_valid f1.
Proof. exact merge_sparse_idempotent. Qed.
Print Assumptions C13Bls_merge_sparse_idempotent.

Theorem C13Bls_merge_sparse_order_irrelevant : forall p hash ents ents' p1 f1 p2 f2, pinv p ->
  Permutation ents ents' ->
  merge_sparse p hash ents = Ok (p1, f1) -> merge_sparse p hash ents' = Ok (p2, f2) ->
  p_bits p1 = p_bits p2 /\ f1 = f2.
Proof. exact merge_sparse_order_irrelevant. Qed.
Print Assumptions C13Bls_merge_sparse_order_irrelevant.

(** AddSignature: total; code 0 only for a key of the tree with a signature that verifies; the bits grow by
    exactly that key's leaves. *)
Theorem C13Bls_add_signature_spec : forall p sg key, pinv p ->
  exists p' code, add_signature p sg key = Ok (p', code) /\ pinv p' /\
    p_msg p' = p_msg p /\ p_hash p' = p_hash p /\
    t_keys (p_tree p') = t_keys (p_tree p) /\ t_n (p_tree p') = t_n (p_tree p) /\
    (forall i, N.testbit (p_bits p') i = true <->
               N.testbit (p_bits p) i = true \/
               (code = 0 /\ exists ks, key = Some ks /\ In i ks)) /\
    (code = 0 -> verify key (p_msg p) sg = true) /\ code <= 3.
Proof. exact add_signature_spec. Qed.
Print Assumptions C13Bls_add_signature_spec.

(** Merge: total on proofs built by the API, keeps the invariant, monotone.
    (PARTIAL: "bits afterwards = bits of p united with bits of o" and the exact flags of Merge are not proved -
     they need the cover property of SparseIndices; decided by the monitor on every run.) *)
Theorem C13Bls_merge_partial : forall p o, pinv p -> pinv o ->
  exists p' f, merge p o = Ok (p', f) /\ pinv p' /\
    (forall i, N.testbit (p_bits p) i = true -> N.testbit (p_bits p') i = true).
Proof. exact merge_total_pinv. Qed.
Print Assumptions C13Bls_merge_partial.

(** (4) No operation panics on any machine state reachable through the API, for ANY input, except the
    documented constructor panic (n outside 1..65535). *)
Theorem C13Bls_no_panic : forall ops o,
  snd (step (regs_after [] ops) o) = obs_panic ->
  (exists r n msg hash, o = BNew r n msg hash /\ (n < 1 \/ 65535 < n)) \/ (exists r, o = BBits r).
Proof. exact run_no_panic. Qed.
Print Assumptions C13Bls_no_panic.

(** (5) Clone / Derive independence in the (functional) model: operations aimed at other registers leave a
    register untouched.  The aliasing question of the real code is decided by the correspondence run. *)
Theorem C13Bls_clone_independent : forall ops rs r,
  (forall o, In o ops -> target o <> r) -> reg_get (regs_after rs ops) r = reg_get rs r.
Proof. exact clone_independent. Qed.
Print Assumptions C13Bls_clone_independent.

(** (3) Sparse ids.  Up to 32768 keys every node id survives AsSparse's [uint16(id)] and MergeSparse's decoding ... *)
Theorem C13Bls_node_ids_fit : forall n id, 1 <= n <= 32768 -> id < 2 * leaves_width n - 1 ->
  id_of_bytes (be16 (id mod 65536)) = id.
Proof. exact node_ids_fit. Qed.
Print Assumptions C13Bls_node_ids_fit.

(** ... but NOT beyond: New admits 65535 keys, and with 32769 keys the aggregate of leaves 0,1 lives at node
    65536.  The sparse round trip "Derive(), MergeSparse(AsSparse p) has p's bits" is FALSE of the faithful
    model (witness replayed on the real code by the check: finding bls-sparse-keyid-overflow).
    (The positive round-trip theorem for n <= 32768 is NOT proved: it needs the cover property of the walk.) *)
Theorem C13Bls_sparse_roundtrip_refuted : exists ops, roundtrip_fails ops = true.
Proof. exact sparse_roundtrip_refuted. Qed.
Print Assumptions C13Bls_sparse_roundtrip_refuted.

Theorem C13Bls_sparse_id_truncation_refuted :
  exists n id, 1 <= n <= 65535 /\ id < 2 * leaves_width n - 1 /\ id_of_bytes (be16 (id mod 65536)) <> id.
Proof. exact sparse_id_truncation_refuted. Qed.
Print Assumptions C13Bls_sparse_id_truncation_refuted.

(** SparseIndices (walkFromRoot) never runs out of fuel / never indexes out of range on a well-formed tree. *)
Theorem C13Bls_sparse_indices_total : forall h t, wf_tree h t -> exists ids, sparse_indices t = Ok ids.
Proof. exact sparse_indices_total. Qed.
Print Assumptions C13Bls_sparse_indices_total.
