(** C13 - BLS aggregation tree: statements only (proofs in Proofs/BlsTree*.v). *)
From Coq Require Import List NArith ZArith String Bool.
From GV Require Import Base.Ints Model.SimpleProofBase Model.BlsTree.
Import ListNotations.
Local Open Scope N_scope.
