(** C04 - A node's committed chain is immutable, gap-free and hash-linked.
    Statements only; proofs in Proofs/MirrorChain.v. *)
From Coq Require Import List NArith.
From GV Require Import Base.Ints Gen.Kernel Model.Mirror Proofs.MirrorChain.
Import ListNotations.
Local Open Scope N_scope.

(** No operation changes or removes a committed-header store entry. *)
Theorem C04_committed_hash_immutable : forall ih ivs s o s' res,
  1 <= ih -> vs_ok ivs = true -> reachable_b ih ivs s -> op_bounded o ->
  step s o = Ok (s', res) ->
  forall h x, In (h, x) (st_hdrs s) -> In (h, x) (st_hdrs s').
Proof.
  intros ih ivs s o s' res Hi Hok Hr. apply (committed_hash_immutable ih ivs). eapply reachable_cinv; eassumption.
Qed.
Print Assumptions C04_committed_hash_immutable.

(** The committed-header store holds exactly one header for each height from the initial height to
    the committing height, each above the initial height naming its predecessor's hash
    ([hchain] encodes contiguity and the links). *)
Theorem C04_heights_contiguous_and_linked : forall ih ivs s,
  1 <= ih -> vs_ok ivs = true -> reachable_b ih ivs s ->
  match k_chdr s with
  | None => st_hdrs s = []
  | Some ch => hchain ih (hd_height ch) (st_hdrs s)
  end.
Proof.
  intros ih ivs s Hi Hok Hr. eapply heights_contiguous_and_linked. eapply reachable_cinv; eassumption.
Qed.
Print Assumptions C04_heights_contiguous_and_linked.

Theorem C04_one_header_per_height : forall ih top l, hchain ih top l ->
  forall h x y, In (h, x) l -> In (h, y) l -> x = y.
Proof. exact one_header_per_height. Qed.
Print Assumptions C04_one_header_per_height.

Theorem C04_voting_is_committing_plus_one : forall ih ivs s ch,
  1 <= ih -> vs_ok ivs = true -> reachable_b ih ivs s -> k_chdr s = Some ch ->
  v_h (k_com s) = hd_height ch /\ v_h (k_vot s) = v_h (k_com s) + 1 /\
  st_nhr s = (v_h (k_vot s), v_r (k_vot s), v_h (k_com s), v_r (k_com s)).
Proof.
  intros ih ivs s ch Hi Hok Hr. eapply voting_is_committing_plus_one. eapply reachable_cinv; eassumption.
Qed.
Print Assumptions C04_voting_is_committing_plus_one.

(** Heights never decrease; while the voting height stays, the committing position stays and the
    voting round only moves by increments ([rsteps] = repeated +1 modulo 2^32). *)
Theorem C04_position_never_decreases : forall ih ivs s o s' res,
  1 <= ih -> vs_ok ivs = true -> reachable_b ih ivs s -> op_bounded o ->
  step s o = Ok (s', res) ->
  v_h (k_vot s) <= v_h (k_vot s') /\ v_h (k_com s) <= v_h (k_com s') /\
  (v_h (k_vot s') = v_h (k_vot s) ->
     v_h (k_com s') = v_h (k_com s) /\ v_r (k_com s') = v_r (k_com s) /\
     rsteps (v_r (k_vot s)) (v_r (k_vot s'))).
Proof.
  intros ih ivs s o s' res Hi Hok Hr. apply (position_never_decreases ih ivs). eapply reachable_cinv; eassumption.
Qed.
Print Assumptions C04_position_never_decreases.
