(** C05 - Only authentic votes enter views, stores and gossip.
    Statements only; proofs in Proofs/MirrorAuth.v and Proofs/MirrorNoop.v. *)
From Coq Require Import List NArith.
From GV Require Import Base.Ints Gen.Kernel Model.Mirror Proofs.MirrorAuth Proofs.MirrorNoop Proofs.MirrorChain.
Import ListNotations.
Local Open Scope N_scope.

(** For every operation history: every signature in the committing, voting and next-round view is
    a genuine signature by the validator at that index of the view's validator set, for exactly
    the vote kind, height, round and block hash it is filed under. *)
Theorem C05_views_authentic : forall init_h vs s, reachable init_h vs s ->
  forall v, (v = k_com s \/ v = k_vot s \/ v = k_nxt s) ->
  (forall t p i sg, In (t, p) (v_pv v) -> In (i, sg) p ->
     exists key, nth_n (vs_keys (v_vals v)) i = Some key /\ sg = SVote key KPrevote (v_h v) (v_r v) t) /\
  (forall t p i sg, In (t, p) (v_pc v) -> In (i, sg) p ->
     exists key, nth_n (vs_keys (v_vals v)) i = Some key /\ sg = SVote key KPrecommit (v_h v) (v_r v) t).
Proof.
  intros init_h vs s Hr v Hv.
  destruct (views_authentic init_h vs s Hr) as (Hc & Hvo & Hn).
  assert (Ha : auth_view v) by (destruct Hv as [->|[->| ->]]; assumption).
  destruct Ha as [Hpv Hpc]. split; intros t p i sg Hin Hs; [exact (Hpv t p Hin i sg Hs)|exact (Hpc t p Hin i sg Hs)].
Qed.
Print Assumptions C05_views_authentic.

(** A vote message none of whose signatures is admissible for the view (or key set) it is checked
    against leaves the entire state - views and all stores - unchanged and is reported neither as
    accepted nor as verified. *)
Theorem C05_all_invalid_is_noop : forall ih ivs s kind m s' res,
  1 <= ih -> vs_ok ivs = true -> reachable_b ih ivs s ->
  msg_all_invalid (keys_for s m) kind m = true ->
  handle_votes kind s m = Ok (s', res) ->
  s' = s /\ res <> HandleVoteProofsAccepted /\ res <> HandleVoteProofsFutureVerified.
Proof.
  intros ih ivs s kind m s' res Hi Hok Hr. apply all_invalid_is_noop_at.
  eapply find_view_matches. eapply reachable_cinv; eassumption.
Qed.
Print Assumptions C05_all_invalid_is_noop.
