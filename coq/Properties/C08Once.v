(** C08 over ALL event histories of the round state machine model (from [sm0 sg], both signer settings,
    restarts included): the step of the round lifecycle never decreases within a round, and the strategy
    is asked for its precommit decision / its final prevote choice at most once per round.
    Third pass of the handler logic: Proofs/SMOnce.v (step), SMOnceRel.v (rounds, channel generations,
    round entrances), SMOnceStep.v (per event, by run state), SMOnceHist.v (histories).
    Only statements closed by [exact] plus [Print Assumptions].

    The order the code respects is the numeric order of the step constants
      AwaitingProposal(1) < AwaitingPrevotes(2) < PrevoteDelay(3) < AwaitingPrecommits(4) <
      PrecommitDelay(5) < CommitWait(6) < AwaitingFinalization(7)
    (finer than the grouping AwaitingPrevotes/PrevoteDelay, AwaitingPrecommits/PrecommitDelay).
    "Within a round" = between two states in which the kernel is idle ([run s = Idle]) with the same
    channel generation [gen] (it grows at every RoundLifecycle.Reset) and no Stop in between.
    Reset does NOT reset the step: between a round entrance and its response the machine still carries
    the step of the round it left ([C08_step_is_stale_while_awaiting]). *)
From Coq Require Import List NArith Bool.
From GV Require Import Base.Ints Gen.Math Gen.StepSM Model.StateMachine Proofs.SMInv Proofs.SMInvStep Proofs.SMRel
  Proofs.SMTheorems Proofs.SMInvActs Proofs.SMWitness Proofs.SMOnce Proofs.SMOnceRel Proofs.SMOnceStep Proofs.SMOnceHist
  Proofs.SMOnceSign Proofs.SMOncePH Proofs.SMOnceCons Proofs.SMOnceFin Proofs.SMOnceAfter.
Import ListNotations.
Local Open Scope N_scope.

(** per event: a reachable idle machine that is idle again after the event is in the same round, with
    the same channel generation, and its step has not decreased *)
Theorem C08_step_monotone_step : forall sg es e,
  let s := final_state (sm0 sg) es in
  run s = Idle -> run (fst (step s e)) = Idle ->
  rS (rl s) <= rS (rl (fst (step s e))) /\ cur (fst (step s e)) = cur s /\ gen (fst (step s e)) = gen s.
Proof. exact (fun sg es e => step_monotone _ e (le7_reachable sg es)). Qed.
Print Assumptions C08_step_monotone_step.

(** along histories: between two idle states of the same lifetime (no Stop) with the same channel
    generation the step does not decrease, and height and round are the same *)
Theorem C08_step_monotone_within_round : forall sg es1 es2,
  let s1 := final_state (sm0 sg) es1 in let s2 := final_state s1 es2 in
  ~ In EvStop es2 -> run s1 = Idle -> run s2 = Idle -> gen s2 = gen s1 ->
  rS (rl s1) <= rS (rl s2) /\ rH (rl s2) = rH (rl s1) /\ rR (rl s2) = rR (rl s1).
Proof. exact step_monotone_within_round. Qed.
Print Assumptions C08_step_monotone_within_round.

(** every reachable step value is a step constant *)
Theorem C08_step_is_a_constant : forall sg es, rS (rl (final_state (sm0 sg) es)) <= 7.
Proof. exact le7_reachable. Qed.
Print Assumptions C08_step_is_a_constant.

(** the strategy is asked for its PRECOMMIT DECISION ([ODecide]) at most once per round: between two
    [ODecide] outputs anywhere in the output history a round entrance is announced (every process
    lifetime begins with one, every new round is entered through one) *)
Theorem C08_decide_at_most_once_per_round : forall sg es a x b y c,
  List.concat (run_events (sm0 sg) es) = a ++ x :: b ++ y :: c ->
  is_decide x = true -> is_decide y = true -> exists z, In z b /\ is_ent z = true.
Proof. exact (fun sg es => decide_once sg es). Qed.
Print Assumptions C08_decide_at_most_once_per_round.

(** the same for the strategy's final PREVOTE CHOICE ([OChoose]: ChooseProposedBlock at the proposal
    timeout, or when a block has a prevote quorum while the proposal is still awaited).
    [OConsider] (ConsiderProposedBlocks) is not counted: it is asked again for every larger set of
    acceptable proposed headers, at the entry of the prevote delay, and for arriving block data while the
    prevote channel is open - see design/C08.md *)
Theorem C08_choose_at_most_once_per_round : forall sg es a x b y c,
  List.concat (run_events (sm0 sg) es) = a ++ x :: b ++ y :: c ->
  is_choose x = true -> is_choose y = true -> exists z, In z b /\ is_ent z = true.
Proof. exact (fun sg es => choose_once sg es). Qed.
Print Assumptions C08_choose_at_most_once_per_round.

(** per event: the decision is requested only while the consensus manager holds no call, by an idle
    machine in a step before AwaitingPrecommits or by a machine entering a round; if the machine is idle
    afterwards its step is at least AwaitingPrecommits (the three sites that ask first and set the step
    afterwards included) *)
Theorem C08_decide_request_and_step : forall sg es e,
  let s := final_state (sm0 sg) es in
  In K_decide (reqs (snd (step s e))) ->
  cm s = None /\ (run s = Idle \/ awaiting s) /\ (run s = Idle -> rS (rl s) < StepAwaitingPrecommits) /\
  (run (fst (step s e)) = Idle -> StepAwaitingPrecommits <= rS (rl (fst (step s e)))).
Proof. exact decide_step. Qed.
Print Assumptions C08_decide_request_and_step.

Theorem C08_choose_request_and_step : forall sg es e,
  let s := final_state (sm0 sg) es in
  In K_choose (reqs (snd (step s e))) ->
  cm s = None /\ (run s = Idle \/ awaiting s) /\ (run s = Idle -> rS (rl s) = StepAwaitingProposal) /\
  (run (fst (step s e)) = Idle -> StepAwaitingPrevotes <= rS (rl (fst (step s e)))).
Proof. exact choose_step. Qed.
Print Assumptions C08_choose_request_and_step.

(** the hypotheses are satisfiable, and the step really moves *)
Theorem C08Once_example_monotone :
  let s1 := final_state (sm0 true) ex_mono_1 in let s2 := final_state s1 ex_mono_2 in
  run s1 = Idle /\ run s2 = Idle /\ gen s2 = gen s1 /\ rS (rl s1) = StepAwaitingProposal /\ rS (rl s2) = StepPrevoteDelay.
Proof. exact ex_step_monotone. Qed.
Print Assumptions C08Once_example_monotone.

(** two decisions in one history, in two rounds, a round entrance in between; one choice *)
Theorem C08Once_example_decide :
  List.length (filter is_decide (List.concat (run_events (sm0 true) w_dec))) = 2%nat /\
  List.length (filter is_ent (List.concat (run_events (sm0 true) w_dec))) = 2%nat /\
  List.length (filter is_choose (List.concat (run_events (sm0 true) ex_mono_1 ++ run_events (final_state (sm0 true) ex_mono_1) [EvTimer]))) = 1%nat.
Proof. exact ex_decide_twice_with_entrance. Qed.
Print Assumptions C08Once_example_decide.

(** Reset does not reset the step: after the round entrance for (1,1) the machine still carries
    PrecommitDelay of round (1,0); the response sets AwaitingProposal in the same channel generation *)
Theorem C08_step_is_stale_while_awaiting :
  let s1 := final_state (sm0 true) ex_stale in
  let s2 := fst (step s1 (EvRERespVRV (mkv 1 1 1 (vs_of 0 0 [] []) []))) in
  awaiting s1 /\ run s2 = Idle /\ gen s2 = gen s1 /\
  rS (rl s1) = StepPrecommitDelay /\ rS (rl s2) = StepAwaitingProposal /\ cur s1 = (1, 1) /\ cur s2 = (1, 1).
Proof. exact ex_step_stale_while_awaiting. Qed.
Print Assumptions C08_step_is_stale_while_awaiting.

(** ** Rounds entered strictly increase across a process lifetime
    (per step: Properties/C08.v C08_entrances_strictly_increase; here lifted to histories).
    In one lifetime (a history continued by [es2] without Stop from any reachable state), while neither
    counter is at its last value ([nowrap] in every state passed), a round entrance announced by a later
    event is for a lexicographically greater (height, round) than one announced by an earlier event ... *)
Theorem C08_entrances_strictly_increase_lifetime : forall sg es1 es2 i j oi oj h1 r1 pk1 a1 h2 r2 pk2 a2,
  let s1 := final_state (sm0 sg) es1 in
  ~ In EvStop es2 -> along nowrap s1 es2 -> (i < j)%nat ->
  nth_error (run_events s1 es2) i = Some oi -> nth_error (run_events s1 es2) j = Some oj ->
  In (ORoundEntrance h1 r1 pk1 a1) oi -> In (ORoundEntrance h2 r2 pk2 a2) oj -> hr_lt (h1, r1) (h2, r2).
Proof.
  exact (fun sg es1 es2 i j oi oj h1 r1 pk1 a1 h2 r2 pk2 a2 NS AL =>
    entrances_increase_lifetime es2 _ (le7_reachable sg es1) NS AL i j oi oj h1 r1 pk1 a1 h2 r2 pk2 a2).
Qed.
Print Assumptions C08_entrances_strictly_increase_lifetime.

(** ... one event announces at most one round entrance ... *)
Theorem C08_one_entrance_per_event : forall sg es e,
  (ents (snd (step (final_state (sm0 sg) es) e)) <= 1)%nat.
Proof. exact one_entrance_per_event. Qed.
Print Assumptions C08_one_entrance_per_event.

(** ... and it is the last output of its event, for the round the machine is in afterwards, and the
    machine then awaits the response *)
Theorem C08_entrance_is_for_the_round_entered : forall sg es e h r pk act,
  let s := final_state (sm0 sg) es in
  In (ORoundEntrance h r pk act) (snd (step s e)) ->
  e <> EvStop /\ awaiting (fst (step s e)) /\ cur (fst (step s e)) = (h, r) /\ ents (snd (step s e)) = 1%nat /\
  (run s = Idle \/ awaiting s \/ run s = NotStarted).
Proof. exact (fun sg es e h r pk act => ent_facts _ e h r pk act (le7_reachable sg es)). Qed.
Print Assumptions C08_entrance_is_for_the_round_entered.

(** ** ConsiderProposedBlocks ([OConsider phs new upd maj]): which requests, when - for EVERY state and event.
    The request is made only while the consensus manager holds no call, and it is one of:
    - the round begins (round entrance response): upd = [], maj = false;
    - a view update while AwaitingProposal: either the prevote delay is entered (maj = true; if the machine is
      idle afterwards its step is at least PrevoteDelay), or the view carries strictly MORE acceptable
      proposed headers than the machine's current view (maj = false, all acceptable headers of the new view);
    - block data arrived while the prevote channel is open: new = [], upd <> [], maj = false. *)
Theorem C08_consider_requests : forall s e x,
  In x (snd (step s e)) -> is_consider x = true ->
  cm s = None /\
  ((awaiting s /\ (exists v, e = EvRERespVRV v) /\ exists phs nw, x = OConsider phs nw [] false) \/
   (run s = Idle /\ rS (rl s) = StepAwaitingProposal /\ exists v ja, e = EvView v ja /\
      ((exists phs nw, x = OConsider phs nw [] true /\
          (run (fst (step s e)) = Idle -> StepPrevoteDelay <= rS (rl (fst (step s e))))) \/
       (exists old nw, rVRV (rl s) = Some old /\
          x = OConsider (map ph_hash (reject_mismatched (rl s) (v_phs v))) nw [] false /\
          (List.length (reject_mismatched (rl s) (v_phs old)) < List.length (reject_mismatched (rl s) (v_phs v)))%nat))) \/
   (run s = Idle /\ rPvCh (rl s) = true /\ (exists h r d, e = EvBlockData h r d) /\
      exists phs upd, x = OConsider phs [] upd false /\ upd <> [])).
Proof. exact consider_step. Qed.
Print Assumptions C08_consider_requests.

(** the request made when entering the prevote delay (maj = true) is made at most once per round *)
Theorem C08_consider_majority_at_most_once_per_round : forall sg es a x b y c,
  List.concat (run_events (sm0 sg) es) = a ++ x :: b ++ y :: c ->
  is_consider_maj x = true -> is_consider_maj y = true -> exists z, In z b /\ is_ent z = true.
Proof. exact (fun sg es => consider_maj_once sg es). Qed.
Print Assumptions C08_consider_majority_at_most_once_per_round.

(** non-vacuity: all kinds of consider requests within one round *)
Theorem C08Once_example_consider :
  filter is_consider (List.concat (run_events (sm0 true) ex_cons_hist)) =
    [ OConsider [[7]] [[7]] [] false; OConsider [[7]; [8]] [[8]] [] false;
      OConsider [[7]; [8]] [] [[107]] false; OConsider [[7]; [8]] [] [] true ].
Proof. exact ex_considers. Qed.
Print Assumptions C08Once_example_consider.

(** once the strategy's prevote has been signed in a round, the strategy is not asked about its prevote
    again - neither ConsiderProposedBlocks nor ChooseProposedBlock - before the next round entrance:
    the prevote choice is TAKEN at most once per round *)
Theorem C08_no_prevote_request_after_prevote_signed : forall sg es a x b y c,
  List.concat (run_events (sm0 sg) es) = a ++ x :: b ++ y :: c ->
  is_sign_k KPv x = true -> is_prevote_ask y = true -> exists z, In z b /\ is_ent z = true.
Proof. exact (fun sg es => no_prevote_ask_after_sign sg es). Qed.
Print Assumptions C08_no_prevote_request_after_prevote_signed.

(** non-vacuity: consider (not ready), choose at the timeout, the prevote is signed; a further proposed
    header and its block data arrive afterwards and nothing more is asked *)
Theorem C08Once_example_after_sign :
  filter (fun o => is_prevote_ask o || is_sign_k KPv o) (List.concat (run_events (sm0 true) ex_after_hist)) =
    [ OConsider [[7]] [[7]] [] false; OChoose [[7]]; OSignPrevote 1 0 [7] ].
Proof. exact ex_no_ask_after_sign. Qed.
Print Assumptions C08Once_example_after_sign.

(** ** Finalize requests.
    Full statement: in one process lifetime at most one [OFinalizeReq] is made per height.
    It is FALSE of the faithful model (and, to be replayed, of the code), even per (height, round): *)

(** the same (height, round, block) is requested by two consecutive view updates of one lifetime: after a
    round entrance answered with a committed header, rlc.VRV keeps the view of the round left and
    handleCommitWaitViewUpdate finds "no header before, one now" at every update (w1 + one view) *)
Theorem C08_finalize_once_per_round_refuted :
  existsb (fun e => match e with EvStop => true | _ => false end) w_fin_round = false /\
  map (filter is_fin) (run_events (sm0 true) w_fin_round) =
    [[]; []; []; [OFinalizeReq 1 0 [7]]; [OFinalizeReq 1 1 [8]]; [OFinalizeReq 1 1 [8]]] /\
  run (final_state (sm0 true) w_fin_round) = Idle.
Proof. exact finalize_once_per_round_refuted. Qed.
Print Assumptions C08_finalize_once_per_round_refuted.

(** two requests for one height in one lifetime without any committed-header response: a jump-ahead out of
    commit wait (handleJumpAhead does not look at the step), the new round begins in commit wait again *)
Theorem C08_finalize_once_per_height_refuted :
  existsb (fun e => match e with EvStop => true | _ => false end) w_fin_height = false /\
  existsb is_ch_event w_fin_height = false /\
  map (filter is_fin) (run_events (sm0 true) w_fin_height) =
    [[]; []; [OFinalizeReq 1 0 [7]]; []; [OFinalizeReq 1 1 [7]]] /\
  run (final_state (sm0 true) w_fin_height) = Idle.
Proof. exact finalize_once_per_height_refuted. Qed.
Print Assumptions C08_finalize_once_per_height_refuted.
(* What holds of finalize requests per event is Properties/C08.v C08_finalize_needs_quorum_partial. No
   "at most once" partial is claimed: excluding the two witness classes needs guards on the event history
   (no committed-header responses, no view update or jump-ahead during commit wait, views of a round that
   only grow) under which the statement says little about the code. *)
