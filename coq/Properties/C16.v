(** C16 - In-memory stores are linearizable and honour no-overwrite contracts.
    Statements only, each closed by [exact]; proofs are in Proofs/Stores*.v. *)
From Coq Require Import List NArith String Bool.
From GV Require Import Base.Ints Model.Stores Model.StoresEq Monitors.C16m Gen.StoreLocks Proofs.StoreLocks.
Import ListNotations.
Local Open Scope N_scope.

Theorem C16_every_method_is_one_critical_section :
  forallb lock_ok store_methods = true /\ store_methods_unguarded = [].
Proof. exact every_method_is_one_critical_section. Qed.
Print Assumptions C16_every_method_is_one_critical_section.

Theorem C16_modelled_methods_are_the_exported_methods :
  forallb (fun m => existsb (name_eqb m) (map names_of store_methods)) modelled_methods = true /\
  forallb (fun m => existsb (name_eqb (names_of m)) modelled_methods) store_methods = true.
Proof. exact modelled_methods_are_the_exported_methods. Qed.
Print Assumptions C16_modelled_methods_are_the_exported_methods.
