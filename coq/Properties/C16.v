(** C16 - In-memory stores are linearizable and honour no-overwrite contracts.
    Statements only, each closed by [exact]; proofs are in Proofs/Stores*.v.

    Shape of the result.  Every store method is one critical section (structural facts
    regenerated from the Go sources, first two theorems), so a store under concurrent use
    behaves as SOME sequential order of its calls consistent with real time - that part is
    sync.Mutex and is trusted, with recorded concurrent histories checked against the model
    as supporting evidence.  What is proved here, for ALL operation sequences with
    arbitrary arguments, is the sequential behaviour: each store answers every call exactly
    as its history-based contract ([x_expected], Monitors/C16m.v) requires - this is
    "model satisfies monitor" - plus the named consequences of the property statement. *)
From Coq Require Import List NArith String Bool.
From GV Require Import Base.Ints Model.Stores Model.StoresEq Monitors.C16m Gen.StoreLocks
  Proofs.StoreLocks Proofs.Stores Proofs.StoresVR Proofs.StoresAction Proofs.StoresLin.
From Coq Require Import Permutation.
Import ListNotations.
Local Open Scope N_scope.

(** * One method call = one atomic step *)
Theorem C16_every_method_is_one_critical_section :
  forallb lock_ok store_methods = true /\ store_methods_unguarded = [].
Proof. exact every_method_is_one_critical_section. Qed.
Print Assumptions C16_every_method_is_one_critical_section.

Theorem C16_modelled_methods_are_the_exported_methods :
  forallb (fun m => existsb (name_eqb m) (map names_of store_methods)) modelled_methods = true /\
  forallb (fun m => existsb (name_eqb (names_of m)) modelled_methods) store_methods = true.
Proof. exact modelled_methods_are_the_exported_methods. Qed.
Print Assumptions C16_modelled_methods_are_the_exported_methods.

(** * Finalization store *)
Theorem C16_fin_answers_by_contract : forall ops,
  f_mon (trace fstep finit ops) = 0 /\
  forall o, snd (fstep (run fstep finit ops) o) = f_expected (rev (trace fstep finit ops)) o.
Proof. exact (fun ops => conj (proj1 (fin_refines ops)) (fin_answers_by_contract ops)). Qed.
Print Assumptions C16_fin_answers_by_contract.

Theorem C16_finalization_never_overwritten : forall ops1 ops2 h r bh vs ah,
  snd (fstep (run fstep finit ops1) (FSave h r bh vs ah)) = FOk ->
  let s := run fstep finit (ops1 ++ FSave h r bh vs ah :: ops2) in
  snd (fstep s (FLoad h)) = FLoaded r bh vs ah /\
  forall r' bh' vs' ah', fstep s (FSave h r' bh' vs' ah') = (s, FErr (EFinOverwrite h)).
Proof. exact fin_never_overwritten. Qed.
Print Assumptions C16_finalization_never_overwritten.

(** * Committed header store (a save silently replaces: the LATEST save is loaded) *)
Theorem C16_chs_answers_by_contract : forall ops,
  c_mon (trace cstep cinit ops) = 0 /\
  forall o, snd (cstep (run cstep cinit ops) o) = c_expected (rev (trace cstep cinit ops)) o.
Proof. exact (fun ops => conj (proj1 (chs_refines ops)) (chs_answers_by_contract ops)). Qed.
Print Assumptions C16_chs_answers_by_contract.

Theorem C16_chs_load_returns_latest_save : forall ops1 ops2 h tag,
  (forall t, ~ In (CSave h t) ops2) ->
  snd (cstep (run cstep cinit (ops1 ++ CSave h tag :: ops2)) (CLoad h)) = CLoaded tag.
Proof. exact chs_load_returns_latest_save. Qed.
Print Assumptions C16_chs_load_returns_latest_save.

Theorem C16_chs_unknown_iff : forall ops h,
  snd (cstep (run cstep cinit ops) (CLoad h)) = CErr (EHeightUnknown h) <-> (forall t, ~ In (CSave h t) ops).
Proof. exact chs_unknown_iff. Qed.
Print Assumptions C16_chs_unknown_iff.

(** * Mirror store and state machine store *)
Theorem C16_mirror_answers_by_contract : forall ops,
  m_mon (trace mstep minit ops) = 0 /\
  forall o, snd (mstep (run mstep minit ops) o) = m_expected (rev (trace mstep minit ops)) o.
Proof. exact (fun ops => conj (proj1 (mirror_refines ops)) (mirror_answers_by_contract ops)). Qed.
Print Assumptions C16_mirror_answers_by_contract.

Theorem C16_mirror_uninitialized_iff : forall ops,
  snd (mstep (run mstep minit ops) MGet) = MErr EUninitialized <->
  match last_mset ops None with Some (vh, _, _, _) => vh = 0 | None => True end.
Proof. exact mirror_uninitialized_iff. Qed.
Print Assumptions C16_mirror_uninitialized_iff.

Theorem C16_mirror_load_returns_latest_save : forall ops vh vr ch cr,
  last_mset ops None = Some (vh, vr, ch, cr) -> vh <> 0 ->
  snd (mstep (run mstep minit ops) MGet) = MVal vh vr ch cr.
Proof. exact mirror_load_returns_latest_save. Qed.
Print Assumptions C16_mirror_load_returns_latest_save.

Theorem C16_sm_answers_by_contract : forall ops,
  s_mon (trace sstep sinit ops) = 0 /\
  forall o, snd (sstep (run sstep sinit ops) o) = s_expected (rev (trace sstep sinit ops)) o.
Proof. exact (fun ops => conj (proj1 (sm_refines ops)) (sm_answers_by_contract ops)). Qed.
Print Assumptions C16_sm_answers_by_contract.

Theorem C16_sm_uninitialized_iff : forall ops,
  snd (sstep (run sstep sinit ops) SGet) = SErr EUninitialized <->
  match last_sset ops None with Some (h, _) => h = 0 | None => True end.
Proof. exact sm_uninitialized_iff. Qed.
Print Assumptions C16_sm_uninitialized_iff.

Theorem C16_sm_load_returns_latest_save : forall ops h r,
  last_sset ops None = Some (h, r) -> h <> 0 ->
  snd (sstep (run sstep sinit ops) SGet) = SVal h r.
Proof. exact sm_load_returns_latest_save. Qed.
Print Assumptions C16_sm_load_returns_latest_save.

(** * Validator store - for EVERY hash scheme (hk, hp), nothing assumed about it *)
Theorem C16_validator_answers_by_contract : forall hk hp ops,
  v_mon hk hp (trace (vstep hk hp) vinit ops) = 0 /\
  forall o, snd (vstep hk hp (run (vstep hk hp) vinit ops) o) =
            v_expected hk hp (rev (trace (vstep hk hp) vinit ops)) o.
Proof. exact (fun hk hp ops => conj (proj1 (val_refines hk hp ops)) (val_answers_by_contract hk hp ops)). Qed.
Print Assumptions C16_validator_answers_by_contract.

Theorem C16_validator_load_sound : forall hk hp ops h ks,
  snd (vstep hk hp (run (vstep hk hp) vinit ops) (VLoadKeys h)) = VKeys ks ->
  hk ks = HOk h /\ In (VSaveKeys ks) ops.
Proof. exact validator_load_sound. Qed.
Print Assumptions C16_validator_load_sound.

Theorem C16_validator_load_exact_keys : forall hk hp ops ks h,
  In (VSaveKeys ks) ops -> hk ks = HOk h ->
  (forall ks', In (VSaveKeys ks') ops -> hk ks' = HOk h -> ks' = ks) ->
  snd (vstep hk hp (run (vstep hk hp) vinit ops) (VLoadKeys h)) = VKeys ks.
Proof. exact validator_load_exact_keys. Qed.
Print Assumptions C16_validator_load_exact_keys.

Theorem C16_validator_load_exact_pows : forall hk hp ops ps h,
  In (VSavePows ps) ops -> hp ps = HOk h ->
  (forall ps', In (VSavePows ps') ops -> hp ps' = HOk h -> ps' = ps) ->
  snd (vstep hk hp (run (vstep hk hp) vinit ops) (VLoadPows h)) = VPows ps.
Proof. exact validator_load_exact_pows. Qed.
Print Assumptions C16_validator_load_exact_pows.

Theorem C16_validator_not_found_iff : forall hk hp ops h,
  snd (vstep hk hp (run (vstep hk hp) vinit ops) (VLoadKeys h)) = VFail (ENoHash (Some h) None) <->
  (forall ks, In (VSaveKeys ks) ops -> hk ks <> HOk h).
Proof. exact validator_not_found_iff. Qed.
Print Assumptions C16_validator_not_found_iff.

(** * Round store *)
Theorem C16_round_answers_by_contract : forall ops,
  r_mon (trace rstep rinit ops) = 0 /\
  forall o, snd (rstep (run rstep rinit ops) o) = r_expected (rev (trace rstep rinit ops)) o.
Proof. exact (fun ops => conj (proj1 (round_refines ops)) (round_answers_by_contract ops)). Qed.
Print Assumptions C16_round_answers_by_contract.

Theorem C16_round_store_load_spec : forall ops h r,
  let hist := rev (trace rstep rinit ops) in
  snd (rstep (run rstep rinit ops) (RLoad h r)) =
  match filter (ph_at h r) (r_phs hist) ++ replayed_for h (r_rep hist) (r_pc h r hist) with
  | [] => if ssc_nilmap (r_pv h r hist) && ssc_nilmap (r_pc h r hist)
          then RUnknown (r_pv h r hist) (r_pc h r hist) h r
          else RLoaded [] (r_pv h r hist) (r_pc h r hist)
  | phs => RLoaded phs (r_pv h r hist) (r_pc h r hist)
  end.
Proof. exact round_store_load_spec. Qed.
Print Assumptions C16_round_store_load_spec.

Theorem C16_round_no_duplicate_proposals : forall ops, no_dup_phs (rs_phs (run rstep rinit ops)) = true.
Proof. exact round_no_duplicate_proposals. Qed.
Print Assumptions C16_round_no_duplicate_proposals.

(** * Action store *)
Theorem C16_action_load_returns_latest_saves : forall ops h r,
  snd (astep (run astep ainit ops) (ALoad h r)) =
  match a_view (h, r) (rev (trace astep ainit ops)) with
  | Some v => ALoaded v
  | None => AErr (ERoundUnknown h r)
  end.
Proof. exact action_load_returns_latest_saves. Qed.
Print Assumptions C16_action_load_returns_latest_saves.

Theorem C16_action_refusal_keeps_state : forall s o, snd (astep s o) <> AOk -> fst (astep s o) = s.
Proof. exact action_refusal_keeps_state. Qed.
Print Assumptions C16_action_refusal_keeps_state.

Theorem C16_action_double_action_refused : forall s x,
  (forall p, aget s (ph_h p) (ph_r p) = Some x -> ph_h (ra_ph x) <> 0 ->
             astep s (ASavePH p) = (s, AErr (EDoubleAction KProposal))) /\
  (forall k h r bh sig, aget s h r = Some x -> ra_pvs x <> [] ->
             astep s (ASavePV k h r bh sig) = (s, AErr (EDoubleAction KPrevote))) /\
  (forall k h r bh sig, aget s h r = Some x -> ra_pcs x <> [] ->
             astep s (ASavePC k h r bh sig) = (s, AErr (EDoubleAction KPrecommit))).
Proof.
  exact (fun s x => conj (fun p => action_double_proposal_refused s p x)
        (conj (fun k h r bh sig => action_double_prevote_refused s k h r bh sig x)
              (fun k h r bh sig => action_double_precommit_refused s k h r bh sig x))).
Qed.
Print Assumptions C16_action_double_action_refused.

Theorem C16_action_key_change_refused : forall s h r bh sig x want got,
  aget s h r = Some x -> ra_key x = Some want -> got <> want ->
  (ra_pvs x = [] -> astep s (ASavePV (Some got) h r bh sig) = (s, AErr (EPubKeyChanged KPrevote want got))) /\
  (ra_pcs x = [] -> astep s (ASavePC (Some got) h r bh sig) = (s, AErr (EPubKeyChanged KPrecommit want got))).
Proof. exact action_key_change_refused. Qed.
Print Assumptions C16_action_key_change_refused.

(** FULL statement (false of the faithful model, hence of the code):
      forall ops, a_mon (trace astep ainit ops) = 0
    i.e. every call is answered as the full contract requires: at most one accepted
    proposal, prevote and precommit per height/round, all under the key of the first
    accepted action.  Refuted by four witnesses (monitor value = 100*index + class),
    each a recorded finding replayed on the real store on every run. *)
Theorem C16_action_contract_full_refuted :
  a_mon (trace astep ainit w_empty_sig) = 104 /\
  a_mon (trace astep ainit w_height0) = 103 /\
  a_mon (trace astep ainit w_proposal_key) = 105 /\
  a_mon (trace astep ainit w_nil_key) = 102.
Proof. exact action_contract_full_refuted. Qed.
Print Assumptions C16_action_contract_full_refuted.

(** The same statement under exactly the guard that excludes the four classes: non-nil
    keys, proposals for height > 0, non-empty signatures, proposal key = vote key. *)
Theorem C16_action_contract_partial : forall ops,
  a_guards (trace astep ainit ops) = true -> a_mon (trace astep ainit ops) = 0.
Proof. exact action_contract_partial. Qed.
Print Assumptions C16_action_contract_partial.

(** model_satisfies_monitor, action store, all op sequences: the model never departs from
    the full contract while the calls so far satisfy the guard. *)
Theorem C16_action_model_never_diverges_in_guard : forall ops,
  a_div_in_guard 0 [] (trace astep ainit ops) true = None.
Proof. exact action_model_never_diverges_in_guard. Qed.
Print Assumptions C16_action_model_never_diverges_in_guard.

Theorem C16_action_single_prevote : forall ops1 ops2 k h r bh sig k' bh' sig',
  guarded_ops (ops1 ++ ASavePV k h r bh sig :: ops2 ++ [ASavePV k' h r bh' sig']) ->
  snd (astep (run astep ainit ops1) (ASavePV k h r bh sig)) = AOk ->
  let s := run astep ainit (ops1 ++ ASavePV k h r bh sig :: ops2) in
  astep s (ASavePV k' h r bh' sig') = (s, AErr (EDoubleAction KPrevote)).
Proof. exact action_single_prevote. Qed.
Print Assumptions C16_action_single_prevote.

(** * Soundness of the linearizability monitor used on recorded concurrent histories
    (any store: [step], [out_eqb] are parameters): acceptance exhibits a sequential
    witness - a permutation of the history that respects real-time order and on which
    the model returns exactly the recorded results. *)
Theorem C16_linearizability_monitor_sound :
  forall (St Op Out : Type) (step : St -> Op -> St * Out) (out_eqb : Out -> Out -> bool) s h,
  linearizable step out_eqb s h = true ->
  exists l, Permutation l h /\ rt_ok l = true /\ seq_ok step out_eqb s l.
Proof. exact (fun St Op Out step out_eqb => linearizable_sound step out_eqb). Qed.
Print Assumptions C16_linearizability_monitor_sound.
