(** C03 - Correct nodes never finalize different blocks at the same height.
    Only statements closed by [exact] plus [Print Assumptions].

    Setting (Model/Network.v, Proofs/Network.v): [vals h] / [byz h] = the weighted validator set of
    height h and the bit set of its Byzantine members, [valset_ok] = 1 <= total < 2^64 and
    pow(byz) < ByzantineMinority(total); [V] = the votes ever signed; a node is driven by an arbitrary
    event list (deliveries in any order, with duplicates, of any subset of V and of arbitrary votes
    carrying Byzantine indices; finalize attempts; entrances; restarts) and [run] refuses exactly the
    events the engine never performs (finalize without a held precommit quorum / twice per height,
    entering a height other than the next one or before finalizing).
    Hypotheses and who discharges them (design/C03.md):
      [valset_ok]  C07 (validator-set chain: all correct nodes use the same set at a height) + the
                   property's own "> 2/3 of the power is correct";
      [A1]         C02 one_signature_per_kind_per_round;
      [A2],[A3]    the property's "lock-respecting consensus strategy" (DecidePrecommit /
                   ConsiderProposedBlocks+ChooseProposedBlock);
      [authentic]  C05 views_and_stores_authentic (only signature-verified votes are counted);
      guards of [run]: C01 commit_needs_certificate / C08 finalize_needs_quorum,
                   C08 entrances_strictly_increase, next_height_after_finalization_stored. *)
From Coq Require Import List NArith.
From GV Require Import Base.Ints Gen.Math Gen.Commit Proofs.Thresholds Model.Network Monitors.C03m Proofs.Network Proofs.CommitLadder.
Import ListNotations.
Local Open Scope N_scope.

Theorem C03_one_block_per_round : forall vals byz V k h r b b',
  valset_ok (vals h) (byz h) -> A1 byz V ->
  bquorumb (vals h) (byz h) V k h r b = true ->
  bquorumb (vals h) (byz h) V k h r b' = true -> b = b'.
Proof. exact one_block_per_round. Qed.
Print Assumptions C03_one_block_per_round.

Theorem C03_lock_invariant : forall vals byz V h r0 b,
  valset_ok (vals h) (byz h) -> A1 byz V -> A2 vals byz V -> A3 vals byz V ->
  b <> 0 -> bquorumb (vals h) (byz h) V Precommit h r0 b = true ->
  forall (n : nat) r b', (N.to_nat r < n)%nat -> r0 <= r -> b' <> 0 ->
    bquorumb (vals h) (byz h) V Prevote h r b' = true -> b' = b.
Proof. exact lock_invariant. Qed.
Print Assumptions C03_lock_invariant.

Theorem C03_agreement_quorums : forall vals byz V h r1 b1 r2 b2,
  valset_ok (vals h) (byz h) -> A1 byz V -> A2 vals byz V -> A3 vals byz V ->
  b1 <> 0 -> b2 <> 0 ->
  bquorumb (vals h) (byz h) V Precommit h r1 b1 = true ->
  bquorumb (vals h) (byz h) V Precommit h r2 b2 = true -> b1 = b2.
Proof. exact agreement_quorums. Qed.
Print Assumptions C03_agreement_quorums.

Theorem C03_finalize_needs_quorum : forall vals byz V h0 tr n,
  authentic byz V tr -> run vals (init_node h0) tr = Some n ->
  forall h b, In (h, b) (stream_of n) ->
    b <> 0 /\ exists r, bquorumb (vals h) (byz h) V Precommit h r b = true.
Proof. exact finalize_needs_quorum. Qed.
Print Assumptions C03_finalize_needs_quorum.

(** Agreement: two nodes (or one node with itself, also across restarts) never finalize different
    blocks at a height - for every schedule of deliveries, timeouts (rounds), Byzantine injections
    and restarts. *)
Theorem C03_agreement : forall vals byz V h0 h0' tr1 tr2 n1 n2 h b1 b2,
  valset_ok (vals h) (byz h) -> A1 byz V -> A2 vals byz V -> A3 vals byz V ->
  authentic byz V tr1 -> authentic byz V tr2 ->
  run vals (init_node h0) tr1 = Some n1 -> run vals (init_node h0') tr2 = Some n2 ->
  In (h, b1) (stream_of n1) -> In (h, b2) (stream_of n2) -> b1 = b2.
Proof. exact agreement. Qed.
Print Assumptions C03_agreement.

Theorem C03_contiguous_finalization : forall vals h0 tr n,
  run vals (init_node h0) tr = Some n ->
  exists k, map fst (stream_of n) = map (fun i => h0 + N.of_nat i) (seq 0 k).
Proof. exact contiguous_finalization. Qed.
Print Assumptions C03_contiguous_finalization.

Theorem C03_monitor_sound : forall h0 ss, c03_mon h0 ss = true ->
  (forall s1 s2 h b1 b2, In s1 ss -> In s2 ss -> In (h, b1) s1 -> In (h, b2) s2 -> b1 = b2) /\
  (forall s, In s ss -> map fst s = map (fun i => h0 + N.of_nat i) (seq 0 (length s))).
Proof. exact c03_mon_sound. Qed.
Print Assumptions C03_monitor_sound.

Theorem C03_model_satisfies_monitor : forall vals byz V h0 trs ns,
  (forall h, valset_ok (vals h) (byz h)) -> A1 byz V -> A2 vals byz V -> A3 vals byz V ->
  Forall2 (fun tr n => authentic byz V tr /\ run vals (init_node h0) tr = Some n) trs ns ->
  c03_mon h0 (map stream_of ns) = true.
Proof. exact model_satisfies_monitor. Qed.
Print Assumptions C03_model_satisfies_monitor.

(** The executable checkers evaluated by the check on real runs imply the named hypotheses. *)
Theorem C03_checkers_sound : forall vals byz V,
  (a1b byz V = true -> A1 byz V) /\ (a2b vals byz V = true -> A2 vals byz V) /\
  (a3b vals byz V = true -> A3 vals byz V) /\
  (forall tr, authenticb byz V tr = true -> authentic byz V tr) /\
  (forall h, valset_okb (vals h) (byz h) = true -> valset_ok (vals h) (byz h)).
Proof.
  exact (fun vals byz V => conj (a1b_ok byz V) (conj (a2b_ok vals byz V) (conj (a3b_ok vals byz V)
         (conj (authenticb_ok byz V) (fun h => valset_okb_ok (vals h) (byz h)))))).
Qed.
Print Assumptions C03_checkers_sound.

Theorem C03_hypotheses_satisfiable :
  (forall h, valset_ok (ex_vals h) (ex_byz h)) /\
  A1 ex_byz ex_V /\ A2 ex_vals ex_byz ex_V /\ A3 ex_vals ex_byz ex_V /\
  authentic ex_byz ex_V ex_trX /\ authentic ex_byz ex_V ex_trY /\
  (exists nX nY, run ex_vals (init_node 1) ex_trX = Some nX /\
                 run ex_vals (init_node 1) ex_trY = Some nY /\
                 stream_of nX = [(1, 22); (2, 33)] /\ stream_of nY = [(1, 22); (2, 33)]) /\
  (In (pv 1 0 11 3) ex_V /\ In (pv 1 0 22 3) ex_V /\ In (pc 2 0 33 3) ex_V /\ In (pc 2 0 44 3) ex_V) /\
  run ex_vals (init_node 1) [Deliver (pc 1 0 11 0); Deliver (pc 1 0 11 3); Finalize 0 11] = None /\
  run ex_vals (init_node 1) [Enter 2] = None.
Proof. exact hypotheses_satisfiable. Qed.
Print Assumptions C03_hypotheses_satisfiable.

(** Static tie of the commit guards: the decision ladders GENERATED from
    tmstate/statemachine.go:handlePrecommitViewUpdate and tmi/kernel.go:checkVotingPrecommitViewShift
    (Gen/Commit.v) commit exactly on the model's quorum test for a non-nil block. *)
Theorem C03_sm_commit_iff_quorum : forall vals mask tot nil hp hn,
  1 <= total vals -> total vals < two64 -> pow vals mask <= tot ->
  (sm_precommit_ladder (total vals) tot (pow vals mask) nil hp hn = Ok ActBeginCommit <->
   quorumb vals mask = true /\ nil = false).
Proof. exact sm_commit_iff_quorum. Qed.
Print Assumptions C03_sm_commit_iff_quorum.

Theorem C03_sm_prevote_commit_iff_quorum : forall vals mask tot nil hp hn,
  1 <= total vals -> total vals < two64 -> pow vals mask <= tot ->
  (sm_prevote_ladder (total vals) tot (pow vals mask) nil hp hn = Ok ActBeginCommit <->
   quorumb vals mask = true /\ nil = false).
Proof. exact sm_prevote_commit_iff_quorum. Qed.
Print Assumptions C03_sm_prevote_commit_iff_quorum.

Theorem C03_kernel_commit_iff_quorum : forall vals mask tot nil hp hn,
  1 <= total vals -> total vals < two64 ->
  (kernel_precommit_ladder (total vals) tot (pow vals mask) nil hp hn = Ok ActShiftCommit <->
   quorumb vals mask = true /\ nil = false /\ hp = true /\ hn = false).
Proof. exact kernel_commit_iff_quorum. Qed.
Print Assumptions C03_kernel_commit_iff_quorum.

Theorem C03_model_guard_is_code_guard : forall vals n r b tot hp hn,
  1 <= total (vals (n_height n)) -> total (vals (n_height n)) < two64 ->
  pow (vals (n_height n)) (signers (n_held n) Precommit (n_height n) r b) <= tot ->
  ((exists n', step vals n (Finalize r b) = Some n') <->
   (n_done n = false /\
    sm_precommit_ladder (total (vals (n_height n))) tot
      (pow (vals (n_height n)) (signers (n_held n) Precommit (n_height n) r b)) (b =? 0) hp hn
    = Ok ActBeginCommit)).
Proof. exact model_guard_is_code_guard. Qed.
Print Assumptions C03_model_guard_is_code_guard.
