(** C09, kernel part, over the FULL closure the harness exercises - "no configuration, message or
    schedule can crash or wedge the engine": totality of [step] / [xstep] (Model/Mirror.v) and of [mstep]
    (Model/MirrorMgr.v) in every state reached by kernel operations (proposed headers, vote messages,
    replayed headers), crashes after ANY number of store writes of an operation, clean restarts, round
    entrances of the state machine with or without a key, reads of the two view managers, and the local
    validator's own prevote / precommit / proposed header.  A [Panic] result models a Go panic in the
    kernel goroutine (process death).  Statements only; proofs in Proofs/MirrorTotalX.v,
    Proofs/MirrorTotalM.v, Proofs/MirrorTotalXEx.v.

    FULL-STRENGTH STATEMENT: "for every state reached by ANY history of [mstep] and every operation,
    [mstep] returns Ok".  It is false of the model (and of the Go code, whose TODO / BUG panics the model
    mirrors); what is proved is the EXACT set of operations that panic:

      [C09X_mstep_total_partial]: in every state of the admissible closure [mreachable_a], for EVERY
      operation, [mstep] returns [Panic site] when the decidable function [mstep_panic_site] of the state
      and the operation says [Some site], and returns Ok otherwise.  The sites ([named_sites],
      [C09X_panic_sites_are_the_named_ones]) and their guards:
        site_replay_earlier    replay_earlier_guard: a replayed header of the voting height for a round the
                               mirror has left (known finding, C09Kernel)
        site_replay_fuel       replay_fuel_guard: MODEL ONLY, false for a replayed round < 2^32
                               ([C09_kernel_replay_fuel_guard_false]; the round is a uint32 in Go)
        site_enter_not_found   enter_not_found_guard: the state machine enters an orphaned round (a round of
                               the voting height below the voting round, a round of the committing height
                               above the committing round) or a future one (a round of the voting height
                               above the next round, a height above the voting height)
        site_enter_no_header   enter_no_header_guard: the state machine enters a height below the initial
                               height (other than the empty committing view's height 0, round 0): the header
                               store has nothing for it
        site_no_keys, site_nil_key   the local-vote guard of C05Act ([act_vote_panic_guard]), split by site:
                               the entered round is the voting / committing view AND (the view holds no proof
                               for the target and lists no keys | the state machine named no key)
        site_no_action         the state machine's action carries a proposed header with an empty hash
      Each site is reachable ([C09X_*_reachable]).

    What remains of "partial":
      (a) admissibility of the history ([mop_adm]): [xwf] of C10Resume for kernel operations - [op_bounded],
          [step_adm] as in C09Kernel (needed: [C09_kernel_message_panics_refuted]) and the MODEL-ONLY "next
          validator set of an accepted header lists a key" (needed in the model:
          [C09X_restart_total_over_reachable_x_refuted]; in Go non-zero power implies a key);
      (b) [vwf ivs]: the initial validator set additionally lists a key (model only, same reason);
      (c) the boolean side condition [lph_okb] on the state machine's OWN proposed header when the kernel FILES
          it ([act_ph_applies]; a header that is dropped needs nothing) - the kernel files it without any of the
          checks of HandleProposedHeader: known finding local-ph-unchecked.  Needed for
          totality in its components "next set has power" / "own set has power when the header is for the
          voting height" / (model only) "next set lists a key": [C09X_local_ph_side_condition_needed];
          needed for the invariant INV in its component "block hash correct":
          [C05Act_local_ph_keeps_chain_invariant_refuted]; likewise "next set consistent" and "extends the
          committing header": [C09X_local_ph_side_condition_needed_for_chain_invariant] (needed for the
          invariant; necessity for TOTALITY not shown).  "height + 1 < 2^64" is [op_bounded], asked of
          peers' headers as well;
      (d) for the operation delivered LAST nothing is assumed, except that a crash interrupts an operation
          that is admissible for the result it returns ([crash_adm]; a crash in the middle of an
          inadmissible operation may leave stores behind on which NewKernel fails). *)
From Coq Require Import List NArith String.
From GV Require Import Base.Ints Gen.Math Gen.Kernel Model.Mirror Model.MirrorMgr
  Proofs.MirrorChain Proofs.MirrorCert Proofs.MirrorTotal Proofs.MirrorActTotal
  Proofs.MirrorResumeWit Proofs.MirrorResumeInv Proofs.MirrorResumeOps Proofs.MirrorResume
  Proofs.MirrorLog Proofs.MirrorTotalX Proofs.MirrorTotalM Proofs.MirrorTotalK Proofs.MirrorTotalXEx.
Import ListNotations.
Local Open Scope N_scope.

(** * (1) operations, crashes at every write prefix, restarts *)

(** In every state reached by admissible operations, crashes and restarts: every peer message returns Ok; a
    replayed header returns Ok or panics exactly under [replay_earlier_guard]; a clean restart comes up; a
    crash after k store writes of an operation comes up when the operation returns, and when the operation
    panics - which it does only as a replay under that guard - the crash step panics AT THE SAME SITE
    ([xstep s (XCrash k o)] runs [step s o] first: the process died in the handler).
    PARTIAL: closure [reachable_g] (admissibility [wf_op] incl. the model-only key condition) and [vwf ivs]
    instead of [reachable_x] and [vs_ok ivs /\ 0 < sum_pows ...]: see
    [C09X_restart_total_over_reachable_x_refuted]; the interrupted operation is admissible ([wf_op o r]). *)
Theorem C09X_messages_never_panic_after_crashes_partial : forall ih ivs s,
  1 <= ih -> vwf ivs -> reachable_g ih ivs s ->
  (forall o, replay_round_bounded o ->
     match o with
     | OpPH _ | OpPrevote _ | OpPrecommit _ => exists s' r, step s o = Ok (s', r)
     | OpReplay x cp =>
         ((exists s' r, step s o = Ok (s', r)) /\ replay_earlier_guard s x cp = false) \/
         (replay_earlier_guard s x cp = true /\ step s o = Panic site_replay_earlier)
     end) /\
  (exists s', xstep s XRestart = Ok (s', 0) /\ reachable_g ih ivs s') /\
  (forall k o, replay_round_bounded o ->
     match step s o with
     | Ok (s1, r) => wf_op o r -> exists s', xstep s (XCrash k o) = Ok (s', r) /\ reachable_g ih ivs s'
     | Panic site =>
         xstep s (XCrash k o) = Panic site /\ site = site_replay_earlier /\
         exists x cp, o = OpReplay x cp /\ replay_earlier_guard s x cp = true
     end).
Proof. exact messages_never_panic_after_crashes. Qed.
Print Assumptions C09X_messages_never_panic_after_crashes_partial.

(** the same without the uint32 bound on a replayed round: [step_panic_site] names the site
    (site_replay_earlier under replay_earlier_guard, else the model's site_replay_fuel under
    replay_fuel_guard, else none) *)
Theorem C09X_messages_never_panic_after_crashes_any_round_partial : forall ih ivs s,
  1 <= ih -> vwf ivs -> reachable_g ih ivs s ->
  (forall o, match step_panic_site s o with
             | Some site => step s o = Panic site
             | None => exists s' r, step s o = Ok (s', r)
             end) /\
  (exists s', xstep s XRestart = Ok (s', 0) /\ reachable_g ih ivs s') /\
  (forall k o, match step s o with
               | Ok (s1, r) => wf_op o r -> exists s', xstep s (XCrash k o) = Ok (s', r) /\ reachable_g ih ivs s'
               | Panic site => xstep s (XCrash k o) = Panic site /\ step_panic_site s o = Some site
               end).
Proof. exact messages_never_panic_after_crashes_any_round. Qed.
Print Assumptions C09X_messages_never_panic_after_crashes_any_round_partial.

(** over [reachable_x] (admissibility of C09Kernel alone) the restart clause is false IN THE MODEL: a
    committed next validator set with power but without a key (keys and powers are two lists in the model,
    one list of pairs in Go - not replayable) *)
Theorem C09X_restart_total_over_reachable_x_refuted :
  exists ih ivs s site,
    1 <= ih /\ vs_ok ivs = true /\ 0 < sum_pows (vs_pows ivs) /\ vs_keys ivs <> [] /\
    reachable_x ih ivs s /\ xstep s XRestart = Panic site.
Proof. exact restart_total_over_reachable_x_refuted. Qed.
Print Assumptions C09X_restart_total_over_reachable_x_refuted.

Theorem C09X_reachable_g_in_reachable_x : forall ih ivs s, reachable_g ih ivs s -> reachable_x ih ivs s.
Proof. exact reachable_g_x. Qed.
Print Assumptions C09X_reachable_g_in_reachable_x.

(** hypotheses satisfiable: a state after a crash in the middle of a commit *)
Theorem C09X_after_crash_example : vwf ex_vs /\ reachable_g 1 ex_vs MirrorResumeEx.e_s2 /\ st_nhr MirrorResumeEx.e_s2 = (2, 0, 1, 0).
Proof. exact ex_after_crash. Qed.
Print Assumptions C09X_after_crash_example.

(** * (2) the full closure: [mstep] *)

(** the invariants in every state of the admissible closure: INV (chain invariant, authenticity, summaries,
    commit certificates), tinv (every power total the kernel feeds to the thresholds is positive) and the
    store invariant - preserved by entrances and reads (which do not touch the kernel state), by local votes
    (no hypothesis) and by the local proposed header (under [lph_okb]) *)
Theorem C09X_invariants_in_full_closure : forall ih ivs s,
  1 <= ih -> vwf ivs -> mreachable_a ih ivs s ->
  INV ih ivs (ms_k s) /\ tinv (ms_k s) /\ SI ih ivs (stores_of (ms_k s)).
Proof. exact mreachable_a_INV. Qed.
Print Assumptions C09X_invariants_in_full_closure.

(** one local action from any kernel state satisfying K (INV, pok, view / store correspondence, SI) and tinv *)
Theorem C09X_local_action_keeps_invariants : forall ih ivs s h r key a s',
  K ih ivs s -> tinv s -> lact_okb s a = true -> act_step s h r key a = Ok s' -> K ih ivs s' /\ tinv s'.
Proof. exact K_act_step. Qed.
Print Assumptions C09X_local_action_keeps_invariants.

(** THE THEOREM: for every state of the closure and EVERY operation, [mstep] panics exactly where
    [mstep_panic_site] says and returns Ok everywhere else *)
Theorem C09X_mstep_total_partial : forall ih ivs s o,
  1 <= ih -> vwf ivs -> mreachable_a ih ivs s ->
  match mstep_panic_site s o with
  | Some site => mstep s o = Panic site
  | None => crash_adm s o -> exists s' r io, mstep s o = Ok (s', r, io)
  end.
Proof. exact mstep_total. Qed.
Print Assumptions C09X_mstep_total_partial.

(** [mstep_panic_site], unfolded: the guards are boolean functions of the kernel state, the state machine's
    entrance (height, round, key) and the operation *)
Theorem C09X_mstep_panic_site_unfolded : forall s o,
  mstep_panic_site s o =
  match o with
  | MK (XOp o') | MK (XCrash _ o') =>
      match o' with
      | OpReplay x cp =>
          if replay_earlier_guard (ms_k s) x cp then Some site_replay_earlier
          else if replay_fuel_guard (ms_k s) x cp then Some site_replay_fuel
          else None
      | _ => None
      end
  | MK XRestart | MSMRead | MGRead => None
  | MEnter h r | MEnterK h r _ => enter_panic_site (ms_k s) h r
  | MAct (ActPrevote t _) =>
      act_vote_panic_site KPrevote (ms_k s) (smm_h (m_sm (ms_m s))) (smm_r (m_sm (ms_m s))) (smm_key (m_sm (ms_m s))) t
  | MAct (ActPrecommit t _) =>
      act_vote_panic_site KPrecommit (ms_k s) (smm_h (m_sm (ms_m s))) (smm_r (m_sm (ms_m s))) (smm_key (m_sm (ms_m s))) t
  | MAct (ActPH p) => match hd_hash (ph_hdr p) with [] => Some site_no_action | _ :: _ => None end
  end.
Proof. exact mstep_panic_site_unfolded. Qed.
Print Assumptions C09X_mstep_panic_site_unfolded.

(** the round-entrance guard on the positions (voting height/round, committing height/round, initial
    height), in every state satisfying the chain invariant *)
Theorem C09X_enter_guard_exact : forall ih ivs k h r, cinv ih ivs k ->
  enter_panic_site k h r =
  if enter_not_found_guard k h r then Some site_enter_not_found
  else if enter_no_header_guard k h r then Some site_enter_no_header
  else None.
Proof. exact enter_panic_site_explicit. Qed.
Print Assumptions C09X_enter_guard_exact.

(** the entrance guard is exact in EVERY state (no invariant needed) *)
Theorem C09X_enter_site_exact : forall s h r key,
  match enter_panic_site (ms_k s) h r with
  | Some site => mstep s (MEnterK h r key) = Panic site /\ mstep s (MEnter h r) = Panic site
  | None => (exists s' io, mstep s (MEnterK h r key) = Ok (s', 0, io)) /\
            (exists s' io, mstep s (MEnter h r) = Ok (s', 0, io))
  end.
Proof. exact enter_site_exact. Qed.
Print Assumptions C09X_enter_site_exact.

(** the local-vote sites refine the guard of C05Act *)
Theorem C09X_local_vote_site_refines_guard : forall kind s h r key target,
  act_vote_panic_guard kind s h r key target =
  match act_vote_panic_site kind s h r key target with Some _ => true | None => false end.
Proof. exact act_vote_panic_site_guard. Qed.
Print Assumptions C09X_local_vote_site_refines_guard.

(** no other site is ever named *)
Theorem C09X_panic_sites_are_the_named_ones : forall s o site,
  mstep_panic_site s o = Some site ->
  In site [site_replay_earlier; site_replay_fuel; site_enter_not_found; site_enter_no_header;
           site_no_keys; site_nil_key; site_no_action].
Proof. exact mstep_panic_site_named. Qed.
Print Assumptions C09X_panic_sites_are_the_named_ones.

(** the same in any state whose kernel state satisfies the invariants, however it was reached *)
Theorem C09X_mstep_total_in_good_states : forall ih ivs s o,
  1 <= ih -> vwf ivs -> K ih ivs (ms_k s) -> tinv (ms_k s) ->
  match mstep_panic_site s o with
  | Some site => mstep s o = Panic site
  | None => crash_adm s o -> exists s' r io, mstep s o = Ok (s', r, io)
  end.
Proof. exact mstep_total_K. Qed.
Print Assumptions C09X_mstep_total_in_good_states.

(** Ok, or one of the named sites - nothing else *)
Theorem C09X_mstep_ok_or_named_site_partial : forall ih ivs s o,
  1 <= ih -> vwf ivs -> mreachable_a ih ivs s -> crash_adm s o ->
  (mstep_panic_site s o = None /\ exists s' r io, mstep s o = Ok (s', r, io)) \/
  (exists site, mstep_panic_site s o = Some site /\ mstep s o = Panic site /\
     In site [site_replay_earlier; site_replay_fuel; site_enter_not_found; site_enter_no_header;
              site_no_keys; site_nil_key; site_no_action]).
Proof. exact mstep_ok_or_named_site. Qed.
Print Assumptions C09X_mstep_ok_or_named_site_partial.

(** the closure of C10Resume is contained *)
Theorem C09X_closure_extends_reachable_g : forall ih ivs k,
  reachable_g ih ivs k -> exists s, mreachable_a ih ivs s /\ ms_k s = k.
Proof. exact reachable_g_mreachable_a. Qed.
Print Assumptions C09X_closure_extends_reachable_g.

(** * (3) which operations leave the kernel state unchanged *)

(** entrances and reads: always (and they return result code 0) *)
Theorem C09X_reads_and_entrances_keep_kernel_state : forall s o s' r io,
  match o with MEnter _ _ | MEnterK _ _ _ | MSMRead | MGRead => True | MK _ | MAct _ => False end ->
  mstep s o = Ok (s', r, io) -> ms_k s' = ms_k s /\ r = 0.
Proof. exact reads_and_entrances_keep_kernel_state. Qed.
Print Assumptions C09X_reads_and_entrances_keep_kernel_state.

(** the exact characterisation: every other operation changes the kernel state through [xstep] /
    [act_step] and through nothing else *)
Theorem C09X_kernel_state_after_mstep : forall s o s' r io, mstep s o = Ok (s', r, io) ->
  match o with
  | MK x => xstep (ms_k s) x = Ok (ms_k s', r)
  | MAct a => act_step (ms_k s) (smm_h (m_sm (ms_m s))) (smm_r (m_sm (ms_m s))) (smm_key (m_sm (ms_m s))) a = Ok (ms_k s')
  | _ => ms_k s' = ms_k s
  end.
Proof. exact mstep_kernel_exact. Qed.
Print Assumptions C09X_kernel_state_after_mstep.

(** a local action that returns Ok either is DROPPED - the kernel state is exactly what it was - or issues at
    least one store write ([wrote s s' := exists w ws, st_log s' = st_log s ++ w :: ws], so [s' <> s]); which
    of the two is the boolean [lact_applies]: a vote is applied iff the entered round is the voting or the
    committing view, the state machine's key is in that view's validator set and the signature verifies under
    it; a proposed header iff its (height, round) is one of the three views and that view holds no header
    with the same signature *)
Theorem C09X_local_action_changes_kernel_state_iff_applied : forall s h r key a s',
  act_step s h r key a = Ok s' ->
  if lact_applies s h r key a then wrote s s' /\ s' <> s else s' = s.
Proof. exact local_action_changes_iff_applied. Qed.
Print Assumptions C09X_local_action_changes_kernel_state_iff_applied.

(** a kernel message that returns Ok only ever appends store writes (possibly none) *)
Theorem C09X_message_only_appends_writes : forall s o s' res,
  step s o = Ok (s', res) ->
  exists ws, st_log s' = st_log s ++ ws /\ stores_of s' = fold_left apply_wr ws (stores_of s).
Proof. exact message_effect. Qed.
Print Assumptions C09X_message_only_appends_writes.

(** * (4) examples *)

(** the hypotheses of [C09X_mstep_total_partial] hold on a history with a proposed header, an entrance with a
    key, the local prevote and the local precommit (which commits the block), a crash in the middle of an
    operation, a restart, another entrance with the key, a local proposed header that is dropped (and need not satisfy anything), the
    local validator's own proposed header (filed in the voting view), two reads *)
Theorem C09X_hypotheses_satisfiable :
  vwf ex_vs /\ mreachable_a 1 ex_vs x_state /\
  st_nhr (ms_k x_state) = (2, 1, 1, 0) /\ List.length (st_hdrs (ms_k x_state)) = 1%nat /\
  v_phs (k_vot (ms_k x_state)) = [x_ph2] /\
  smm_key (m_sm (ms_m x_state)) = Some 7.
Proof. exact x_state_reachable. Qed.
Print Assumptions C09X_hypotheses_satisfiable.

(** ... and the local precommit for that local header then commits height 2 (the Ok branch is inhabited) *)
Theorem C09X_hypotheses_satisfiable_continued :
  mstep_panic_site x_state (MActPrecommit [8] (SVote 7 KPrecommit 2 1 [8])) = None /\
  exists s', mstep x_state (MActPrecommit [8] (SVote 7 KPrecommit 2 1 [8])) = Ok (s', 0, IONone) /\
             st_nhr (ms_k s') = (3, 0, 2, 1).
Proof. exact x_state_continues. Qed.
Print Assumptions C09X_hypotheses_satisfiable_continued.

Theorem C09X_replay_earlier_reachable :
  mreachable_a 1 ex_vs p_round1 /\
  mstep_panic_site p_round1 (MK (XOp (OpReplay (ex_hdr ex_vs ex_vs) (mk_cproof 0 [1] [])))) = Some site_replay_earlier /\
  mstep p_round1 (MK (XOp (OpReplay (ex_hdr ex_vs ex_vs) (mk_cproof 0 [1] [])))) = Panic site_replay_earlier /\
  mstep p_round1 (MK (XCrash 1 (OpReplay (ex_hdr ex_vs ex_vs) (mk_cproof 0 [1] [])))) = Panic site_replay_earlier.
Proof. exact site_replay_earlier_reachable. Qed.
Print Assumptions C09X_replay_earlier_reachable.

Theorem C09X_replay_fuel_reachable_model_only :
  mstep (ms_init 1 ex_vs) (MK (XOp (OpReplay (ex_hdr ex_vs ex_vs) (mk_cproof two32 [1] [])))) = Panic site_replay_fuel.
Proof. exact site_replay_fuel_reachable. Qed.
Print Assumptions C09X_replay_fuel_reachable_model_only.

Theorem C09X_enter_not_found_reachable :
  mreachable_a 1 ex_vs p_round1 /\
  mstep_panic_site p_round1 (MEnter 1 0) = Some site_enter_not_found /\
  mstep p_round1 (MEnter 1 0) = Panic site_enter_not_found /\
  mstep p_round1 (MEnterK 1 3 (Some 7)) = Panic site_enter_not_found /\
  mstep (ms_init 1 ex_vs) (MEnter 2 0) = Panic site_enter_not_found /\
  enter_not_found_guard (ms_k p_round1) 1 0 = true.
Proof. exact site_enter_not_found_reachable. Qed.
Print Assumptions C09X_enter_not_found_reachable.

Theorem C09X_enter_no_header_reachable :
  mreachable_a 2 ex_vs (ms_init 2 ex_vs) /\
  mstep_panic_site (ms_init 2 ex_vs) (MEnter 1 0) = Some site_enter_no_header /\
  mstep (ms_init 2 ex_vs) (MEnter 1 0) = Panic site_enter_no_header /\
  enter_no_header_guard (ms_k (ms_init 2 ex_vs)) 1 0 = true.
Proof. exact site_enter_no_header_reachable. Qed.
Print Assumptions C09X_enter_no_header_reachable.

Theorem C09X_local_vote_nil_key_reachable :
  mreachable_a 1 ex_vs p_entered_nokey /\
  mstep_panic_site p_entered_nokey (MActPrevote [9] (SVote 7 KPrevote 1 0 [9])) = Some site_nil_key /\
  mstep p_entered_nokey (MActPrevote [9] (SVote 7 KPrevote 1 0 [9])) = Panic site_nil_key.
Proof. exact site_nil_key_reachable. Qed.
Print Assumptions C09X_local_vote_nil_key_reachable.

Theorem C09X_local_vote_no_keys_reachable :
  mreachable_a 1 ex_vs (ms_init 1 ex_vs) /\
  mstep_panic_site (ms_init 1 ex_vs) (MActPrevote [9] (SVote 7 KPrevote 0 0 [9])) = Some site_no_keys /\
  mstep (ms_init 1 ex_vs) (MActPrevote [9] (SVote 7 KPrevote 0 0 [9])) = Panic site_no_keys.
Proof. exact site_no_keys_reachable. Qed.
Print Assumptions C09X_local_vote_no_keys_reachable.

Theorem C09X_no_action_reachable :
  mstep_panic_site (ms_init 1 ex_vs) (MActPH (mk_ph (mk_hdr [] true 1 [] empty_cproof ex_vs ex_vs) 0 (Some 7) (SJunk 0) [])) = Some site_no_action /\
  mstep (ms_init 1 ex_vs) (MActPH (mk_ph (mk_hdr [] true 1 [] empty_cproof ex_vs ex_vs) 0 (Some 7) (SJunk 0) [])) = Panic site_no_action.
Proof. exact site_no_action_reachable. Qed.
Print Assumptions C09X_no_action_reachable.

(** the side condition on the state machine's own proposed header cannot be dropped: in the closure without
    it ([mreachable_0]) a later operation panics at a site that is none of the named ones -
    (a) next validator set of power 0, committed by the local precommit: a nil precommit for height 2 dies in
        ByzantineMajority(0);
    (b) OWN validator set of power 0 (never compared with the view's set for a LOCAL header), committed: a
        peer's admissible proposed header for height 2 dies in ByzantineMajority(0) in the
        previous-commit-proof check;
    (c) MODEL ONLY: next validator set without a key, committed: NewKernel fails. *)
Theorem C09X_local_ph_side_condition_needed :
  (exists s o site, mreachable_0 1 ex_vs s /\ (exists m, o = MK (XOp (OpPrecommit m))) /\
     mstep_panic_site s o = None /\ mstep s o = Panic site /\ ~ In site named_sites) /\
  (exists s o site, mreachable_0 1 ex_vs s /\ (exists p, o = MK (XOp (OpPH p)) /\ wf_op_b (OpPH p) = true) /\
     mstep_panic_site s o = None /\ mstep s o = Panic site /\ ~ In site named_sites) /\
  (exists s site, mreachable_0 1 ex_vs s /\
     mstep_panic_site s (MK XRestart) = None /\ mstep s (MK XRestart) = Panic site /\ ~ In site named_sites).
Proof. exact local_ph_side_condition_needed. Qed.
Print Assumptions C09X_local_ph_side_condition_needed.

(** the other components of the side condition (block hash correct, next validator set consistent, extends the
    committing header) are what the chain invariant says of each proposal the voting view holds: a local header
    violating one of them enters the voting view and falsifies [cinv] (part of INV, which every totality proof
    uses).  Not shown: that such a header can make a later operation panic. *)
Theorem C09X_local_ph_side_condition_needed_for_chain_invariant :
  (exists s p, mreachable_0 1 ex_vs s /\ In p (v_phs (k_vot (ms_k s))) /\
     hd_ok (ph_hdr p) = false /\ ~ cinv 1 ex_vs (ms_k s)) /\
  (exists s p, mreachable_0 1 ex_vs s /\ In p (v_phs (k_vot (ms_k s))) /\
     vs_ok (hd_next (ph_hdr p)) = false /\ ~ cinv 1 ex_vs (ms_k s)) /\
  (exists s p ch, mreachable_0 1 ex_vs s /\ In p (v_phs (k_vot (ms_k s))) /\
     k_chdr (ms_k s) = Some ch /\ hd_height (ph_hdr p) = 2 /\ hd_prev (ph_hdr p) <> hd_hash ch /\
     ~ cinv 1 ex_vs (ms_k s)).
Proof. exact local_ph_components_needed_for_cinv. Qed.
Print Assumptions C09X_local_ph_side_condition_needed_for_chain_invariant.
