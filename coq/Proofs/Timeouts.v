(** C12 - the production timeout strategy (tm/tmengine/timeoutstrategy.go, LinearTimeoutStrategy), generated
    as Gen/Timeouts.v with int64 wrap-around: the durations handed to the round timer. *)
From Coq Require Import List NArith ZArith String Bool Lia.
From GV Require Import Base.Ints Base.SInts Gen.Timeouts.
Import ListNotations.
Local Open Scope Z_scope.

Ltac Zify.zify_post_hook ::= Z.div_mod_to_equations.

Lemma swrap64_id z : - two63 <= z < two63 -> swrap64 z = z.
Proof. unfold swrap64, two63, two64z. intros H. lia. Qed.

Lemma swrap64_range z : - two63 <= swrap64 z < two63.
Proof. unfold swrap64, two63, two64z. lia. Qed.

(** a zero field means "use the default" *)
Definition eff (v d : Z) : Z := if Z.eqb v 0 then d else v.
(** base + Duration(round) * increment in int64 arithmetic *)
Definition lin (b i : Z) (r : N) : Z := swrap64 (b + swrap64 (swrap64 (Z.of_N r) * i)).

Definition sec5 : Z := 5000000000.
Definition sec2 : Z := 2000000000.
Definition ms500 : Z := 500000000.

Lemma consts : swrap64 (5 * Second) = sec5 /\ swrap64 (2 * Second) = sec2 /\ swrap64 (500 * Millisecond) = ms500.
Proof. vm_compute. auto. Qed.

Theorem proposal_timeout_spec s r :
  proposal_timeout s r = Ok (lin (eff (lts_ProposalBase s) sec5) (eff (lts_ProposalIncrement s) ms500) r).
Proof.
  unfold proposal_timeout, eff, lin. destruct consts as (C5 & _ & C500). rewrite C5, C500.
  destruct (Z.eqb (lts_ProposalBase s) 0); destruct (Z.eqb (lts_ProposalIncrement s) 0); reflexivity.
Qed.

Theorem prevote_delay_timeout_spec s r :
  prevote_delay_timeout s r = Ok (lin (eff (lts_PrevoteDelayBase s) sec5) (eff (lts_PrevoteDelayIncrement s) ms500) r).
Proof.
  unfold prevote_delay_timeout, eff, lin. destruct consts as (C5 & _ & C500). rewrite C5, C500.
  destruct (Z.eqb (lts_PrevoteDelayBase s) 0); destruct (Z.eqb (lts_PrevoteDelayIncrement s) 0); reflexivity.
Qed.

Theorem precommit_delay_timeout_spec s r :
  precommit_delay_timeout s r = Ok (lin (eff (lts_PrecommitDelayBase s) sec5) (eff (lts_PrecommitDelayIncrement s) ms500) r).
Proof.
  unfold precommit_delay_timeout, eff, lin. destruct consts as (C5 & _ & C500). rewrite C5, C500.
  destruct (Z.eqb (lts_PrecommitDelayBase s) 0); destruct (Z.eqb (lts_PrecommitDelayIncrement s) 0); reflexivity.
Qed.

Theorem commit_wait_timeout_spec s r :
  commit_wait_timeout s r = Ok (lin (eff (lts_CommitWaitBase s) sec2) (eff (lts_CommitWaitIncrement s) ms500) r).
Proof.
  unfold commit_wait_timeout, eff, lin. destruct consts as (_ & C2 & C500). rewrite C2, C500.
  destruct (Z.eqb (lts_CommitWaitBase s) 0); destruct (Z.eqb (lts_CommitWaitIncrement s) 0); reflexivity.
Qed.

(** No wrap: for a non-negative base and increment whose largest value (round 2^32-1) fits int64, the
    duration is the exact linear function of the round. *)
Theorem lin_exact b i r :
  0 <= b -> 0 <= i -> (Z.of_N r < 4294967296) -> b + 4294967295 * i < two63 ->
  lin b i r = b + Z.of_N r * i.
Proof.
  intros Hb Hi Hr Hmax. unfold lin.
  assert (Hr0 : 0 <= Z.of_N r) by lia.
  rewrite (swrap64_id (Z.of_N r)) by (unfold two63; lia).
  assert (Hp : 0 <= Z.of_N r * i <= 4294967295 * i) by nia.
  rewrite (swrap64_id (Z.of_N r * i)) by (unfold two63 in *; lia).
  apply swrap64_id. unfold two63 in *. lia.
Qed.

Definition zero_lts : lts := mk_lts 0 0 0 0 0 0 0 0.

(** The defaults (every field zero), for EVERY round a uint32 can hold: exact, positive, no wrap. *)
Theorem default_timeouts_exact r : Z.of_N r < 4294967296 ->
  proposal_timeout zero_lts r = Ok (sec5 + Z.of_N r * ms500) /\
  prevote_delay_timeout zero_lts r = Ok (sec5 + Z.of_N r * ms500) /\
  precommit_delay_timeout zero_lts r = Ok (sec5 + Z.of_N r * ms500) /\
  commit_wait_timeout zero_lts r = Ok (sec2 + Z.of_N r * ms500) /\
  0 < sec2 + Z.of_N r * ms500 /\ sec5 + Z.of_N r * ms500 < two63.
Proof.
  intros Hr.
  rewrite proposal_timeout_spec, prevote_delay_timeout_spec, precommit_delay_timeout_spec, commit_wait_timeout_spec.
  cbn [zero_lts lts_ProposalBase lts_ProposalIncrement lts_PrevoteDelayBase lts_PrevoteDelayIncrement
       lts_PrecommitDelayBase lts_PrecommitDelayIncrement lts_CommitWaitBase lts_CommitWaitIncrement eff Z.eqb].
  rewrite (lin_exact sec5 ms500 r), (lin_exact sec2 ms500 r); unfold sec5, sec2, ms500, two63 in *; try lia.
  repeat split; lia.
Qed.

(** Positive and strictly increasing in the round whenever nothing wraps: a later round never waits less. *)
Theorem lin_positive_monotone b i r r' :
  0 < b -> 0 < i -> b + 4294967295 * i < two63 ->
  Z.of_N r < Z.of_N r' -> Z.of_N r' < 4294967296 ->
  0 < lin b i r /\ lin b i r < lin b i r'.
Proof.
  intros Hb Hi Hmax Hlt Hr'.
  rewrite (lin_exact b i r), (lin_exact b i r') by lia. nia.
Qed.

(** The no-wrap guard is necessary: a configured increment of 2^33 ns/round... is fine, but one of 2^62
    makes round 2 wait a NEGATIVE duration (time.NewTimer then fires at once).  The strategy does not validate
    its fields; this is outside C12's statement (no timer fails or doubles), recorded as an observation. *)
Theorem lin_wraps_without_guard :
  exists s r, Z.of_N r < 4294967296 /\ 0 < lts_ProposalBase s /\ 0 < lts_ProposalIncrement s /\
    exists d, proposal_timeout s r = Ok d /\ d < 0.
Proof.
  exists (mk_lts 1 4611686018427387904 0 0 0 0 0 0), 2%N.
  split; [vm_compute; reflexivity|]. split; [reflexivity|]. split; [reflexivity|].
  eexists. split; [vm_compute; reflexivity|]. vm_compute. reflexivity.
Qed.
