(** C02 over ALL event histories of the round state machine model: the PROPOSAL variants of the
    emission theorems (Proofs/SMInvActs.v does prevotes and precommits).
    An emitted proposed header (OEmitPH h r d) is either fresh - the strategy's proposal, signed and saved
    (result 0) in the same event, the action store had none for (h, r) - or the re-sending, at start-up, of
    the proposal the action store holds for (h, r). Hence all proposals ever emitted for one
    (height, round), restarts included, carry the same block data. *)
From Coq Require Import List NArith String Bool Lia.
From GV Require Import Base.Ints Gen.Math Gen.StepSM Model.StateMachine Model.SMWire Model.SMWalk Proofs.SMStep Proofs.SMOutputs
  Proofs.SMInv Proofs.SMInvH Proofs.SMInvStep Proofs.SMRel Proofs.SMTheorems Proofs.SMInvActs Proofs.SMWitness
  Proofs.SMOnce Proofs.SMOnceRel Proofs.SMOnceStep Proofs.SMOnceHist.
Import ListNotations.
Local Open Scope N_scope.

Definition is_emit_ph (o : out) : bool := match o with OEmitPH _ _ _ => true | _ => false end.

(** ** [te]: every proposed header emitted is the one the action store [A] holds for (h0, r0) *)
Section PH.
Variables (h0 r0 : N) (A : list (N * N * ra)).

Definition J (s : sm) : Prop :=
  rH (rl s) = h0 /\ rR (rl s) = r0 /\ aStore s = A /\
  (rOut (rl s) = None \/ rOut (rl s) = Some (h0, r0)) /\ (pendAct s = None \/ pendAct s = Some (h0, r0)).
Definition Q (x : out) : Prop :=
  match x with OEmitPH h r d => h = h0 /\ r = r0 /\ ra_ph (getra A h0 r0) = Some d | _ => True end.
Definition te (m : M) : Prop := forall s, J s -> Forall Q (ou (m s)) /\ (fl (m s) = Go -> J (st (m s))).

Lemma te_ret : te ret.
Proof. intros s H. split; [constructor|intros _; exact H]. Qed.
Lemma te_stop f : f <> Go -> te (stop f).
Proof. intros N s H. split; [constructor|]. unfold stop, fl. simpl. congruence. Qed.
Lemma te_say o : Q o -> te (say o).
Proof. intros HQ s H. split; [repeat constructor; exact HQ|intros _; exact H]. Qed.
Lemma te_upd f : (forall s, J s -> J (f s)) -> te (upd f).
Proof. intros Hf s H. split; [constructor|intros _; exact (Hf s H)]. Qed.
Lemma te_updr f : (forall s, J s -> J (set_rl (f (rl s)) s)) -> te (updr f).
Proof. intros Hf s H. split; [constructor|intros _; exact (Hf s H)]. Qed.
Lemma te_bind a b : te a -> te b -> te (a ;; b).
Proof.
  intros Ha Hb s H. unfold te, bindM, st, fl, ou in *. specialize (Ha s H).
  destruct (a s) as [[s1 o1] f1]. simpl in *. destruct Ha as [A1 A2].
  destruct f1; simpl; try (split; [exact A1|intros X; discriminate X]).
  specialize (Hb s1 (A2 eq_refl)). destruct (b s1) as [[s2 o2] f2]. simpl in *. destruct Hb as [B1 B2].
  split; [apply Forall_app; split; assumption|exact B2].
Qed.
Lemma te_withS (k : sm -> M) : (forall s0, J s0 -> te (k s0)) -> te (withS k).
Proof. intros H s Hs. unfold withS. exact (H s Hs s Hs). Qed.
Lemma te_when b m : te m -> te (when b m).
Proof. intros H. destruct b; simpl; [exact H|apply te_ret]. Qed.

Lemma te_advance_round : te advance_round.
Proof.
  intros s _. unfold advance_round, withS, reset, cancel_timer, set_hr, send_entrance, withS, bindM, say, upd, updr, stop, ret, st, fl, ou.
  destruct (rTimer (rl s)) as [[[k h] r]|]; simpl; (split; [repeat constructor|intros X; discriminate X]).
Qed.

Lemma te_cm_request k ro o : Q o -> te (cm_request k ro o).
Proof.
  intros HQ. unfold cm_request. apply te_withS. intros s0 _. destruct (cm s0); [apply te_stop; discriminate|].
  apply te_bind; [apply te_upd; intros s H; exact H|apply te_say; exact HQ].
Qed.

Lemma te_emit_ph d : ra_ph (getra A h0 r0) = Some d -> te (emit (fun eh er => OEmitPH eh er d)).
Proof.
  intros Hd. unfold emit. apply te_withS. intros s0 (_ & _ & _ & [E|E] & _); rewrite E; [apply te_stop; discriminate|].
  apply te_bind; [apply te_say; simpl; auto|apply te_upd; intros s H; exact H].
Qed.

Lemma te_reset : te (reset h0 r0).
Proof.
  intros s (j1 & j2 & j3 & j4 & j5). unfold reset, cancel_timer, withS, bindM, say, upd, updr, ret, st, fl, ou.
  destruct (rTimer (rl s)) as [[[k h] r]|]; simpl; (split; [repeat constructor|intros _; unfold J; simpl; auto]).
Qed.

Ltac jleaf := let s := fresh "s" in let H := fresh "H" in
  intros s H; destruct H as (? & ? & ? & ? & ?); unfold J; fields; repeat split; assumption.

Ltac te_step :=
  lazymatch goal with
  | |- te ret => apply te_ret
  | |- te (stop _) => apply te_stop; discriminate
  | |- te (say _) => apply te_say; exact I
  | |- te (upd _) => apply te_upd; jleaf
  | |- te (updr _) => apply te_updr; jleaf
  | |- te (bindM _ _) => apply te_bind
  | |- te (when _ _) => apply te_when
  | |- te (withS _) => apply te_withS; let s0 := fresh "s0" in let J0 := fresh "J0" in intros s0 J0
  | |- te advance_round => apply te_advance_round
  | |- te (cm_request _ _ _) => apply te_cm_request; exact I
  | |- te (if ?c then _ else _) => destruct c
  | |- te (match ?x with _ => _ end) => destruct x
  end.
Ltac tes := repeat (te_step; cbv beta zeta).

Lemma te_enter_round h r f : f <> Go -> te (enter_round h r f).
Proof. intros Hf. unfold enter_round. tes. apply te_stop. exact Hf. Qed.

Lemma te_begin_round_live v : te (begin_round_live v).
Proof.
  unfold begin_round_live, begin_commit, start_timer, finalize_req, req_decide, req_consider. tes.
Qed.

Lemma te_init_after_vrv v : te (init_after_vrv v).
Proof.
  unfold init_after_vrv. apply te_withS. intros s0 J0. cbv zeta.
  destruct J0 as (j1 & j2 & j3 & j4 & j5). rewrite j1, j2.
  apply te_bind; [apply te_reset|].
  apply te_bind.
  { apply te_upd. intros s (k1 & k2 & k3 & k4 & k5). unfold J. fields. repeat split; assumption. }
  apply te_bind.
  { destruct ((h0 =? initial_height) && (r0 =? 0)); [apply te_updr; jleaf|].
    destruct (fstore_get (fStore s0) (sub64 h0 1)); [apply te_updr; jleaf|apply te_stop; discriminate]. }
  apply te_withS. intros s1 J1. cbv zeta.
  apply te_bind; [tes|].
  apply te_withS. intros s2 J2. cbv zeta.
  apply te_bind.
  { destruct (if signer s2 && rPropCh (rl s2) then ra_ph (cur_ra s2) else None) as [d|] eqn:ST; [|apply te_ret].
    apply te_bind; [apply te_updr; jleaf|]. apply te_bind; [|apply te_ret].
    apply te_emit_ph. destruct (signer s2 && rPropCh (rl s2)); [|discriminate ST].
    destruct J2 as (k1 & k2 & k3 & _). unfold cur_ra in ST. rewrite k1, k2, k3 in ST. exact ST. }
  apply te_bind; [apply te_enter_round; discriminate|apply te_begin_round_live].
Qed.
End PH.

(** ** computations that emit no proposed header *)
Definition nph (m : M) : Prop := forall s, Forall (fun x => is_emit_ph x = false) (ou (m s)).
Lemma nph_ret : nph ret. Proof. intros s. constructor. Qed.
Lemma nph_stop f : nph (stop f). Proof. intros s. constructor. Qed.
Lemma nph_say o : is_emit_ph o = false -> nph (say o).
Proof. intros H s. repeat constructor. exact H. Qed.
Lemma nph_upd f : nph (upd f). Proof. intros s. constructor. Qed.
Lemma nph_updr f : nph (updr f). Proof. intros s. constructor. Qed.
Lemma nph_bind a b : nph a -> nph b -> nph (a ;; b).
Proof.
  intros Ha Hb s. unfold nph, bindM, ou in *. specialize (Ha s). destruct (a s) as [[s1 o1] f1]. simpl in *.
  destruct f1; simpl; try exact Ha.
  specialize (Hb s1). destruct (b s1) as [[s2 o2] f2]. simpl in *. apply Forall_app. split; assumption.
Qed.
Lemma nph_withS (k : sm -> M) : (forall s0, nph (k s0)) -> nph (withS k).
Proof. intros H s. unfold withS. apply H. Qed.
Lemma nph_when b m : nph m -> nph (when b m).
Proof. intros H. destruct b; simpl; [exact H|apply nph_ret]. Qed.
Lemma nph_cm_request k ro o : is_emit_ph o = false -> nph (cm_request k ro o).
Proof.
  intros H. unfold cm_request. apply nph_withS. intros s0. destruct (cm s0); [apply nph_stop|].
  apply nph_bind; [apply nph_upd|apply nph_say; exact H].
Qed.

Ltac nph_step :=
  lazymatch goal with
  | |- nph ret => apply nph_ret
  | |- nph (stop _) => apply nph_stop
  | |- nph (say _) => apply nph_say; reflexivity
  | |- nph (upd _) => apply nph_upd
  | |- nph (updr _) => apply nph_updr
  | |- nph (bindM _ _) => apply nph_bind
  | |- nph (when _ _) => apply nph_when
  | |- nph (withS _) => apply nph_withS; let s0 := fresh "s0" in intros s0
  | |- nph (cm_request _ _ _) => apply nph_cm_request; reflexivity
  | |- nph (if ?c then _ else _) => destruct c
  | |- nph (match ?x with _ => _ end) => destruct x
  end.
Ltac nphs := repeat (nph_step; cbv beta zeta).
Ltac unf_p := unfold init_after_ch, advance_after_vrv, advance_after_ch, enter_round, begin_round_live, view_tail, handle_jump_ahead,
  advance_round, begin_commit, reset, set_hr, send_entrance, cancel_timer, start_timer, finalize_req, req_decide, req_consider.

Lemma nph_view_tail v ja : nph (view_tail v ja).
Proof. unf_p. nphs. Qed.
Lemma nph_init_after_ch bh h pr : nph (init_after_ch bh h pr).
Proof. unf_p. nphs. Qed.
Lemma nph_advance_after_vrv v : nph (advance_after_vrv v).
Proof. unf_p. nphs. Qed.
Lemma nph_advance_after_ch bh h pr : nph (advance_after_ch bh h pr).
Proof. unf_p. nphs. Qed.
Lemma nph_resume m tail s : nph m -> Forall (fun x => is_emit_ph x = false) (ou (resume_adv m tail s)).
Proof.
  intros Hm. pose proof (Hm (set_run Idle s)) as Ha. unfold resume_adv, ou in *.
  destruct (m (set_run Idle s)) as [[s1 o1] f1]. simpl in *.
  destruct f1; simpl; try exact Ha.
  destruct tail as [[v ja]|]; [|exact Ha].
  pose proof (nph_view_tail v ja s1) as Hb. unfold ou in Hb.
  destruct (view_tail v ja s1) as [[s2 o2] f2]. simpl in *. apply Forall_app. split; assumption.
Qed.

(** ** the fresh proposal, by evaluation *)
Lemma record_ph_emit d s h r d' :
  let x := (record_proposed_header d ;; updr (set_rPropCh false) ;; upd (set_propOut 2)) s in
  In (OEmitPH h r d') (ou x) ->
  d' = d /\ rOut (rl s) = Some (h, r) /\
  ra_ph (getra (aStore s) (rH (rl s)) (rR (rl s))) = None /\
  ra_ph (getra (aStore (st x)) (rH (rl s)) (rR (rl s))) = Some d /\
  In (OSignProposal (rH (rl s)) (rR (rl s)) d) (ou x) /\ In (OSavePH (rH (rl s)) (rR (rl s)) 0 (pend s)) (ou x).
Proof.
  unfold record_proposed_header, withS, when, bindM, say, upd, updr, stop, ret, emit, withS.
  change (match astore_get (aStore s) (rH (rl s)) (rR (rl s)) with Some a => a | None => ra0 end) with (cur_ra s).
  assert (C : cur_ra s = getra (aStore s) (rH (rl s)) (rR (rl s))) by reflexivity.
  destruct (initial_height <? rH (rl s)); simpl;
    [destruct (rVRV (rl s)) as [vv|]; simpl; [destruct (rPrevVS (rl s) =? 0); simpl; [|destruct (pcp_finalizes (rl s) vv); simpl]|]|];
    try (unfold ou; simpl; intros H; inl H; fail);
    (destruct (signer s); simpl; [|unfold ou; simpl; intros H; inl H]);
    (destruct (ra_ph (cur_ra s)) eqn:EP; simpl; [unfold ou; simpl; intros H; inl H|]);
    (destruct (rOut (rl s)) as [[eh er]|]; simpl; unfold ou, st; simpl; intros H; inl H;
     inversion H; subst; rewrite getra_set_same; rewrite <- C; simpl; repeat split; auto).
Qed.

(** ** every event, in a state satisfying the invariant *)
Definition PHF (s s' : sm) (e : event) (o : list out) (h r : N) (d : hash) : Prop :=
  ra_ph (getra (aStore s') h r) = Some d /\
  ((e = EvProposal d /\ ra_ph (getra (aStore s) h r) = None /\ In (OSignProposal h r d) o /\
    exists p, In (OSavePH h r 0 p) o) \/
   ((exists v, e = EvRERespVRV v) /\ run s = AwaitInit /\ ra_ph (getra (aStore s) h r) = Some d)).

Lemma finish_Forall (P : out -> Prop) r : P OHalt -> (forall n, P (OPanic n)) -> P OBlocked ->
  Forall P (ou r) -> Forall P (snd (finish r)).
Proof.
  intros H1 H2 H3 H. destruct r as [[s o] f]. unfold ou in *. simpl in *.
  destruct f; simpl; try exact H; try (destruct (run s); exact H);
    apply Forall_app; split; try exact H; repeat constructor; auto.
Qed.

Lemma no_ph o h r d : Forall (fun x => is_emit_ph x = false) o -> ~ In (OEmitPH h r d) o.
Proof. intros F H. pose proof (proj1 (Forall_forall _ _) F _ H) as X. discriminate X. Qed.

Lemma in_finish_ph r h rr d : In (OEmitPH h rr d) (snd (finish r)) -> In (OEmitPH h rr d) (ou r).
Proof. intros H. apply finish_in in H. destruct H as [H|[H|[[n H]|H]]]; [exact H|discriminate H..]. Qed.

Lemma wrap_in (X : sm * list out) (g : sm -> bool) x :
  In x (snd (let '(s1, o) := X in (set_liveSeen (g s1) s1, o))) -> In x (snd X).
Proof. destruct X. exact (fun H => H). Qed.

Theorem emit_ph_step s e h r d : Inv s -> In (OEmitPH h r d) (snd (step s e)) ->
  PHF s (fst (step s e)) e (snd (step s e)) h r d.
Proof.
  intros HI Hx.
  destruct e as [| |v|xbh xh xpr|xv xja| |xk xt|d0|xh xr xbh xvs xash| |xh xr xd|];
    try (exfalso; match type of Hx with In _ (snd (step _ ?e0)) => assert (P : Pout (ctx_of s) e0 (OEmitPH h r d)) by (apply pout_in; [discriminate|exact Hx]) end;
         simpl in P; destruct P as [P|[v' P]]; discriminate P).
  - (* start *) exfalso. apply step_start_outs in Hx. destruct Hx as [Hx|[Hx|Hx]]; discriminate Hx.
  - (* round entrance response *)
    revert Hx. unfold step. destruct (deliverable s (EvRERespVRV v)) eqn:D; [|simpl; intros [Hx|[]]; discriminate Hx].
    assert (HI0 : Inv (set_pend 0 s)) by (apply (Inv_irrel _ _ eq_refl eq_refl eq_refl eq_refl eq_refl HI)).
    unfold dispatch. change (run (set_pend 0 s)) with (run s).
    destruct (run s) eqn:Rn; try (simpl; intros []).
    + (* start-up *)
      unfold Inv in HI0. change (run (set_pend 0 s)) with (run s) in HI0. rewrite Rn in HI0. destruct HI0 as [(_ & PO & _) RO].
      destruct (is_ch_view v).
      * intros Hx. exfalso. apply wrap_in in Hx. apply in_finish_ph in Hx. exact (no_ph _ _ _ _ (nph_init_after_ch [] 0 0 _) Hx).
      * set (s0 := set_run Idle (set_pend 0 s)).
        assert (J0 : J (rH (rl s)) (rR (rl s)) (aStore s) s0).
        { unfold J. simpl. repeat split; auto. }
        destruct (te_init_after_vrv _ _ _ v s0 J0) as [F _].
        pose proof (hm_init_after_vrv v s0) as (_ & _ & AS & _).
        destruct (finish (init_after_vrv v s0)) as [s1 o] eqn:EF. simpl. intros Hx.
        assert (Hx' : In (OEmitPH h r d) (ou (init_after_vrv v s0))) by (apply in_finish_ph; rewrite EF; exact Hx).
        pose proof (proj1 (Forall_forall _ _) F _ Hx') as (-> & -> & Hd). simpl in Hd.
        assert (E1 : aStore s1 = aStore s) by (change s1 with (fst (s1, o)); rewrite <- EF, finish_astore; exact AS).
        unfold PHF. simpl. rewrite E1. split; [exact Hd|]. right. split; [eexists; reflexivity|]. split; [exact Rn|exact Hd].
    + (* advance *)
      destruct (is_ch_view v); intros Hx; exfalso; apply wrap_in in Hx; apply in_finish_ph in Hx.
      * exact (no_ph _ _ _ _ (nph_resume _ tail _ (nph_advance_after_ch [] 0 0)) Hx).
      * exact (no_ph _ _ _ _ (nph_resume _ tail _ (nph_advance_after_vrv v)) Hx).
  - (* proposal *)
    assert (P : Pout (ctx_of s) (EvProposal d0) (OEmitPH h r d)) by (apply pout_in; [discriminate|exact Hx]).
    simpl in P. destruct P as [P|[v P]]; [|discriminate P].
    inversion P; subst d0. clear P.
    revert Hx. unfold step. destruct (deliverable s (EvProposal d)) eqn:D; [|simpl; intros [Hx|[]]; discriminate Hx].
    assert (HI0 : Inv (set_pend 0 s)) by (apply (Inv_irrel _ _ eq_refl eq_refl eq_refl eq_refl eq_refl HI)).
    assert (Rn : run s = Idle).
    { unfold deliverable in D. apply andb_true_iff in D. destruct D as [D _]. apply idle_live_run. exact D. }
    pose proof (Inv_idle _ HI0 Rn) as G.
    unfold dispatch. change (propOut (set_pend 0 s)) with (propOut s).
    destruct (propOut s =? 1) eqn:PO; [|simpl; intros []].
    apply N.eqb_eq in PO.
    set (x := (record_proposed_header d;; updr (set_rPropCh false);; upd (set_propOut 2)) (set_pend 0 s)).
    destruct (finish x) as [s1 o] eqn:EF. simpl. intros Hx.
    assert (Hx' : In (OEmitPH h r d) (ou x)) by (apply in_finish_ph; rewrite EF; exact Hx).
    destruct (record_ph_emit d (set_pend 0 s) h r d Hx') as (_ & RO & E3 & E4 & E5 & E6). fold x in E4, E5, E6.
    assert (HR : h = rH (rl s) /\ r = rR (rl s)).
    { destruct G as ((_ & _ & O & _) & _). destruct O as [[O|O]|(_ & _ & O)].
      - simpl in O, RO. congruence.
      - simpl in O, RO. rewrite RO in O. inversion O. auto.
      - simpl in O. contradiction. }
    destruct HR as [-> ->].
    assert (E1 : aStore s1 = aStore (st x)) by (change s1 with (fst (s1, o)); rewrite <- EF; apply finish_astore).
    assert (IL : forall y, In y (ou x) -> In y o) by (intros y Hy; change o with (snd (s1, o)); rewrite <- EF; apply finish_in_l; exact Hy).
    unfold PHF. simpl. rewrite E1. split; [exact E4|]. left. split; [reflexivity|]. split; [exact E3|].
    split; [apply IL; exact E5|eexists; apply IL; exact E6].
Qed.

(** the action store keeps what it holds *)
Definition ph_done (h r : N) (d : hash) (s : sm) : Prop := ra_ph (getra (aStore s) h r) = Some d.

Lemma ph_done_step h r d s e : ph_done h r d s -> ph_done h r d (fst (step s e)).
Proof.
  unfold ph_done. intros H. destruct (step_EF s e) as [SL _]. destruct (SL h r) as (_ & _ & C). exact (C _ H).
Qed.
Lemma ph_done_final h r d es : forall s, ph_done h r d s -> ph_done h r d (final_state s es).
Proof. induction es as [|e es IH]; intros s H; simpl; [exact H|]. apply IH, ph_done_step, H. Qed.

Lemma ph_later h r d1 es : forall s, Inv s -> ph_done h r d1 s ->
  forall outs d2, In outs (run_events s es) -> In (OEmitPH h r d2) outs -> d2 = d1.
Proof.
  induction es as [|e es IH]; intros s HI HD outs d2; simpl; [intros []|].
  pose proof (step_inv s e HI) as [HI1 _]. pose proof (ph_done_step h r d1 s e HD) as HD1.
  pose proof (emit_ph_step s e h r d2 HI) as ES.
  destruct (step s e) as [s1 o]. simpl in *. intros [<-|H].
  - intros X. destruct (ES X) as [A _]. unfold ph_done in HD1. congruence.
  - eapply IH; eauto.
Qed.

(** all proposed headers ever emitted for one (height, round) - restarts included - carry the same block data *)
Theorem emit_ph_one_data es : forall s, Inv s -> forall i j oi oj h r d1 d2,
  nth_error (run_events s es) i = Some oi -> nth_error (run_events s es) j = Some oj ->
  In (OEmitPH h r d1) oi -> In (OEmitPH h r d2) oj -> d1 = d2.
Proof.
  induction es as [|e es IH]; intros s HI i j oi oj h r d1 d2; simpl.
  { destruct i; discriminate. }
  pose proof (step_inv s e HI) as [HI1 _].
  pose proof (emit_ph_step s e h r d1 HI) as ES1. pose proof (emit_ph_step s e h r d2 HI) as ES2.
  destruct (step s e) as [s1 o]. simpl in *.
  destruct i as [|i], j as [|j]; simpl; intros Ei Ej Hi Hj.
  - inversion Ei; inversion Ej; subst. destruct (ES1 Hi) as [A _]. destruct (ES2 Hj) as [B _]. congruence.
  - inversion Ei; subst. destruct (ES1 Hi) as [A _]. symmetry.
    exact (ph_later h r d1 es s1 HI1 A oj d2 (nth_error_In _ _ Ej) Hj).
  - inversion Ej; subst. destruct (ES2 Hj) as [B _].
    exact (ph_later h r d2 es s1 HI1 B oi d1 (nth_error_In _ _ Ei) Hi).
  - exact (IH s1 HI1 i j oi oj h r d1 d2 Ei Ej Hi Hj).
Qed.

(** a FRESH proposal (the strategy's, not a re-sending) is emitted at most once per (height, round), ever *)
Lemma no_fresh_after es : forall s, Inv s -> forall h r d1, ph_done h r d1 s ->
  forall j oj ej d2, nth_error (run_events s es) j = Some oj -> nth_error es j = Some ej ->
    (forall v, ej <> EvRERespVRV v) -> ~ In (OEmitPH h r d2) oj.
Proof.
  induction es as [|e es IH]; intros s HI h r d1 HD j oj ej d2; simpl; [destruct j; simpl; intros X; discriminate X|].
  pose proof (step_inv s e HI) as [HI1 _]. pose proof (ph_done_step h r d1 s e HD) as HD1.
  pose proof (emit_ph_step s e h r d2 HI) as ES.
  destruct (step s e) as [s1 o]. simpl in *. destruct j as [|j]; simpl; intros Ej Ee NV.
  - inversion Ej; inversion Ee; subst. intros X. destruct (ES X) as [_ [(_ & N0 & _)|((v & V) & _)]].
    + unfold ph_done in HD. congruence.
    + exact (NV v V).
  - exact (IH s1 HI1 h r d1 HD1 j oj ej d2 Ej Ee NV).
Qed.

Theorem emit_ph_fresh_once es : forall s, Inv s -> forall i j oi oj h r d1 d2 ei ej,
  nth_error (run_events s es) i = Some oi -> nth_error (run_events s es) j = Some oj ->
  nth_error es i = Some ei -> nth_error es j = Some ej ->
  (forall v, ei <> EvRERespVRV v) -> (forall v, ej <> EvRERespVRV v) ->
  In (OEmitPH h r d1) oi -> In (OEmitPH h r d2) oj -> i = j.
Proof.
  pose proof no_fresh_after as L.
  induction es as [|e es IH]; intros s HI i j oi oj h r d1 d2 ei ej; simpl.
  { destruct i; discriminate. }
  pose proof (step_inv s e HI) as [HI1 _].
  pose proof (emit_ph_step s e h r d1 HI) as ES1. pose proof (emit_ph_step s e h r d2 HI) as ES2.
  destruct (step s e) as [s1 o]. simpl in *.
  destruct i as [|i], j as [|j]; simpl; intros Ei Ej Xi Xj Ni Nj Hi Hj; auto.
  - exfalso. inversion Ei; subst. destruct (ES1 Hi) as [A _].
    exact (L es s1 HI1 h r d1 A j oj ej d2 Ej Xj Nj Hj).
  - exfalso. inversion Ej; subst. destruct (ES2 Hj) as [B _].
    exact (L es s1 HI1 h r d2 B i oi ei d1 Ei Xi Ni Hi).
  - f_equal. exact (IH s1 HI1 i j oi oj h r d1 d2 ei ej Ei Ej Xi Xj Ni Nj Hi Hj).
Qed.

(** non-vacuity: a proposal is emitted in round (1,0); after a restart it is re-sent with the same data *)
Definition ex_ph_hist : list event :=
  [ EvStart; EvRERespVRV (mkv 1 0 1 (vs_of 0 0 [] []) []); EvProposal [9];
    EvStop; EvStart; EvRERespVRV (mkv 1 0 1 (vs_of 0 0 [] []) []) ].
Example ex_ph_resend :
  filter is_emit_ph (List.concat (run_events (sm0 true) ex_ph_hist)) = [OEmitPH 1 0 [9]; OEmitPH 1 0 [9]] /\
  filter is_emit_ph (nth 2 (run_events (sm0 true) ex_ph_hist) []) = [OEmitPH 1 0 [9]] /\
  filter is_emit_ph (nth 5 (run_events (sm0 true) ex_ph_hist) []) = [OEmitPH 1 0 [9]].
Proof. vm_compute. repeat split; reflexivity. Qed.
