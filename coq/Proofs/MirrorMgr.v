(** C11 (state-machine stream): between two round entrances, and within one process lifetime, the
    views the state machine receives are views of the round it entered, with strictly increasing
    versions, all newer than the view it was answered with on entrance.  Holds from ANY state.
    Plus the refutation witness for the gossip half of "leaving votes are delivered". *)
From Coq Require Import List NArith Arith Bool Lia String.
From GV Require Import Base.Ints Gen.Math Gen.Kernel Model.Mirror Model.MirrorMgr.
Import ListNotations.
Local Open Scope N_scope.

Definition sm_of (s : mstate) : smm := m_sm (ms_m s).

(** kernel events never touch the entered round or the last sent version *)
Lemma mgr_step_sm_fixed m e :
  smm_h (m_sm (mgr_step m e)) = smm_h (m_sm m) /\
  smm_r (m_sm (mgr_step m e)) = smm_r (m_sm m) /\
  smm_last (m_sm (mgr_step m e)) = smm_last (m_sm m).
Proof.
  destruct e as [vid v|v|v|h]; cbn [mgr_step].
  - destruct (vid =? ViewIDVoting); [|destruct (vid =? ViewIDCommitting)]; cbn;
      repeat match goal with |- context [if ?c then _ else _] => destruct c end; cbn; repeat split.
  - cbn. repeat split.
  - cbn. destruct (_ && _); cbn; repeat split.
  - cbn. repeat split.
Qed.

Lemma fold_mgr_step_sm_fixed evs : forall m,
  smm_h (m_sm (fold_left mgr_step evs m)) = smm_h (m_sm m) /\
  smm_r (m_sm (fold_left mgr_step evs m)) = smm_r (m_sm m) /\
  smm_last (m_sm (fold_left mgr_step evs m)) = smm_last (m_sm m).
Proof.
  induction evs as [|e evs IH]; intros m; cbn [fold_left]; [repeat split|].
  destruct (IH (mgr_step m e)) as (A&B&C). destruct (mgr_step_sm_fixed m e) as (A'&B'&C').
  repeat split; congruence.
Qed.

(** a delivered view is of the entered round and newer than everything sent before *)
Lemma sm_output_spec m vv jv sv :
  sm_output m = Some (vv, jv, sv) ->
  (forall v, vv = Some v -> v_h v = smm_h m /\ v_r v = smm_r m /\ smm_last m < v_ver v /\ sv = v_ver v) /\
  (vv = None -> sv = smm_last m).
Proof.
  unfold sm_output.
  destruct ((v_h (smm_out m) =? smm_h m) && (v_r (smm_out m) =? smm_r m)) eqn:Hpos.
  - apply andb_true_iff in Hpos as [Hh Hr]. apply N.eqb_eq in Hh, Hr.
    destruct (smm_jump m) as [j|]; destruct (smm_last m <? v_ver (smm_out m)) eqn:Hlt.
    + apply N.ltb_lt in Hlt. destruct (0 <? v_ver (smm_out m)); [|destruct ((v_h j =? smm_h m) && (smm_r m <? v_r j))];
        intros E; inversion E; subst; split; intros; try discriminate; try reflexivity.
      match goal with X : Some _ = Some _ |- _ => inversion X; subst end. repeat split; assumption.
    + destruct (0 <? smm_last m); [|destruct ((v_h j =? smm_h m) && (smm_r m <? v_r j))];
        intros E; inversion E; subst; split; intros; try discriminate; reflexivity.
    + apply N.ltb_lt in Hlt. destruct (0 <? v_ver (smm_out m)); [|discriminate].
      intros E; inversion E; subst; split; intros; try discriminate.
      match goal with X : Some _ = Some _ |- _ => inversion X; subst end. repeat split; assumption.
    + cbn. discriminate.
  - destruct (smm_jump m) as [j|]; [|discriminate].
    destruct ((v_h j =? smm_h m) && (smm_r m <? v_r j)); [|discriminate].
    intros E; inversion E; subst; split; intros; try discriminate; reflexivity.
Qed.

(** operations inside one entrance epoch of one process lifetime *)
Definition epoch_op (o : mop) : bool :=
  match o with
  | MEnter _ _ => false
  | MEnterK _ _ _ => false
  | MK x => negb (is_restart_x x)
  | _ => true
  end.

Fixpoint sm_deliveries (s : mstate) (ops : list mop) : list view :=
  match ops with
  | [] => []
  | o :: rest =>
      match mstep s o with
      | Ok (s', _, io) =>
          (match io with IOSM (Some v) _ => [v] | _ => [] end) ++ sm_deliveries s' rest
      | Panic _ => []
      end
  end.

Fixpoint increasing_from (a : N) (l : list N) : Prop :=
  match l with
  | [] => True
  | x :: t => a < x /\ increasing_from x t
  end.

Lemma epoch_step s o s' r io :
  epoch_op o = true -> mstep s o = Ok (s', r, io) ->
  smm_h (sm_of s') = smm_h (sm_of s) /\ smm_r (sm_of s') = smm_r (sm_of s) /\
  match io with
  | IOSM (Some v) _ => v_h v = smm_h (sm_of s) /\ v_r v = smm_r (sm_of s) /\
                       smm_last (sm_of s) < v_ver v /\ smm_last (sm_of s') = v_ver v
  | _ => smm_last (sm_of s') = smm_last (sm_of s)
  end.
Proof.
  destruct o as [x|h0 r0| | |h0 r0 key0|a]; cbn [epoch_op mstep]; intros He.
  - unfold bind. destruct (xstep (ms_k s) x) as [[k' r1]|]; [|discriminate].
    apply negb_true_iff in He. rewrite He.
    intros E; inversion E; subst. unfold sm_of. cbn [ms_m].
    destruct (fold_mgr_step_sm_fixed (skipn (List.length (st_ev (ms_k s))) (st_ev k')) (ms_m s)) as (A&B&C).
    repeat split; assumption.
  - discriminate.
  - destruct (sm_output (m_sm (ms_m s))) as [[[vv jv] sv]|] eqn:Ho.
    + intros E; inversion E; subst. unfold sm_of. cbn.
      destruct (sm_output_spec _ _ _ _ Ho) as [Hs Hn].
      destruct vv as [v|].
      * destruct (Hs v eq_refl) as (A&B&C&D). repeat split; try assumption; congruence.
      * repeat split. apply Hn. reflexivity.
    + intros E; inversion E; subst. repeat split.
  - destruct (g_output (m_g (ms_m s))) as [[[[c v] n] nl]|]; intros E; inversion E; subst; repeat split.
  - discriminate.
  - unfold bind. destruct (act_step _ _ _ _ a) as [k'|]; [|discriminate].
    intros E; inversion E; subst. unfold sm_of. cbn [ms_m].
    destruct (fold_mgr_step_sm_fixed (skipn (List.length (st_ev (ms_k s))) (st_ev k')) (ms_m s)) as (A&B&C).
    repeat split; assumption.
Qed.

Theorem sm_versions_strictly_increase ops : forall s,
  forallb epoch_op ops = true ->
  increasing_from (smm_last (sm_of s)) (map v_ver (sm_deliveries s ops)) /\
  Forall (fun v => v_h v = smm_h (sm_of s) /\ v_r v = smm_r (sm_of s)) (sm_deliveries s ops).
Proof.
  induction ops as [|o rest IH]; intros s Hall; cbn [sm_deliveries]; [split; [exact I|constructor]|].
  cbn [forallb] in Hall. apply andb_true_iff in Hall as [Ho Hrest].
  destruct (mstep s o) as [[[s' r] io]|] eqn:Hs; [|split; [exact I|constructor]].
  destruct (epoch_step _ _ _ _ _ Ho Hs) as (Hh&Hr&Hio).
  destruct (IH s' Hrest) as [IH1 IH2]. rewrite Hh, Hr in IH2.
  destruct io as [|v|x cp|[v|] jv|c v n nl| | |]; cbn [app];
    try (rewrite Hio in IH1; split; assumption).
  destruct Hio as (A&B&C&D). rewrite D in IH1. split.
  - cbn [map increasing_from]. split; assumption.
  - constructor; [split; assumption|exact IH2].
Qed.

(** on entrance the state machine is answered with a view whose version becomes the bar *)
Theorem entrance_sets_the_bar s h r s' c v :
  mstep s (MEnter h r) = Ok (s', c, IOEnterView v) ->
  smm_h (sm_of s') = h /\ smm_r (sm_of s') = r /\ smm_last (sm_of s') = v_ver v.
Proof.
  cbn [mstep]. unfold bind. destruct (find_view _ _ _) as [[vid st]|]; [|discriminate].
  destruct (st =? ViewFound).
  - intros E; inversion E; subst. unfold sm_of. cbn. repeat split.
  - destruct (st =? ViewBeforeCommitting); [|discriminate].
    destruct (hdr_get _ _) as [[x cp]|]; discriminate.
Qed.

(** Known finding (gossip-nil-voted-round-overwritten): the kernel keeps a single nil-voted-round
    snapshot.  One validator; two consecutive nil commits without a gossip read in between: the
    precommit that ended round 0 is never handed to the gossip strategy. *)
Definition n_vs : valset := mk_valset [0] [1] [1] [2] true.
Definition n_pc (r : N) : vmsg := mk_vmsg 1 r [1] [([], [mk_ssig [0; 0] (SVote 0 1 1 r [])])].

Definition run_m (s : mstate) (ops : list mop) : list mio :=
  (fix go s ops := match ops with
                   | [] => []
                   | o :: rest => match mstep s o with
                                  | Ok (s', _, io) => io :: go s' rest
                                  | Panic _ => []
                                  end
                   end) s ops.

Definition gossip_rounds (ios : list mio) : list (N * N) :=
  flat_map (fun io => match io with
                      | IOGossip c v n nl =>
                          flat_map (fun o => match o with Some x => [(v_h x, v_r x)] | None => [] end) [c; v; n; nl]
                      | _ => []
                      end) ios.

Theorem nil_votes_reach_gossip_refuted :
  (* round 0 ended by a nil commit ... *)
  gossip_rounds (run_m (ms_init 1 n_vs)
    [MK (XOp (OpPrecommit (n_pc 0))); MK (XOp (OpPrecommit (n_pc 1))); MGRead; MGRead]) = [(1, 2); (1, 3); (1, 1)].
Proof. vm_compute. reflexivity. Qed.
