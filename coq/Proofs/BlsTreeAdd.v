(** C13 (BLS tree) - the invariant of the aggregation tree and its preservation by Tree.AddSignature. *)
From Coq Require Import List NArith ZArith String Bool Lia Arith.
From GV Require Import Base.Ints Model.SimpleProofBase Model.BlsTree Proofs.BlsTreeBase.
Import ListNotations.
Local Open Scope N_scope.

Definition is_set (sigs : list (option bsig)) (idx : N) : Prop := exists sg, nthN sigs idx = Some (Some sg).

(** leaf [i] lies in the range of node (layer width [p2 d], offset [off]) *)
Definition in_node (h d : nat) (off i : N) : Prop :=
  off * p2 (h - d) <= i < off * p2 (h - d) + p2 (h - d).

(** leaf [i] lies below some node whose stored signature is set *)
Definition covered (h : nat) (sigs : list (option bsig)) (i : N) : Prop :=
  exists d off, (d <= h)%nat /\ off < p2 d /\ is_set sigs (lstart h d + off) /\ in_node h d off i.

Record wf_tree (h : nat) (t : tree) : Prop := {
  wf_h : (h <= 16)%nat;
  wf_n1 : 1 <= t_n t;
  wf_nw : t_n t <= p2 h;
  wf_lw : leaves_width (t_n t) = p2 h;
  wf_sigs : lenN (t_sigs t) = 2 * p2 h - 1;
  wf_keys_len : lenN (t_keys t) = 2 * p2 h - 1;
  wf_keys : forall d off, (d <= h)%nat -> off < p2 d ->
     nthN (t_keys t) (lstart h d + off) = Some (rkey (t_n t) (off * p2 (h - d)) (p2 (h - d)))
}.

(** every stored signature is the genuine aggregate of the real leaves under its node *)
Definition sigs_genuine (msg : N) (t : tree) : Prop :=
  forall idx sg, nthN (t_sigs t) idx = Some (Some sg) ->
    exists ks, nthN (t_keys t) idx = Some (Some ks) /\ ks <> [] /\ sg = SAgg msg ks.

(** SigBits = the real leaves covered by nodes whose stored signature is set *)
Definition bits_exact (h : nat) (t : tree) : Prop :=
  forall i, N.testbit (t_bits t) i = true <-> i < t_n t /\ covered h (t_sigs t) i.

Definition inv (msg : N) (h : nat) (t : tree) : Prop :=
  wf_tree h t /\ sigs_genuine msg t /\ bits_exact h t.

(* ------------------------------------------------------------------ tree_new *)
Lemma tree_new_wf : forall n, 1 <= n <= 65535 ->
  exists h t, tree_new n = Ok t /\ wf_tree h t /\ t_n t = n /\ t_bits t = 0 /\
              (forall idx, idx < lenN (t_sigs t) -> nthN (t_sigs t) idx = Some None).
Proof.
  intros n Hn. destruct (leaves_width_p2 n Hn) as (h & Hh & Hw & Hle).
  unfold tree_new.
  replace ((n <? 1) || (65535 <? n)) with false.
  2:{ symmetry. apply orb_false_iff. split; [apply N.ltb_ge|apply N.ltb_ge]; lia. }
  rewrite Hw. eexists h, _. split; [reflexivity|].
  destruct (build_rows_spec n h h 18 (leaf_row n (p2 h))) as [BL BR]; try lia.
  { apply leaf_row_ok; lia. }
  split; [|split; [reflexivity|split; [reflexivity|]]].
  - constructor; cbn [t_n t_sigs t_keys]; try lia; try assumption.
    + apply lenN_repeatN.
    + intros d off Hd Ho. specialize (BR d off Hd Ho). rewrite lstart_h in BR.
      replace (lstart h d - 0 + off) with (lstart h d + off) in BR by lia. exact BR.
  - cbn [t_sigs]. intros idx Hi. rewrite lenN_repeatN in Hi. now apply nthN_repeatN.
Qed.

(* ------------------------------------------------------------------ bit lemmas *)
Lemma range_mask_spec : forall lo hi i, N.testbit (range_mask lo hi) i = true <-> lo <= i < hi.
Proof.
  intros. unfold range_mask. destruct (lo <? hi) eqn:E.
  - apply N.ltb_lt in E. destruct (N.ltb i lo) eqn:E2.
    + apply N.ltb_lt in E2. rewrite N.shiftl_spec_low by lia. split; [discriminate|lia].
    + apply N.ltb_ge in E2. rewrite N.shiftl_spec_high' by lia.
      destruct (N.ltb (i - lo) (hi - lo)) eqn:E3.
      * apply N.ltb_lt in E3. rewrite N.ones_spec_low by lia. split; [lia|reflexivity].
      * apply N.ltb_ge in E3. rewrite N.ones_spec_high by lia. split; [discriminate|lia].
  - apply N.ltb_ge in E. rewrite N.bits_0. split; [discriminate|lia].
Qed.

Lemma ones_spec : forall n i, N.testbit (N.ones n) i = true <-> i < n.
Proof.
  intros. destruct (N.ltb i n) eqn:E.
  - apply N.ltb_lt in E. rewrite N.ones_spec_low by lia. split; auto.
  - apply N.ltb_ge in E. rewrite N.ones_spec_high by lia. split; [discriminate|lia].
Qed.

Lemma lor_spec_iff : forall a b i, N.testbit (N.lor a b) i = true <-> N.testbit a i = true \/ N.testbit b i = true.
Proof. intros. rewrite N.lor_spec. apply orb_true_iff. Qed.

(* ------------------------------------------------------------------ covered after one store *)
Lemma is_set_upd : forall sigs idx sg j, idx < lenN sigs ->
  (is_set (updN sigs idx (Some sg)) j <-> is_set sigs j \/ j = idx).
Proof.
  intros sigs idx sg j Hi. unfold is_set. destruct (N.eq_dec idx j) as [->|Hne].
  - rewrite nthN_updN_same by assumption. split; eauto.
  - rewrite nthN_updN_other by assumption. split; [eauto|]. intros [H|H]; [assumption|congruence].
Qed.

Lemma covered_upd : forall h sigs d off sg i,
  (d <= h)%nat -> off < p2 d -> lenN sigs = 2 * p2 h - 1 ->
  (covered h (updN sigs (lstart h d + off) (Some sg)) i <-> covered h sigs i \/ in_node h d off i).
Proof.
  intros h sigs d off sg i Hd Ho HL.
  assert (Hlt : lstart h d + off < lenN sigs) by (rewrite HL; now apply lstart_bound).
  split.
  - intros (d1 & o1 & A & B & C & D). apply is_set_upd in C; [|assumption]. destruct C as [C|C].
    + left. exists d1, o1. exact (conj A (conj B (conj C D))).
    + right. destruct (node_unique h d1 o1 d off A Hd B Ho C) as [-> ->]. exact D.
  - intros [(d1 & o1 & A & B & C & D)|H].
    + exists d1, o1. refine (conj A (conj B (conj _ D))). apply is_set_upd; auto.
    + exists d, off. refine (conj Hd (conj Ho (conj _ H))). apply is_set_upd; auto.
Qed.

(* ------------------------------------------------------------------ parity and the neighbour *)
Lemma even_node : forall h d off, (d <= h)%nat -> N.even (lstart h d + off) = N.even off.
Proof.
  intros. unfold lstart. rewrite <- N.mul_sub_distr_l. rewrite N.add_comm. apply N.even_add_mul_2.
Qed.

Lemma p2_h_sub : forall h d, (S d <= h)%nat -> p2 (h - d) = 2 * p2 (h - S d).
Proof. intros. replace (h - d)%nat with (S (h - S d)) by lia. reflexivity. Qed.

(* ------------------------------------------------------------------ the AGAIN loop *)
Lemma tree_add_spec : forall msg h d fuel t off sig added ks,
  (d <= h)%nat -> (d < fuel)%nat -> off < p2 d ->
  wf_tree h t -> sigs_genuine msg t ->
  nthN (t_keys t) (lstart h d + off) = Some (Some ks) -> ks <> [] -> sig = SAgg msg ks ->
  (forall i, N.testbit (t_bits t) i = true <->
             i < t_n t /\ (covered h (t_sigs t) i \/ (added = true /\ in_node h d off i))) ->
  exists t', tree_add fuel t (lstart h d + off) sig added = Ok t' /\ inv msg h t' /\
    t_keys t' = t_keys t /\ t_n t' = t_n t /\
    (forall i, N.testbit (t_bits t') i = true <->
               N.testbit (t_bits t) i = true \/ (i < t_n t /\ in_node h d off i)).
Proof.
  intros msg h. induction d; intros fuel t off sig added ks Hd Hf Ho Hwf Hgen Hkey Hks Hsig Hbits.
  - (* the root *)
    subst sig. destruct fuel; [lia|]. cbn [tree_add]. cbn [p2] in Ho. assert (off = 0) by lia. subst off.
    pose proof (wf_sigs _ _ Hwf) as HL. pose proof (p2_pos h) as Hp.
    assert (Hidx : lstart h 0 + 0 = 2 * p2 h - 2) by (unfold lstart; cbn [p2]; lia).
    rewrite Hidx in *. rewrite HL.
    replace (2 * p2 h - 1 <=? 2 * p2 h - 2) with false by (symmetry; apply N.leb_gt; lia).
    replace (2 * p2 h - 2 =? 2 * p2 h - 1 - 1) with true by (symmetry; apply N.eqb_eq; lia).
    eexists. split; [reflexivity|]. unfold set_sigs, set_bits; cbn [t_keys t_n t_sigs t_bits].
    assert (Hcov : forall i, covered h (updN (t_sigs t) (2 * p2 h - 2) (Some (SAgg msg ks))) i <->
                             covered h (t_sigs t) i \/ in_node h 0 0 i).
    { intro i. rewrite <- Hidx. apply covered_upd; auto; try (cbn [p2]; lia). }
    split; [|split; [reflexivity|split; [reflexivity|]]].
    + split; [|split].
      * destruct Hwf. constructor; cbn [t_n t_sigs t_keys]; auto. now rewrite lenN_updN.
      * intros idx sg. cbn [t_sigs t_keys]. destruct (N.eq_dec (2 * p2 h - 2) idx) as [<-|Hne].
        -- rewrite nthN_updN_same by lia. intro E. inversion E; subst. exists ks. auto.
        -- rewrite nthN_updN_other by assumption. apply Hgen.
      * intro i. cbn [t_bits t_n t_sigs]. rewrite lor_spec_iff, ones_spec, Hcov, Hbits.
        unfold in_node. rewrite Nat.sub_0_r. pose proof (wf_nw _ _ Hwf). intuition lia.
    + intro i. cbn [t_bits]. rewrite lor_spec_iff, ones_spec.
      unfold in_node. rewrite Nat.sub_0_r. pose proof (wf_nw _ _ Hwf). intuition lia.
  - (* an inner node or leaf *)
    destruct fuel; [lia|]. cbn [tree_add].
    pose proof (wf_sigs _ _ Hwf) as HL. pose proof (wf_keys_len _ _ Hwf) as HKL. pose proof (p2_pos h) as Hp.
    pose proof (p2_mono (S d) h Hd) as Hmono. pose proof (p2_pos d) as Hpd. cbn [p2] in Hmono, Ho.
    set (idx := lstart h (S d) + off) in *.
    assert (Hidx_lt : idx < 2 * p2 h - 2).
    { unfold idx, lstart. cbn [p2]. lia. }
    rewrite HL.
    replace (2 * p2 h - 1 <=? idx) with false by (symmetry; apply N.leb_gt; lia).
    replace (idx =? 2 * p2 h - 1 - 1) with false by (symmetry; apply N.eqb_neq; lia).
    unfold set_sigs, set_bits; cbn [t_n t_keys t_sigs t_bits].
    rewrite (wf_lw _ _ Hwf).
    assert (Hloc : locate 18 idx 0 (p2 h) 1 = Some (lstart h (S d), p2 (S d), p2 (h - S d))).
    { pose proof (locate_spec h h 18 (S d) off) as L. rewrite lstart_h, Nat.sub_diag in L.
      apply L; try (pose proof (wf_h _ _ Hwf)); cbn [p2]; lia. }
    rewrite Hloc.
    replace (idx - lstart h (S d)) with off by (unfold idx; lia).
    set (nl := p2 (h - S d)) in *.
    assert (Hnl : 1 <= nl) by apply p2_pos.
    assert (Hnl2 : p2 (h - d) = 2 * nl) by (apply p2_h_sub; lia).
    (* t2 *)
    set (sigs2 := updN (t_sigs t) idx (Some sig)).
    set (bits2 := if added then t_bits t
                  else N.lor (t_bits t) (range_mask (off * nl) (N.min (off * nl + nl) (t_n t)))).
    set (t2 := mk_tree (t_keys t) sigs2 bits2 (t_n t)).
    match goal with |- context [if added then ?a else ?b] =>
      replace (if added then a else b) with t2 by (unfold t2, bits2; destruct added; reflexivity) end.
    assert (Hcov2 : forall i, covered h sigs2 i <-> covered h (t_sigs t) i \/ in_node h (S d) off i).
    { intro i. apply covered_upd; auto; try (cbn [p2]; lia). }
    assert (Hb2 : forall i, N.testbit bits2 i = true <->
                            N.testbit (t_bits t) i = true \/ (i < t_n t /\ in_node h (S d) off i)).
    { intro i. unfold bits2. destruct added.
      - rewrite Hbits. intuition.
      - rewrite lor_spec_iff, range_mask_spec. unfold in_node. fold nl. intuition lia. }
    assert (Hwf2 : wf_tree h t2).
    { destruct Hwf. constructor; cbn [t2 t_n t_sigs t_keys]; auto. unfold sigs2. now rewrite lenN_updN. }
    assert (Hgen2 : sigs_genuine msg t2).
    { intros j sg. cbn [t2 t_sigs t_keys]. unfold sigs2. destruct (N.eq_dec idx j) as [<-|Hne].
      - rewrite nthN_updN_same by lia. intro E. inversion E; subst. exists ks. auto.
      - rewrite nthN_updN_other by assumption. apply Hgen. }
    assert (Hex2 : bits_exact h t2).
    { intro i. cbn [t2 t_bits t_n t_sigs]. rewrite Hb2, Hcov2, Hbits. intuition. }
    assert (Hinv2 : inv msg h t2) by (split; [|split]; assumption).
    assert (Hret : exists t', Ok t2 = Ok t' /\ inv msg h t' /\ t_keys t' = t_keys t /\ t_n t' = t_n t /\
                   (forall i, N.testbit (t_bits t') i = true <->
                              N.testbit (t_bits t) i = true \/ (i < t_n t /\ in_node h (S d) off i))).
    { exists t2. split; [reflexivity|]. split; [exact Hinv2|]. split; [reflexivity|]. split; [reflexivity|]. exact Hb2. }
    (* the parent *)
    set (q := off / 2).
    assert (Hq : off = 2 * q \/ off = 2 * q + 1).
    { unfold q. pose proof (N.div_mod off 2 ltac:(lia)) as DM. pose proof (N.mod_upper_bound off 2 ltac:(lia)) as DU.
      remember (off / 2) as q0. remember (off mod 2) as r0. lia. }
    assert (Hqlt : q < p2 d) by lia.
    assert (Hpar : lstart h (S d) + (2 * p2 d) + q = lstart h d + q).
    { rewrite (lstart_S h d) by lia. cbn [p2]. lia. }
    cbn [p2]. rewrite Hpar.
    assert (Hpar_lt : lstart h d + q < 2 * p2 h - 1) by (apply lstart_bound; [lia|assumption]).
    assert (Hpar_ne : idx <> lstart h d + q).
    { unfold idx. rewrite (lstart_S h d) by lia. cbn [p2]. lia. }
    cbn [t2 t_sigs t_keys]. unfold sigs2 at 1. rewrite nthN_updN_other by assumption.
    destruct (nthN_lt_some _ (t_sigs t) (lstart h d + q)) as [ps Hps]; [lia|]. rewrite Hps.
    destruct ps as [psig|]; [exact Hret|].
    (* the neighbour *)
    replace (N.even idx) with (N.even off) by (unfold idx; symmetry; apply even_node; lia).
    pose proof (wf_keys _ _ Hwf (S d) off Hd) as Hk_idx. cbn [p2] in Hk_idx. specialize (Hk_idx Ho).
    fold idx nl in Hk_idx. rewrite Hkey in Hk_idx. inversion Hk_idx as [Hks_eq]. clear Hk_idx.
    pose proof (wf_keys _ _ Hwf d q) as Hk_par. rewrite Hnl2 in Hk_par. specialize (Hk_par ltac:(lia) Hqlt).
    set (off' := if N.even off then off + 1 else off - 1).
    assert (Hoff' : (N.even off = true /\ off = 2 * q /\ off' = 2 * q + 1) \/
                    (N.even off = false /\ off = 2 * q + 1 /\ off' = 2 * q)).
    { unfold off'. destruct (N.even off) eqn:E.
      - left. apply N.even_spec in E. destruct E as [m Em]. split; [reflexivity|]. lia.
      - right. split; [reflexivity|]. destruct Hq as [Hq|Hq]; [|lia].
        rewrite Hq in E. rewrite N.even_mul in E. cbn in E. discriminate. }
    assert (Hnb : (if N.even off then idx + 1 else idx - 1) = lstart h (S d) + off').
    { unfold off', idx. destruct (N.even off) eqn:E; [lia|].
      destruct Hoff' as [[A _]|[_ [B _]]]; [congruence|lia]. }
    rewrite Hnb.
    assert (Hoff'_lt : off' < 2 * p2 d) by (destruct Hoff' as [(_ & A & B)|(_ & A & B)]; lia).
    pose proof (wf_keys _ _ Hwf (S d) off' Hd) as Hk_nb. cbn [p2] in Hk_nb. specialize (Hk_nb Hoff'_lt).
    fold nl in Hk_nb. rewrite Hk_nb.
    assert (Hnb_ne : idx <> lstart h (S d) + off').
    { unfold idx. destruct Hoff' as [(_ & A & B)|(_ & A & B)]; lia. }
    assert (Hin_par : forall i, in_node h d q i <-> in_node h (S d) off i \/ in_node h (S d) off' i).
    { intro i. unfold in_node. rewrite Hnl2. fold nl.
      destruct Hoff' as [(_ & A & B)|(_ & A & B)]; rewrite A, B; lia. }
    destruct (rkey (t_n t) (off' * nl) nl) as [ks_nb|] eqn:Erk.
    + (* the neighbour key exists *)
      unfold sigs2 at 1. rewrite nthN_updN_other by assumption.
      destruct (nthN_lt_some _ (t_sigs t) (lstart h (S d) + off')) as [ns Hns];
        [rewrite HL; apply lstart_bound; [lia|cbn [p2]; lia]|].
      rewrite Hns. destruct ns as [nbsig|]; [|exact Hret].
      destruct (Hgen _ _ Hns) as (ks_nb' & Hk1 & Hk2 & Hk3).
      rewrite Hk_nb in Hk1. inversion Hk1; subst ks_nb'. clear Hk1.
      set (sig' := if N.even off then agg_sig sig nbsig else agg_sig nbsig sig).
      assert (Hsig' : exists ks', nthN (t_keys t2) (lstart h d + q) = Some (Some ks') /\ ks' <> [] /\ sig' = SAgg msg ks').
      { cbn [t2 t_keys]. rewrite Hk_par.
        destruct Hoff' as [(E & A & B)|(E & A & B)]; unfold sig'; rewrite E; subst sig nbsig; cbn [agg_sig];
          rewrite N.eqb_refl.
        - exists (ks ++ ks_nb). split; [|split; [|reflexivity]].
          + f_equal. replace (q * (2 * nl)) with (off * nl) by lia.
            rewrite <- aggK_rkey. rewrite <- Hks_eq. replace (off * nl + nl) with (off' * nl) by lia.
            rewrite Erk. reflexivity.
          + destruct ks; [congruence|discriminate].
        - exists (ks_nb ++ ks). split; [|split; [|reflexivity]].
          + f_equal. replace (q * (2 * nl)) with (off' * nl) by lia.
            rewrite <- aggK_rkey. rewrite Erk. replace (off' * nl + nl) with (off * nl) by lia.
            rewrite <- Hks_eq. reflexivity.
          + destruct ks_nb; [congruence|discriminate]. }
      destruct Hsig' as (ks' & Hk' & Hks' & Hs').
      destruct (IHd fuel t2 q sig' true ks') as (t' & R1 & R2 & R3 & R4 & R5); auto; try lia.
      { intro i. rewrite (Hex2 i). cbn [t2 t_n t_sigs].
        split; [intuition|]. intros [A [B|[_ B]]]; [auto|]. split; [assumption|].
        apply Hin_par in B. apply Hcov2. destruct B as [B|B]; [auto|].
        left. exists (S d), off'. repeat split; auto; try apply B. exists nbsig. exact Hns. }
      exists t'. split; [exact R1|]. split; [exact R2|]. split; [rewrite R3; reflexivity|].
      split; [rewrite R4; reflexivity|].
      intro i. rewrite R5. cbn [t2 t_bits t_n]. rewrite Hb2.
      split; [|intuition].
      intros [A|[A B]]; [exact A|].
      apply Hin_par in B. destruct B as [B|B]; [auto|].
      left. apply Hbits. split; [assumption|]. left. exists (S d), off'. repeat split; auto; try apply B.
      exists nbsig. exact Hns.
    + (* no neighbour key: the signature passes through to the parent *)
      assert (Hnoreal : t_n t <= off' * nl).
      { unfold rkey in Erk. destruct (off' * nl <? t_n t) eqn:E; [discriminate|]. now apply N.ltb_ge in E. }
      assert (Hhas : off * nl < t_n t).
      { unfold rkey in Hks_eq. destruct (off * nl <? t_n t) eqn:E; [now apply N.ltb_lt in E|discriminate]. }
      assert (Heven : off = 2 * q /\ off' = 2 * q + 1).
      { destruct Hoff' as [(_ & A & B)|(_ & A & B)]; [auto|]. exfalso. rewrite A, B in *. lia. }
      destruct Heven as [A B].
      assert (Hk' : nthN (t_keys t2) (lstart h d + q) = Some (Some ks)).
      { cbn [t2 t_keys]. rewrite Hk_par. f_equal. replace (q * (2 * nl)) with (off * nl) by lia.
        rewrite <- aggK_rkey. rewrite <- Hks_eq. replace (off * nl + nl) with (off' * nl) by lia.
        rewrite Erk. reflexivity. }
      destruct (IHd fuel t2 q sig true ks) as (t' & R1 & R2 & R3 & R4 & R5); auto; try lia.
      { intro i. rewrite (Hex2 i). cbn [t2 t_n t_sigs].
        split; [intuition|]. intros [C [D|[_ D]]]; [auto|]. split; [assumption|].
        apply Hin_par in D. apply Hcov2. destruct D as [D|D]; [auto|].
        exfalso. unfold in_node in D. fold nl in D. lia. }
      exists t'. split; [exact R1|]. split; [exact R2|]. split; [rewrite R3; reflexivity|].
      split; [rewrite R4; reflexivity|].
      intro i. rewrite R5. cbn [t2 t_bits t_n]. rewrite Hb2.
      split; [|intuition].
      intros [C|[C D]]; [exact C|].
      apply Hin_par in D. destruct D as [D|D]; [auto|].
      exfalso. unfold in_node in D. fold nl in D. lia.
Qed.
