(** What the round state machine model can output in one event, for EVERY state and EVERY event
    (hence along every event history): the statement behind the C08 / C02 theorems that are local
    to one event. *)
From Coq Require Import List NArith String Bool Lia.
From GV Require Import Base.Ints Gen.Math Gen.StepSM Model.StateMachine Proofs.SMStep.
Import ListNotations.
Local Open Scope N_scope.

Definition mpc (vs : vote_summary) : hash := vote_summary_MostVotedPrecommitHash vs.
Definition maj_vs (vs : vote_summary) : N :=
  match byz_majority (vote_summary_AvailablePower vs) with Ok m => m | Panic _ => 0 end.
Definition pcpow_vs (vs : vote_summary) : N := map_get (vote_summary_PrecommitBlockPower vs) (mpc vs).
Definition tpc_vs (vs : vote_summary) : N := vote_summary_TotalPrecommitPower vs.

(** more than two thirds of the power precommitted, and the most voted target has more than two thirds *)
Definition quorum_vs (vs : vote_summary) : Prop := maj_vs vs <= tpc_vs vs /\ maj_vs vs <= pcpow_vs vs.
Definition block_quorum (vs : vote_summary) : Prop := quorum_vs vs /\ mpc vs <> [].
Definition nil_quorum (vs : vote_summary) : Prop := quorum_vs vs /\ mpc vs = [].
Definition fully_voted_no_quorum (vs : vote_summary) : Prop :=
  maj_vs vs <= tpc_vs vs /\ pcpow_vs vs < maj_vs vs /\ tpc_vs vs = vote_summary_AvailablePower vs.

Definition carries_view (e : event) (v : view) : Prop :=
  match e with EvView v' _ => v' = v | EvRERespVRV v' => v' = v | _ => False end.

Definition is_ch_resp (e : event) (h r : N) (bh : hash) : Prop :=
  match e with
  | EvRERespCH bh' h' r' => bh' = bh /\ h' = h /\ r' = r
  | EvRERespVRV v => v_h v = 0 /\ bh = [] /\ h = 0 /\ r = 0
  | _ => False
  end.

(** The context of one event: round, step, run state and finalized validator set before it. *)
Record ctx := mkCtx { c_h : N; c_r : N; c_st : N; c_run : run_state; c_fin : N }.
Definition ctx_of (s : sm) : ctx := mkCtx (rH (rl s)) (rR (rl s)) (rS (rl s)) (run s) (rFinVS (rl s)).

(** why a round may be left for the next one *)
Definition exit_cause (c : ctx) (e : event) : Prop :=
  (e = EvTimer /\ c_st c = StepPrecommitDelay) \/
  (exists v j, e = EvView v (Some j)) \/
  (exists v j, c_run c = AwaitAdv (Some (v, Some j))) \/
  (exists v, carries_view e v /\ (nil_quorum (v_vs v) \/ fully_voted_no_quorum (v_vs v))).

(** why the next height may be entered *)
Definition height_cause (c : ctx) (e : event) : Prop :=
  (exists h r bh vs ash, e = EvFinResp h r bh vs ash) \/
  (e = EvTimer /\ c_fin c <> 0 /\ c_st c = StepCommitWait) \/
  e = EvHeightCommitted.

(** why the driver may be asked to finalize (h, r, bh) *)
Definition fin_class (c : ctx) (e : event) (h r : N) (bh : hash) : Prop :=
  is_ch_resp e h r bh \/
  (exists v, carries_view e v /\ h = v_h v /\ r = v_r v /\ bh = mpc (v_vs v) /\
     (block_quorum (v_vs v) \/
      ((c_st c = StepCommitWait \/ c_st c = StepAwaitingFinalization) /\ c_run c = Idle))).

Definition new_round (c : ctx) (e : event) (h r : N) : Prop :=
  (h = c_h c /\ r = wrap32 (c_r c + 1) /\ exit_cause c e) \/
  (h = wrap64 (c_h c + 1) /\ r = 0 /\ height_cause c e).

Definition Pout (c : ctx) (e : event) (o : out) : Prop :=
  match o with
  | OSignPrevote h r t | OSavePrevote h r t _ _ => h = c_h c /\ r = c_r c /\ e = EvAnswer 0 t
  | OSignPrecommit h r t | OSavePrecommit h r t _ _ => h = c_h c /\ r = c_r c /\ e = EvAnswer 0 t
  | OEmitPrevote _ _ t | OEmitPrecommit _ _ t => e = EvAnswer 0 t
  | OSignProposal h r d => h = c_h c /\ r = c_r c /\ e = EvProposal d
  | OSavePH h r _ _ => h = c_h c /\ r = c_r c /\ exists d, e = EvProposal d
  | OEmitPH _ _ d => e = EvProposal d \/ exists v, e = EvRERespVRV v
  | OTimerStart k h r _ => h = c_h c /\ r = c_r c /\ 1 <= k <= 4
  | OSetHR h r | ORoundEntrance h r _ _ => new_round c e h r
  | OFinalizeReq h r bh => fin_class c e h r bh
  | OEnterRound h r _ => exists v, e = EvRERespVRV v /\ h = v_h v /\ r = v_r v
  | _ => True
  end.

Section Handlers.
Variable c : ctx.
Variable e : event.
Notation HR := (hr (c_h c) (c_r c) (Pout c e)).

Ltac hs := repeat hr_step.

Lemma hr_cancel_timer must : HR (cancel_timer must).
Proof.
  unfold cancel_timer. hs. destruct (rTimer (rl s0)) as [[[k h] r]|]; hs.
  - apply hr_say. exact I.
  - destruct must; hs.
Qed.

Lemma hr_start_timer k : 1 <= k <= 4 -> HR (start_timer k).
Proof.
  intros Hk. unfold start_timer. hs. destruct A as [A1 A2].
  apply hr_say. simpl. auto.
Qed.

Lemma hr_cm_request k ro o : Pout c e o -> HR (cm_request k ro o).
Proof. intros Ho. unfold cm_request. hs. destruct (cm s0); hs. apply hr_say; exact Ho. Qed.

Lemma hr_req_consider phs mk ui mj : HR (req_consider phs mk ui mj).
Proof.
  unfold req_consider. hs. destruct (if mk then _ else _) as [nw cn]. hs.
  apply hr_cm_request. exact I.
Qed.

Lemma hr_req_choose phs : HR (req_choose phs).
Proof. unfold req_choose. hs. apply hr_cm_request. exact I. Qed.

Lemma hr_req_decide vs : HR (req_decide vs).
Proof. unfold req_decide. hs. apply hr_cm_request. exact I. Qed.

Lemma hr_finalize_req h r bh : fin_class c e h r bh -> HR (finalize_req h r bh).
Proof. intros Hf. unfold finalize_req. hs. apply hr_say. exact Hf. Qed.

Lemma find_ph_hash phs h p : find_ph phs h = Some p -> ph_hash p = h.
Proof.
  induction phs as [|q phs IH]; simpl; [discriminate|].
  destruct (bytes_eqb (ph_hash q) h) eqn:E; [|exact IH].
  intros H; inversion H; subst. apply bytes_eqb_eq. exact E.
Qed.

Lemma hr_begin_commit v : fin_class c e (v_h v) (v_r v) (mpc (v_vs v)) -> HR (begin_commit v).
Proof.
  intros Hf. unfold begin_commit. hs.
  - apply hr_start_timer. lia.
  - destruct (find_ph (v_phs v) (pcm v)) as [p|] eqn:E; hs.
    apply hr_finalize_req. rewrite (find_ph_hash _ _ _ E). exact Hf.
Qed.

(** the two advance functions end suspended in a round entrance for the announced round *)
Lemma advance_round_spec s : at_round (c_h c) (c_r c) s -> exit_cause c e ->
  Forall (Pout c e) (snd (fst (advance_round s))) /\ snd (advance_round s) <> Go.
Proof.
  intros [A1 A2] Hc. unfold advance_round, withS, reset, cancel_timer, set_hr, send_entrance, withS, bindM, say, upd, updr, stop, ret.
  assert (NR : new_round c e (rH (rl s)) (wrap32 (rR (rl s) + 1))) by (left; rewrite A1, A2; auto).
  destruct (rTimer (rl s)) as [[[k h] r]|]; simpl; split; try discriminate;
    repeat (constructor; try exact I; try exact NR).
Qed.

Lemma advance_height_spec s : at_round (c_h c) (c_r c) s -> height_cause c e ->
  Forall (Pout c e) (snd (fst (advance_height s))) /\ snd (advance_height s) <> Go.
Proof.
  intros [A1 A2] Hc. unfold advance_height, withS, reset, cancel_timer, set_hr, send_entrance, withS, bindM, say, upd, updr, stop, ret.
  assert (NR : new_round c e (wrap64 (rH (rl s) + 1)) 0) by (right; rewrite A1; auto).
  simpl. destruct (rTimer (rl s)) as [[[k h] r]|]; simpl; split; try discriminate;
    repeat (constructor; try exact I; try exact NR).
Qed.

Lemma hr_advance_round : exit_cause c e -> HR advance_round.
Proof. intros Hc. apply hr_of_ends. intros s A. apply advance_round_spec; assumption. Qed.

Lemma hr_advance_height : height_cause c e -> HR advance_height.
Proof. intros Hc. apply hr_of_ends. intros s A. apply advance_height_spec; assumption. Qed.


Lemma hr_thresholds v k :
  (forall mn mj, byz_majority (avail v) = Ok mj -> HR (k mn mj)) -> HR (thresholds v k).
Proof.
  intros Hk. unfold thresholds.
  destruct (byz_minority (avail v)); [|hs].
  destruct (byz_majority (avail v)) eqn:E; [|hs].
  apply Hk. reflexivity.
Qed.

Lemma maj_vs_eq v mj : byz_majority (avail v) = Ok mj -> maj_vs (v_vs v) = mj.
Proof. unfold maj_vs, avail. intros ->. reflexivity. Qed.

Lemma get_step_commit_wait vs : get_step_from_vote_summary vs = Ok StepCommitWait -> quorum_vs vs.
Proof.
  unfold get_step_from_vote_summary, quorum_vs, maj_vs, tpc_vs, pcpow_vs, mpc, bind.
  destruct (byz_majority (vote_summary_AvailablePower vs)) as [mj|]; [|discriminate].
  destruct (byz_minority (vote_summary_AvailablePower vs)) as [mn|]; [|discriminate].
  destruct (N.leb mj (vote_summary_TotalPrecommitPower vs)) eqn:E1.
  - destruct (N.leb mj (map_get _ _)) eqn:E2; [|discriminate].
    intros _. split; apply N.leb_le; assumption.
  - destruct (N.leb mn _); [discriminate|].
    destruct (N.leb mj (vote_summary_TotalPrevotePower vs)); [|discriminate].
    destruct (N.leb mj (map_get _ _)); discriminate.
Qed.

(** the view the handlers work on has the header and the vote summary of the one the event carries *)
Definition same_hdr (v v0 : view) : Prop := v_h v = v_h v0 /\ v_r v = v_r v0 /\ v_vs v = v_vs v0.

Lemma fin_class_quorum v v0 : carries_view e v0 -> same_hdr v v0 -> block_quorum (v_vs v) ->
  fin_class c e (v_h v) (v_r v) (mpc (v_vs v)).
Proof.
  intros CV (H1 & H2 & H3) Q. right. exists v0. rewrite H1, H2, H3 in *.
  split; [exact CV|]. split; [reflexivity|]. split; [reflexivity|]. split; [reflexivity|]. left; exact Q.
Qed.

Lemma exit_nil v v0 : carries_view e v0 -> same_hdr v v0 -> nil_quorum (v_vs v) -> exit_cause c e.
Proof. intros CV (H1 & H2 & H3) Q. right; right; right. exists v0. rewrite H3 in Q. auto. Qed.

Lemma exit_full v v0 : carries_view e v0 -> same_hdr v v0 -> fully_voted_no_quorum (v_vs v) -> exit_cause c e.
Proof. intros CV (H1 & H2 & H3) Q. right; right; right. exists v0. rewrite H3 in Q. auto. Qed.

Lemma pcm_nil_or v : pcm v = [] \/ pcm v <> [].
Proof. destruct (pcm v); [left; reflexivity|right; discriminate]. Qed.

Lemma hr_begin_round_live v v0 : carries_view e v0 -> same_hdr v v0 -> HR (begin_round_live v).
Proof.
  intros CV SH. unfold begin_round_live.
  destruct (get_step_from_vote_summary (v_vs v)) as [st|] eqn:G; [|hs].
  destruct (st =? StepAwaitingProposal) eqn:E1.
  { hs.
    - apply hr_req_consider.
    - apply hr_start_timer. lia. }
  destruct (st =? StepAwaitingPrevotes); [hs|].
  destruct (st =? StepAwaitingPrecommits); [hs; apply hr_req_decide|].
  destruct (st =? StepCommitWait) eqn:E4; [|hs].
  apply N.eqb_eq in E4. subst st. apply get_step_commit_wait in G.
  destruct (pcm v) eqn:E.
  - apply hr_advance_round. eapply exit_nil; eauto. split; [exact G|exact E].
  - hs. apply hr_begin_commit. eapply fin_class_quorum; eauto.
    split; [exact G|]. unfold mpc. unfold pcm in E. rewrite E. discriminate.
Qed.

Lemma leb_quorum v mj : byz_majority (avail v) = Ok mj -> (mj <=? tpc v) = true -> (mj <=? pc_pow v) = true ->
  quorum_vs (v_vs v).
Proof.
  intros M A B. apply N.leb_le in A. apply N.leb_le in B. rewrite <- (maj_vs_eq _ _ M) in *.
  split; assumption.
Qed.

Lemma hr_handle_proposal_view v : carries_view e v -> HR (handle_proposal_view v).
Proof.
  intros CV. assert (SH : same_hdr v v) by (repeat split).
  unfold handle_proposal_view. apply hr_thresholds. intros mn mj M.
  destruct (mj <=? tpc v) eqn:E1.
  { hs; [apply hr_cancel_timer|].
    destruct (mj <=? pc_pow v) eqn:E2.
    - pose proof (leb_quorum _ _ M E1 E2) as Q.
      destruct (pcm v) eqn:E.
      + apply hr_advance_round. eapply exit_nil; eauto. split; [exact Q|exact E].
      + apply hr_begin_commit. eapply fin_class_quorum; eauto.
        split; [exact Q|]. unfold mpc. unfold pcm in E. rewrite E. discriminate.
    - hs; [apply hr_start_timer; lia|apply hr_req_decide]. }
  destruct (mn <=? tpc v).
  { hs; [apply hr_cancel_timer|apply hr_req_decide]. }
  destruct (mj <=? tpv v).
  { hs; [apply hr_cancel_timer|].
    destruct (mj <=? pv_pow v); hs.
    - apply hr_req_choose.
    - apply hr_start_timer; lia.
    - apply hr_req_consider. }
  hs. destruct (rVRV (rl s0)) as [old|]; [|hs].
  cbv zeta. destruct (N.of_nat _ <? N.of_nat _); [|hs].
  destruct (N.of_nat _ <=? N.of_nat _); [hs|apply hr_req_consider].
Qed.

Lemma hr_handle_prevote_view v : carries_view e v -> HR (handle_prevote_view v).
Proof.
  intros CV. assert (SH : same_hdr v v) by (repeat split).
  unfold handle_prevote_view. apply hr_thresholds. intros mn mj M. hs.
  destruct (mj <=? tpc v) eqn:E1.
  { hs; [apply hr_cancel_timer|].
    destruct (mj <=? pc_pow v) eqn:E2.
    - pose proof (leb_quorum _ _ M E1 E2) as Q.
      destruct (pcm v) eqn:E.
      + apply hr_advance_round. eapply exit_nil; eauto. split; [exact Q|exact E].
      + apply hr_begin_commit. eapply fin_class_quorum; eauto.
        split; [exact Q|]. unfold mpc. unfold pcm in E. rewrite E. discriminate.
    - hs; [apply hr_start_timer; lia|apply hr_req_decide]. }
  destruct (mj <=? tpv v); [|hs].
  destruct (mj <=? pv_pow v).
  - hs; [apply hr_cancel_timer|apply hr_req_decide].
  - hs. apply hr_start_timer; lia.
Qed.

Lemma hr_handle_precommit_view v : carries_view e v -> HR (handle_precommit_view v).
Proof.
  intros CV. assert (SH : same_hdr v v) by (repeat split).
  unfold handle_precommit_view. apply hr_thresholds. intros mn mj M. hs.
  destruct (mj <=? tpc v) eqn:E1; [|hs].
  destruct (mj <=? pc_pow v) eqn:E2.
  - pose proof (leb_quorum _ _ M E1 E2) as Q.
    destruct (pcm v) eqn:E.
    + apply hr_advance_round. eapply exit_nil; eauto. split; [exact Q|exact E].
    + hs; [apply hr_cancel_timer|]. apply hr_begin_commit. eapply fin_class_quorum; eauto.
      split; [exact Q|]. unfold mpc. unfold pcm in E. rewrite E. discriminate.
  - destruct (tpc v =? avail v) eqn:E3.
    + apply hr_advance_round. eapply exit_full; eauto.
      apply N.leb_le in E1. apply N.leb_gt in E2. apply N.eqb_eq in E3.
      rewrite <- (maj_vs_eq _ _ M) in *. repeat split; assumption.
    + hs. apply hr_start_timer; lia.
Qed.

Lemma hr_handle_commit_wait_view v :
  carries_view e v -> (c_st c = StepCommitWait \/ c_st c = StepAwaitingFinalization) /\ c_run c = Idle ->
  HR (handle_commit_wait_view v).
Proof.
  intros CV HS. unfold handle_commit_wait_view. hs.
  destruct (negb (rFinCh (rl s0))); [hs|].
  destruct (rVRV (rl s0)) as [old|]; [|hs].
  destruct (find_ph (v_phs old) (pcm old)); [hs|].
  destruct (find_ph (v_phs v) (pcm v)) as [p|] eqn:E; [|hs].
  apply hr_finalize_req. rewrite (find_ph_hash _ _ _ E).
  right. exists v. repeat split; auto.
Qed.

Lemma hr_handle_jump_ahead j : exit_cause c e -> HR (handle_jump_ahead j).
Proof.
  intros Hc. unfold handle_jump_ahead. hs. destruct j as [jh jr].
  destruct (negb (jh =? rH (rl s0))); [hs|].
  destruct (jr <=? rR (rl s0)); [hs|]. apply hr_advance_round. exact Hc.
Qed.

Lemma hr_view_tail v ja : (forall j, ja = Some j -> exit_cause c e) -> HR (view_tail v ja).
Proof.
  intros Hj. unfold view_tail. hs.
  - destruct (rVRV (rl s0)); hs.
  - destruct ja as [j|]; [|hs]. apply hr_handle_jump_ahead. eapply Hj; reflexivity.
Qed.

End Handlers.

(** ** Per-event statements *)
Section Events.
Variable c : ctx.
Notation HR e := (hr (c_h c) (c_r c) (Pout c e)).
Ltac hs := repeat hr_step.
Ltac dif := match goal with
  | |- hr _ _ _ (if ?b then _ else _) => destruct b eqn:?
  | |- hr _ _ _ (match ?x with _ => _ end) => destruct x eqn:?
  end.

Definition hr_at (e : event) (s : sm) (m : M) : Prop :=
  Forall (Pout c e) (snd (fst (m s))) /\ (snd (m s) = Go -> at_round (c_h c) (c_r c) (fst (fst (m s)))).

Lemma hr_emit e (o : N -> N -> out) : (forall h r, Pout c e (o h r)) -> HR e (emit o).
Proof.
  intros Ho. unfold emit. hs. destruct (rOut (rl s0)) as [[h r]|]; hs. apply hr_say. apply Ho.
Qed.

Lemma hr_record_prevote t : HR (EvAnswer 0 t) (record_prevote t).
Proof.
  unfold record_prevote. hs; destruct A as [A1 A2].
  - apply hr_say. simpl. auto.
  - destruct (ra_pv (cur_ra s0)); hs; try (apply hr_say; simpl; auto).
    apply hr_emit. intros; reflexivity.
  - apply hr_cancel_timer.
Qed.

Lemma hr_record_precommit t : HR (EvAnswer 0 t) (record_precommit t).
Proof.
  unfold record_precommit. hs; destruct A as [A1 A2].
  - apply hr_say. simpl. auto.
  - destruct (ra_pc (cur_ra s0)); hs; try (apply hr_say; simpl; auto).
    apply hr_emit. intros; reflexivity.
Qed.

Lemma hr_record_proposed_header d : HR (EvProposal d) (record_proposed_header d).
Proof.
  unfold record_proposed_header. hs; destruct A as [A1 A2].
  - destruct (initial_height <? rH (rl s0)); [|hs].
    destruct (rVRV (rl s0)); [|hs]. destruct (rPrevVS (rl s0) =? 0); [hs|].
    destruct (pcp_finalizes (rl s0) v); hs.
  - destruct (signer s0); hs.
  - apply hr_say. simpl. auto.
  - destruct (ra_ph (cur_ra s0)); hs; try (apply hr_say; simpl; eauto).
    apply hr_emit. intros; left; reflexivity.
Qed.

Lemma hr_handle_finalization h r bh vs ash : HR (EvFinResp h r bh vs ash) (handle_finalization h r bh vs ash).
Proof.
  unfold handle_finalization. destruct (vs =? 0); [hs|]. hs.
  destruct (negb _); [hs|].
  destruct (fstore_get (fStore s0) (rH (rl s0))); hs; try (apply hr_say; exact I).
  apply hr_advance_height. left. repeat eexists.
Qed.

Lemma hr_handle_block_data e h r d : HR e (handle_block_data h r d).
Proof.
  unfold handle_block_data. hs.
  destruct (negb (rPvCh (rl s0))); [hs|]. destruct (negb _); [hs|].
  unfold vrv_or_panic. hs. destruct (rVRV (rl s1)); [|hs].
  destruct (reject_mismatched (rl s0) (v_phs v)); [hs|].
  destruct (map ph_data _); [hs|]. apply hr_req_consider.
Qed.

Lemma hr_handle_height_committed : HR EvHeightCommitted handle_height_committed.
Proof.
  unfold handle_height_committed. hs; [apply hr_cancel_timer|].
  destruct (rS (rl s0) =? StepAwaitingFinalization); [hs|].
  destruct (negb _); [hs|]. destruct (rFinVS (rl s0) =? 0); [hs|].
  apply hr_advance_height. right; right. reflexivity.
Qed.

(** handleTimerElapsed from a state with the step and finalized set recorded in the context *)
Lemma hr_handle_timer_elapsed s : at_round (c_h c) (c_r c) s -> c_st c = rS (rl s) -> c_fin c = rFinVS (rl s) ->
  hr_at EvTimer s handle_timer_elapsed.
Proof.
  intros A HS HF. unfold hr_at, handle_timer_elapsed, withS.
  assert (G : HR EvTimer
    (let st := rS (rl s) in
     if st =? StepAwaitingProposal then
       vrv_or_panic (fun v => req_choose (reject_mismatched (rl s) (v_phs v))) ;;
       updr (fun l => set_rS StepAwaitingPrevotes (set_rConsidered [] l)) ;; cancel_timer true
     else if st =? StepPrevoteDelay then
       vrv_or_panic (fun v => req_decide (v_vs v)) ;; updr (set_rS StepAwaitingPrecommits) ;; cancel_timer true
     else if st =? StepPrecommitDelay then cancel_timer true ;; advance_round
     else if st =? StepCommitWait then
       cancel_timer true ;;
       (if rFinVS (rl s) =? 0 then updr (set_rS StepAwaitingFinalization) else advance_height)
     else stop (FPanic P_timerElapsed_step))).
  { cbv zeta.
    destruct (rS (rl s) =? StepAwaitingProposal).
    { unfold vrv_or_panic. hs; [destruct (rVRV (rl s0)); hs; apply hr_req_choose|apply hr_cancel_timer]. }
    destruct (rS (rl s) =? StepPrevoteDelay).
    { unfold vrv_or_panic. hs; [destruct (rVRV (rl s0)); hs; apply hr_req_decide|apply hr_cancel_timer]. }
    destruct (rS (rl s) =? StepPrecommitDelay) eqn:E3.
    { hs; [apply hr_cancel_timer|]. apply hr_advance_round. left. split; [reflexivity|].
      apply N.eqb_eq in E3. congruence. }
    destruct (rS (rl s) =? StepCommitWait) eqn:E4; [|hs].
    hs; [apply hr_cancel_timer|].
    destruct (rFinVS (rl s) =? 0) eqn:E5; [hs|].
    apply hr_advance_height. right; left. apply N.eqb_eq in E4. apply N.eqb_neq in E5.
    repeat split; congruence. }
  exact (G s A).
Qed.

(** handleViewUpdate from a state with step and run state recorded in the context *)
Lemma hr_suspend e m v ja : HR e m -> HR e (view_tail v ja) -> HR e (suspend_with_tail m v ja).
Proof.
  intros Hm Ht s A. unfold suspend_with_tail.
  destruct (Hm s A) as [F G]. destruct (m s) as [[s1 o1] f1]. simpl in *.
  destruct f1; simpl; try (split; [exact F|intros E; discriminate E]).
  specialize (G eq_refl). destruct (Ht s1 G) as [F2 G2].
  destruct (view_tail v ja s1) as [[s2 o2] f2]. simpl in *.
  split; [apply Forall_app; split; assumption|exact G2].
Qed.

Lemma hr_handle_view_update v ja s : at_round (c_h c) (c_r c) s -> c_st c = rS (rl s) -> c_run c = run s -> run s = Idle ->
  hr_at (EvView v ja) s (handle_view_update v ja).
Proof.
  intros A HS HRn HI. unfold hr_at, handle_view_update, withS.
  assert (JA : forall j, ja = Some j -> exit_cause c (EvView v ja)).
  { intros j ->. right; left. eauto. }
  assert (G : HR (EvView v ja)
    (if v_h v =? 0 then match ja with None => stop (FPanic P_viewUpdate_empty) | Some j => handle_jump_ahead j end
     else if negb ((v_h v =? rH (rl s)) && (v_r v =? rR (rl s))) then ret
     else match rVRV (rl s) with
          | None => stop (FPanic P_nil_vrv)
          | Some cur =>
              if v_ver v <=? v_ver cur then stop FHalt
              else
                let st := rS (rl s) in
                let handler :=
                  if st =? StepAwaitingProposal then handle_proposal_view v
                  else if (st =? StepAwaitingPrevotes) || (st =? StepPrevoteDelay) then handle_prevote_view v
                  else if (st =? StepAwaitingPrecommits) || (st =? StepPrecommitDelay) then handle_precommit_view v
                  else if (st =? StepCommitWait) || (st =? StepAwaitingFinalization) then handle_commit_wait_view v
                  else stop (FPanic P_viewUpdate_step) in
                suspend_with_tail handler v ja
          end)).
  { destruct (v_h v =? 0).
    { destruct ja as [j|]; [|hs]. apply hr_handle_jump_ahead. eapply JA; reflexivity. }
    destruct (negb _); [hs|]. destruct (rVRV (rl s)) as [cur|]; [|hs].
    destruct (v_ver v <=? v_ver cur); [hs|]. cbv zeta.
    apply hr_suspend; [|apply hr_view_tail; exact JA].
    destruct (rS (rl s) =? StepAwaitingProposal); [apply hr_handle_proposal_view; reflexivity|].
    destruct ((rS (rl s) =? StepAwaitingPrevotes) || _); [apply hr_handle_prevote_view; reflexivity|].
    destruct ((rS (rl s) =? StepAwaitingPrecommits) || _); [apply hr_handle_precommit_view; reflexivity|].
    destruct ((rS (rl s) =? StepCommitWait) || _) eqn:E; [|hs].
    apply hr_handle_commit_wait_view; [reflexivity|]. split; [|congruence].
    apply orb_true_iff in E. destruct E as [E|E]; apply N.eqb_eq in E; [left|right]; congruence. }
  exact (G s A).
Qed.

(** start-up after the first round entrance response, and the second half of advance *)
Lemma hr_init_after_vrv v : HR (EvRERespVRV v) (init_after_vrv v).
Proof.
  unfold init_after_vrv. hs.
  - (* reset to the same round *)
    destruct A as [A1 A2]. unfold reset. hs; [apply hr_cancel_timer|].
    apply hr_updr_at. intros l. simpl. rewrite A1, A2. split; reflexivity.
  - dif; hs. dif; hs.
  - dif; hs. dif; hs.
  - dif; hs. apply hr_emit. intros; right; eauto.
  - unfold enter_round. hs. destruct (cm s3); hs.
    + apply hr_say. simpl. eauto.
    + destruct (enterErr s3); hs.
  - apply (hr_begin_round_live c (EvRERespVRV v) _ v); [reflexivity|repeat split].
Qed.

Lemma hr_init_after_ch e bh h pr : is_ch_resp e h pr bh -> HR e (init_after_ch bh h pr).
Proof.
  intros Hc. unfold init_after_ch. hs.
  - destruct A as [A1 A2]. unfold reset. hs; [apply hr_cancel_timer|].
    apply hr_updr_at. intros l. simpl. rewrite A1, A2. split; reflexivity.
  - apply hr_finalize_req. left. exact Hc.
Qed.

Lemma hr_advance_after_vrv v : HR (EvRERespVRV v) (advance_after_vrv v).
Proof.
  unfold advance_after_vrv. hs.
  - unfold enter_round. hs. destruct (cm s0); hs.
    + apply hr_say. simpl. eauto.
    + destruct (enterErr s0); hs.
  - apply (hr_begin_round_live c (EvRERespVRV v) v v); [reflexivity|repeat split].
Qed.

Lemma hr_advance_after_ch e bh h pr : is_ch_resp e h pr bh -> HR e (advance_after_ch bh h pr).
Proof.
  intros Hc. unfold advance_after_ch. hs. apply hr_finalize_req. left. exact Hc.
Qed.

End Events.

(** ** Every event *)
Lemma finish_outs c e r : Forall (Pout c e) (snd (fst r)) -> Forall (Pout c e) (snd (finish r)).
Proof.
  destruct r as [[s o] f]. simpl. intros F.
  destruct f; simpl; auto; apply Forall_app; split; auto; repeat constructor.
Qed.

Lemma resume_outs c e m tail s :
  at_round (c_h c) (c_r c) s -> hr (c_h c) (c_r c) (Pout c e) m ->
  (forall v j, tail = Some (v, Some j) -> exit_cause c e) ->
  Forall (Pout c e) (snd (fst (resume_adv m tail s))).
Proof.
  intros A Hm Ht. unfold resume_adv.
  assert (A' : at_round (c_h c) (c_r c) (set_run Idle s)) by exact A.
  destruct (Hm _ A') as [F G]. destruct (m (set_run Idle s)) as [[s1 o1] f1]. simpl in *.
  destruct f1; simpl; auto.
  destruct tail as [[v ja]|]; simpl; auto.
  specialize (G eq_refl).
  assert (Hv : hr (c_h c) (c_r c) (Pout c e) (view_tail v ja)).
  { apply hr_view_tail. intros j ->. eapply Ht; reflexivity. }
  destruct (Hv s1 G) as [F2 _]. destruct (view_tail v ja s1) as [[s2 o2] f2]. simpl in *.
  apply Forall_app; split; assumption.
Qed.

Ltac hs := repeat hr_step.

Theorem dispatch_outputs s e : e <> EvStart -> deliverable s e = true ->
  Forall (Pout (ctx_of s) e) (snd (dispatch (set_pend 0 s) e)).
Proof.
  intros NS D.
  set (c := ctx_of s).
  assert (A : at_round (c_h c) (c_r c) (set_pend 0 s)) by (split; reflexivity).
  destruct e; try congruence; unfold dispatch.
  - (* stop *) constructor.
  - (* response: view *)
    change (run (set_pend 0 s)) with (run s).
    destruct (run s) eqn:R; try constructor.
    + destruct (is_ch_view v) eqn:Z.
      * apply finish_outs. refine (proj1 (hr_init_after_ch c _ [] 0 0 _ (set_run Idle (set_pend 0 s)) A)).
        unfold is_ch_view in Z. apply N.eqb_eq in Z. simpl. auto.
      * apply finish_outs. exact (proj1 (hr_init_after_vrv c v (set_run Idle (set_pend 0 s)) A)).
    + destruct (is_ch_view v) eqn:Z; apply finish_outs; apply resume_outs; try exact A.
      * apply hr_advance_after_ch. unfold is_ch_view in Z. apply N.eqb_eq in Z. simpl. auto.
      * intros v0 j ->. right; right; left. exists v0, j. exact R.
      * apply hr_advance_after_vrv.
      * intros v0 j ->. right; right; left. exists v0, j. exact R.
  - (* response: committed header *)
    change (run (set_pend 0 s)) with (run s).
    destruct (run s) eqn:R; try constructor.
    + apply finish_outs. refine (proj1 (hr_init_after_ch c _ bh h pr _ (set_run Idle (set_pend 0 s)) A)). simpl. auto.
    + apply finish_outs. apply resume_outs; try exact A.
      * apply hr_advance_after_ch. simpl. auto.
      * intros v0 j ->. right; right; left. exists v0, j. exact R.
  - (* view update *)
    apply finish_outs.
    refine (proj1 (hr_handle_view_update c v ja (set_pend 0 s) A eq_refl eq_refl _)).
    unfold deliverable, idle_live in D. simpl. destruct (run s); try discriminate. reflexivity.
  - (* timer *)
    change (rTimer (rl (set_hTimer None (set_pend 0 s)))) with (rTimer (rl s)).
    destruct (rTimer (rl s)); [|constructor].
    apply finish_outs.
    exact (proj1 (hr_handle_timer_elapsed c (set_hTimer None (set_pend 0 s)) A eq_refl eq_refl)).
  - (* strategy answer *)
    change (cm (set_pend 0 s)) with (cm s).
    destruct (cm s) as [[[ck g] op]|]; [|constructor].
    destruct ((kind =? 1) && (ck =? K_consider)); [constructor|].
    destruct (negb op); [apply finish_outs; constructor|].
    match goal with |- context [if ?b then _ else _] => destruct b end; [|constructor].
    destruct (kind =? 0) eqn:K; [|apply finish_outs; constructor].
    apply N.eqb_eq in K. subst kind.
    destruct (ck =? K_decide); apply finish_outs.
    + assert (G : hr (c_h c) (c_r c) (Pout c (EvAnswer 0 t)) (record_precommit t ;; updr (set_rPcCh false))).
      { hs. apply hr_record_precommit. }
      exact (proj1 (G (set_cm None (set_pend 0 s)) A)).
    + assert (G : hr (c_h c) (c_r c) (Pout c (EvAnswer 0 t)) (record_prevote t ;; updr (set_rPvCh false))).
      { hs. apply hr_record_prevote. }
      exact (proj1 (G (set_cm None (set_pend 0 s)) A)).
  - (* proposal *)
    change (propOut (set_pend 0 s)) with (propOut s).
    destruct (propOut s =? 1); [|constructor].
    apply finish_outs.
    assert (G : hr (c_h c) (c_r c) (Pout c (EvProposal d))
                  (record_proposed_header d ;; updr (set_rPropCh false) ;; upd (set_propOut 2))).
    { hs. apply hr_record_proposed_header. }
    exact (proj1 (G _ A)).
  - (* finalization response *)
    change (finReq (set_pend 0 s)) with (finReq s).
    destruct (finReq s) as [[[[g ?] ?] ?]|]; [|constructor].
    match goal with |- context [if ?b then _ else _] => destruct b end; [|constructor].
    match goal with |- context [match ?x with _ => _ end] => destruct x end; apply finish_outs.
    + exact (proj1 (hr_handle_finalization c h r bh vs ash (set_finReq None (set_pend 0 s)) A)).
    + assert (G : hr (c_h c) (c_r c) (Pout c (EvFinResp h r bh vs ash))
                  (updr (set_rS StepAwaitingFinalization) ;; handle_finalization h r bh vs ash)).
      { hs. apply hr_handle_finalization. }
      exact (proj1 (G (set_finReq None (set_pend 0 s)) A)).
  - (* height committed *)
    match goal with |- context [if ?b then _ else _] => destruct b end; [|constructor].
    apply finish_outs. exact (proj1 (hr_handle_height_committed c (set_hcOpen false (set_pend 0 s)) A)).
  - (* block data *)
    apply finish_outs. exact (proj1 (hr_handle_block_data c _ h r d _ A)).
  - constructor.
Qed.

Theorem step_outputs s e : e <> EvStart -> Forall (Pout (ctx_of s) e) (snd (step s e)).
Proof.
  intros NS. unfold step. destruct (deliverable s e) eqn:D.
  - pose proof (dispatch_outputs s e NS D) as F.
    destruct (dispatch (set_pend 0 s) e) as [s1 o]. exact F.
  - repeat constructor.
Qed.
