(** C13 (BLS tree) - walkFromRoot / SparseIndices: the listed ids are exactly the MAXIMAL nodes whose stored
    signature is set, each once; their real-leaf ranges are pairwise disjoint and cover the bit set. *)
From Coq Require Import List NArith ZArith String Bool Lia Arith.
From GV Require Import Base.Ints Model.SimpleProofBase Model.BlsTree Proofs.BlsTreeBase Proofs.BlsTreeAdd
  Proofs.BlsTreeProof Proofs.BlsTreeMachine.
Import ListNotations.
Local Open Scope N_scope.

(* ------------------------------------------------------------------ list helpers *)
Lemma nth_as_error : forall A (l : list A) j d,
  nth j l d = match nth_error l j with Some x => x | None => d end.
Proof. induction l; destruct j; cbn; auto. Qed.

Lemma nth_error_skipn' : forall A (l : list A) s j, nth_error (skipn s l) j = nth_error l (s + j).
Proof. induction l; destruct s; cbn; intros; auto. destruct j; reflexivity. Qed.

Lemma nth_error_firstn' : forall A (l : list A) w j, (j < w)%nat -> nth_error (firstn w l) j = nth_error l j.
Proof.
  induction l; intros w j H; destruct w; cbn; try lia; destruct j; cbn; auto. apply IHl. lia.
Qed.

Lemma NoDup_app' : forall A (a b : list A), NoDup a -> NoDup b -> (forall x, In x a -> ~ In x b) -> NoDup (a ++ b).
Proof.
  induction a; intros b Ha Hb H; cbn; [assumption|]. inversion Ha; subst. constructor.
  - intro C. apply in_app_or in C. destruct C as [C|C]; [contradiction|]. apply (H a); [left; reflexivity|assumption].
  - apply IHa; auto. intros x Hx. apply H. right. assumption.
Qed.

Definition issome (o : option bsig) : bool := match o with Some _ => true | None => false end.

(** "the stored signature at idx is non-zero" *)
Definition set_at (sigs : list (option bsig)) (idx : N) : bool :=
  match nthN sigs idx with Some (Some _) => true | _ => false end.

Lemma set_at_is_set : forall sigs idx, set_at sigs idx = true <-> is_set sigs idx.
Proof.
  intros. unfold set_at, is_set. destruct (nthN sigs idx) as [[s|]|]; split; intro H; try discriminate; eauto;
    destruct H as [sg H]; discriminate.
Qed.

Lemma set_at_nth : forall sigs idx, set_at sigs idx = issome (nth (N.to_nat idx) sigs None).
Proof. intros. unfold set_at, nthN. rewrite nth_as_error. destruct (nth_error sigs (N.to_nat idx)) as [[s|]|]; reflexivity. Qed.

(* ------------------------------------------------------------------ one row *)
Lemma walk_row_spec : forall row skip i ids sk,
  (List.length row <= List.length skip)%nat -> walk_row row skip i = (ids, sk) ->
  List.length sk = List.length skip /\
  (forall j, (j < List.length row)%nat -> nth j sk false = nth j skip false || issome (nth j row None)) /\
  (forall j, (List.length row <= j)%nat -> nth j sk false = nth j skip false) /\
  (forall x, In x ids <-> exists j, (j < List.length row)%nat /\ x = i + N.of_nat j /\
                                    nth j skip false = false /\ issome (nth j row None) = true) /\
  NoDup ids.
Proof.
  induction row as [|s rt IH]; intros skip i ids sk HL E.
  - cbn in E. inversion E; subst. split; [reflexivity|]. split; [intros j Hj; cbn in Hj; lia|].
    split; [intros; reflexivity|]. split; [|constructor].
    intro x. split; [intros []|intros (j & A & _); cbn in A; lia].
  - destruct skip as [|k kt]; [cbn in HL; lia|]. cbn [walk_row] in E.
    destruct (walk_row rt kt (i + 1)) as [ids' sk'] eqn:E'.
    cbn [List.length] in HL.
    destruct (IH kt (i + 1) ids' sk' ltac:(lia) E') as (L & A & B & C & D).
    assert (Hids' : forall x, In x ids' -> i < x).
    { intros x Hx. apply C in Hx. destruct Hx as (j & _ & -> & _). lia. }
    assert (Hshift : forall x, (exists j, (j < List.length rt)%nat /\ x = i + 1 + N.of_nat j /\
                                  nth j kt false = false /\ issome (nth j rt None) = true) <->
                         (exists j, (j < List.length (s :: rt))%nat /\ j <> O /\ x = i + N.of_nat j /\
                                  nth j (k :: kt) false = false /\ issome (nth j (s :: rt) None) = true)).
    { intro x. split.
      - intros (j & J1 & J2 & J3 & J4). exists (S j). cbn [List.length nth]. repeat split; auto; lia.
      - intros (j & J1 & J0 & J2 & J3 & J4). destruct j; [congruence|]. exists j. cbn [List.length nth] in *.
        repeat split; auto; lia. }
    assert (Hcommon : List.length (k || issome s :: sk') = List.length (k :: kt) /\
      (forall j, (j < List.length (s :: rt))%nat ->
          nth j (k || issome s :: sk') false = nth j (k :: kt) false || issome (nth j (s :: rt) None)) /\
      (forall j, (List.length (s :: rt) <= j)%nat -> nth j (k || issome s :: sk') false = nth j (k :: kt) false)).
    { cbn [List.length]. split; [lia|]. split.
      - intros [|j] Hj; cbn [nth]; [reflexivity|]. apply A. cbn [List.length] in Hj. lia.
      - intros [|j] Hj; cbn [List.length] in Hj; [lia|]. cbn [nth]. apply B. lia. }
    destruct k.
    + inversion E; subst. destruct Hcommon as (H1 & H2 & H3). cbn [orb] in *.
      split; [exact H1|]. split; [exact H2|]. split; [exact H3|]. split; [|exact D].
      intro x. rewrite C, Hshift. split.
      * intros (j & J1 & _ & J2). exists j. auto.
      * intros (j & J1 & J2 & J3 & J4). exists j. destruct j; [cbn in J3; discriminate|]. repeat split; auto.
    + destruct s as [sg|].
      * inversion E; subst. destruct Hcommon as (H1 & H2 & H3). cbn [orb issome] in *.
        split; [exact H1|]. split; [exact H2|]. split; [exact H3|]. split.
        -- intro x. cbn [In]. rewrite C, Hshift. split.
           ++ intros [<-|(j & J1 & _ & J2)]; [|exists j; auto].
              exists O. cbn [List.length nth issome]. repeat split; auto; lia.
           ++ intros (j & J1 & J2 & J3 & J4). destruct j; [left; lia|]. right. exists (S j). repeat split; auto.
        -- constructor; [|exact D]. intro Hin. apply Hids' in Hin. lia.
      * inversion E; subst. destruct Hcommon as (H1 & H2 & H3). cbn [orb issome] in *.
        split; [exact H1|]. split; [exact H2|]. split; [exact H3|]. split; [|exact D].
        intro x. rewrite C, Hshift. split.
        -- intros (j & J1 & _ & J2). exists j. auto.
        -- intros (j & J1 & J2 & J3 & J4). exists j. destruct j; [cbn in J4; discriminate|]. repeat split; auto.
Qed.

Lemma double_skip_length : forall sk, List.length (double_skip sk) = (2 * List.length sk)%nat.
Proof. induction sk; cbn [double_skip List.length]; lia. Qed.

Lemma double_skip_nth : forall sk j, nth j (double_skip sk) false = nth (Nat.div2 j) sk false.
Proof.
  induction sk as [|b t IH]; intros j.
  - cbn. destruct j; [reflexivity|]. destruct (Nat.div2 (S j)); reflexivity.
  - destruct j as [|[|j]]; cbn [double_skip nth Nat.div2]; auto.
Qed.

Lemma of_nat_div2 : forall j, N.of_nat (Nat.div2 j) = N.of_nat j / 2.
Proof.
  intro j. rewrite Nat.div2_div.
  pose proof (Nat.div_mod j 2 ltac:(lia)) as A. pose proof (Nat.mod_upper_bound j 2 ltac:(lia)) as B.
  pose proof (N.div_mod (N.of_nat j) 2 ltac:(lia)) as C. pose proof (N.mod_upper_bound (N.of_nat j) 2 ltac:(lia)) as D.
  remember (j / 2)%nat as q. remember (j mod 2)%nat as r.
  remember (N.of_nat j / 2) as q'. remember (N.of_nat j mod 2) as r'. lia.
Qed.

(* ------------------------------------------------------------------ ancestors *)
Definition nidx (h d : nat) (off : N) : N := lstart h d + off.

(** some proper ancestor of node (d, off) at a level in [lo, d) has its signature set *)
Fixpoint anc_setb (h : nat) (sigs : list (option bsig)) (lo d : nat) (off : N) : bool :=
  match d with
  | O => false
  | S d' => (lo <=? d')%nat && (set_at sigs (nidx h d' (off / 2)) || anc_setb h sigs lo d' (off / 2))
  end.

(** the ancestor m levels up *)
Fixpoint upn (m : nat) (off : N) : N := match m with O => off | S m' => upn m' (off / 2) end.

Lemma half_lt : forall d off, off < p2 (S d) -> off / 2 < p2 d.
Proof. intros. cbn [p2] in H. apply N.div_lt_upper_bound; lia. Qed.

Lemma upn_lt : forall m d off, off < p2 (m + d) -> upn m off < p2 d.
Proof. induction m; intros d off H; cbn [upn plus] in *; [assumption|]. apply IHm. now apply half_lt. Qed.

Lemma anc_lo : forall h sigs d off, set_at sigs (nidx h 0 0) = false -> off < p2 d ->
  anc_setb h sigs 0 d off = anc_setb h sigs 1 d off.
Proof.
  induction d; intros off Hr Ho; [reflexivity|]. cbn [anc_setb]. pose proof (half_lt d off Ho) as Hh.
  destruct d.
  - cbn [p2] in Hh. assert (off / 2 = 0) by (apply N.lt_1_r; exact Hh). rewrite H. cbn. rewrite Hr. reflexivity.
  - rewrite (IHd (off / 2) Hr Hh). reflexivity.
Qed.

Lemma anc_root : forall h sigs d off, set_at sigs (nidx h 0 0) = true -> (1 <= d)%nat -> off < p2 d ->
  anc_setb h sigs 0 d off = true.
Proof.
  induction d; intros off Hr Hd Ho; [lia|]. cbn [anc_setb]. pose proof (half_lt d off Ho) as Hh.
  destruct d.
  - cbn [p2] in Hh. assert (off / 2 = 0) by (apply N.lt_1_r; exact Hh). rewrite H. cbn. rewrite Hr. reflexivity.
  - rewrite (IHd (off / 2) Hr ltac:(lia) Hh). cbn. apply orb_true_r.
Qed.

(** a set ancestor m levels up makes anc_setb true *)
Lemma anc_of_up : forall h sigs m d off, (1 <= m)%nat ->
  set_at sigs (nidx h d (upn m off)) = true -> anc_setb h sigs 0 (m + d) off = true.
Proof.
  induction m; intros d off Hm Hs; [lia|]. cbn [plus anc_setb upn] in *. destruct m.
  - cbn [upn plus] in *. rewrite Hs. reflexivity.
  - rewrite (IHm d (off / 2) ltac:(lia) Hs). cbn. apply orb_true_r.
Qed.

(** every set node, and every node with a set ancestor, has a MAXIMAL set ancestor-or-self *)
Lemma exists_max_anc : forall h sigs d off,
  set_at sigs (nidx h d off) = true \/ anc_setb h sigs 0 d off = true ->
  exists m d', d = (m + d')%nat /\ set_at sigs (nidx h d' (upn m off)) = true /\
               anc_setb h sigs 0 d' (upn m off) = false.
Proof.
  induction d; intros off H.
  - cbn [anc_setb] in H. destruct H as [H|H]; [|discriminate]. exists O, O. cbn [upn anc_setb]. auto.
  - destruct (anc_setb h sigs 0 (S d) off) eqn:E.
    + cbn [anc_setb] in E. cbn in E. apply orb_true_iff in E.
      destruct (IHd (off / 2) E) as (m & d' & A & B & C). exists (S m), d'. cbn [upn]. split; [lia|auto].
    + destruct H as [H|H]; [|discriminate]. exists O, (S d). cbn [upn]. auto.
Qed.

Lemma in_node_up1 : forall h d off i, (S d <= h)%nat -> in_node h (S d) off i -> in_node h d (off / 2) i.
Proof.
  intros h d off i Hd H. unfold in_node in *. rewrite (p2_h_sub h d Hd).
  pose proof (N.div_mod off 2 ltac:(lia)) as A. pose proof (N.mod_upper_bound off 2 ltac:(lia)) as B.
  remember (off / 2) as q. remember (off mod 2) as r. remember (p2 (h - S d)) as nl.
  assert (r = 0 \/ r = 1) as [-> | ->] by lia; subst off; lia.
Qed.

Lemma in_node_up : forall h m d off i, (m + d <= h)%nat -> in_node h (m + d) off i -> in_node h d (upn m off) i.
Proof.
  induction m; intros d off i Hd H; cbn [upn plus] in *; [assumption|].
  apply IHm; [lia|]. apply in_node_up1; [lia|assumption].
Qed.

Lemma in_node_same_level : forall h d o o' i, in_node h d o i -> in_node h d o' i -> o = o'.
Proof.
  intros h d o o' i [A B] [C D]. pose proof (p2_pos (h - d)). remember (p2 (h - d)) as nl.
  destruct (N.lt_trichotomy o o') as [L|[L|L]]; [|assumption|].
  - exfalso. assert (o + 1 <= o') by lia. assert ((o + 1) * nl <= o' * nl) by (apply N.mul_le_mono_r; assumption). lia.
  - exfalso. assert (o' + 1 <= o) by lia. assert ((o' + 1) * nl <= o * nl) by (apply N.mul_le_mono_r; assumption). lia.
Qed.

(* ------------------------------------------------------------------ row slices *)
Lemma slice_length : forall A (l : list A) s w, (s + w <= List.length l)%nat ->
  List.length (firstn w (skipn s l)) = w.
Proof. intros. rewrite firstn_length, skipn_length. lia. Qed.

Lemma slice_nth : forall (l : list (option bsig)) s w j, (j < w)%nat ->
  nth j (firstn w (skipn s l)) None = nth (s + j) l None.
Proof.
  intros. rewrite !nth_as_error. rewrite nth_error_firstn' by assumption. now rewrite nth_error_skipn'.
Qed.

(* ------------------------------------------------------------------ the rows above the leaves *)
Lemma walk_rows_spec : forall h sigs, lenN sigs = 2 * p2 h - 1 ->
  forall m fuel k skip acc, (h = k + m)%nat -> (1 <= k)%nat -> (m < fuel)%nat ->
   List.length skip = N.to_nat (p2 k) ->
   (forall j, (j < N.to_nat (p2 k))%nat -> nth j skip false = anc_setb h sigs 1 k (N.of_nat j)) ->
   exists new skip',
     walk_rows fuel sigs (Z.of_N (lstart h k)) (p2 k) skip acc = Some (acc ++ new, skip') /\
     List.length skip' = N.to_nat (p2 h) /\
     (forall j, (j < N.to_nat (p2 h))%nat -> nth j skip' false = anc_setb h sigs 1 h (N.of_nat j)) /\
     (forall x, In x new <-> exists d off, (k <= d < h)%nat /\ off < p2 d /\ x = nidx h d off /\
                              set_at sigs x = true /\ anc_setb h sigs 1 d off = false) /\
     NoDup new.
Proof.
  intros h sigs HL. induction m; intros fuel k skip acc Hh Hk Hf Hlen Hskip.
  - assert (k = h) by lia. subst k. destruct fuel; [lia|]. cbn [walk_rows]. rewrite lstart_h.
    change (0 <? Z.of_N 0)%Z with false. cbv iota.
    exists [], skip. rewrite app_nil_r. split; [reflexivity|]. split; [assumption|]. split; [assumption|].
    split; [|constructor]. intro x. split; [intros []|intros (d & off & A & _); lia].
  - destruct fuel; [lia|]. cbn [walk_rows].
    assert (Hk' : (S k <= h)%nat) by lia.
    pose proof (p2_mono (S k) h Hk') as Hm. cbn [p2] in Hm. pose proof (p2_pos k) as Hpk.
    assert (Hls : lstart h k = lstart h (S k) + p2 (S k)) by (apply lstart_S; assumption).
    assert (Hpos : 0 < lstart h k) by (rewrite Hls; cbn [p2]; lia).
    replace (0 <? Z.of_N (lstart h k))%Z with true by (symmetry; apply Z.ltb_lt; lia).
    rewrite N2Z.id.
    set (row := firstnN (p2 k) (skipnN (lstart h k) sigs)).
    assert (Hbound : (N.to_nat (lstart h k) + N.to_nat (p2 k) <= List.length sigs)%nat).
    { unfold lenN in HL. unfold lstart in *. lia. }
    assert (Hrl : List.length row = N.to_nat (p2 k)).
    { unfold row, firstnN, skipnN. apply slice_length. exact Hbound. }
    assert (Hrn : forall j, (j < N.to_nat (p2 k))%nat ->
                   issome (nth j row None) = set_at sigs (nidx h k (N.of_nat j))).
    { intros j Hj. unfold row, firstnN, skipnN. rewrite slice_nth by assumption. rewrite set_at_nth.
      unfold nidx. f_equal. f_equal. lia. }
    destruct (walk_row row skip (lstart h k)) as [ids sk] eqn:Ew.
    destruct (walk_row_spec row skip (lstart h k) ids sk ltac:(lia) Ew) as (L & A & B & C & D).
    replace (Z.of_N (lstart h k) - Z.of_N (p2 k * 2))%Z with (Z.of_N (lstart h (S k)))
      by (rewrite Hls; cbn [p2]; lia).
    replace (p2 k * 2) with (p2 (S k)) by (cbn [p2]; lia).
    destruct (IHm fuel (S k) (double_skip sk) (acc ++ ids)) as (new & skip' & R1 & R2 & R3 & R4 & R5); try lia.
    { rewrite double_skip_length, L, Hlen. cbn [p2]. lia. }
    { intros j Hj. rewrite double_skip_nth.
      assert (Hd2 : (Nat.div2 j < N.to_nat (p2 k))%nat).
      { pose proof (of_nat_div2 j) as Q. cbn [p2] in Hj.
        assert (N.of_nat j / 2 < p2 k) by (apply N.div_lt_upper_bound; lia). lia. }
      rewrite A by lia. rewrite Hskip by assumption. rewrite Hrn by assumption.
      cbn [anc_setb]. replace (1 <=? k)%nat with true by (symmetry; apply Nat.leb_le; lia).
      rewrite of_nat_div2. cbn [andb]. apply orb_comm. }
    exists (ids ++ new), skip'. rewrite app_assoc. split; [exact R1|]. split; [exact R2|]. split; [exact R3|].
    assert (Hids : forall x, In x ids <-> exists off, off < p2 k /\ x = nidx h k off /\
                                set_at sigs x = true /\ anc_setb h sigs 1 k off = false).
    { intro x. rewrite C. split.
      - intros (j & J1 & -> & J3 & J4). exists (N.of_nat j). rewrite Hrl in J1.
        rewrite Hskip in J3 by assumption. rewrite Hrn in J4 by assumption.
        split; [lia|]. split; [reflexivity|]. split; assumption.
      - intros (off & O1 & -> & O3 & O4). exists (N.to_nat off). rewrite Hrl.
        assert (Hj : (N.to_nat off < N.to_nat (p2 k))%nat) by lia.
        rewrite Hskip by assumption. rewrite Hrn by assumption. rewrite N2Nat.id.
        split; [assumption|]. split; [reflexivity|]. split; assumption. }
    split.
    + intro x. rewrite in_app_iff, Hids, R4. split.
      * intros [(off & O1 & O2 & O3 & O4)|(d & off & O0 & O1 & O2 & O3 & O4)].
        -- exists k, off. repeat split; auto; lia.
        -- exists d, off. repeat split; auto; lia.
      * intros (d & off & O0 & O1 & O2 & O3 & O4). destruct (Nat.eq_dec d k) as [->|Hne].
        -- left. exists off. auto.
        -- right. exists d, off. repeat split; auto; lia.
    + apply NoDup_app'; [exact D|exact R5|].
      intros x Hx Hy. apply Hids in Hx. apply R4 in Hy.
      destruct Hx as (off & O1 & O2 & _). destruct Hy as (d & off' & O0 & O1' & O2' & _).
      rewrite O2 in O2'. unfold nidx in O2'.
      destruct (node_unique h k off d off' ltac:(lia) ltac:(lia) O1 O1' O2') as [E _]. lia.
Qed.

(* ------------------------------------------------------------------ SparseIndices = the maximal set nodes *)
(** node (d, off) is set and no proper ancestor (root included) is set *)
Definition maxb (h : nat) (sigs : list (option bsig)) (d : nat) (off : N) : bool :=
  set_at sigs (nidx h d off) && negb (anc_setb h sigs 0 d off).

Definition is_max (h : nat) (sigs : list (option bsig)) (x : N) : Prop :=
  exists d off, (d <= h)%nat /\ off < p2 d /\ x = nidx h d off /\ maxb h sigs d off = true.

Lemma leaf_set_real : forall msg h t off, wf_tree h t -> sigs_genuine msg t -> off < p2 h ->
  set_at (t_sigs t) (nidx h h off) = true -> off < t_n t.
Proof.
  intros msg h t off Hwf Hgen Ho Hs. apply set_at_is_set in Hs. destruct Hs as [sg Hs].
  destruct (Hgen _ _ Hs) as (ks & Hk & _). unfold nidx in Hk.
  rewrite (wf_keys _ _ Hwf h off (le_n h) Ho) in Hk. unfold rkey in Hk. rewrite Nat.sub_diag in Hk. cbn [p2] in Hk.
  destruct (off * 1 <? t_n t) eqn:E; [|discriminate]. apply N.ltb_lt in E. lia.
Qed.

Theorem sparse_indices_spec : forall msg h t, inv msg h t ->
  exists ids, sparse_indices t = Ok ids /\ NoDup ids /\ forall x, In x ids <-> is_max h (t_sigs t) x.
Proof.
  intros msg h t (Hwf & Hgen & Hex). unfold sparse_indices.
  pose proof (wf_sigs _ _ Hwf) as HL. pose proof (p2_pos h) as Hp. pose proof (wf_h _ _ Hwf) as Hh16.
  pose proof (wf_n1 _ _ Hwf) as Hn1. pose proof (wf_nw _ _ Hwf) as Hnw.
  set (sigs := t_sigs t) in *.
  assert (Hroot : lenN sigs - 1 = nidx h 0 0) by (unfold nidx, lstart; cbn [p2]; lia).
  rewrite Hroot.
  destruct (nthN_lt_some _ sigs (nidx h 0 0)) as [r Hr]; [rewrite <- Hroot; lia|]. rewrite Hr.
  destruct r as [rs|].
  - (* the root is set *)
    assert (Hrs : set_at sigs (nidx h 0 0) = true) by (unfold set_at; now rewrite Hr).
    exists [nidx h 0 0]. split; [reflexivity|]. split; [repeat constructor; intros []|].
    intro x. cbn [In]. split.
    + intros [<-|[]]. exists O, 0. cbn [p2]. repeat split; try lia. unfold maxb. cbn [anc_setb]. now rewrite Hrs.
    + intros (d & off & Hd & Ho & -> & Hm). left. destruct d.
      * cbn [p2] in Ho. f_equal. lia.
      * unfold maxb in Hm. rewrite (anc_root h sigs (S d) off Hrs ltac:(lia) Ho) in Hm.
        rewrite andb_false_r in Hm. discriminate.
  - (* the root is not set: rows, then the leaf row *)
    assert (Hrs : set_at sigs (nidx h 0 0) = false) by (unfold set_at; now rewrite Hr).
    assert (Hw : exists new skip',
       walk_rows 18 sigs (Z.of_N (lenN sigs) - 3) 2 [false; false] [] = Some (new, skip') /\
       (N.to_nat (t_n t) <= List.length skip')%nat /\
       (forall j, (j < N.to_nat (t_n t))%nat -> nth j skip' false = anc_setb h sigs 1 h (N.of_nat j)) /\
       (forall x, In x new <-> exists d off, (1 <= d < h)%nat /\ off < p2 d /\ x = nidx h d off /\
                              set_at sigs x = true /\ anc_setb h sigs 1 d off = false) /\
       NoDup new).
    { destruct h as [|h'].
      - exists [], [false; false]. rewrite HL. cbn [p2]. split; [reflexivity|]. cbn [p2] in Hnw.
        split; [cbn; lia|]. split.
        + intros j Hj. assert (j = O) by lia. subst. reflexivity.
        + split; [|constructor]. intro x. split; [intros []|intros (d & off & A & _); lia].
      - destruct (walk_rows_spec (S h') sigs HL h' 18 1%nat [false; false] []) as (new & skip' & R1 & R2 & R3 & R4 & R5);
          try lia; try reflexivity.
        { intros j Hj. cbn [anc_setb]. cbn. destruct j as [|[|j]]; try reflexivity. cbn in Hj. lia. }
        exists new, skip'. cbn [app] in R1.
        replace (Z.of_N (lenN sigs) - 3)%Z with (Z.of_N (lstart (S h') 1)).
        2:{ rewrite HL. unfold lstart. cbn [p2] in *. lia. }
        change 2 with (p2 1) at 1. split; [exact R1|]. split; [lia|]. split; [intros j Hj; apply R3; lia|].
        split; [exact R4|exact R5]. }
    destruct Hw as (new & skip' & W1 & W2 & W3 & W4 & W5). rewrite W1.
    set (row := firstnN (t_n t) sigs).
    assert (Hrl : List.length row = N.to_nat (t_n t)).
    { unfold row, firstnN. rewrite firstn_length. unfold lenN in HL. lia. }
    assert (Hrn : forall j, (j < N.to_nat (t_n t))%nat -> issome (nth j row None) = set_at sigs (nidx h h (N.of_nat j))).
    { intros j Hj. unfold row, firstnN. rewrite nth_as_error, nth_error_firstn' by assumption.
      rewrite <- nth_as_error. rewrite set_at_nth. unfold nidx. rewrite lstart_h. f_equal. f_equal. lia. }
    destruct (walk_row row skip' 0) as [idl sk] eqn:Ew. cbn [fst].
    destruct (walk_row_spec row skip' 0 idl sk ltac:(lia) Ew) as (_ & _ & _ & C & D).
    assert (Hidl : forall x, In x idl <-> exists off, off < t_n t /\ x = nidx h h off /\
                                set_at sigs x = true /\ anc_setb h sigs 1 h off = false).
    { intro x. rewrite C. split.
      - intros (j & J1 & -> & J3 & J4). exists (N.of_nat j). rewrite Hrl in J1.
        rewrite W3 in J3 by assumption. rewrite Hrn in J4 by assumption.
        unfold nidx in *. rewrite lstart_h in *. split; [lia|]. split; [reflexivity|]. split; assumption.
      - intros (off & O1 & -> & O3 & O4). exists (N.to_nat off). rewrite Hrl.
        assert (Hj : (N.to_nat off < N.to_nat (t_n t))%nat) by lia.
        rewrite W3 by assumption. rewrite Hrn by assumption. rewrite N2Nat.id.
        unfold nidx in *. rewrite lstart_h in *. split; [assumption|]. split; [reflexivity|]. split; assumption. }
    exists (new ++ idl). split; [reflexivity|]. split.
    + apply NoDup_app'; [exact W5|exact D|].
      intros x Hx Hy. apply W4 in Hx. apply Hidl in Hy.
      destruct Hx as (d & off & O0 & O1 & O2 & _). destruct Hy as (off' & O1' & O2' & _).
      rewrite O2 in O2'. unfold nidx in O2'.
      destruct (node_unique h d off h off' ltac:(lia) ltac:(lia) O1 ltac:(lia) O2') as [E _]. lia.
    + intro x. rewrite in_app_iff, W4, Hidl. unfold is_max, maxb. split.
      * intros [(d & off & O0 & O1 & O2 & O3 & O4)|(off & O1 & O2 & O3 & O4)].
        -- exists d, off. split; [lia|]. split; [assumption|]. split; [assumption|].
           rewrite <- O2, O3, (anc_lo h sigs d off Hrs O1), O4. reflexivity.
        -- exists h, off. split; [lia|]. split; [lia|]. split; [assumption|].
           rewrite <- O2, O3, (anc_lo h sigs h off Hrs ltac:(lia)), O4. reflexivity.
      * intros (d & off & Hd & Ho & -> & Hm). apply andb_true_iff in Hm. destruct Hm as [M1 M2].
        apply negb_true_iff in M2. rewrite (anc_lo h sigs d off Hrs Ho) in M2.
        destruct d as [|d].
        -- cbn [p2] in Ho. assert (off = 0) by lia. subst. congruence.
        -- destruct (Nat.eq_dec (S d) h) as [E|E].
           ++ right. subst h. exists off. split; [|auto]. eapply leaf_set_real; eauto.
           ++ left. exists (S d), off. repeat split; auto; lia.
Qed.

(** no listed node has a listed (or even merely set) proper ancestor *)
Lemma max_no_set_ancestor : forall h sigs d off m, maxb h sigs (m + d) off = true -> (1 <= m)%nat ->
  set_at sigs (nidx h d (upn m off)) = false.
Proof.
  intros h sigs d off m Hm H1. apply andb_true_iff in Hm. destruct Hm as [_ M2]. apply negb_true_iff in M2.
  destruct (set_at sigs (nidx h d (upn m off))) eqn:E; [|reflexivity].
  rewrite (anc_of_up h sigs m d off H1 E) in M2. discriminate.
Qed.

Lemma max_leaves : forall msg h t d off, inv msg h t -> (d <= h)%nat -> off < p2 d ->
  set_at (t_sigs t) (nidx h d off) = true ->
  forall i, In i (leaves_of (t_keys t) (nidx h d off)) <-> i < t_n t /\ in_node h d off i.
Proof.
  intros msg h t d off (Hwf & Hgen & _) Hd Ho Hs i. apply set_at_is_set in Hs. destruct Hs as [sg Hs].
  destruct (Hgen _ _ Hs) as (ks & Hk & _). unfold leaves_of. rewrite Hk.
  apply (key_leaves h t d off ks Hwf Hd Ho Hk).
Qed.

(** the listed nodes cover exactly the bit set ... *)
Theorem sparse_cover : forall msg h t ids, inv msg h t -> sparse_indices t = Ok ids ->
  forall i, N.testbit (t_bits t) i = true <-> exists x, In x ids /\ In i (leaves_of (t_keys t) x).
Proof.
  intros msg h t ids Hinv E i. destruct (sparse_indices_spec msg h t Hinv) as (ids' & E' & _ & Hin).
  rewrite E in E'. inversion E'; subst ids'. clear E'. pose proof Hinv as (Hwf & Hgen & Hex). split.
  - intro Hb. apply Hex in Hb. destruct Hb as [Hn (d & off & Hd & Ho & Hs & Hnode)].
    apply set_at_is_set in Hs.
    destruct (exists_max_anc h (t_sigs t) d off (or_introl Hs)) as (m & d' & -> & S1 & S2).
    pose proof (upn_lt m d' off Ho) as Hu.
    exists (nidx h d' (upn m off)). split.
    + apply Hin. exists d', (upn m off). split; [lia|]. split; [assumption|]. split; [reflexivity|].
      unfold maxb. now rewrite S1, S2.
    + apply (max_leaves msg h t d' (upn m off) Hinv ltac:(lia) Hu S1). split; [assumption|].
      apply in_node_up; [lia|assumption].
  - intros (x & Hx & Hi). apply Hin in Hx. destruct Hx as (d & off & Hd & Ho & -> & Hm).
    apply andb_true_iff in Hm. destruct Hm as [M1 _]. pose proof M1 as M1'.
    apply set_at_is_set in M1. destruct M1 as [sg Hs]. destruct (Hgen _ _ Hs) as (ks & Hk & _).
    unfold leaves_of in Hi. rewrite Hk in Hi. exact (set_node_bits msg h t _ ks sg Hinv Hs Hk i Hi).
Qed.

(** ... and their real-leaf ranges are pairwise disjoint *)
Theorem sparse_disjoint : forall msg h t ids, inv msg h t -> sparse_indices t = Ok ids ->
  forall x y i, In x ids -> In y ids -> In i (leaves_of (t_keys t) x) -> In i (leaves_of (t_keys t) y) -> x = y.
Proof.
  intros msg h t ids Hinv E x y i Hx Hy Hix Hiy.
  destruct (sparse_indices_spec msg h t Hinv) as (ids' & E' & _ & Hin).
  rewrite E in E'. inversion E'; subst ids'. clear E'.
  apply Hin in Hx. apply Hin in Hy.
  destruct Hx as (d1 & o1 & Hd1 & Ho1 & -> & Hm1). destruct Hy as (d2 & o2 & Hd2 & Ho2 & -> & Hm2).
  pose proof Hm1 as Hm1'. pose proof Hm2 as Hm2'.
  apply andb_true_iff in Hm1'. destruct Hm1' as [S1 _]. apply andb_true_iff in Hm2'. destruct Hm2' as [S2 _].
  apply (max_leaves msg h t d1 o1 Hinv Hd1 Ho1 S1) in Hix. apply (max_leaves msg h t d2 o2 Hinv Hd2 Ho2 S2) in Hiy.
  destruct Hix as [_ N1]. destruct Hiy as [_ N2].
  destruct (lt_eq_lt_dec d1 d2) as [[L|L]|L].
  - exfalso. replace d2 with ((d2 - d1) + d1)%nat in Hm2, N2 by lia.
    pose proof (in_node_up h (d2 - d1) d1 o2 i ltac:(lia) N2) as N2'.
    pose proof (in_node_same_level h d1 _ _ i N1 N2') as Eo. subst o1.
    rewrite (max_no_set_ancestor h (t_sigs t) d1 o2 (d2 - d1) Hm2 ltac:(lia)) in S1. discriminate.
  - subst d2. f_equal. eapply in_node_same_level; eauto.
  - exfalso. replace d1 with ((d1 - d2) + d2)%nat in Hm1, N1 by lia.
    pose proof (in_node_up h (d1 - d2) d2 o1 i ltac:(lia) N1) as N1'.
    pose proof (in_node_same_level h d2 _ _ i N2 N1') as Eo. subst o2.
    rewrite (max_no_set_ancestor h (t_sigs t) d2 o1 (d1 - d2) Hm1 ltac:(lia)) in S2. discriminate.
Qed.
