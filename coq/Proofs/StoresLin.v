(** C16 - soundness of the linearizability monitor: when [linearizable] accepts a recorded
    concurrent history, there IS a sequential order of its calls that (a) is a permutation
    of the history, (b) never puts a call before one that had already returned when it was
    invoked, and (c) on which the model returns exactly the recorded results. *)
From Coq Require Import List NArith Bool Permutation.
From GV Require Import Base.Ints Model.Stores Model.StoresEq Monitors.C16m.
Import ListNotations.
Local Open Scope N_scope.

Section LinSound.
  Context {St Op Out : Type} (step : St -> Op -> St * Out) (out_eqb : Out -> Out -> bool).
  Notation ev := (@ev Op Out).

  Fixpoint rt_ok (l : list ev) : bool :=
    match l with
    | [] => true
    | e :: rest => may_go_first e rest && rt_ok rest
    end.

  Definition strip (l : list ev) : list (Op * Out) := map (fun e => (ev_op e, ev_out e)) l.
  Definition seq_ok (s : St) (l : list ev) : Prop := first_diff step out_eqb 0 s (strip l) = None.

  Lemma first_diff_shift : forall tr s i j,
    first_diff step out_eqb i s tr = None -> first_diff step out_eqb j s tr = None.
  Proof.
    induction tr as [|[o seen] tr IH]; intros s i j H; simpl in *; auto.
    destruct (step s o) as [s' out]. destruct (out_eqb out seen); [|discriminate].
    eapply IH. exact H.
  Qed.

  Lemma picks_perm {A} : forall (l pre : list A) e rest,
    In (e, rest) (picks pre l) -> Permutation (e :: rest) (pre ++ l).
  Proof.
    induction l as [|x l IH]; intros pre e rest H; simpl in H; [contradiction|].
    destruct H as [H|H].
    - inversion H; subst. rewrite rev_append_rev.
      apply Permutation_trans with (e :: pre ++ l).
      + apply perm_skip. apply Permutation_app_tail. symmetry. apply Permutation_rev.
      + apply Permutation_middle.
    - apply IH in H. simpl in H. apply Permutation_trans with ((x :: pre) ++ l); auto.
      simpl. apply Permutation_middle.
  Qed.

  Lemma lin_sound : forall fuel s h, lin step out_eqb fuel s h = true ->
    exists l, Permutation l h /\ rt_ok l = true /\ seq_ok s l.
  Proof.
    induction fuel as [|f IH]; intros s h H.
    - destruct h; simpl in H; [|discriminate]. exists []. repeat split; auto; reflexivity.
    - destruct h as [|e0 h0].
      + exists []. repeat split; auto; reflexivity.
      + set (h := e0 :: h0) in *. unfold h in H at 1. cbn [lin] in H. fold h in H.
        match type of H with
        | (?F (picks [] h) = true) =>
          assert (G : forall cands, F cands = true ->
            exists e rest, In (e, rest) cands /\ may_go_first e rest = true /\
               out_eqb (snd (step s (ev_op e))) (ev_out e) = true /\
               lin step out_eqb f (fst (step s (ev_op e))) rest = true)
        end.
        { induction cands as [|[e rest] cands IHc]; intros Hc; [discriminate|]. cbn beta iota in Hc.
          destruct (may_go_first e rest) eqn:E1.
          - destruct (step s (ev_op e)) as [s' out] eqn:E2.
            destruct (out_eqb out (ev_out e)) eqn:E3.
            + destruct (lin step out_eqb f s' rest) eqn:E4.
              * exists e, rest. rewrite E2. simpl. split; [left; reflexivity|]. repeat split; auto.
              * destruct (IHc Hc) as (e' & r' & A & B). exists e', r'. split; [right; exact A|exact B].
            + destruct (IHc Hc) as (e' & r' & A & B). exists e', r'. split; [right; exact A|exact B].
          - destruct (IHc Hc) as (e' & r' & A & B). exists e', r'. split; [right; exact A|exact B]. }
        apply G in H. destruct H as (e & rest & Hin & Hgo & Hout & Hlin).
        destruct (IH _ _ Hlin) as (l & Hp & Hrt & Hseq).
        exists (e :: l). split; [|split].
        * apply Permutation_trans with (e :: rest); [constructor; exact Hp|].
          apply (picks_perm h [] e rest Hin).
        * simpl. rewrite Hrt, andb_true_r.
          unfold may_go_first in *. rewrite forallb_forall in *. intros x Hx. apply Hgo.
          eapply Permutation_in; [exact Hp|exact Hx].
        * unfold seq_ok in *. simpl. destruct (step s (ev_op e)) as [s' out]. simpl in *.
          rewrite Hout. eapply first_diff_shift. exact Hseq.
  Qed.

  Lemma linearizable_sound : forall s h, linearizable step out_eqb s h = true ->
    exists l, Permutation l h /\ rt_ok l = true /\ seq_ok s l.
  Proof. intros s h. apply lin_sound. Qed.
End LinSound.

(** The monitor discriminates: a load that misses a save which had already returned is
    rejected; the same results with overlapping calls are accepted. *)
Example lin_rejects_stale_read :
  linearizable fstep fout_eqb finit
    [(FSave 1 0 [170] 3 [187], FOk, 1, 2); (FLoad 1, FErr (EHeightUnknown 1), 3, 4)] = false.
Proof. vm_compute. reflexivity. Qed.

Example lin_accepts_overlap :
  linearizable fstep fout_eqb finit
    [(FSave 1 0 [170] 3 [187], FOk, 1, 4); (FLoad 1, FErr (EHeightUnknown 1), 2, 3);
     (FSave 1 1 [171] 4 [188], FErr (EFinOverwrite 1), 5, 8); (FLoad 1, FLoaded 0 [170] 3 [187], 6, 7)] = true.
Proof. vm_compute. reflexivity. Qed.

Example lin_rejects_two_winners :
  linearizable fstep fout_eqb finit
    [(FSave 1 0 [170] 3 [187], FOk, 1, 4); (FSave 1 1 [171] 4 [188], FOk, 2, 3)] = false.
Proof. vm_compute. reflexivity. Qed.
