(** C10 (crash at any point), continued: proposed headers. *)
From Coq Require Import List NArith Arith Bool Lia String ZArith.
From GV Require Import Base.Ints Gen.Math Gen.Kernel Model.Mirror
  Proofs.Thresholds Proofs.MirrorAuth Proofs.MirrorNoop Proofs.MirrorChain Proofs.MirrorCert
  Proofs.MirrorTotal Proofs.MirrorRestart Proofs.MirrorLog
  Proofs.MirrorResumeWit Proofs.MirrorResumeLoad Proofs.MirrorResumeRT Proofs.MirrorResumeInv Proofs.MirrorResumeStart
  Proofs.MirrorResumeOps Proofs.MirrorResumeOps2 Proofs.MirrorResumeOps3.
Import ListNotations.
Local Open Scope N_scope.

(** a view gains proposed headers that are in its (grown) cell or among the replayed headers *)
Lemma yview_phs_grow rs rp rs' rp' w w' :
  yview rs rp w ->
  v_h w' = v_h w -> v_r w' = v_r w -> v_vals w' = v_vals w -> v_pv w' = v_pv w -> v_pc w' = v_pc w ->
  sm_mpc (v_sum w') = sm_mpc (v_sum w) ->
  re_pv (rs_entry rs' (v_h w) (v_r w)) = re_pv (rs_entry rs (v_h w) (v_r w)) ->
  re_pc (rs_entry rs' (v_h w) (v_r w)) = re_pc (rs_entry rs (v_h w) (v_r w)) ->
  incl (re_phs (rs_entry rs (v_h w) (v_r w))) (re_phs (rs_entry rs' (v_h w) (v_r w))) ->
  incl rp rp' ->
  (forall q, In q (v_phs w') -> In q (v_phs w) \/
     (exists q0, In q0 (re_phs (rs_entry rs' (v_h w) (v_r w))) /\ hd_hash (ph_hdr q0) = hd_hash (ph_hdr q)) \/
     (exists x, In x rp' /\ hd_height x = v_h w /\ hd_hash x = hd_hash (ph_hdr q))) ->
  yview rs' rp' w'.
Proof.
  intros Hy E1 E2 E3 E4 E5 E6 C1 C2 I1 I2 Hnew.
  pose proof (yview_mono rs rp rs' rp' w C1 C2 I1 I2 Hy) as (A&B&C&D&E&F).
  unfold yview, mpc_ok, vrel, view_votes, phs_corr in *. cbn [N.eqb KPrevote KPrecommit Pos.eqb] in *.
  rewrite E1, E2, E3, E4, E5, E6.
  split; [exact A|]. split; [exact B|]. split; [exact C|]. split; [exact D|]. split; [exact E|].
  intros q Hq. destruct (Hnew q Hq) as [Hold|Hn]; [apply F; exact Hold|exact Hn].
Qed.

(** * The commit-proof backfill of the committing view *)
Lemma backfill_fold_ne keys h r entries : forall pc any pc' any',
  ne_pmap pc ->
  fold_left (fun acc e =>
      let '(pc, any) := acc in
      match pm_get pc (fst e) with
      | None => (pc, any)
      | Some target =>
          let '(t', _, inc) := merge_sparse KPrecommit h r (fst e) keys target (snd e) in
          (pm_set pc (fst e) t', any || inc)
      end) entries (pc, any) = (pc', any') ->
  ne_pmap pc' /\ (pc <> [] -> pc' <> []) /\ (pc = [] -> any' = any).
Proof.
  induction entries as [|e rest IH]; intros pc any pc' any' Hpc; cbn [fold_left].
  - intros E; inversion E; subst. split; [exact Hpc|]. split; auto.
  - destruct (pm_get pc (fst e)) as [target|] eqn:Hg.
    + unfold merge_sparse.
      destruct (merge_sigs KPrecommit h r (fst e) keys target (snd e)) as [t' av] eqn:Em.
      intros Hf. destruct (IH _ _ _ _ (pm_set_ne pc (fst e) t' Hpc
           ltac:(destruct (merge_sigs_prefix _ _ _ _ _ _ _ _ _ Em) as [q Hq]; rewrite Hq;
                 intros Hnil; apply app_eq_nil in Hnil as [Hnil _];
                 exact (Hpc _ _ (pm_get_in _ _ _ Hg) Hnil))) Hf) as (A&B&_).
      split; [exact A|]. split; [intros _; apply B, pm_set_nonempty|].
      intros E. rewrite E in Hg. discriminate.
    + apply IH; exact Hpc.
Qed.

Lemma auth_ne_no_keys kind h r pm : auth_pmap [] kind h r pm -> ne_pmap pm -> pm = [].
Proof.
  intros Ha Hn. destruct pm as [|[t p] pm']; [reflexivity|exfalso].
  assert (Hp : p <> []) by (apply (Hn t p); left; reflexivity).
  destruct p as [|[i sg] p']; [contradiction|].
  destruct (Ha t _ (or_introl eq_refl) i sg (or_introl eq_refl)) as (key&Hk&_).
  unfold nth_n in Hk. destruct (N.to_nat i); discriminate.
Qed.

Lemma sub64_pred vh : 1 <= vh -> vh < two64 -> sub64 vh 1 = vh - 1.
Proof.
  intros H1 H2. unfold sub64. replace (vh + two64 - 1) with ((vh - 1) + 1 * two64) by lia.
  rewrite N.mod_add by (unfold two64; lia). apply N.mod_small. lia.
Qed.

Lemma K_backfill ih ivs s p :
  K ih ivs s -> hd_height (ph_hdr p) = v_h (k_vot s) ->
  K ih ivs (backfill_commit s p) /\ pref ih ivs s (backfill_commit s p).
Proof.
  intros HK Hh. pose proof HK as (HI&HP&(Xc&(Nc&Nv&Nn)&(N1v&N1n)&Xk&Xs)).
  pose proof HI as (Hc&Ha&Hs&Hhi).
  pose proof (frame_backfill s p) as F.
  pose proof (auth_backfill s p Ha) as Ha'.
  assert (HI' : INV ih ivs (backfill_commit s p)).
  { split; [eapply cinv_frame; [exact F|exact Hc]|]. split; [exact Ha'|].
    unfold backfill_commit. destruct (fold_left _ _ _) as [pc' any]. destruct any; (split; [exact Hs|exact Hhi]). }
  pose proof (pok_backfill s p HP) as HP'.
  pose proof (cinv_nhr _ _ _ Hc) as Hnhr.
  destruct (com_below _ _ _ Hc) as [Hlt Hne_hdrs].
  revert HI' HP' Ha' F. unfold backfill_commit. cbv zeta.
  destruct (fold_left _ _ _) as [pc' any] eqn:Hf.
  destruct (backfill_fold_ne _ _ _ _ _ _ _ _ (proj2 Nc) Hf) as (Hne'&Hnn'&Hany).
  destruct any.
  - (* the committing view gained signatures: its precommit cell is rewritten *)
    intros HI' HP' Ha' F.
    assert (Hpcne : v_pc (k_com s) <> []).
    { intros E. specialize (Hany E). discriminate. }
    assert (Hchdr : k_chdr s <> None).
    { intros E. unfold comvals in Xc. rewrite E in Xc.
      destruct Ha as ([_ Hcpc]&_). rewrite Xc in Hcpc.
      apply Hpcne. eapply auth_ne_no_keys; [exact Hcpc|exact (proj2 Nc)]. }
    assert (Epos : v_h (k_vot s) = v_h (k_com s) + 1 /\ v_h (k_vot s) < two64 /\ st_hdrs s <> []).
    { destruct Hc as (_&_&_&_&_&_&_&_&_&_&Hch). unfold chain_ok in Hch.
      destruct (k_chdr s) as [ch|]; [|contradiction].
      destruct Hch as (A&B&C&(cp&rest&D)&_). rewrite D. repeat split; try lia. discriminate. }
    destruct Epos as (E1&E2&E3).
    assert (Esub : sub64 (hd_height (ph_hdr p)) 1 = v_h (k_com s)) by (rewrite Hh, sub64_pred; lia).
    assert (Evals : v_vals (k_com s) = chain_vals ih ivs (st_hdrs s) (v_h (k_com s))).
    { unfold comvals in Xc. destruct (k_chdr s); [exact Xc|contradiction]. }
    set (r := cp_round (hd_pcp (ph_hdr p))).
    set (coll := map_to_sparse (vs_pkh (v_vals (k_com s))) pc').
    set (e := rs_entry (st_rounds s) (v_h (k_com s)) r).
    set (e' := mk_rentry (re_phs e) (re_pv e) (Some coll)).
    match goal with |- K _ _ ?S /\ _ => set (s2 := S) end.
    assert (Hpc'auth : auth_pmap (vs_keys (v_vals (k_com s))) KPrecommit (v_h (k_com s)) (v_r (k_com s)) pc').
    { destruct Ha as ([_ Hcpc]&_). eapply backfill_fold_auth; [exact Hcpc|exact Hf]. }
    assert (Hcollne : exists pkh en l, coll = (pkh, en :: l)) by (apply map_to_sparse_nonempty, Hnn', Hpcne).
    assert (Est : stores_of s2 = mk_stores (sr_nhr (stores_of s)) (sr_hdrs (stores_of s))
                     (rs_set (sr_rounds (stores_of s)) (v_h (k_com s)) r e') (sr_replayed (stores_of s))).
    { unfold s2, stores_of, rs_overwrite_pc. cbn. rewrite Esub. reflexivity. }
    assert (S2 : SI ih ivs (stores_of s2)).
    { rewrite Est. eapply SI_set_cell; [exact Xs|exact Hnhr|lia|intros E; lia|].
      intros _ Er _.
      destruct Xs as (vh0&vr0&ch0&cr0&Hn&Hshape&_).
      unfold stores_of in Hn; cbn [sr_nhr] in Hn. rewrite Hnhr in Hn. inversion Hn; subst vh0 vr0 ch0 cr0.
      destruct Hshape as [(_&_&_&E)|(_&_&_&(G1&G2&G3))]; [exfalso; apply E3; exact E|].
      cbn [stores_of sr_hdrs sr_rounds] in G1, G2, G3 |- *. rewrite <- Evals in G1, G2 |- *.
      rewrite <- Er in G1, G2, G3 |- *. fold e in G1, G2, G3. unfold e', committing_good. cbn [re_pv re_pc re_phs].
      split; [exact G1|]. split.
      - unfold coll. rewrite Er. apply map_to_sparse_good; assumption.
      - destruct Hcollne as (pkh&en&l&Ec). rewrite Ec. eexists; eexists; eexists; reflexivity. }
    assert (Hcell : forall h0 r0, pc_ne (st_rounds s) h0 r0 -> pc_ne (st_rounds s2) h0 r0).
    { intros h0 r0 Hc0. assert (Er2 : st_rounds s2 = rs_set (st_rounds s) (v_h (k_com s)) r e') by (apply (f_equal sr_rounds) in Est; exact Est).
      unfold pc_ne. rewrite Er2, rs_entry_set.
      destruct ((v_h (k_com s) =? h0) && (r =? r0)) eqn:E; [|exact Hc0].
      unfold e'. cbn [re_pc]. destruct Hcollne as (pkh&en&l&Ec). rewrite Ec. eexists; eexists; eexists; reflexivity. }
    split.
    + split; [exact HI'|]. split; [exact HP'|].
      split; [eapply comvals_frame; [exact F|exact Xc]|].
      split.
      { unfold ne_state, s2. cbn. split; [split; [exact (proj1 Nc)|exact Hne']|]. split; [exact Nv|exact Nn]. }
      split.
      { unfold n1. split; intros Hpc; apply Hcell; [apply N1v|apply N1n]; exact Hpc. }
      split; [|exact S2]. split; [exact (proj1 Xk)|]. destruct Xk as [_ [Yv Yn]].
      assert (Er2 : st_rounds s2 = rs_set (st_rounds s) (v_h (k_com s)) r e') by (apply (f_equal sr_rounds) in Est; exact Est).
      assert (Hother : forall w0, v_h w0 = v_h (k_vot s) ->
                yview (st_rounds s) (st_replayed s) w0 -> yview (st_rounds s2) (st_replayed s2) w0).
      { intros w0 Hh0 Hw0. assert (Hcw : ((v_h (k_com s) =? v_h w0) && (r =? v_r w0)) = false).
        { rewrite Hh0. destruct (N.eqb_spec (v_h (k_com s)) (v_h (k_vot s))); [lia|reflexivity]. }
        rewrite Er2. change (st_replayed s2) with (st_replayed s).
        eapply yview_mono; [| | | |exact Hw0]; rewrite ?rs_entry_set, ?Hcw; try reflexivity; intros x Hx; exact Hx. }
      destruct Hc as (_&_&_&Hnh&_).
      split; [apply (Hother (k_vot s)); [reflexivity|exact Yv]|apply (Hother (k_nxt s)); [exact Hnh|exact Yn]].
    + apply (pref_one ih ivs s s2 (WPC (sub64 (hd_height (ph_hdr p)) 1) r coll)); [reflexivity|reflexivity|exact Xs|exact S2| |reflexivity].
      eapply adv_sadv; [exact Hc|exact (proj1 HI')|apply adv_frame; exact F].
  - intros HI' HP' Ha' F. split.
    + split; [exact HI'|]. split; [exact HP'|].
      split; [eapply comvals_frame; [exact F|exact Xc]|].
      split; [unfold ne_state; cbn; split; [split; [exact (proj1 Nc)|exact Hne']|split; [exact Nv|exact Nn]]|].
      split; [split; [exact N1v|exact N1n]|]. split; [exact Xk|exact Xs].
    + apply pref_quiet; [reflexivity|reflexivity|exact Xs].
Qed.

(** * Adding a proposed header *)
Lemma K_add_ph ih ivs s p s' :
  K ih ivs s -> accept_facts s p ->
  pow_ok (hd_next (ph_hdr p)) ->
  (pow_ok (hd_vals (ph_hdr p)) \/ hd_height (ph_hdr p) <> v_h (k_vot s)) ->
  vs_keys (hd_next (ph_hdr p)) <> [] ->
  add_ph s p = Ok s' -> K ih ivs s' /\ pref ih ivs s s'.
Proof.
  intros HK Hfacts Hn Hv Hkeys. pose proof HK as (HI&HP&(Xc&(Nc&Nv&Nn)&(N1v&N1n)&Xk&Xs)).
  pose proof HI as (Hc&Ha&Hs&Hh).
  assert (Hsame : Ok s = Ok s' -> K ih ivs s' /\ pref ih ivs s s')
    by (intros E; inversion E; subst; split; [exact HK|apply pref_refl; exact Xs]).
  unfold add_ph, bind.
  destruct (find_view _ _ _) as [[vid st]|] eqn:Hfv; [|discriminate].
  destruct (st =? ViewFound) eqn:Hst; cbn [negb]; [|exact Hsame].
  apply N.eqb_eq in Hst.
  destruct (existsb _ _); [exact Hsame|].
  pose proof (find_view_found _ _ _ _ _ Hfv Hst) as Hcase. cbn in Hcase.
  assert (Hvid : vid = ViewIDVoting \/ vid = ViewIDNextRound \/ vid = ViewIDCommitting).
  { destruct Hcase as [(A&_)|[(A&_)|(A&_)]]; auto. }
  destruct Hfacts as (Aok&Anext&Ab&Aprev).
  assert (Hhh : vid = ViewIDVoting \/ vid = ViewIDNextRound -> hd_height (ph_hdr p) = v_h (k_vot s)).
  { intros Hvv. destruct Hcase as [(A&B&C)|[(A&B&C)|(A&B&C&D)]]; try exact B.
    subst vid. destruct Hvv as [Hvv|Hvv]; discriminate. }
  assert (Hgood : vid = ViewIDVoting \/ vid = ViewIDNextRound -> ph_good s p).
  { intros Hvv. pose proof (Hhh Hvv) as E. unfold ph_good. splits; try assumption. intros Hne. apply Aprev; assumption. }
  destruct (cinv_put_phs ih ivs s vid p Hc Hvid Hgood) as (H1&_).
  destruct (put_phs_ok s vid p) as [_ P1]. cbv zeta in P1.
  pose proof (cinv_nhr _ _ _ Hc) as Hnhr.
  destruct (com_below _ _ _ Hc) as [Hlt Hne_hdrs].
  destruct (vot_vals _ _ _ Hc) as [Evv Evn].
  set (s1 := put_view s vid _) in *.
  assert (I1 : INV ih ivs s1).
  { split; [exact H1|]. split.
    - apply put_view_auth; [exact Ha|]. apply auth_view_bump.
      eapply auth_view_same; [apply same_votes_with_phs|]. apply get_view_auth; exact Ha.
    - unfold s1, put_view, get_view. destruct Hs as [Sv Sn].
      destruct Hvid as [->|[->| ->]]; cbn; (split; [split; assumption|exact Hh]). }
  assert (Pk1 : pok s1).
  { apply P1; [exact HP|]. destruct Hcase as [(A&B&_)|[(A&B&_)|(A&_)]].
    - right. split; [|exact Hn]. destruct Hv as [Hv|Hv]; [exact Hv|contradiction].
    - right. split; [|exact Hn]. destruct Hv as [Hv|Hv]; [exact Hv|contradiction].
    - left. subst vid. split; reflexivity. }
  set (s2 := ev_w (log_w (set_rounds s1 _) _) _).
  assert (I2 : INV ih ivs s2) by (eapply INV_frame_rounds; [apply frame_set_rounds| | | |exact I1]; reflexivity).
  assert (Pk2 : pok s2) by exact Pk1.
  (* views of s1: votes, positions as in s *)
  assert (Hviews : (v_pv (k_vot s1) = v_pv (k_vot s) /\ v_pc (k_vot s1) = v_pc (k_vot s) /\ v_h (k_vot s1) = v_h (k_vot s) /\ v_r (k_vot s1) = v_r (k_vot s)) /\
                   (v_pv (k_nxt s1) = v_pv (k_nxt s) /\ v_pc (k_nxt s1) = v_pc (k_nxt s) /\ v_h (k_nxt s1) = v_h (k_nxt s) /\ v_r (k_nxt s1) = v_r (k_nxt s)) /\
                   (v_pv (k_com s1) = v_pv (k_com s) /\ v_pc (k_com s1) = v_pc (k_com s) /\ v_h (k_com s1) = v_h (k_com s) /\ v_vals (k_com s1) = v_vals (k_com s)) /\
                   k_chdr s1 = k_chdr s /\ st_hdrs s1 = st_hdrs s /\ st_rounds s1 = st_rounds s /\ st_nhr s1 = st_nhr s /\
                   st_replayed s1 = st_replayed s /\ st_log s1 = st_log s).
  { unfold s1, put_view, get_view. destruct Hvid as [->|[->| ->]]; cbn; repeat split. }
  destruct Hviews as ((W1&W2&W3&W4)&(W5&W6&W7&W8)&(W9&W10&W11&W12)&W13&W14&W15&W16&W17&W18).
  assert (Hkok1 : kok0 s1).
  { destruct Xk as [Xk0 _]. unfold kok0, s1, put_view, get_view. destruct Hvid as [->|[->| ->]]; cbn; intros q [Hq|Hq].
    - apply in_app_or in Hq as [Hq|[Hq|[]]]; [apply Xk0; left; exact Hq|subst q; exact Hkeys].
    - apply Xk0; right; exact Hq.
    - apply Xk0; left; exact Hq.
    - apply in_app_or in Hq as [Hq|[Hq|[]]]; [apply Xk0; right; exact Hq|subst q; exact Hkeys].
    - apply Xk0; left; exact Hq.
    - apply Xk0; right; exact Hq. }
  assert (Hviews2 : (v_vals (k_vot s1) = v_vals (k_vot s) /\ v_sum (k_vot s1) = v_sum (k_vot s) /\
                     forall q, In q (v_phs (k_vot s1)) -> In q (v_phs (k_vot s)) \/ (q = p /\ vid = ViewIDVoting)) /\
                    (v_vals (k_nxt s1) = v_vals (k_nxt s) /\ v_sum (k_nxt s1) = v_sum (k_nxt s) /\
                     forall q, In q (v_phs (k_nxt s1)) -> In q (v_phs (k_nxt s)) \/ (q = p /\ vid = ViewIDNextRound))).
  { unfold s1, put_view, get_view. destruct Hvid as [->|[->| ->]]; cbn; repeat split; intros q Hq; auto;
      apply in_app_or in Hq as [Hq|[Hq|[]]]; auto. }
  destruct Hviews2 as ((V1&V2&V3)&(V4&V5&V6)).
  set (h := hd_height (ph_hdr p)). set (r := ph_round p).
  set (e := rs_entry (st_rounds s) h r).
  assert (Est : stores_of s2 = mk_stores (sr_nhr (stores_of s)) (sr_hdrs (stores_of s))
                                 (rs_save_ph (sr_rounds (stores_of s)) p) (sr_replayed (stores_of s))).
  { unfold s2, stores_of. cbn. rewrite W14, W15, W16, W17. reflexivity. }
  assert (Hhle : h <= v_h (k_vot s)).
  { unfold h. destruct Hcase as [(_&B&_)|[(_&B&_)|(_&B&_)]]; rewrite B; lia. }
  assert (Hcells : forall h0 r0, re_pc (rs_entry (rs_save_ph (st_rounds s) p) h0 r0) = re_pc (rs_entry (st_rounds s) h0 r0) /\
                                 re_pv (rs_entry (rs_save_ph (st_rounds s) p) h0 r0) = re_pv (rs_entry (st_rounds s) h0 r0)).
  { intros h0 r0. unfold rs_save_ph. fold h r e. destruct (existsb _ (re_phs e)); [split; reflexivity|].
    rewrite rs_entry_set. destruct ((h =? h0) && (r =? r0)) eqn:E; [|split; reflexivity].
    apply andb_true_iff in E as [A B]. apply N.eqb_eq in A, B. subst h0 r0. split; reflexivity. }
  assert (S2 : SI ih ivs (stores_of s2)).
  { rewrite Est. unfold rs_save_ph. cbn [stores_of sr_rounds]. fold h r e.
    destruct (existsb _ (re_phs e)); [rewrite stores_eta; exact Xs|].
    eapply SI_set_cell; [exact Xs|exact Hnhr|exact Hhle| |].
    - intros Eh.
      assert (Hvv : vid = ViewIDVoting \/ vid = ViewIDNextRound).
      { destruct Hcase as [(A&_)|[(A&_)|(A&B&_&D)]]; auto. exfalso. apply D. exact Eh. }
      destruct Xs as (vh0&vr0&ch0&cr0&Hn0&_&_&_&Hrounds&_).
      unfold stores_of in Hn0; cbn [sr_nhr] in Hn0. rewrite Hnhr in Hn0. inversion Hn0; subst vh0 vr0 ch0 cr0.
      pose proof (voting_entry_good ih ivs (stores_of s) (v_h (k_vot s)) Hrounds _ eq_refl r) as (G1&G2&G3).
      cbn [stores_of sr_hdrs sr_rounds] in G1, G2, G3 |- *. rewrite <- Eh in G1, G2, G3 |- *. fold e in G1, G2, G3.
      unfold rentry_good. cbn [re_pv re_pc re_phs]. split; [exact G1|]. split; [exact G2|].
      intros q Hq. apply in_app_or in Hq as [Hq|[Hq|[]]]; [apply G3; exact Hq|]. subst q.
      unfold ph_fine. split; [reflexivity|]. split; [exact Aok|]. split; [exact Ab|].
      split.
      { split; [destruct Hv as [Hv|Hv]; [exact Hv|exfalso; apply Hv; exact Eh]|]. split; [exact Anext|]. split; [exact Hn|exact Hkeys]. }
      intros Hne. destruct Hc as (Hi1&_&_&_&_&_&_&_&_&_&Hch).
      destruct (Aprev Eh) as (ch&Hck&Hprev); [rewrite Hi1; exact Hne|].
      unfold chain_ok in Hch. rewrite Hck in Hch. destruct Hch as (C1&C2&C3&(cp&rest&C4)&_).
      exists ch, cp. split; [|exact Hprev]. rewrite C4. unfold hdr_get. cbn [find fst].
      replace (h - 1) with (hd_height ch) by (fold h in Eh; lia). rewrite N.eqb_refl. reflexivity.
    - intros Eh Er Hhd.
      destruct Xs as (vh0&vr0&ch0&cr0&Hn0&Hshape&_).
      unfold stores_of in Hn0; cbn [sr_nhr] in Hn0. rewrite Hnhr in Hn0. inversion Hn0; subst vh0 vr0 ch0 cr0.
      destruct Hshape as [(_&_&_&E)|(_&_&_&(G1&G2&G3))]; [exfalso; apply Hhd; exact E|].
      cbn [stores_of sr_hdrs sr_rounds] in G1, G2, G3 |- *. rewrite <- Eh, <- Er in G1, G2, G3 |- *. fold e in G1, G2, G3.
      unfold committing_good. cbn [re_pv re_pc re_phs]. split; [exact G1|]. split; [exact G2|exact G3]. }
  assert (K2 : K ih ivs s2).
  { split; [exact I2|]. split; [exact Pk2|].
    split.
    { unfold comvals. change (k_chdr s2) with (k_chdr s1). change (k_com s2) with (k_com s1). change (st_hdrs s2) with (st_hdrs s1).
      rewrite W13, W12, W11, W14. exact Xc. }
    split.
    { unfold ne_state, ne_view. change (k_com s2) with (k_com s1). change (k_vot s2) with (k_vot s1). change (k_nxt s2) with (k_nxt s1).
      rewrite W1, W2, W5, W6, W9, W10. split; [exact Nc|]. split; [exact Nv|exact Nn]. }
    split.
    { unfold n1, n1_view. change (k_vot s2) with (k_vot s1). change (k_nxt s2) with (k_nxt s1).
      change (st_rounds s2) with (rs_save_ph (st_rounds s1) p). rewrite W15, W2, W3, W4, W6, W7, W8.
      split; intros Hpc; rewrite (proj1 (Hcells _ _)); [apply N1v|apply N1n]; exact Hpc. }
    split; [|exact S2]. split; [exact Hkok1|].
    destruct Xk as [_ [Yv Yn]].
    assert (Hphs_incl : forall h0 r0, incl (re_phs (rs_entry (st_rounds s) h0 r0))
                                           (re_phs (rs_entry (rs_save_ph (st_rounds s) p) h0 r0))).
    { intros h0 r0. unfold rs_save_ph. fold h r e. destruct (existsb _ (re_phs e)); [intros x Hx; exact Hx|].
      rewrite rs_entry_set. destruct ((h =? h0) && (r =? r0)) eqn:E; [|intros x Hx; exact Hx].
      apply andb_true_iff in E as [A B]. apply N.eqb_eq in A, B. subst h0 r0. cbn [re_phs]. fold e.
      intros x Hx. apply in_or_app; left; exact Hx. }
    assert (Hphs_new : exists q0, In q0 (re_phs (rs_entry (rs_save_ph (st_rounds s) p) h r)) /\
                                  hd_hash (ph_hdr q0) = hd_hash (ph_hdr p)).
    { unfold rs_save_ph. fold h r e. destruct (existsb _ (re_phs e)) eqn:Ex.
      - apply existsb_exists in Ex as (q0&Hq0&Eq0). apply andb_true_iff in Eq0 as [Eq0 _]. apply bytes_eqb_eq in Eq0.
        exists q0. split; [exact Hq0|exact Eq0].
      - rewrite rs_entry_set, !N.eqb_refl. cbn [andb re_phs]. exists p.
        split; [apply in_or_app; right; left; reflexivity|reflexivity]. }
    unfold Y. change (st_rounds s2) with (rs_save_ph (st_rounds s1) p). change (st_replayed s2) with (st_replayed s1).
    change (k_vot s2) with (k_vot s1). change (k_nxt s2) with (k_nxt s1). rewrite W15, W17.
    split.
    + eapply (yview_phs_grow _ _ _ _ (k_vot s) (k_vot s1)); [exact Yv|exact W3|exact W4|exact V1|exact W1|exact W2|rewrite V2; reflexivity
        |apply (proj2 (Hcells _ _))|apply (proj1 (Hcells _ _))|apply Hphs_incl|intros x Hx; exact Hx|].
      intros q Hq. destruct (V3 q Hq) as [Hold|[-> Ev]]; [left; exact Hold|right; left].
      destruct Hcase as [(A&B&C)|[(A&B&C)|(A&B&C&D)]]; try (rewrite A in Ev; discriminate).
      fold h in B. fold r in C. rewrite <- B, <- C. exact Hphs_new.
    + eapply (yview_phs_grow _ _ _ _ (k_nxt s) (k_nxt s1)); [exact Yn|exact W7|exact W8|exact V4|exact W5|exact W6|rewrite V5; reflexivity
        |apply (proj2 (Hcells _ _))|apply (proj1 (Hcells _ _))|apply Hphs_incl|intros x Hx; exact Hx|].
      intros q Hq. destruct (V6 q Hq) as [Hold|[-> Ev]]; [left; exact Hold|right; left].
      destruct Hcase as [(A&B&C)|[(A&B&C)|(A&B&C&D)]]; try (rewrite A in Ev; discriminate).
      fold h in B. fold r in C. destruct Hc as (_&_&_&Hnh&Hnr&_). rewrite Hnh, Hnr, <- B, <- C. exact Hphs_new. }
  assert (Pr2 : pref ih ivs s s2).
  { apply (pref_one ih ivs s s2 (WPH p)); [| |exact Xs|exact S2| |reflexivity].
    - unfold s2. cbn. rewrite W18. reflexivity.
    - rewrite Est. reflexivity.
    - rewrite Est. unfold sadv. cbn [sr_hdrs sr_nhr]. split; [auto|]. split; [lia|]. split; [lia|].
      intros _. split; [reflexivity|]. split; [reflexivity|apply rs_refl]. }
  destruct ((vid =? ViewIDVoting) || (vid =? ViewIDNextRound)) eqn:Evn2; cbn [negb];
    [|intros E; inversion E; subst; split; assumption].
  assert (Hvv : vid = ViewIDVoting \/ vid = ViewIDNextRound).
  { apply orb_true_iff in Evn2 as [E|E]; apply N.eqb_eq in E; auto. }
  assert (Hh2 : hd_height (ph_hdr p) = v_h (k_vot s2)).
  { change (k_vot s2) with (k_vot s1). rewrite W3. apply Hhh. exact Hvv. }
  destruct (K_backfill ih ivs s2 p K2 Hh2) as [K3 P3].
  assert (Pr3 : pref ih ivs s (backfill_commit s2 p)) by (eapply pref_trans; eassumption).
  destruct (vid =? ViewIDVoting).
  - destruct (pm_get _ _).
    + intros E. destruct (K_check_voting _ _ _ _ K3 E) as [K4 P4]. split; [exact K4|eapply pref_trans; eassumption].
    + intros E; inversion E; subst. split; assumption.
  - intros E; inversion E; subst. split; assumption.
Qed.

(** * HandleProposedHeader *)
Definition ph_adm (p : ph) (res : N) : Prop :=
  res = HandleProposedHeaderAccepted -> pow_ok (hd_next (ph_hdr p)) /\ vs_keys (hd_next (ph_hdr p)) <> [].

Lemma K_handle_ph_loop ih ivs fuel : forall backfilled s p s' res,
  K ih ivs s -> tinv s -> ph_bounded p -> ph_adm p res ->
  handle_ph_loop fuel backfilled s p = Ok (s', res) -> K ih ivs s' /\ pref ih ivs s s'.
Proof.
  assert (Hbody : forall s p status proposer prev_hash prev_vs view_vs s' res,
    K ih ivs s -> ph_bounded p ->
    ph_check s p = PHC status proposer prev_hash prev_vs view_vs -> status = PHCheckAcceptable ->
    (pow_ok view_vs \/ hd_height (ph_hdr p) <> v_h (k_vot s)) -> ph_adm p res ->
    (let hd := ph_hdr p in
      if negb (hd_ok hd) then Ok (s, HandleProposedHeaderBadBlockHash)
      else if negb (vs_ok (hd_vals hd) && vs_ok (hd_next hd)) then Ok (s, HandleProposedHeaderBadBlockHash)
      else if negb (valset_equal (hd_vals hd) view_vs) then Ok (s, HandleProposedHeaderBadBlockHash)
      else
        match proposer with
        | None => Ok (s, HandleProposedHeaderBadSignature)
        | Some key =>
          if negb (verify_prop key (ph_content p) (ph_round p) (ph_sig p)) then Ok (s, HandleProposedHeaderBadSignature)
          else if negb (hd_height hd =? k_init_h s) && negb (bytes_eqb (hd_prev hd) prev_hash)
          then Ok (s, HandleProposedHeaderBadBlockHash)
          else if negb (bytes_eqb (vs_pkh prev_vs) (cp_pkh (hd_pcp hd)))
          then Ok (s, HandleProposedHeaderBadPrevCommitProofPubKeyHash)
          else
            let accept := bind (add_ph s p) (fun s' => Ok (s', HandleProposedHeaderAccepted)) in
            if k_init_h s <? hd_height hd then
              match vs_keys prev_vs with
              | [] => Ok (s, HandleProposedHeaderBadPrevCommitProofPubKeyHash)
              | _ =>
                match validate_finalized (sub64 (hd_height hd) 1) (cp_round (hd_pcp hd)) (vs_keys prev_vs)
                        (hd_prev hd) (cp_proofs (hd_pcp hd)) with
                | (_, false) => Ok (s, HandleProposedHeaderBadPrevCommitProofDoubleSigned)
                | (None, true) => Ok (s, HandleProposedHeaderBadPrevCommitProofSignature)
                | (Some bits, true) =>
                    let avail := sum_pows (vs_pows prev_vs) in
                    bind (byz_majority avail) (fun maj =>
                    if idx_power (vs_pows prev_vs) bits <? maj
                    then Ok (s, HandleProposedHeaderBadPrevCommitVoteCount)
                    else accept)
                end
              end
            else accept
        end) = Ok (s', res) ->
    K ih ivs s' /\ pref ih ivs s s').
  { intros s p status proposer prev_hash prev_vs view_vs s' res HK Hb Hc Hs Hvv Hadm. cbv zeta.
    pose proof HK as (HI&_&(_&_&_&_&Xs)).
    assert (Hsame : forall r0, Ok (s, r0) = Ok (s', res) -> K ih ivs s' /\ pref ih ivs s s')
      by (intros r0 E; inversion E; subst; split; [exact HK|apply pref_refl; exact Xs]).
    destruct (hd_ok (ph_hdr p)) eqn:Hok; cbn [negb]; [|apply Hsame].
    destruct (vs_ok (hd_vals (ph_hdr p)) && vs_ok (hd_next (ph_hdr p))) eqn:Hvs; cbn [negb]; [|apply Hsame].
    apply andb_true_iff in Hvs as [_ Hnext].
    destruct (valset_equal (hd_vals (ph_hdr p)) view_vs) eqn:Hveq; cbn [negb]; [|apply Hsame].
    assert (Hvals : pow_ok (hd_vals (ph_hdr p)) \/ hd_height (ph_hdr p) <> v_h (k_vot s)).
    { destruct Hvv as [Hvv|Hvv]; [left; eapply valset_equal_pow_ok; eassumption|right; exact Hvv]. }
    destruct proposer as [key|]; [|apply Hsame].
    destruct (negb (verify_prop _ _ _ _)); [apply Hsame|].
    destruct (negb (hd_height (ph_hdr p) =? k_init_h s) && negb (bytes_eqb (hd_prev (ph_hdr p)) prev_hash)) eqn:Hprev; [apply Hsame|].
    destruct (negb (bytes_eqb (vs_pkh prev_vs) _)); [apply Hsame|].
    assert (Hfacts : accept_facts s p).
    { unfold accept_facts. repeat split; try assumption.
      intros Hh Hne. destruct (ph_check_prev _ _ _ _ _ _ _ _ _ (proj1 HI) Hc Hs Hh Hne) as (ch&Hch&Hph).
      exists ch. split; [exact Hch|].
      apply andb_false_iff in Hprev as [Hp|Hp].
      - apply negb_false_iff in Hp. apply N.eqb_eq in Hp. contradiction.
      - apply negb_false_iff in Hp. apply bytes_eqb_eq in Hp. congruence. }
    assert (Hacc : bind (add_ph s p) (fun s' => Ok (s', HandleProposedHeaderAccepted)) = Ok (s', res) -> K ih ivs s' /\ pref ih ivs s s').
    { unfold bind. destruct (add_ph s p) eqn:Hadd; [|discriminate].
      intros E; inversion E; subst. destruct (Hadm eq_refl) as [Hn Hk].
      eapply K_add_ph; eassumption. }
    destruct (k_init_h s <? _); [|exact Hacc].
    destruct (vs_keys prev_vs); [apply Hsame|].
    destruct (validate_finalized _ _ _ _ _) as [[bits|] [|]]; try apply Hsame.
    unfold bind at 1. destruct (byz_majority _); [|discriminate].
    destruct (_ <? _); [apply Hsame|exact Hacc]. }
  induction fuel as [|f IH]; intros backfilled s p s' res HK HT Hb Hadm; cbn [handle_ph_loop];
    destruct (ph_check s p) as [status proposer prev_hash prev_vs view_vs] eqn:Hc.
  all: pose proof HK as (HI&_&(_&_&_&_&Xs)).
  all: assert (Hsame : forall r0, Ok (s, r0) = Ok (s', res) -> K ih ivs s' /\ pref ih ivs s s')
         by (intros r0 E; inversion E; subst; split; [exact HK|apply pref_refl; exact Xs]).
  all: destruct (status =? PHCheckAlreadyHaveSignature) eqn:S1; [apply Hsame|].
  all: destruct (status =? PHCheckSignerUnrecognized) eqn:S2; [apply Hsame|].
  all: destruct (status =? PHCheckRoundTooOld) eqn:S3; [apply Hsame|].
  all: destruct (status =? PHCheckRoundTooFarInFuture) eqn:S4; [apply Hsame|].
  all: destruct (status =? PHCheckNextHeight) eqn:S5.
  - destruct backfilled; apply Hsame.
  - eapply Hbody; try eassumption; [eapply status_acceptable; eassumption|].
    destruct HI as (HIc&_&HIs&_).
    eapply ph_check_view_vs; [exact HIc|exact HIs|exact (proj1 HT)|exact Hc|eapply status_acceptable; eassumption].
  - destruct backfilled; [apply Hsame|].
    unfold bind at 1. destruct (handle_votes KPrecommit s (vote_msg_of_pcp p)) as [[s1 r1]|] eqn:Hv; [|discriminate].
    cbn [fst]. intros E.
    destruct (K_handle_votes ih ivs KPrecommit s (vote_msg_of_pcp p) s1 r1 (or_intror eq_refl) HK Hv) as [K1 P1].
    assert (T1 : tinv s1).
    { destruct (handle_votes_total KPrecommit s (vote_msg_of_pcp p) HT) as (sr&Esr&Tsr). rewrite Hv in Esr. inversion Esr; subst sr. exact Tsr. }
    destruct (IH true s1 p s' res K1 T1 Hb Hadm E) as [K2 P2].
    split; [exact K2|eapply pref_trans; eassumption].
  - eapply Hbody; try eassumption; [eapply status_acceptable; eassumption|].
    destruct HI as (HIc&_&HIs&_).
    eapply ph_check_view_vs; [exact HIc|exact HIs|exact (proj1 HT)|exact Hc|eapply status_acceptable; eassumption].
Qed.
