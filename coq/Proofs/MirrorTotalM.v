(** C09, kernel part, over the FULL closure the harness exercises: [mstep] of Model/MirrorMgr.v -
    kernel operations (messages, replayed headers, crashes after any number of store writes, restarts),
    round entrances of the state machine with or without a key, reads of the two view managers, and the
    local validator's own prevote / precommit / proposed header.

    - [mreachable_a]: the admissible closure.  Side conditions ([mop_adm]): for a kernel operation those of
      [reachable_g] ([xwf]); for the state machine's own proposed header, when the kernel files it, the BOOLEAN [lph_okb] (the kernel
      files that header without any of the checks of HandleProposedHeader, so what those checks establish
      has to be assumed of the state machine); nothing for entrances, reads and local votes.
    - [mreachable_a_K]: K (INV, pok, the store invariant and the view / store correspondence) and tinv hold
      in the kernel state of every such state.
    - [mstep_panic_site]: a decidable function of the state and the operation naming the Panic site, if any.
    - [mstep_total]: [mstep] panics exactly where [mstep_panic_site] says, and returns Ok everywhere else.
    - [quiet_keeps_kernel]: entrances and reads never change the kernel state. *)
From Coq Require Import List NArith Arith Bool Lia String.
From GV Require Import Base.Ints Gen.Math Gen.Kernel Model.Mirror Model.MirrorMgr
  Proofs.Thresholds Proofs.MirrorAuth Proofs.MirrorNoop Proofs.MirrorChain Proofs.MirrorCert
  Proofs.MirrorTotal Proofs.MirrorAct Proofs.MirrorActInv Proofs.MirrorActTotal
  Proofs.MirrorResumeWit Proofs.MirrorResumeLoad Proofs.MirrorResumeRT Proofs.MirrorResumeInv
  Proofs.MirrorResumeOps Proofs.MirrorResumeOps2 Proofs.MirrorResumeOps4 Proofs.MirrorResume
  Proofs.MirrorTotalX Proofs.MirrorTotalK.
(* Proofs.MirrorResumeRT has a helper that is also called [mstep]: the model's name must win *)
Import Model.MirrorMgr.
Import ListNotations.
Local Open Scope N_scope.

(** * The side condition on the state machine's own proposed header *)

(** what HandleProposedHeader checks of a peer's header ([accept_facts]: correct block hash, consistent
    next validator set, height below 2^64 - 1, extends the committing header), what [op_wf] / [wf_op] assume
    of an accepted peer header (the next validator set has non-zero power and - model only - a key), and
    what HandleProposedHeader's validator-set comparison gives for free for a peer header: the header's own
    validator set has non-zero power when the header is for the voting height *)
Definition lph_okb (k : kstate) (p : ph) : bool :=
  let x := ph_hdr p in
  hd_ok x && vs_ok (hd_next x) && (hd_height x + 1 <? two64) &&
  (if (hd_height x =? v_h (k_vot k)) && negb (hd_height x =? k_init_h k)
   then match k_chdr k with Some ch => bytes_eqb (hd_prev x) (hd_hash ch) | None => false end
   else true) &&
  pow_okb (hd_next x) &&
  (pow_okb (hd_vals x) || negb (hd_height x =? v_h (k_vot k))) &&
  (match vs_keys (hd_next x) with [] => false | _ :: _ => true end).

(** asked only of a header that the kernel FILES ([act_ph_applies], Proofs/MirrorTotalK.v: its height and round
    are those of one of the three views and the view holds no header with the same signature); a header that
    is dropped leaves the kernel state as it was *)
Definition lact_okb (k : kstate) (a : lact) : bool :=
  match a with ActPH p => negb (act_ph_applies k p) || lph_okb k p | _ => true end.

Lemma lph_okb_facts k p : lph_okb k p = true ->
  accept_facts k p /\ pow_ok (hd_next (ph_hdr p)) /\
  (pow_ok (hd_vals (ph_hdr p)) \/ hd_height (ph_hdr p) <> v_h (k_vot k)) /\
  vs_keys (hd_next (ph_hdr p)) <> [].
Proof.
  unfold lph_okb. cbv zeta. intros H.
  apply andb_true_iff in H as [H H7]. apply andb_true_iff in H as [H H6]. apply andb_true_iff in H as [H H5].
  apply andb_true_iff in H as [H H4]. apply andb_true_iff in H as [H H3]. apply andb_true_iff in H as [H1 H2].
  split; [|split; [|split]].
  - split; [exact H1|]. split; [exact H2|]. split; [apply N.ltb_lt; exact H3|].
    intros E1 E2. rewrite E1, N.eqb_refl in H4.
    destruct (N.eqb_spec (v_h (k_vot k)) (k_init_h k)) as [E|_]; [rewrite <- E1 in E; contradiction|].
    cbn [negb andb] in H4. destruct (k_chdr k) as [ch|]; [|discriminate].
    exists ch. split; [reflexivity|apply bytes_eqb_eq; exact H4].
  - apply pow_okb_ok. exact H5.
  - apply orb_true_iff in H6 as [H6|H6]; [left; apply pow_okb_ok; exact H6|right].
    destruct (N.eqb_spec (hd_height (ph_hdr p)) (v_h (k_vot k))); [discriminate|assumption].
  - destruct (vs_keys (hd_next (ph_hdr p))); [discriminate|discriminate].
Qed.


(** * Local actions keep K and tinv *)

(** a vote action only ever touches a view that was FOUND *)
Lemma find_view_vid_found pos h r vid st :
  find_view pos h r = Ok (vid, st) ->
  (vid =? ViewIDVoting) || (vid =? ViewIDCommitting) = true -> st = ViewFound.
Proof.
  unfold find_view. cbv zeta. break_ifs; intros E; inversion E; subst; cbn; try discriminate; reflexivity.
Qed.

Lemma K_act_vote ih ivs kind s h r key target sg s' :
  (kind = KPrevote \/ kind = KPrecommit) -> K ih ivs s -> tinv s ->
  act_vote kind s h r key target sg = Ok s' -> K ih ivs s' /\ tinv s'.
Proof.
  intros Hk HK HT Ha.
  assert (T' : tinv s').
  { destruct (act_vote_panic_guard kind s h r key target) eqn:G.
    - destruct (local_vote_panics_under_guard kind s h r key target sg G) as (site&E).
      rewrite E in Ha. discriminate.
    - destruct (local_vote_total kind s h r key target sg (proj1 HT) G) as (x&E&Hx).
      rewrite Ha in E. inversion E; subst x. exact (Hx (proj2 HT)). }
  split; [|exact T'].
  pose proof HK as (HI&HP&HX). pose proof HI as (Hc&Hauth&_&_).
  destruct HX as (_&_&_&(_&(Yv&_))&_).
  revert Ha. unfold act_vote, bind.
  destruct (find_view _ _ _) as [[vid st]|] eqn:Hfv; [|discriminate].
  destruct ((vid =? ViewIDVoting) || (vid =? ViewIDCommitting)) eqn:Hvid; cbn [negb];
    [|intros E; inversion E; subst; exact HK].
  pose proof (find_view_vid_found _ _ _ _ _ Hfv Hvid) as Hst. subst st.
  destruct (act_view_pos _ _ _ _ _ Hfv Hvid) as [Hh Hr].
  assert (Hnd0 : vid = ViewIDVoting -> nd_pmap (view_votes kind (get_view s vid))).
  { intros ->. change (get_view s ViewIDVoting) with (k_vot s).
    destruct Yv as ((_&N1)&(_&N2)&_). unfold view_votes. destruct (kind =? KPrevote); assumption. }
  set (v := get_view s vid) in *.
  assert (Hv : auth_view v) by (apply get_view_auth; exact Hauth).
  pose proof (view_votes_auth kind v Hk Hv) as Hvv.
  destruct (match pm_get (view_votes kind v) target with
            | Some p => Ok p
            | None => match vs_keys (v_vals v) with [] => Panic _ | _ => Ok [] end
            end) as [base|] eqn:Hbase; [|discriminate].
  assert (Hb : auth_proof (vs_keys (v_vals v)) kind (v_h v) (v_r v) target base /\
               (vid = ViewIDVoting -> nd_proof base)).
  { destruct (pm_get (view_votes kind v) target) as [p|] eqn:Hg.
    - inversion Hbase; subst. split; [eapply pm_get_auth; eassumption|].
      intros E. apply (Hnd0 E target). apply pm_get_in. exact Hg.
    - destruct (vs_keys (v_vals v)); [discriminate|]. inversion Hbase; subst.
      split; [apply auth_proof_nil|intros _; constructor]. }
  destruct Hb as [Hb Hnd].
  destruct key as [k|]; [|discriminate].
  destruct (key_index (vs_keys (v_vals v)) k) as [i|] eqn:Hi; [|intros E; inversion E; subst; exact HK].
  destruct (verify_vote k kind h r target sg) eqn:Hver; [|intros E; inversion E; subst; exact HK].
  apply verify_vote_spec in Hver. subst sg. intros E.
  refine (proj1 (K_apply_votes ih ivs kind s vid h r _ s' Hk Hfv HK _ _ _ _ E)).
  - discriminate.
  - intros t p [E1|[]]. inversion E1; subst t p. fold v. rewrite Hh, Hr.
    apply add_sig_auth; [exact Hb|]. apply key_index_nth. exact Hi.
  - intros t p [E1|[]]. inversion E1; subst t p. apply add_sig_nonempty.
  - intros Hvv' t p [E1|[]]. inversion E1; subst t p. apply add_sig_nd. apply Hnd.
    destruct Hvv' as [E2|E2]; [exact E2|]. subst vid. discriminate Hvid.
Qed.

Lemma K_act_ph ih ivs s p s' :
  K ih ivs s -> tinv s -> lph_okb s p = true -> act_ph s p = Ok s' -> K ih ivs s' /\ tinv s'.
Proof.
  intros HK HT Hok Ha. destruct (lph_okb_facts _ _ Hok) as (F1&F2&F3&F4).
  unfold act_ph in Ha. destruct (hd_hash (ph_hdr p)) eqn:Hh; [discriminate|].
  split; [exact (proj1 (K_add_ph ih ivs s p s' HK F1 F2 F3 F4 Ha))|].
  destruct (add_ph_total s p HT) as (x&E&Hx). rewrite Ha in E. inversion E; subst x. exact (Hx F2 F3).
Qed.

Lemma K_act_step ih ivs s h r key a s' :
  K ih ivs s -> tinv s -> lact_okb s a = true -> act_step s h r key a = Ok s' -> K ih ivs s' /\ tinv s'.
Proof.
  destruct a as [t sg|t sg|p]; cbn [act_step lact_okb]; intros HK HT Hok.
  - apply K_act_vote; [left; reflexivity|exact HK|exact HT].
  - apply K_act_vote; [right; reflexivity|exact HK|exact HT].
  - apply orb_true_iff in Hok as [Hno|Hok]; [|apply K_act_ph; assumption].
    intros Ha. pose proof (local_ph_effect s p s' Ha) as E.
    destruct (act_ph_applies s p); [discriminate|]. subst s'. split; assumption.
Qed.

(** * What each operation does to the kernel state *)
Definition quiet_mop (o : mop) : bool :=
  match o with MEnter _ _ | MEnterK _ _ _ | MSMRead | MGRead => true | MK _ | MAct _ => false end.

(** (3) entrances and reads leave the kernel state exactly as it was *)
Lemma quiet_keeps_kernel s o s' r io :
  quiet_mop o = true -> mstep s o = Ok (s', r, io) -> ms_k s' = ms_k s /\ r = 0.
Proof.
  destruct o as [x|h0 r0| | |h0 r0 key0|a]; cbn [quiet_mop mstep]; try discriminate; intros _.
  - unfold bind. destruct (find_view _ _ _) as [[vid st]|]; [|discriminate].
    destruct (st =? ViewFound); [intros E; inversion E; split; reflexivity|].
    destruct (st =? ViewBeforeCommitting); [|discriminate].
    destruct (hdr_get _ _) as [[x cp]|]; [intros E; inversion E; split; reflexivity|discriminate].
  - destruct (sm_output _) as [[[vv jv] sv]|]; intros E; inversion E; split; reflexivity.
  - destruct (g_output _) as [[[[c v] n] nl]|]; intros E; inversion E; split; reflexivity.
  - unfold bind. destruct (find_view _ _ _) as [[vid st]|]; [|discriminate].
    destruct (st =? ViewFound); [intros E; inversion E; split; reflexivity|].
    destruct (st =? ViewBeforeCommitting); [|discriminate].
    destruct (hdr_get _ _) as [[x cp]|]; [intros E; inversion E; split; reflexivity|discriminate].
Qed.

Lemma mstep_MK s x s' r io : mstep s (MK x) = Ok (s', r, io) -> xstep (ms_k s) x = Ok (ms_k s', r).
Proof.
  cbn [mstep]. unfold bind. destruct (xstep (ms_k s) x) as [[k' r1]|]; [|discriminate].
  destruct (is_restart_x x); intros E; inversion E; subst; reflexivity.
Qed.

Lemma mstep_MAct s a s' r io : mstep s (MAct a) = Ok (s', r, io) ->
  act_step (ms_k s) (smm_h (m_sm (ms_m s))) (smm_r (m_sm (ms_m s))) (smm_key (m_sm (ms_m s))) a = Ok (ms_k s') /\ r = 0.
Proof.
  cbn [mstep]. unfold bind. destruct (act_step _ _ _ _ a) as [k'|]; [|discriminate].
  intros E; inversion E; subst. split; reflexivity.
Qed.

(** exact characterisation: an operation that is not an entrance or a read changes the kernel state only
    through [xstep] / [act_step] *)
Lemma mstep_kernel_exact s o s' r io : mstep s o = Ok (s', r, io) ->
  match o with
  | MK x => xstep (ms_k s) x = Ok (ms_k s', r)
  | MAct a => act_step (ms_k s) (smm_h (m_sm (ms_m s))) (smm_r (m_sm (ms_m s))) (smm_key (m_sm (ms_m s))) a = Ok (ms_k s')
  | _ => ms_k s' = ms_k s
  end.
Proof.
  intros H. destruct o as [x|h0 r0| | |h0 r0 key0|a].
  - exact (mstep_MK _ _ _ _ _ H).
  - exact (proj1 (quiet_keeps_kernel s (MEnter h0 r0) s' r io eq_refl H)).
  - exact (proj1 (quiet_keeps_kernel s MSMRead s' r io eq_refl H)).
  - exact (proj1 (quiet_keeps_kernel s MGRead s' r io eq_refl H)).
  - exact (proj1 (quiet_keeps_kernel s (MEnterK h0 r0 key0) s' r io eq_refl H)).
  - exact (proj1 (mstep_MAct _ _ _ _ _ H)).
Qed.

(** * The admissible closure *)
Definition mop_adm (s : mstate) (o : mop) (res : N) : Prop :=
  match o with
  | MK x => xwf (ms_k s) x res
  | MAct a => lact_okb (ms_k s) a = true
  | _ => True
  end.

Inductive mreachable_a (ih : N) (ivs : valset) : mstate -> Prop :=
| mra_init : mreachable_a ih ivs (ms_init ih ivs)
| mra_step s o s' r io : mreachable_a ih ivs s -> mop_adm s o r ->
    mstep s o = Ok (s', r, io) -> mreachable_a ih ivs s'.

Lemma mreachable_a_m ih ivs s : mreachable_a ih ivs s -> mreachable ih ivs s.
Proof. induction 1; [apply mr_init|eapply mr_step; eassumption]. Qed.

Theorem mreachable_a_K ih ivs s :
  1 <= ih -> vwf ivs -> mreachable_a ih ivs s -> K ih ivs (ms_k s) /\ tinv (ms_k s).
Proof.
  intros Hih Hivs. induction 1 as [|s o s' r io Hr [IK IT] Hadm Hs]; [apply K_init; assumption|].
  pose proof (mstep_kernel_exact _ _ _ _ _ Hs) as H.
  destruct o as [x|h0 r0| | |h0 r0 key0|a]; cbn [mop_adm] in Hadm; try (rewrite H; split; assumption).
  - destruct (K_xstep ih ivs (ms_k s) x (ms_k s') r Hih Hivs IK IT Hadm H) as (A&B&_). split; assumption.
  - eapply K_act_step; eassumption.
Qed.

Corollary mreachable_a_INV ih ivs s :
  1 <= ih -> vwf ivs -> mreachable_a ih ivs s ->
  INV ih ivs (ms_k s) /\ tinv (ms_k s) /\ SI ih ivs (stores_of (ms_k s)).
Proof.
  intros Hih Hivs Hr. destruct (mreachable_a_K ih ivs s Hih Hivs Hr) as [(HI&_&(_&_&_&_&HS)) HT].
  split; [exact HI|]. split; [exact HT|exact HS].
Qed.

(** every state of [reachable_g] is the kernel state of a state of the closure *)
Lemma reachable_g_mreachable_a ih ivs k : reachable_g ih ivs k -> exists s, mreachable_a ih ivs s /\ ms_k s = k.
Proof.
  induction 1 as [|k x k' res Hr (s&Hs&Ek) Hw Hx].
  - exists (ms_init ih ivs). split; [apply mra_init|reflexivity].
  - subst k. destruct (mstep s (MK x)) as [[[s1 r1] io1]|] eqn:Hm.
    + pose proof (mstep_MK _ _ _ _ _ Hm) as E. rewrite Hx in E. inversion E; subst.
      exists s1. split; [|reflexivity]. eapply mra_step; [exact Hs| |exact Hm]. exact Hw.
    + exfalso. revert Hm. cbn [mstep]. unfold bind. rewrite Hx. destruct (is_restart_x x); discriminate.
Qed.

(** * Panic sites *)
Definition site_no_keys : string := "NewSimpleCommonMessageSignatureProof: BUG: requires len(candidateKeys) > 0".
Definition site_nil_key : string := "handleStateMachineAction: AddSignature with a nil public key".
Definition site_no_action : string := "handleStateMachineAction: BUG: no state machine action present".
Definition site_enter_not_found : string := "handleStateMachineRoundEntrance: TODO: handle view not found".
Definition site_enter_no_header : string := "handleStateMachineRoundEntrance: failed to load block from the header store".

(** ** a local vote *)
Definition key_site (key : option N) : option string :=
  match key with None => Some site_nil_key | Some _ => None end.

Definition act_vote_panic_site (kind : N) (s : kstate) (h r : N) (key : option N) (target : bytes) : option string :=
  match find_view (kpos_of s) h r with
  | Ok (vid, _) =>
      if (vid =? ViewIDVoting) || (vid =? ViewIDCommitting) then
        match pm_get (view_votes kind (get_view s vid)) target with
        | Some _ => key_site key
        | None => match vs_keys (v_vals (get_view s vid)) with
                  | [] => Some site_no_keys
                  | _ :: _ => key_site key
                  end
        end
      else None
  | Panic site => Some site
  end.

(** it refines the guard of Proofs/MirrorActTotal.v *)
Lemma act_vote_panic_site_guard kind s h r key target :
  act_vote_panic_guard kind s h r key target =
  match act_vote_panic_site kind s h r key target with Some _ => true | None => false end.
Proof.
  unfold act_vote_panic_guard, act_vote_panic_site.
  destruct (find_view _ _ _) as [[vid st]|]; [|reflexivity].
  destruct ((vid =? ViewIDVoting) || (vid =? ViewIDCommitting)); cbn [andb]; [|reflexivity].
  destruct (pm_get _ target); [destruct key; reflexivity|].
  destruct (vs_keys _); [reflexivity|destruct key; reflexivity].
Qed.

Lemma act_vote_site_exact kind s h r key target sg : aok s ->
  match act_vote_panic_site kind s h r key target with
  | Some site => act_vote kind s h r key target sg = Panic site
  | None => okT (fun s' => pok s -> tinv s') (act_vote kind s h r key target sg)
  end.
Proof.
  intros Ha. unfold act_vote_panic_site, act_vote, bind.
  destruct (find_view _ _ _) as [[vid st]|]; [|reflexivity].
  destruct ((vid =? ViewIDVoting) || (vid =? ViewIDCommitting)); cbn [negb];
    [|apply okT_ret; intros Hp; split; assumption].
  destruct (pm_get _ target) as [p|].
  - destruct key as [k|]; cbn [key_site]; [|reflexivity].
    destruct (key_index _ k) as [i|]; [|apply okT_ret; intros Hp; split; assumption].
    destruct (verify_vote _ _ _ _ _ _); [|apply okT_ret; intros Hp; split; assumption].
    apply apply_votes_total. exact Ha.
  - destruct (vs_keys (v_vals (get_view s vid))) as [|k0 ks]; [reflexivity|].
    destruct key as [k|]; cbn [key_site]; [|reflexivity].
    destruct (key_index _ k) as [i|]; [|apply okT_ret; intros Hp; split; assumption].
    destruct (verify_vote _ _ _ _ _ _); [|apply okT_ret; intros Hp; split; assumption].
    apply apply_votes_total. exact Ha.
Qed.

(** ** the state machine's own proposed header *)
Definition act_ph_panic_site (p : ph) : option string :=
  match hd_hash (ph_hdr p) with [] => Some site_no_action | _ :: _ => None end.

Lemma act_ph_site_exact s p : tinv s ->
  match act_ph_panic_site p with
  | Some site => act_ph s p = Panic site
  | None => exists s', act_ph s p = Ok s'
  end.
Proof.
  intros HT. unfold act_ph_panic_site, act_ph. destruct (hd_hash (ph_hdr p)); [reflexivity|].
  destruct (add_ph_total s p HT) as (x&E&_). exists x. exact E.
Qed.

Definition act_panic_site (s : kstate) (h r : N) (key : option N) (a : lact) : option string :=
  match a with
  | ActPrevote t _ => act_vote_panic_site KPrevote s h r key t
  | ActPrecommit t _ => act_vote_panic_site KPrecommit s h r key t
  | ActPH p => act_ph_panic_site p
  end.

Lemma act_site_exact s h r key a : tinv s ->
  match act_panic_site s h r key a with
  | Some site => act_step s h r key a = Panic site
  | None => exists s', act_step s h r key a = Ok s'
  end.
Proof.
  intros HT. destruct a as [t sg|t sg|p]; cbn [act_panic_site act_step].
  - pose proof (act_vote_site_exact KPrevote s h r key t sg (proj1 HT)) as H.
    destruct (act_vote_panic_site _ _ _ _ _ _); [exact H|]. destruct H as (x&E&_). exists x. exact E.
  - pose proof (act_vote_site_exact KPrecommit s h r key t sg (proj1 HT)) as H.
    destruct (act_vote_panic_site _ _ _ _ _ _); [exact H|]. destruct H as (x&E&_). exists x. exact E.
  - apply act_ph_site_exact. exact HT.
Qed.

(** ** a round entrance *)
Definition enter_panic_site (k : kstate) (h r : N) : option string :=
  match find_view (kpos_of k) h r with
  | Ok (_, st) =>
      if st =? ViewFound then None
      else if st =? ViewBeforeCommitting then
        match hdr_get (st_hdrs k) h with Some _ => None | None => Some site_enter_no_header end
      else Some site_enter_not_found
  | Panic site => Some site
  end.

(** for EVERY state (no invariant) *)
Lemma enter_site_exact s h r key :
  match enter_panic_site (ms_k s) h r with
  | Some site => mstep s (MEnterK h r key) = Panic site /\ mstep s (MEnter h r) = Panic site
  | None => (exists s' io, mstep s (MEnterK h r key) = Ok (s', 0, io)) /\
            (exists s' io, mstep s (MEnter h r) = Ok (s', 0, io))
  end.
Proof.
  unfold enter_panic_site. cbn [mstep]. unfold bind.
  destruct (find_view _ _ _) as [[vid st]|]; [|split; reflexivity].
  destruct (st =? ViewFound); [split; eexists; eexists; reflexivity|].
  destruct (st =? ViewBeforeCommitting); [|split; reflexivity].
  destruct (hdr_get _ _) as [[x cp]|]; [split; eexists; eexists; reflexivity|split; reflexivity].
Qed.

(** the guard spelled out on the positions: the entered round is orphaned (a round of the voting height the
    mirror has left, or a round of the committing height above the committing round) or in the future
    (a later round of the voting height other than the next one, or a later height) *)
Definition enter_not_found_guard (k : kstate) (h r : N) : bool :=
  let vh := v_h (k_vot k) in let vr := v_r (k_vot k) in
  let ch := v_h (k_com k) in let cr := v_r (k_com k) in
  if h =? vh then negb (r =? vr) && negb (r =? wrap32 (vr + 1))
  else if h =? ch then cr <? r
  else negb (h <? ch) && (vh <? h).

(** ... or lies below the initial height (no header was ever stored for it) *)
Definition enter_no_header_guard (k : kstate) (h r : N) : bool :=
  (h <? k_init_h k) && negb (h =? v_h (k_com k)).

Lemma hdr_get_below ih top l h : hchain ih top l -> h < ih -> hdr_get l h = None.
Proof.
  intros Hc Hlt. destruct (hdr_get l h) as [[x cp]|] eqn:E; [|reflexivity].
  apply hdr_get_in in E. destruct (proj2 (hchain_bounds _ _ _ Hc) h (x, cp) E). lia.
Qed.

Lemma enter_panic_site_explicit ih ivs k h r : cinv ih ivs k ->
  enter_panic_site k h r =
  if enter_not_found_guard k h r then Some site_enter_not_found
  else if enter_no_header_guard k h r then Some site_enter_no_header
  else None.
Proof.
  intros (Hi1&_&Hi3&_&_&_&_&_&_&_&Hch).
  unfold enter_panic_site, enter_not_found_guard, enter_no_header_guard, find_view, kpos_of. cbv zeta.
  cbn [kpos_Voting_Height kpos_Voting_Round kpos_Committing_Height kpos_Committing_Round].
  rewrite Hi1. unfold chain_ok in Hch.
  destruct (N.eqb_spec h (v_h (k_vot k))) as [Ev|Nv].
  - (* the voting height: never below the initial height *)
    assert (Hge : ih <= h).
    { destruct (k_chdr k) as [ch|].
      - destruct Hch as (A&B&C&_&D). pose proof (proj1 (hchain_bounds _ _ _ D)). lia.
      - destruct Hch as (_&_&_&D). lia. }
    assert (Eb : (h <? ih) = false) by (apply N.ltb_ge; exact Hge).
    destruct (r =? v_r (k_vot k)); [cbn; rewrite Eb; reflexivity|].
    destruct (r =? wrap32 (v_r (k_vot k) + 1)); [cbn; rewrite Eb; reflexivity|].
    cbn [negb andb]. destruct (r <? v_r (k_vot k)); reflexivity.
  - destruct (N.eqb_spec h (v_h (k_com k))) as [Ec|Nc].
    + cbn [negb andb]. rewrite andb_false_r.
      destruct (N.eqb_spec r (v_r (k_com k))) as [Er|Nr].
      * subst r. rewrite N.ltb_irrefl. reflexivity.
      * destruct (N.ltb_spec r (v_r (k_com k))) as [Hlt|Hge].
        -- destruct (N.ltb_spec (v_r (k_com k)) r); [lia|].
           change (ViewBeforeCommitting =? ViewFound) with false.
           change (ViewBeforeCommitting =? ViewBeforeCommitting) with true. cbv iota.
           (* the committing header is in the store *)
           destruct (k_chdr k) as [ch|].
           ++ destruct Hch as (A&B&C&_&D).
              destruct (hchain_lookup _ _ _ D h) as (x&cp&Hg&_); [|lia|rewrite Hg; reflexivity].
              pose proof (proj1 (hchain_bounds _ _ _ D)). lia.
           ++ destruct Hch as (_&B&_&_). lia.
        -- destruct (N.ltb_spec (v_r (k_com k)) r); [reflexivity|lia].
    + cbn [negb andb]. rewrite andb_true_r.
      destruct (N.ltb_spec h (v_h (k_com k))) as [Hlt|Hge]; cbn [negb andb].
      * change (ViewBeforeCommitting =? ViewFound) with false.
        change (ViewBeforeCommitting =? ViewBeforeCommitting) with true. cbv iota.
        destruct (k_chdr k) as [ch|].
        -- destruct Hch as (A&B&C&_&D).
           destruct (N.ltb_spec h ih) as [Hb|Hb].
           ++ rewrite (hdr_get_below _ _ _ _ D Hb). reflexivity.
           ++ destruct (hchain_lookup _ _ _ D h Hb) as (x&cp&Hg&_); [lia|rewrite Hg; reflexivity].
        -- destruct Hch as (A&_). lia.
      * destruct (N.ltb_spec (v_h (k_vot k)) h) as [Hf|Hnf]; [reflexivity|].
        change (ViewBeforeCommitting =? ViewFound) with false.
        change (ViewBeforeCommitting =? ViewBeforeCommitting) with true. cbv iota.
        (* strictly between the committing and the voting height: only before the first commit *)
        destruct (k_chdr k) as [ch|].
        -- destruct Hch as (A&B&_). lia.
        -- destruct Hch as (A&_&C&D). rewrite C. cbn [hdr_get find].
           destruct (N.ltb_spec h ih); [reflexivity|lia].
Qed.

(** * The Panic site of every operation *)
Definition mstep_panic_site (s : mstate) (o : mop) : option string :=
  match o with
  | MK (XOp o') => step_panic_site (ms_k s) o'
  | MK (XCrash _ o') => step_panic_site (ms_k s) o'
  | MK XRestart => None
  | MEnter h r => enter_panic_site (ms_k s) h r
  | MEnterK h r _ => enter_panic_site (ms_k s) h r
  | MSMRead => None
  | MGRead => None
  | MAct a => act_panic_site (ms_k s) (smm_h (m_sm (ms_m s))) (smm_r (m_sm (ms_m s))) (smm_key (m_sm (ms_m s))) a
  end.

(** the one thing asked of the operation delivered last: when it is a crash, the operation that is
    interrupted is admissible for the result it returns (as in the closure) *)
Definition crash_adm (s : mstate) (o : mop) : Prop :=
  match o with
  | MK (XCrash k o') => forall s1 r, step (ms_k s) o' = Ok (s1, r) -> wf_op o' r
  | _ => True
  end.

Lemma restart_total_K ih ivs s :
  1 <= ih -> vwf ivs -> K ih ivs s -> exists s', xstep s XRestart = Ok (s', 0).
Proof.
  intros Hih Hivs HK. pose proof (proj1 (proj1 HK)) as Hc. destruct Hc as (Hi1&Hi2&_).
  cbn [xstep]. rewrite Hi1, Hi2.
  destruct (restart_from ih ivs (stores_of s) (st_vals s) (st_log s) Hih Hivs
              (proj2 (proj2 (proj2 (proj2 (proj2 (proj2 HK))))))) as (s2&E2&_).
  rewrite E2. cbn [bind]. eexists; reflexivity.
Qed.

Lemma crash_total_K ih ivs s o k s1 r :
  1 <= ih -> vwf ivs -> K ih ivs s -> tinv s -> step s o = Ok (s1, r) -> wf_op o r ->
  exists s', xstep s (XCrash k o) = Ok (s', r).
Proof.
  intros Hih Hivs HK HT Hs Hw. pose proof (proj1 (proj1 HK)) as Hc. destruct Hc as (Hi1&Hi2&_).
  cbn [xstep]. rewrite Hs. cbn [bind fst snd].
  destruct (crash_point ih ivs s o s1 r k Hih Hivs HK HT Hw Hs) as (stc&Q1&_&_&_&Er).
  fold (crash_stores s s1 k). rewrite Hi1, Hi2, Er.
  destruct (restart_from ih ivs stc (st_vals s)
              (st_log s ++ firstn k (skipn (List.length (st_log s)) (st_log s1))) Hih Hivs Q1) as (s2&E2&_).
  rewrite E2. cbn [bind]. eexists; reflexivity.
Qed.

Lemma mstep_of_xstep_ok s x k' r : xstep (ms_k s) x = Ok (k', r) -> exists s' io, mstep s (MK x) = Ok (s', r, io).
Proof.
  intros E. cbn [mstep]. rewrite E. cbn [bind]. destruct (is_restart_x x); eexists; eexists; reflexivity.
Qed.

Lemma mstep_of_xstep_panic s x site : xstep (ms_k s) x = Panic site -> mstep s (MK x) = Panic site.
Proof. intros E. cbn [mstep]. rewrite E. reflexivity. Qed.

(** (2) totality in every state whose kernel state satisfies the invariants *)
Theorem mstep_total_K ih ivs s o :
  1 <= ih -> vwf ivs -> K ih ivs (ms_k s) -> tinv (ms_k s) ->
  match mstep_panic_site s o with
  | Some site => mstep s o = Panic site
  | None => crash_adm s o -> exists s' r io, mstep s o = Ok (s', r, io)
  end.
Proof.
  intros Hih Hivs HK HT. pose proof (proj1 HK) as HI.
  destruct o as [x|h0 r0| | |h0 r0 key0|a]; cbn [mstep_panic_site].
  - destruct x as [o|k o|].
    + pose proof (step_site_exact' ih ivs (ms_k s) o HI HT) as H.
      destruct (step_panic_site (ms_k s) o) as [site|].
      * apply mstep_of_xstep_panic. exact H.
      * intros _. destruct H as (k'&r&H). destruct (mstep_of_xstep_ok s (XOp o) k' r H) as (s'&io&E).
        exists s', r, io. exact E.
    + pose proof (step_site_exact' ih ivs (ms_k s) o HI HT) as H.
      destruct (step_panic_site (ms_k s) o) as [site|].
      * apply mstep_of_xstep_panic. cbn [xstep]. rewrite H. reflexivity.
      * cbn [crash_adm]. intros Hadm. destruct H as (k1&r&H).
        destruct (crash_total_K ih ivs (ms_k s) o k k1 r Hih Hivs HK HT H (Hadm k1 r H)) as (k'&E).
        destruct (mstep_of_xstep_ok s (XCrash k o) k' r E) as (s'&io&E'). exists s', r, io. exact E'.
    + intros _. destruct (restart_total_K ih ivs (ms_k s) Hih Hivs HK) as (k'&E).
      destruct (mstep_of_xstep_ok s XRestart k' 0 E) as (s'&io&E'). exists s', 0, io. exact E'.
  - pose proof (enter_site_exact s h0 r0 None) as H.
    destruct (enter_panic_site (ms_k s) h0 r0); [exact (proj2 H)|].
    intros _. destruct (proj2 H) as (s'&io&E). exists s', 0, io. exact E.
  - intros _. cbn [mstep]. destruct (sm_output _) as [[[vv jv] sv]|]; eexists; eexists; eexists; reflexivity.
  - intros _. cbn [mstep]. destruct (g_output _) as [[[[c v] n] nl]|]; eexists; eexists; eexists; reflexivity.
  - pose proof (enter_site_exact s h0 r0 key0) as H.
    destruct (enter_panic_site (ms_k s) h0 r0); [exact (proj1 H)|].
    intros _. destruct (proj1 H) as (s'&io&E). exists s', 0, io. exact E.
  - pose proof (act_site_exact (ms_k s) (smm_h (m_sm (ms_m s))) (smm_r (m_sm (ms_m s))) (smm_key (m_sm (ms_m s))) a HT) as H.
    destruct (act_panic_site _ _ _ _ a) as [site|].
    + cbn [mstep]. rewrite H. reflexivity.
    + intros _. destruct H as (k'&H). cbn [mstep]. rewrite H. cbn [bind]. eexists; eexists; eexists; reflexivity.
Qed.

Theorem mstep_total ih ivs s o :
  1 <= ih -> vwf ivs -> mreachable_a ih ivs s ->
  match mstep_panic_site s o with
  | Some site => mstep s o = Panic site
  | None => crash_adm s o -> exists s' r io, mstep s o = Ok (s', r, io)
  end.
Proof.
  intros Hih Hivs Hr. destruct (mreachable_a_K ih ivs s Hih Hivs Hr) as [HK HT].
  exact (mstep_total_K ih ivs s o Hih Hivs HK HT).
Qed.

(** the set of sites: nothing else is ever returned *)
Definition named_sites : list string :=
  [site_replay_earlier; site_replay_fuel; site_enter_not_found; site_enter_no_header;
   site_no_keys; site_nil_key; site_no_action].

Lemma mstep_panic_site_named s o site : mstep_panic_site s o = Some site -> In site named_sites.
Proof.
  unfold named_sites.
  assert (R : forall k o', step_panic_site k o' = Some site -> In site named_sites).
  { intros k o'. unfold named_sites. destruct o' as [p|m|m|x cp]; cbn [step_panic_site]; try discriminate.
    destruct (replay_earlier_guard _ _ _); [intros E; inversion E; left; reflexivity|].
    destruct (replay_fuel_guard _ _ _); [intros E; inversion E; right; left; reflexivity|discriminate]. }
  assert (En : forall k h r, enter_panic_site k h r = Some site -> In site named_sites).
  { intros k h r. unfold named_sites, enter_panic_site.
    destruct (find_view_total (kpos_of k) h r) as (vid&st&E). rewrite E.
    destruct (st =? ViewFound); [discriminate|]. destruct (st =? ViewBeforeCommitting).
    - destruct (hdr_get _ _); [discriminate|]. intros E1; inversion E1. do 3 right. left. reflexivity.
    - intros E1; inversion E1. do 2 right. left. reflexivity. }
  assert (Av : forall kind k h r key t, act_vote_panic_site kind k h r key t = Some site -> In site named_sites).
  { intros kind k h r key t. unfold named_sites, act_vote_panic_site.
    destruct (find_view_total (kpos_of k) h r) as (vid&st&E). rewrite E.
    destruct (_ || _); [|discriminate].
    assert (Ks : key_site key = Some site -> In site named_sites).
    { unfold named_sites. destruct key; cbn [key_site]; [discriminate|]. intros E1; inversion E1. do 5 right. left. reflexivity. }
    destruct (pm_get _ t); [exact Ks|]. destruct (vs_keys _); [|exact Ks].
    intros E1; inversion E1. do 4 right. left. reflexivity. }
  destruct o as [x|h0 r0| | |h0 r0 key0|a]; cbn [mstep_panic_site]; try discriminate.
  - destruct x as [o|k o|]; [apply R|apply R|discriminate].
  - apply En.
  - apply En.
  - destruct a as [t sg|t sg|p]; cbn [act_panic_site]; [apply Av|apply Av|].
    unfold act_ph_panic_site. destruct (hd_hash _); [|discriminate].
    intros E1; inversion E1. do 6 right. left. reflexivity.
Qed.

(** Ok, or one of the named sites - nothing else *)
Corollary mstep_ok_or_named_site ih ivs s o :
  1 <= ih -> vwf ivs -> mreachable_a ih ivs s -> crash_adm s o ->
  (mstep_panic_site s o = None /\ exists s' r io, mstep s o = Ok (s', r, io)) \/
  (exists site, mstep_panic_site s o = Some site /\ mstep s o = Panic site /\ In site named_sites).
Proof.
  intros Hih Hivs Hr Hc. pose proof (mstep_total ih ivs s o Hih Hivs Hr) as H.
  destruct (mstep_panic_site s o) as [site|] eqn:E.
  - right. exists site. split; [reflexivity|]. split; [exact H|]. eapply mstep_panic_site_named. exact E.
  - left. split; [reflexivity|exact (H Hc)].
Qed.

(** [mstep_panic_site], unfolded *)
Lemma mstep_panic_site_unfolded s o :
  mstep_panic_site s o =
  match o with
  | MK (XOp o') | MK (XCrash _ o') =>
      match o' with
      | OpReplay x cp =>
          if replay_earlier_guard (ms_k s) x cp then Some site_replay_earlier
          else if replay_fuel_guard (ms_k s) x cp then Some site_replay_fuel
          else None
      | _ => None
      end
  | MK XRestart | MSMRead | MGRead => None
  | MEnter h r | MEnterK h r _ => enter_panic_site (ms_k s) h r
  | MAct (ActPrevote t _) =>
      act_vote_panic_site KPrevote (ms_k s) (smm_h (m_sm (ms_m s))) (smm_r (m_sm (ms_m s))) (smm_key (m_sm (ms_m s))) t
  | MAct (ActPrecommit t _) =>
      act_vote_panic_site KPrecommit (ms_k s) (smm_h (m_sm (ms_m s))) (smm_r (m_sm (ms_m s))) (smm_key (m_sm (ms_m s))) t
  | MAct (ActPH p) => match hd_hash (ph_hdr p) with [] => Some site_no_action | _ :: _ => None end
  end.
Proof. destruct o as [[o'|k o'|]|h r| | |h r key|[t sg|t sg|p]]; reflexivity. Qed.

Lemma reads_and_entrances_keep_kernel_state s o s' r io :
  match o with MEnter _ _ | MEnterK _ _ _ | MSMRead | MGRead => True | MK _ | MAct _ => False end ->
  mstep s o = Ok (s', r, io) -> ms_k s' = ms_k s /\ r = 0.
Proof. intros H. apply quiet_keeps_kernel. destruct o; try reflexivity; contradiction. Qed.
