(** C01: every entry of the committed-header store (and hence the committing header, which is its
    top entry) carries a precommit certificate: an authentic signature proof for exactly that
    height, the recorded round and the header's hash, by distinct members of the validator set the
    chain prescribes for that height (genesis set at the initial height, otherwise the next set of
    the header committed one height below), with power at least the Byzantine majority of that
    set.  Proved for every reachable state of the mirror model. *)
From Coq Require Import List NArith Arith Bool Lia String.
From GV Require Import Base.Ints Gen.Math Gen.Kernel Model.Mirror
  Proofs.Thresholds Proofs.MirrorAuth Proofs.MirrorNoop Proofs.MirrorChain.
Import ListNotations.
Local Open Scope N_scope.

(** ** Vote summary vs. proofs (for the voting and next-round views) *)
Definition blocks (pows : list N) (pm : pmap) : list (bytes * N) := snd (fst (set_powers pows pm)).

Definition sum_ok (v : view) : Prop :=
  sm_avail (v_sum v) = sum_pows (vs_pows (v_vals v)) /\
  sm_pcp (v_sum v) = blocks (vs_pows (v_vals v)) (v_pc v).

Definition sinv (s : kstate) : Prop := sum_ok (k_vot s) /\ sum_ok (k_nxt s).

Lemma map_get_pm_set (m : list (bytes * N)) k v t :
  map_get (pm_set m k v) t = if bytes_eqb k t then v else map_get m t.
Proof.
  induction m as [|[k' v'] m IH]; cbn.
  - destruct (bytes_eqb k t); reflexivity.
  - destruct (bytes_eqb k' k) eqn:E; cbn.
    + apply bytes_eqb_eq in E; subst. destruct (bytes_eqb k t); reflexivity.
    + destruct (bytes_eqb k' t) eqn:E2.
      * destruct (bytes_eqb k t) eqn:E3; [|reflexivity].
        apply bytes_eqb_eq in E2, E3; subst. rewrite bytes_eqb_refl in E. discriminate.
      * exact IH.
Qed.

(** the block-power component of [set_powers] evolves on its own *)
Lemma blocks_fold pows pm : forall present b maxh maxp,
  snd (fst (let '(present, blocks, maxh, maxp) :=
    fold_left (fun acc e =>
      let '(present, blocks, maxh, maxp) := acc in
      let bp := proof_power pows (snd e) in
      let present' := present ++ map fst (snd e) in
      let blocks' := pm_set blocks (fst e) bp in
      if bp =? maxp then (present', blocks', bytes_min maxh (fst e), maxp)
      else if maxp <? bp then (present', blocks', fst e, bp)
      else (present', blocks', maxh, maxp)) pm (present, b, maxh, maxp) in
    (idx_power pows (sort_n (nodup_n present)), blocks, maxh))) =
  fold_left (fun b e => pm_set b (fst e) (proof_power pows (snd e))) pm b.
Proof.
  induction pm as [|e pm IH]; intros present b maxh maxp; cbn [fold_left]; [reflexivity|].
  destruct (proof_power pows (snd e) =? maxp); [apply IH|].
  destruct (maxp <? proof_power pows (snd e)); apply IH.
Qed.

Lemma blocks_eq pows pm :
  blocks pows pm = fold_left (fun b e => pm_set b (fst e) (proof_power pows (snd e))) pm [].
Proof. unfold blocks, set_powers. apply blocks_fold. Qed.

(** a block power recorded in the summary is the power of some proof filed under that hash *)
Lemma fold_blocks_in pows pm : forall b t,
  map_get (fold_left (fun b e => pm_set b (fst e) (proof_power pows (snd e))) pm b) t = map_get b t \/
  exists p, In (t, p) pm /\
    proof_power pows p = map_get (fold_left (fun b e => pm_set b (fst e) (proof_power pows (snd e))) pm b) t.
Proof.
  induction pm as [|[k p] pm IH]; intros b t; cbn [fold_left fst snd]; [left; reflexivity|].
  destruct (IH (pm_set b k (proof_power pows p)) t) as [H|(q&Hin&Hq)].
  - rewrite H. rewrite map_get_pm_set. destruct (bytes_eqb k t) eqn:E.
    + right. apply bytes_eqb_eq in E; subst. exists p. split; [left; reflexivity|reflexivity].
    + left. reflexivity.
  - right. exists q. split; [right; exact Hin|exact Hq].
Qed.

Lemma blocks_in pows pm t : 0 < map_get (blocks pows pm) t ->
  exists p, In (t, p) pm /\ proof_power pows p = map_get (blocks pows pm) t.
Proof.
  rewrite blocks_eq. intros Hpos.
  destruct (fold_blocks_in pows pm [] t) as [H|H]; [|exact H].
  rewrite H in Hpos. cbn in Hpos. lia.
Qed.

Lemma sum_pows_lt l : sum_pows l < two64.
Proof.
  unfold sum_pows.
  assert (G : forall a, a < two64 -> fold_left (fun a p => wrap64 (a + p)) l a < two64).
  { induction l as [|x l IH]; intros a Ha; cbn [fold_left]; [exact Ha|].
    apply IH. unfold wrap64. apply N.mod_upper_bound. unfold two64. lia. }
  apply G. unfold two64. lia.
Qed.

Lemma byz_majority_pos n m : n < two64 -> byz_majority n = Ok m -> 0 < m.
Proof.
  intros Hn Hm. destruct (N.eq_dec n 0) as [->|Hnz].
  - destruct GV.Proofs.Thresholds.zero_panics as [[st Hs] _]. rewrite Hs in Hm. discriminate.
  - destruct (GV.Proofs.Thresholds.maj_least n) as (m'&Hm'&_&Hgt&_); [split; lia|].
    rewrite Hm' in Hm. inversion Hm; subst. lia.
Qed.

(** ** Certificates *)
Definition chain_vals (ih : N) (ivs : valset) (l : list (N * (hdr * cproof))) (h : N) : valset :=
  if h =? ih then ivs
  else match find (fun e => fst e =? h - 1) l with
       | Some (_, (x, _)) => hd_next x
       | None => ivs
       end.

Definition cert (vs : valset) (h : N) (x : hdr) (cp : cproof) : Prop :=
  exists p maj,
    In (hd_hash x, as_sparse p) (cp_proofs cp) /\
    auth_proof (vs_keys vs) KPrecommit h (cp_round cp) (hd_hash x) p /\
    byz_majority (sum_pows (vs_pows vs)) = Ok maj /\
    maj <= proof_power (vs_pows vs) p.

Definition hinv (ih : N) (ivs : valset) (s : kstate) : Prop :=
  forall h x cp, In (h, (x, cp)) (st_hdrs s) -> cert (chain_vals ih ivs (st_hdrs s) h) h x cp.

(** everything the proofs carry along *)
Definition INV (ih : N) (ivs : valset) (s : kstate) : Prop :=
  cinv ih ivs s /\ auth_state s /\ sinv s /\ hinv ih ivs s.

(** ** Frame for sinv / hinv *)
Definition sum_frame (s s' : kstate) : Prop :=
  k_vot s' = k_vot s /\ k_nxt s' = k_nxt s /\ st_hdrs s' = st_hdrs s.

Lemma sinv_hinv_frame ih ivs s s' :
  v_sum (k_vot s') = v_sum (k_vot s) -> v_vals (k_vot s') = v_vals (k_vot s) -> v_pc (k_vot s') = v_pc (k_vot s) ->
  v_sum (k_nxt s') = v_sum (k_nxt s) -> v_vals (k_nxt s') = v_vals (k_nxt s) -> v_pc (k_nxt s') = v_pc (k_nxt s) ->
  st_hdrs s' = st_hdrs s ->
  sinv s -> hinv ih ivs s -> sinv s' /\ hinv ih ivs s'.
Proof.
  intros A1 A2 A3 B1 B2 B3 Hh [Sv Sn] Hi. unfold sinv, sum_ok, hinv in *.
  rewrite A1, A2, A3, B1, B2, B3, Hh. auto.
Qed.

(** ** Round increments *)
Lemma blocks_nil pows : blocks pows [] = [].
Proof. reflexivity. Qed.

Lemma sinv_increment s : sinv s -> sinv (update_observers (increment_voting_round s)).
Proof.
  intros [Sv Sn]. unfold sinv, sum_ok, update_observers, increment_voting_round. cbn.
  split; [exact Sn|]. split; [apply Sv|reflexivity].
Qed.

Lemma hinv_increment ih ivs s : hinv ih ivs s -> hinv ih ivs (update_observers (increment_voting_round s)).
Proof. intros H; exact H. Qed.

(** ** The commit shift *)
Lemma chain_vals_ext ih ivs l newh x h :
  (forall h' y, In (h', y) l -> h' < newh) -> h <= newh -> ih <= h -> 1 <= ih ->
  chain_vals ih ivs ((newh, x) :: l) h = chain_vals ih ivs l h.
Proof.
  intros Hl Hle Hih Hone. unfold chain_vals. destruct (h =? ih); [reflexivity|].
  cbn [find fst]. destruct (N.eqb_spec newh (h - 1)); [lia|reflexivity].
Qed.

Lemma INV_shift ih ivs s p :
  INV ih ivs s -> In p (v_phs (k_vot s)) ->
  (exists maj, byz_majority (sm_avail (v_sum (k_vot s))) = Ok maj /\
               maj <= map_get (sm_pcp (v_sum (k_vot s))) (hd_hash (ph_hdr p))) ->
  INV ih ivs (shift_voting_to_committing s (ph_hdr p)).
Proof.
  intros (Hc&Ha&Hs&Hh) Hin (maj&Hmaj&Hpow).
  split; [apply cinv_shift; assumption|]. split; [apply auth_shift; assumption|].
  split.
  - unfold sinv, sum_ok, shift_voting_to_committing, update_observers. cbn. repeat split.
  - (* the new entry carries a certificate; old entries are untouched *)
    pose proof Hc as (Hi1&Hi2&Hi3&Hnh&Hnr&Hnhr&Hvv&Hvn&Hok&Hphs&Hch).
    destruct (Hphs p (or_introl Hin)) as (Ph&Pok&Pnext&Pb&Pprev).
    destruct Ha as (_&Hav&_). destruct Hs as [(Savail&Spcp) _].
    assert (Hmajpos : 0 < maj).
    { apply (byz_majority_pos (sm_avail (v_sum (k_vot s)))); [rewrite Savail; apply sum_pows_lt|exact Hmaj]. }
    rewrite Spcp in Hpow.
    assert (Hpos : 0 < map_get (blocks (vs_pows (v_vals (k_vot s))) (v_pc (k_vot s))) (hd_hash (ph_hdr p))) by lia.
    destruct (blocks_in _ _ _ Hpos) as (pf&Hpf&Hpp).
    (* facts about the old store *)
    assert (Hold : forall h' y, In (h', y) (st_hdrs s) -> h' < hd_height (ph_hdr p) /\ ih <= h').
    { intros h' y Hy. unfold chain_ok in Hch. destruct (k_chdr s) as [ch|].
      - destruct Hch as (C1&C2&C3&_&Hchain). destruct (hchain_bounds _ _ _ Hchain) as [_ Hb].
        destruct (Hb _ _ Hy). lia.
      - destruct Hch as (_&_&C3&_). rewrite C3 in Hy. destruct Hy. }
    assert (Hfilter : filter (fun e : N * (hdr * cproof) => negb (fst e =? hd_height (ph_hdr p))) (st_hdrs s) = st_hdrs s).
    { clear -Hold. induction (st_hdrs s) as [|[h' y] l IH]; cbn; [reflexivity|].
      assert (h' < hd_height (ph_hdr p)) by (apply (Hold h' y); left; reflexivity).
      destruct (N.eqb_spec h' (hd_height (ph_hdr p))); [lia|]. cbn. f_equal. apply IH.
      intros h'' y' Hy'. apply (Hold h'' y'). right; exact Hy'. }
    unfold hinv, shift_voting_to_committing, update_observers. cbn. unfold hstore_set. rewrite Hfilter.
    intros h x cp [E|Hx].
    + inversion E; subst h x cp. clear E.
      (* validator set prescribed for this height = the voting view's set *)
      assert (Hvals : chain_vals ih ivs
                        ((hd_height (ph_hdr p), (ph_hdr p,
                           {| cp_round := v_r (k_vot s); cp_pkh := vs_pkh (v_vals (k_vot s));
                              cp_proofs := map (fun e => (fst e, as_sparse (snd e))) (v_pc (k_vot s)) |})) :: st_hdrs s)
                        (hd_height (ph_hdr p)) = v_vals (k_vot s)).
      { rewrite Hvv. unfold chain_vals, expected_vals. cbn [find fst].
        unfold chain_ok in Hch. destruct (k_chdr s) as [ch|] eqn:Hck.
        - destruct Hch as (C1&C2&C3&(cp0&rest&Hst)&Hchain).
          destruct (hchain_bounds _ _ _ Hchain) as [Hb0 _].
          destruct (N.eqb_spec (hd_height (ph_hdr p)) ih); [lia|].
          destruct (N.eqb_spec (hd_height (ph_hdr p)) (hd_height (ph_hdr p) - 1)); [lia|].
          rewrite Hst. cbn [find fst]. replace (hd_height (ph_hdr p) - 1) with (hd_height ch) by lia.
          rewrite N.eqb_refl. reflexivity.
        - destruct Hch as (_&_&_&C4). rewrite Ph, C4, N.eqb_refl. congruence. }
      rewrite Hvals. exists pf, maj. cbn [cp_proofs cp_round].
      split; [apply in_map_iff; exists (hd_hash (ph_hdr p), pf); split; [reflexivity|exact Hpf]|].
      split; [rewrite Ph; apply (proj2 Hav _ _ Hpf)|].
      split; [rewrite <- Savail; exact Hmaj|lia].
    + destruct (Hold _ _ Hx) as [Hlt Hge].
      rewrite chain_vals_ext; [apply Hh; exact Hx| |lia|exact Hge|exact Hi3].
      intros h' y Hy. apply (Hold h' y Hy).
Qed.

(** ** The three shift checks *)
Lemma INV_increment ih ivs s : INV ih ivs s -> INV ih ivs (update_observers (increment_voting_round s)).
Proof.
  intros (Hc&Ha&Hs&Hh). split; [apply cinv_increment; exact Hc|].
  split; [apply auth_update_observers, auth_increment; exact Ha|].
  split; [apply sinv_increment; exact Hs|exact Hh].
Qed.

Lemma INV_advance ih ivs s : INV ih ivs s -> INV ih ivs (advance_voting_round s).
Proof. intros H. exact (INV_increment ih ivs (ev_w s (EvNil (k_vot s))) H). Qed.
Lemma INV_jump ih ivs s : INV ih ivs s -> INV ih ivs (jump_voting_round s).
Proof. intros H. exact (INV_increment ih ivs s H). Qed.

Lemma INV_check_voting ih ivs s s' :
  INV ih ivs s -> check_voting_precommit_shift s = Ok s' -> INV ih ivs s'.
Proof.
  intros H. unfold check_voting_precommit_shift, bind.
  destruct (byz_majority _) as [maj|] eqn:Hmaj; [|discriminate].
  destruct (_ <? maj) eqn:Hlt.
  - destruct (_ =? _); intros E; inversion E; subst; [apply INV_advance|]; exact H.
  - destruct (sm_mpc _) eqn:Hm.
    + intros E; inversion E; subst. apply INV_advance; exact H.
    + rewrite <- Hm in *. destruct (find _ _) as [p|] eqn:Hf; intros E; inversion E; subst; [|exact H].
      pose proof (find_in _ _ _ Hf) as Hin.
      pose proof (find_some _ _ Hf) as [_ Heq]. apply bytes_eqb_eq in Heq.
      apply INV_shift; [exact H|exact Hin|].
      exists maj. split; [exact Hmaj|]. rewrite Heq. apply N.ltb_ge in Hlt. exact Hlt.
Qed.

Lemma INV_check_next_round ih ivs s s' :
  INV ih ivs s -> check_next_round_precommit_shift s = Ok s' -> INV ih ivs s'.
Proof.
  intros H. unfold check_next_round_precommit_shift, bind.
  destruct (byz_minority _) as [mn|]; [|discriminate].
  destruct (_ <? mn); [intros E; inversion E; subst; exact H|].
  destruct (byz_majority _) as [maj|]; [|discriminate].
  destruct (maj <=? _).
  - apply INV_check_voting, INV_jump, H.
  - intros E; inversion E; subst. apply INV_jump, H.
Qed.

Lemma INV_check_prevote ih ivs s s' :
  INV ih ivs s -> check_prevote_shift s = Ok s' -> INV ih ivs s'.
Proof.
  intros H. unfold check_prevote_shift, bind.
  destruct (byz_minority _) as [mn|]; [|discriminate].
  destruct (_ <? mn); intros E; inversion E; subst; [exact H|apply INV_jump, H].
Qed.

(** ** Votes *)
Lemma INV_apply_votes ih ivs kind s vid h r ups s' :
  (kind = KPrevote \/ kind = KPrecommit) ->
  (vid = ViewIDVoting \/ vid = ViewIDNextRound \/ vid = ViewIDCommitting) ->
  INV ih ivs s ->
  auth_pmap (vs_keys (v_vals (get_view s vid))) kind (v_h (get_view s vid)) (v_r (get_view s vid)) ups ->
  apply_votes kind s vid h r ups = Ok s' -> INV ih ivs s'.
Proof.
  intros Hk Hvid (Hc&Ha&Hs&Hh) Hu Happ.
  pose proof (cinv_apply_votes _ _ _ _ _ _ _ _ _ Hc Happ) as [Hc' _].
  pose proof (auth_apply_votes _ _ _ _ _ _ _ Hk Ha Hu Happ) as Ha'.
  revert Happ. unfold apply_votes.
  set (v := get_view s vid).
  set (votes' := fold_left (fun m e => pm_set m (fst e) (snd e)) ups (view_votes kind v)).
  set (v1 := if kind =? KPrevote then with_pv v votes' else with_pc v votes').
  set (sm' := if kind =? KPrevote then sum_set_prevotes _ _ _ else _).
  set (v2 := bump (with_sum v1 sm')).
  set (s1 := put_view s vid v2).
  set (s2 := ev_w (log_w (set_rounds s1 _) _) _).
  (* the intermediate state satisfies everything *)
  assert (H2 : INV ih ivs s2).
  { assert (Hpos : pos_eq v v2) by (unfold v2, v1; destruct (kind =? KPrevote); repeat split).
    assert (F : frame_eq s s2) by (eapply frame_eq_trans; [apply frame_put_view; exact Hpos|apply frame_set_rounds]).
    split; [eapply cinv_frame; eassumption|].
    split.
    { assert (Hv : auth_view v) by (apply get_view_auth; exact Ha).
      assert (Hvotes : auth_pmap (vs_keys (v_vals v)) kind (v_h v) (v_r v) votes')
        by (apply fold_pm_set_auth; [apply view_votes_auth; assumption|exact Hu]).
      assert (Hv1 : auth_view v1)
        by (unfold v1; destruct Hk as [->| ->]; cbn; split; cbn; try apply Hv; exact Hvotes).
      apply auth_set_rounds, put_view_auth; [exact Ha|].
      apply auth_view_bump. eapply auth_view_same; [apply same_votes_with_sum|exact Hv1]. }
    assert (Hsum2 : sum_ok v -> sum_ok v2).
    { intros [S1 S2]. unfold v2, v1, sm', sum_ok.
      destruct Hk as [->| ->]; cbn.
      - unfold sum_set_prevotes. destruct (set_powers _ _) as [[t b] m]. cbn. split; assumption.
      - unfold sum_set_precommits. cbn.
        destruct (set_powers (vs_pows (v_vals v)) votes') as [[t b] m] eqn:Esp. cbn.
        split; [exact S1|]. unfold blocks. rewrite Esp. reflexivity. }
    destruct Hs as [Sv Sn].
    unfold s2, s1, put_view, v in *. unfold get_view in *.
    destruct Hvid as [->|[->| ->]]; cbn in *.
    - split; [split; [apply Hsum2; exact Sv|exact Sn]|exact Hh].
    - split; [split; [exact Sv|apply Hsum2; exact Sn]|exact Hh].
    - split; [split; assumption|exact Hh]. }
  destruct (kind =? KPrevote).
  - destruct (vid =? ViewIDNextRound).
    + apply INV_check_prevote; exact H2.
    + intros E; inversion E; subst; exact H2.
  - destruct (vid =? ViewIDVoting).
    + apply INV_check_voting; exact H2.
    + destruct (vid =? ViewIDNextRound).
      * apply INV_check_next_round; exact H2.
      * intros E; inversion E; subst; exact H2.
Qed.

Lemma INV_frame_rounds ih ivs s s' :
  frame_eq s s' -> k_vot s' = k_vot s -> k_nxt s' = k_nxt s -> k_com s' = k_com s ->
  INV ih ivs s -> INV ih ivs s'.
Proof.
  intros F Ev En Ec (Hc&Ha&Hs&Hh).
  split; [eapply cinv_frame; eassumption|].
  split; [unfold auth_state in *; rewrite Ev, En, Ec; exact Ha|].
  destruct F as (_&_&_&_&_&Fh&_).
  split; [unfold sinv in *; rewrite Ev, En; exact Hs|unfold hinv in *; rewrite <- Fh; exact Hh].
Qed.

Lemma handle_future_views kind s m s' res :
  handle_future_votes kind s m = Ok (s', res) ->
  k_vot s' = k_vot s /\ k_nxt s' = k_nxt s /\ k_com s' = k_com s.
Proof.
  unfold handle_future_votes.
  destruct (if vm_h m =? _ then _ else _) as [keys|]; [|intros E; inversion E; subst; auto].
  destruct keys; [intros E; inversion E; subst; auto|].
  destruct (negb (bytes_eqb _ _)); [intros E; inversion E; subst; auto|].
  destruct (match coll_of _ _ with Some c => c | None => _ end) as [spkh stored].
  destruct (fold_left _ _ _) as [[full' allv] inc].
  destruct (negb allv); [intros E; inversion E; subst; auto|].
  destruct (negb inc); intros E; inversion E; subst; auto.
Qed.

Lemma INV_handle_votes ih ivs kind s m s' res :
  (kind = KPrevote \/ kind = KPrecommit) -> INV ih ivs s ->
  handle_votes kind s m = Ok (s', res) -> INV ih ivs s'.
Proof.
  intros Hk H. unfold handle_votes, bind.
  destruct (vm_proofs m) as [|vp0 vpl] eqn:Hp; [intros E; inversion E; subst; exact H|].
  rewrite <- Hp. clear Hp vp0 vpl.
  destruct (find_view _ _ _) as [[vid st]|] eqn:Hfv; [|discriminate].
  destruct (st =? ViewFuture).
  { intros E. destruct (handle_future_views _ _ _ _ _ E) as (E1&E2&E3).
    eapply INV_frame_rounds; try eassumption. eapply frame_handle_future; exact E. }
  destruct (st =? ViewFound) eqn:Hst; cbn [negb]; [|intros E; inversion E; subst; exact H].
  apply N.eqb_eq in Hst.
  assert (Hvid : vid = ViewIDVoting \/ vid = ViewIDNextRound \/ vid = ViewIDCommitting).
  { destruct (find_view_found _ _ _ _ _ Hfv Hst) as [(A&_)|[(A&_)|(A&_)]]; auto. }
  destruct (negb (bytes_eqb _ _)); [intros E; inversion E; subst; exact H|].
  destruct (sigs_to_add _ _ _) as [|x0 l0] eqn:Hs; [intros E; inversion E; subst; exact H|]. rewrite <- Hs. clear Hs.
  pose proof H as (_&Ha&_).
  pose proof (build_updates_auth kind (get_view s vid) (sigs_to_add (view_votes kind (get_view s vid)) (vm_proofs m)
     (List.length (vs_keys (v_vals (get_view s vid))))) Hk (get_view_auth s vid Ha)) as Hb.
  destruct (build_updates _ _ _) as [ups allv]. cbn [fst] in Hb.
  destruct ups as [|u ups'] eqn:Hu; [intros E; inversion E; subst; exact H|]. rewrite <- Hu in *. clear Hu.
  destruct (apply_votes _ _ _ _ _ _) as [s2|] eqn:Happ; [|discriminate].
  intros E; inversion E; subst. eapply INV_apply_votes; eassumption.
Qed.

(** ** Proposed headers *)
Lemma INV_add_ph ih ivs s p s' :
  INV ih ivs s -> accept_facts s p -> add_ph s p = Ok s' -> INV ih ivs s'.
Proof.
  intros H Hfacts Hadd.
  pose proof H as (Hc&Ha&Hs&Hh).
  revert Hadd. unfold add_ph, bind.
  destruct (find_view _ _ _) as [[vid st]|] eqn:Hfv; [|discriminate].
  destruct (st =? ViewFound) eqn:Hst; cbn [negb]; [|intros E; inversion E; subst; exact H].
  apply N.eqb_eq in Hst.
  destruct (existsb _ _); [intros E; inversion E; subst; exact H|].
  pose proof (find_view_found _ _ _ _ _ Hfv Hst) as Hcase. cbn in Hcase.
  assert (Hvid : vid = ViewIDVoting \/ vid = ViewIDNextRound \/ vid = ViewIDCommitting).
  { destruct Hcase as [(A&_)|[(A&_)|(A&_)]]; auto. }
  destruct Hfacts as (Aok&Anext&Ab&Aprev).
  assert (Hgood : vid = ViewIDVoting \/ vid = ViewIDNextRound -> ph_good s p).
  { intros Hv. assert (Hhh : hd_height (ph_hdr p) = v_h (k_vot s)).
    { destruct Hcase as [(A&B&C)|[(A&B&C)|(A&B&C&D)]]; try exact B.
      subst vid. destruct Hv as [Hv|Hv]; discriminate. }
    unfold ph_good. splits; try assumption. intros Hne. apply Aprev; assumption. }
  destruct (cinv_put_phs ih ivs s vid p Hc Hvid Hgood) as (H1&_).
  set (s1 := put_view s vid _) in *.
  assert (I1 : INV ih ivs s1).
  { split; [exact H1|]. split.
    - apply put_view_auth; [exact Ha|]. apply auth_view_bump.
      eapply auth_view_same; [apply same_votes_with_phs|]. apply get_view_auth; exact Ha.
    - unfold s1, put_view, get_view. destruct Hs as [Sv Sn].
      destruct Hvid as [->|[->| ->]]; cbn; (split; [split; assumption|exact Hh]). }
  set (s2 := ev_w (log_w (set_rounds s1 _) _) _).
  assert (I2 : INV ih ivs s2) by (eapply INV_frame_rounds; [apply frame_set_rounds| | | |exact I1]; reflexivity).
  destruct (negb _); [intros E; inversion E; subst; exact I2|].
  assert (I3 : INV ih ivs (backfill_commit s2 p)).
  { destruct I2 as (C2&A2&S2&Hh2).
    split; [eapply cinv_frame; [apply frame_backfill|exact C2]|].
    split; [apply auth_backfill; exact A2|].
    unfold backfill_commit. destruct (fold_left _ _ _) as [pc' any].
    destruct any; (split; [exact S2|exact Hh2]). }
  destruct (vid =? ViewIDVoting).
  - destruct (pm_get _ _).
    + apply INV_check_voting; exact I3.
    + intros E; inversion E; subst; exact I3.
  - intros E; inversion E; subst; exact I3.
Qed.

Lemma status_acceptable s p status proposer prev_hash prev_vs view_vs :
  ph_check s p = PHC status proposer prev_hash prev_vs view_vs ->
  (status =? PHCheckAlreadyHaveSignature) = false -> (status =? PHCheckSignerUnrecognized) = false ->
  (status =? PHCheckRoundTooOld) = false -> (status =? PHCheckRoundTooFarInFuture) = false ->
  (status =? PHCheckNextHeight) = false -> status = PHCheckAcceptable.
Proof.
  intros Hc S1 S2 S3 S4 S5. unfold ph_check, set_ph_check_status in Hc.
  repeat match goal with
         | X : context [if ?c then _ else _] |- _ => destruct c
         | X : context [match ?c with _ => _ end] |- _ => destruct c
         end; inversion Hc; subst; try reflexivity; try discriminate.
Qed.

Lemma INV_handle_ph_loop ih ivs fuel : forall backfilled s p s' res,
  INV ih ivs s -> ph_bounded p -> handle_ph_loop fuel backfilled s p = Ok (s', res) -> INV ih ivs s'.
Proof.
  assert (Hbody : forall s p status proposer prev_hash prev_vs view_vs s' res,
    INV ih ivs s -> ph_bounded p ->
    ph_check s p = PHC status proposer prev_hash prev_vs view_vs -> status = PHCheckAcceptable ->
    (let hd := ph_hdr p in
      if negb (hd_ok hd) then Ok (s, HandleProposedHeaderBadBlockHash)
      else if negb (vs_ok (hd_vals hd) && vs_ok (hd_next hd)) then Ok (s, HandleProposedHeaderBadBlockHash)
      else if negb (valset_equal (hd_vals hd) view_vs) then Ok (s, HandleProposedHeaderBadBlockHash)
      else
        match proposer with
        | None => Ok (s, HandleProposedHeaderBadSignature)
        | Some key =>
          if negb (verify_prop key (ph_content p) (ph_round p) (ph_sig p)) then Ok (s, HandleProposedHeaderBadSignature)
          else if negb (hd_height hd =? k_init_h s) && negb (bytes_eqb (hd_prev hd) prev_hash)
          then Ok (s, HandleProposedHeaderBadBlockHash)
          else if negb (bytes_eqb (vs_pkh prev_vs) (cp_pkh (hd_pcp hd)))
          then Ok (s, HandleProposedHeaderBadPrevCommitProofPubKeyHash)
          else
            let accept := bind (add_ph s p) (fun s' => Ok (s', HandleProposedHeaderAccepted)) in
            if k_init_h s <? hd_height hd then
              match vs_keys prev_vs with
              | [] => Ok (s, HandleProposedHeaderBadPrevCommitProofPubKeyHash)
              | _ =>
                match validate_finalized (sub64 (hd_height hd) 1) (cp_round (hd_pcp hd)) (vs_keys prev_vs)
                        (hd_prev hd) (cp_proofs (hd_pcp hd)) with
                | (_, false) => Ok (s, HandleProposedHeaderBadPrevCommitProofDoubleSigned)
                | (None, true) => Ok (s, HandleProposedHeaderBadPrevCommitProofSignature)
                | (Some bits, true) =>
                    let avail := sum_pows (vs_pows prev_vs) in
                    bind (byz_majority avail) (fun maj =>
                    if idx_power (vs_pows prev_vs) bits <? maj
                    then Ok (s, HandleProposedHeaderBadPrevCommitVoteCount)
                    else accept)
                end
              end
            else accept
        end) = Ok (s', res) ->
    INV ih ivs s').
  { intros s p status proposer prev_hash prev_vs view_vs s' res H Hb Hc Hs. cbv zeta.
    assert (Hsame : forall r0, Ok (s, r0) = Ok (s', res) -> INV ih ivs s')
      by (intros r0 E; inversion E; subst; exact H).
    destruct (hd_ok (ph_hdr p)) eqn:Hok; cbn [negb]; [|apply Hsame].
    destruct (vs_ok (hd_vals (ph_hdr p)) && vs_ok (hd_next (ph_hdr p))) eqn:Hvs; cbn [negb]; [|apply Hsame].
    apply andb_true_iff in Hvs as [_ Hnext].
    destruct (valset_equal (hd_vals (ph_hdr p)) view_vs) eqn:Hveq; cbn [negb]; [|apply Hsame].
    destruct proposer as [key|]; [|apply Hsame].
    destruct (negb (verify_prop _ _ _ _)); [apply Hsame|].
    destruct (negb (hd_height (ph_hdr p) =? k_init_h s) && negb (bytes_eqb (hd_prev (ph_hdr p)) prev_hash)) eqn:Hprev; [apply Hsame|].
    destruct (negb (bytes_eqb (vs_pkh prev_vs) _)); [apply Hsame|].
    assert (Hfacts : accept_facts s p).
    { unfold accept_facts. repeat split; try assumption.
      intros Hh Hne. destruct (ph_check_prev _ _ _ _ _ _ _ _ _ (proj1 H) Hc Hs Hh Hne) as (ch&Hch&Hph).
      exists ch. split; [exact Hch|].
      apply andb_false_iff in Hprev as [Hp|Hp].
      - apply negb_false_iff in Hp. apply N.eqb_eq in Hp. contradiction.
      - apply negb_false_iff in Hp. apply bytes_eqb_eq in Hp. congruence. }
    assert (Hacc : bind (add_ph s p) (fun s' => Ok (s', HandleProposedHeaderAccepted)) = Ok (s', res) -> INV ih ivs s').
    { unfold bind. destruct (add_ph s p) eqn:Hadd; [|discriminate].
      intros E; inversion E; subst. eapply INV_add_ph; eassumption. }
    destruct (k_init_h s <? _); [|exact Hacc].
    destruct (vs_keys prev_vs); [apply Hsame|].
    destruct (validate_finalized _ _ _ _ _) as [[bits|] [|]]; try apply Hsame.
    unfold bind at 1. destruct (byz_majority _); [|discriminate].
    destruct (_ <? _); [apply Hsame|exact Hacc]. }
  induction fuel as [|f IH]; intros backfilled s p s' res H Hb; cbn [handle_ph_loop];
    destruct (ph_check s p) as [status proposer prev_hash prev_vs view_vs] eqn:Hc.
  all: assert (Hsame : forall r0, Ok (s, r0) = Ok (s', res) -> INV ih ivs s')
         by (intros r0 E; inversion E; subst; exact H).
  all: destruct (status =? PHCheckAlreadyHaveSignature) eqn:S1; [apply Hsame|].
  all: destruct (status =? PHCheckSignerUnrecognized) eqn:S2; [apply Hsame|].
  all: destruct (status =? PHCheckRoundTooOld) eqn:S3; [apply Hsame|].
  all: destruct (status =? PHCheckRoundTooFarInFuture) eqn:S4; [apply Hsame|].
  all: destruct (status =? PHCheckNextHeight) eqn:S5.
  - destruct backfilled; apply Hsame.
  - eapply Hbody; try eassumption. eapply status_acceptable; eassumption.
  - destruct backfilled; [apply Hsame|].
    unfold bind at 1. destruct (handle_votes KPrecommit s (vote_msg_of_pcp p)) as [[s1 r1]|] eqn:Hv; [|discriminate].
    cbn [fst]. apply IH; [|exact Hb]. eapply INV_handle_votes; [right; reflexivity|exact H|exact Hv].
  - eapply Hbody; try eassumption. eapply status_acceptable; eassumption.
Qed.

(** ** Replayed headers *)
Lemma INV_jump_until ih ivs fuel : forall s r, INV ih ivs s -> INV ih ivs (jump_until fuel s r).
Proof.
  induction fuel as [|f IH]; intros s r H; cbn [jump_until]; [exact H|].
  destruct (_ <? _); [apply IH, INV_jump, H|exact H].
Qed.

Lemma INV_handle_replay ih ivs s0 hd cp s' res :
  INV ih ivs s0 -> hd_height hd + 1 < two64 ->
  handle_replay s0 hd cp = Ok (s', res) -> INV ih ivs s'.
Proof.
  intros H0 Hb. unfold handle_replay.
  destruct (negb (hd_height hd =? _)); [intros E; inversion E; subst; exact H0|].
  destruct (cp_round cp <? _); [discriminate|].
  pose proof (INV_jump_until ih ivs (N.to_nat (cp_round cp - v_r (k_vot s0))) s0 (cp_round cp) H0) as H.
  set (s := jump_until _ s0 _) in *.
  destruct ((v_r (k_vot s) =? cp_round cp) && (v_h (k_vot s) =? hd_height hd)) eqn:Hpos; cbn [negb]; [|discriminate].
  apply andb_true_iff in Hpos as [Hr Hh]. apply N.eqb_eq in Hr, Hh.
  assert (Hsame : forall r0, Ok (s0, r0) = Ok (s', res) -> INV ih ivs s') by (intros r0 E; inversion E; subst; exact H0).
  destruct (hd_ok hd) eqn:Hok; cbn [negb]; [|apply Hsame].
  destruct (negb (hd_height hd =? k_init_h s) && negb (bytes_eqb (hd_prev hd) (chdr_hash s))) eqn:Hprev; [apply Hsame|].
  destruct (valset_equal (hd_vals hd) (v_vals (k_vot s)) && vs_ok (hd_vals hd)) eqn:Hveq; cbn [negb]; [|apply Hsame].
  apply andb_true_iff in Hveq as [Hveq _]. destruct (valset_equal_keys _ _ Hveq) as [Hkeys Hpows].
  destruct (vs_ok (hd_next hd)) eqn:Hnext; cbn [negb]; [|apply Hsame].
  destruct (fold_left _ (signed_entries (cp_proofs cp)) ([], true)) as [temp allv] eqn:Hf.
  destruct (negb allv); [apply Hsame|].
  destruct (pm_get temp (hd_hash hd)); [|apply Hsame].
  unfold bind at 1. destruct (byz_majority _); [|discriminate].
  destruct (_ <? _); [apply Hsame|].
  fold (replay_insert s hd (cp_round cp)).
  unfold bind at 1. destruct (replay_insert s hd (cp_round cp)) as [s1|] eqn:Hins; [|discriminate].
  destruct H as (Hc&Ha&Hs&Hh').
  pose proof (replay_checks_good _ _ _ _ (cp_round cp) Hc Hh Hok Hnext Hb Hprev) as Hgood.
  destruct (cinv_replay_insert _ _ _ _ _ _ Hc Hgood Hins) as [Hc1 _].
  destruct (auth_replay_insert _ _ _ _ Ha Hins) as (Ha1&E1&E2&E3&E4).
  assert (S1 : sinv s1 /\ hinv ih ivs s1 /\ v_sum (k_vot s1) = v_sum (k_vot s)).
  { revert Hins. unfold replay_insert.
    destruct (existsb _ (v_phs _)); [intros E; inversion E; subst; split; [exact Hs|split; [exact Hh'|reflexivity]]|].
    destruct (existsb _ (st_rounds s)); intros E; inversion E; subst; (split; [exact Hs|split; [exact Hh'|reflexivity]]). }
  destruct S1 as (Ss1&Sh1&Esum).
  assert (I1 : INV ih ivs s1) by (split; [exact Hc1|]; split; [exact Ha1|]; split; assumption).
  unfold bind. destruct (check_voting_precommit_shift _) as [s3|] eqn:Hcv; [|discriminate].
  intros E; inversion E; subst.
  eapply INV_check_voting; [|exact Hcv].
  (* the state handed to the shift check: only the voting view's precommits and summary changed *)
  assert (Htemp : auth_pmap (vs_keys (v_vals (k_vot s1))) KPrecommit (v_h (k_vot s1)) (v_r (k_vot s1)) temp).
  { rewrite E1, E2, E3, Hr, Hh, <- Hkeys. eapply replay_temp_auth; [| |exact Hf].
    - destruct Ha as (_&[_ Hvpc]&_). rewrite Hkeys, <- Hr, <- Hh. exact Hvpc.
    - apply auth_pmap_nil. }
  split.
  { eapply cinv_frame; [|exact Hc1]. unfold frame_eq, pos_eq. cbn. repeat split. }
  split.
  { destruct Ha1 as (Hc1'&[Hv1 Hv2]&Hn1). unfold auth_state. split; [exact Hc1'|]. split; [|exact Hn1].
    unfold auth_view, with_sum, with_pc. cbn. split; [exact Hv1|].
    apply fold_pm_set_auth; [exact Hv2|exact Htemp]. }
  split.
  { destruct Ss1 as [[Sa Sp] Sn]. unfold sinv, sum_ok. cbn. split; [|exact Sn].
    unfold sum_set_precommits. cbn.
    destruct (set_powers (vs_pows (v_vals (k_vot s1)))
                (fold_left (fun m e => pm_set m (fst e) (snd e)) temp (v_pc (k_vot s1)))) as [[t b] m] eqn:Esp.
    cbn. split; [exact Sa|]. unfold blocks. rewrite Esp. reflexivity. }
  exact Sh1.
Qed.

Lemma INV_step ih ivs s o s' res :
  INV ih ivs s -> op_bounded o -> step s o = Ok (s', res) -> INV ih ivs s'.
Proof.
  intros H Hb. destruct o as [p|m|m|x cp]; cbn [step]; [| | |apply INV_handle_replay; assumption].
  - unfold handle_ph. destruct (ph_key p).
    + apply INV_handle_ph_loop; assumption.
    + intros E; inversion E; subst. exact H.
  - apply INV_handle_votes; [left; reflexivity|exact H].
  - apply INV_handle_votes; [right; reflexivity|exact H].
Qed.

Lemma INV_init ih ivs : 1 <= ih -> vs_ok ivs = true -> INV ih ivs (init_state ih ivs).
Proof.
  intros Hi Hok. split; [apply cinv_init; assumption|]. split; [apply auth_init|].
  split; [unfold sinv, sum_ok, init_state; cbn; repeat split|].
  unfold hinv, init_state. cbn. intros h x cp [].
Qed.

Theorem reachable_INV ih ivs s : 1 <= ih -> vs_ok ivs = true -> reachable_b ih ivs s -> INV ih ivs s.
Proof.
  intros Hi Hok. induction 1 as [|s o s' res Hr IH Hb Hs]; [apply INV_init; assumption|].
  eapply INV_step; eassumption.
Qed.

Theorem commit_needs_certificate ih ivs s :
  1 <= ih -> vs_ok ivs = true -> reachable_b ih ivs s ->
  (forall h x cp, In (h, (x, cp)) (st_hdrs s) -> cert (chain_vals ih ivs (st_hdrs s) h) h x cp) /\
  (forall ch, k_chdr s = Some ch -> exists cp rest, st_hdrs s = (hd_height ch, (ch, cp)) :: rest).
Proof.
  intros Hi Hok Hr. destruct (reachable_INV ih ivs s Hi Hok Hr) as (Hc&_&_&Hh).
  split; [exact Hh|].
  intros ch Hch. destruct Hc as (_&_&_&_&_&_&_&_&_&_&Hchain). unfold chain_ok in Hchain.
  rewrite Hch in Hchain. apply Hchain.
Qed.

(** the summaries of the voting and next-round views in every reachable state *)
Lemma reachable_summaries ih ivs s : 1 <= ih -> vs_ok ivs = true -> reachable_b ih ivs s ->
  (sm_avail (v_sum (k_vot s)) = sum_pows (vs_pows (v_vals (k_vot s))) /\
   sm_pcp (v_sum (k_vot s)) = blocks (vs_pows (v_vals (k_vot s))) (v_pc (k_vot s))) /\
  (sm_avail (v_sum (k_nxt s)) = sum_pows (vs_pows (v_vals (k_nxt s))) /\
   sm_pcp (v_sum (k_nxt s)) = blocks (vs_pows (v_vals (k_nxt s))) (v_pc (k_nxt s))).
Proof.
  intros Hi Hok Hr. destruct (reachable_INV ih ivs s Hi Hok Hr) as (_&_&S&_). exact S.
Qed.
