(** The local validator's own actions (kernel.go handleStateMachineAction, Model/MirrorMgr.v
    [act_step]): authenticity ([auth_state], Proofs/MirrorAuth.v) is preserved by EVERY local action,
    without any hypothesis on the state machine - AddSignature verifies before the bit is set, under the
    key found at the index the signature is filed under ([key_index_nth]); a proposed header carries no
    vote signature.  Imported by Proofs/MirrorStreams.v (C11 over histories with local actions).
    The closures, the chain invariant / [INV] and the necessity witness are in Proofs/MirrorActInv.v,
    the Panic sites in Proofs/MirrorActTotal.v. *)
From Coq Require Import List NArith Arith Bool Lia String.
From GV Require Import Base.Ints Gen.Math Gen.Kernel Model.Mirror Model.MirrorMgr
  Proofs.MirrorAuth.
Import ListNotations.
Local Open Scope N_scope.

(** ** AddSignature's key index *)
Lemma key_index_nth keys : forall key i, key_index keys key = Some i -> nth_n keys i = Some key.
Proof.
  induction keys as [|k t IH]; intros key i; cbn [key_index]; [discriminate|].
  destruct (key_index t key) as [j|] eqn:Hj.
  - intros E; inversion E; subst. unfold nth_n.
    replace (N.to_nat (j + 1)) with (S (N.to_nat j)) by lia. cbn [nth_error]. apply IH. exact Hj.
  - destruct (k =? key) eqn:Hk; [|discriminate]. apply N.eqb_eq in Hk.
    intros E; inversion E; subst. reflexivity.
Qed.

Lemma key_index_none keys : forall key, key_index keys key = None -> ~ In key keys.
Proof.
  induction keys as [|k t IH]; intros key; cbn [key_index]; [intros _ []|].
  destruct (key_index t key) as [j|] eqn:Hj; [discriminate|].
  destruct (k =? key) eqn:Hk; [discriminate|]. apply N.eqb_neq in Hk.
  intros _ [E|Hin]; [congruence|]. exact (IH key Hj Hin).
Qed.

(** the view a vote action is filed in is at the entered height and round *)
Lemma act_view_pos s h r vid st :
  find_view (kpos_of s) h r = Ok (vid, st) ->
  (vid =? ViewIDVoting) || (vid =? ViewIDCommitting) = true ->
  h = v_h (get_view s vid) /\ r = v_r (get_view s vid).
Proof.
  unfold find_view, kpos_of. cbv zeta. cbn [kpos_Voting_Height kpos_Voting_Round kpos_Committing_Height kpos_Committing_Round].
  repeat match goal with
         | |- context [if ?c then _ else _] => destruct c eqn:?
         end; intros E; inversion E; subst; cbn; try discriminate; intros _;
  repeat match goal with
         | X : (_ =? _) = true |- _ => apply N.eqb_eq in X
         end; split; assumption.
Qed.

(** ** Authenticity: every local action keeps [auth_state] - no hypothesis on the signature *)
Lemma auth_act_vote kind s h r key target sg s' :
  (kind = KPrevote \/ kind = KPrecommit) -> auth_state s ->
  act_vote kind s h r key target sg = Ok s' -> auth_state s'.
Proof.
  intros Hk H. unfold act_vote, bind.
  destruct (find_view _ _ _) as [[vid st]|] eqn:Hfv; [|discriminate].
  destruct ((vid =? ViewIDVoting) || (vid =? ViewIDCommitting)) eqn:Hvid; cbn [negb];
    [|intros E; inversion E; subst; exact H].
  destruct (act_view_pos _ _ _ _ _ Hfv Hvid) as [Hh Hr].
  set (v := get_view s vid) in *.
  assert (Hv : auth_view v) by (apply get_view_auth; exact H).
  pose proof (view_votes_auth kind v Hk Hv) as Hvv.
  destruct (match pm_get (view_votes kind v) target with
            | Some p => Ok p
            | None => match vs_keys (v_vals v) with [] => Panic _ | _ => Ok [] end
            end) as [base|] eqn:Hbase; [|discriminate].
  assert (Hb : auth_proof (vs_keys (v_vals v)) kind (v_h v) (v_r v) target base).
  { destruct (pm_get (view_votes kind v) target) as [p|] eqn:Hg.
    - inversion Hbase; subst. eapply pm_get_auth; eassumption.
    - destruct (vs_keys (v_vals v)); [discriminate|]. inversion Hbase; subst. apply auth_proof_nil. }
  destruct key as [k|]; [|discriminate].
  destruct (key_index (vs_keys (v_vals v)) k) as [i|] eqn:Hi; [|intros E; inversion E; subst; exact H].
  destruct (verify_vote k kind h r target sg) eqn:Hver; [|intros E; inversion E; subst; exact H].
  apply verify_vote_spec in Hver. subst sg. rewrite Hh, Hr.
  apply auth_apply_votes; [exact Hk|exact H|].
  intros t p [E|[]]. inversion E; subst t p.
  apply add_sig_auth; [exact Hb|]. apply key_index_nth. exact Hi.
Qed.

Lemma auth_act_ph s p s' : auth_state s -> act_ph s p = Ok s' -> auth_state s'.
Proof.
  intros H. unfold act_ph. destruct (hd_hash (ph_hdr p)); [discriminate|]. apply auth_add_ph. exact H.
Qed.

Lemma auth_act_step s h r key a s' :
  auth_state s -> act_step s h r key a = Ok s' -> auth_state s'.
Proof.
  destruct a as [target sg|target sg|p]; cbn [act_step]; intros H.
  - apply auth_act_vote; [left; reflexivity|exact H].
  - apply auth_act_vote; [right; reflexivity|exact H].
  - apply auth_act_ph; exact H.
Qed.
