(** The C17 monitors (Monitors/C17m.v) versus the model and versus the property. *)
From Coq Require Import List NArith Bool Lia.
From GV Require Import Model.GossipData Model.Gossip Monitors.C17m Proofs.Gossip.
Import ListNotations.
Local Open Scope N_scope.

Lemma kind_eqb_eq a b : kind_eqb a b = true <-> a = b.
Proof. destruct a, b; simpl; split; intros; congruence. Qed.

Lemma vote_eqb_eq a b : vote_eqb a b = true <-> a = b.
Proof.
  destruct a as [k1 h1 r1 kh1 t1 s1 g1], b as [k2 h2 r2 kh2 t2 s2 g2]. unfold vote_eqb; simpl. split.
  - intros H. repeat (apply andb_true_iff in H as [H ?]).
    apply kind_eqb_eq in H.
    repeat match goal with X : N.eqb _ _ = true |- _ => apply N.eqb_eq in X end. subst. reflexivity.
  - intros E. inversion E; subst. rewrite !N.eqb_refl. destruct k2; reflexivity.
Qed.

Lemma incl_headers_spec a b : incl_headers a b = true <-> incl a b.
Proof.
  unfold incl_headers, mem_header. rewrite forallb_forall. split.
  - intros H x Hx. specialize (H x Hx). apply existsb_exists in H as [y [Hy E]]. apply N.eqb_eq in E. subst; auto.
  - intros H x Hx. apply existsb_exists. exists x. split; [apply H; auto|apply N.eqb_refl].
Qed.

Lemma incl_votes_spec a b : incl_votes a b = true <-> incl a b.
Proof.
  unfold incl_votes, mem_vote. rewrite forallb_forall. split.
  - intros H x Hx. specialize (H x Hx). apply existsb_exists in H as [y [Hy E]]. apply vote_eqb_eq in E. subst; auto.
  - intros H x Hx. apply existsb_exists. exists x. split; [apply H; auto|apply vote_eqb_eq; reflexivity].
Qed.

(* ------------------------------------------------------------ model satisfies the monitors *)

Lemma step_out_sound s u :
  incl (peer_headers (snd (step s u))) (update_headers u) /\
  incl (peer_votes (snd (step s u))) (update_votes u).
Proof.
  split; intros x Hx; apply in_flat_map in Hx as [b [Hb Hx]];
    destruct (step_sound s u b Hb) as [H1 H2]; auto.
Qed.

Lemma model_sound_from us : forall s sh sv, sound_from sh sv us (snd (run s us)) = true.
Proof.
  induction us as [|u us IH]; intros s sh sv; simpl; [reflexivity|].
  destruct (step s u) as [s1 o] eqn:E. specialize (IH s1).
  destruct (run s1 us) as [s2 os] eqn:R. simpl in *.
  destruct (step_out_sound s u) as [H1 H2]. rewrite E in H1, H2. simpl in H1, H2.
  rewrite (proj2 (incl_headers_spec _ _)) by (apply incl_appl; exact H1).
  rewrite (proj2 (incl_votes_spec _ _)) by (apply incl_appl; exact H2).
  simpl. apply IH.
Qed.

Definition ready (s : gstate) (sent : list bcast) (us : list update) : Prop :=
  match s with
  | GInit => match us with u0 :: _ => u_voting u0 <> None | [] => True end
  | _ => good s sent
  end.

Lemma good_mono s B B' : incl B B' -> good s B -> good s B'.
Proof.
  intros H. destruct s; simpl; auto. intros [G1 [G2 G3]]. repeat split; eapply cov_mono; eauto.
Qed.

Lemma model_complete_from us : forall s sent, ready s sent us -> forallb wf_update us = true ->
  complete_from sent us (snd (run s us)) = true.
Proof.
  induction us as [|u us IH]; intros s sent R W; simpl; [reflexivity|].
  simpl in W. apply andb_true_iff in W as [Wu W].
  assert (K : good (fst (step s u)) (snd (step s u) ++ sent) /\ covered_update (snd (step s u) ++ sent) u).
  { destruct s as [|pc pv pn| |]; simpl in R; try contradiction.
    - destruct (first_step_complete u R Wu) as [G C]. split.
      + eapply good_mono; [|exact G]. apply incl_appl, incl_refl.
      + destruct C as [C1 C2]. split; (eapply incl_tran; [eassumption|]);
          [apply peer_headers_incl|apply peer_votes_incl]; apply incl_appl, incl_refl.
    - destruct (run_step_complete (GRun pc pv pn) sent u R Wu) as [G C].
      assert (I : incl (sent ++ snd (step (GRun pc pv pn) u)) (snd (step (GRun pc pv pn) u) ++ sent))
        by (apply incl_app; [apply incl_appr|apply incl_appl]; apply incl_refl).
      split.
      + eapply good_mono; [exact I|exact G].
      + destruct C as [C1 C2]. split; (eapply incl_tran; [eassumption|]);
          [apply peer_headers_incl|apply peer_votes_incl]; exact I. }
  destruct (step s u) as [s1 o] eqn:E. specialize (IH s1 (o ++ sent)).
  destruct (run s1 us) as [s2 os] eqn:Rn. simpl in *.
  destruct K as [G [C1 C2]].
  rewrite (proj2 (incl_headers_spec _ _)) by exact C1.
  rewrite (proj2 (incl_votes_spec _ _)) by exact C2.
  simpl. apply IH; auto.
  destruct s1; simpl in G; try contradiction. exact G.
Qed.

(** MODEL SATISFIES MONITOR: on every update sequence the model's own output passes both
    monitors (the completeness monitor judges well-formed sequences only). *)
Theorem model_satisfies_monitor us : c17_mon us (snd (run_all us)) = true.
Proof.
  unfold c17_mon, c17_sound_mon, c17_complete_mon, run_all.
  rewrite model_sound_from. simpl.
  destruct (wf_seq us) eqn:W; [|reflexivity].
  unfold wf_seq in W. apply andb_true_iff in W as [W1 W2].
  apply model_complete_from; auto.
  simpl. destruct us as [|u0 us]; auto. destruct (u_voting u0); [congruence|discriminate].
Qed.

(* ------------------------------------------------------------ what a passing monitor means *)

(** If the completeness monitor accepts an observed run of a well-formed sequence then, for
    every position, everything in that update was sent at or before that step. *)
Lemma complete_from_spec us : forall sent outs, complete_from sent us outs = true ->
  forall pre u post, us = pre ++ u :: post ->
  covered_update (concat (rev (firstn (S (length pre)) outs)) ++ sent) u.
Proof.
  induction us as [|u0 us IH]; intros sent outs H pre u post E.
  - destruct pre; discriminate.
  - simpl in H. apply andb_true_iff in H as [H H3]. apply andb_true_iff in H as [H1 H2].
    apply incl_headers_spec in H1. apply incl_votes_spec in H2.
    destruct pre as [|p pre]; simpl in E; inversion E; subst.
    + destruct outs as [|o outs]; simpl in *; split; auto.
      rewrite app_nil_r. auto. rewrite app_nil_r. auto.
    + specialize (IH _ _ H3 pre u post eq_refl).
      destruct outs as [|o outs].
      * simpl in *. exact IH.
      * simpl tl in IH. change (firstn (S (length (p :: pre))) (o :: outs)) with (o :: firstn (S (length pre)) outs).
        simpl rev. rewrite concat_app. simpl concat. rewrite app_nil_r, <- app_assoc. exact IH.
Qed.

Theorem monitor_complete_sound us outs : wf_seq us = true -> c17_complete_mon us outs = true ->
  forall pre u post, us = pre ++ u :: post ->
  covered_update (concat (rev (firstn (S (length pre)) outs))) u.
Proof.
  unfold c17_complete_mon. intros -> H pre u post E.
  pose proof (complete_from_spec us [] outs H pre u post E) as C. rewrite app_nil_r in C. exact C.
Qed.
