(** C03 for mirrors: the mechanised composition of
      (a) the abstract vote-set agreement argument (Model/Network.v, Proofs/Network.v) and
      (b) the invariants of the executable mirror model (Proofs/MirrorCert.v, MirrorChain.v,
          MirrorVals.v, MirrorHdrGood.v).

    Two mirror states [s1], [s2], each reachable from the same initial height [ih] and genesis set
    [ivs] by ANY history of proposed headers, votes and replayed headers; a global list [V] of ideal
    signatures containing at least the signatures of the two nodes' committed certificates; per
    height a list [B h] of Byzantine keys.  If at every height both nodes committed the keys outside
    [B h] satisfy A1, A2, A3 w.r.t. [V] (stated on the mirror's vocabulary: key, kind, height,
    round, target hash) and [B h] has power < ByzantineMinority of the height's validator set,
    then the two nodes' committed headers have the same hash at every common height, hence (hash
    binds content: hypothesis [hash_binds_next]) the same next validator set, which is what carries
    the argument from one height to the next.

    Structure: 1. powers: [proof_power] (mirror) vs [pow] on signer masks (Thresholds/Network);
    2. an injective encoding of block hashes as numbers (nil hash = 0);  3. the translation of a
    signature list into Network votes for one height's validator list;  4. the hypotheses on the
    mirror's vocabulary and their transport;  5. agreement at one height from two certificates
    (instantiating [agreement_quorums] / [one_block_per_round] of Proofs/Network.v);  6. the
    induction over heights along the two committed chains;  7. executable checkers of the
    hypotheses, a satisfiability example and the witness that A1 is necessary. *)
From Coq Require Import List NArith ZArith Arith Bool Lia ZifyBool ZifyN String Permutation.
From GV Require Import Base.Ints Gen.Math Gen.Kernel Model.Network Model.Mirror
  Proofs.Thresholds Proofs.Network Proofs.MirrorAuth Proofs.MirrorNoop Proofs.MirrorChain
  Proofs.MirrorCert Proofs.MirrorVals Proofs.MirrorPower Proofs.MirrorHdrGood.
Import ListNotations.
Local Open Scope N_scope.

(** * 1. Masks of validator indices and their power *)

(** the bit set of the indices [k + j] such that the [j]-th key satisfies [f] *)
Fixpoint mask_from (f : N -> bool) (k : N) (keys : list N) : N :=
  match keys with
  | [] => 0
  | x :: t => let m := mask_from f (N.succ k) t in if f x then N.setbit m k else m
  end.
Definition key_mask (f : N -> bool) (keys : list N) : N := mask_from f 0 keys.

Lemma nth_n_nil {A} i : @nth_n A [] i = None.
Proof. unfold nth_n. destruct (N.to_nat i); reflexivity. Qed.

Lemma nth_n_here {A} (x : A) t k : nth_n (x :: t) (k - k) = Some x.
Proof. rewrite N.sub_diag. reflexivity. Qed.

Lemma nth_n_later {A} (x : A) t k i : k < i -> nth_n (x :: t) (i - k) = nth_n t (i - N.succ k).
Proof.
  intros H. unfold nth_n. replace (N.to_nat (i - k)) with (S (N.to_nat (i - N.succ k))) by lia. reflexivity.
Qed.

Lemma mask_from_spec f keys : forall k i,
  N.testbit (mask_from f k keys) i = true <->
  exists key, k <= i /\ nth_n keys (i - k) = Some key /\ f key = true.
Proof.
  induction keys as [|x t IH]; intros k i; cbn [mask_from].
  - rewrite N.bits_0. split; [discriminate|]. intros (key & _ & H & _). rewrite nth_n_nil in H. discriminate.
  - assert (G : N.testbit (mask_from f (N.succ k) t) i = true <->
                exists key, k < i /\ nth_n (x :: t) (i - k) = Some key /\ f key = true).
    { rewrite IH. split; intros (key & Hle & Hn & Hf); exists key.
      - split; [lia|]. rewrite nth_n_later by lia. auto.
      - split; [lia|]. rewrite nth_n_later in Hn by lia. auto. }
    destruct (f x) eqn:Fx.
    + rewrite N.setbit_iff, G. split.
      * intros [E|(key & Hlt & Hn & Hf)].
        -- subst i. exists x. split; [lia|]. split; [apply nth_n_here|exact Fx].
        -- exists key. split; [lia|auto].
      * intros (key & Hle & Hn & Hf). destruct (N.eq_dec k i) as [E|E]; [left; exact E|right].
        exists key. split; [lia|auto].
    + rewrite G. split.
      * intros (key & Hlt & Hn & Hf). exists key. split; [lia|auto].
      * intros (key & Hle & Hn & Hf). exists key. split; [|auto].
        destruct (N.eq_dec k i) as [E|E]; [|lia]. subst i. rewrite nth_n_here in Hn. congruence.
Qed.

Lemma key_mask_spec f keys i :
  N.testbit (key_mask f keys) i = true <-> exists key, nth_n keys i = Some key /\ f key = true.
Proof.
  unfold key_mask. rewrite mask_from_spec. split.
  - intros (key & _ & Hn & Hf). rewrite N.sub_0_r in Hn. eauto.
  - intros (key & Hn & Hf). exists key. rewrite N.sub_0_r. split; [lia|auto].
Qed.

(** [pow] (Thresholds) as a plain sum over the indices whose bit is set *)
Lemma pow_from_psum pows : forall pre m,
  pow_from (N.of_nat (List.length pre)) pows m =
  psum (pre ++ pows) (filter (N.testbit m) (map N.of_nat (seq (List.length pre) (List.length pows)))).
Proof.
  induction pows as [|p ps IH]; intros pre m; [reflexivity|].
  cbn [pow_from List.length seq map filter].
  specialize (IH (pre ++ [p]) m). rewrite <- app_assoc in IH. cbn [app] in IH.
  rewrite app_length in IH. cbn [List.length] in IH. rewrite Nat.add_1_r in IH.
  rewrite Nnat.Nat2N.inj_succ in IH. rewrite IH.
  destruct (N.testbit m (N.of_nat (List.length pre))).
  - rewrite psum_cons, pw_app_r. reflexivity.
  - apply N.add_0_l.
Qed.

Lemma psum_le_pow pows l m :
  NoDup l -> (forall i, In i l -> N.testbit m i = true) -> psum pows l <= pow pows m.
Proof.
  intros Hnd Hm. unfold pow.
  pose proof (pow_from_psum pows [] m) as E. cbn [List.length app N.of_nat] in E. rewrite E.
  apply psum_incl; [exact Hnd|]. intros x Hx Hpx.
  apply filter_In. split; [|apply Hm; exact Hx].
  apply in_map_iff. exists (N.to_nat x). split; [apply Nnat.N2Nat.id|].
  apply in_seq. split; [lia|]. cbn. unfold pw, nth_n in Hpx.
  destruct (nth_error pows (N.to_nat x)) eqn:En; [|exfalso; apply Hpx; reflexivity].
  apply nth_error_Some. congruence.
Qed.

(** The bridge on numbers: a signature proof whose (mirror) power reaches the (mirror) threshold is
    a quorum in the sense of Model/Network.v for every mask that contains its signer indices.
    Both sides use the generated [byz_majority]; the validator powers must not overflow uint64
    (the mirror sums with wrap-around, the Network model does not). *)
Lemma cert_quorum pows (p : proof) mj m :
  total pows < two64 ->
  byz_majority (sum_pows pows) = Ok mj -> mj <= proof_power pows p ->
  (forall i s, In (i, s) p -> N.testbit m i = true) ->
  quorumb pows m = true.
Proof.
  intros Hw Hmj Hle Hm.
  assert (Hnw : nowrap pows) by exact Hw.
  unfold quorumb. change (total pows) with (plain_total pows).
  rewrite <- (sum_pows_plain pows Hnw), Hmj. apply N.leb_le.
  unfold proof_power in Hle.
  rewrite (idx_power_plain pows (proof_idxs p) Hnw (NoDup_nodup_n _)) in Hle.
  assert (psum pows (proof_idxs p) <= pow pows m); [|lia].
  apply psum_le_pow; [apply NoDup_nodup_n|].
  intros i Hi. unfold proof_idxs in Hi. apply (proj1 (in_nodup_n _ _)) in Hi.
  apply in_map_iff in Hi as ([j s] & E & Hin). cbn in E. subst j. eapply Hm; exact Hin.
Qed.

(** * 2. Block hashes as numbers: injective, the nil hash (empty string) is 0 *)
Fixpoint enc (t : bytes) : N :=
  match t with
  | [] => 0
  | x :: t' => 2 ^ x * (2 * enc t' + 1)
  end.

Lemma pow2_odd_inj a b a' b' : 2 ^ a * (2 * b + 1) = 2 ^ a' * (2 * b' + 1) -> a = a' /\ b = b'.
Proof.
  assert (W : forall a a' b b', a < a' -> 2 ^ a * (2 * b + 1) = 2 ^ a' * (2 * b' + 1) -> False).
  { clear. intros a a' b b' Hlt H.
    replace a' with (a + N.succ (a' - a - 1)) in H by lia.
    rewrite N.pow_add_r, N.pow_succ_r', <- !N.mul_assoc in H.
    apply N.mul_cancel_l in H; [|apply N.pow_nonzero; lia].
    remember (2 ^ (a' - a - 1) * (2 * b' + 1)) as w. lia. }
  intros H. destruct (N.lt_trichotomy a a') as [Hlt|[E|Hgt]].
  - exfalso. eapply W; eassumption.
  - subst a'. split; [reflexivity|]. apply N.mul_cancel_l in H; [lia|apply N.pow_nonzero; lia].
  - exfalso. symmetry in H. eapply W; eassumption.
Qed.

Lemma enc_cons_pos x t : enc (x :: t) <> 0.
Proof.
  cbn [enc]. intros H. apply N.mul_eq_0 in H as [H|H]; [|lia].
  revert H. apply N.pow_nonzero. lia.
Qed.

Lemma enc_nil_iff t : enc t = 0 <-> t = [].
Proof.
  split; [|intros ->; reflexivity]. destruct t as [|x t]; [reflexivity|].
  intros H. exfalso. exact (enc_cons_pos _ _ H).
Qed.

Lemma enc_inj : forall a b, enc a = enc b -> a = b.
Proof.
  induction a as [|x a IH]; intros [|y b] H; [reflexivity| | |].
  - exfalso. symmetry in H. exact (enc_cons_pos _ _ H).
  - exfalso. exact (enc_cons_pos _ _ H).
  - cbn [enc] in H. apply pow2_odd_inj in H as [-> H]. f_equal. apply IH. exact H.
Qed.

(** * 3. From ideal signatures to Network votes *)
Definition kind_n (kd : kind) : N := match kd with Prevote => KPrevote | Precommit => KPrecommit end.
Definition kind_of (k : N) : option kind :=
  if k =? KPrevote then Some Prevote else if k =? KPrecommit then Some Precommit else None.

Lemma kind_of_spec k kd : kind_of k = Some kd <-> k = kind_n kd.
Proof.
  unfold kind_of, KPrevote, KPrecommit. destruct kd; cbn [kind_n];
    destruct (N.eqb_spec k 0); destruct (N.eqb_spec k 1); unfold KPrevote, KPrecommit; split; intros H;
    try discriminate; try lia; try reflexivity; congruence.
Qed.

(** the indices (from [k] on) at which [key] sits in the validator list *)
Fixpoint idxs_from (k : N) (keys : list N) (key : N) : list N :=
  match keys with
  | [] => []
  | x :: t => (if x =? key then [k] else []) ++ idxs_from (N.succ k) t key
  end.

Lemma idxs_from_spec keys key : forall k i,
  In i (idxs_from k keys key) <-> k <= i /\ nth_n keys (i - k) = Some key.
Proof.
  induction keys as [|x t IH]; intros k i; cbn [idxs_from].
  - split; [intros []|]. intros [_ H]. rewrite nth_n_nil in H. discriminate.
  - rewrite in_app_iff, IH. split.
    + intros [H|[Hle Hn]].
      * destruct (N.eqb_spec x key); [|destruct H]. destruct H as [<-|[]]. subst x.
        split; [lia|apply nth_n_here].
      * split; [lia|]. rewrite nth_n_later by lia. exact Hn.
    + intros [Hle Hn]. destruct (N.eq_dec k i) as [E|E].
      * left. subst i. rewrite nth_n_here in Hn. inversion Hn; subst. rewrite N.eqb_refl. left; reflexivity.
      * right. split; [lia|]. rewrite nth_n_later in Hn by lia. exact Hn.
Qed.

(** one ideal vote signature by [key] for height [hh] becomes one Network vote per index at which
    [key] sits in the height's validator list; everything else carries no vote *)
Definition tr_sig (keys : list N) (hh : N) (sg : sigd) : list vote :=
  match sg with
  | SVote key k h r t =>
      if h =? hh then
        match kind_of k with
        | Some kd => map (fun i => mkVote kd h r (enc t) i) (idxs_from 0 keys key)
        | None => []
        end
      else []
  | _ => []
  end.
Definition tr_votes (keys : list N) (hh : N) (V : list sigd) : list vote := flat_map (tr_sig keys hh) V.

Lemma tr_votes_spec keys hh V v :
  In v (tr_votes keys hh V) <->
  exists key t, In (SVote key (kind_n (v_kind v)) hh (v_round v) t) V /\
                v_height v = hh /\ v_block v = enc t /\ nth_n keys (v_signer v) = Some key.
Proof.
  unfold tr_votes. rewrite in_flat_map. split.
  - intros (sg & Hin & Hv). destruct sg as [key k h r t| |]; cbn [tr_sig] in Hv; try contradiction.
    destruct (N.eqb_spec h hh) as [->|]; [|contradiction].
    destruct (kind_of k) as [kd|] eqn:Ek; [|contradiction].
    apply in_map_iff in Hv as (i & <- & Hi). apply idxs_from_spec in Hi as (_ & Hi).
    rewrite N.sub_0_r in Hi. apply kind_of_spec in Ek. subst k.
    exists key, t. cbn. repeat split; auto.
  - intros (key & t & Hin & Hh & Hb & Hn).
    exists (SVote key (kind_n (v_kind v)) hh (v_round v) t). split; [exact Hin|].
    cbn [tr_sig]. rewrite N.eqb_refl, (proj2 (kind_of_spec _ _) eq_refl).
    apply in_map_iff. exists (v_signer v). split.
    + destruct v; cbn in *; subst; reflexivity.
    + apply idxs_from_spec. split; [lia|]. rewrite N.sub_0_r. exact Hn.
Qed.

(** * 4. The hypotheses on the mirror's vocabulary *)
Definition inb (x : N) (l : list N) : bool := existsb (N.eqb x) l.
Lemma inb_in x l : inb x l = true <-> In x l.
Proof. apply existsb_eqb_in. Qed.
Lemma inb_not x l : inb x l = false <-> ~ In x l.
Proof. rewrite <- inb_in. destruct (inb x l); split; congruence. Qed.

(** [key] signed exactly (kind, h, r, t) - as recorded in [V] *)
Definition signedb (V : list sigd) (key kind h r : N) (t : bytes) : bool :=
  existsb (sigd_eqb (SVote key kind h r t)) V.
Lemma signedb_in V key kind h r t : signedb V key kind h r t = true <-> In (SVote key kind h r t) V.
Proof.
  unfold signedb. rewrite existsb_exists. split.
  - intros (sg & Hin & E). apply sigd_eqb_eq in E. subst sg. exact Hin.
  - intros H. eexists. split; [exact H|apply sigd_eqb_refl].
Qed.

(** indices of the validators of [vs] whose key is in the Byzantine list [Bh] *)
Definition byz_mask (vs : valset) (Bh : list N) : N := key_mask (fun key => inb key Bh) (vs_keys vs).

(** indices of the validators of [vs] that are Byzantine or signed (kind, h, r, t) in [V] *)
Definition mq_mask (vs : valset) (Bh : list N) (V : list sigd) (kind h r : N) (t : bytes) : N :=
  key_mask (fun key => inb key Bh || signedb V key kind h r t) (vs_keys vs).

(** quorum up to the Byzantine validators, on the mirror's vocabulary: the power of those indices
    reaches ByzantineMajority of the set's total power (the test of Model/Network.v [quorumb]) *)
Definition mquorumb (vs : valset) (Bh : list N) (V : list sigd) (kind h r : N) (t : bytes) : bool :=
  quorumb (vs_pows vs) (mq_mask vs Bh V kind h r t).

(** the Byzantine keys of the height hold less than ByzantineMinority of the set's total power,
    which is positive and does not overflow uint64 *)
Definition byz_bound (vs : valset) (Bh : list N) : Prop := valset_ok (vs_pows vs) (byz_mask vs Bh).

(** (A1) a correct validator of the height has at most one prevote target and at most one precommit
    target per round in [V] *)
Definition A1m (vs : valset) (Bh : list N) (V : list sigd) (h : N) : Prop :=
  forall key kind r t t', kind = KPrevote \/ kind = KPrecommit ->
    In key (vs_keys vs) -> ~ In key Bh ->
    In (SVote key kind h r t) V -> In (SVote key kind h r t') V -> t = t'.

(** (A2) a correct validator precommits a block in round r only with a >2/3 prevote quorum (up to
    the Byzantine validators) for that block in round r *)
Definition A2m (vs : valset) (Bh : list N) (V : list sigd) (h : N) : Prop :=
  forall key r t, In key (vs_keys vs) -> ~ In key Bh ->
    In (SVote key KPrecommit h r t) V -> t <> [] ->
    mquorumb vs Bh V KPrevote h r t = true.

(** (A3) lock rule: a correct validator that precommitted block t in round r prevotes another block
    t' in a later round r' only if t' had a prevote quorum in some round r'' with r <= r'' < r' *)
Definition A3m (vs : valset) (Bh : list N) (V : list sigd) (h : N) : Prop :=
  forall key r r' t t', In key (vs_keys vs) -> ~ In key Bh ->
    In (SVote key KPrecommit h r t) V -> In (SVote key KPrevote h r' t') V ->
    t <> [] -> t' <> [] -> t' <> t -> r < r' ->
    exists r'', r <= r'' /\ r'' < r' /\ mquorumb vs Bh V KPrevote h r'' t' = true.

(** ** Transport to the Network vocabulary *)
Section Transport.
  Variables (vs : valset) (Bh : list N) (V : list sigd) (h : N).
  Let Vn : list vote := tr_votes (vs_keys vs) h V.
  Let valsf : N -> list N := fun _ => vs_pows vs.
  Let byzf : N -> N := fun _ => byz_mask vs Bh.

  Lemma nth_n_in {A} (l : list A) i x : nth_n l i = Some x -> In x l.
  Proof. unfold nth_n. apply nth_error_In. Qed.

  Lemma mask_equiv kd r t i :
    N.testbit (mq_mask vs Bh V (kind_n kd) h r t) i = true <->
    N.testbit (qmask (byz_mask vs Bh) Vn kd h r (enc t)) i = true.
  Proof.
    unfold mq_mask, byz_mask. rewrite qmask_spec, signers_spec, !key_mask_spec. split.
    - intros (key & Hn & Hf). apply orb_true_iff in Hf as [Hb|Hs].
      + right. exists key. auto.
      + left. apply signedb_in in Hs. exists (mkVote kd h r (enc t) i).
        split; [|split; [|reflexivity]].
        * apply tr_votes_spec. exists key, t. cbn. auto.
        * apply vote_matches_spec. cbn. auto.
    - intros [(v & Hv & Hm & Hs)|(key & Hn & Hb)].
      + apply tr_votes_spec in Hv as (key & t' & Hin & _ & Hb & Hn).
        apply vote_matches_spec in Hm as (Ek & _ & Er & Eb).
        assert (t' = t) by (apply enc_inj; congruence). subst t' i. rewrite Ek, Er in Hin.
        exists key. split; [exact Hn|]. apply orb_true_iff. right. apply signedb_in. exact Hin.
      + exists key. split; [exact Hn|]. rewrite Hb. reflexivity.
  Qed.

  Lemma mquorumb_bquorumb kd r t :
    mquorumb vs Bh V (kind_n kd) h r t = true ->
    bquorumb (vs_pows vs) (byz_mask vs Bh) Vn kd h r (enc t) = true.
  Proof. unfold mquorumb, bquorumb. apply quorumb_mono. intros j. apply mask_equiv. Qed.

  Lemma correct_key v key :
    correct byzf v -> nth_n (vs_keys vs) (v_signer v) = Some key -> In key (vs_keys vs) /\ ~ In key Bh.
  Proof.
    unfold correct, byzf, byz_mask. intros Hc Hn. split; [eapply nth_n_in; exact Hn|].
    intros Hb. assert (X : N.testbit (key_mask (fun key => inb key Bh) (vs_keys vs)) (v_signer v) = true).
    { apply key_mask_spec. exists key. split; [exact Hn|]. apply inb_in. exact Hb. }
    congruence.
  Qed.

  Lemma A1_transport : A1m vs Bh V h -> A1 byzf Vn.
  Proof.
    intros HA v w Hv Hw Cv Ek Eh Er Es.
    apply tr_votes_spec in Hv as (key & t & Hin & _ & Hb & Hn).
    apply tr_votes_spec in Hw as (key' & t' & Hin' & _ & Hb' & Hn').
    rewrite <- Es, Hn in Hn'. inversion Hn'; subst key'. rewrite <- Ek, <- Er in Hin'.
    destruct (correct_key v key Cv Hn) as [Kin Kb].
    rewrite Hb, Hb'. f_equal.
    eapply (HA key (kind_n (v_kind v)) (v_round v)); try eassumption.
    destruct (v_kind v); [left|right]; reflexivity.
  Qed.

  Lemma A2_transport : A2m vs Bh V h -> A2 valsf byzf Vn.
  Proof.
    intros HA v Hv Cv Ek Hnz.
    apply tr_votes_spec in Hv as (key & t & Hin & Hh & Hb & Hn).
    destruct (correct_key v key Cv Hn) as [Kin Kb].
    rewrite Ek in Hin. cbn [kind_n] in Hin. unfold valsf, byzf. rewrite Hh, Hb.
    apply (mquorumb_bquorumb Prevote). apply (HA key); try assumption.
    intros ->. apply Hnz. rewrite Hb. reflexivity.
  Qed.

  Lemma A3_transport : A3m vs Bh V h -> A3 valsf byzf Vn.
  Proof.
    intros HA v w Hv Hw Cv Ekv Ekw Es Eh Hbv Hbw Hne Hlt.
    apply tr_votes_spec in Hv as (key & t & Hin & Hh & Hb & Hn).
    apply tr_votes_spec in Hw as (key' & t' & Hin' & _ & Hb' & Hn').
    rewrite <- Es, Hn in Hn'. inversion Hn'; subst key'.
    destruct (correct_key v key Cv Hn) as [Kin Kb].
    rewrite Ekv in Hin. rewrite Ekw in Hin'. cbn [kind_n] in Hin, Hin'.
    destruct (HA key (v_round v) (v_round w) t t' Kin Kb Hin Hin') as (r'' & L1 & L2 & Q); try assumption.
    - intros ->. apply Hbv. rewrite Hb. reflexivity.
    - intros ->. apply Hbw. rewrite Hb'. reflexivity.
    - intros ->. apply Hne. congruence.
    - exists r''. split; [exact L1|]. split; [exact L2|]. unfold valsf, byzf. rewrite Hh, Hb'.
      apply (mquorumb_bquorumb Prevote). exact Q.
  Qed.
End Transport.

(** * 5. Two certificates at one height *)

(** every signature of the certificate entry filed under the header's own hash is recorded in [V] *)
Definition covers_cert (V : list sigd) (x : hdr) (cp : cproof) : Prop :=
  forall sigs ss, In (hd_hash x, sigs) (cp_proofs cp) -> In ss sigs -> In (ss_sig ss) V.

Lemma sig_of_idx_has' (p : proof) i s : In (i, s) p -> In s (sig_of_idx p i).
Proof.
  induction p as [|[j s'] t IH]; cbn [sig_of_idx]; [intros []|].
  intros [E|H].
  - inversion E; subst. rewrite N.eqb_refl. left; reflexivity.
  - destruct (j =? i); [right|]; apply IH; exact H.
Qed.

Lemma as_sparse_has (p : proof) i s : In (i, s) p -> In (mk_ssig (keyid_encode i) s) (as_sparse p).
Proof.
  intros H. unfold as_sparse. apply in_flat_map. exists i. split.
  - apply in_sort_n. unfold proof_idxs. apply in_nodup_n. apply in_map_iff. exists (i, s). auto.
  - apply in_map. apply sig_of_idx_has'. exact H.
Qed.

(** (i) the bridge: a mirror certificate is a Network precommit quorum (up to the Byzantine
    validators) among the translated votes *)
Lemma cert_bquorum vs Bh V h x cp :
  cert vs h x cp -> covers_cert V x cp -> total (vs_pows vs) < two64 ->
  bquorumb (vs_pows vs) (byz_mask vs Bh) (tr_votes (vs_keys vs) h V) Precommit h (cp_round cp)
           (enc (hd_hash x)) = true.
Proof.
  intros (p & mj & Hin & Hauth & Hmj & Hle) Hcov Hw.
  unfold bquorumb. apply (cert_quorum _ p mj); try assumption.
  intros i s Hp. apply qmask_spec. left. apply signers_spec.
  destruct (Hauth i s Hp) as (key & Hn & ->).
  exists (mkVote Precommit h (cp_round cp) (enc (hd_hash x)) i). split; [|split; [|reflexivity]].
  - apply tr_votes_spec. exists key, (hd_hash x). cbn. repeat split; auto.
    apply (Hcov (as_sparse p) (mk_ssig (keyid_encode i) (SVote key KPrecommit h (cp_round cp) (hd_hash x))) Hin).
    apply as_sparse_has. exact Hp.
  - apply vote_matches_spec. cbn. auto.
Qed.

(** (ii) agreement at one height: same validator list and powers at both nodes *)
Lemma agree_at_height vs1 vs2 Bh V h x1 cp1 x2 cp2 :
  vs_keys vs1 = vs_keys vs2 -> vs_pows vs1 = vs_pows vs2 ->
  cert vs1 h x1 cp1 -> cert vs2 h x2 cp2 ->
  covers_cert V x1 cp1 -> covers_cert V x2 cp2 ->
  hd_hash x1 <> [] -> hd_hash x2 <> [] ->
  byz_bound vs1 Bh -> A1m vs1 Bh V h ->
  cp_round cp1 = cp_round cp2 \/ (A2m vs1 Bh V h /\ A3m vs1 Bh V h) ->
  hd_hash x1 = hd_hash x2.
Proof.
  intros Hk Hp C1 C2 V1 V2 N1 N2 Hbound HA1 Hrest.
  pose proof Hbound as (_ & Hw & _).
  pose proof (cert_bquorum vs1 Bh V h x1 cp1 C1 V1 Hw) as Q1.
  assert (Hw2 : total (vs_pows vs2) < two64) by (rewrite <- Hp; exact Hw).
  pose proof (cert_bquorum vs2 Bh V h x2 cp2 C2 V2 Hw2) as Q2.
  unfold byz_mask in Q2. rewrite <- Hk, <- Hp in Q2. fold (byz_mask vs1 Bh) in Q2.
  apply enc_inj.
  set (valsf := fun _ : N => vs_pows vs1). set (byzf := fun _ : N => byz_mask vs1 Bh).
  assert (Hok : valset_ok (valsf h) (byzf h)) by exact Hbound.
  pose proof (A1_transport vs1 Bh V h HA1) as T1.
  destruct Hrest as [Er|[HA2 HA3]].
  - rewrite <- Er in Q2.
    exact (one_block_per_round valsf byzf _ Precommit h (cp_round cp1) _ _ Hok T1 Q1 Q2).
  - apply (agreement_quorums valsf byzf (tr_votes (vs_keys vs1) h V) h (cp_round cp1) _ (cp_round cp2) _ Hok T1
             (A2_transport vs1 Bh V h HA2) (A3_transport vs1 Bh V h HA3)).
    + intros E. apply enc_nil_iff in E. contradiction.
    + intros E. apply enc_nil_iff in E. contradiction.
    + exact Q1.
    + exact Q2.
Qed.

(** * 6. Induction over heights along the two committed chains *)
Lemma hchain_pred init top l : hchain init top l ->
  forall h e, In (h, e) l -> init < h -> exists e', In (h - 1, e') l.
Proof.
  induction 1 as [x cp Hx|h0 x cp px pcp l Hc IH Hh Hp Hb]; intros h e Hin Hlt.
  - destruct Hin as [E|[]]. inversion E; subst. lia.
  - destruct Hin as [E|Hin].
    + inversion E; subst. exists (px, pcp). right. left. replace (h0 + 1 - 1) with h0 by lia. reflexivity.
    + destruct (IH h e Hin Hlt) as (e' & He'). exists e'. right. exact He'.
Qed.

Lemma hchain_find init top l h x cp : hchain init top l -> In (h, (x, cp)) l ->
  find (fun e : N * (hdr * cproof) => fst e =? h) l = Some (h, (x, cp)).
Proof.
  intros Hc Hin. destruct (find _ l) as [[h' y]|] eqn:Ef.
  - apply find_some in Ef as [Hy E]. cbn in E. apply N.eqb_eq in E. subst h'.
    rewrite (one_header_per_height _ _ _ Hc h y (x, cp) Hy Hin). reflexivity.
  - pose proof (find_none _ _ Ef _ Hin) as E. cbn in E. rewrite N.eqb_refl in E. discriminate.
Qed.

Lemma chain_vals_init ih ivs l : chain_vals ih ivs l ih = ivs.
Proof. unfold chain_vals. rewrite N.eqb_refl. reflexivity. Qed.

Lemma chain_vals_succ ih ivs top l h px pcp :
  hchain ih top l -> ih < h -> In (h - 1, (px, pcp)) l -> chain_vals ih ivs l h = hd_next px.
Proof.
  intros Hc Hlt Hin. unfold chain_vals. destruct (N.eqb_spec h ih); [lia|].
  rewrite (hchain_find _ _ _ _ _ _ Hc Hin). reflexivity.
Qed.

Lemma stored_hchain ih ivs s e :
  1 <= ih -> vs_ok ivs = true -> reachable_b ih ivs s -> In e (st_hdrs s) ->
  exists top, hchain ih top (st_hdrs s).
Proof.
  intros Hi Hok Hr Hin. pose proof (reachable_cinv ih ivs s Hi Hok Hr) as Hc.
  pose proof (heights_contiguous_and_linked ih ivs s Hc) as H. destruct (k_chdr s) as [ch|].
  - eexists; exact H.
  - rewrite H in Hin. destruct Hin.
Qed.

(** ** The global signature list and the hypotheses *)

(** the ideal signatures occurring in a node's committed certificates (the entries filed under
    the committed headers' own hashes) *)
Definition cert_sigs (s : kstate) : list sigd :=
  flat_map (fun e : N * (hdr * cproof) =>
    flat_map (fun en : bytes * list ssig =>
                if bytes_eqb (fst en) (hd_hash (fst (snd e))) then map ss_sig (snd en) else [])
             (cp_proofs (snd (snd e)))) (st_hdrs s).

(** [V] records at least those *)
Definition cert_sigs_in (V : list sigd) (s : kstate) : Prop :=
  forall h x cp, In (h, (x, cp)) (st_hdrs s) -> covers_cert V x cp.

Lemma cert_sigs_covers V s : (forall sg, In sg (cert_sigs s) -> In sg V) -> cert_sigs_in V s.
Proof.
  intros H h x cp Hin sigs ss He Hs. apply H. unfold cert_sigs.
  apply in_flat_map. exists (h, (x, cp)). split; [exact Hin|].
  apply in_flat_map. exists (hd_hash x, sigs). split; [exact He|].
  cbn [fst snd]. rewrite bytes_eqb_refl. apply in_map. exact Hs.
Qed.

(** "The hash binds the content" (the harness's [hd_ok] convention: a header whose flag is set
    carries the hash scheme's hash of its fields, among them the hashes of the next validator
    set).  Exactly what is needed: two committed headers of one height whose hash flags are set and
    whose hashes are equal name equal next validator sets (tmconsensus.ValidatorSet.Equal). *)
Definition hash_binds_next (s1 s2 : kstate) : Prop :=
  forall h x1 cp1 x2 cp2, In (h, (x1, cp1)) (st_hdrs s1) -> In (h, (x2, cp2)) (st_hdrs s2) ->
    hd_ok x1 = true -> hd_ok x2 = true -> hd_hash x1 = hd_hash x2 ->
    valset_equal (hd_next x1) (hd_next x2) = true.

(** what is assumed at one height both nodes committed: the Byzantine bound, A1, and either the two
    certificates are of the same round or A2 and A3 hold *)
Definition hyps_at (vs : valset) (Bh : list N) (V : list sigd) (h : N) (cp1 cp2 : cproof) : Prop :=
  byz_bound vs Bh /\ A1m vs Bh V h /\
  (cp_round cp1 = cp_round cp2 \/ (A2m vs Bh V h /\ A3m vs Bh V h)).

Definition agree_concl (ih : N) (ivs : valset) (s1 s2 : kstate) (h : N) (x1 x2 : hdr) : Prop :=
  hd_hash x1 = hd_hash x2 /\
  valset_equal (hd_next x1) (hd_next x2) = true /\
  vs_keys (chain_vals ih ivs (st_hdrs s1) h) = vs_keys (chain_vals ih ivs (st_hdrs s2) h) /\
  vs_pows (chain_vals ih ivs (st_hdrs s1) h) = vs_pows (chain_vals ih ivs (st_hdrs s2) h).

(** one height, given that the two chains prescribe the same validators and powers for it *)
Lemma agree_core ih ivs s1 s2 V Bh h x1 cp1 x2 cp2 :
  1 <= ih -> vs_ok ivs = true -> reachable_b ih ivs s1 -> reachable_b ih ivs s2 ->
  cert_sigs_in V s1 -> cert_sigs_in V s2 -> hash_binds_next s1 s2 ->
  In (h, (x1, cp1)) (st_hdrs s1) -> In (h, (x2, cp2)) (st_hdrs s2) ->
  vs_keys (chain_vals ih ivs (st_hdrs s1) h) = vs_keys (chain_vals ih ivs (st_hdrs s2) h) ->
  vs_pows (chain_vals ih ivs (st_hdrs s1) h) = vs_pows (chain_vals ih ivs (st_hdrs s2) h) ->
  hyps_at (chain_vals ih ivs (st_hdrs s1) h) Bh V h cp1 cp2 ->
  agree_concl ih ivs s1 s2 h x1 x2.
Proof.
  intros Hi Hok R1 R2 C1 C2 Hbind I1 I2 Hk Hp (Hbound & HA1 & Hrest).
  pose proof (proj1 (commit_needs_certificate ih ivs s1 Hi Hok R1) _ _ _ I1) as Ce1.
  pose proof (proj1 (commit_needs_certificate ih ivs s2 Hi Hok R2) _ _ _ I2) as Ce2.
  destruct (committed_headers_good ih ivs s1 Hi Hok R1 _ _ _ I1) as (N1 & O1 & _).
  destruct (committed_headers_good ih ivs s2 Hi Hok R2 _ _ _ I2) as (N2 & O2 & _).
  assert (Eh : hd_hash x1 = hd_hash x2).
  { eapply (agree_at_height _ _ Bh V h x1 cp1 x2 cp2 Hk Hp Ce1 Ce2); try eassumption.
    - eapply C1; exact I1.
    - eapply C2; exact I2. }
  split; [exact Eh|]. split; [|split; assumption].
  eapply Hbind; eassumption.
Qed.

(** (iii) THE GENERAL FORM: agreement at height [h] from the hypotheses at the common heights up to
    [h] (at each of them: same round, or A2 and A3). *)
Theorem mirrors_agree_upto ih ivs s1 s2 V (B : N -> list N) :
  1 <= ih -> vs_ok ivs = true -> reachable_b ih ivs s1 -> reachable_b ih ivs s2 ->
  cert_sigs_in V s1 -> cert_sigs_in V s2 -> hash_binds_next s1 s2 ->
  forall h,
  (forall h' x1 cp1 x2 cp2, h' <= h ->
     In (h', (x1, cp1)) (st_hdrs s1) -> In (h', (x2, cp2)) (st_hdrs s2) ->
     hyps_at (chain_vals ih ivs (st_hdrs s1) h') (B h') V h' cp1 cp2) ->
  forall x1 cp1 x2 cp2, In (h, (x1, cp1)) (st_hdrs s1) -> In (h, (x2, cp2)) (st_hdrs s2) ->
    agree_concl ih ivs s1 s2 h x1 x2.
Proof.
  intros Hi Hok R1 R2 C1 C2 Hbind h.
  remember (N.to_nat (h - ih)) as n eqn:En. revert h En.
  induction n as [|n IH]; intros h En Hyp x1 cp1 x2 cp2 I1 I2.
  all: destruct (stored_hchain ih ivs s1 _ Hi Hok R1 I1) as (top1 & H1).
  all: destruct (stored_hchain ih ivs s2 _ Hi Hok R2 I2) as (top2 & H2).
  all: destruct (proj2 (hchain_bounds _ _ _ H1) _ _ I1) as [Hge _].
  - assert (h = ih) by lia. subst h.
    eapply agree_core; try eassumption.
    + rewrite !chain_vals_init. reflexivity.
    + rewrite !chain_vals_init. reflexivity.
    + eapply Hyp; [lia|exact I1|exact I2].
  - assert (Hlt : ih < h) by lia.
    destruct (hchain_pred _ _ _ H1 _ _ I1 Hlt) as ([px1 pcp1] & P1).
    destruct (hchain_pred _ _ _ H2 _ _ I2 Hlt) as ([px2 pcp2] & P2).
    assert (Hprev : agree_concl ih ivs s1 s2 (h - 1) px1 px2).
    { apply (IH (h - 1)) with (cp1 := pcp1) (cp2 := pcp2); [lia| |assumption|assumption].
      intros h' y1 c1 y2 c2 Hle J1 J2. eapply Hyp; [lia|exact J1|exact J2]. }
    destruct Hprev as (_ & Hve & _ & _). destruct (valset_equal_keys _ _ Hve) as [Ek Ep].
    eapply agree_core; try eassumption.
    + rewrite (chain_vals_succ ih ivs _ _ _ _ _ H1 Hlt P1), (chain_vals_succ ih ivs _ _ _ _ _ H2 Hlt P2). exact Ek.
    + rewrite (chain_vals_succ ih ivs _ _ _ _ _ H1 Hlt P1), (chain_vals_succ ih ivs _ _ _ _ _ H2 Hlt P2). exact Ep.
    + eapply Hyp; [lia|exact I1|exact I2].
Qed.

(** C03 for mirrors, all rounds: under A1, A2, A3 and the Byzantine bound at every height both
    nodes committed, the two nodes' committed headers have the same hash at every such height -
    and the same next validator set, and the two chains prescribe the same validators and powers. *)
Theorem mirrors_agree ih ivs s1 s2 V (B : N -> list N) :
  1 <= ih -> vs_ok ivs = true -> reachable_b ih ivs s1 -> reachable_b ih ivs s2 ->
  cert_sigs_in V s1 -> cert_sigs_in V s2 -> hash_binds_next s1 s2 ->
  (forall h x1 cp1 x2 cp2, In (h, (x1, cp1)) (st_hdrs s1) -> In (h, (x2, cp2)) (st_hdrs s2) ->
     byz_bound (chain_vals ih ivs (st_hdrs s1) h) (B h) /\
     A1m (chain_vals ih ivs (st_hdrs s1) h) (B h) V h /\
     A2m (chain_vals ih ivs (st_hdrs s1) h) (B h) V h /\
     A3m (chain_vals ih ivs (st_hdrs s1) h) (B h) V h) ->
  forall h x1 cp1 x2 cp2, In (h, (x1, cp1)) (st_hdrs s1) -> In (h, (x2, cp2)) (st_hdrs s2) ->
    hd_hash x1 = hd_hash x2 /\
    valset_equal (hd_next x1) (hd_next x2) = true /\
    vs_keys (chain_vals ih ivs (st_hdrs s1) h) = vs_keys (chain_vals ih ivs (st_hdrs s2) h) /\
    vs_pows (chain_vals ih ivs (st_hdrs s1) h) = vs_pows (chain_vals ih ivs (st_hdrs s2) h).
Proof.
  intros Hi Hok R1 R2 C1 C2 Hbind Hyp h x1 cp1 x2 cp2 I1 I2.
  apply (mirrors_agree_upto ih ivs s1 s2 V B Hi Hok R1 R2 C1 C2 Hbind h) with (cp1 := cp1) (cp2 := cp2);
    [|assumption|assumption].
  intros h' y1 c1 y2 c2 _ J1 J2. destruct (Hyp _ _ _ _ _ J1 J2) as (A & B1 & C & D).
  split; [exact A|]. split; [exact B1|]. right. split; assumption.
Qed.

(** Same-round version, one height: A1 and the Byzantine bound suffice (weighted quorum overlap),
    given that the two chains prescribe the same validators and powers for the height. *)
Theorem mirrors_agree_same_round_at ih ivs s1 s2 V Bh h x1 cp1 x2 cp2 :
  1 <= ih -> vs_ok ivs = true -> reachable_b ih ivs s1 -> reachable_b ih ivs s2 ->
  cert_sigs_in V s1 -> cert_sigs_in V s2 ->
  In (h, (x1, cp1)) (st_hdrs s1) -> In (h, (x2, cp2)) (st_hdrs s2) ->
  vs_keys (chain_vals ih ivs (st_hdrs s1) h) = vs_keys (chain_vals ih ivs (st_hdrs s2) h) ->
  vs_pows (chain_vals ih ivs (st_hdrs s1) h) = vs_pows (chain_vals ih ivs (st_hdrs s2) h) ->
  cp_round cp1 = cp_round cp2 ->
  byz_bound (chain_vals ih ivs (st_hdrs s1) h) Bh -> A1m (chain_vals ih ivs (st_hdrs s1) h) Bh V h ->
  hd_hash x1 = hd_hash x2.
Proof.
  intros Hi Hok R1 R2 C1 C2 I1 I2 Hk Hp Er Hbound HA1.
  pose proof (proj1 (commit_needs_certificate ih ivs s1 Hi Hok R1) _ _ _ I1) as Ce1.
  pose proof (proj1 (commit_needs_certificate ih ivs s2 Hi Hok R2) _ _ _ I2) as Ce2.
  destruct (committed_headers_good ih ivs s1 Hi Hok R1 _ _ _ I1) as (N1 & _).
  destruct (committed_headers_good ih ivs s2 Hi Hok R2 _ _ _ I2) as (N2 & _).
  eapply (agree_at_height _ _ Bh V h x1 cp1 x2 cp2 Hk Hp Ce1 Ce2); try eassumption.
  - eapply C1; exact I1.
  - eapply C2; exact I2.
  - left. exact Er.
Qed.

(** at the initial height both chains prescribe the genesis set: no further premise *)
Corollary mirrors_agree_same_round_genesis ih ivs s1 s2 V Bh x1 cp1 x2 cp2 :
  1 <= ih -> vs_ok ivs = true -> reachable_b ih ivs s1 -> reachable_b ih ivs s2 ->
  cert_sigs_in V s1 -> cert_sigs_in V s2 ->
  In (ih, (x1, cp1)) (st_hdrs s1) -> In (ih, (x2, cp2)) (st_hdrs s2) ->
  cp_round cp1 = cp_round cp2 ->
  byz_bound ivs Bh -> A1m ivs Bh V ih ->
  hd_hash x1 = hd_hash x2.
Proof.
  intros Hi Hok R1 R2 C1 C2 I1 I2 Er Hbound HA1.
  eapply (mirrors_agree_same_round_at ih ivs s1 s2 V Bh ih x1 cp1 x2 cp2); try eassumption;
    rewrite ?chain_vals_init; try reflexivity; assumption.
Qed.

(** Same-round version along the chain: if at every common height up to [h] the two certificates
    are of the same round, A1 and the Byzantine bound (at those heights) give agreement at [h]. *)
Theorem mirrors_agree_same_round ih ivs s1 s2 V (B : N -> list N) :
  1 <= ih -> vs_ok ivs = true -> reachable_b ih ivs s1 -> reachable_b ih ivs s2 ->
  cert_sigs_in V s1 -> cert_sigs_in V s2 -> hash_binds_next s1 s2 ->
  forall h,
  (forall h' x1 cp1 x2 cp2, h' <= h ->
     In (h', (x1, cp1)) (st_hdrs s1) -> In (h', (x2, cp2)) (st_hdrs s2) ->
     cp_round cp1 = cp_round cp2 /\
     byz_bound (chain_vals ih ivs (st_hdrs s1) h') (B h') /\
     A1m (chain_vals ih ivs (st_hdrs s1) h') (B h') V h') ->
  forall x1 cp1 x2 cp2, In (h, (x1, cp1)) (st_hdrs s1) -> In (h, (x2, cp2)) (st_hdrs s2) ->
    hd_hash x1 = hd_hash x2 /\ valset_equal (hd_next x1) (hd_next x2) = true.
Proof.
  intros Hi Hok R1 R2 C1 C2 Hbind h Hyp x1 cp1 x2 cp2 I1 I2.
  destruct (mirrors_agree_upto ih ivs s1 s2 V B Hi Hok R1 R2 C1 C2 Hbind h) with (x1 := x1) (cp1 := cp1) (x2 := x2) (cp2 := cp2)
    as (A & B1 & _); [|assumption|assumption|split; assumption].
  intros h' y1 c1 y2 c2 Hle J1 J2. destruct (Hyp _ _ _ _ _ Hle J1 J2) as (A & B1 & C).
  split; [exact B1|]. split; [exact C|]. left. exact A.
Qed.

(** * 7. Executable checkers of the hypotheses (sound; used for the examples and usable by a check
      on the votes real validators signed) *)
Definition is_nil (t : bytes) : bool := match t with [] => true | _ => false end.

Definition byz_boundb (vs : valset) (Bh : list N) : bool := valset_okb (vs_pows vs) (byz_mask vs Bh).
Lemma byz_boundb_ok vs Bh : byz_boundb vs Bh = true -> byz_bound vs Bh.
Proof. apply valset_okb_ok. Qed.

Definition a1mb (vs : valset) (Bh : list N) (V : list sigd) (h : N) : bool :=
  forallb (fun sg => match sg with
    | SVote key k h1 r t =>
        negb (h1 =? h) || negb ((k =? KPrevote) || (k =? KPrecommit)) ||
        negb (inb key (vs_keys vs)) || inb key Bh ||
        forallb (fun sg' => match sg' with
           | SVote key' k' h' r' t' =>
               negb ((key' =? key) && (k' =? k) && (h' =? h) && (r' =? r)) || bytes_eqb t t'
           | _ => true end) V
    | _ => true end) V.

Lemma a1mb_ok vs Bh V h : a1mb vs Bh V h = true -> A1m vs Bh V h.
Proof.
  unfold a1mb, A1m. rewrite forallb_forall. intros H key kind r t t' Hk Kin Kb H1 H2.
  specialize (H _ H1). cbv beta iota in H. rewrite N.eqb_refl in H.
  assert (Ek : (kind =? KPrevote) || (kind =? KPrecommit) = true) by (destruct Hk as [->| ->]; reflexivity).
  apply inb_in in Kin. apply inb_not in Kb. rewrite Ek, Kin, Kb in H. cbn [negb orb] in H.
  rewrite forallb_forall in H. specialize (H _ H2). cbv beta iota in H.
  rewrite !N.eqb_refl in H. cbn [andb negb orb] in H. apply bytes_eqb_eq. exact H.
Qed.

Definition a2mb (vs : valset) (Bh : list N) (V : list sigd) (h : N) : bool :=
  forallb (fun sg => match sg with
    | SVote key k h1 r t =>
        negb (h1 =? h) || negb (k =? KPrecommit) || negb (inb key (vs_keys vs)) || inb key Bh || is_nil t ||
        mquorumb vs Bh V KPrevote h r t
    | _ => true end) V.

Lemma a2mb_ok vs Bh V h : a2mb vs Bh V h = true -> A2m vs Bh V h.
Proof.
  unfold a2mb, A2m. rewrite forallb_forall. intros H key r t Kin Kb Hin Hne.
  specialize (H _ Hin). cbv beta iota in H. rewrite !N.eqb_refl in H.
  apply inb_in in Kin. apply inb_not in Kb. rewrite Kin, Kb in H. cbn [negb orb] in H.
  destruct t; [contradiction|]. exact H.
Qed.

Definition a3mb (vs : valset) (Bh : list N) (V : list sigd) (h : N) : bool :=
  forallb (fun sg => match sg with
    | SVote key k h1 r t =>
        negb (h1 =? h) || negb (k =? KPrecommit) || negb (inb key (vs_keys vs)) || inb key Bh || is_nil t ||
        forallb (fun sg' => match sg' with
           | SVote key' k' h' r' t' =>
               negb ((key' =? key) && (k' =? KPrevote) && (h' =? h) && (r <? r')) || is_nil t' || bytes_eqb t' t ||
               existsb (fun r'' => mquorumb vs Bh V KPrevote h r'' t') (rounds_between r r')
           | _ => true end) V
    | _ => true end) V.

Lemma a3mb_ok vs Bh V h : a3mb vs Bh V h = true -> A3m vs Bh V h.
Proof.
  unfold a3mb, A3m. rewrite forallb_forall. intros H key r r' t t' Kin Kb H1 H2 Hn Hn' Hne Hlt.
  specialize (H _ H1). cbv beta iota in H. rewrite !N.eqb_refl in H.
  apply inb_in in Kin. apply inb_not in Kb. rewrite Kin, Kb in H. cbn [negb orb] in H.
  destruct t as [|t0 tt]; [contradiction|]. cbn [is_nil orb] in H.
  rewrite forallb_forall in H. specialize (H _ H2). cbv beta iota in H.
  rewrite !N.eqb_refl, (proj2 (N.ltb_lt _ _) Hlt) in H. cbn [andb negb orb] in H.
  destruct t' as [|t0' tt']; [contradiction|]. cbn [is_nil orb] in H.
  destruct (bytes_eqb (t0' :: tt') (t0 :: tt)) eqn:E; [apply bytes_eqb_eq in E; contradiction|].
  cbn [orb] in H. apply existsb_exists in H as (r'' & Hr & Q). apply rounds_between_in in Hr.
  exists r''. tauto.
Qed.

(** a history of operations from a state; [Panic] = some operation made the kernel panic *)
Fixpoint run_ops (s : kstate) (ops : list op) : res kstate :=
  match ops with
  | [] => Ok s
  | o :: t => match Mirror.step s o with Ok (s', _) => run_ops s' t | Panic m => Panic m end
  end.

Lemma run_ops_reachable ih ivs ops : forall s s',
  reachable_b ih ivs s -> Forall op_bounded ops -> run_ops s ops = Ok s' -> reachable_b ih ivs s'.
Proof.
  induction ops as [|o t IH]; intros s s' Hr Hb; cbn [run_ops].
  - intros E; inversion E; subst; exact Hr.
  - inversion Hb as [|? ? Ho Ht]; subst.
    destruct (Mirror.step s o) as [[s1 r1]|] eqn:Es; [|discriminate].
    apply IH; [|exact Ht]. eapply rb_step; eassumption.
Qed.

(** checkers over the two committed-header stores (all pairs of entries of one height) *)
Definition hash_bindsb (s1 s2 : kstate) : bool :=
  forallb (fun e1 : N * (hdr * cproof) => forallb (fun e2 : N * (hdr * cproof) =>
    negb (fst e1 =? fst e2) || negb (bytes_eqb (hd_hash (fst (snd e1))) (hd_hash (fst (snd e2)))) ||
    valset_equal (hd_next (fst (snd e1))) (hd_next (fst (snd e2)))) (st_hdrs s2)) (st_hdrs s1).

Lemma hash_bindsb_ok s1 s2 : hash_bindsb s1 s2 = true -> hash_binds_next s1 s2.
Proof.
  unfold hash_bindsb, hash_binds_next. rewrite forallb_forall. intros H h x1 cp1 x2 cp2 I1 I2 _ _ Eh.
  specialize (H _ I1). rewrite forallb_forall in H. specialize (H _ I2). cbn [fst snd] in H.
  rewrite N.eqb_refl, Eh, bytes_eqb_refl in H. exact H.
Qed.

Definition common_heightsb (f : N -> bool) (s1 s2 : kstate) : bool :=
  forallb (fun e1 : N * (hdr * cproof) => forallb (fun e2 : N * (hdr * cproof) =>
    negb (fst e1 =? fst e2) || f (fst e1)) (st_hdrs s2)) (st_hdrs s1).

Lemma common_heightsb_ok f s1 s2 : common_heightsb f s1 s2 = true ->
  forall h e1 e2, In (h, e1) (st_hdrs s1) -> In (h, e2) (st_hdrs s2) -> f h = true.
Proof.
  unfold common_heightsb. rewrite forallb_forall. intros H h e1 e2 I1 I2.
  specialize (H _ I1). rewrite forallb_forall in H. specialize (H _ I2). cbn [fst] in H.
  rewrite N.eqb_refl in H. exact H.
Qed.

Definition hyps_allb (ih : N) (ivs : valset) (s1 : kstate) (V : list sigd) (B : N -> list N) (h : N) : bool :=
  byz_boundb (chain_vals ih ivs (st_hdrs s1) h) (B h) && a1mb (chain_vals ih ivs (st_hdrs s1) h) (B h) V h &&
  a2mb (chain_vals ih ivs (st_hdrs s1) h) (B h) V h && a3mb (chain_vals ih ivs (st_hdrs s1) h) (B h) V h.

Lemma hyps_allb_ok ih ivs s1 V B h : hyps_allb ih ivs s1 V B h = true ->
  byz_bound (chain_vals ih ivs (st_hdrs s1) h) (B h) /\
  A1m (chain_vals ih ivs (st_hdrs s1) h) (B h) V h /\
  A2m (chain_vals ih ivs (st_hdrs s1) h) (B h) V h /\
  A3m (chain_vals ih ivs (st_hdrs s1) h) (B h) V h.
Proof.
  unfold hyps_allb. rewrite !andb_true_iff. intros (((A & B1) & C) & D).
  split; [apply byz_boundb_ok; exact A|]. split; [apply a1mb_ok; exact B1|].
  split; [apply a2mb_ok; exact C|apply a3mb_ok; exact D].
Qed.

(** everything but A1 *)
Definition hyps_noA1b (ih : N) (ivs : valset) (s1 : kstate) (V : list sigd) (B : N -> list N) (h : N) : bool :=
  byz_boundb (chain_vals ih ivs (st_hdrs s1) h) (B h) &&
  a2mb (chain_vals ih ivs (st_hdrs s1) h) (B h) V h && a3mb (chain_vals ih ivs (st_hdrs s1) h) (B h) V h.

Lemma hyps_noA1b_ok ih ivs s1 V B h : hyps_noA1b ih ivs s1 V B h = true ->
  byz_bound (chain_vals ih ivs (st_hdrs s1) h) (B h) /\
  A2m (chain_vals ih ivs (st_hdrs s1) h) (B h) V h /\
  A3m (chain_vals ih ivs (st_hdrs s1) h) (B h) V h.
Proof.
  unfold hyps_noA1b. rewrite !andb_true_iff. intros ((A & C) & D).
  split; [apply byz_boundb_ok; exact A|]. split; [apply a2mb_ok; exact C|apply a3mb_ok; exact D].
Qed.

(** the newest entry of the committed-header store *)
Definition top_entry (s : kstate) : N * (hdr * cproof) :=
  match st_hdrs s with e :: _ => e | [] => (0, (mk_hdr [] false 0 [] empty_cproof empty_valset empty_valset, empty_cproof)) end.

(** (i) as a statement about reachable states: every committed-header store entry of a reachable
    mirror state is, among the votes translated from any signature list that records its
    certificate, a precommit quorum in the sense of Model/Network.v for the validator set the
    chain prescribes - the premise [decided] of the abstract agreement theorem. *)
Theorem committed_is_network_quorum ih ivs s V Bh h x cp :
  1 <= ih -> vs_ok ivs = true -> reachable_b ih ivs s ->
  In (h, (x, cp)) (st_hdrs s) -> covers_cert V x cp ->
  total (vs_pows (chain_vals ih ivs (st_hdrs s) h)) < two64 ->
  hd_hash x <> [] /\
  decided (fun _ => vs_pows (chain_vals ih ivs (st_hdrs s) h))
          (fun _ => byz_mask (chain_vals ih ivs (st_hdrs s) h) Bh)
          (tr_votes (vs_keys (chain_vals ih ivs (st_hdrs s) h)) h V) h (enc (hd_hash x)).
Proof.
  intros Hi Hok Hr Hin Hcov Hw.
  destruct (committed_headers_good ih ivs s Hi Hok Hr _ _ _ Hin) as (Hne & _).
  split; [exact Hne|]. split.
  - intros E. apply enc_nil_iff in E. contradiction.
  - exists (cp_round cp). apply cert_bquorum; [|exact Hcov|exact Hw].
    exact (proj1 (commit_needs_certificate ih ivs s Hi Hok Hr) _ _ _ Hin).
Qed.
