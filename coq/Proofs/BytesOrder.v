(** bytes_ltb (Go's string order: lexicographic on bytes, a proper prefix is smaller) is a strict
    total order; str_min (Go's builtin min on strings) is its minimum. *)
From Coq Require Import List NArith Bool Lia.
From GV Require Import Base.Ints Model.VoteSummary.
Import ListNotations.
Local Open Scope N_scope.

Lemma bytes_ltb_irrefl a : bytes_ltb a a = false.
Proof.
  induction a as [|x a IH]; cbn [bytes_ltb]; [reflexivity|].
  rewrite N.ltb_irrefl. exact IH.
Qed.

Lemma bytes_ltb_nil_r a : bytes_ltb a [] = false.
Proof. destruct a; reflexivity. Qed.

Lemma bytes_ltb_trans a b c :
  bytes_ltb a b = true -> bytes_ltb b c = true -> bytes_ltb a c = true.
Proof.
  revert b c; induction a as [|x a IH]; intros [|y b] [|z c]; cbn [bytes_ltb]; try discriminate; auto.
  destruct (N.ltb_spec x y), (N.ltb_spec y x), (N.ltb_spec y z), (N.ltb_spec z y),
           (N.ltb_spec x z), (N.ltb_spec z x); try discriminate; try lia; auto.
  apply IH.
Qed.

Lemma bytes_ltb_total a b :
  bytes_ltb a b = false -> bytes_ltb b a = false -> a = b.
Proof.
  revert b; induction a as [|x a IH]; intros [|y b]; cbn [bytes_ltb]; try discriminate; auto.
  destruct (N.ltb_spec x y), (N.ltb_spec y x); try discriminate; try lia.
  intros H1 H2. assert (x = y) by lia. subst. f_equal. apply IH; assumption.
Qed.

Lemma bytes_ltb_asym a b : bytes_ltb a b = true -> bytes_ltb b a = false.
Proof.
  intros H. destruct (bytes_ltb b a) eqn:E; [|reflexivity].
  pose proof (bytes_ltb_trans _ _ _ H E) as F. rewrite bytes_ltb_irrefl in F. discriminate.
Qed.

(** a <= b *)
Definition hash_le (a b : hash) : Prop := bytes_ltb b a = false.

Lemma hash_le_refl a : hash_le a a.
Proof. apply bytes_ltb_irrefl. Qed.

Lemma hash_le_trans a b c : hash_le a b -> hash_le b c -> hash_le a c.
Proof.
  unfold hash_le. intros H1 H2.
  destruct (bytes_ltb c a) eqn:E; [|reflexivity].
  (* c < a, not b < a, not c < b *)
  destruct (bytes_ltb a b) eqn:E2.
  - pose proof (bytes_ltb_trans _ _ _ E E2). congruence.
  - assert (a = b) by (apply bytes_ltb_total; assumption). subst. congruence.
Qed.

Lemma hash_le_antisym a b : hash_le a b -> hash_le b a -> a = b.
Proof. unfold hash_le. intros. apply bytes_ltb_total; assumption. Qed.

Lemma hash_le_nil a : hash_le [] a.
Proof. apply bytes_ltb_nil_r. Qed.

Lemma ltb_hash_le a b : bytes_ltb a b = true -> hash_le a b.
Proof. apply bytes_ltb_asym. Qed.

Lemma str_min_le_l a b : hash_le (str_min a b) a.
Proof.
  unfold str_min. destruct (bytes_ltb b a) eqn:E.
  - apply ltb_hash_le. exact E.
  - apply hash_le_refl.
Qed.

Lemma str_min_le_r a b : hash_le (str_min a b) b.
Proof.
  unfold str_min. destruct (bytes_ltb b a) eqn:E.
  - apply hash_le_refl.
  - exact E.
Qed.

Lemma str_min_cases a b : str_min a b = a \/ str_min a b = b.
Proof. unfold str_min. destruct (bytes_ltb b a); auto. Qed.

Lemma str_min_nil_l h : str_min [] h = [].
Proof. unfold str_min. rewrite bytes_ltb_nil_r. reflexivity. Qed.
