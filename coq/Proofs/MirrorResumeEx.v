(** C10: the hypotheses of the resume theorems are satisfiable on a non-trivial history: a
    proposed header is accepted, then the precommit that completes its quorum is interrupted
    after its first store write (the precommit collection is stored; the committed header and
    the new position are not).  The restarted mirror re-evaluates the stored votes and commits. *)
From Coq Require Import List NArith Arith Bool Lia String.
From GV Require Import Base.Ints Gen.Math Gen.Kernel Model.Mirror
  Proofs.Thresholds Proofs.MirrorAuth Proofs.MirrorNoop Proofs.MirrorChain Proofs.MirrorCert
  Proofs.MirrorTotal Proofs.MirrorRestart Proofs.MirrorLog
  Proofs.MirrorResumeWit Proofs.MirrorResumeLoad Proofs.MirrorResumeInv Proofs.MirrorResumeStart
  Proofs.MirrorResumeAhead Proofs.MirrorResumeOps Proofs.MirrorResumeOps2 Proofs.MirrorResumeOps3 Proofs.MirrorResumeOps4
  Proofs.MirrorResumeOps5 Proofs.MirrorResumeAhead2 Proofs.MirrorResume.
Import ListNotations.
Local Open Scope N_scope.

Example ex_vs_vwf : vwf ex_vs.
Proof. split; [reflexivity|]. split; [vm_compute; reflexivity|discriminate]. Qed.

Definition e_ph : op := OpPH (ex_ph ex_vs ex_vs).
Definition e_pc : op := OpPrecommit (ex_precommit 1 0 [1] [9]).
Definition e_s1 : kstate := state_after [e_ph].
Definition e_s2 : kstate :=
  match xstep e_s1 (XCrash 1 e_pc) with Ok (s, _) => s | Panic _ => e_s1 end.

Example e_ph_wf : wf_op e_ph HandleProposedHeaderAccepted.
Proof.
  split; [vm_compute; reflexivity|]. split; [intros _; vm_compute; reflexivity|].
  intros _. split; [vm_compute; reflexivity|discriminate].
Qed.

Example e_pc_wf : wf_op e_pc HandleVoteProofsAccepted.
Proof.
  split; [exact I|]. split; exact I.
Qed.

Example e_s1_reachable : reachable_g 1 ex_vs e_s1.
Proof.
  apply (rg_step 1 ex_vs (init_state 1 ex_vs) (XOp e_ph) e_s1 HandleProposedHeaderAccepted);
    [apply rg_init|exact e_ph_wf|vm_compute; reflexivity].
Qed.

Example e_cut_clean : clean_cut e_s1 e_pc 1.
Proof. unfold clean_cut. vm_compute. reflexivity. Qed.

(** the crash state is reachable, the restarted mirror has committed height 1 by its own
    re-evaluation (the uninterrupted run ends at the same position) *)
Example e_s2_reachable :
  reachable_g 1 ex_vs e_s2 /\ st_nhr e_s1 = (1, 0, 0, 0) /\ st_nhr e_s2 = (2, 0, 1, 0) /\
  List.length (st_hdrs e_s1) = 0%nat /\ List.length (st_hdrs e_s2) = 1%nat.
Proof.
  split.
  - apply (rg_step 1 ex_vs e_s1 (XCrash 1 e_pc) e_s2 HandleVoteProofsAccepted);
      [exact e_s1_reachable|exact e_pc_wf|vm_compute; reflexivity].
  - vm_compute. repeat split; reflexivity.
Qed.

(** the one crash point that is NOT a clean cut: after the second write (the committed header) *)
Example e_cut_ahead : ~ clean_cut e_s1 e_pc 2.
Proof. unfold clean_cut. vm_compute. discriminate. Qed.

(** the history continues from the restart at that cut as well: the stored position is still
    (1,0,0,0) while the header store already holds the header of height 1; start-up commits again *)
Definition e_s3 : kstate :=
  match xstep e_s1 (XCrash 2 e_pc) with Ok (s, _) => s | Panic _ => e_s1 end.

Example e_s3_reachable :
  reachable_g 1 ex_vs e_s3 /\ st_nhr e_s3 = (2, 0, 1, 0) /\ List.length (st_hdrs e_s3) = 1%nat.
Proof.
  split.
  - apply (rg_step 1 ex_vs e_s1 (XCrash 2 e_pc) e_s3 HandleVoteProofsAccepted);
      [exact e_s1_reachable|exact e_pc_wf|vm_compute; reflexivity].
  - vm_compute. split; reflexivity.
Qed.
