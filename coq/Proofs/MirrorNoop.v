(** C05, second half: a vote message none of whose signatures is admissible (valid key id,
    known key, genuine signature for exactly the kind/height/round/hash it is filed under)
    leaves the whole mirror state - views and stores - unchanged and is not reported as accepted. *)
From Coq Require Import List NArith Arith Bool Lia String.
From GV Require Import Base.Ints Gen.Math Gen.Kernel Model.Mirror Proofs.MirrorAuth.
Import ListNotations.
Local Open Scope N_scope.

Lemma merge_sigs_all_invalid kind h r t keys sigs : forall p,
  forallb (fun ss => negb (sig_admissible keys kind h r t ss)) sigs = true ->
  fst (merge_sigs kind h r t keys p sigs) = p.
Proof.
  induction sigs as [|sg rest IH]; intros p Hall; cbn [merge_sigs]; [reflexivity|].
  cbn [forallb] in Hall. apply andb_true_iff in Hall as [Hs Hrest].
  unfold sig_admissible in Hs.
  destruct (keyid_decode (ss_kid sg)) as [n|].
  2:{ specialize (IH p Hrest). destruct (merge_sigs kind h r t keys p rest); exact IH. }
  destruct (nth_n keys n) as [key|].
  2:{ specialize (IH p Hrest). destruct (merge_sigs kind h r t keys p rest); exact IH. }
  destruct (verify_vote key kind h r t (ss_sig sg)); [discriminate|].
  specialize (IH p Hrest). destruct (merge_sigs kind h r t keys p rest); exact IH.
Qed.

Lemma merge_sparse_all_invalid kind h r t keys p sigs :
  forallb (fun ss => negb (sig_admissible keys kind h r t ss)) sigs = true ->
  fst (fst (merge_sparse kind h r t keys p sigs)) = p /\ snd (merge_sparse kind h r t keys p sigs) = false.
Proof.
  intros Hall. unfold merge_sparse.
  pose proof (merge_sigs_all_invalid kind h r t keys sigs p Hall) as H.
  destruct (merge_sigs kind h r t keys p sigs) as [p' allv]. cbn in *. subst.
  split; [reflexivity|]. apply Nat.ltb_irrefl.
Qed.

Lemma forallb_filter {A} (f g : A -> bool) l : forallb f l = true -> forallb f (filter g l) = true.
Proof.
  induction l as [|x l IH]; cbn; [reflexivity|]. intros H. apply andb_true_iff in H as [Hx Hl].
  destruct (g x); cbn; [rewrite Hx|]; apply IH; exact Hl.
Qed.

Lemma sigs_to_add_all_invalid keys kind h r cur incoming nkeys :
  forallb (entry_all_invalid keys kind h r) incoming = true ->
  forallb (entry_all_invalid keys kind h r) (sigs_to_add cur incoming nkeys) = true.
Proof.
  unfold sigs_to_add. induction incoming as [|e rest IH]; cbn [flat_map forallb]; [reflexivity|].
  intros H. apply andb_true_iff in H as [He Hrest].
  rewrite forallb_app. rewrite (IH Hrest), andb_true_r.
  set (keep := match pm_get cur (fst e) with None => _ | Some p => _ end).
  assert (Hk : forallb (fun ss => negb (sig_admissible keys kind h r (fst e) ss)) keep = true).
  { unfold keep. destruct (pm_get cur (fst e)); apply forallb_filter; exact He. }
  destruct keep; cbn; [reflexivity|]. cbn in Hk. unfold entry_all_invalid. cbn. rewrite Hk. reflexivity.
Qed.

Lemma build_updates_all_invalid kind v toadd :
  forallb (entry_all_invalid (vs_keys (v_vals v)) kind (v_h v) (v_r v)) toadd = true ->
  fst (build_updates kind v toadd) = [].
Proof.
  unfold build_updates.
  assert (G : forall l allv,
    forallb (entry_all_invalid (vs_keys (v_vals v)) kind (v_h v) (v_r v)) l = true ->
    fst (fold_left (fun acc e =>
        let '(ups, allv) := acc in
        let base := match pm_get (view_votes kind v) (fst e) with Some p => p | None => [] end in
        let '(p', av, inc) := merge_sparse kind (v_h v) (v_r v) (fst e) (vs_keys (v_vals v)) base (snd e) in
        (if inc then pm_set ups (fst e) p' else ups, allv && av)) l ([], allv)) = []).
  { induction l as [|e rest IH]; intros allv Hall; cbn [fold_left]; [reflexivity|].
    cbn [forallb] in Hall. apply andb_true_iff in Hall as [He Hrest].
    set (base := match pm_get (view_votes kind v) (fst e) with Some p => p | None => [] end).
    destruct (merge_sparse_all_invalid kind (v_h v) (v_r v) (fst e) (vs_keys (v_vals v)) base (snd e) He) as [_ Hinc].
    destruct (merge_sparse kind (v_h v) (v_r v) (fst e) (vs_keys (v_vals v)) base (snd e)) as [[p' av] inc].
    cbn in Hinc. subst inc. apply IH; exact Hrest. }
  intros H. apply G; exact H.
Qed.

Lemma future_fold_all_invalid kind h r keys spkh pkh entries : forall fm allv,
  forallb (entry_all_invalid keys kind h r) entries = true ->
  let res := fold_left (fun acc x =>
          let '(fm, allv, inc) := acc in
          let base := match pm_get fm (fst x) with Some p => p | None => [] end in
          if bytes_eqb spkh pkh || negb (match pm_get fm (fst x) with Some _ => true | None => false end) then
            let '(p', av, i) := merge_sparse kind h r (fst x) keys base (snd x) in
            (pm_set fm (fst x) p', allv && av, inc || i)
          else (fm, false, inc)) entries (fm, allv, false) in
  snd res = false.
Proof.
  induction entries as [|e rest IH]; intros fm allv Hall; cbn [fold_left]; [reflexivity|].
  cbn [forallb] in Hall. apply andb_true_iff in Hall as [He Hrest].
  destruct (bytes_eqb spkh pkh || _).
  - set (base := match pm_get fm (fst e) with Some p => p | None => [] end).
    destruct (merge_sparse_all_invalid kind h r (fst e) keys base (snd e) He) as [_ Hinc].
    destruct (merge_sparse kind h r (fst e) keys base (snd e)) as [[p' av] i].
    cbn in Hinc. subst i. cbn [orb]. apply IH; exact Hrest.
  - apply IH; exact Hrest.
Qed.

(** [find_view] hands back a view of exactly the requested height and round; this is discharged
    for every reachable state in Proofs/MirrorChain.v ([find_view_matches]). *)
Definition view_matches (s : kstate) (h r : N) : Prop :=
  forall vid st, find_view (kpos_of s) h r = Ok (vid, st) -> st = ViewFound ->
    v_h (get_view s vid) = h /\ v_r (get_view s vid) = r.

Lemma forallb_signed_entries f l : forallb f l = true -> forallb f (signed_entries l) = true.
Proof.
  unfold signed_entries. induction l as [|e l IH]; cbn; [reflexivity|].
  intros H. apply andb_true_iff in H as [He Hl].
  destruct (snd e); cbn; [apply IH; exact Hl|]. rewrite He. apply IH; exact Hl.
Qed.

Theorem all_invalid_is_noop_at kind s m s' res :
  view_matches s (vm_h m) (vm_r m) ->
  msg_all_invalid (keys_for s m) kind m = true ->
  handle_votes kind s m = Ok (s', res) ->
  s' = s /\ res <> HandleVoteProofsAccepted /\ res <> HandleVoteProofsFutureVerified.
Proof.
  intros Hvm. unfold msg_all_invalid, keys_for, handle_votes, bind.
  destruct (vm_proofs m) as [|vp0 vpl] eqn:Hp.
  { intros _ E; inversion E; subst. repeat split; discriminate. }
  rewrite <- Hp. clear Hp vp0 vpl.
  destruct (find_view _ _ _) as [[vid st]|] eqn:Hfv; [|discriminate].
  destruct (st =? ViewFuture).
  - (* future path *)
    unfold handle_future_votes.
    destruct (vm_h m =? v_h (k_vot s)).
    + intros Hall. destruct (vs_keys (v_vals (k_vot s))) as [|k0 ks] eqn:Hk.
      { intros E; inversion E; subst. repeat split; discriminate. }
      rewrite <- Hk in *. clear Hk k0 ks.
      destruct (negb (bytes_eqb _ _)); [intros E; inversion E; subst; repeat split; discriminate|].
      destruct (match coll_of _ _ with Some c => c | None => _ end) as [spkh stored].
      match goal with |- context [fold_left ?f ?l ?a] =>
        pose proof (future_fold_all_invalid kind (vm_h m) (vm_r m) (vs_keys (v_vals (k_vot s))) spkh (vm_pkh m) (signed_entries (vm_proofs m))
                      (map (fun x => (fst x, fst (fst (merge_sparse kind (vm_h m) (vm_r m) (fst x) (vs_keys (v_vals (k_vot s))) [] (snd x))))) stored)
                      true (forallb_signed_entries _ _ Hall)) as Hf
      end.
      cbv zeta in Hf.
      destruct (fold_left _ _ _) as [[full' allv] inc]. cbn in Hf. subst inc.
      destruct (negb allv); intros E; inversion E; subst; repeat split; discriminate.
    + intros _ E; inversion E; subst. repeat split; discriminate.
  - intros Hall.
    destruct (st =? ViewFound) eqn:Hst; cbn [negb]; [|intros E; inversion E; subst; repeat split; discriminate].
    apply N.eqb_eq in Hst.
    destruct (Hvm vid st Hfv Hst) as [Eh Er].
    destruct (negb (bytes_eqb _ _)); [intros E; inversion E; subst; repeat split; discriminate|].
    set (v := get_view s vid) in *.
    pose proof (sigs_to_add_all_invalid (vs_keys (v_vals v)) kind (vm_h m) (vm_r m) (view_votes kind v)
                  (vm_proofs m) (List.length (vs_keys (v_vals v))) Hall) as Hs.
    destruct (sigs_to_add _ _ _) as [|x0 l0] eqn:Hsa; [intros E; inversion E; subst; repeat split; discriminate|].
    rewrite <- Hsa in *. clear Hsa x0 l0.
    rewrite <- Eh, <- Er in Hs.
    pose proof (build_updates_all_invalid kind v _ Hs) as Hb.
    destruct (build_updates _ _ _) as [ups allv]. cbn in Hb. subst ups.
    intros E; inversion E; subst. destruct allv; repeat split; discriminate.
Qed.
