(** Witnesses: concrete event histories on which full-strength statements about the round state
    machine are FALSE of the faithful model (each is replayed on the real code by the checks), and
    honest histories on which the state machine panics. Proved by evaluation. *)
From Coq Require Import List NArith String Bool Lia.
From GV Require Import Base.Ints Gen.Math Gen.StepSM Model.StateMachine Model.SMWire Model.SMWalk.
Import ListNotations.
Local Open Scope N_scope.

Definition vs_of (tpvp tpcp : N) (pv pc : list (list N * N)) : vote_summary :=
  mk_vote_summary 40 tpvp tpcp pv pc (most_voted pv [] 0) (most_voted pc [] 0).
Definition mkv (h r ver : N) (vs : vote_summary) (phs : list ph) : view := mkView h r ver vs phs [] 0.
Definition gph (i : N) : ph := mkPh [i] genesis_ash genesis_vs genesis_vs [100 + i] false.

(** W1 (C08 finalize_needs_quorum): commit wait without the header, jump ahead, the mirror answers the
    new round entrance with the committed header, then sends a view of the new round: the machine asks
    the driver to finalize block 8, which has 10 of 40 precommit power. *)
Definition w1_last : view := mkv 1 1 3 (vs_of 0 10 [] [([8], 10)]) [gph 8].
Definition w1 : list event :=
  [ EvStart;
    EvRERespVRV (mkv 1 0 1 (vs_of 0 30 [] [([7], 30)]) []);
    EvView (mkv 1 0 2 (vs_of 0 30 [] [([7], 30)]) []) (Some (1, 1));
    EvRERespCH [7] 1 0;
    EvView w1_last None ].

Definition last_outs (sg : bool) (es : list event) : list out := last (run_events (sm0 sg) es) [].

Example w1_finalizes_without_quorum :
  last_outs true w1 = [OFinalizeReq 1 1 [8]] /\
  pc_pow w1_last = 10 /\ byz_majority (avail w1_last) = Ok 27 /\
  forallb (fun e => match e with EvView v _ | EvRERespVRV v => negb ((v_h v =? 1) && (v_r v =? 1)) | _ => true end)
          (removelast w1) = true.
Proof. vm_compute. repeat split; reflexivity. Qed.

(** W2 (C08 precommit_decision_exactly_once_when_due): a prevote quorum for a block seen while still
    awaiting the proposal moves the machine to awaiting precommits after asking the strategy for its
    PREVOTE only; it never asks for the precommit in this round. *)
Definition w2 : list event :=
  [ EvStart;
    EvRERespVRV (mkv 1 0 1 (vs_of 0 0 [] []) []);
    EvView (mkv 1 0 2 (vs_of 30 0 [([7], 30)] []) [gph 7]) None;
    EvAnswer 0 [7];
    EvView (mkv 1 0 3 (vs_of 40 0 [([7], 40)] []) [gph 7]) None;
    EvView (mkv 1 0 4 (vs_of 40 20 [([7], 40)] [([7], 20)]) [gph 7]) None ].

Definition is_decide (o : out) : bool := match o with ODecide _ _ _ _ _ _ _ => true | _ => false end.

Example w2_never_asks_for_precommit :
  existsb is_decide (List.concat (run_events (sm0 true) w2)) = false /\
  rS (rl (final_state (sm0 true) w2)) = StepAwaitingPrecommits /\
  existsb (fun o => match o with OSignPrevote 1 0 [7] => true | _ => false end) (List.concat (run_events (sm0 true) w2)) = true.
Proof. vm_compute. repeat split; reflexivity. Qed.

(** W3 (C02 restart_never_signs_second): restart after the prevote was saved and emitted: the signer is
    invoked a second time for the same height/round, then the action store refuses and the machine halts. *)
Definition w3 : list event :=
  [ EvStart; EvRERespVRV (mkv 1 0 1 (vs_of 0 0 [] []) []); EvTimer; EvAnswer 0 [7];
    EvStop;
    EvStart; EvRERespVRV (mkv 1 0 1 (vs_of 0 0 [] []) []); EvTimer; EvAnswer 0 [8] ].

Definition is_sign_pv (h r : N) (o : out) : bool :=
  match o with OSignPrevote h' r' _ => (h' =? h) && (r' =? r) | _ => false end.

Example w3_signs_twice_then_halts :
  List.length (filter (is_sign_pv 1 0) (List.concat (run_events (sm0 true) w3))) = 2%nat /\
  last_outs true w3 = [OSignPrevote 1 0 [8]; OSavePrevote 1 0 [8] 1 0; OHalt] /\
  List.length (filter (fun o => match o with OEmitPrevote _ _ _ => true | _ => false end)
                      (List.concat (run_events (sm0 true) w3))) = 1%nat.
Proof. vm_compute. repeat split; reflexivity. Qed.

(** Honest histories that make the state machine panic. *)
Definition w4 : list event :=   (* entering a round whose view is already in prevote delay *)
  [ EvStart; EvRERespVRV (mkv 1 0 1 (vs_of 30 0 [([7], 20); ([], 10)] []) []) ].
Definition w5 : list event :=   (* the mirror commits the height while the machine still awaits the proposal *)
  [ EvStart; EvRERespVRV (mkv 1 0 1 (vs_of 0 0 [] []) []); EvHeightCommitted ].
Definition w6 : list event :=   (* catching up on a block committed in round 1; the driver echoes the request *)
  [ EvStart; EvRERespCH [7] 1 1; EvFinResp 1 1 [7] 15 [2] ].
Definition w7 : list event :=   (* nil precommit quorum and a jump-ahead in one update *)
  [ EvStart; EvRERespVRV (mkv 1 0 1 (vs_of 0 0 [] []) []);
    EvView (mkv 1 0 2 (vs_of 0 30 [] [([], 30)]) []) (Some (1, 1));
    EvRERespVRV (mkv 1 1 1 (vs_of 0 0 [] []) []) ].
Definition w8 : list event :=   (* catching up from start-up leaves the validator sets empty: proposing two heights later *)
  [ EvStart; EvRERespCH [7] 1 0; EvFinResp 1 0 [7] 15 [2];
    EvRERespCH [7] 2 0; EvFinResp 2 0 [7] 15 [2];
    EvRERespVRV (mkView 3 0 1 (vs_of 0 0 [] []) [] [7] 15); EvProposal [51] ].

Example honest_histories_panic :
  last_outs true w4 = [OEnterRound 1 0 true; OPanic P_beginRound_default] /\
  last_outs true w5 = [OTimerCancel 1 1 0 true; OPanic P_heightCommitted_step] /\
  last_outs true w6 = [OPanic P_finalization_hr] /\
  last (last_outs true w7) OHalt = OPanic P_jumpAhead_round /\
  last_outs true w8 = [OPanic P_finalize_nokeys].
Proof. vm_compute. repeat split; reflexivity. Qed.

(** all witnesses, for the checks (name code, signer, events) *)
Definition witnesses : list (N * list event) :=
  [(1, w1); (2, w2); (3, w3); (4, w4); (5, w5); (6, w6); (7, w7); (8, w8)].
Definition witness_report : list (N * list (list N * (list (list N) * list (list N)))) :=
  map (fun w => (fst w, combine (map enc_event (snd w)) (map project (run_events (sm0 true) (snd w))))) witnesses.
