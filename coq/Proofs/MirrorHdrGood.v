(** Every header in the committed-header store of a reachable mirror state is a "good" header:
    its hash is not the nil hash (the empty byte string - a precommit majority for nil advances the
    round, it never commits: checkVotingPrecommitViewShift), its hash flag [hd_ok] is set (the
    harness convention "hd_hash is the hash scheme's hash of the other fields") and its next
    validator set passed the [vs_ok] check.  Needed by Proofs/MirrorAgree.v (C03 for mirrors):
    the abstract agreement argument of Proofs/Network.v is about non-nil blocks, and the
    hash-binds-content hypothesis is only meaningful for headers whose hash flag is set.

    The proof follows Proofs/MirrorVals.v step by step (same frame lemmas, same case splits). *)
From Coq Require Import List NArith Arith Bool Lia String.
From GV Require Import Base.Ints Gen.Math Gen.Kernel Model.Mirror
  Proofs.MirrorAuth Proofs.MirrorNoop Proofs.MirrorChain Proofs.MirrorCert.
Import ListNotations.
Local Open Scope N_scope.

Definition hdr_good (x : hdr) : Prop :=
  hd_hash x <> [] /\ hd_ok x = true /\ vs_ok (hd_next x) = true.

Definition ginv (s : kstate) : Prop :=
  forall h x cp, In (h, (x, cp)) (st_hdrs s) -> hdr_good x.

Lemma ginv_frame s s' : frame_eq s s' -> ginv s -> ginv s'.
Proof. intros (_&_&_&_&_&Fh&_) H. unfold ginv. rewrite <- Fh. exact H. Qed.

Lemma ginv_same s s' : st_hdrs s' = st_hdrs s -> ginv s -> ginv s'.
Proof. intros E H. unfold ginv. rewrite E. exact H. Qed.

Lemma ginv_increment s : ginv s -> ginv (update_observers (increment_voting_round s)).
Proof. intros H; exact H. Qed.
Lemma ginv_advance s : ginv s -> ginv (advance_voting_round s).
Proof. intros H; exact H. Qed.
Lemma ginv_jump s : ginv s -> ginv (jump_voting_round s).
Proof. intros H; exact H. Qed.

(** ** The commit shift *)
Lemma ginv_shift ih ivs s p :
  cinv ih ivs s -> ginv s -> In p (v_phs (k_vot s)) -> hd_hash (ph_hdr p) <> [] ->
  ginv (shift_voting_to_committing s (ph_hdr p)).
Proof.
  intros Hc H Hin Hne.
  pose proof Hc as (_&_&_&_&_&_&_&_&_&Hphs&_).
  destruct (Hphs p (or_introl Hin)) as (_&Pok&Pnext&_).
  unfold ginv, shift_voting_to_committing, update_observers. cbn. unfold hstore_set.
  intros h x cp [E|Hx].
  - inversion E; subst. repeat split; assumption.
  - apply filter_In in Hx as [Hx _]. exact (H _ _ _ Hx).
Qed.

(** ** The three shift checks *)
Lemma ginv_check_voting ih ivs s s' :
  cinv ih ivs s -> ginv s -> check_voting_precommit_shift s = Ok s' -> ginv s'.
Proof.
  intros Hc H. unfold check_voting_precommit_shift, bind.
  destruct (byz_majority _) as [maj|]; [|discriminate].
  destruct (_ <? maj).
  - destruct (_ =? _); intros E; inversion E; subst; [apply ginv_advance|]; exact H.
  - destruct (sm_mpc _) eqn:Hm.
    + intros E; inversion E; subst. apply ginv_advance; exact H.
    + rewrite <- Hm. destruct (find _ _) as [p|] eqn:Hf; intros E; inversion E; subst; [|exact H].
      pose proof (find_some _ _ Hf) as [_ Heq]. apply bytes_eqb_eq in Heq.
      eapply ginv_shift; [exact Hc|exact H|eapply find_in; exact Hf|].
      rewrite Heq, Hm. discriminate.
Qed.

Lemma ginv_check_next_round ih ivs s s' :
  cinv ih ivs s -> ginv s -> check_next_round_precommit_shift s = Ok s' -> ginv s'.
Proof.
  intros Hc H. unfold check_next_round_precommit_shift, bind.
  destruct (byz_minority _) as [mn|]; [|discriminate].
  destruct (_ <? mn); [intros E; inversion E; subst; exact H|].
  destruct (byz_majority _) as [maj|]; [|discriminate].
  destruct (maj <=? _).
  - apply (ginv_check_voting ih ivs); [apply cinv_jump; exact Hc|apply ginv_jump; exact H].
  - intros E; inversion E; subst. apply ginv_jump; exact H.
Qed.

Lemma ginv_check_prevote s s' :
  ginv s -> check_prevote_shift s = Ok s' -> ginv s'.
Proof.
  intros H. unfold check_prevote_shift, bind.
  destruct (byz_minority _) as [mn|]; [|discriminate].
  destruct (_ <? mn); intros E; inversion E; subst; [exact H|apply ginv_jump; exact H].
Qed.

(** ** Votes *)
Lemma ginv_apply_votes ih ivs kind s vid h r ups s' :
  cinv ih ivs s -> ginv s -> apply_votes kind s vid h r ups = Ok s' -> ginv s'.
Proof.
  intros Hc H. unfold apply_votes.
  set (v := get_view s vid).
  set (votes' := fold_left (fun m e => pm_set m (fst e) (snd e)) ups (view_votes kind v)).
  set (v1 := if kind =? KPrevote then with_pv v votes' else with_pc v votes').
  set (sm' := if kind =? KPrevote then sum_set_prevotes _ _ _ else _).
  set (v2 := bump (with_sum v1 sm')).
  assert (Hp : pos_eq v v2).
  { unfold v2, v1. destruct (kind =? KPrevote); repeat split. }
  set (s1 := put_view s vid v2).
  set (s2 := ev_w (log_w (set_rounds s1 _) _) _).
  assert (F : frame_eq s s2).
  { eapply frame_eq_trans; [apply frame_put_view; exact Hp|apply frame_set_rounds]. }
  pose proof (cinv_frame _ _ _ _ F Hc) as Hc2. pose proof (ginv_frame _ _ F H) as H2.
  destruct (kind =? KPrevote).
  - destruct (vid =? ViewIDNextRound).
    + apply ginv_check_prevote; exact H2.
    + intros E; inversion E; subst. exact H2.
  - destruct (vid =? ViewIDVoting).
    + apply (ginv_check_voting ih ivs); assumption.
    + destruct (vid =? ViewIDNextRound).
      * apply (ginv_check_next_round ih ivs); assumption.
      * intros E; inversion E; subst. exact H2.
Qed.

Lemma ginv_handle_votes ih ivs kind s m s' res :
  cinv ih ivs s -> ginv s -> handle_votes kind s m = Ok (s', res) -> ginv s'.
Proof.
  intros Hc H. unfold handle_votes, bind.
  destruct (vm_proofs m) as [|vp0 vpl] eqn:Hp; [intros E; inversion E; subst; exact H|].
  rewrite <- Hp. clear Hp vp0 vpl.
  destruct (find_view _ _ _) as [[vid st]|]; [|discriminate].
  destruct (st =? ViewFuture).
  { intros E. eapply ginv_frame; [eapply frame_handle_future; exact E|exact H]. }
  destruct (negb (st =? ViewFound)); [intros E; inversion E; subst; exact H|].
  destruct (negb (bytes_eqb _ _)); [intros E; inversion E; subst; exact H|].
  destruct (sigs_to_add _ _ _) as [|x0 l0]; [intros E; inversion E; subst; exact H|].
  destruct (build_updates _ _ _) as [ups allv].
  destruct ups as [|u ups'] eqn:Hu; [intros E; inversion E; subst; exact H|]. rewrite <- Hu. clear Hu.
  destruct (apply_votes _ _ _ _ _ _) as [s2|] eqn:Ha; [|discriminate].
  intros E; inversion E; subst. eapply ginv_apply_votes; eassumption.
Qed.

(** ** Proposed headers *)
Lemma ginv_add_ph ih ivs s p s' :
  cinv ih ivs s -> ginv s -> accept_facts s p -> add_ph s p = Ok s' -> ginv s'.
Proof.
  intros Hc H (Aok&Anext&Ab&Aprev). unfold add_ph, bind.
  destruct (find_view _ _ _) as [[vid st]|] eqn:Hfv; [|discriminate].
  destruct (st =? ViewFound) eqn:Hst; cbn [negb]; [|intros E; inversion E; subst; exact H].
  apply N.eqb_eq in Hst.
  destruct (existsb _ _); [intros E; inversion E; subst; exact H|].
  pose proof (find_view_found _ _ _ _ _ Hfv Hst) as Hcase. cbn in Hcase.
  assert (Hvid : vid = ViewIDVoting \/ vid = ViewIDNextRound \/ vid = ViewIDCommitting).
  { destruct Hcase as [(A&_)|[(A&_)|(A&_)]]; auto. }
  assert (Hgood : vid = ViewIDVoting \/ vid = ViewIDNextRound -> ph_good s p).
  { intros Hv. assert (Hh : hd_height (ph_hdr p) = v_h (k_vot s)).
    { destruct Hcase as [(A&B&C)|[(A&B&C)|(A&B&C&D)]]; try exact B.
      subst vid. destruct Hv as [Hv|Hv]; discriminate. }
    unfold ph_good. repeat split; try assumption. intros Hne. apply Aprev; assumption. }
  destruct (cinv_put_phs ih ivs s vid p Hc Hvid Hgood) as (Hc1&_).
  assert (H1 : ginv (put_view s vid (bump (with_phs (get_view s vid) (v_phs (get_view s vid) ++ [p]))))).
  { eapply ginv_same; [|exact H]. unfold put_view.
    destruct (vid =? ViewIDVoting); [|destruct (vid =? ViewIDCommitting)]; reflexivity. }
  set (s1 := put_view s vid _) in *.
  set (s2 := ev_w (log_w (set_rounds s1 _) _) _).
  assert (Hc2 : cinv ih ivs s2) by (eapply cinv_frame; [apply frame_set_rounds|exact Hc1]).
  assert (H2 : ginv s2) by (eapply ginv_frame; [apply frame_set_rounds|exact H1]).
  destruct (negb _); [intros E; inversion E; subst; exact H2|].
  pose proof (frame_backfill s2 p) as F3.
  pose proof (cinv_frame _ _ _ _ F3 Hc2) as Hc3. pose proof (ginv_frame _ _ F3 H2) as H3.
  destruct (vid =? ViewIDVoting).
  - destruct (pm_get _ _).
    + apply (ginv_check_voting ih ivs); assumption.
    + intros E; inversion E; subst; exact H3.
  - intros E; inversion E; subst; exact H3.
Qed.

Lemma ginv_handle_ph_loop ih ivs fuel : forall backfilled s p s' res,
  cinv ih ivs s -> ginv s -> ph_bounded p ->
  handle_ph_loop fuel backfilled s p = Ok (s', res) -> ginv s'.
Proof.
  assert (Hbody : forall s p status proposer prev_hash prev_vs view_vs s' res,
    cinv ih ivs s -> ginv s -> ph_bounded p ->
    ph_check s p = PHC status proposer prev_hash prev_vs view_vs -> status = PHCheckAcceptable ->
    (let hd := ph_hdr p in
      if negb (hd_ok hd) then Ok (s, HandleProposedHeaderBadBlockHash)
      else if negb (vs_ok (hd_vals hd) && vs_ok (hd_next hd)) then Ok (s, HandleProposedHeaderBadBlockHash)
      else if negb (valset_equal (hd_vals hd) view_vs) then Ok (s, HandleProposedHeaderBadBlockHash)
      else
        match proposer with
        | None => Ok (s, HandleProposedHeaderBadSignature)
        | Some key =>
          if negb (verify_prop key (ph_content p) (ph_round p) (ph_sig p)) then Ok (s, HandleProposedHeaderBadSignature)
          else if negb (hd_height hd =? k_init_h s) && negb (bytes_eqb (hd_prev hd) prev_hash)
          then Ok (s, HandleProposedHeaderBadBlockHash)
          else if negb (bytes_eqb (vs_pkh prev_vs) (cp_pkh (hd_pcp hd)))
          then Ok (s, HandleProposedHeaderBadPrevCommitProofPubKeyHash)
          else
            let accept := bind (add_ph s p) (fun s' => Ok (s', HandleProposedHeaderAccepted)) in
            if k_init_h s <? hd_height hd then
              match vs_keys prev_vs with
              | [] => Ok (s, HandleProposedHeaderBadPrevCommitProofPubKeyHash)
              | _ =>
                match validate_finalized (sub64 (hd_height hd) 1) (cp_round (hd_pcp hd)) (vs_keys prev_vs)
                        (hd_prev hd) (cp_proofs (hd_pcp hd)) with
                | (_, false) => Ok (s, HandleProposedHeaderBadPrevCommitProofDoubleSigned)
                | (None, true) => Ok (s, HandleProposedHeaderBadPrevCommitProofSignature)
                | (Some bits, true) =>
                    let avail := sum_pows (vs_pows prev_vs) in
                    bind (byz_majority avail) (fun maj =>
                    if idx_power (vs_pows prev_vs) bits <? maj
                    then Ok (s, HandleProposedHeaderBadPrevCommitVoteCount)
                    else accept)
                end
              end
            else accept
        end) = Ok (s', res) ->
    ginv s').
  { intros s p status proposer prev_hash prev_vs view_vs s' res Hc H Hb Hck Hs. cbv zeta.
    assert (Hsame : forall r0, Ok (s, r0) = Ok (s', res) -> ginv s')
      by (intros r0 E; inversion E; subst; exact H).
    destruct (hd_ok (ph_hdr p)) eqn:Hok; cbn [negb]; [|apply Hsame].
    destruct (vs_ok (hd_vals (ph_hdr p)) && vs_ok (hd_next (ph_hdr p))) eqn:Hvs; cbn [negb]; [|apply Hsame].
    apply andb_true_iff in Hvs as [_ Hnext].
    destruct (valset_equal (hd_vals (ph_hdr p)) view_vs) eqn:Hveq; cbn [negb]; [|apply Hsame].
    destruct proposer as [key|]; [|apply Hsame].
    destruct (negb (verify_prop _ _ _ _)); [apply Hsame|].
    destruct (negb (hd_height (ph_hdr p) =? k_init_h s) && negb (bytes_eqb (hd_prev (ph_hdr p)) prev_hash)) eqn:Hprev; [apply Hsame|].
    destruct (negb (bytes_eqb (vs_pkh prev_vs) _)); [apply Hsame|].
    assert (Hfacts : accept_facts s p).
    { unfold accept_facts. repeat split; try assumption.
      intros Hh Hne. destruct (ph_check_prev _ _ _ _ _ _ _ _ _ Hc Hck Hs Hh Hne) as (ch&Hch&Hph).
      exists ch. split; [exact Hch|].
      apply andb_false_iff in Hprev as [Hp|Hp].
      - apply negb_false_iff in Hp. apply N.eqb_eq in Hp. contradiction.
      - apply negb_false_iff in Hp. apply bytes_eqb_eq in Hp. congruence. }
    assert (Hacc : bind (add_ph s p) (fun s' => Ok (s', HandleProposedHeaderAccepted)) = Ok (s', res) -> ginv s').
    { unfold bind. destruct (add_ph s p) eqn:Hadd; [|discriminate].
      intros E; inversion E; subst. eapply ginv_add_ph; eassumption. }
    destruct (k_init_h s <? _); [|exact Hacc].
    destruct (vs_keys prev_vs); [apply Hsame|].
    destruct (validate_finalized _ _ _ _ _) as [[bits|] [|]]; try apply Hsame.
    unfold bind at 1. destruct (byz_majority _); [|discriminate].
    destruct (_ <? _); [apply Hsame|exact Hacc]. }
  induction fuel as [|f IH]; intros backfilled s p s' res Hc H Hb; cbn [handle_ph_loop];
    destruct (ph_check s p) as [status proposer prev_hash prev_vs view_vs] eqn:Hck.
  all: assert (Hsame : forall r0, Ok (s, r0) = Ok (s', res) -> ginv s')
         by (intros r0 E; inversion E; subst; exact H).
  all: destruct (status =? PHCheckAlreadyHaveSignature) eqn:S1; [apply Hsame|].
  all: destruct (status =? PHCheckSignerUnrecognized) eqn:S2; [apply Hsame|].
  all: destruct (status =? PHCheckRoundTooOld) eqn:S3; [apply Hsame|].
  all: destruct (status =? PHCheckRoundTooFarInFuture) eqn:S4; [apply Hsame|].
  all: destruct (status =? PHCheckNextHeight) eqn:S5.
  - destruct backfilled; apply Hsame.
  - eapply Hbody; try eassumption. eapply status_acceptable; eassumption.
  - destruct backfilled; [apply Hsame|].
    unfold bind at 1. destruct (handle_votes KPrecommit s (vote_msg_of_pcp p)) as [[s1 r1]|] eqn:Hv; [|discriminate].
    cbn [fst]. apply IH; [|eapply ginv_handle_votes; eassumption|exact Hb].
    exact (proj1 (cinv_handle_votes _ _ _ _ _ _ _ Hc Hv)).
  - eapply Hbody; try eassumption. eapply status_acceptable; eassumption.
Qed.

(** ** Replayed headers *)
Lemma ginv_jump_until fuel : forall s r, ginv s -> ginv (jump_until fuel s r).
Proof.
  induction fuel as [|f IH]; intros s r H; cbn [jump_until]; [exact H|].
  destruct (_ <? _); [apply IH, ginv_jump, H|exact H].
Qed.

Lemma ginv_replay_insert s hd r s1 : ginv s -> replay_insert s hd r = Ok s1 -> ginv s1.
Proof.
  intros H. unfold replay_insert.
  destruct (existsb _ (v_phs _)); [intros E; inversion E; subst; exact H|].
  destruct (existsb _ (st_rounds s)); intros E; inversion E; subst; exact H.
Qed.

Lemma ginv_handle_replay ih ivs s0 hd cp s' res :
  cinv ih ivs s0 -> ginv s0 -> hd_height hd + 1 < two64 ->
  handle_replay s0 hd cp = Ok (s', res) -> ginv s'.
Proof.
  intros Hc0 H0 Hb. unfold handle_replay.
  destruct (negb (hd_height hd =? _)); [intros E; inversion E; subst; exact H0|].
  destruct (cp_round cp <? _); [discriminate|].
  destruct (cinv_adv_jump_until ih ivs (N.to_nat (cp_round cp - v_r (k_vot s0))) s0 (cp_round cp) Hc0) as [Hc _].
  pose proof (ginv_jump_until (N.to_nat (cp_round cp - v_r (k_vot s0))) s0 (cp_round cp) H0) as H.
  set (s := jump_until _ s0 _) in *.
  destruct ((v_r (k_vot s) =? cp_round cp) && (v_h (k_vot s) =? hd_height hd)) eqn:Hpos; cbn [negb]; [|discriminate].
  apply andb_true_iff in Hpos as [Hr Hh]. apply N.eqb_eq in Hr, Hh.
  assert (Hsame : forall r0, Ok (s0, r0) = Ok (s', res) -> ginv s') by (intros r0 E; inversion E; subst; exact H0).
  destruct (hd_ok hd) eqn:Hok; cbn [negb]; [|apply Hsame].
  destruct (negb (hd_height hd =? k_init_h s) && negb (bytes_eqb (hd_prev hd) (chdr_hash s))) eqn:Hprev; [apply Hsame|].
  destruct (valset_equal (hd_vals hd) (v_vals (k_vot s)) && vs_ok (hd_vals hd)) eqn:Hveq; cbn [negb]; [|apply Hsame].
  destruct (vs_ok (hd_next hd)) eqn:Hnext; cbn [negb]; [|apply Hsame].
  destruct (fold_left _ (signed_entries (cp_proofs cp)) ([], true)) as [temp allv].
  destruct (negb allv); [apply Hsame|].
  destruct (pm_get temp (hd_hash hd)); [|apply Hsame].
  unfold bind at 1. destruct (byz_majority _); [|discriminate].
  destruct (_ <? _); [apply Hsame|].
  fold (replay_insert s hd (cp_round cp)).
  unfold bind at 1. destruct (replay_insert s hd (cp_round cp)) as [s1|] eqn:Hins; [|discriminate].
  pose proof (replay_checks_good _ _ _ _ (cp_round cp) Hc Hh Hok Hnext Hb Hprev) as Hgood.
  destruct (cinv_replay_insert _ _ _ _ _ _ Hc Hgood Hins) as [Hc1 _].
  pose proof (ginv_replay_insert _ _ _ _ H Hins) as H1.
  unfold bind. destruct (check_voting_precommit_shift _) as [s3|] eqn:Hcv; [|discriminate].
  intros E; inversion E; subst.
  match type of Hcv with check_voting_precommit_shift ?X = _ => set (s2 := X) in * end.
  assert (F2 : frame_eq s1 s2) by (unfold s2, frame_eq, pos_eq; cbn; repeat split).
  eapply (ginv_check_voting ih ivs); [eapply cinv_frame; [exact F2|exact Hc1]|eapply ginv_frame; [exact F2|exact H1]|exact Hcv].
Qed.

(** ** Every reachable state *)
Lemma ginv_step ih ivs s o s' res :
  cinv ih ivs s -> ginv s -> op_bounded o -> step s o = Ok (s', res) -> ginv s'.
Proof.
  intros Hc H Hb. destruct o as [p|m|m|x cp]; cbn [step]; [| | |apply (ginv_handle_replay ih ivs); assumption].
  - unfold handle_ph. destruct (ph_key p).
    + apply (ginv_handle_ph_loop ih ivs); assumption.
    + intros E; inversion E; subst. exact H.
  - apply (ginv_handle_votes ih ivs); assumption.
  - apply (ginv_handle_votes ih ivs); assumption.
Qed.

Lemma ginv_init ih ivs : ginv (init_state ih ivs).
Proof. unfold ginv, init_state. cbn. intros; contradiction. Qed.

Theorem committed_headers_good ih ivs s :
  1 <= ih -> vs_ok ivs = true -> reachable_b ih ivs s ->
  forall h x cp, In (h, (x, cp)) (st_hdrs s) ->
    hd_hash x <> [] /\ hd_ok x = true /\ vs_ok (hd_next x) = true.
Proof.
  intros Hi Hok. induction 1 as [|s o s' res Hr IH Hb Hs]; [apply ginv_init|].
  eapply ginv_step; [eapply reachable_cinv; eassumption|exact IH|exact Hb|exact Hs].
Qed.
