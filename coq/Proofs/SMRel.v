(** A relational logic for the round state machine model: what every handler may change.
    [hm b m]: [m] ends suspended only after announcing a round entrance, talks to the consensus manager
    only through its single slot (at most one request, none while a call is held), does not touch the
    action store and neither signs, saves nor emits a vote; with [b = true], falling through it closes
    (never opens) the action channels, never enters AwaitingProposal and stays in its round.
    All rules are per primitive, so one tactic proves every handler. *)
From Coq Require Import List NArith String Bool Lia.
From GV Require Import Base.Ints Gen.Math Gen.StepSM Model.StateMachine Proofs.SMInv.
Import ListNotations.
Local Open Scope N_scope.

Definition reqk (o : out) : option N :=
  match o with
  | OConsider _ _ _ _ => Some K_consider | OChoose _ => Some K_choose
  | ODecide _ _ _ _ _ _ _ => Some K_decide | _ => None end.
Definition is_ent (o : out) : bool := match o with ORoundEntrance _ _ _ _ => true | _ => false end.
(** signing, saving, emitting a vote; signing and saving a proposal *)
Definition is_act (o : out) : bool :=
  match o with
  | OSignPrevote _ _ _ | OSignPrecommit _ _ _ | OSignProposal _ _ _
  | OSavePrevote _ _ _ _ _ | OSavePrecommit _ _ _ _ _ | OSavePH _ _ _ _
  | OEmitPrevote _ _ _ | OEmitPrecommit _ _ _ => true
  | _ => false end.
Definition plain (o : out) : Prop := reqk o = None /\ is_ent o = false /\ is_act o = false.

Definition reqs (o : list out) : list N :=
  flat_map (fun x => match reqk x with Some k => [k] | None => [] end) o.
Definition noact (o : list out) : Prop := Forall (fun x => is_act x = false) o.

Definition cmrel (s : sm) (o : list out) (s' : sm) : Prop :=
  match cm s with
  | None => (reqs o = [] /\ cm s' = None) \/ (exists k g b, reqs o = [k] /\ cm s' = Some (k, g, b))
  | Some c => reqs o = [] /\ cm s' = Some c
  end.

Definition keepl (l l' : rlc) : Prop :=
  (rPvCh l' = true -> rPvCh l = true) /\ (rPcCh l' = true -> rPcCh l = true) /\
  (rS l' = 1 -> rS l = 1) /\ rH l' = rH l /\ rR l' = rR l /\ rOut l' = rOut l.
Definition keep (s s' : sm) : Prop :=
  keepl (rl s) (rl s') /\ (propOut s' = 1 -> propOut s = 1) /\ run s' = run s /\ gen s' = gen s.

Definition R (b : bool) (s : sm) (r : sm * list out * flow) : Prop :=
  (fl r = Susp -> existsb is_ent (ou r) = true) /\
  cmrel s (ou r) (st r) /\ aStore (st r) = aStore s /\ noact (ou r) /\
  (b = true -> fl r = Go -> keep s (st r)).
Definition hm (b : bool) (m : M) : Prop := forall s, R b s (m s).

Lemma keepl_refl l : keepl l l. Proof. unfold keepl; tauto. Qed.
Lemma keep_refl s : keep s s. Proof. unfold keep. pose proof (keepl_refl (rl s)). tauto. Qed.
Lemma keepl_trans a b c : keepl a b -> keepl b c -> keepl a c.
Proof. unfold keepl. intros (A1 & A2 & A3 & A4 & A5 & A6) (B1 & B2 & B3 & B4 & B5 & B6). repeat split; auto; congruence. Qed.
Lemma keep_trans a b c : keep a b -> keep b c -> keep a c.
Proof.
  unfold keep. intros (A1 & A2 & A3 & A4) (B1 & B2 & B3 & B4).
  split; [eapply keepl_trans; eauto|]. repeat split; auto; congruence.
Qed.

Lemma cmrel_refl s : cmrel s [] s.
Proof. unfold cmrel. destruct (cm s); simpl; auto. Qed.

Lemma reqs_app a b : reqs (a ++ b) = reqs a ++ reqs b.
Proof. unfold reqs. apply flat_map_app. Qed.

Lemma cmrel_trans s o1 s1 o2 s2 : cmrel s o1 s1 -> cmrel s1 o2 s2 -> cmrel s (o1 ++ o2) s2.
Proof.
  unfold cmrel. rewrite reqs_app. destruct (cm s) as [c|].
  - intros [A1 A2]. rewrite A2. intros [B1 B2]. rewrite A1, B1. auto.
  - intros [[A1 A2]|(k & g & b & A1 & A2)]; rewrite A2, A1; simpl.
    + auto.
    + intros [B1 B2]. rewrite B1. right. exists k, g, b. auto.
Qed.

Lemma hm_weaken m : hm true m -> hm false m.
Proof. intros H s. destruct (H s) as (A & B & C & D & E). refine (conj A (conj B (conj C (conj D _)))). intros X; discriminate X. Qed.

Lemma R_mk b s s' o f : (f = Susp -> existsb is_ent o = true) -> cmrel s o s' -> aStore s' = aStore s ->
  noact o -> (b = true -> f = Go -> keep s s') -> R b s (s', o, f).
Proof. intros. unfold R, st, fl, ou. simpl. tauto. Qed.

Lemma cmrel_same s s' : cm s' = cm s -> cmrel s [] s'.
Proof. intros E. unfold cmrel. rewrite E. destruct (cm s); simpl; auto. Qed.

Lemma hm_ret b : hm b ret.
Proof.
  intros s. apply R_mk; try discriminate; auto using cmrel_refl. constructor. intros _ _; apply keep_refl.
Qed.

Lemma hm_stop b f : f <> Susp -> hm b (stop f).
Proof.
  intros Hf s. apply R_mk; try congruence; auto using cmrel_refl. constructor. intros _ _; apply keep_refl.
Qed.

Lemma hm_say b o : plain o -> hm b (say o).
Proof.
  intros (P1 & P2 & P3) s. apply R_mk; try discriminate; auto.
  - unfold cmrel, reqs. simpl. rewrite P1. destruct (cm s); simpl; auto.
  - repeat constructor. exact P3.
  - intros _ _; apply keep_refl.
Qed.

Lemma hm_upd b f : (forall s, cm (f s) = cm s /\ aStore (f s) = aStore s) -> (b = true -> forall s, keep s (f s)) -> hm b (upd f).
Proof.
  intros H1 H2 s. destruct (H1 s) as [A B]. apply R_mk; try discriminate; auto.
  - apply cmrel_same; exact A.
  - constructor.
Qed.

Lemma hm_updr b f : (b = true -> forall l, keepl l (f l)) -> hm b (updr f).
Proof.
  intros H s. apply R_mk; try discriminate; auto.
  - apply cmrel_same; reflexivity.
  - constructor.
  - intros Hb _. unfold keep. simpl. split; [apply (H Hb)|auto].
Qed.

Lemma hm_bind b m1 m2 : hm b m1 -> hm b m2 -> hm b (m1 ;; m2).
Proof.
  intros H1 H2 s. destruct (H1 s) as (A1 & A2 & A3 & A4 & A5). unfold R, bindM, st, fl, ou in *.
  destruct (m1 s) as [[s1 o1] f1]. simpl in *.
  destruct f1; simpl; try (refine (conj A1 (conj A2 (conj A3 (conj A4 _)))); intros ? X; discriminate X).
  destruct (H2 s1) as (B1 & B2 & B3 & B4 & B5). unfold st, fl, ou in *.
  destruct (m2 s1) as [[s2 o2] f2]. simpl in *.
  apply R_mk.
  - intros E. rewrite existsb_app. rewrite (B1 E). apply orb_true_r.
  - eapply cmrel_trans; eauto.
  - congruence.
  - apply Forall_app. split; assumption.
  - intros Hb E. eapply keep_trans; [apply A5; auto|apply B5; auto].
Qed.

Lemma hm_withS b (k : sm -> M) : (forall s0, hm b (k s0)) -> hm b (withS k).
Proof. intros H s. unfold withS. apply H. Qed.

Lemma hm_when b c m : hm b m -> hm b (when c m).
Proof. intros H. destruct c; simpl; [exact H|apply hm_ret]. Qed.

(** never falling through *)
Definition never_go (m : M) : Prop := forall s, fl (m s) <> Go.
Lemma never_go_bind a b : never_go b -> never_go (a ;; b).
Proof.
  intros H s. unfold bindM, fl. destruct (a s) as [[s1 o1] f1]. destruct f1; simpl; try discriminate.
  specialize (H s1). unfold fl in H. destruct (b s1) as [[s2 o2] f2]. exact H.
Qed.
Lemma never_go_withS k : (forall s0, never_go (k s0)) -> never_go (withS k).
Proof. intros H s. unfold withS. apply H. Qed.
Lemma hm_never_go m : hm false m -> never_go m -> hm true m.
Proof. intros H N s. destruct (H s) as (A & B & C & D & E). refine (conj A (conj B (conj C (conj D _)))). intros _ G. destruct (N s G). Qed.

Ltac flds := cbn [rl run gen cm propOut enterErr finReq hcOpen hTimer liveSeen signer pendAct aStore fStore sStore pend
  set_run set_rl set_gen set_cm set_propOut set_enterErr set_finReq set_hcOpen set_hTimer set_liveSeen set_signer
  set_pendAct set_aStore set_fStore set_sStore set_pend
  rH rR rS rTimer rHC rCurVS rPrevVS rVRV rPBH rPFNVS rPFASH rConsidered rOut rPropCh rPvCh rPcCh rFinCh rFinVS rFinASH rFinBH
  set_rH set_rR set_rS set_rTimer set_rHC set_rCurVS set_rPrevVS set_rVRV set_rPBH set_rPFNVS set_rPFASH set_rConsidered
  set_rOut set_rPropCh set_rPvCh set_rPcCh set_rFinCh set_rFinVS set_rFinASH set_rFinBH cycle_finalization mark_catching_up] in *.

Ltac hm_side :=
  intros; try discriminate; unfold keep, keepl; flds; repeat split; auto;
  try (let H := fresh in intros H; vm_compute in H; discriminate H).

Ltac hm_step :=
  lazymatch goal with
  | |- hm _ ret => apply hm_ret
  | |- hm _ (stop _) => apply hm_stop; discriminate
  | |- hm _ (say _) => apply hm_say; repeat split
  | |- hm _ (upd _) => apply hm_upd; hm_side
  | |- hm _ (updr _) => apply hm_updr; hm_side
  | |- hm _ (bindM _ _) => apply hm_bind
  | |- hm _ (when _ _) => apply hm_when
  | |- hm _ (withS _) => apply hm_withS; let s0 := fresh "s0" in intros s0
  end.
Ltac hms := repeat hm_step.
Ltac hdif := match goal with
  | |- hm _ (if ?c then _ else _) => destruct c eqn:?
  | |- hm _ (match ?x with _ => _ end) => destruct x eqn:?
  | |- hm _ (let '(_, _) := ?x in _) => destruct x eqn:?
  end.

(** ** Units *)
Lemma hm_cm_request b k ro o : reqk o = Some k -> is_ent o = false -> is_act o = false -> hm b (cm_request k ro o).
Proof.
  intros P1 P2 P3 s. unfold cm_request, withS. destruct (cm s) as [c|] eqn:E.
  - pose proof (hm_stop b FBlocked ltac:(discriminate) s) as H. exact H.
  - unfold bindM, upd, say. simpl. apply R_mk; try discriminate.
    + unfold cmrel, reqs. rewrite E. simpl. rewrite P1. right. simpl. eauto.
    + reflexivity.
    + repeat constructor. exact P3.
    + intros _ _. unfold keep. simpl. split; [apply keepl_refl|auto].
Qed.

Lemma hm_send_entrance b : hm b send_entrance.
Proof.
  intros s. unfold send_entrance, withS, bindM, say, upd, stop. simpl.
  apply R_mk; try discriminate; auto.
  - apply cmrel_same; reflexivity.
  - repeat constructor.
Qed.
Lemma never_go_send_entrance : never_go send_entrance.
Proof. intros s. unfold send_entrance, withS, bindM, say, upd, stop, fl. simpl. discriminate. Qed.

Lemma hm_cancel b must : hm b (cancel_timer must).
Proof. unfold cancel_timer. hms. destruct (rTimer (rl s0)) as [[[k h] r]|]; hms. destruct must; hms. Qed.

Lemma hm_start_timer b k : hm b (start_timer k).
Proof. unfold start_timer. hms. Qed.

Lemma hm_req_consider b phs mk ui mj : hm b (req_consider phs mk ui mj).
Proof. unfold req_consider. hms. hdif. hms. apply (hm_cm_request b K_consider); reflexivity. Qed.
Lemma hm_req_choose b phs : hm b (req_choose phs).
Proof. unfold req_choose. hms. apply (hm_cm_request b K_choose); reflexivity. Qed.
Lemma hm_req_decide b vs : hm b (req_decide vs).
Proof. unfold req_decide. hms. apply (hm_cm_request b K_decide); reflexivity. Qed.

Lemma hm_finalize_req b h r bh : hm b (finalize_req h r bh).
Proof. unfold finalize_req. hms. Qed.

Lemma hm_begin_commit b v : hm b (begin_commit v).
Proof. unfold begin_commit. hms; [apply hm_start_timer|]. hdif; [apply hm_finalize_req|hms]. Qed.

Lemma hm_reset h r : hm false (reset h r).
Proof. unfold reset. hms. apply hm_cancel. Qed.

Lemma hm_set_hr b h r : hm b (set_hr h r).
Proof. unfold set_hr. hms. Qed.

Lemma hm_advance_round b : hm b advance_round.
Proof.
  assert (H : hm true advance_round).
  { apply hm_never_go.
    - unfold advance_round. hms; [apply hm_reset|apply hm_set_hr|apply hm_send_entrance].
    - unfold advance_round. apply never_go_withS. intros s0. do 2 apply never_go_bind. apply never_go_send_entrance. }
  destruct b; [exact H|apply hm_weaken, H].
Qed.

Lemma hm_advance_height b : hm b advance_height.
Proof.
  assert (H : hm true advance_height).
  { apply hm_never_go.
    - unfold advance_height. hms; [apply hm_reset|apply hm_set_hr|apply hm_send_entrance].
    - unfold advance_height. apply never_go_withS. intros s0. do 3 apply never_go_bind. apply never_go_send_entrance. }
  destruct b; [exact H|apply hm_weaken, H].
Qed.

(** ** Handlers *)
Lemma hm_thresholds b v k : (forall mn mj, hm b (k mn mj)) -> hm b (thresholds v k).
Proof. intros H. unfold thresholds. repeat hdif; hms. apply H. Qed.

Lemma hm_commit_or_advance b v : hm b (match pcm v with [] => advance_round | _ => begin_commit v end).
Proof. hdif; [apply hm_advance_round|apply hm_begin_commit]. Qed.

Lemma hm_handle_proposal_view b v : hm b (handle_proposal_view v).
Proof.
  unfold handle_proposal_view. apply hm_thresholds. intros mn mj.
  hdif.
  { hms; [apply hm_cancel|]. hdif; [apply hm_commit_or_advance|]. hms; [apply hm_start_timer|apply hm_req_decide]. }
  hdif.
  { hms; [apply hm_cancel|apply hm_req_decide]. }
  hdif.
  { hms; [apply hm_cancel|]. cbv zeta. hdif; hms; [apply hm_req_choose|apply hm_start_timer|apply hm_req_consider]. }
  hms. hdif; hms. cbv zeta. hdif; hms. hdif; hms. apply hm_req_consider.
Qed.

Lemma hm_handle_prevote_view b v : hm b (handle_prevote_view v).
Proof.
  unfold handle_prevote_view. apply hm_thresholds. intros mn mj. hms. cbv zeta.
  hdif.
  { hms; [apply hm_cancel|]. hdif; [apply hm_commit_or_advance|]. hms; [apply hm_start_timer|apply hm_req_decide]. }
  hdif; hms. hdif; hms; [apply hm_cancel|apply hm_req_decide|apply hm_start_timer].
Qed.

Lemma hm_handle_precommit_view b v : hm b (handle_precommit_view v).
Proof.
  unfold handle_precommit_view. apply hm_thresholds. intros mn mj. hms.
  hdif; hms. hdif.
  - hdif; [apply hm_advance_round|]. hms; [apply hm_cancel|apply hm_begin_commit].
  - hdif; [apply hm_advance_round|]. hms. apply hm_start_timer.
Qed.

Lemma hm_handle_commit_wait_view b v : hm b (handle_commit_wait_view v).
Proof.
  unfold handle_commit_wait_view. hms. hdif; hms. hdif; hms. hdif; hms. hdif; hms. apply hm_finalize_req.
Qed.

Lemma hm_handle_jump_ahead b j : hm b (handle_jump_ahead j).
Proof. unfold handle_jump_ahead. hms. destruct j as [jh jr]. hdif; hms. hdif; hms. apply hm_advance_round. Qed.

Lemma hm_view_tail b v ja : hm b (view_tail v ja).
Proof. unfold view_tail. hms; [hdif; hms|]. hdif; hms. apply hm_handle_jump_ahead. Qed.

Lemma hm_vrv_or_panic b k : (forall v, hm b (k v)) -> hm b (vrv_or_panic k).
Proof. intros H. unfold vrv_or_panic. hms. hdif; hms. apply H. Qed.

Lemma hm_handle_timer_elapsed b : hm b handle_timer_elapsed.
Proof.
  unfold handle_timer_elapsed. hms. cbv zeta.
  hdif. { hms; [apply hm_vrv_or_panic; intros; apply hm_req_choose|apply hm_cancel]. }
  hdif. { hms; [apply hm_vrv_or_panic; intros; apply hm_req_decide|apply hm_cancel]. }
  hdif. { hms; [apply hm_cancel|apply hm_advance_round]. }
  hdif; hms; [apply hm_cancel|]. hdif; hms. apply hm_advance_height.
Qed.

Lemma hm_handle_height_committed b : hm b handle_height_committed.
Proof.
  unfold handle_height_committed. hms; [apply hm_cancel|]. cbv zeta.
  hdif; hms. hdif; hms. hdif; hms. apply hm_advance_height.
Qed.

Lemma hm_handle_finalization b h r bh vs ash : hm b (handle_finalization h r bh vs ash).
Proof.
  unfold handle_finalization. hdif; hms. cbv zeta. hdif; hms. hdif; hms. apply hm_advance_height.
Qed.

Lemma hm_handle_block_data b h r d : hm b (handle_block_data h r d).
Proof.
  unfold handle_block_data. hms. hdif; hms. hdif; hms. apply hm_vrv_or_panic. intros v. cbv zeta.
  hdif; hms. hdif; hms. apply hm_req_consider.
Qed.

Lemma hm_suspend b m v ja : hm b m -> hm b (suspend_with_tail m v ja).
Proof.
  intros H s. destruct (H s) as (A1 & A2 & A3 & A4 & A5). unfold suspend_with_tail, R, st, fl, ou in *.
  destruct (m s) as [[s1 o1] f1]. simpl in *.
  destruct f1; simpl; try (refine (conj A1 (conj A2 (conj A3 (conj A4 _)))); intros ? X; discriminate X).
  - destruct (hm_view_tail b v ja s1) as (B1 & B2 & B3 & B4 & B5). unfold st, fl, ou in *.
    destruct (view_tail v ja s1) as [[s2 o2] f2]. simpl in *.
    apply R_mk.
    + intros E. rewrite existsb_app. rewrite (B1 E). apply orb_true_r.
    + eapply cmrel_trans; eauto.
    + congruence.
    + apply Forall_app. split; assumption.
    + intros Hb E. eapply keep_trans; [apply A5; auto|apply B5; auto].
Qed.

Lemma hm_handle_view_update b v ja : hm b (handle_view_update v ja).
Proof.
  unfold handle_view_update. hms. hdif.
  { hdif; hms. apply hm_handle_jump_ahead. }
  hdif; hms. hdif; hms. hdif; hms. cbv zeta. apply hm_suspend.
  hdif; [apply hm_handle_proposal_view|]. hdif; [apply hm_handle_prevote_view|].
  hdif; [apply hm_handle_precommit_view|]. hdif; [apply hm_handle_commit_wait_view|hms].
Qed.

(** handlers run on a round entrance response (they open the channels of the new round) *)
Lemma hm_enter_round h r f : f <> Susp -> hm false (enter_round h r f).
Proof. intros Hf. unfold enter_round. hms. hdif; hms. hdif; hms. apply hm_stop. exact Hf. Qed.

Lemma hm_emit_ph d : hm false (emit (fun eh er => OEmitPH eh er d)).
Proof. unfold emit. hms. hdif; hms. destruct p. hms. Qed.

Lemma hm_begin_round_live v : hm false (begin_round_live v).
Proof.
  unfold begin_round_live. hdif; hms. hdif.
  { hms; [apply hm_req_consider|apply hm_start_timer]. }
  hdif; hms. hdif. { hms. apply hm_req_decide. }
  hdif; hms. hdif; [apply hm_advance_round|]. hms. apply hm_begin_commit.
Qed.

Lemma hm_init_after_vrv v : hm false (init_after_vrv v).
Proof.
  unfold init_after_vrv. hms; [apply hm_reset|..].
  - hdif; hms. hdif; hms.
  - cbv zeta. hdif; hms. hdif; hms.
  - cbv zeta. hdif; hms. apply hm_emit_ph.
  - apply hm_enter_round. discriminate.
  - apply hm_begin_round_live.
Qed.

Lemma hm_init_after_ch bh h pr : hm false (init_after_ch bh h pr).
Proof. unfold init_after_ch. hms; [apply hm_reset|apply hm_finalize_req]. Qed.

Lemma hm_advance_after_vrv v : hm false (advance_after_vrv v).
Proof. unfold advance_after_vrv. hms; [apply hm_enter_round; discriminate|apply hm_begin_round_live]. Qed.

Lemma hm_advance_after_ch bh h pr : hm false (advance_after_ch bh h pr).
Proof. unfold advance_after_ch. hms. apply hm_finalize_req. Qed.

Lemma R_resume m tail s : hm false m -> R false (set_run Idle s) (resume_adv m tail s).
Proof.
  intros H. destruct (H (set_run Idle s)) as (A1 & A2 & A3 & A4 & A5). unfold resume_adv, R, st, fl, ou in *.
  destruct (m (set_run Idle s)) as [[s1 o1] f1]. simpl in *.
  destruct f1; simpl; try (refine (conj A1 (conj A2 (conj A3 (conj A4 _)))); intros X; discriminate X).
  - destruct tail as [[v ja]|]; [|refine (conj A1 (conj A2 (conj A3 (conj A4 _)))); intros X; discriminate X].
    destruct (hm_view_tail false v ja s1) as (B1 & B2 & B3 & B4 & B5). unfold st, fl, ou in *.
    destruct (view_tail v ja s1) as [[s2 o2] f2]. simpl in *.
    refine (conj _ (conj _ (conj _ (conj _ _)))).
    + intros E. rewrite existsb_app. rewrite (B1 E). apply orb_true_r.
    + exact (cmrel_trans _ _ _ _ _ A2 B2).
    + congruence.
    + apply Forall_app. split; assumption.
    + discriminate.
Qed.
