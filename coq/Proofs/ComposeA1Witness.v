(** End-to-end non-vacuity of the composed agreement theorem (Proofs/ComposeA1.v): two mirrors and
    three state machines whose emissions are the correct validators' signatures in [V].

    Genesis set [evs]: keys 10..13, power 1 each.  Keys 10, 11, 12 are correct: the engine of each
    is the state machine run [hist1] (prevote and precommit for block [1] in (1,0)).  Key 13 is
    Byzantine and precommits both [1] and [2] in (1,0).  Mirror A commits header [1] at height 1
    from the precommits of 10, 11, 12, mirror B from those of 11, 12, 13. *)
From Coq Require Import List NArith Bool String.
From GV Require Import Base.Ints Gen.Math Gen.Kernel Model.Network Model.Mirror
  Proofs.Thresholds Proofs.Network Proofs.MirrorAuth Proofs.MirrorChain
  Proofs.MirrorCert Proofs.MirrorAgree Proofs.MirrorAgreeWitness.
From GV Require Import Gen.StepSM Model.StateMachine Proofs.SMInvActs Proofs.SMWitness Proofs.ComposeA1.
Import ListNotations.
Local Open Scope N_scope.

Definition hist1 : list event :=
  [ EvStart; EvRERespVRV (mkv 1 0 1 (vs_of 0 0 [] []) []); EvTimer; EvAnswer 0 [1];
    EvView (mkv 1 0 2 (vs_of 30 0 [([1], 30)] []) []) None; EvAnswer 0 [1] ].

Definition e2e_runs (key : N) : list event := hist1.
Definition e2e_sg (key : N) : bool := true.
Definition e2e_B (h : N) : list N := [13].

Definition e2e_V : list sigd :=
  emitted_votes 10 (run_events (sm0 true) hist1) ++
  emitted_votes 11 (run_events (sm0 true) hist1) ++
  emitted_votes 12 (run_events (sm0 true) hist1) ++
  [SVote 13 KPrecommit 1 0 [1]; SVote 13 KPrecommit 1 0 [2]].

Definition opsC : list op :=
  [ OpPH (propose hA 0 [5]); OpPrecommit (vmsg_of KPrecommit 1 0 [7] [1] [(1, 11); (2, 12); (3, 13)]) ].
Definition mC : kstate := get (run_ops (init_state 1 evs) opsC).

Lemma e2e_V_value :
  e2e_V = [SVote 10 KPrevote 1 0 [1]; SVote 10 KPrecommit 1 0 [1];
           SVote 11 KPrevote 1 0 [1]; SVote 11 KPrecommit 1 0 [1];
           SVote 12 KPrevote 1 0 [1]; SVote 12 KPrecommit 1 0 [1];
           SVote 13 KPrecommit 1 0 [1]; SVote 13 KPrecommit 1 0 [2]].
Proof. vm_compute. reflexivity. Qed.

Lemma e2e_from_machines : V_from_machines e2e_V e2e_B e2e_sg e2e_runs.
Proof.
  intros key kind h r t _ Hc. rewrite e2e_V_value. intros H.
  repeat (destruct H as [H|H];
          [inversion H; subst; try (exfalso; apply Hc; left; reflexivity); vm_compute; tauto|]).
  destruct H.
Qed.

Lemma certs_mA : cert_sigs mA = [SVote 10 KPrecommit 1 0 [1]; SVote 11 KPrecommit 1 0 [1]; SVote 12 KPrecommit 1 0 [1]].
Proof. vm_compute. reflexivity. Qed.
Lemma certs_mC : cert_sigs mC = [SVote 11 KPrecommit 1 0 [1]; SVote 12 KPrecommit 1 0 [1]; SVote 13 KPrecommit 1 0 [1]].
Proof. vm_compute. reflexivity. Qed.

(* (no [vm_compute in H] / [inversion] on evaluated mirror states: their conversions are re-checked
   lazily at Qed) *)
Lemma single_entry {A B C : Type} (a a' : A) (b : B) (c : C) (p : B * C) :
  In (a, (b, c)) [(a', p)] -> a = a' /\ c = snd p.
Proof. intros [H|[]]. inversion H. split; reflexivity. Qed.

(** all hypotheses of [mirrors_agree_same_round_composed] hold of mirrors A and C at height 1; the
    Byzantine key equivocates in V; the two certificates differ *)
Example composed_hypotheses_satisfiable :
  reachable_b 1 evs mA /\ reachable_b 1 evs mC /\
  cert_sigs_in e2e_V mA /\ cert_sigs_in e2e_V mC /\ hash_binds_next mA mC /\
  V_from_machines e2e_V e2e_B e2e_sg e2e_runs /\
  (forall h' x1 cp1 x2 cp2, h' <= 1 ->
     In (h', (x1, cp1)) (st_hdrs mA) -> In (h', (x2, cp2)) (st_hdrs mC) ->
     cp_round cp1 = cp_round cp2 /\ byz_bound (chain_vals 1 evs (st_hdrs mA) h') (e2e_B h')) /\
  commits mA = [(1, [1], 0)] /\ commits mC = [(1, [1], 0)] /\ cert_sigs mA <> cert_sigs mC /\
  In (SVote 13 KPrecommit 1 0 [1]) e2e_V /\ In (SVote 13 KPrecommit 1 0 [2]) e2e_V.
Proof.
  assert (E1 : run_ops (init_state 1 evs) opsA = Ok mA) by (vm_compute; reflexivity).
  assert (E2 : run_ops (init_state 1 evs) opsC = Ok mC) by (vm_compute; reflexivity).
  split; [eapply run_ops_reachable; [apply rb_init| |exact E1]; apply ops_bounded; vm_compute; reflexivity|].
  split; [eapply run_ops_reachable; [apply rb_init| |exact E2]; apply ops_bounded; vm_compute; reflexivity|].
  split.
  { apply cert_sigs_covers. intros sg H. rewrite e2e_V_value. rewrite certs_mA in H.
    repeat (destruct H as [H|H]; [subst sg; simpl; tauto|]). destruct H. }
  split.
  { apply cert_sigs_covers. intros sg H. rewrite e2e_V_value. rewrite certs_mC in H.
    repeat (destruct H as [H|H]; [subst sg; simpl; tauto|]). destruct H. }
  split; [apply hash_bindsb_ok; vm_compute; reflexivity|].
  split; [exact e2e_from_machines|].
  split.
  { intros h' x1 cp1 x2 cp2 _ I1 I2.
    assert (EA : st_hdrs mA = [(1, snd (top_entry mA))]) by (vm_compute; reflexivity).
    assert (EC : st_hdrs mC = [(1, snd (top_entry mC))]) by (vm_compute; reflexivity).
    rewrite EA in I1. rewrite EC in I2.
    apply single_entry in I1. apply single_entry in I2. destruct I1 as [-> ->]. destruct I2 as [_ ->].
    split; [vm_compute; reflexivity|]. apply byz_boundb_ok. vm_compute. reflexivity. }
  split; [vm_compute; reflexivity|]. split; [vm_compute; reflexivity|].
  split; [vm_compute; discriminate|].
  rewrite e2e_V_value. split; simpl; tauto.
Qed.
