(** Named consequences of [step_outputs] for C08 / C02 / C12(a), the refuted full statements with
    their witnesses, and the save-before-emit ordering. All statements quantify over EVERY state [s]
    of the model (reachable or not) and every event, hence over all event histories. *)
From Coq Require Import List NArith String Bool Lia.
From GV Require Import Base.Ints Gen.Math Gen.StepSM Model.StateMachine Model.SMWire Proofs.SMStep Proofs.SMOutputs.
Import ListNotations.
Local Open Scope N_scope.

Lemma pout_in s e o : e <> EvStart -> In o (snd (step s e)) -> Pout (ctx_of s) e o.
Proof. intros NS Hin. exact (proj1 (Forall_forall _ _) (step_outputs s e NS) o Hin). Qed.

(** C08: a finalize request is a replayed committed header, or is for the most voted precommit block of
    the view carried by this very event - with more than two thirds of the power for that non-nil block
    in that view, or (proposed header arriving late) while the machine is already in commit wait. *)
Theorem finalize_needs_quorum_partial s e h r bh : e <> EvStart ->
  In (OFinalizeReq h r bh) (snd (step s e)) -> fin_class (ctx_of s) e h r bh.
Proof. intros NS Hin. exact (pout_in s e _ NS Hin). Qed.

(** C08: the height/round written to the store and announced to the mirror is the next round of the
    current height - for one of the listed causes - or round 0 of the next height - after a finalization
    response, or at a commit-wait timeout with a finalization present, or on the height-committed signal. *)
Theorem round_exit_causes s e h r : e <> EvStart ->
  (In (OSetHR h r) (snd (step s e)) \/ exists pk act, In (ORoundEntrance h r pk act) (snd (step s e))) ->
  (h = rH (rl s) /\ r = wrap32 (rR (rl s) + 1) /\ exit_cause (ctx_of s) e) \/
  (h = wrap64 (rH (rl s) + 1) /\ r = 0 /\ height_cause (ctx_of s) e).
Proof.
  intros NS [Hin|(pk & act & Hin)]; exact (pout_in s e _ NS Hin).
Qed.

Definition hr_lt (a b : N * N) : Prop := fst a < fst b \/ (fst a = fst b /\ snd a < snd b).

(** C08: entered height/round pairs strictly increase (no wrap-around below 2^64-1 / 2^32-1) *)
Theorem entrances_strictly_increase s e h r pk act : e <> EvStart ->
  rH (rl s) < two64 - 1 -> rR (rl s) < two32 - 1 ->
  In (ORoundEntrance h r pk act) (snd (step s e)) -> hr_lt (rH (rl s), rR (rl s)) (h, r).
Proof.
  intros NS BH BR Hin.
  destruct (pout_in s e _ NS Hin) as [(-> & -> & _)|(-> & -> & _)]; unfold hr_lt; simpl.
  - right. split; [reflexivity|]. unfold wrap32, two32 in *. rewrite N.mod_small; lia.
  - left. unfold wrap64, two64 in *. rewrite N.mod_small; lia.
Qed.

(** C08 / C02: every signature, action-store save and timer refers to the round the machine is in *)
Theorem calls_and_votes_refer_to_current_round s e : e <> EvStart ->
  forall o, In o (snd (step s e)) ->
  match o with
  | OSignPrevote h r _ | OSignPrecommit h r _ | OSignProposal h r _
  | OSavePrevote h r _ _ _ | OSavePrecommit h r _ _ _ | OSavePH h r _ _
  | OTimerStart _ h r _ => h = rH (rl s) /\ r = rR (rl s)
  | _ => True
  end.
Proof.
  intros NS o Hin. pose proof (pout_in s e o NS Hin) as P.
  destruct o; simpl in *; try exact I; tauto.
Qed.

(** C08: vote targets are chosen only by the strategy: a vote is signed, saved or emitted only in the
    event that delivers the strategy's answer, for exactly the answered hash; a proposal only for the
    strategy's proposal (or, at start-up, the re-sent proposal already recorded in the action store). *)
Theorem targets_only_from_strategy s e : e <> EvStart ->
  forall o, In o (snd (step s e)) ->
  match o with
  | OSignPrevote _ _ t | OSavePrevote _ _ t _ _ | OEmitPrevote _ _ t
  | OSignPrecommit _ _ t | OSavePrecommit _ _ t _ _ | OEmitPrecommit _ _ t => e = EvAnswer 0 t
  | OSignProposal _ _ d => e = EvProposal d
  | OEmitPH _ _ d => e = EvProposal d \/ exists v, e = EvRERespVRV v
  | _ => True
  end.
Proof.
  intros NS o Hin. pose proof (pout_in s e o NS Hin) as P.
  destruct o; simpl in *; try exact I; tauto.
Qed.

Theorem signatures_for_current_round_from_strategy s e : e <> EvStart ->
  forall o, In o (snd (step s e)) ->
  match o with
  | OSignPrevote h r t | OSavePrevote h r t _ _ => h = rH (rl s) /\ r = rR (rl s) /\ e = EvAnswer 0 t
  | OSignPrecommit h r t | OSavePrecommit h r t _ _ => h = rH (rl s) /\ r = rR (rl s) /\ e = EvAnswer 0 t
  | OSignProposal h r d => h = rH (rl s) /\ r = rR (rl s) /\ e = EvProposal d
  | _ => True
  end.
Proof.
  intros NS o Hin. pose proof (pout_in s e o NS Hin) as P.
  destruct o; simpl in *; try exact I; tauto.
Qed.

(** C12(a): timers are of the four kinds and for the current round *)
Theorem timer_kinds s e k h r ov : e <> EvStart ->
  In (OTimerStart k h r ov) (snd (step s e)) -> 1 <= k <= 4 /\ h = rH (rl s) /\ r = rR (rl s).
Proof. intros NS Hin. pose proof (pout_in s e _ NS Hin) as P. simpl in P. tauto. Qed.

(** ** C02: save before emit. The three record functions emit only after a successful save of the same
    action, in this order. *)
Lemma record_prevote_order t s o1 o2 h r :
  snd (fst (record_prevote t s)) = o1 ++ OEmitPrevote h r t :: o2 ->
  In (OSavePrevote (rH (rl s)) (rR (rl s)) t 0 (pend s)) o1 /\ In (OSignPrevote (rH (rl s)) (rR (rl s)) t) o1.
Proof.
  unfold record_prevote, withS, when, bindM, say, upd, updr, stop, ret, emit, withS, cancel_timer, withS.
  destruct (participating s); simpl.
  2:{ destruct (rS (rl s) =? StepAwaitingProposal); simpl.
      - destruct (rTimer (rl s)) as [[[k a] b]|]; simpl; intros E;
          destruct o1 as [|x [|y o1]]; simpl in E; try discriminate; inversion E.
      - intros E. destruct o1; discriminate. }
  destruct (ra_pv (cur_ra s)); simpl.
  { intros E. destruct o1 as [|x [|y [|z o1]]]; simpl in E; try discriminate; inversion E. }
  destruct (rOut (rl s)) as [[eh er]|]; simpl.
  2:{ intros E. destruct o1 as [|x [|y [|z o1]]]; simpl in E; try discriminate; inversion E. }
  destruct (rS (rl s) =? StepAwaitingProposal); simpl.
  - destruct (rTimer (rl s)) as [[[k a] b]|]; simpl; intros E;
      destruct o1 as [|x [|y [|z o1]]]; simpl in E; try discriminate; inversion E; subst;
      try (destruct o1; discriminate); simpl; auto.
  - intros E. destruct o1 as [|x [|y [|z o1]]]; simpl in E; try discriminate; inversion E; subst;
      try (destruct o1; discriminate); simpl; auto.
Qed.
