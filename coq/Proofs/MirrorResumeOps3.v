(** C10 (crash at any point), continued: votes for a later round of the voting height, and the
    vote handler as a whole.  (The future-vote path skips entries without signatures,
    [signed_entries]: no guard on the message is needed.) *)
From Coq Require Import List NArith Arith Bool Lia String.
From GV Require Import Base.Ints Gen.Math Gen.Kernel Model.Mirror
  Proofs.Thresholds Proofs.MirrorAuth Proofs.MirrorNoop Proofs.MirrorChain Proofs.MirrorCert
  Proofs.MirrorTotal Proofs.MirrorRestart Proofs.MirrorLog
  Proofs.MirrorResumeWit Proofs.MirrorResumeLoad Proofs.MirrorResumeRT Proofs.MirrorResumeInv Proofs.MirrorResumeStart
  Proofs.MirrorResumeOps Proofs.MirrorResumeOps2.
Import ListNotations.
Local Open Scope N_scope.

(** * A write to one round-store cell of the voting height that changes no view *)
Lemma K_cell_write ih ivs s s2 r e' w :
  K ih ivs s ->
  k_vot s2 = k_vot s -> k_nxt s2 = k_nxt s -> k_com s2 = k_com s -> frame_eq s s2 ->
  st_log s2 = st_log s ++ [w] -> ends_hdr [w] = false -> stores_of s2 = apply_wr (stores_of s) w ->
  stores_of s2 = mk_stores (sr_nhr (stores_of s)) (sr_hdrs (stores_of s))
                   (rs_set (sr_rounds (stores_of s)) (v_h (k_vot s)) r e') (sr_replayed (stores_of s)) ->
  rentry_good ih (vs_keys (chain_vals ih ivs (st_hdrs s) (v_h (k_vot s)))) (st_hdrs s) (v_h (k_vot s)) r e' ->
  (pc_ne (st_rounds s) (v_h (k_vot s)) r -> exists pkh en l, re_pc e' = Some (pkh, en :: l)) ->
  r <> v_r (k_vot s) -> r <> v_r (k_nxt s) ->
  K ih ivs s2 /\ pref ih ivs s s2.
Proof.
  intros (HI&HP&(Xc&Xn&(N1v&N1n)&Xk&Xs)) Ev En Ec F Hlog Hw Hst Est Hgood Hpc Hrv Hrn.
  pose proof (cinv_nhr _ _ _ (proj1 HI)) as Hnhr.
  destruct (com_below _ _ _ (proj1 HI)) as [Hlt _].
  assert (S2 : SI ih ivs (stores_of s2)).
  { rewrite Est. eapply SI_set_cell; [exact Xs|exact Hnhr|lia|intros _; exact Hgood|intros E; lia]. }
  assert (Hcell : forall h0 r0, pc_ne (st_rounds s) h0 r0 -> pc_ne (st_rounds s2) h0 r0).
  { intros h0 r0 Hc0. assert (Er2 : st_rounds s2 = rs_set (st_rounds s) (v_h (k_vot s)) r e') by (apply (f_equal sr_rounds) in Est; exact Est).
    unfold pc_ne. rewrite Er2, rs_entry_set.
    destruct ((v_h (k_vot s) =? h0) && (r =? r0)) eqn:E; [|exact Hc0].
    apply andb_true_iff in E as [A B]. apply N.eqb_eq in A, B. subst h0 r0. apply Hpc. exact Hc0. }
  split; [|eapply pref_one; [exact Hlog|exact Hst|exact Xs|exact S2|
             eapply adv_sadv; [exact (proj1 HI)|eapply cinv_frame; [exact F|exact (proj1 HI)]|apply adv_frame; exact F]|exact Hw]].
  split; [eapply INV_frame_rounds; eassumption|].
  split; [eapply pok_frame; [rewrite Ev; reflexivity|rewrite En; reflexivity|exact HP]|].
  split; [eapply comvals_frame; eassumption|].
  split; [unfold ne_state; rewrite Ev, En, Ec; exact Xn|].
  split.
  { unfold n1. rewrite Ev, En. split; intros Hne; apply Hcell; [apply N1v|apply N1n]; exact Hne. }
  split; [|exact S2].
  split; [eapply kok0_frame; [rewrite Ev; reflexivity|rewrite En; reflexivity|exact (proj1 Xk)]|].
  destruct Xk as [_ [Yv Yn]].
  assert (Er2 : st_rounds s2 = rs_set (st_rounds s) (v_h (k_vot s)) r e') by (apply (f_equal sr_rounds) in Est; exact Est).
  assert (Hrp2 : st_replayed s2 = st_replayed s) by (apply (f_equal sr_replayed) in Est; exact Est).
  assert (Hother : forall w0, r <> v_r w0 ->
            yview (st_rounds s) (st_replayed s) w0 -> yview (st_rounds s2) (st_replayed s2) w0).
  { intros w0 Hne Hw0. assert (Hcw : ((v_h (k_vot s) =? v_h w0) && (r =? v_r w0)) = false).
    { destruct (N.eqb_spec r (v_r w0)); [contradiction|apply andb_false_r]. }
    rewrite Er2, Hrp2. eapply yview_mono; [| | | |exact Hw0]; rewrite ?rs_entry_set, ?Hcw; try reflexivity; intros x Hx; exact Hx. }
  unfold Y. rewrite Ev, En. split; apply Hother; assumption.
Qed.

(** a vote for a "future" round of the voting height is for neither the voting nor the next round *)
Lemma find_view_future pos h r vid :
  find_view pos h r = Ok (vid, ViewFuture) -> h = kpos_Voting_Height pos ->
  r <> kpos_Voting_Round pos /\ r <> wrap32 (kpos_Voting_Round pos + 1).
Proof.
  unfold find_view. cbv zeta. intros E Hh. subst h. rewrite N.eqb_refl in E.
  destruct (N.eqb_spec r (kpos_Voting_Round pos)); [inversion E|].
  destruct (N.eqb_spec r (wrap32 (kpos_Voting_Round pos + 1))); [inversion E|]. split; assumption.
Qed.

(** * The merge of a future vote message into the stored collection *)
Lemma stored_full_good keys kind h r stored :
  entries_good keys kind h r stored ->
  let full : pmap := map (fun x => (fst x, fst (fst (merge_sparse kind h r (fst x) keys [] (snd x))))) stored in
  auth_pmap keys kind h r full /\ ne_pmap full.
Proof.
  intros Hg full. split; intros t p Hin; apply in_map_iff in Hin as ([t0 sigs]&E&Hx); cbn [fst snd] in E; inversion E; subst t p.
  - apply merge_sparse_auth. apply auth_proof_nil.
  - unfold entries_good in Hg. rewrite Forall_forall in Hg. destruct (Hg _ Hx) as [Hne Hall]. cbn [fst snd] in Hne, Hall.
    unfold merge_sparse. destruct (merge_sigs_admissible kind h r t0 keys sigs [] Hall) as (p'&Em&Hp').
    rewrite Em. cbn [fst]. apply Hp'. exact Hne.
Qed.

Lemma future_fold_mono kind h r keys (cond : pmap -> bytes * list ssig -> bool) l :
  forall fm allv inc fm' inc',
  fold_left (fun acc x =>
      let '(fm, allv, inc) := acc in
      let base := match pm_get fm (fst x) with Some p => p | None => [] end in
      if cond fm x then
        let '(p', av, i) := merge_sparse kind h r (fst x) keys base (snd x) in
        (pm_set fm (fst x) p', allv && av, inc || i)
      else (fm, false, inc)) l (fm, allv, inc) = (fm', true, inc') -> allv = true.
Proof.
  induction l as [|[t sigs] l IH]; intros fm allv inc fm' inc'; cbn [fold_left].
  - intros E; inversion E; reflexivity.
  - cbv zeta. cbn [fst snd]. destruct (cond fm (t, sigs)).
    + destruct (merge_sparse kind h r t keys _ sigs) as [[p' av] i].
      intros Hf. apply IH in Hf. apply andb_true_iff in Hf as [Hf _]. exact Hf.
    + intros Hf. apply IH in Hf. discriminate.
Qed.

Lemma future_fold_good kind h r keys (cond : pmap -> bytes * list ssig -> bool) l :
  forall fm allv inc fm' inc',
  fold_left (fun acc x =>
      let '(fm, allv, inc) := acc in
      let base := match pm_get fm (fst x) with Some p => p | None => [] end in
      if cond fm x then
        let '(p', av, i) := merge_sparse kind h r (fst x) keys base (snd x) in
        (pm_set fm (fst x) p', allv && av, inc || i)
      else (fm, false, inc)) l (fm, allv, inc) = (fm', true, inc') ->
  proofs_nonempty l -> auth_pmap keys kind h r fm -> ne_pmap fm ->
  auth_pmap keys kind h r fm' /\ ne_pmap fm' /\ (l <> [] \/ fm <> [] -> fm' <> []).
Proof.
  induction l as [|[t sigs] l IH]; intros fm allv inc fm' inc'; cbn [fold_left].
  - intros E; inversion E; subst. intros _ Ha Hn. split; [exact Ha|]. split; [exact Hn|].
    intros [H|H]; [contradiction|exact H].
  - intros Hf Hne Ha Hn. cbv zeta in Hf. cbn [fst snd] in Hf.
    assert (Hne' : proofs_nonempty l) by (intros t' s' Hin; apply (Hne t' s'); right; exact Hin).
    assert (Hsigs : sigs <> []) by (apply (Hne t sigs); left; reflexivity).
    destruct (cond fm (t, sigs)).
    + destruct (merge_sparse kind h r t keys _ sigs) as [[p' av] i] eqn:Em.
      pose proof (future_fold_mono _ _ _ _ _ _ _ _ _ _ _ Hf) as Hav.
      apply andb_true_iff in Hav as [_ Hav]. subst av.
      destruct (IH _ _ _ _ _ Hf Hne') as (Ha'&Hn'&Hnn).
      * apply pm_set_auth; [exact Ha|].
        match type of Em with merge_sparse _ _ _ _ _ ?b _ = _ =>
          pose proof (merge_sparse_auth kind h r t keys b sigs) as Hm end.
        rewrite Em in Hm. cbn [fst] in Hm. apply Hm.
        destruct (pm_get fm t) eqn:Eg; [eapply pm_get_auth; eassumption|apply auth_proof_nil].
      * unfold merge_sparse in Em.
        destruct (merge_sigs kind h r t keys _ sigs) as [p0 a0] eqn:Es. inversion Em; subst p0 a0.
        apply pm_set_ne; [exact Hn|]. eapply merge_sigs_true_nonempty; eassumption.
      * split; [exact Ha'|]. split; [exact Hn'|]. intros _. apply Hnn. right. apply pm_set_nonempty.
    + apply future_fold_mono in Hf. discriminate.
Qed.

Lemma K_handle_future ih ivs kind s m s' res :
  (kind = KPrevote \/ kind = KPrecommit) -> K ih ivs s ->
  (vm_h m = v_h (k_vot s) -> vm_r m <> v_r (k_vot s) /\ vm_r m <> v_r (k_nxt s)) ->
  handle_future_votes kind s m = Ok (s', res) -> K ih ivs s' /\ pref ih ivs s s'.
Proof.
  intros Hk HK Hfut. pose proof (signed_entries_nonempty (vm_proofs m)) as Hne.
  pose proof HK as (HI&_&(_&_&_&_&Xs)).
  pose proof (cinv_nhr _ _ _ (proj1 HI)) as Hnhr.
  destruct (vot_vals _ _ _ (proj1 HI)) as [Evv _].
  assert (Hsame : forall r0, Ok (s, r0) = Ok (s', res) -> K ih ivs s' /\ pref ih ivs s s')
    by (intros r0 E; inversion E; subst; split; [exact HK|apply pref_refl; exact Xs]).
  unfold handle_future_votes.
  destruct (vm_h m =? v_h (k_vot s)) eqn:Eh; [|apply Hsame]. apply N.eqb_eq in Eh.
  destruct (vs_keys (v_vals (k_vot s))) as [|k0 kl] eqn:Ekeys; [apply Hsame|]. rewrite <- Ekeys.
  destruct (negb (bytes_eqb _ _)); [apply Hsame|].
  set (e := rs_entry (st_rounds s) (vm_h m) (vm_r m)).
  (* the stored entry of that round is good *)
  destruct Xs as (vh0&vr0&ch0&cr0&Hn&_&_&_&Hrounds&_).
  unfold stores_of in Hn; cbn [sr_nhr] in Hn. rewrite Hnhr in Hn. inversion Hn; subst vh0 vr0 ch0 cr0. clear Hn.
  pose proof (voting_entry_good ih ivs (stores_of s) (v_h (k_vot s)) Hrounds _ eq_refl (vm_r m)) as (G1&G2&G3).
  cbn [stores_of sr_hdrs sr_rounds] in G1, G2, G3. rewrite <- Evv, <- Eh in G1, G2. rewrite <- Eh in G3. fold e in G1, G2, G3.
  assert (Hstored : forall spkh stored, match coll_of e kind with Some c => c | None => (vm_pkh m, []) end = (spkh, stored) ->
            entries_good (vs_keys (v_vals (k_vot s))) kind (vm_h m) (vm_r m) stored).
  { intros spkh stored. unfold coll_of. destruct Hk as [->| ->]; cbn [N.eqb KPrevote KPrecommit Pos.eqb].
    - destruct (re_pv e) as [[a b]|]; intros E; inversion E; subst; [exact G1|constructor].
    - destruct (re_pc e) as [[a b]|]; intros E; inversion E; subst; [exact G2|constructor]. }
  destruct (match coll_of e kind with Some c => c | None => _ end) as [spkh stored] eqn:Ec.
  pose proof (stored_full_good _ _ _ _ _ (Hstored _ _ eq_refl)) as [Fa Fn]. cbv zeta in Fa, Fn.
  destruct (fold_left _ (signed_entries (vm_proofs m)) _) as [[full' allv] inc] eqn:Hf.
  destruct allv; cbn [negb]; [|apply Hsame].
  destruct inc; cbn [negb]; [|apply Hsame].
  assert (Hnn : signed_entries (vm_proofs m) <> []).
  { intros E. rewrite E in Hf. cbn [fold_left] in Hf. inversion Hf. }
  destruct (future_fold_good kind (vm_h m) (vm_r m) (vs_keys (v_vals (k_vot s)))
              (fun fm x => bytes_eqb spkh (vm_pkh m) || negb (match pm_get fm (fst x) with Some _ => true | None => false end))
              _ _ _ _ _ _ Hf Hne Fa Fn) as (Fa'&Fn'&Fnn).
  set (coll := (vm_pkh m, map (fun x : bytes * proof => (fst x, as_sparse (snd x))) full')).
  assert (Hcoll : coll_good (vs_keys (v_vals (k_vot s))) kind (vm_h m) (vm_r m) (Some coll))
    by (unfold coll, coll_good; apply sparse_entries_good; assumption).
  assert (Hcollne : exists en l, map (fun x : bytes * proof => (fst x, as_sparse (snd x))) full' = en :: l).
  { destruct full' as [|x0 fl]; [exfalso; apply Fnn; [left; exact Hnn|reflexivity]|]. cbn [map]. eexists; eexists; reflexivity. }
  intros E; inversion E; subst s' res. clear E.
  set (e' := if kind =? KPrevote then mk_rentry (re_phs e) (Some coll) (re_pc e)
             else mk_rentry (re_phs e) (re_pv e) (Some coll)).
  apply (K_cell_write ih ivs s _ (vm_r m) e' (if kind =? KPrevote then WPV (vm_h m) (vm_r m) coll else WPC (vm_h m) (vm_r m) coll) HK);
    try (destruct (kind =? KPrevote); reflexivity).
  - destruct (kind =? KPrevote); apply frame_set_rounds.
  - rewrite <- Eh. unfold e', e, rs_overwrite_pv, rs_overwrite_pc, stores_of. destruct (kind =? KPrevote); reflexivity.
  - rewrite <- Evv, <- Eh. unfold e'.
    destruct Hk as [->| ->]; cbn [N.eqb KPrevote KPrecommit Pos.eqb]; unfold rentry_good; cbn [re_pv re_pc re_phs].
    + split; [exact Hcoll|]. split; [exact G2|exact G3].
    + split; [exact G1|]. split; [exact Hcoll|exact G3].
  - rewrite <- Eh. fold e. intros (pkh&en&l&Epc). unfold e'. destruct (kind =? KPrevote); cbn [re_pc].
    + eexists; eexists; eexists; exact Epc.
    + destruct Hcollne as (en'&l'&Ecl). unfold coll. rewrite Ecl. eexists; eexists; eexists; reflexivity.
  - exact (proj1 (Hfut Eh)).
  - exact (proj2 (Hfut Eh)).
Qed.

(** * The vote handler *)
Lemma K_handle_votes ih ivs kind s m s' res :
  (kind = KPrevote \/ kind = KPrecommit) -> K ih ivs s ->
  handle_votes kind s m = Ok (s', res) -> K ih ivs s' /\ pref ih ivs s s'.
Proof.
  intros Hk HK. pose proof HK as (HI&_&(_&_&_&_&Xs)).
  assert (Hsame : forall r0, Ok (s, r0) = Ok (s', res) -> K ih ivs s' /\ pref ih ivs s s')
    by (intros r0 E; inversion E; subst; split; [exact HK|apply pref_refl; exact Xs]).
  unfold handle_votes, bind.
  destruct (vm_proofs m) as [|vp0 vpl] eqn:Hp; [apply Hsame|].
  rewrite <- Hp. clear Hp vp0 vpl.
  destruct (find_view _ _ _) as [[vid st]|] eqn:Hfv; [|discriminate].
  destruct (st =? ViewFuture) eqn:Hfu.
  { apply K_handle_future; try assumption. intros Eh. apply N.eqb_eq in Hfu. subst st.
    destruct (find_view_future _ _ _ _ Hfv Eh) as [A B]. cbn in A, B.
    destruct HI as ((_&_&_&_&Hnr&_)&_). rewrite Hnr. split; assumption. }
  destruct (st =? ViewFound) eqn:Hst; cbn [negb]; [|apply Hsame].
  apply N.eqb_eq in Hst. subst st.
  destruct (negb (bytes_eqb _ _)); [apply Hsame|].
  destruct (sigs_to_add _ _ _) as [|x0 l0] eqn:Hs; [apply Hsame|]. rewrite <- Hs. clear Hs.
  pose proof HI as (_&Ha&_).
  pose proof (build_updates_auth kind (get_view s vid) (sigs_to_add (view_votes kind (get_view s vid)) (vm_proofs m)
     (List.length (vs_keys (v_vals (get_view s vid))))) Hk (get_view_auth s vid Ha)) as Hb.
  pose proof (build_updates_ne kind (get_view s vid) (sigs_to_add (view_votes kind (get_view s vid)) (vm_proofs m)
     (List.length (vs_keys (v_vals (get_view s vid)))))) as Hbn.
  assert (Hbd : vid = ViewIDVoting \/ vid = ViewIDNextRound ->
                nd_pmap (fst (build_updates kind (get_view s vid) (sigs_to_add (view_votes kind (get_view s vid)) (vm_proofs m)
                   (List.length (vs_keys (v_vals (get_view s vid))))))) ).
  { intros Hv. apply build_updates_nd.
    pose proof HK as (_&_&(_&_&_&(_&(Yv&Yn))&_)).
    assert (Hy : yview (st_rounds s) (st_replayed s) (get_view s vid)).
    { unfold get_view. destruct Hv as [->| ->]; cbn; assumption. }
    destruct Hy as ((_&A)&(_&B)&_). unfold view_votes. destruct (kind =? KPrevote); assumption. }
  destruct (build_updates _ _ _) as [ups allv]. cbn [fst] in Hb, Hbn, Hbd.
  destruct ups as [|u ups'] eqn:Hu; [apply Hsame|]. rewrite <- Hu in *.
  assert (Hune : ups <> []) by (rewrite Hu; discriminate). clear Hu.
  destruct (apply_votes _ _ _ _ _ _) as [s2|] eqn:Happ; [|discriminate].
  intros E; inversion E; subst. eapply K_apply_votes; eassumption.
Qed.
