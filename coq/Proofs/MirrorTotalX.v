(** C09, kernel part, over the closure with crashes and restarts: totality of [step] / [xstep]
    (Model/Mirror.v) in every state reached by operations, crashes after ANY number of store writes of
    an operation, and clean restarts.

    Composition of
      - [reachable_g_K] (Proofs/MirrorResume.v): INV, tinv and the store invariant SI hold after every
        [xstep], crashes at every write prefix included;
      - [step_total] (Proofs/MirrorTotal.v): in a state satisfying INV and tinv a peer message returns Ok
        and a replayed header returns Ok or hits one of the two Panic sites of [handle_replay], each
        under its exact guard;
      - [startup_never_fails] (Proofs/MirrorResume.v): NewKernel comes up on the stores of such a state
        and on the stores a crash at any point of an admissible operation leaves behind.

    The closure is [reachable_g] (side conditions [wf_op]: [op_bounded], [step_adm] - those of
    MirrorTotal's [reachable_a] - and the MODEL-ONLY condition "the next validator set of an accepted /
    applied header lists a key").  Over [reachable_x] (the closure with [op_bounded] and [step_adm]
    alone) the restart clause is false in the model: [restart_total_over_reachable_x_refuted] below
    (Proofs/MirrorResumeWit.v [keys_guard_needed_in_model]: the model's [valset] keeps keys and powers in
    two lists of independent length; not replayable on the Go code).

    How [xstep] treats the crash of a panicking operation: [xstep s (XCrash k o)] is
    [bind (step s o) ...] - when [step s o] panics, the crash step panics AT THE SAME SITE (the process
    died in the handler, not in the crash the harness injects); when [step s o = Ok (s1, r)] the first
    [k] store writes of the operation land and NewKernel runs on the result. *)
From Coq Require Import List NArith Arith Bool Lia String.
From GV Require Import Base.Ints Gen.Math Gen.Kernel Model.Mirror
  Proofs.Thresholds Proofs.MirrorAuth Proofs.MirrorNoop Proofs.MirrorChain Proofs.MirrorCert
  Proofs.MirrorTotal Proofs.MirrorResumeWit Proofs.MirrorResumeInv Proofs.MirrorResumeOps
  Proofs.MirrorResume Proofs.MirrorResumeEx.
Import ListNotations.
Local Open Scope N_scope.

(** * The Panic site of a kernel operation, as a function of the state and the operation *)
Definition step_panic_site (s : kstate) (o : op) : option string :=
  match o with
  | OpReplay x cp =>
      if replay_earlier_guard s x cp then Some site_replay_earlier
      else if replay_fuel_guard s x cp then Some site_replay_fuel
      else None
  | _ => None
  end.

Lemma replay_guards_exclusive s x cp :
  replay_fuel_guard s x cp = true -> replay_earlier_guard s x cp = false.
Proof.
  unfold replay_fuel_guard, replay_earlier_guard. intros G.
  apply andb_true_iff in G as [G _]. apply andb_true_iff in G as [G1 G2].
  rewrite G1. cbn [andb]. apply N.leb_le in G2. apply N.ltb_ge. exact G2.
Qed.

(** [step] panics exactly where [step_panic_site] says, in every state satisfying the invariants *)
Lemma step_site_exact ih ivs s o : INV ih ivs s -> tinv s ->
  match step_panic_site s o with
  | Some site => step s o = Panic site
  | None => okT (fun sr => step_adm o (snd sr) -> tinv (fst sr)) (step s o)
  end.
Proof.
  intros HI HT. pose proof (step_total ih ivs s o HI HT) as H.
  destruct o as [p|m|m|x cp]; cbn [step_panic_site]; try exact H.
  destruct H as [(H&G1&G2)|[(G&H)|(G&H)]].
  - rewrite G1, G2. exact H.
  - rewrite G. exact H.
  - rewrite (replay_guards_exclusive s x cp G), G. exact H.
Qed.

Lemma step_site_exact' ih ivs s o : INV ih ivs s -> tinv s ->
  match step_panic_site s o with
  | Some site => step s o = Panic site
  | None => exists s' r, step s o = Ok (s', r)
  end.
Proof.
  intros HI HT. pose proof (step_site_exact ih ivs s o HI HT) as H.
  destruct (step_panic_site s o); [exact H|]. destruct H as ([s' r]&E&_). exists s', r. exact E.
Qed.

(** for a replayed round that is a uint32 the fuel site is out *)
Lemma step_panic_site_bounded ih ivs s o : cinv ih ivs s -> replay_round_bounded o ->
  step_panic_site s o =
  match o with
  | OpReplay x cp => if replay_earlier_guard s x cp then Some site_replay_earlier else None
  | _ => None
  end.
Proof.
  intros Hc Hb. destruct o as [p|m|m|x cp]; cbn [step_panic_site]; try reflexivity.
  cbn in Hb. rewrite (replay_fuel_guard_false ih ivs s x cp Hc Hb). reflexivity.
Qed.

(** * Every [xstep] in every state of the closure *)

(** the crash step: same site when the operation panics, start-up never fails otherwise *)
Lemma crash_total ih ivs s k o :
  1 <= ih -> vwf ivs -> reachable_g ih ivs s ->
  match step s o with
  | Ok (s1, r) => wf_op o r -> exists s', xstep s (XCrash k o) = Ok (s', r) /\ reachable_g ih ivs s'
  | Panic site => xstep s (XCrash k o) = Panic site /\ step_panic_site s o = Some site
  end.
Proof.
  intros Hih Hivs Hr.
  destruct (reachable_g_INV ih ivs s Hih Hivs Hr) as (HI&HT&_).
  destruct (step s o) as [[s1 r]|site] eqn:Hs.
  - intros Hw. exact (proj2 (startup_never_fails ih ivs s Hih Hivs Hr) o k s1 r Hs Hw).
  - split; [cbn [xstep]; rewrite Hs; reflexivity|].
    pose proof (step_site_exact' ih ivs s o HI HT) as H.
    destruct (step_panic_site s o) as [site'|].
    + rewrite Hs in H. inversion H. reflexivity.
    + destruct H as (s'&r&H). rewrite Hs in H. discriminate.
Qed.

(** (1), any replayed round: both guards of [handle_replay] exact *)
Theorem messages_never_panic_after_crashes_any_round ih ivs s :
  1 <= ih -> vwf ivs -> reachable_g ih ivs s ->
  (forall o, match step_panic_site s o with
             | Some site => step s o = Panic site
             | None => exists s' r, step s o = Ok (s', r)
             end) /\
  (exists s', xstep s XRestart = Ok (s', 0) /\ reachable_g ih ivs s') /\
  (forall k o, match step s o with
               | Ok (s1, r) => wf_op o r -> exists s', xstep s (XCrash k o) = Ok (s', r) /\ reachable_g ih ivs s'
               | Panic site => xstep s (XCrash k o) = Panic site /\ step_panic_site s o = Some site
               end).
Proof.
  intros Hih Hivs Hr.
  destruct (reachable_g_INV ih ivs s Hih Hivs Hr) as (HI&HT&_).
  split; [intros o; exact (step_site_exact' ih ivs s o HI HT)|].
  split; [exact (proj1 (startup_never_fails ih ivs s Hih Hivs Hr))|].
  intros k o. exact (crash_total ih ivs s k o Hih Hivs Hr).
Qed.

(** (1) in the shape of [C09_kernel_messages_never_panic_partial]: a replayed round is a uint32 *)
Theorem messages_never_panic_after_crashes ih ivs s :
  1 <= ih -> vwf ivs -> reachable_g ih ivs s ->
  (forall o, replay_round_bounded o ->
     match o with
     | OpPH _ | OpPrevote _ | OpPrecommit _ => exists s' r, step s o = Ok (s', r)
     | OpReplay x cp =>
         ((exists s' r, step s o = Ok (s', r)) /\ replay_earlier_guard s x cp = false) \/
         (replay_earlier_guard s x cp = true /\ step s o = Panic site_replay_earlier)
     end) /\
  (exists s', xstep s XRestart = Ok (s', 0) /\ reachable_g ih ivs s') /\
  (forall k o, replay_round_bounded o ->
     match step s o with
     | Ok (s1, r) => wf_op o r -> exists s', xstep s (XCrash k o) = Ok (s', r) /\ reachable_g ih ivs s'
     | Panic site =>
         xstep s (XCrash k o) = Panic site /\ site = site_replay_earlier /\
         exists x cp, o = OpReplay x cp /\ replay_earlier_guard s x cp = true
     end).
Proof.
  intros Hih Hivs Hr.
  destruct (reachable_g_INV ih ivs s Hih Hivs Hr) as (HI&HT&_).
  destruct (messages_never_panic_after_crashes_any_round ih ivs s Hih Hivs Hr) as (A&B&C).
  split; [|split; [exact B|]].
  - intros o Hb. pose proof (A o) as H.
    rewrite (step_panic_site_bounded ih ivs s o (proj1 HI) Hb) in H.
    destruct o as [p|m|m|x cp]; try exact H.
    destruct (replay_earlier_guard s x cp); [right; split; [reflexivity|exact H]|left; split; [exact H|reflexivity]].
  - intros k o Hb. pose proof (C k o) as H.
    destruct (step s o) as [[s1 r]|site]; [exact H|].
    destruct H as [H1 H2]. split; [exact H1|].
    rewrite (step_panic_site_bounded ih ivs s o (proj1 HI) Hb) in H2.
    destruct o as [p|m|m|x cp]; try discriminate.
    destruct (replay_earlier_guard s x cp) eqn:G; [|discriminate].
    inversion H2. split; [reflexivity|]. exists x, cp. split; [reflexivity|exact G].
Qed.

(** the closure of C09Kernel / C10Resume with [op_bounded] and [step_adm] alone is not enough for the
    restart clause IN THE MODEL (a next validator set with power but without a key) *)
Theorem restart_total_over_reachable_x_refuted :
  exists ih ivs s site,
    1 <= ih /\ vs_ok ivs = true /\ 0 < sum_pows (vs_pows ivs) /\ vs_keys ivs <> [] /\
    reachable_x ih ivs s /\ xstep s XRestart = Panic site.
Proof.
  exists 1, ex_vs, (state_after [OpPH (ex_ph ex_vs ex_nokeys); OpPrecommit (ex_precommit 1 0 [1] [9])]), site_no_validators.
  split; [vm_compute; discriminate|]. split; [reflexivity|]. split; [vm_compute; reflexivity|].
  split; [vm_compute; discriminate|].
  split; [apply reachable_a_x, state_after_reachable_a; vm_compute; reflexivity|].
  vm_compute. reflexivity.
Qed.

(** [reachable_g] is contained in [reachable_x] *)
Lemma reachable_g_x ih ivs s : reachable_g ih ivs s -> reachable_x ih ivs s.
Proof.
  induction 1 as [|s x s' res Hr IH Hw Hx]; [apply rx_init|].
  apply (rx_step ih ivs s x s' res IH); [|exact Hx].
  destruct x as [o|k o|]; cbn [xwf xop_adm] in *; [| |exact I]; destruct Hw as (A&B&_); split; assumption.
Qed.

(** * Examples: the hypotheses are satisfiable on a history with a crash in the middle of a commit
    ([e_s2], [e_s3] of Proofs/MirrorResumeEx.v), and the replay site is reachable after it *)
Example ex_after_crash :
  vwf ex_vs /\ reachable_g 1 ex_vs e_s2 /\ st_nhr e_s2 = (2, 0, 1, 0).
Proof.
  split; [exact ex_vs_vwf|]. destruct e_s2_reachable as (A&_&C&_). split; assumption.
Qed.
