(** C10 backbone: the write log kept by the mirror model is exactly its store delta.
    For every operation, the stores afterwards are the stores before with the operation's logged
    writes replayed in order, and the log only grows.  Hence the states a crash can leave behind
    ([XCrash k]) are precisely the prefixes of the real write sequence, and a crash after the last
    write is a clean restart. *)
From Coq Require Import List NArith Arith Bool Lia String.
From GV Require Import Base.Ints Gen.Math Gen.Kernel Model.Mirror Proofs.MirrorAuth.
Import ListNotations.
Local Open Scope N_scope.

Definition logged (s s' : kstate) : Prop :=
  exists ws, st_log s' = st_log s ++ ws /\ stores_of s' = fold_left apply_wr ws (stores_of s).

Lemma logged_refl s : logged s s.
Proof. exists []. rewrite app_nil_r. split; reflexivity. Qed.

Lemma logged_trans a b c : logged a b -> logged b c -> logged a c.
Proof.
  intros (w1&L1&S1) (w2&L2&S2). exists (w1 ++ w2). split.
  - rewrite L2, L1, app_assoc. reflexivity.
  - rewrite S2, S1, fold_left_app. reflexivity.
Qed.

(** changes that touch neither the stores nor the log *)
Definition quiet (s s' : kstate) : Prop := st_log s' = st_log s /\ stores_of s' = stores_of s.

Lemma quiet_logged s s' : quiet s s' -> logged s s'.
Proof. intros [L S]. exists []. rewrite app_nil_r. split; assumption. Qed.

Lemma quiet_put_view s vid v : quiet s (put_view s vid v).
Proof. unfold put_view. destruct (vid =? ViewIDVoting); [|destruct (vid =? ViewIDCommitting)]; split; reflexivity. Qed.

(** one logged write whose effect on the stores is the replay of that write *)
Lemma logged_one s s' w :
  st_log s' = st_log s ++ [w] -> stores_of s' = apply_wr (stores_of s) w -> logged s s'.
Proof. intros L S. exists [w]. split; [exact L|exact S]. Qed.

Lemma logged_update_observers s : logged s (update_observers s).
Proof. unfold update_observers. eapply logged_one; reflexivity. Qed.

Lemma logged_increment s : logged s (update_observers (increment_voting_round s)).
Proof.
  eapply logged_trans; [|apply logged_update_observers].
  apply quiet_logged. split; reflexivity.
Qed.

Lemma logged_advance s : logged s (advance_voting_round s).
Proof.
  unfold advance_voting_round. eapply logged_trans; [|apply logged_increment].
  apply quiet_logged. split; reflexivity.
Qed.

Lemma logged_jump s : logged s (jump_voting_round s).
Proof.
  unfold jump_voting_round. eapply logged_trans; [|apply logged_update_observers].
  apply quiet_logged. split; reflexivity.
Qed.

Lemma logged_shift s voted : logged s (shift_voting_to_committing s voted).
Proof.
  unfold shift_voting_to_committing.
  eapply logged_trans; [|apply logged_update_observers].
  eapply logged_one; reflexivity.
Qed.

Lemma logged_check_voting s s' : check_voting_precommit_shift s = Ok s' -> logged s s'.
Proof.
  unfold check_voting_precommit_shift, bind.
  destruct (byz_majority _) as [maj|]; [|discriminate].
  destruct (_ <? maj).
  - destruct (_ =? _); intros E; inversion E; subst; [apply logged_advance|apply logged_refl].
  - destruct (sm_mpc _).
    + intros E; inversion E; subst. apply logged_advance.
    + destruct (find _ _); intros E; inversion E; subst; [apply logged_shift|apply logged_refl].
Qed.

Lemma logged_check_next_round s s' : check_next_round_precommit_shift s = Ok s' -> logged s s'.
Proof.
  unfold check_next_round_precommit_shift, bind.
  destruct (byz_minority _) as [mn|]; [|discriminate].
  destruct (_ <? mn); [intros E; inversion E; subst; apply logged_refl|].
  destruct (byz_majority _) as [maj|]; [|discriminate].
  destruct (maj <=? _).
  - intros E. eapply logged_trans; [apply logged_jump|apply logged_check_voting; exact E].
  - intros E; inversion E; subst. apply logged_jump.
Qed.

Lemma logged_check_prevote s s' : check_prevote_shift s = Ok s' -> logged s s'.
Proof.
  unfold check_prevote_shift, bind.
  destruct (byz_minority _) as [mn|]; [|discriminate].
  destruct (_ <? mn); intros E; inversion E; subst; [apply logged_refl|apply logged_jump].
Qed.

Lemma logged_apply_votes kind s vid h r ups s' :
  (kind = KPrevote \/ kind = KPrecommit) ->
  apply_votes kind s vid h r ups = Ok s' -> logged s s'.
Proof.
  intros Hk. unfold apply_votes.
  set (v := get_view s vid).
  set (votes' := fold_left (fun m e => pm_set m (fst e) (snd e)) ups (view_votes kind v)).
  set (v1 := if kind =? KPrevote then with_pv v votes' else with_pc v votes').
  set (sm' := if kind =? KPrevote then sum_set_prevotes _ _ _ else _).
  set (v2 := bump (with_sum v1 sm')).
  set (s1 := put_view s vid v2).
  set (s2 := ev_w (log_w _ _) _).
  assert (L2 : logged s s2).
  { eapply logged_trans; [apply quiet_logged, quiet_put_view|].
    unfold s2. destruct Hk as [->| ->]; cbn [N.eqb KPrevote KPrecommit]; eapply logged_one; reflexivity. }
  destruct (kind =? KPrevote).
  - destruct (vid =? ViewIDNextRound).
    + intros E. eapply logged_trans; [exact L2|apply logged_check_prevote; exact E].
    + intros E; inversion E; subst; exact L2.
  - destruct (vid =? ViewIDVoting).
    + intros E. eapply logged_trans; [exact L2|apply logged_check_voting; exact E].
    + destruct (vid =? ViewIDNextRound).
      * intros E. eapply logged_trans; [exact L2|apply logged_check_next_round; exact E].
      * intros E; inversion E; subst; exact L2.
Qed.

Lemma logged_handle_future kind s m s' res :
  (kind = KPrevote \/ kind = KPrecommit) ->
  handle_future_votes kind s m = Ok (s', res) -> logged s s'.
Proof.
  intros Hk. unfold handle_future_votes.
  destruct (if vm_h m =? _ then _ else _) as [keys|]; [|intros E; inversion E; subst; apply logged_refl].
  destruct keys; [intros E; inversion E; subst; apply logged_refl|].
  destruct (negb (bytes_eqb _ _)); [intros E; inversion E; subst; apply logged_refl|].
  destruct (match coll_of _ _ with Some c => c | None => _ end) as [spkh stored].
  destruct (fold_left _ _ _) as [[full' allv] inc].
  destruct (negb allv); [intros E; inversion E; subst; apply logged_refl|].
  destruct (negb inc); intros E; inversion E; subst; [apply logged_refl|].
  destruct Hk as [->| ->]; cbn [N.eqb KPrevote KPrecommit]; eapply logged_one; reflexivity.
Qed.

Lemma logged_handle_votes kind s m s' res :
  (kind = KPrevote \/ kind = KPrecommit) ->
  handle_votes kind s m = Ok (s', res) -> logged s s'.
Proof.
  intros Hk. unfold handle_votes, bind.
  destruct (vm_proofs m) as [|vp0 vpl] eqn:Hp; [intros E; inversion E; subst; apply logged_refl|].
  rewrite <- Hp. clear Hp vp0 vpl.
  destruct (find_view _ _ _) as [[vid st]|]; [|discriminate].
  destruct (st =? ViewFuture); [apply logged_handle_future; exact Hk|].
  destruct (negb (st =? ViewFound)); [intros E; inversion E; subst; apply logged_refl|].
  destruct (negb (bytes_eqb _ _)); [intros E; inversion E; subst; apply logged_refl|].
  destruct (sigs_to_add _ _ _) as [|x0 l0]; [intros E; inversion E; subst; apply logged_refl|].
  destruct (build_updates _ _ _) as [ups allv].
  destruct ups as [|u ups'] eqn:Hu; [intros E; inversion E; subst; apply logged_refl|]. rewrite <- Hu. clear Hu.
  destruct (apply_votes _ _ _ _ _ _) as [s2|] eqn:Ha; [|discriminate].
  intros E; inversion E; subst. eapply logged_apply_votes; eassumption.
Qed.

Lemma logged_backfill s p : logged s (backfill_commit s p).
Proof.
  unfold backfill_commit. destruct (fold_left _ _ _) as [pc' any].
  destruct any; [eapply logged_one; reflexivity|apply quiet_logged; split; reflexivity].
Qed.

Lemma logged_add_ph s p s' : add_ph s p = Ok s' -> logged s s'.
Proof.
  unfold add_ph, bind.
  destruct (find_view _ _ _) as [[vid st]|]; [|discriminate].
  destruct (negb (st =? ViewFound)); [intros E; inversion E; subst; apply logged_refl|].
  destruct (existsb _ _); [intros E; inversion E; subst; apply logged_refl|].
  set (s1 := put_view s vid _).
  set (s2 := ev_w (log_w (set_rounds s1 _) _) _).
  assert (L2 : logged s s2).
  { eapply logged_trans; [apply quiet_logged, quiet_put_view|]. eapply logged_one; reflexivity. }
  destruct (negb _); [intros E; inversion E; subst; exact L2|].
  assert (L3 : logged s (backfill_commit s2 p)) by (eapply logged_trans; [exact L2|apply logged_backfill]).
  destruct (vid =? ViewIDVoting).
  - destruct (pm_get _ _).
    + intros E. eapply logged_trans; [exact L3|apply logged_check_voting; exact E].
    + intros E; inversion E; subst; exact L3.
  - intros E; inversion E; subst; exact L3.
Qed.

Lemma logged_handle_ph_loop fuel : forall backfilled s p s' res,
  handle_ph_loop fuel backfilled s p = Ok (s', res) -> logged s s'.
Proof.
  induction fuel as [|f IH]; intros backfilled s p s' res; cbn [handle_ph_loop];
    destruct (ph_check s p) as [status proposer prev_hash prev_vs view_vs].
  all: assert (Hsame : forall r0, Ok (s, r0) = Ok (s', res) -> logged s s')
         by (intros r0 E; inversion E; subst; apply logged_refl).
  all: assert (Hacc : bind (add_ph s p) (fun s' => Ok (s', HandleProposedHeaderAccepted)) = Ok (s', res) -> logged s s')
         by (unfold bind; destruct (add_ph s p) eqn:Ha; [|discriminate]; intros E; inversion E; subst; eapply logged_add_ph; eassumption).
  all: destruct (status =? PHCheckAlreadyHaveSignature); [apply Hsame|].
  all: destruct (status =? PHCheckSignerUnrecognized); [apply Hsame|].
  all: destruct (status =? PHCheckRoundTooOld); [apply Hsame|].
  all: destruct (status =? PHCheckRoundTooFarInFuture); [apply Hsame|].
  all: destruct (status =? PHCheckNextHeight).
  all: try (destruct backfilled; apply Hsame).
  2:{ destruct backfilled; [apply Hsame|].
      unfold bind at 1. destruct (handle_votes KPrecommit s (vote_msg_of_pcp p)) as [[s1 r1]|] eqn:Hv; [|discriminate].
      cbn [fst]. intros E. eapply logged_trans; [eapply logged_handle_votes; [right; reflexivity|exact Hv]|eapply IH; exact E]. }
  all: destruct (negb (hd_ok (ph_hdr p))); [apply Hsame|].
  all: destruct (negb (vs_ok (hd_vals (ph_hdr p)) && vs_ok (hd_next (ph_hdr p)))); [apply Hsame|].
  all: destruct (negb (valset_equal (hd_vals (ph_hdr p)) view_vs)); [apply Hsame|].
  all: destruct proposer as [key|]; [|apply Hsame].
  all: destruct (negb (verify_prop _ _ _ _)); [apply Hsame|].
  all: destruct (negb (hd_height (ph_hdr p) =? k_init_h s) && negb (bytes_eqb (hd_prev (ph_hdr p)) prev_hash)); [apply Hsame|].
  all: destruct (negb (bytes_eqb (vs_pkh prev_vs) _)); [apply Hsame|].
  all: destruct (k_init_h s <? _); [|exact Hacc].
  all: destruct (vs_keys prev_vs); [apply Hsame|].
  all: destruct (validate_finalized _ _ _ _ _) as [[bits|] [|]]; try apply Hsame.
  all: unfold bind at 1; destruct (byz_majority _); [|discriminate].
  all: destruct (_ <? _); [apply Hsame|exact Hacc].
Qed.

Lemma logged_jump_until fuel : forall s r, logged s (jump_until fuel s r).
Proof.
  induction fuel as [|f IH]; intros s r; cbn [jump_until]; [apply logged_refl|].
  destruct (_ <? _); [eapply logged_trans; [apply logged_jump|apply IH]|apply logged_refl].
Qed.

Lemma logged_replay_insert s hd r s1 : MirrorAuth.replay_insert s hd r = Ok s1 -> logged s s1.
Proof.
  unfold MirrorAuth.replay_insert.
  destruct (existsb _ (v_phs _)); [intros E; inversion E; subst; apply logged_refl|].
  destruct (existsb _ (st_rounds s)); intros E; inversion E; subst; eapply logged_one; reflexivity.
Qed.

Lemma logged_handle_replay s0 hd cp s' res : handle_replay s0 hd cp = Ok (s', res) -> logged s0 s'.
Proof.
  unfold handle_replay.
  destruct (negb (hd_height hd =? _)); [intros E; inversion E; subst; apply logged_refl|].
  destruct (cp_round cp <? _); [discriminate|].
  pose proof (logged_jump_until (N.to_nat (cp_round cp - v_r (k_vot s0))) s0 (cp_round cp)) as L.
  set (s := jump_until _ s0 _) in *.
  destruct (negb _); [discriminate|].
  assert (Hsame : forall r0, Ok (s0, r0) = Ok (s', res) -> logged s0 s') by (intros r0 E; inversion E; subst; apply logged_refl).
  destruct (negb (hd_ok hd)); [apply Hsame|].
  destruct (negb (hd_height hd =? k_init_h s) && _); [apply Hsame|].
  destruct (negb (valset_equal _ _ && _)); [apply Hsame|].
  destruct (negb (vs_ok (hd_next hd))); [apply Hsame|].
  destruct (fold_left _ (signed_entries (cp_proofs cp)) ([], true)) as [temp allv].
  destruct (negb allv); [apply Hsame|].
  destruct (pm_get temp (hd_hash hd)); [|apply Hsame].
  unfold bind at 1. destruct (byz_majority _); [|discriminate].
  destruct (_ <? _); [apply Hsame|].
  fold (MirrorAuth.replay_insert s hd (cp_round cp)).
  unfold bind at 1. destruct (MirrorAuth.replay_insert s hd (cp_round cp)) as [s1|] eqn:Hins; [|discriminate].
  assert (L1 : logged s0 s1) by (eapply logged_trans; [exact L|eapply logged_replay_insert; exact Hins]).
  unfold bind. destruct (check_voting_precommit_shift _) as [s3|] eqn:Hcv; [|discriminate].
  intros E; inversion E; subst.
  eapply logged_trans; [exact L1|]. eapply logged_trans; [|apply logged_check_voting; exact Hcv].
  eapply logged_one; reflexivity.
Qed.

Theorem step_is_logged s o s' res : step s o = Ok (s', res) -> logged s s'.
Proof.
  destruct o as [p|m|m|x cp]; cbn [step]; [| | |apply logged_handle_replay].
  - unfold handle_ph. destruct (ph_key p); [apply logged_handle_ph_loop|].
    intros E; inversion E; subst; apply logged_refl.
  - apply logged_handle_votes; left; reflexivity.
  - apply logged_handle_votes; right; reflexivity.
Qed.

(** A crash that lets every write of the operation land is a clean restart after it. *)
Theorem crash_after_all_writes_is_clean_restart s o s1 r k :
  step s o = Ok (s1, r) ->
  (List.length (st_log s1) - List.length (st_log s) <= k)%nat ->
  xstep s (XCrash k o) =
  bind (restart (k_init_h s) (k_init_vs s) (stores_of s1) (st_vals s) (st_log s1)) (fun s' => Ok (s', r)).
Proof.
  intros Hs Hk. destruct (step_is_logged _ _ _ _ Hs) as (ws&L&S).
  unfold xstep. rewrite Hs. unfold bind at 1. cbn [fst snd].
  assert (Hskip : skipn (List.length (st_log s)) (st_log s1) = ws).
  { rewrite L. rewrite skipn_app, skipn_all, Nat.sub_diag. reflexivity. }
  rewrite Hskip.
  assert (Hlen : (List.length ws <= k)%nat).
  { rewrite L, app_length in Hk. lia. }
  rewrite firstn_all2 by exact Hlen.
  rewrite <- S, <- L. reflexivity.
Qed.

(** The stores a crash leaves behind are the stores before the operation with a prefix of the
    operation's own writes applied. *)
Theorem crash_stores_are_write_prefixes s o s1 r k :
  step s o = Ok (s1, r) ->
  exists ws, st_log s1 = st_log s ++ ws /\
             stores_of s1 = fold_left apply_wr ws (stores_of s) /\
             fold_left apply_wr (firstn k (skipn (List.length (st_log s)) (st_log s1))) (stores_of s) =
             fold_left apply_wr (firstn k ws) (stores_of s).
Proof.
  intros Hs. destruct (step_is_logged _ _ _ _ Hs) as (ws&L&S). exists ws.
  split; [exact L|]. split; [exact S|].
  rewrite L, skipn_app, skipn_all, Nat.sub_diag. reflexivity.
Qed.
