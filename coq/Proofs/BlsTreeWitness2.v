(** C13 (BLS tree) - non-vacuity of the second round of theorems: Merge with exact flags, the maximal-node
    characterisation, the sparse round trip and the canonical sparse form on key sets of 5, 6, 7, 11 keys
    (aggregate ids reaching into the padding). *)
From Coq Require Import List NArith ZArith String Bool Lia Permutation.
From GV Require Import Base.Ints Model.SimpleProofBase Model.BlsTree Monitors.C13Blsm
  Proofs.BlsTreeBase Proofs.BlsTreeAdd Proofs.BlsTreeProof Proofs.BlsTreeMachine Proofs.BlsTreeSparse
  Proofs.BlsTreeMerge Proofs.BlsTreeRoundtrip Proofs.BlsTreeClosed Proofs.BlsTreeCanon.
Import ListNotations.
Local Open Scope N_scope.

(** sorted SparseIndices of register r after ops, and of Derive().MergeSparse(AsSparse) of it *)
Definition sparse_ids_after (ops : list bop) (r : nat) : option (list N * list N) :=
  match reg_get (regs_after [] ops) r with
  | Some p =>
      match sparse_indices (p_tree p), as_sparse p with
      | Ok ids, Ok (h, ents) =>
          match merge_sparse (derive p) h ents with
          | Ok (q, _) => match sparse_indices (p_tree q) with
                         | Ok ids' => Some (sort_N ids, sort_N ids')
                         | Panic _ => None
                         end
          | Panic _ => None
          end
      | _, _ => None
      end
  | None => None
  end.

(** n = 5: leaves 0,1 (node 8), leaf 4 (climbs to 13, real leaves {4}); Merge of the two halves: exact flags *)
Definition ops5 : list bop :=
  [BNew 0 5 0 0; BNew 1 5 0 0;
   BAdd 0 (SAgg 0 [0]) (Some [0]); BAdd 0 (SAgg 0 [1]) (Some [1]);
   BMergeSparse 1 0 [([0; 13], SAgg 0 [4]); ([0; 1], SAgg 0 [1])];
   BMerge 0 1; BMerge 0 1; BMerge 1 0].
Example ex5_merge : run ops5 =
  [[0]; [0]; [0; 0]; [0; 0; 1]; [1; 1; 0; 1; 4];
   [1; 1; 0; 0; 1; 4];      (* AllValid, Increased, not a superset (Count equal); bits = union *)
   [1; 0; 0; 0; 1; 4];      (* repetition: nothing new *)
   [1; 1; 1; 0; 1; 4]].     (* o strictly contains p *)
Proof. vm_compute. reflexivity. Qed.
Example ex5_ids : sparse_ids_after ops5 0%nat = Some ([8; 13], [8; 13]).
Proof. vm_compute. reflexivity. Qed.

(** n = 6: child, then parent 13 (= leaves 4,5), then the other child; the listed id stays the maximal node 13 *)
Definition ops6 : list bop :=
  [BNew 0 6 0 0; BMergeSparse 0 0 [([0; 4], SAgg 0 [4]); ([0; 13], SAgg 0 [4; 5]); ([0; 5], SAgg 0 [5])];
   BAdd 0 (SAgg 0 [2]) (Some [2])].
Example ex6_ids : sparse_ids_after ops6 0%nat = Some ([2; 13], [2; 13]).
Proof. vm_compute. reflexivity. Qed.

(** n = 7: leaf 6 (climbs to 11), leaves 4,5 arrive as node 10: cascade to 13 (= leaves 4..7, real 4,5,6) *)
Definition ops7 : list bop :=
  [BNew 0 7 0 0; BAdd 0 (SAgg 0 [6]) (Some [6]); BMergeSparse 0 0 [([0; 10], SAgg 0 [4; 5])];
   BAdd 0 (SAgg 0 [1]) (Some [1])].
Example ex7_ids : sparse_ids_after ops7 0%nat = Some ([1; 13], [1; 13]).
Proof. vm_compute. reflexivity. Qed.

(** n = 11: leaves 8,9,10 aggregate to node 29 (= leaves 8..15, real 8,9,10); leaf 3 stays alone *)
Definition ops11 : list bop :=
  [BNew 0 11 0 0; BAdd 0 (SAgg 0 [10]) (Some [10]); BAdd 0 (SAgg 0 [8]) (Some [8]); BAdd 0 (SAgg 0 [9]) (Some [9]);
   BAdd 0 (SAgg 0 [3]) (Some [3])].
Example ex11_ids : sparse_ids_after ops11 0%nat = Some ([3; 29], [3; 29]).
Proof. vm_compute. reflexivity. Qed.

(** the hypotheses of the theorems hold for these proofs (they are reachable), so the theorems apply *)
Example ex5_theorem : exists p ids q ids',
  reg_get (regs_after [] ops5) 0%nat = Some p /\
  sparse_indices (p_tree p) = Ok ids /\
  merge_sparse (derive p) (p_hash p) (map (sparse_entry_of p) ids) =
    Ok (q, mk_flags true (0 <? popcount (p_bits p)) false) /\
  p_bits q = p_bits p /\ sparse_indices (p_tree q) = Ok ids' /\ Permutation ids' ids.
Proof.
  destruct (reg_get (regs_after [] ops5) 0%nat) as [p|] eqn:E; [|vm_compute in E; discriminate].
  destruct (reachable_pinv_pcl ops5 0%nat p E) as [Hp Hc].
  assert (Hn : t_n (p_tree p) <= 32768).
  { assert (F : match reg_get (regs_after [] ops5) 0%nat with Some p => t_n (p_tree p) <=? 32768 | None => false end = true)
      by (vm_compute; reflexivity).
    rewrite E in F. now apply N.leb_le. }
  destruct (sparse_roundtrip_ids p Hp Hc Hn) as (ids & q & ids' & A & B & C & D & F).
  exists p, ids, q, ids'. auto 10.
Qed.
