(** The inductive invariant [Inv] of the round state machine model: it holds initially, every event
    preserves it, and in a state satisfying it no event starts a timer while one is outstanding. *)
From Coq Require Import List NArith String Bool Lia.
From GV Require Import Base.Ints Gen.Math Gen.StepSM Model.StateMachine Proofs.SMInv Proofs.SMInvH.
Import ListNotations.
Local Open Scope N_scope.

(** while the response to a round entrance is awaited (the handler runs with [run] set to Idle) *)
Definition AI (s : sm) : Prop := SQ0 s /\ run s = Idle.

Lemma AI_hsub s : AI s -> hsub s /\ run s = Idle.
Proof. intros [((T1 & T2) & _) R]. split; [left; exact T2|exact R]. Qed.

Lemma tr_init_after_vrv v : tr AI (init_after_vrv v) GI.
Proof.
  unfold init_after_vrv. apply tr_withS. intros s0 H0. cbv zeta.
  pose proof (AI_hsub _ H0) as HR. destruct H0 as [(T & PA & PO) R].
  apply (tr_bind _ _ _ _ _ (tr_reset_eq s0 _ _ HR)).
  apply (tr_bind GN2).
  { apply tr_upd. intros s ((T' & PO' & R') & A1 & A2 & A3 & _).
    unfold GN2, out_ok2, pend_ok, nt in *. fields. rewrite A1, A2, A3. tauto. }
  apply (tr_bind GN2).
  { destruct ((rH (rl s0) =? initial_height) && (rR (rl s0) =? 0)); [apply tr_updr; leaf2|].
    destruct (fstore_get (fStore s0) (sub64 (rH (rl s0)) 1)); [apply tr_updr; leaf2|apply tr_stop; discriminate]. }
  apply tr_withS. intros s1 H1. cbv zeta. from_eq GN2 H1.
  apply (tr_bind GN2).
  { destruct (signer s1); [|apply tr_ret; auto].
    destruct (existsb ph_mine _); [|apply tr_ret; auto].
    apply (tr_bind GN2); [apply tr_updr; leaf2|apply tr_ret; auto]. }
  apply tr_withS. intros s2 H2. cbv zeta. from_eq GN2 H2.
  apply (tr_bind GN2).
  { destruct (if signer s2 && rPropCh (rl s2) then ra_ph (cur_ra s2) else None); [|apply tr_ret; auto].
    apply (tr_bind GN2); [apply tr_updr; leaf2|].
    apply (tr_bind GN2); [apply tr_emit; [apply frame_GN2|intros; exact I]|apply tr_ret; auto]. }
  apply (tr_bind GN2); [apply tr_enter_round; discriminate|].
  apply (tr_pre _ GN); [exact GN2_GN|]. apply (tr_post _ GIV); [exact GIV_GI|]. apply tr_begin_round_live.
Qed.

Lemma tr_init_after_ch bh h pr : tr (fun s => AI s /\ rOut (rl s) = None) (init_after_ch bh h pr) GI.
Proof.
  unfold init_after_ch. apply tr_withS. intros s0 [H0 HO].
  pose proof (AI_hsub _ H0) as HR.
  apply (tr_bind _ _ _ _ _ (tr_reset_eq s0 _ _ HR)).
  apply (tr_pre _ GN).
  { intros s ((T' & PO' & R') & A1 & A2 & A3 & A4 & _). split; [exact T'|split; [|exact R']].
    left; left. congruence. }
  apply (tr_post _ GN); [exact GN_GI|]. apply tr_finalize_req, frame_GN.
Qed.

Lemma tr_advance_after_vrv v : tr AI (advance_after_vrv v) GI.
Proof.
  unfold advance_after_vrv.
  apply (tr_bind GN2).
  { apply tr_upd. intros s [(T & PA & PO) R]. unfold GN2, out_ok2, pend_ok, nt in *. fields. tauto. }
  apply (tr_bind GN2); [apply tr_enter_round; discriminate|].
  apply (tr_pre _ GN); [exact GN2_GN|]. apply (tr_post _ GIV); [exact GIV_GI|]. apply tr_begin_round_live.
Qed.

Lemma tr_advance_after_ch bh h pr : tr AI (advance_after_ch bh h pr) GI.
Proof.
  unfold advance_after_ch.
  apply (tr_bind GN).
  { apply tr_updr. intros s [(T & PA & PO) R]. unfold GN, out_ok, nt in *. fields. tauto. }
  apply (tr_post _ GN); [exact GN_GI|]. apply tr_finalize_req, frame_GN.
Qed.

(** ** The invariant *)
Definition vr_ok (s : sm) : Prop := rl s = rlc0 /\ hTimer s = None /\ propOut s = 0 /\ pendAct s = None.

Definition Inv (s : sm) : Prop :=
  match run s with
  | NotStarted => vr_ok s
  | AwaitInit => SQ0 s /\ rOut (rl s) = None
  | AwaitAdv _ => SQ0 s
  | Idle => GI s
  | _ => True
  end.

Lemma Inv_init sg : Inv (sm0 sg).
Proof. unfold Inv, vr_ok. simpl. auto. Qed.

(** fields the invariant does not look at *)
Lemma Inv_irrel s s' : run s' = run s -> rl s' = rl s -> hTimer s' = hTimer s -> propOut s' = propOut s ->
  pendAct s' = pendAct s -> Inv s -> Inv s'.
Proof.
  intros E1 E2 E3 E4 E5. unfold Inv. rewrite E1. destruct (run s) eqn:R; auto; unf; unfold vr_ok;
    rewrite ?E1, ?E2, ?E3, ?E4, ?E5; auto. tauto.
Qed.

Definition fin_ok (r : sm * list out * flow) : Prop := post GI (st r) (fl r) /\ Forall Po (ou r).

Lemma finish_inv r : fin_ok r -> Inv (fst (finish r)) /\ Forall Po (snd (finish r)).
Proof.
  destruct r as [[s o] f]. unfold fin_ok, st, fl, ou. simpl. intros [Q F].
  destruct f; simpl in *.
  - split; [|exact F]. unfold Inv. simpl. revert Q. unf. fields. tauto.
  - split; [|exact F]. destruct Q as [Q [R|[t R]]]; rewrite R.
    + unfold Inv. simpl. exact Q.
    + unfold Inv. rewrite R. exact Q.
  - split; [exact I|apply Forall_app; split; [exact F|repeat constructor]].
  - split; [exact I|apply Forall_app; split; [exact F|repeat constructor]].
  - split; [exact I|apply Forall_app; split; [exact F|repeat constructor]].
Qed.

Lemma resume_ok m tail s : tr AI m GI -> SQ0 s -> fin_ok (resume_adv m tail s).
Proof.
  intros Hm Hs. unfold fin_ok, resume_adv, st, fl, ou.
  assert (A : AI (set_run Idle s)) by (split; [exact Hs|reflexivity]).
  destruct (Hm _ A) as [Q F]. unfold st, fl, ou in *.
  destruct (m (set_run Idle s)) as [[s1 o1] f1]. simpl in *.
  destruct f1; simpl; try (split; [exact I|exact F]).
  - destruct tail as [[v ja]|]; [|split; [exact Q|exact F]].
    destruct (tr_view_tail v ja s1 Q) as [Q2 F2]. unfold st, fl, ou in *.
    destruct (view_tail v ja s1) as [[s2 o2] f2]. simpl in *.
    split; [exact Q2|apply Forall_app; split; assumption].
  - split; [apply SQ_set_run; exact Q|exact F].
Qed.

Lemma start_up_spec s : vr_ok s ->
  (fl (start_up s) = Susp /\ SQ0 (st (start_up s)) /\ rOut (rl (st (start_up s))) = None /\ Forall Po (ou (start_up s))) \/
  (fl (start_up s) = FHalt /\ Forall Po (ou (start_up s))).
Proof.
  intros (A & B & C & D). unfold start_up, withS.
  destruct (sStore s) as [h0 r0].
  destruct (if h0 =? 0 then (initial_height, 0) else (h0, r0)) as [h1 r1].
  destruct (match fstore_get (fStore s) h1 with Some _ => (wrap64 (h1 + 1), 0) | None => (h1, r1) end) as [h r].
  match goal with |- context [match ?x with Some _ => _ | None => stop FHalt end] => destruct x as [[cur prev]|] end.
  - left. unfold bindM, updr, send_entrance, withS, bindM, say, upd, stop, st, fl, ou. simpl.
    split; [reflexivity|]. split; [|split; [rewrite A; reflexivity|repeat constructor]].
    unfold SQ0, nt, pend_ok. fields. rewrite A. simpl. rewrite B, C.
    split; [auto|split; [|discriminate]]. destruct (participating _); auto.
  - right. simpl. split; [reflexivity|constructor].
Qed.

Lemma idle_live_run s : idle_live s = true -> run s = Idle.
Proof. unfold idle_live. destruct (run s); try discriminate. reflexivity. Qed.

Lemma Inv_idle s : Inv s -> run s = Idle -> GI s.
Proof. unfold Inv. intros H R. rewrite R in H. exact H. Qed.

Lemma fin_of_tr P m s : tr P m GI -> P s -> fin_ok (m s).
Proof. intros H Hs. exact (H s Hs). Qed.

Lemma nil_ok s : Inv s -> Inv (fst (s, @nil out)) /\ Forall Po (snd (s, @nil out)).
Proof. intros H. split; [exact H|constructor]. Qed.

Ltac irrel H := apply (Inv_irrel _ _ eq_refl eq_refl eq_refl eq_refl eq_refl H).

Theorem dispatch_inv s e : Inv s -> deliverable s e = true ->
  Inv (fst (dispatch s e)) /\ Forall Po (snd (dispatch s e)).
Proof.
  intros HI D. destruct e; unfold dispatch; unfold deliverable in D.
  - (* start *)
    destruct (run s) eqn:R; try discriminate.
    assert (HV : vr_ok s) by (unfold Inv in HI; rewrite R in HI; exact HI).
    destruct (start_up_spec s HV) as [(A & B & C & F)|(A & F)]; unfold st, fl, ou in *;
      destruct (start_up s) as [[s1 o] f]; simpl in *; subst f.
    + split; [|exact F]. unfold Inv. simpl. split; assumption.
    + simpl. split; [exact I|apply Forall_app; split; [exact F|repeat constructor]].
  - (* stop *)
    split; [|constructor]. unfold Inv, volatile_reset, vr_ok. simpl. auto.
  - (* response: view *)
    destruct (run s) eqn:R; try (apply nil_ok; exact HI); unfold Inv in HI; rewrite R in HI.
    + destruct HI as [HS HO].
      destruct (is_ch_view v); apply finish_inv.
      * apply (fin_of_tr _ _ _ (tr_init_after_ch [] 0 0)). split; [split; [exact HS|reflexivity]|exact HO].
      * apply (fin_of_tr _ _ _ (tr_init_after_vrv v)). split; [exact HS|reflexivity].
    + destruct (is_ch_view v); apply finish_inv; apply resume_ok; try exact HI.
      * apply tr_advance_after_ch.
      * apply tr_advance_after_vrv.
  - (* response: committed header *)
    destruct (run s) eqn:R; try (apply nil_ok; exact HI); unfold Inv in HI; rewrite R in HI.
    + destruct HI as [HS HO]. apply finish_inv.
      apply (fin_of_tr _ _ _ (tr_init_after_ch bh h pr)). split; [split; [exact HS|reflexivity]|exact HO].
    + apply finish_inv; apply resume_ok; [apply tr_advance_after_ch|exact HI].
  - (* view update *)
    apply finish_inv. apply (fin_of_tr _ _ _ (tr_handle_view_update v ja)).
    apply Inv_idle; [exact HI|apply idle_live_run; exact D].
  - (* timer *)
    apply andb_true_iff in D. destruct D as [D _]. apply idle_live_run in D.
    pose proof (Inv_idle _ HI D) as G. destruct G as [(T & E & O & R) TV].
    change (rTimer (rl (set_hTimer None s))) with (rTimer (rl s)).
    destruct (rTimer (rl s)) eqn:ET.
    + apply finish_inv. apply (fin_of_tr GM).
      * apply (tr_post _ GN); [exact GN_GI|apply tr_handle_timer_elapsed].
      * split; [left; reflexivity|split; [exact O|exact R]].
    + split; [|constructor]. unfold Inv. simpl. rewrite D. apply GN_GI.
      split; [split; [exact ET|reflexivity]|split; [exact O|exact D]].
  - (* strategy answer *)
    destruct (cm s) as [[[ck g] op]|] eqn:EC; [|apply nil_ok; exact HI].
    assert (HI1 : Inv (set_cm None s)) by (irrel HI).
    destruct ((kind =? 1) && (ck =? K_consider)); [apply nil_ok; exact HI1|].
    destruct (negb op); [simpl; split; [exact I|repeat constructor]|].
    match goal with |- context [if ?b then _ else _] => destruct b eqn:B end; [|apply nil_ok; exact HI1].
    apply andb_true_iff in B. destruct B as [B _]. apply andb_true_iff in B. destruct B as [B _].
    assert (R : run s = Idle) by (simpl in B; destruct (run s); try discriminate; reflexivity).
    assert (G : GI (set_cm None s)) by (apply Inv_idle; [exact HI1|exact R]).
    destruct (kind =? 0); [|simpl; split; [exact I|repeat constructor]].
    destruct (ck =? K_decide); apply finish_inv.
    + apply (fin_of_tr GI); [|exact G].
      apply (tr_bind GI); [apply tr_record_precommit|apply tr_updr; leaf2].
    + apply (fin_of_tr GI); [|exact G].
      apply (tr_bind GI); [apply tr_record_prevote|apply tr_updr; leaf2].
  - (* proposal *)
    apply andb_true_iff in D. destruct D as [D _]. apply idle_live_run in D.
    pose proof (Inv_idle _ HI D) as G.
    destruct (propOut s =? 1).
    + apply finish_inv. apply (fin_of_tr GI); [|exact G].
      apply (tr_bind GI); [apply tr_record_proposed_header|].
      apply (tr_bind GI); [apply tr_updr; leaf2|apply tr_upd; leaf2].
    + split; [|constructor]. unfold Inv. simpl. rewrite D. revert G. leaf2.
  - (* finalization response *)
    destruct (run s) eqn:R; try discriminate.
    pose proof (Inv_idle _ HI R) as G.
    destruct (finReq s) as [[[[g ?] ?] ?]|]; [|apply nil_ok; exact HI].
    assert (HI1 : Inv (set_finReq None s)) by (irrel HI).
    match goal with |- context [if ?b then _ else _] => destruct b end; [|apply nil_ok; exact HI1].
    change (rVRV (rl (set_finReq None s))) with (rVRV (rl s)).
    destruct (rVRV (rl s)) eqn:EV; apply finish_inv.
    + apply (fin_of_tr GI); [apply tr_handle_finalization|]. apply frame_GI. exact G.
    + apply (fin_of_tr (fun s => GI s /\ rVRV (rl s) = None)).
      * apply (tr_bind GI); [apply tr_updr; leaf2|apply tr_handle_finalization].
      * split; [apply frame_GI; exact G|exact EV].
  - (* height committed *)
    apply andb_true_iff in D. destruct D as [D _]. apply idle_live_run in D.
    pose proof (Inv_idle _ HI D) as G.
    assert (HI1 : Inv (set_hcOpen false s)) by (irrel HI).
    match goal with |- context [if ?b then _ else _] => destruct b end; [|apply nil_ok; exact HI1].
    apply finish_inv. apply (fin_of_tr GI).
    + apply (tr_post _ GN); [exact GN_GI|apply tr_handle_height_committed].
    + apply Inv_idle; [exact HI1|exact D].
  - (* block data *)
    apply andb_true_iff in D. destruct D as [D _]. apply idle_live_run in D.
    apply finish_inv. apply (fin_of_tr GI); [apply tr_handle_block_data|]. apply Inv_idle; assumption.
  - (* arm *)
    split; [|constructor]. simpl. irrel HI.
Qed.

Lemma deliverable_pend s e : deliverable (set_pend 0 s) e = deliverable s e.
Proof. destruct e; reflexivity. Qed.

Theorem step_inv s e : Inv s -> Inv (fst (step s e)) /\ Forall Po (snd (step s e)).
Proof.
  intros HI. unfold step. destruct (deliverable s e) eqn:D.
  - assert (HI0 : Inv (set_pend 0 s)) by (irrel HI).
    rewrite <- deliverable_pend in D.
    destruct (dispatch_inv _ e HI0 D) as [A B].
    destruct (dispatch (set_pend 0 s) e) as [s1 o]. simpl in *. split; [|exact B]. irrel A.
  - split; [exact HI|repeat constructor].
Qed.

Theorem Inv_reachable sg es : Inv (final_state (sm0 sg) es).
Proof.
  assert (G : forall s, Inv s -> Inv (final_state s es)).
  { induction es as [|e es IH]; intros s H; simpl; [exact H|]. apply IH. apply step_inv. exact H. }
  apply G, Inv_init.
Qed.

Theorem outputs_reachable sg es : Forall (Forall Po) (run_events (sm0 sg) es).
Proof.
  assert (G : forall s, Inv s -> Forall (Forall Po) (run_events s es)).
  { induction es as [|e es IH]; intros s H; simpl; [constructor|].
    destruct (step_inv s e H) as [A B]. destruct (step s e) as [s1 o]. simpl in *.
    constructor; [exact B|apply IH; exact A]. }
  apply G, Inv_init.
Qed.
