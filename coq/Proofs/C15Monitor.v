(** The executable header-equivalence test of Monitors/C15m.v decides [hdr_equiv], and the model
    satisfies the block pair monitor (modulo an explicit collision of the uninterpreted hash). *)
From Coq Require Import List NArith ZArith Bool Lia Permutation.
From GV Require Import Base.Ints Model.TextFmt Model.HashScheme Model.SignBytes Monitors.C15m
  Proofs.TextFmt Proofs.SignBytes Proofs.HashScheme.
Import ListNotations.
Local Open Scope N_scope.

Lemma sig_eqb_eq a b : sig_eqb a b = true <-> a = b.
Proof.
  destruct a as [a1 a2], b as [b1 b2]. unfold sig_eqb. cbn [ss_keyid ss_sig].
  rewrite andb_true_iff, !bytes_eqb_eq. split; [intros [-> ->]; reflexivity|intros E; injection E; auto].
Qed.

Definition sig_eq_dec (a b : sparse_sig) : {a = b} + {a <> b}.
Proof. decide equality; apply (list_eq_dec N.eq_dec). Defined.

Lemma count_sig_occ x l : count_sig x l = count_occ sig_eq_dec l x.
Proof.
  unfold count_sig. induction l as [|y l IH]; cbn [filter count_occ length]; [reflexivity|].
  destruct (sig_eq_dec y x) as [->|Hne].
  - assert (E : sig_eqb x x = true) by now apply sig_eqb_eq. rewrite E. cbn [length]. now rewrite IH.
  - destruct (sig_eqb x y) eqn:E; [apply sig_eqb_eq in E; congruence|exact IH].
Qed.

Lemma sigs_equivb_perm s s' : sigs_equivb s s' = true <-> Permutation s s'.
Proof.
  unfold sigs_equivb. rewrite forallb_forall. split.
  - intros Hc. apply (Permutation_count_occ sig_eq_dec). intros x.
    destruct (in_dec sig_eq_dec x (s ++ s')) as [Hin|Hni].
    + specialize (Hc x Hin). apply Nat.eqb_eq in Hc. now rewrite !count_sig_occ in Hc.
    + rewrite in_app_iff in Hni.
      rewrite (proj1 (count_occ_not_In sig_eq_dec s x)) by tauto.
      rewrite (proj1 (count_occ_not_In sig_eq_dec s' x)) by tauto. reflexivity.
  - intros Hp x _. apply Nat.eqb_eq. rewrite !count_sig_occ.
    now apply (Permutation_count_occ sig_eq_dec).
Qed.

Lemma entry_equivb_equiv a b : entry_equivb a b = true <-> entry_equiv a b.
Proof.
  destruct a, b; cbn [entry_equivb entry_equiv]; try apply sigs_equivb_perm;
    split; try discriminate; try contradiction; auto.
Qed.

Lemma proofs_equivb_equiv pa pb : proofs_equivb pa pb = true <-> proofs_equiv pa pb.
Proof.
  unfold proofs_equivb, proofs_equiv. rewrite forallb_forall. split.
  - intros Hc k. destruct (in_dec (list_eq_dec N.eq_dec) k (map fst pa ++ map fst pb)) as [Hin|Hni].
    + now apply entry_equivb_equiv, Hc.
    + rewrite in_app_iff in Hni.
      rewrite (proj2 (alookup_None k pa)) by tauto. rewrite (proj2 (alookup_None k pb)) by tauto. exact I.
  - intros He k _. now apply entry_equivb_equiv.
Qed.

Lemma hdr_equivb_equiv a b : hdr_equivb a b = true <-> hdr_equiv a b.
Proof.
  unfold hdr_equivb, hdr_equiv, annotations_eqb.
  rewrite !andb_true_iff, !N.eqb_eq, !bytes_eqb_eq, !opt_bytes_eqb_eq, proofs_equivb_equiv. tauto.
Qed.

Section Hash.
  Variable H : list N -> list N.

  Lemma model_satisfies_block_mon a b : wf_header a -> wf_header b ->
    c15_block_pair_mon a (block_hash H a) b (block_hash H b) = true \/
    collision H (ser_header a) (ser_header b).
  Proof.
    intros Wa Wb. unfold c15_block_pair_mon.
    destruct (hdr_equivb a b) eqn:E.
    - left. apply hdr_equivb_equiv in E. rewrite (block_hash_respects_equiv H a b Wa Wb E), bytes_eqb_refl. reflexivity.
    - destruct (bytes_eqb (block_hash H a) (block_hash H b)) eqn:E2; [|left; reflexivity].
      apply bytes_eqb_eq in E2. destruct (block_hash_binds H a b Wa Wb E2) as [He|Hc]; [|right; exact Hc].
      apply hdr_equivb_equiv in He. congruence.
  Qed.
End Hash.
