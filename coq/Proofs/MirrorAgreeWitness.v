(** Witnesses for Properties/C03Mirror.v, built by running the mirror model's [step] from the
    initial state on short operation lists:
    1. the hypotheses of [mirrors_agree] are satisfiable on two nodes that commit the same two
       headers via different message orders, different certificates and (at height 1) different
       rounds, with a validator-set change between the heights and one equivocating Byzantine key;
    2. A1 is necessary: two mirrors fed conflicting certificates signed by an equivocating
       majority commit different headers at height 1, although everything else holds. *)
From Coq Require Import List NArith Bool String.
From GV Require Import Base.Ints Gen.Math Gen.Kernel Model.Network Model.Mirror
  Proofs.Thresholds Proofs.Network Proofs.MirrorAuth Proofs.MirrorChain
  Proofs.MirrorCert Proofs.MirrorAgree.
Import ListNotations.
Local Open Scope N_scope.

(** genesis set: keys 10..13, power 1 each (total 4, majority 3, minority 2);
    the set from height 2 on: keys 10, 11, 12, 14 with powers 2, 1, 1, 1 (total 5, majority 4, minority 2) *)
Definition evs : valset := mk_valset [10; 11; 12; 13] [1; 1; 1; 1] [7] [8] true.
Definition evs2 : valset := mk_valset [10; 11; 12; 14] [2; 1; 1; 1] [9] [6] true.

Definition vsig (key kind h r : N) (t : bytes) (idx : N) : ssig :=
  mk_ssig (keyid_encode idx) (SVote key kind h r t).
(** one vote message: target and (index, key) of each signer *)
Definition vmsg_of (kind h r : N) (pkh t : bytes) (who : list (N * N)) : vmsg :=
  mk_vmsg h r pkh [(t, map (fun ik => vsig (snd ik) kind h r t (fst ik)) who)].
Definition propose (x : hdr) (r : N) (content : bytes) : ph :=
  mk_ph x r (Some 10) (SProposal 10 content r) content.

Definition get (r : res kstate) : kstate := match r with Ok s => s | Panic _ => init_state 1 evs end.

(** ** 1. Satisfiability *)
(** header X (height 1, hash [1]) announces the new set; header Z (height 2, hash [3]) follows it and
    carries the round-1 commit certificate of X *)
Definition hX : hdr := mk_hdr [1] true 1 [] empty_cproof evs evs2.
Definition certX1 : cproof :=
  mk_cproof 1 [7] [([1], map (fun ik => vsig (snd ik) KPrecommit 1 1 [1] (fst ik)) [(1, 11); (2, 12); (3, 13)])].
Definition hZ : hdr := mk_hdr [3] true 2 [1] certX1 evs2 evs2.

(** node 1: X proposed in round 0, precommits of 10, 11, 12 in round 0; then Z and the precommits of
    10, 11, 12 for it *)
Definition ops1 : list op :=
  [ OpPH (propose hX 0 [5]);
    OpPrecommit (vmsg_of KPrecommit 1 0 [7] [1] [(0, 10); (1, 11); (2, 12)]);
    OpPH (propose hZ 0 [4]);
    OpPrecommit (vmsg_of KPrecommit 2 0 [9] [3] [(0, 10); (1, 11); (2, 12)]) ].
(** node 2: round-1 precommits of 13 and 12 first (the mirror jumps to round 1), X proposed again in
    round 1, the precommit of 11: commit in round 1; at height 2 the precommits (of 10, 11 and 14,
    in two messages) arrive before the proposal *)
Definition ops2 : list op :=
  [ OpPrecommit (vmsg_of KPrecommit 1 1 [7] [1] [(3, 13); (2, 12)]);
    OpPH (propose hX 1 [5]);
    OpPrecommit (vmsg_of KPrecommit 1 1 [7] [1] [(1, 11)]);
    OpPrecommit (vmsg_of KPrecommit 2 0 [9] [3] [(3, 14); (1, 11)]);
    OpPrecommit (vmsg_of KPrecommit 2 0 [9] [3] [(0, 10)]);
    OpPH (propose hZ 0 [4]) ].

Definition n1 : kstate := get (run_ops (init_state 1 evs) ops1).
Definition n2 : kstate := get (run_ops (init_state 1 evs) ops2).

(** Byzantine keys per height: 13 at height 1 (power 1 < 2), 14 at height 2 (power 1 < 2) *)
Definition exB (h : N) : list N := if h =? 1 then [13] else [14].

(** the global signature list: both nodes' certificates, the prevotes behind them, and an
    equivocation of the Byzantine key 13 (precommits for [2] and for nil in round 0 of height 1
    besides its round-1 precommit for [1]; prevotes for two blocks) *)
Definition exV : list sigd :=
  cert_sigs n1 ++ cert_sigs n2 ++
  map (fun key => SVote key KPrevote 1 0 [1]) [10; 11; 12; 13] ++
  map (fun key => SVote key KPrevote 1 1 [1]) [10; 11; 12; 13] ++
  [SVote 13 KPrevote 1 0 [2]; SVote 13 KPrecommit 1 0 [2]; SVote 13 KPrecommit 1 0 []] ++
  map (fun key => SVote key KPrevote 2 0 [3]) [10; 11; 12; 14].

Definition commits (s : kstate) : list (N * bytes * N) :=
  map (fun e => (fst e, hd_hash (fst (snd e)), cp_round (snd (snd e)))) (st_hdrs s).

Lemma ops_bounded ops : forallb (fun o => match o with
                                          | OpPH p => hd_height (ph_hdr p) + 1 <? two64
                                          | OpReplay x _ => hd_height x + 1 <? two64
                                          | _ => true end) ops = true -> Forall op_bounded ops.
Proof.
  rewrite forallb_forall. intros H. apply Forall_forall. intros o Ho. specialize (H o Ho).
  destruct o; cbn; unfold ph_bounded; try exact I; apply N.ltb_lt; exact H.
Qed.

Example mirrors_agree_hypotheses_satisfiable :
  run_ops (init_state 1 evs) ops1 = Ok n1 /\ run_ops (init_state 1 evs) ops2 = Ok n2 /\
  reachable_b 1 evs n1 /\ reachable_b 1 evs n2 /\
  cert_sigs_in exV n1 /\ cert_sigs_in exV n2 /\ hash_binds_next n1 n2 /\
  (forall h x1 cp1 x2 cp2, In (h, (x1, cp1)) (st_hdrs n1) -> In (h, (x2, cp2)) (st_hdrs n2) ->
     byz_bound (chain_vals 1 evs (st_hdrs n1) h) (exB h) /\
     A1m (chain_vals 1 evs (st_hdrs n1) h) (exB h) exV h /\
     A2m (chain_vals 1 evs (st_hdrs n1) h) (exB h) exV h /\
     A3m (chain_vals 1 evs (st_hdrs n1) h) (exB h) exV h) /\
  (* both committed (height, hash, certificate round) twice; height 1 in different rounds *)
  commits n1 = [(2, [3], 0); (1, [1], 0)] /\ commits n2 = [(2, [3], 0); (1, [1], 1)] /\
  (* from different certificates *)
  cert_sigs n1 <> cert_sigs n2 /\
  (* the validator set changed *)
  chain_vals 1 evs (st_hdrs n1) 1 = evs /\ chain_vals 1 evs (st_hdrs n1) 2 = evs2 /\
  (* the Byzantine key equivocates in V *)
  In (SVote 13 KPrecommit 1 0 [2]) exV /\ In (SVote 13 KPrecommit 1 0 []) exV /\ In (SVote 13 KPrecommit 1 1 [1]) exV.
Proof.
  assert (E1 : run_ops (init_state 1 evs) ops1 = Ok n1) by (vm_compute; reflexivity).
  assert (E2 : run_ops (init_state 1 evs) ops2 = Ok n2) by (vm_compute; reflexivity).
  split; [exact E1|]. split; [exact E2|].
  split; [eapply run_ops_reachable; [apply rb_init| |exact E1]; apply ops_bounded; vm_compute; reflexivity|].
  split; [eapply run_ops_reachable; [apply rb_init| |exact E2]; apply ops_bounded; vm_compute; reflexivity|].
  split; [apply cert_sigs_covers; intros sg H; unfold exV; apply in_or_app; left; exact H|].
  split; [apply cert_sigs_covers; intros sg H; unfold exV; apply in_or_app; right; apply in_or_app; left; exact H|].
  split; [apply hash_bindsb_ok; vm_compute; reflexivity|].
  split.
  { intros h x1 cp1 x2 cp2 I1 I2. apply hyps_allb_ok.
    apply (common_heightsb_ok (hyps_allb 1 evs n1 exV exB) n1 n2) with (e1 := (x1, cp1)) (e2 := (x2, cp2));
      [vm_compute; reflexivity|exact I1|exact I2]. }
  split; [vm_compute; reflexivity|]. split; [vm_compute; reflexivity|].
  split; [vm_compute; discriminate|].
  split; [vm_compute; reflexivity|]. split; [vm_compute; reflexivity|].
  vm_compute. tauto.
Qed.

(** the hypotheses of the same-round, one-height statement hold at height 2 of the same two nodes
    (both certificates of round 0, the two chains prescribe the same - changed - set) *)
Example same_round_hypotheses_satisfiable :
  In (2, snd (top_entry n1)) (st_hdrs n1) /\ In (2, snd (top_entry n2)) (st_hdrs n2) /\
  vs_keys (chain_vals 1 evs (st_hdrs n1) 2) = vs_keys (chain_vals 1 evs (st_hdrs n2) 2) /\
  vs_pows (chain_vals 1 evs (st_hdrs n1) 2) = vs_pows (chain_vals 1 evs (st_hdrs n2) 2) /\
  cp_round (snd (snd (top_entry n1))) = cp_round (snd (snd (top_entry n2))) /\
  byz_bound (chain_vals 1 evs (st_hdrs n1) 2) (exB 2) /\ A1m (chain_vals 1 evs (st_hdrs n1) 2) (exB 2) exV 2 /\
  snd (snd (top_entry n1)) <> snd (snd (top_entry n2)).
Proof.
  split; [vm_compute; left; reflexivity|]. split; [vm_compute; left; reflexivity|].
  split; [vm_compute; reflexivity|]. split; [vm_compute; reflexivity|]. split; [vm_compute; reflexivity|].
  split; [apply byz_boundb_ok; vm_compute; reflexivity|].
  split; [apply a1mb_ok; vm_compute; reflexivity|vm_compute; discriminate].
Qed.

(** ** 2. A1 is necessary (and so is the Byzantine bound) *)
(** two headers for height 1; validators 10, 11, 12 (3 of 4) prevote and precommit BOTH in round 0 *)
Definition hA : hdr := mk_hdr [1] true 1 [] empty_cproof evs evs.
Definition hB : hdr := mk_hdr [2] true 1 [] empty_cproof evs evs.
Definition opsA : list op :=
  [ OpPH (propose hA 0 [5]); OpPrecommit (vmsg_of KPrecommit 1 0 [7] [1] [(0, 10); (1, 11); (2, 12)]) ].
Definition opsB : list op :=
  [ OpPH (propose hB 0 [6]); OpPrecommit (vmsg_of KPrecommit 1 0 [7] [2] [(0, 10); (1, 11); (2, 12)]) ].
Definition mA : kstate := get (run_ops (init_state 1 evs) opsA).
Definition mB : kstate := get (run_ops (init_state 1 evs) opsB).
Definition badV : list sigd :=
  cert_sigs mA ++ cert_sigs mB ++
  map (fun key => SVote key KPrevote 1 0 [1]) [10; 11; 12] ++
  map (fun key => SVote key KPrevote 1 0 [2]) [10; 11; 12].

Lemma mA_mB_facts :
  reachable_b 1 evs mA /\ reachable_b 1 evs mB /\ cert_sigs_in badV mA /\ cert_sigs_in badV mB /\
  hash_binds_next mA mB /\
  In (1, snd (top_entry mA)) (st_hdrs mA) /\ In (1, snd (top_entry mB)) (st_hdrs mB) /\
  cp_round (snd (snd (top_entry mA))) = cp_round (snd (snd (top_entry mB))) /\
  hd_hash (fst (snd (top_entry mA))) = [1] /\ hd_hash (fst (snd (top_entry mB))) = [2].
Proof.
  assert (E1 : run_ops (init_state 1 evs) opsA = Ok mA) by (vm_compute; reflexivity).
  assert (E2 : run_ops (init_state 1 evs) opsB = Ok mB) by (vm_compute; reflexivity).
  split; [eapply run_ops_reachable; [apply rb_init| |exact E1]; apply ops_bounded; vm_compute; reflexivity|].
  split; [eapply run_ops_reachable; [apply rb_init| |exact E2]; apply ops_bounded; vm_compute; reflexivity|].
  split; [apply cert_sigs_covers; intros sg H; unfold badV; apply in_or_app; left; exact H|].
  split; [apply cert_sigs_covers; intros sg H; unfold badV; apply in_or_app; right; apply in_or_app; left; exact H|].
  split; [apply hash_bindsb_ok; vm_compute; reflexivity|].
  split; [vm_compute; left; reflexivity|]. split; [vm_compute; left; reflexivity|].
  split; [vm_compute; reflexivity|]. split; vm_compute; reflexivity.
Qed.

(** Everything [mirrors_agree] (and its same-round form) assumes, except A1, holds - with NO
    Byzantine key - and the two mirrors committed different headers at height 1 from certificates
    of the same round: the mirror alone cannot give agreement, A1 is what the validators' signing
    discipline (C02) has to contribute. *)
Theorem mirrors_agree_needs_A1_refuted :
  exists ih ivs s1 s2 V (B : N -> list N),
    1 <= ih /\ vs_ok ivs = true /\ reachable_b ih ivs s1 /\ reachable_b ih ivs s2 /\
    cert_sigs_in V s1 /\ cert_sigs_in V s2 /\ hash_binds_next s1 s2 /\
    (forall h x1 cp1 x2 cp2, In (h, (x1, cp1)) (st_hdrs s1) -> In (h, (x2, cp2)) (st_hdrs s2) ->
       byz_bound (chain_vals ih ivs (st_hdrs s1) h) (B h) /\
       A2m (chain_vals ih ivs (st_hdrs s1) h) (B h) V h /\
       A3m (chain_vals ih ivs (st_hdrs s1) h) (B h) V h) /\
    exists h x1 cp1 x2 cp2,
      In (h, (x1, cp1)) (st_hdrs s1) /\ In (h, (x2, cp2)) (st_hdrs s2) /\
      cp_round cp1 = cp_round cp2 /\ hd_hash x1 <> hd_hash x2.
Proof.
  destruct mA_mB_facts as (R1 & R2 & C1 & C2 & Hb & I1 & I2 & Er & H1 & H2).
  exists 1, evs, mA, mB, badV, (fun _ => []).
  split; [discriminate|]. split; [reflexivity|]. split; [exact R1|]. split; [exact R2|].
  split; [exact C1|]. split; [exact C2|]. split; [exact Hb|]. split.
  - intros h x1 cp1 x2 cp2 J1 J2. apply (hyps_noA1b_ok 1 evs mA badV (fun _ => []) h).
    apply (common_heightsb_ok (hyps_noA1b 1 evs mA badV (fun _ => [])) mA mB) with (e1 := (x1, cp1)) (e2 := (x2, cp2));
      [vm_compute; reflexivity|exact J1|exact J2].
  - exists 1, (fst (snd (top_entry mA))), (snd (snd (top_entry mA))),
           (fst (snd (top_entry mB))), (snd (snd (top_entry mB))).
    rewrite <- !surjective_pairing. split; [exact I1|]. split; [exact I2|]. split; [exact Er|].
    rewrite H1, H2. discriminate.
Qed.

(** The same two mirrors with the three equivocators declared Byzantine: A1, A2, A3 hold, only the
    bound "Byzantine power < ByzantineMinority" fails (3 of 4) - it is necessary as well. *)
Theorem mirrors_agree_needs_byz_bound_refuted :
  exists ih ivs s1 s2 V (B : N -> list N),
    1 <= ih /\ vs_ok ivs = true /\ reachable_b ih ivs s1 /\ reachable_b ih ivs s2 /\
    cert_sigs_in V s1 /\ cert_sigs_in V s2 /\ hash_binds_next s1 s2 /\
    (forall h x1 cp1 x2 cp2, In (h, (x1, cp1)) (st_hdrs s1) -> In (h, (x2, cp2)) (st_hdrs s2) ->
       A1m (chain_vals ih ivs (st_hdrs s1) h) (B h) V h /\
       A2m (chain_vals ih ivs (st_hdrs s1) h) (B h) V h /\
       A3m (chain_vals ih ivs (st_hdrs s1) h) (B h) V h) /\
    exists h x1 cp1 x2 cp2,
      In (h, (x1, cp1)) (st_hdrs s1) /\ In (h, (x2, cp2)) (st_hdrs s2) /\
      cp_round cp1 = cp_round cp2 /\ hd_hash x1 <> hd_hash x2.
Proof.
  destruct mA_mB_facts as (R1 & R2 & C1 & C2 & Hb & I1 & I2 & Er & H1 & H2).
  exists 1, evs, mA, mB, badV, (fun _ => [10; 11; 12]).
  split; [discriminate|]. split; [reflexivity|]. split; [exact R1|]. split; [exact R2|].
  split; [exact C1|]. split; [exact C2|]. split; [exact Hb|]. split.
  - intros h x1 cp1 x2 cp2 J1 J2.
    pose proof (common_heightsb_ok
      (fun h => a1mb (chain_vals 1 evs (st_hdrs mA) h) [10; 11; 12] badV h &&
                a2mb (chain_vals 1 evs (st_hdrs mA) h) [10; 11; 12] badV h &&
                a3mb (chain_vals 1 evs (st_hdrs mA) h) [10; 11; 12] badV h) mA mB) as G.
    specialize (G ltac:(vm_compute; reflexivity) h (x1, cp1) (x2, cp2) J1 J2). cbv beta in G.
    rewrite !andb_true_iff in G. destruct G as ((A & B1) & C).
    split; [apply a1mb_ok; exact A|]. split; [apply a2mb_ok; exact B1|apply a3mb_ok; exact C].
  - exists 1, (fst (snd (top_entry mA))), (snd (snd (top_entry mA))),
           (fst (snd (top_entry mB))), (snd (snd (top_entry mB))).
    rewrite <- !surjective_pairing. split; [exact I1|]. split; [exact I2|]. split; [exact Er|].
    rewrite H1, H2. discriminate.
Qed.
