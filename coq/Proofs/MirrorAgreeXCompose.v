(** C03 over the crash / restart / local-action closures COMPOSED with C02: hypothesis A1 of the
    theorems of Proofs/MirrorAgreeXC.v is discharged from the round state machine model
    ([V_from_machines] of Proofs/ComposeA1.v: every prevote / precommit signature in [V] under a
    key that is correct at its height was emitted by that key's ONE state machine run).

    The Mirror modules are imported first, the state machine modules last ([step], [view], ...
    are the state machine's); nothing below mentions them. *)
From Coq Require Import List NArith Bool.
From GV Require Import Base.Ints Gen.Math Gen.Kernel Model.Network Model.Mirror Model.MirrorMgr
  Proofs.Thresholds Proofs.Network Proofs.MirrorAuth Proofs.MirrorChain Proofs.MirrorCert
  Proofs.MirrorHdrGood Proofs.MirrorActInv Proofs.MirrorResumeInv Proofs.MirrorResume
  Proofs.MirrorTotalM Proofs.MirrorAgree Proofs.MirrorAgreeX Proofs.MirrorHdrGoodX Proofs.MirrorAgreeXC.
From GV Require Import Gen.StepSM Model.StateMachine Proofs.ComposeA1.
Import ListNotations.
Local Open Scope N_scope.

(** from the bundle *)
Theorem mirrors_agree_upto_inv_composed ih ivs (s1 s2 : kstate) V (B : N -> list N) sg runs :
  AgreeInv ih ivs s1 -> AgreeInv ih ivs s2 ->
  cert_sigs_in V s1 -> cert_sigs_in V s2 -> hash_binds_next s1 s2 ->
  V_from_machines V B sg runs ->
  forall h,
  (forall h' x1 cp1 x2 cp2, h' <= h ->
     In (h', (x1, cp1)) (Mirror.st_hdrs s1) -> In (h', (x2, cp2)) (Mirror.st_hdrs s2) ->
     byz_bound (chain_vals ih ivs (Mirror.st_hdrs s1) h') (B h') /\
     (cp_round cp1 = cp_round cp2 \/
      (A2m (chain_vals ih ivs (Mirror.st_hdrs s1) h') (B h') V h' /\
       A3m (chain_vals ih ivs (Mirror.st_hdrs s1) h') (B h') V h'))) ->
  forall x1 cp1 x2 cp2, In (h, (x1, cp1)) (Mirror.st_hdrs s1) -> In (h, (x2, cp2)) (Mirror.st_hdrs s2) ->
    hd_hash x1 = hd_hash x2 /\
    valset_equal (hd_next x1) (hd_next x2) = true /\
    vs_keys (chain_vals ih ivs (Mirror.st_hdrs s1) h) = vs_keys (chain_vals ih ivs (Mirror.st_hdrs s2) h) /\
    vs_pows (chain_vals ih ivs (Mirror.st_hdrs s1) h) = vs_pows (chain_vals ih ivs (Mirror.st_hdrs s2) h).
Proof.
  intros R1 R2 C1 C2 HB HV h Hyp.
  apply (mirrors_agree_upto_inv ih ivs s1 s2 V B R1 R2 C1 C2 HB h).
  intros h' x1 cp1 x2 cp2 Hle I1 I2. destruct (Hyp h' x1 cp1 x2 cp2 Hle I1 I2) as (Hb & Hr).
  split; [exact Hb|]. split; [exact (A1_from_state_machines V B sg runs HV _ h')|exact Hr].
Qed.

(** operations, crashes, restarts: same certificate rounds - no A1 / A2 / A3 hypothesis left *)
Theorem mirrors_agree_same_round_x_composed ih ivs (s1 s2 : kstate) V (B : N -> list N) sg runs :
  1 <= ih -> vwf ivs -> reachable_g ih ivs s1 -> reachable_g ih ivs s2 ->
  cert_sigs_in V s1 -> cert_sigs_in V s2 -> hash_binds_next s1 s2 ->
  V_from_machines V B sg runs ->
  forall h,
  (forall h' x1 cp1 x2 cp2, h' <= h ->
     In (h', (x1, cp1)) (Mirror.st_hdrs s1) -> In (h', (x2, cp2)) (Mirror.st_hdrs s2) ->
     cp_round cp1 = cp_round cp2 /\
     byz_bound (chain_vals ih ivs (Mirror.st_hdrs s1) h') (B h')) ->
  forall x1 cp1 x2 cp2, In (h, (x1, cp1)) (Mirror.st_hdrs s1) -> In (h, (x2, cp2)) (Mirror.st_hdrs s2) ->
    hd_hash x1 = hd_hash x2 /\ valset_equal (hd_next x1) (hd_next x2) = true.
Proof.
  intros Hih Hivs R1 R2 C1 C2 HB HV h Hyp.
  apply (mirrors_agree_same_round_x ih ivs s1 s2 V B Hih Hivs R1 R2 C1 C2 HB h).
  intros h' x1 cp1 x2 cp2 Hle I1 I2. destruct (Hyp h' x1 cp1 x2 cp2 Hle I1 I2) as [Hr Hb].
  split; [exact Hr|]. split; [exact Hb|]. exact (A1_from_state_machines V B sg runs HV _ h').
Qed.

(** all rounds: A1 discharged, A2 and A3 (obligations of the consensus strategy) remain *)
Theorem mirrors_agree_x_composed ih ivs (s1 s2 : kstate) V (B : N -> list N) sg runs :
  1 <= ih -> vwf ivs -> reachable_g ih ivs s1 -> reachable_g ih ivs s2 ->
  cert_sigs_in V s1 -> cert_sigs_in V s2 -> hash_binds_next s1 s2 ->
  V_from_machines V B sg runs ->
  (forall h x1 cp1 x2 cp2, In (h, (x1, cp1)) (Mirror.st_hdrs s1) -> In (h, (x2, cp2)) (Mirror.st_hdrs s2) ->
     byz_bound (chain_vals ih ivs (Mirror.st_hdrs s1) h) (B h) /\
     A2m (chain_vals ih ivs (Mirror.st_hdrs s1) h) (B h) V h /\
     A3m (chain_vals ih ivs (Mirror.st_hdrs s1) h) (B h) V h) ->
  forall h x1 cp1 x2 cp2, In (h, (x1, cp1)) (Mirror.st_hdrs s1) -> In (h, (x2, cp2)) (Mirror.st_hdrs s2) ->
    hd_hash x1 = hd_hash x2 /\
    valset_equal (hd_next x1) (hd_next x2) = true /\
    vs_keys (chain_vals ih ivs (Mirror.st_hdrs s1) h) = vs_keys (chain_vals ih ivs (Mirror.st_hdrs s2) h) /\
    vs_pows (chain_vals ih ivs (Mirror.st_hdrs s1) h) = vs_pows (chain_vals ih ivs (Mirror.st_hdrs s2) h).
Proof.
  intros Hih Hivs R1 R2 C1 C2 HB HV Hyp.
  apply (mirrors_agree_x ih ivs s1 s2 V B Hih Hivs R1 R2 C1 C2 HB).
  intros h x1 cp1 x2 cp2 I1 I2. destruct (Hyp h x1 cp1 x2 cp2 I1 I2) as (Hb & H2 & H3).
  split; [exact Hb|]. split; [exact (A1_from_state_machines V B sg runs HV _ h)|]. split; assumption.
Qed.

Theorem mirrors_agree_upto_x_composed ih ivs (s1 s2 : kstate) V (B : N -> list N) sg runs :
  1 <= ih -> vwf ivs -> reachable_g ih ivs s1 -> reachable_g ih ivs s2 ->
  cert_sigs_in V s1 -> cert_sigs_in V s2 -> hash_binds_next s1 s2 ->
  V_from_machines V B sg runs ->
  forall h,
  (forall h' x1 cp1 x2 cp2, h' <= h ->
     In (h', (x1, cp1)) (Mirror.st_hdrs s1) -> In (h', (x2, cp2)) (Mirror.st_hdrs s2) ->
     byz_bound (chain_vals ih ivs (Mirror.st_hdrs s1) h') (B h') /\
     (cp_round cp1 = cp_round cp2 \/
      (A2m (chain_vals ih ivs (Mirror.st_hdrs s1) h') (B h') V h' /\
       A3m (chain_vals ih ivs (Mirror.st_hdrs s1) h') (B h') V h'))) ->
  forall x1 cp1 x2 cp2, In (h, (x1, cp1)) (Mirror.st_hdrs s1) -> In (h, (x2, cp2)) (Mirror.st_hdrs s2) ->
    hd_hash x1 = hd_hash x2 /\
    valset_equal (hd_next x1) (hd_next x2) = true /\
    vs_keys (chain_vals ih ivs (Mirror.st_hdrs s1) h) = vs_keys (chain_vals ih ivs (Mirror.st_hdrs s2) h) /\
    vs_pows (chain_vals ih ivs (Mirror.st_hdrs s1) h) = vs_pows (chain_vals ih ivs (Mirror.st_hdrs s2) h).
Proof.
  intros Hih Hivs R1 R2. apply mirrors_agree_upto_inv_composed; apply reachable_g_AgreeInv; assumption.
Qed.

(** ... plus entrances, reads and the local validator's own actions *)
Theorem mirrors_agree_upto_m_composed ih ivs (s1 s2 : mstate) V (B : N -> list N) sg runs :
  1 <= ih -> vwf ivs -> mreachable_a ih ivs s1 -> mreachable_a ih ivs s2 ->
  cert_sigs_in V (ms_k s1) -> cert_sigs_in V (ms_k s2) -> hash_binds_next (ms_k s1) (ms_k s2) ->
  V_from_machines V B sg runs ->
  forall h,
  (forall h' x1 cp1 x2 cp2, h' <= h ->
     In (h', (x1, cp1)) (Mirror.st_hdrs (ms_k s1)) -> In (h', (x2, cp2)) (Mirror.st_hdrs (ms_k s2)) ->
     byz_bound (chain_vals ih ivs (Mirror.st_hdrs (ms_k s1)) h') (B h') /\
     (cp_round cp1 = cp_round cp2 \/
      (A2m (chain_vals ih ivs (Mirror.st_hdrs (ms_k s1)) h') (B h') V h' /\
       A3m (chain_vals ih ivs (Mirror.st_hdrs (ms_k s1)) h') (B h') V h'))) ->
  forall x1 cp1 x2 cp2, In (h, (x1, cp1)) (Mirror.st_hdrs (ms_k s1)) -> In (h, (x2, cp2)) (Mirror.st_hdrs (ms_k s2)) ->
    hd_hash x1 = hd_hash x2 /\
    valset_equal (hd_next x1) (hd_next x2) = true /\
    vs_keys (chain_vals ih ivs (Mirror.st_hdrs (ms_k s1)) h) = vs_keys (chain_vals ih ivs (Mirror.st_hdrs (ms_k s2)) h) /\
    vs_pows (chain_vals ih ivs (Mirror.st_hdrs (ms_k s1)) h) = vs_pows (chain_vals ih ivs (Mirror.st_hdrs (ms_k s2)) h).
Proof.
  intros Hih Hivs R1 R2. apply mirrors_agree_upto_inv_composed; apply mreachable_a_AgreeInv; assumption.
Qed.
