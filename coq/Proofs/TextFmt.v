(** Lemmas about the text rendering primitives (Model/TextFmt.v). *)
From Coq Require Import List NArith ZArith String Ascii Bool Lia ZifyBool ZifyN Decimal DecimalN Permutation Sorted.
From GV Require Import Base.Ints Model.TextFmt.
Import ListNotations.
Local Open Scope N_scope.
Ltac Zify.zify_post_hook ::= Z.div_mod_to_equations.

(** ** Decimal rendering is injective on all of N. *)
Lemma uint_chars_inj u v : uint_chars u = uint_chars v -> u = v.
Proof.
  revert v; induction u; intros v; destruct v; cbn [uint_chars]; intros E;
    try discriminate; try reflexivity; injection E as E; f_equal; auto.
Qed.

Lemma dec_inj n m : dec n = dec m -> n = m.
Proof. unfold dec. intros E. apply uint_chars_inj in E. now apply Unsigned.to_uint_inj. Qed.

(** ** Character classes *)
Definition is_hexchar (c : N) : bool := ((48 <=? c) && (c <=? 57)) || ((97 <=? c) && (c <=? 102)).
Definition bytes_ok (l : list N) : Prop := Forall (fun b => b < 256) l.
Definition all_chars (P : N -> bool) (l : list N) : Prop := Forall (fun c => P c = true) l.

Lemma all_chars_app P a b : all_chars P a -> all_chars P b -> all_chars P (a ++ b).
Proof. unfold all_chars. intros. apply Forall_app; auto. Qed.

Lemma all_chars_weaken (P Q : N -> bool) l :
  (forall c, P c = true -> Q c = true) -> all_chars P l -> all_chars Q l.
Proof. unfold all_chars. intros HPQ H. eapply Forall_impl; [|exact H]. auto. Qed.

(** ** Hexadecimal rendering *)
Lemma hexdigit_inj a b : a < 16 -> b < 16 -> hexdigit a = hexdigit b -> a = b.
Proof. unfold hexdigit. intros Ha Hb. destruct (N.ltb_spec a 10), (N.ltb_spec b 10); lia. Qed.

Lemma hexdigit_char a : a < 16 -> is_hexchar (hexdigit a) = true.
Proof. unfold hexdigit, is_hexchar. intros Ha. destruct (N.ltb_spec a 10); lia. Qed.

Lemma hex_cons b l : hex (b :: l) = hexdigit (b / 16) :: hexdigit (b mod 16) :: hex l.
Proof. reflexivity. Qed.

Lemma hex_inj a b : bytes_ok a -> bytes_ok b -> hex a = hex b -> a = b.
Proof.
  revert b; induction a as [|x a IH]; intros [|y b] Ha Hb E; try reflexivity;
    try (rewrite hex_cons in E; discriminate).
  rewrite !hex_cons in E. inversion Ha; inversion Hb; subst.
  injection E as E1 E2 E3.
  apply hexdigit_inj in E1; [|lia|lia]. apply hexdigit_inj in E2; [|lia|lia].
  f_equal; [lia|auto].
Qed.

Lemma hex_chars l : bytes_ok l -> all_chars is_hexchar (hex l).
Proof.
  induction 1 as [|x l Hx Hl IH]; [constructor|].
  rewrite hex_cons. constructor; [apply hexdigit_char; lia|].
  constructor; [apply hexdigit_char; lia|exact IH].
Qed.

Lemma uint_chars_digits u : all_chars is_hexchar (uint_chars u).
Proof. induction u; cbn [uint_chars]; constructor; auto. Qed.

Lemma dec_chars n : all_chars is_hexchar (dec n).
Proof. apply uint_chars_digits. Qed.

(** ** Self-delimiting fields: a payload over an alphabet [P], then a character outside [P]. *)
Lemma split_stop (P : N -> bool) a a' d d' r r' :
  all_chars P a -> all_chars P a' -> P d = false -> P d' = false ->
  a ++ d :: r = a' ++ d' :: r' -> a = a' /\ d :: r = d' :: r'.
Proof.
  revert a'; induction a as [|x a IH]; intros [|y a'] Ha Ha' Hd Hd' E; cbn [app] in E.
  - split; [reflexivity|exact E].
  - inversion Ha'; subst. injection E as E1 E2. subst. congruence.
  - inversion Ha; subst. injection E as E1 E2. subst. congruence.
  - inversion Ha; inversion Ha'; subst. injection E as E1 E2. subst.
    destruct (IH a') as [-> ->]; auto.
Qed.

(** the common case: same delimiter on both sides *)
Lemma split_field (P : N -> bool) d a a' r r' :
  all_chars P a -> all_chars P a' -> P d = false ->
  a ++ d :: r = a' ++ d :: r' -> a = a' /\ r = r'.
Proof.
  intros Ha Ha' Hd E. destruct (split_stop P a a' d d r r') as [-> E2]; auto.
  split; [reflexivity|congruence].
Qed.

Lemma join_one sep x : join sep [x] = x.
Proof. reflexivity. Qed.
Lemma join_cons2 sep x y l : join sep (x :: y :: l) = x ++ sep ++ join sep (y :: l).
Proof. reflexivity. Qed.

(** ** Go string order *)
Lemma lex_leb_refl a : lex_leb a a = true.
Proof. induction a as [|x a IH]; cbn [lex_leb]; [reflexivity|]. rewrite N.ltb_irrefl, N.eqb_refl. exact IH. Qed.

Lemma lex_leb_total a b : lex_leb a b = true \/ lex_leb b a = true.
Proof.
  revert b; induction a as [|x a IH]; intros [|y b]; cbn [lex_leb]; auto.
  destruct (N.ltb_spec x y), (N.ltb_spec y x); auto; try lia.
  assert (x = y) by lia. subst. rewrite N.eqb_refl. apply IH.
Qed.

Lemma lex_leb_antisym a b : lex_leb a b = true -> lex_leb b a = true -> a = b.
Proof.
  revert b; induction a as [|x a IH]; intros [|y b]; cbn [lex_leb]; intros H1 H2;
    try reflexivity; try discriminate.
  destruct (N.ltb_spec x y), (N.ltb_spec y x); try lia.
  - destruct (N.eqb_spec y x); [lia|discriminate].
  - destruct (N.eqb_spec x y); [lia|discriminate].
  - destruct (N.eqb_spec x y); [|discriminate]. subst. rewrite N.eqb_refl in H2. f_equal. auto.
Qed.

Lemma lex_leb_trans a b c : lex_leb a b = true -> lex_leb b c = true -> lex_leb a c = true.
Proof.
  revert b c; induction a as [|x a IH]; intros [|y b] [|z c]; cbn [lex_leb]; intros H1 H2;
    try reflexivity; try discriminate.
  destruct (N.ltb_spec x y), (N.ltb_spec y z), (N.ltb_spec x z); try reflexivity; try lia.
  - destruct (N.eqb_spec y z); [lia|discriminate].
  - destruct (N.eqb_spec x y); [lia|discriminate].
  - destruct (N.eqb_spec x y); [|discriminate]. destruct (N.eqb_spec y z); [|discriminate]. subst.
    rewrite N.eqb_refl. eauto.
Qed.

(** ** sort.Strings *)
Lemma insert_str_perm x l : Permutation (x :: l) (insert_str x l).
Proof.
  induction l as [|y l IH]; cbn [insert_str]; [reflexivity|].
  destruct (lex_leb x y); [reflexivity|].
  rewrite perm_swap. constructor. exact IH.
Qed.

Lemma sort_strings_perm l : Permutation l (sort_strings l).
Proof.
  induction l as [|x l IH]; cbn [sort_strings fold_right]; [reflexivity|].
  etransitivity; [|apply insert_str_perm]. constructor. exact IH.
Qed.

Lemma sort_strings_In x l : In x (sort_strings l) <-> In x l.
Proof.
  split; intros H.
  - eapply Permutation_in; [symmetry; apply sort_strings_perm|exact H].
  - eapply Permutation_in; [apply sort_strings_perm|exact H].
Qed.

Definition str_le (a b : list N) : Prop := lex_leb a b = true.

Lemma insert_str_sorted x l : StronglySorted str_le l -> StronglySorted str_le (insert_str x l).
Proof.
  induction 1 as [|y l Hl IH Hy]; cbn [insert_str].
  - constructor; constructor.
  - destruct (lex_leb x y) eqn:E.
    + constructor; [constructor; assumption|].
      constructor; [exact E|]. eapply Forall_impl; [|exact Hy].
      intros z Hz. eapply lex_leb_trans; eassumption.
    + constructor; [exact IH|].
      assert (Hyx : str_le y x) by (destruct (lex_leb_total x y); [congruence|assumption]).
      eapply Permutation_Forall; [apply insert_str_perm|]. constructor; assumption.
Qed.

Lemma sort_strings_sorted l : StronglySorted str_le (sort_strings l).
Proof.
  induction l as [|x l IH]; cbn [sort_strings fold_right]; [constructor|].
  apply insert_str_sorted. exact IH.
Qed.

Lemma sorted_perm_eq l l' :
  StronglySorted str_le l -> StronglySorted str_le l' -> Permutation l l' -> l = l'.
Proof.
  revert l'; induction l as [|a l IH]; intros l' Hs Hs' Hp.
  - apply Permutation_nil in Hp. now subst.
  - destruct l' as [|b l']; [apply Permutation_sym, Permutation_nil in Hp; discriminate|].
    inversion Hs as [|? ? Hsl Ha]; inversion Hs' as [|? ? Hsl' Hb]; subst.
    assert (a = b) as ->.
    { assert (Hin : In a (b :: l')) by (eapply Permutation_in; [exact Hp|left; reflexivity]).
      assert (Hin' : In b (a :: l)) by (eapply Permutation_in; [symmetry; exact Hp|left; reflexivity]).
      destruct Hin as [->|Hin]; [reflexivity|]. destruct Hin' as [->|Hin']; [reflexivity|].
      rewrite Forall_forall in Ha, Hb. apply lex_leb_antisym; [apply Ha, Hin'|apply Hb, Hin]. }
    f_equal. apply IH; auto. eapply Permutation_cons_inv; exact Hp.
Qed.

(** The result of sort.Strings depends only on the multiset of strings. *)
Lemma sort_strings_perm_eq l l' : Permutation l l' -> sort_strings l = sort_strings l'.
Proof.
  intros Hp. apply sorted_perm_eq; try apply sort_strings_sorted.
  etransitivity; [symmetry; apply sort_strings_perm|].
  etransitivity; [exact Hp|apply sort_strings_perm].
Qed.

Lemma sort_strings_eq_perm l l' : sort_strings l = sort_strings l' -> Permutation l l'.
Proof.
  intros E. etransitivity; [apply sort_strings_perm|]. rewrite E. symmetry. apply sort_strings_perm.
Qed.

(** ** Association lists with unique keys *)
Lemma alookup_In {V} k (v : V) m : alookup k m = Some v -> In (k, v) m.
Proof.
  induction m as [|[k' v'] m IH]; cbn [alookup]; [discriminate|].
  destruct (bytes_eqb k' k) eqn:E.
  - intros H; injection H as ->. apply bytes_eqb_eq in E. subst. now left.
  - intros H. right. auto.
Qed.

Lemma In_alookup {V} k (v : V) m : NoDup (map fst m) -> In (k, v) m -> alookup k m = Some v.
Proof.
  induction m as [|[k' v'] m IH]; cbn [alookup map fst]; intros Hnd Hin; [contradiction|].
  inversion Hnd as [|? ? Hni Hnd']; subst.
  destruct Hin as [E|Hin].
  - injection E as -> ->. now rewrite bytes_eqb_refl.
  - destruct (bytes_eqb k' k) eqn:E.
    + apply bytes_eqb_eq in E. subst. exfalso. apply Hni. apply (in_map fst) in Hin. exact Hin.
    + auto.
Qed.

Lemma alookup_None {V} k (m : list (list N * V)) : alookup k m = None <-> ~ In k (map fst m).
Proof.
  induction m as [|[k' v'] m IH]; cbn [alookup map fst].
  - split; [intros _ []|reflexivity].
  - destruct (bytes_eqb k' k) eqn:E.
    + apply bytes_eqb_eq in E. subst. split; [discriminate|]. intros H. exfalso. apply H. now left.
    + apply bytes_eqb_neq in E. rewrite IH. split.
      * intros H [H1|H1]; [congruence|auto].
      * intros H H1. apply H. now right.
Qed.
