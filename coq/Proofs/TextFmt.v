(** Lemmas about the text rendering primitives (Model/TextFmt.v). *)
From Coq Require Import List NArith ZArith String Ascii Bool Lia ZifyBool ZifyN Decimal DecimalN Permutation Sorted.
From GV Require Import Base.Ints Model.TextFmt.
Import ListNotations.
Local Open Scope N_scope.
Ltac Zify.zify_post_hook ::= Z.div_mod_to_equations.

(** ** Decimal rendering is injective on all of N. *)
Lemma uint_chars_inj u v : uint_chars u = uint_chars v -> u = v.
Proof.
  revert v; induction u; intros v; destruct v; cbn [uint_chars]; intros E;
    try discriminate; try reflexivity; injection E as E; f_equal; auto.
Qed.

Lemma dec_inj n m : dec n = dec m -> n = m.
Proof. unfold dec. intros E. apply uint_chars_inj in E. now apply Unsigned.to_uint_inj. Qed.
