(** Proofs about the model of tmi/votedistribution.go newVoteDistribution. *)
From Coq Require Import List NArith ZArith String Bool Lia ZifyBool ZifyN Permutation.
From GV Require Import Base.Ints Model.VoteSummary Proofs.BytesOrder Proofs.VoteSummary.
Import ListNotations.
Local Open Scope N_scope.

Lemma map_get_add m k v h :
  map_get (map_add m k v) h = if bytes_eqb k h then wrap64 (map_get m k + v) else map_get m h.
Proof.
  induction m as [|[k' v'] m IH]; cbn [map_add map_get].
  - reflexivity.
  - destruct (bytes_eqb k' k) eqn:E; cbn [map_get].
    + apply bytes_eqb_eq in E. subst k'. destruct (bytes_eqb k h); reflexivity.
    + rewrite IH. destruct (bytes_eqb k' h) eqn:E2; [|reflexivity].
      apply bytes_eqb_eq in E2. subst k'.
      destruct (bytes_eqb k h) eqn:E3; [|reflexivity].
      apply bytes_eqb_eq in E3. subst k. rewrite bytes_eqb_refl in E. discriminate.
Qed.

Lemma keys_map_add m k v h : In h (keys (map_add m k v)) <-> h = k \/ In h (keys m).
Proof.
  unfold keys. induction m as [|[k' v'] m IH]; cbn [map_add map fst In].
  - intuition (subst; auto).
  - destruct (bytes_eqb k' k) eqn:E; cbn [map fst In].
    + apply bytes_eqb_eq in E. subst k'. intuition (subst; auto).
    + rewrite IH. intuition (subst; auto).
Qed.

Lemma nodup_map_add m k v : NoDup (keys m) -> NoDup (keys (map_add m k v)).
Proof.
  unfold keys. induction m as [|[k' v'] m IH]; cbn [map_add map fst]; intros Hn.
  - constructor; [intros []|constructor].
  - inversion Hn as [|? ? Hnot Hn']; subst.
    destruct (bytes_eqb k' k) eqn:E; cbn [map fst].
    + apply bytes_eqb_eq in E. subst k'. constructor; assumption.
    + constructor; [|apply IH; assumption].
      intros Hin. apply (keys_map_add m k v k') in Hin. destruct Hin as [->|Hin]; [|contradiction].
      rewrite bytes_eqb_refl in E. discriminate.
Qed.

Lemma dist_entry_get vals : forall i mask h m0 h2,
  map_get (dist_entry i vals mask h m0) h2 =
  if bytes_eqb h h2 then bits_power i vals mask (map_get m0 h) else map_get m0 h2.
Proof.
  induction vals as [|p vs IH]; intros i mask h m0 h2; cbn [dist_entry bits_power].
  - destruct (bytes_eqb h h2) eqn:E; [|reflexivity]. apply bytes_eqb_eq in E. subst. reflexivity.
  - destruct (N.testbit mask i); rewrite IH; [|reflexivity].
    rewrite !map_get_add, bytes_eqb_refl. destruct (bytes_eqb h h2); reflexivity.
Qed.

Lemma dist_entry_keys vals : forall i mask h m0 h2,
  In h2 (keys (dist_entry i vals mask h m0)) -> h2 = h \/ In h2 (keys m0).
Proof.
  induction vals as [|p vs IH]; intros i mask h m0 h2; cbn [dist_entry]; [tauto|].
  destruct (N.testbit mask i); intros Hin; apply IH in Hin; [|exact Hin].
  destruct Hin as [->|Hin]; [tauto|]. apply keys_map_add in Hin. tauto.
Qed.

Lemma dist_entry_nodup vals : forall i mask h m0,
  NoDup (keys m0) -> NoDup (keys (dist_entry i vals mask h m0)).
Proof.
  induction vals as [|p vs IH]; intros i mask h m0 Hn; cbn [dist_entry]; [exact Hn|].
  destruct (N.testbit mask i); apply IH; [apply nodup_map_add|]; exact Hn.
Qed.

Definition dist_step (vals : list N) (st : N * list (hash * N)) (e : entry) : N * list (hash * N) :=
  (N.lor (fst st) (snd e), dist_entry 0 vals (snd e) (fst e) (snd st)).

Record dinv (vals : list N) (l : list entry) (st : N * list (hash * N)) : Prop := mk_dinv {
  dinv_present : fst st = union_mask l;
  dinv_in : forall h m, In (h, m) l -> NoDup (keys l) -> map_get (snd st) h = bp vals m;
  dinv_keys : forall h, In h (keys (snd st)) -> In h (keys l);
  dinv_nodup : NoDup (keys (snd st))
}.

Lemma dinv_step vals l st h m :
  dinv vals l st -> dinv vals (l ++ [(h, m)]) (dist_step vals st (h, m)).
Proof.
  intros I. unfold dist_step. cbn [fst snd]. constructor; cbn [fst snd].
  - rewrite union_mask_snoc, (dinv_present _ _ _ I). reflexivity.
  - intros h2 m2 Hin Hnd. rewrite keys_snoc in Hnd. apply nodup_snoc in Hnd as [Hnd Hnot].
    rewrite dist_entry_get. apply in_app_or in Hin as [Hin|[Heq|[]]].
    + destruct (bytes_eqb h h2) eqn:E.
      * apply bytes_eqb_eq in E. subst h2. exfalso. apply Hnot. apply in_keys_exists. eauto.
      * apply (dinv_in _ _ _ I); assumption.
    + inversion Heq; subst. rewrite bytes_eqb_refl.
      rewrite (map_get_absent (snd st) h2); [reflexivity|].
      intros Hk. apply Hnot. apply (dinv_keys _ _ _ I). exact Hk.
  - intros h2 Hin. rewrite keys_snoc, in_app_iff. apply dist_entry_keys in Hin as [->|Hin].
    + right. left. reflexivity.
    + left. apply (dinv_keys _ _ _ I). exact Hin.
  - apply dist_entry_nodup. apply (dinv_nodup _ _ _ I).
Qed.

Lemma dinv_fold vals l2 : forall l1 st,
  dinv vals l1 st -> dinv vals (l1 ++ l2) (fold_left (dist_step vals) l2 st).
Proof.
  induction l2 as [|[h m] l2 IH]; intros l1 st I; cbn [fold_left].
  - rewrite app_nil_r. exact I.
  - replace (l1 ++ (h, m) :: l2) with ((l1 ++ [(h, m)]) ++ l2) by (rewrite <- app_assoc; reflexivity).
    apply IH. apply dinv_step. exact I.
Qed.

Lemma dinv_final vals entries : dinv vals entries (fold_left (dist_step vals) entries (0, [])).
Proof.
  apply (dinv_fold vals entries [] (0, [])).
  constructor; cbn [fst snd union_mask fold_right keys map In]; try reflexivity; try tauto. constructor.
Qed.

Lemma vote_distribution_unfold vals entries :
  vote_distribution vals entries =
  let st := fold_left (dist_step vals) entries (0, []) in
  mk_dist (set_available vals) (bits_power 0 vals (fst st) 0) (snd st).
Proof.
  unfold vote_distribution. fold (dist_step vals).
  destruct (fold_left (dist_step vals) entries (0, [])) as [p b]. reflexivity.
Qed.

(** newVoteDistribution files the same block powers as the summary, reports the same available
    power, and (after the fix) counts each present validator once. *)
Theorem distribution_spec vals entries :
  sum_powers vals < two64 ->
  let d := vote_distribution vals entries in
  d_available d = sum_powers vals /\
  d_present d = mask_power vals (union_mask entries) /\
  (NoDup (keys entries) -> forall h m, In (h, m) entries -> map_get (d_block d) h = mask_power vals m) /\
  (forall h, In h (keys (d_block d)) -> In h (keys entries)) /\
  NoDup (keys (d_block d)).
Proof.
  intros H. rewrite vote_distribution_unfold. cbv zeta. cbn [d_available d_present d_block].
  pose proof (dinv_final vals entries) as I.
  split; [apply available_spec; exact H|]. split.
  - rewrite (dinv_present _ _ _ I). apply (bp_exact vals _ H).
  - split; [|split].
    + intros Hnd h m Hin. rewrite (dinv_in _ _ _ I h m Hin Hnd). apply bp_exact. exact H.
    + apply (dinv_keys _ _ _ I).
    + apply (dinv_nodup _ _ _ I).
Qed.

Theorem distribution_agrees_with_summary vals entries h m :
  NoDup (keys entries) -> In (h, m) entries ->
  map_get (d_block (vote_distribution vals entries)) h = map_get (p_block (set_powers vals entries)) h.
Proof.
  intros Hnd Hin. rewrite vote_distribution_unfold. cbv zeta. cbn [d_block].
  rewrite (dinv_in _ _ _ (dinv_final vals entries) h m Hin Hnd).
  symmetry. apply block_power_wrap; assumption.
Qed.
