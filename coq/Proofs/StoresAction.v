(** C16 - the action store.
    (1) Unconditionally, for every op sequence: the state is the "latest accepted saves"
        view of the history (load_returns_latest_save), refusals change nothing.
    (2) The FULL contract (one proposal / prevote / precommit per round, one signing key)
        is refuted by four witnesses, and proved under exactly the guard excluding them. *)
From Coq Require Import List NArith Bool Lia.
From GV Require Import Base.Ints Model.Stores Model.StoresEq Monitors.C16m Proofs.Stores.
Import ListNotations.
Local Open Scope N_scope.

Lemma hr_eqb_eq a b : hr_eqb a b = true <-> a = b.
Proof.
  destruct a as [a1 a2], b as [b1 b2]. unfold hr_eqb. simpl. rewrite andb_true_iff, !N.eqb_eq.
  split; [intros [-> ->]; reflexivity | intros H; inversion H; auto].
Qed.
Lemma hr_eqb_refl a : hr_eqb a a = true.
Proof. apply hr_eqb_eq. reflexivity. Qed.

Lemma key_eqb_eq a b : key_eqb a b = true <-> a = b.
Proof.
  destruct a as [a|], b as [b|]; simpl; try (split; [discriminate|discriminate]); try tauto.
  rewrite bytes_eqb_eq. split; [intros ->; reflexivity | intros H; inversion H; reflexivity].
Qed.

(** * How the history functions react to one more completed call *)
Lemma a_ok_at_not_ok x o out : out <> AOk -> a_ok_at x (o, out) = false.
Proof. intros H. destruct o, out; simpl; auto; congruence. Qed.

Lemma a_keys_cons x e hist :
  a_keys x (e :: hist) = if a_ok_at x e then aop_key (fst e) :: a_keys x hist else a_keys x hist.
Proof. unfold a_keys. simpl. destruct (a_ok_at x e); reflexivity. Qed.

Lemma a_ph_cons x o out hist :
  a_ph x ((o, out) :: hist) =
  match o with ASavePH p => if a_ok_at x (o, out) then Some p else a_ph x hist | _ => a_ph x hist end.
Proof.
  unfold a_ph. simpl. destruct o; simpl; rewrite ?andb_false_r, ?andb_true_r; try reflexivity.
  destruct (match out with AOk => _ | _ => _ end); reflexivity.
Qed.

Lemma a_pv_cons x o out hist :
  a_pv x ((o, out) :: hist) =
  match o with ASavePV k _ _ bh sig => if a_ok_at x (o, out) then Some (k, bh, sig) else a_pv x hist | _ => a_pv x hist end.
Proof.
  unfold a_pv. simpl. destruct o; simpl; rewrite ?andb_false_r, ?andb_true_r; try reflexivity.
  destruct (match out with AOk => _ | _ => _ end); reflexivity.
Qed.

Lemma a_pc_cons x o out hist :
  a_pc x ((o, out) :: hist) =
  match o with ASavePC k _ _ bh sig => if a_ok_at x (o, out) then Some (k, bh, sig) else a_pc x hist | _ => a_pc x hist end.
Proof.
  unfold a_pc. simpl. destruct o; simpl; rewrite ?andb_false_r, ?andb_true_r; try reflexivity.
  destruct (match out with AOk => _ | _ => _ end); reflexivity.
Qed.

Lemma a_vote_key_cons x o out hist :
  a_vote_key x ((o, out) :: hist) =
  match o with
  | ASavePV k _ _ _ _ | ASavePC k _ _ _ _ => if a_ok_at x (o, out) then Some k else a_vote_key x hist
  | _ => a_vote_key x hist
  end.
Proof.
  unfold a_vote_key. simpl. destruct o; simpl; rewrite ?andb_false_r, ?andb_true_r; try reflexivity;
  destruct (match out with AOk => _ | _ => _ end); reflexivity.
Qed.

Lemma view_skip x e hist : a_ok_at x e = false -> a_view x (e :: hist) = a_view x hist.
Proof.
  intros H. destruct e as [o out]. unfold a_view, mk_view.
  rewrite a_keys_cons, a_ph_cons, a_pv_cons, a_pc_cons, a_vote_key_cons, H.
  destruct o; reflexivity.
Qed.

Lemma empty_all x hist : a_keys x hist = [] ->
  a_ph x hist = None /\ a_pv x hist = None /\ a_pc x hist = None /\ a_vote_key x hist = None.
Proof.
  induction hist as [|[o out] hist IH]; intros H.
  - repeat split; reflexivity.
  - rewrite a_keys_cons in H. destruct (a_ok_at x (o, out)) eqn:E; [discriminate|].
    rewrite a_ph_cons, a_pv_cons, a_pc_cons, a_vote_key_cons, E. destruct o; apply IH; exact H.
Qed.

(** * The state is the view of the history - for ALL op sequences, no guard *)
Definition base (old : option ra) : ra := match old with Some x => x | None => ra_zero end.
Definition upd (old : option ra) (o : aop) : ra :=
  let b := base old in
  match o with
  | ASavePH p => mkra (ph_h p) (ph_r p) p (ra_key b) (ra_pvt b) (ra_pvs b) (ra_pct b) (ra_pcs b)
  | ASavePV k h r bh sig => mkra h r (ra_ph b) k bh sig (ra_pct b) (ra_pcs b)
  | ASavePC k h r bh sig => mkra h r (ra_ph b) k (ra_pvt b) (ra_pvs b) bh sig
  | ALoad _ _ => b
  end.
Definition is_load (o : aop) : bool := match o with ALoad _ _ => true | _ => false end.

(** Every call either is accepted and rewrites exactly the round's entry, or changes nothing. *)
Lemma astep_shape s o :
  (snd (astep s o) = AOk /\ is_load o = false /\
   fst (astep s o) = al_set (aop_hr o) (upd (aget s (fst (aop_hr o)) (snd (aop_hr o))) o) s) \/
  (snd (astep s o) <> AOk /\ fst (astep s o) = s).
Proof.
  destruct o as [p|k h r bh sig|k h r bh sig|h r]; simpl.
  - destruct (aget s (ph_h p) (ph_r p)) as [x|]; simpl.
    + destruct (N.eqb (ph_h (ra_ph x)) 0); simpl; [left; auto | right; split; [discriminate|reflexivity]].
    + left; auto.
  - destruct (aget s h r) as [x|]; simpl; [|left; auto].
    destruct (is_empty (ra_pvs x)); simpl; [|right; split; [discriminate|reflexivity]].
    unfold key_check. destruct (ra_key x) as [want|]; [|left; auto].
    destruct k as [got|]; [|right; split; [discriminate|reflexivity]].
    destruct (bytes_eqb want got); [left; auto | right; split; [discriminate|reflexivity]].
  - destruct (aget s h r) as [x|]; simpl; [|left; auto].
    destruct (is_empty (ra_pcs x)); simpl; [|right; split; [discriminate|reflexivity]].
    unfold key_check. destruct (ra_key x) as [want|]; [|left; auto].
    destruct k as [got|]; [|right; split; [discriminate|reflexivity]].
    destruct (bytes_eqb want got); [left; auto | right; split; [discriminate|reflexivity]].
  - right. destruct (aget s h r); simpl; split; try discriminate; reflexivity.
Qed.

(** A refused (or panicking) call leaves the state unchanged - in particular a second
    proposal / prevote / precommit and a key change. *)
Lemma action_refusal_keeps_state s o : snd (astep s o) <> AOk -> fst (astep s o) = s.
Proof. intros H. destruct (astep_shape s o) as [[A _]|[_ B]]; [contradiction|exact B]. Qed.

Lemma view_accept x o hist : is_load o = false -> aop_hr o = x ->
  a_view x ((o, AOk) :: hist) = Some (upd (a_view x hist) o).
Proof.
  intros Hl Hx. assert (Hok : a_ok_at x (o, AOk) = true).
  { destruct o; simpl in *; try discriminate; subst; apply hr_eqb_refl. }
  unfold a_view at 1. rewrite a_keys_cons, Hok. f_equal. unfold mk_view.
  rewrite a_ph_cons, a_pv_cons, a_pc_cons, a_vote_key_cons, Hok.
  unfold a_view. destruct (a_keys x hist) eqn:E.
  - destruct (empty_all x hist E) as (E1 & E2 & E3 & E4). rewrite E1, E2, E3, E4.
    destruct o; simpl in *; try discriminate; subst; reflexivity.
  - destruct o; simpl in *; try discriminate; subst; reflexivity.
Qed.

Definition a_R (hist : list (aop * aout)) (s : astate) : Prop :=
  forall h r, aget s h r = a_view (h, r) hist.

Lemma a_R_step hist s o : a_R hist s -> a_R ((o, snd (astep s o)) :: hist) (fst (astep s o)).
Proof.
  intros HR h' r'. destruct (astep_shape s o) as [(A & B & C)|[A B]].
  - rewrite A, C. unfold aget, al_set. simpl.
    destruct (hr_eqb (h', r') (aop_hr o)) eqn:E.
    + apply hr_eqb_eq in E. rewrite (view_accept (h', r') o hist B (eq_sym E)).
      rewrite <- E. simpl. rewrite <- HR. reflexivity.
    + rewrite view_skip. apply HR. destruct o; simpl in *; try discriminate; exact E.
  - rewrite B, view_skip. apply HR. apply a_ok_at_not_ok. exact A.
Qed.

Lemma a_R_run : forall ops hist s, a_R hist s ->
  a_R (rev (trace astep s ops) ++ hist) (run astep s ops).
Proof.
  induction ops as [|o ops IH]; intros hist s HR; simpl; auto.
  destruct (astep s o) as [s' out] eqn:E. simpl.
  rewrite <- app_assoc. simpl. apply IH.
  pose proof (a_R_step hist s o HR) as H. rewrite E in H. exact H.
Qed.

(** load_returns_latest_save, action store: after ANY op sequence a load returns the latest
    accepted proposal, prevote and precommit of the round and the key of the latest accepted
    vote, or RoundUnknown when nothing was accepted there. *)
Lemma action_load_returns_latest_saves : forall ops h r,
  snd (astep (run astep ainit ops) (ALoad h r)) =
  match a_view (h, r) (rev (trace astep ainit ops)) with
  | Some v => ALoaded v
  | None => AErr (ERoundUnknown h r)
  end.
Proof.
  intros ops h r. pose proof (a_R_run ops [] ainit (fun _ _ => eq_refl) h r) as H.
  rewrite app_nil_r in H. simpl. rewrite H. destruct (a_view _ _); reflexivity.
Qed.

(** * The full contract under the guard *)
Definition a_wf (o : aop) : bool := a_guard_nil [] o && a_guard_h0 o && a_guard_sig o.

Definition a_G (hist : list (aop * aout)) : Prop :=
  Forall (fun e : aop * aout => a_wf (fst e) = true) hist /\
  forall x k1 k2, In k1 (a_keys x hist) -> In k2 (a_keys x hist) -> k1 = k2.

Lemma find_in {A} (f : A -> bool) l e : find f l = Some e -> In e l /\ f e = true.
Proof. apply find_some. Qed.

Lemma a_pv_wf x hist k t sg : a_G hist -> a_pv x hist = Some (k, t, sg) ->
  is_empty sg = false /\ In k (a_keys x hist).
Proof.
  intros [HW _] H. unfold a_pv in H.
  destruct (find _ hist) as [[o out]|] eqn:E; [|discriminate].
  apply find_in in E as [Hin Hp]. apply andb_true_iff in Hp as [Hok Hk]. simpl in Hk.
  destruct o; try discriminate. inversion H; subst.
  rewrite Forall_forall in HW. specialize (HW _ Hin). simpl in HW.
  unfold a_wf in HW. simpl in HW. apply andb_true_iff in HW as [_ HW]. apply negb_true_iff in HW.
  split; auto. unfold a_keys. apply in_map_iff. exists (ASavePV k h r t sg, out). split; auto.
  apply filter_In. auto.
Qed.

Lemma a_pc_wf x hist k t sg : a_G hist -> a_pc x hist = Some (k, t, sg) ->
  is_empty sg = false /\ In k (a_keys x hist).
Proof.
  intros [HW _] H. unfold a_pc in H.
  destruct (find _ hist) as [[o out]|] eqn:E; [|discriminate].
  apply find_in in E as [Hin Hp]. apply andb_true_iff in Hp as [Hok Hk]. simpl in Hk.
  destruct o; try discriminate. inversion H; subst.
  rewrite Forall_forall in HW. specialize (HW _ Hin). simpl in HW.
  unfold a_wf in HW. simpl in HW. apply andb_true_iff in HW as [_ HW]. apply negb_true_iff in HW.
  split; auto. unfold a_keys. apply in_map_iff. exists (ASavePC k h r t sg, out). split; auto.
  apply filter_In. auto.
Qed.

Lemma a_ph_wf x hist p : a_G hist -> a_ph x hist = Some p ->
  N.eqb (ph_h p) 0 = false /\ In (ph_key p) (a_keys x hist).
Proof.
  intros [HW _] H. unfold a_ph in H.
  destruct (find _ hist) as [[o out]|] eqn:E; [|discriminate].
  apply find_in in E as [Hin Hp]. apply andb_true_iff in Hp as [Hok Hk]. simpl in Hk.
  destruct o; try discriminate. inversion H; subst.
  rewrite Forall_forall in HW. specialize (HW _ Hin). simpl in HW.
  unfold a_wf in HW. simpl in HW. rewrite andb_true_r in HW. apply andb_true_iff in HW as [_ HW].
  apply negb_true_iff in HW.
  split; auto. unfold a_keys. apply in_map_iff. exists (ASavePH p, out). split; auto.
  apply filter_In. auto.
Qed.

Lemma a_vote_key_wf x hist k : a_G hist -> a_vote_key x hist = Some k ->
  (exists b, k = Some b) /\ In k (a_keys x hist).
Proof.
  intros [HW _] H. unfold a_vote_key in H.
  destruct (find _ hist) as [[o out]|] eqn:E; [|discriminate].
  apply find_in in E as [Hin Hp]. apply andb_true_iff in Hp as [Hok Hk]. simpl in Hk.
  rewrite Forall_forall in HW. specialize (HW _ Hin). simpl in HW. unfold a_wf in HW.
  destruct o; try discriminate; inversion H; subst; simpl in HW;
    (split; [destruct k; [eauto|discriminate] |
             unfold a_keys; apply in_map_iff; eexists; split; [|apply filter_In; split; [exact Hin|exact Hok]]; reflexivity]).
Qed.

Lemma a_first_key_in x hist k0 : a_first_key x hist = Some k0 -> In k0 (a_keys x hist).
Proof.
  unfold a_first_key. destruct (rev (a_keys x hist)) eqn:E; [discriminate|].
  intros H. inversion H; subst. apply in_rev. rewrite E. left. reflexivity.
Qed.

Lemma a_first_key_none x hist : a_first_key x hist = None -> a_keys x hist = [].
Proof.
  unfold a_first_key. destruct (rev (a_keys x hist)) eqn:E; [|discriminate].
  intros _. rewrite <- (rev_involutive (a_keys x hist)), E. reflexivity.
Qed.

Lemma keys_src x hist : a_keys x hist <> [] -> a_ph x hist <> None \/ a_vote_key x hist <> None.
Proof.
  induction hist as [|[o out] hist IH]; intros H; [contradiction|].
  rewrite a_keys_cons in H. rewrite a_ph_cons, a_vote_key_cons.
  destruct (a_ok_at x (o, out)) eqn:E.
  - destruct o; simpl in E; try discriminate; [left|right|right]; discriminate.
  - destruct o; apply IH; exact H.
Qed.

(** the key rule gives AOk exactly when the new key agrees with every recorded key *)
Lemma key_rule_ok kd x hist k : a_G hist ->
  (forall k', In k' (a_keys x hist) -> k' = k) -> a_key_rule kd x hist k = AOk.
Proof.
  intros HG H. unfold a_key_rule. destruct (a_first_key x hist) as [k0|] eqn:E; auto.
  apply a_first_key_in in E. rewrite (H _ E), key_eqb_refl. reflexivity.
Qed.

Lemma key_rule_ok_inv kd x hist k : a_G hist -> a_key_rule kd x hist k = AOk ->
  forall k', In k' (a_keys x hist) -> k' = k.
Proof.
  intros [_ HK] H k' Hin. unfold a_key_rule in H.
  destruct (a_first_key x hist) as [k0|] eqn:E.
  - destruct (key_eqb k0 k) eqn:E2; [|discriminate]. apply key_eqb_eq in E2. subst.
    apply a_first_key_in in E. apply (HK x); auto.
  - apply a_first_key_none in E. rewrite E in Hin. contradiction.
Qed.

(** Outputs: under the guard the model answers exactly as the full contract requires. *)
Lemma a_out_step hist s o : a_R hist s -> a_G hist -> a_guard hist o = true ->
  snd (astep s o) = a_expected hist o.
Proof.
  intros HR HG Hg. unfold a_guard in Hg.
  apply andb_true_iff in Hg as [Hg Hpk]. apply andb_true_iff in Hg as [Hg Hsig].
  apply andb_true_iff in Hg as [Hnil Hh0].
  destruct o as [p|k h r bh sig|k h r bh sig|h r]; simpl in *.
  - (* proposal *)
    rewrite HR. unfold a_view.
    destruct (a_keys (ph_h p, ph_r p) hist) as [|k1 ks] eqn:E.
    + destruct (empty_all _ _ E) as (E1 & _). rewrite E1. unfold a_key_rule, a_first_key. rewrite E. reflexivity.
    + simpl. destruct (a_ph (ph_h p, ph_r p) hist) as [q|] eqn:E1.
      * destruct (a_ph_wf _ _ _ HG E1) as [A _]. rewrite A. reflexivity.
      * simpl. symmetry. apply key_rule_ok; auto. intros k' Hin. rewrite E in Hin.
        rewrite forallb_forall in Hpk. specialize (Hpk _ Hin). apply key_eqb_eq in Hpk. auto.
  - (* prevote *)
    destruct k as [kk|]; [|discriminate].
    rewrite HR. unfold a_view.
    destruct (a_keys (h, r) hist) as [|k1 ks] eqn:E.
    + destruct (empty_all _ _ E) as (_ & E2 & _). rewrite E2. unfold a_key_rule, a_first_key. rewrite E. reflexivity.
    + simpl. destruct (a_pv (h, r) hist) as [[[k2 t2] s2]|] eqn:E2.
      * destruct (a_pv_wf _ _ _ _ _ HG E2) as [A _]. rewrite A. reflexivity.
      * simpl. destruct (a_vote_key (h, r) hist) as [kv|] eqn:E4.
        -- destruct (a_vote_key_wf _ _ _ HG E4) as [[want ->] Hin]. simpl.
           assert (F : a_first_key (h, r) hist = Some (Some want)).
           { destruct (a_first_key (h, r) hist) as [k0|] eqn:E5.
             - f_equal. destruct HG as [_ HK]. apply (HK (h, r)); auto. apply a_first_key_in. exact E5.
             - apply a_first_key_none in E5. rewrite E5 in E. discriminate. }
           unfold a_key_rule. rewrite F. simpl. destruct (bytes_eqb want kk); reflexivity.
        -- simpl. symmetry. apply key_rule_ok; auto. intros k' Hin.
           destruct (keys_src (h, r) hist) as [Hp|Hv]; [rewrite E; discriminate | | congruence].
           destruct (a_ph (h, r) hist) as [q|] eqn:E1; [|congruence].
           apply key_eqb_eq in Hpk. rewrite <- Hpk.
           destruct HG as [HW HK]. apply (HK (h, r)); auto.
           apply (a_ph_wf _ _ _ (conj HW HK) E1).
  - (* precommit *)
    destruct k as [kk|]; [|discriminate].
    rewrite HR. unfold a_view.
    destruct (a_keys (h, r) hist) as [|k1 ks] eqn:E.
    + destruct (empty_all _ _ E) as (_ & _ & E3 & _). rewrite E3. unfold a_key_rule, a_first_key. rewrite E. reflexivity.
    + simpl. destruct (a_pc (h, r) hist) as [[[k2 t2] s2]|] eqn:E2.
      * destruct (a_pc_wf _ _ _ _ _ HG E2) as [A _]. rewrite A. reflexivity.
      * simpl. destruct (a_vote_key (h, r) hist) as [kv|] eqn:E4.
        -- destruct (a_vote_key_wf _ _ _ HG E4) as [[want ->] Hin]. simpl.
           assert (F : a_first_key (h, r) hist = Some (Some want)).
           { destruct (a_first_key (h, r) hist) as [k0|] eqn:E5.
             - f_equal. destruct HG as [_ HK]. apply (HK (h, r)); auto. apply a_first_key_in. exact E5.
             - apply a_first_key_none in E5. rewrite E5 in E. discriminate. }
           unfold a_key_rule. rewrite F. simpl. destruct (bytes_eqb want kk); reflexivity.
        -- simpl. symmetry. apply key_rule_ok; auto. intros k' Hin.
           destruct (keys_src (h, r) hist) as [Hp|Hv]; [rewrite E; discriminate | | congruence].
           destruct (a_ph (h, r) hist) as [q|] eqn:E1; [|congruence].
           apply key_eqb_eq in Hpk. rewrite <- Hpk.
           destruct HG as [HW HK]. apply (HK (h, r)); auto.
           apply (a_ph_wf _ _ _ (conj HW HK) E1).
  - rewrite HR. destruct (a_view (h, r) hist); reflexivity.
Qed.

Lemma a_G_step hist o out : a_G hist -> a_guard hist o = true ->
  (out = AOk -> a_expected hist o = AOk) -> a_G ((o, out) :: hist).
Proof.
  intros HG Hg Hexp. pose proof HG as [HW HK]. split.
  - constructor; [|exact HW]. simpl. unfold a_guard in Hg. unfold a_wf.
    apply andb_true_iff in Hg as [Hg _]. exact Hg.
  - intros x k1 k2. rewrite a_keys_cons. destruct (a_ok_at x (o, out)) eqn:E; [|apply HK].
    assert (out = AOk) by (destruct o, out; simpl in E; try discriminate; reflexivity). subst out.
    assert (Hx : aop_hr o = x /\ is_load o = false).
    { destruct o; simpl in E; try discriminate; apply hr_eqb_eq in E; auto. }
    destruct Hx as [Hx Hl]. specialize (Hexp eq_refl).
    assert (Hall : forall k', In k' (a_keys x hist) -> k' = aop_key o).
    { subst x. destruct o as [p|k h r bh sig|k h r bh sig|h r]; simpl in *; try discriminate.
      - destruct (a_ph (ph_h p, ph_r p) hist); [discriminate|]. eapply key_rule_ok_inv; eauto.
      - destruct (a_pv (h, r) hist); [discriminate|]. eapply key_rule_ok_inv; eauto.
      - destruct (a_pc (h, r) hist); [discriminate|]. eapply key_rule_ok_inv; eauto. }
    simpl. intros [<-|H1] [<-|H2]; auto.
    + symmetry. auto.
    + apply (HK x); auto.
Qed.

Definition a_RG (hist : list (aop * aout)) (s : astate) : Prop := a_R hist s /\ a_G hist.

Lemma a_RG_step hist s o : a_RG hist s -> a_guard hist o = true ->
  snd (astep s o) = a_expected hist o /\ a_RG ((o, snd (astep s o)) :: hist) (fst (astep s o)).
Proof.
  intros [HR HG] Hg. pose proof (a_out_step hist s o HR HG Hg) as Ho.
  split; auto. split.
  - apply a_R_step. exact HR.
  - apply a_G_step; auto. intros H. rewrite <- Ho. exact H.
Qed.

Lemma a_guards_is_guarded hist tr : a_guards_go hist tr = guarded a_guard hist tr.
Proof. revert hist; induction tr as [|[o out] tr IH]; intros; simpl; [reflexivity|rewrite IH; reflexivity]. Qed.

(** Under the guard, for every op sequence, the action store meets the FULL contract. *)
Lemma action_contract_partial : forall ops,
  a_guards (trace astep ainit ops) = true -> a_mon (trace astep ainit ops) = 0.
Proof.
  intros ops Hg. unfold a_mon, mon_run. unfold a_guards in Hg. rewrite a_guards_is_guarded in Hg.
  assert (I : a_RG [] ainit).
  { split.
    - intros h r; reflexivity.
    - split.
      + constructor.
      + intros x k1 k2 H; destruct H. }
  destruct (refine_gen astep a_expected aout_eqb a_classify a_guard a_RG aout_eqb_refl a_RG_step ops [] ainit 0 I Hg) as [A _].
  exact A.
Qed.

(** The four argument classes on which the full contract fails (each replayed on the real
    store by the check: corpus cases named finding-...). *)
Definition w_empty_sig : list aop :=
  [ASavePV (Some [1]) 1 0 [170] []; ASavePV (Some [1]) 1 0 [187] [7]; ALoad 1 0].
Definition w_height0 : list aop :=
  [ASavePH (mkph 0 0 [170] (Some [1]) 1); ASavePH (mkph 0 0 [187] (Some [1]) 2); ALoad 0 0].
Definition w_proposal_key : list aop :=
  [ASavePH (mkph 1 0 [170] (Some [1]) 1); ASavePV (Some [2]) 1 0 [170] [7]; ALoad 1 0].
Definition w_nil_key : list aop :=
  [ASavePV None 1 0 [170] [7]; ASavePC (Some [2]) 1 0 [170] [8]; ALoad 1 0].

Lemma action_contract_full_refuted :
  a_mon (trace astep ainit w_empty_sig) = 104 /\
  a_mon (trace astep ainit w_height0) = 103 /\
  a_mon (trace astep ainit w_proposal_key) = 105 /\
  a_mon (trace astep ainit w_nil_key) = 102.
Proof. repeat split; vm_compute; reflexivity. Qed.

Lemma action_contract_full_refuted_ex : exists ops, a_mon (trace astep ainit ops) <> 0.
Proof. exists w_empty_sig. vm_compute. discriminate. Qed.

(** Readable corollaries of the guarded contract. *)
Definition guarded_ops (ops : list aop) : Prop := a_guards (trace astep ainit ops) = true.

Lemma a_RG_run : forall ops, guarded_ops ops ->
  a_RG (rev (trace astep ainit ops)) (run astep ainit ops).
Proof.
  intros ops Hg. unfold guarded_ops, a_guards in Hg. rewrite a_guards_is_guarded in Hg.
  assert (I : a_RG [] ainit).
  { split.
    - intros h r; reflexivity.
    - split.
      + constructor.
      + intros x k1 k2 H; destruct H. }
  destruct (refine_gen astep a_expected aout_eqb a_classify a_guard a_RG aout_eqb_refl a_RG_step ops [] ainit 0 I Hg) as [_ B].
  rewrite app_nil_r in B. exact B.
Qed.

Lemma a_pv_after_accept : forall hist k h r bh sig,
  a_pv (h, r) ((ASavePV k h r bh sig, AOk) :: hist) = Some (k, bh, sig).
Proof. intros. rewrite a_pv_cons. simpl. rewrite hr_eqb_refl. reflexivity. Qed.

(** A second prevote for a height/round is refused with DoubleAction and changes nothing,
    whatever happened in between (guarded sequences). Same for precommit and proposal. *)
Lemma a_pv_persists : forall tr hist x v, a_pv x hist = Some v -> exists v', a_pv x (tr ++ hist) = Some v'.
Proof.
  induction tr as [|[o out] tr IH]; intros hist x v H; simpl; eauto.
  rewrite a_pv_cons. destruct (IH hist x v H) as [v' Hv']. destruct o; eauto.
  destruct (a_ok_at x _); eauto.
Qed.
Lemma a_pc_persists : forall tr hist x v, a_pc x hist = Some v -> exists v', a_pc x (tr ++ hist) = Some v'.
Proof.
  induction tr as [|[o out] tr IH]; intros hist x v H; simpl; eauto.
  rewrite a_pc_cons. destruct (IH hist x v H) as [v' Hv']. destruct o; eauto.
  destruct (a_ok_at x _); eauto.
Qed.
Lemma a_ph_persists : forall tr hist x v, a_ph x hist = Some v -> exists v', a_ph x (tr ++ hist) = Some v'.
Proof.
  induction tr as [|[o out] tr IH]; intros hist x v H; simpl; eauto.
  rewrite a_ph_cons. destruct (IH hist x v H) as [v' Hv']. destruct o; eauto.
  destruct (a_ok_at x _); eauto.
Qed.

Lemma trace_app {St Op Out} (step : St -> Op -> St * Out) s a b :
  trace step s (a ++ b) = trace step s a ++ trace step (run step s a) b.
Proof.
  revert s; induction a as [|o a IH]; intros; simpl; auto.
  destruct (step s o) as [s' out]. simpl. rewrite IH. reflexivity.
Qed.

Lemma guarded_app : forall a b hist s,
  guarded a_guard hist (trace astep s (a ++ b)) = true ->
  guarded a_guard hist (trace astep s a) = true /\
  guarded a_guard (rev (trace astep s a) ++ hist) (trace astep (run astep s a) b) = true.
Proof.
  induction a as [|o a IH]; intros b hist s H; simpl in *.
  - split; auto.
  - destruct (astep s o) as [s' out] eqn:E. simpl in *.
    apply andb_true_iff in H as [H1 H2]. rewrite H1. simpl.
    destruct (IH b _ _ H2) as [A B]. split; auto. rewrite <- app_assoc. exact B.
Qed.

Lemma guarded_single hist s o :
  guarded a_guard hist (trace astep s [o]) = true -> a_guard hist o = true.
Proof.
  change (trace astep s [o]) with (let '(s', out) := astep s o in [(o, out)]).
  destruct (astep s o) as [s' out]. cbn [guarded]. intros H. apply andb_true_iff in H as [A _]. exact A.
Qed.

(** A second prevote for a height/round is refused with DoubleAction and changes nothing,
    whatever happened in between (guarded sequences). *)
Lemma action_single_prevote : forall ops1 ops2 k h r bh sig k' bh' sig',
  guarded_ops (ops1 ++ ASavePV k h r bh sig :: ops2 ++ [ASavePV k' h r bh' sig']) ->
  snd (astep (run astep ainit ops1) (ASavePV k h r bh sig)) = AOk ->
  let s := run astep ainit (ops1 ++ ASavePV k h r bh sig :: ops2) in
  astep s (ASavePV k' h r bh' sig') = (s, AErr (EDoubleAction KPrevote)).
Proof.
  intros ops1 ops2 k h r bh sig k' bh' sig' Hg Hok s.
  set (pre := ops1 ++ ASavePV k h r bh sig :: ops2) in *.
  unfold guarded_ops, a_guards in Hg. rewrite a_guards_is_guarded in Hg.
  replace (ops1 ++ ASavePV k h r bh sig :: ops2 ++ [ASavePV k' h r bh' sig'])
    with (pre ++ [ASavePV k' h r bh' sig']) in Hg by (unfold pre; rewrite <- app_assoc; reflexivity).
  apply guarded_app in Hg as [Hgp Hgo]. rewrite app_nil_r in Hgo.
  assert (Hgo' : a_guard (rev (trace astep ainit pre)) (ASavePV k' h r bh' sig') = true).
  { eapply guarded_single. exact Hgo. }
  assert (Hgp' : guarded_ops pre).
  { unfold guarded_ops, a_guards. rewrite a_guards_is_guarded. exact Hgp. }
  destruct (a_RG_run pre Hgp') as [HR HG].
  assert (Hout : snd (astep s (ASavePV k' h r bh' sig')) = AErr (EDoubleAction KPrevote)).
  { unfold s. rewrite (a_out_step _ _ _ HR HG Hgo'). simpl.
    assert (exists v, a_pv (h, r) (rev (trace astep ainit pre)) = Some v) as [v ->]; [|reflexivity].
    unfold pre. rewrite trace_app. cbn [trace].
    destruct (astep (run astep ainit ops1) (ASavePV k h r bh sig)) as [s1 o1] eqn:E. cbn [snd] in Hok. subst o1.
    rewrite rev_app_distr. cbn [rev]. rewrite <- ?app_assoc. cbn [app].
    eapply a_pv_persists. rewrite a_pv_cons. simpl. rewrite hr_eqb_refl. reflexivity. }
  rewrite (surjective_pairing (astep s _)). rewrite Hout. f_equal.
  apply action_refusal_keeps_state. rewrite Hout. discriminate.
Qed.

(** One-step forms of the refusal conditions, for ANY state (no guard): which stored
    entries make the next save fail, with which error, leaving the state unchanged. *)
Lemma action_double_proposal_refused : forall s p x,
  aget s (ph_h p) (ph_r p) = Some x -> ph_h (ra_ph x) <> 0 ->
  astep s (ASavePH p) = (s, AErr (EDoubleAction KProposal)).
Proof. intros s p x H Hz. simpl. rewrite H. apply N.eqb_neq in Hz. rewrite Hz. reflexivity. Qed.

Lemma action_double_prevote_refused : forall s k h r bh sig x,
  aget s h r = Some x -> ra_pvs x <> [] ->
  astep s (ASavePV k h r bh sig) = (s, AErr (EDoubleAction KPrevote)).
Proof. intros s k h r bh sig x H Hz. simpl. rewrite H. destruct (ra_pvs x); [contradiction|reflexivity]. Qed.

Lemma action_double_precommit_refused : forall s k h r bh sig x,
  aget s h r = Some x -> ra_pcs x <> [] ->
  astep s (ASavePC k h r bh sig) = (s, AErr (EDoubleAction KPrecommit)).
Proof. intros s k h r bh sig x H Hz. simpl. rewrite H. destruct (ra_pcs x); [contradiction|reflexivity]. Qed.

Lemma action_key_change_refused : forall s h r bh sig x want got,
  aget s h r = Some x -> ra_key x = Some want -> got <> want ->
  (ra_pvs x = [] -> astep s (ASavePV (Some got) h r bh sig) = (s, AErr (EPubKeyChanged KPrevote want got))) /\
  (ra_pcs x = [] -> astep s (ASavePC (Some got) h r bh sig) = (s, AErr (EPubKeyChanged KPrecommit want got))).
Proof.
  intros s h r bh sig x want got H Hk Hne.
  assert (E : bytes_eqb want got = false).
  { apply bytes_eqb_neq. congruence. }
  split; intros Hs; simpl; rewrite H, Hs, Hk; simpl; rewrite E; reflexivity.
Qed.

(** Non-vacuity: a guarded sequence that exercises acceptance, both refusals and a load. *)
Definition ex_guarded : list aop :=
  [ASavePH (mkph 1 0 [170] (Some [1]) 1); ASavePV (Some [1]) 1 0 [170] [7];
   ASavePV (Some [1]) 1 0 [187] [8]; ASavePC (Some [1]) 1 0 [170] [9];
   ASavePH (mkph 1 0 [187] (Some [1]) 2);
   ASavePV (Some [1]) 2 0 [170] [7]; ASavePC (Some [2]) 2 0 [170] [9];
   ALoad 1 0; ALoad 3 0].
Example ex_guarded_ok :
  guarded_ops ex_guarded /\
  map snd (trace astep ainit ex_guarded) =
  [AOk; AOk; AErr (EDoubleAction KPrevote); AOk; AErr (EDoubleAction KProposal);
   AOk; AErr (EPubKeyChanged KPrecommit [1] [2]);
   ALoaded (mkra 1 0 (mkph 1 0 [170] (Some [1]) 1) (Some [1]) [170] [7] [170] [9]);
   AErr (ERoundUnknown 3 0)].
Proof. split; vm_compute; reflexivity. Qed.

(** model_satisfies_monitor for the monitor the check evaluates, ALL op sequences: the
    model never departs from the full contract while the calls so far satisfy the guard;
    so [a_mon_checked] of a model trace is 0 or the code of a recorded finding class reached
    outside the guard. *)
Lemma action_model_never_diverges_in_guard : forall ops,
  a_div_in_guard 0 [] (trace astep ainit ops) true = None.
Proof.
  assert (G : forall ops hist s i g, (g = true -> a_RG hist s) ->
            a_div_in_guard i hist (trace astep s ops) g = None).
  { induction ops as [|o ops IH]; intros hist s i g Hg; [reflexivity|].
    cbn [trace]. destruct (astep s o) as [s' out] eqn:E. cbn [a_div_in_guard].
    destruct (g && a_guard hist o) eqn:Eg.
    - apply andb_true_iff in Eg as [-> Hgo].
      destruct (a_RG_step hist s o (Hg eq_refl) Hgo) as [Ho HRG]. rewrite E in Ho, HRG. simpl in Ho, HRG.
      rewrite <- Ho, aout_eqb_refl. apply IH. intros _. exact HRG.
    - destruct (aout_eqb (a_expected hist o) out); [|reflexivity].
      apply IH. discriminate. }
  intros ops. apply G. intros _. split.
  - intros h r; reflexivity.
  - split; [constructor|]. intros x k1 k2 H; destruct H.
Qed.

Lemma action_model_satisfies_checked_monitor : forall ops,
  a_mon_checked (trace astep ainit ops) = a_mon (trace astep ainit ops) /\
  (a_guards (trace astep ainit ops) = true -> a_mon_checked (trace astep ainit ops) = 0).
Proof.
  intros ops. unfold a_mon_checked. rewrite action_model_never_diverges_in_guard. split; auto.
  apply action_contract_partial.
Qed.
