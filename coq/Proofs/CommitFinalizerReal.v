(** The composition theorem of Proofs/CommitFinalizer.v instantiated with the sign bytes of the simple
    signature scheme (Model/SignBytes.v); injectivity on block hashes is C15's [sign_bytes_injective]. *)
From Coq Require Import List NArith ZArith String Bool Lia.
From GV Require Import Base.Ints Model.SimpleProofBase Model.SimpleProof Model.CommitFinalizer
  Model.SignBytes Proofs.TextFmt Proofs.SignBytes Proofs.SimpleInv Proofs.SimpleFinalize Proofs.CommitFinalizer.
Import ListNotations.
Local Open Scope N_scope.

Definition real_sb (h r : N) (bh : list N) : list N :=
  precommit_sign_bytes (Build_vote_target h r bh).

Lemma real_sb_inj h r a b : bytes_ok a -> bytes_ok b -> real_sb h r a = real_sb h r b -> a = b.
Proof.
  intros Ha Hb E. unfold real_sb in E.
  destruct (sign_bytes_injective Precommit Precommit (Build_vote_target h r a) (Build_vote_target h r b) Ha Hb E)
    as [_ Ev].
  congruence.
Qed.

Theorem cpf_then_receive_real h r keys committed p :
  keys <> [] -> N.of_nat (List.length keys) <= 65536 ->
  NoDup (map fst (cp_proofs p)) -> In committed (map fst (cp_proofs p)) ->
  (forall a, In a (map fst (cp_proofs p)) -> bytes_ok a) ->
  (forall e, In e (cp_proofs p) -> entry_ok keys (real_sb h r (fst e)) (snd e)) ->
  exists out, cpf_finalize (real_sb h r) keys committed p = Ok (inl out) /\
    cp_round out = cp_round p /\ cp_pkh out = cp_pkh p /\
    cp_receive (real_sb h r) keys committed out =
      Ok (Some (map (fun e => (fst e, signers keys (real_sb h r (fst e)) (snd e))) (cp_order committed (cp_proofs p))),
          pairwise_disjoint (map (fun e => signers keys (real_sb h r (fst e)) (snd e)) (cp_order committed (cp_proofs p)))).
Proof.
  intros NE LE ND HC BO OK.
  destruct (cpf_then_receive (real_sb h r) keys committed p NE LE ND HC) as (out & E & R & H & _ & V).
  - intros a b Ha Hb. apply real_sb_inj; apply BO; assumption.
  - exact OK.
  - exists out. auto.
Qed.

(** Non-vacuity. Keys 10, 20, 30; block [170] precommitted by validators 0 and 2, block [187] by validator 1. *)
Definition ex_cpf_keys : list N := [10; 20; 30].
Definition ex_cpf_proof : commit_proof :=
  mk_cp 1 [7]
    [ ([187], [([0; 1], Good 20 (real_sb 5 1 [187]) 0)]);
      ([170], [([0; 2], Good 30 (real_sb 5 1 [170]) 0); ([0; 0], Good 10 (real_sb 5 1 [170]) 0)]) ].

Example cpf_example :
  exists out, cpf_finalize (real_sb 5 1) ex_cpf_keys [170] ex_cpf_proof = Ok (inl out) /\
    cp_receive (real_sb 5 1) ex_cpf_keys [170] out = Ok (Some [([170], 5); ([187], 2)], true).
Proof. eexists. split; vm_compute; reflexivity. Qed.

Example cpf_example_hypotheses :
  NoDup (map fst (cp_proofs ex_cpf_proof)) /\ In [170] (map fst (cp_proofs ex_cpf_proof)) /\
  (forall e, In e (cp_proofs ex_cpf_proof) -> entry_ok ex_cpf_keys (real_sb 5 1 (fst e)) (snd e)).
Proof.
  split.
  { cbn. repeat (apply NoDup_cons; [cbn [In]; intros H; repeat (destruct H as [H|H]; [discriminate H|]); exact H|]).
    apply NoDup_nil. }
  split; [cbn; auto|].
  intros e [<-|[<-|[]]]; unfold entry_ok, signers; vm_compute; split; [reflexivity|discriminate|reflexivity|discriminate].
Qed.
