(** C13 (BLS finalized proofs) - the round trip stated on bit masks (what SignatureBitSet returns). *)
From Coq Require Import List NArith ZArith String Bool Lia ZifyBool ZifyN ZifyNat Permutation Sorted.
From GV Require Import Base.Ints Base.GoBytes Model.SimpleProofBase Model.CombIndex Model.BlsFinal
  Proofs.CombIndex Proofs.BlsFinalBase Proofs.BlsFinalSort Proofs.BlsFinal.
Import ListNotations.
Local Open Scope N_scope.

Lemma mask_of_positions n b : (0 <= n)%Z -> below n b -> mask_of (positions n b) = b.
Proof.
  intros Hn Hb. apply N.bits_inj. intros j. rewrite mask_of_testbit. unfold positions.
  destruct (N.testbit b j) eqn:E.
  - apply existsb_exists. exists (Z.of_N j). split; [|lia].
    apply filter_In. split; [apply In_zrange_iff; pose proof (Hb j E); lia|rewrite N2Z.id; exact E].
  - apply not_true_is_false. intros H. apply existsb_exists in H as (x & Hx & Ex).
    apply filter_In in Hx as [_ Hx]. apply N.eqb_eq in Ex. subst j. congruence.
Qed.

Lemma positions_asc n b : (0 <= n)%Z -> asc_in n (positions n b).
Proof.
  intros Hn. unfold asc_in, positions.
  pose proof (filter_zrange_asc (fun i => N.testbit b (Z.to_N i)) (Z.to_nat n) 0) as H.
  replace (0 + Z.of_nat (Z.to_nat n))%Z with n in H by lia. exact H.
Qed.

(** The block (sign content, signer list) of a proof object. *)
Definition blk (n : Z) (p : fproof) : block := (fp_msg p, positions n (fp_bits p)).

Lemma fp_of_blk n p : (0 <= n)%Z -> below n (fp_bits p) -> fp_of (blk n p) = p.
Proof.
  intros Hn Hb. destruct p as [m b]. unfold fp_of, blk. cbn [fst snd fp_msg fp_bits] in *.
  rewrite mask_of_positions by assumption. reflexivity.
Qed.

Lemma map_fp_of_blk n l : (0 <= n)%Z -> Forall (fun p => below n (fp_bits p)) l -> map fp_of (map (blk n) l) = l.
Proof.
  intros Hn H. induction H as [|p l Hp _ IH]; [reflexivity|]. cbn [map]. rewrite IH, fp_of_blk by assumption. reflexivity.
Qed.

Lemma positions_nil_iff n b : (0 <= n)%Z -> below n b -> (positions n b = [] <-> b = 0).
Proof.
  intros Hn Hb. split; intros H.
  - rewrite <- (mask_of_positions n b Hn Hb), H. reflexivity.
  - subst b. unfold positions. induction (zrange 0 (Z.to_nat n)) as [|x l IH]; [reflexivity|].
    cbn [filter]. rewrite N.bits_0. exact IH.
Qed.

(** finalize_validate_roundtrip on proof objects: every SigBits below n, main not empty, no key index in two
    of the bit sets, distinct sign contents with distinct hashes. *)
Theorem finalize_validate_roundtrip_masks : forall n main rest hashes hf,
  (0 <= n < 65536)%Z ->
  Forall (fun p => below n (fp_bits p)) (main :: rest) ->
  fp_bits main <> 0 ->
  NoDup (List.concat (map (fun p => positions n (fp_bits p)) (main :: rest))) ->
  NoDup (map fp_msg (main :: rest)) ->
  (forall p, In p (main :: rest) -> alist_find (fp_msg p) hashes = Some (hf (fp_msg p))) ->
  NoDup (map (fun p => hf (fp_msg p)) (main :: rest)) ->
  exists sorted, Permutation sorted rest /\ StronglySorted blt sorted /\
    finalize_validate n main rest hashes =
    Ok (Some (map (fun p => (hf (fp_msg p), fp_bits p)) (main :: filter (fun p => negb (fp_bits p =? 0)) sorted)), true).
Proof.
  intros n main rest hashes hf Hn Hall Hne Hdisj Hmsgs Hh Hhinj.
  assert (Hn0 : (0 <= n)%Z) by lia.
  inversion Hall as [|? ? Hbm Hall']; subst.
  destruct (finalize_validate_roundtrip n (blk n main) (map (blk n) rest) hashes hf Hn) as (sb & Hperm & Hss & E).
  - constructor; [apply positions_asc; exact Hn0|]. apply Forall_forall. intros b Hb.
    apply in_map_iff in Hb as (p & <- & _). apply positions_asc. exact Hn0.
  - cbn [blk snd]. rewrite (positions_nil_iff n _ Hn0 Hbm). exact Hne.
  - change (blk n main :: map (blk n) rest) with (map (blk n) (main :: rest)). rewrite map_map. exact Hdisj.
  - change (blk n main :: map (blk n) rest) with (map (blk n) (main :: rest)). rewrite map_map. exact Hmsgs.
  - intros b Hb. change (blk n main :: map (blk n) rest) with (map (blk n) (main :: rest)) in Hb.
    apply in_map_iff in Hb as (p & <- & Hp). apply Hh. exact Hp.
  - change (blk n main :: map (blk n) rest) with (map (blk n) (main :: rest)). rewrite map_map. exact Hhinj.
  - rewrite (fp_of_blk n main Hn0 Hbm), (map_fp_of_blk n rest Hn0 Hall') in E.
    apply Permutation_map_inv in Hperm as (sorted & -> & Hperm).
    assert (Hall_s : Forall (fun p => below n (fp_bits p)) sorted) by (eapply Permutation_Forall; eassumption).
    exists sorted. split; [apply Permutation_sym; exact Hperm|].
    rewrite (map_fp_of_blk n sorted Hn0 Hall_s) in Hss. split; [exact Hss|].
    assert (H0 : hash_entry hf (blk n main) = (hf (fp_msg main), fp_bits main)).
    { unfold hash_entry, blk. cbn [fst snd]. rewrite mask_of_positions by assumption. reflexivity. }
    assert (T : map (hash_entry hf) (filter nonempty (map (blk n) sorted)) =
                map (fun p => (hf (fp_msg p), fp_bits p)) (filter (fun p => negb (fp_bits p =? 0)) sorted)).
    { clear -Hall_s Hn0. induction Hall_s as [|p l Hp _ IH]; [reflexivity|]. cbn [map filter].
      assert (Hb : nonempty (blk n p) = negb (fp_bits p =? 0)).
      { unfold nonempty, blk. cbn [snd]. pose proof (positions_nil_iff n _ Hn0 Hp) as Hi.
        destruct (positions n (fp_bits p)) as [|x t].
        - rewrite (proj1 Hi eq_refl). reflexivity.
        - destruct (N.eqb_spec (fp_bits p) 0) as [Z0|Z0]; [apply Hi in Z0; discriminate|reflexivity]. }
      rewrite Hb. destruct (negb (fp_bits p =? 0)); cbn [map]; rewrite IH; [|reflexivity].
      unfold hash_entry, blk. cbn [fst snd]. rewrite mask_of_positions by assumption. reflexivity. }
    rewrite E. cbn [map]. rewrite H0, T. reflexivity.
Qed.
