(** C09X (3), the exact characterisation of "which operations leave the kernel state unchanged" for the
    local validator's actions: a local vote / proposed header that returns Ok either leaves the kernel state
    EXACTLY as it was (it was dropped) or issues at least one store write - and which of the two is a boolean
    function of the state, the entrance and the action ([act_vote_applies], [act_ph_applies]). *)
From Coq Require Import List NArith Arith Bool Lia String.
From GV Require Import Base.Ints Gen.Math Gen.Kernel Model.Mirror Model.MirrorMgr
  Proofs.MirrorAuth Proofs.MirrorNoop Proofs.MirrorChain Proofs.MirrorCert Proofs.MirrorTotal
  Proofs.MirrorLog Proofs.MirrorAct Proofs.MirrorActInv Proofs.MirrorActTotal.
Import ListNotations.
Local Open Scope N_scope.

(** the operation issued at least one store write *)
Definition wrote (s s' : kstate) : Prop := exists w ws, st_log s' = st_log s ++ w :: ws.

Lemma wrote_then_logged s s1 s' w :
  st_log s1 = st_log s ++ [w] -> logged s1 s' -> wrote s s'.
Proof.
  intros E (ws&L&_). exists w, ws. rewrite L, E, <- app_assoc. reflexivity.
Qed.

Lemma wrote_neq s s' : wrote s s' -> s' <> s.
Proof.
  intros (w&ws&E) ->. apply (f_equal (@List.length wr)) in E. rewrite app_length in E. cbn in E. lia.
Qed.

Lemma apply_votes_wrote kind s vid h r ups s' :
  (kind = KPrevote \/ kind = KPrecommit) ->
  apply_votes kind s vid h r ups = Ok s' -> wrote s s'.
Proof.
  intros Hk. unfold apply_votes.
  set (v := get_view s vid).
  set (votes' := fold_left (fun m e => pm_set m (fst e) (snd e)) ups (view_votes kind v)).
  set (v1 := if kind =? KPrevote then with_pv v votes' else with_pc v votes').
  set (sm' := if kind =? KPrevote then sum_set_prevotes _ _ _ else _).
  set (v2 := bump (with_sum v1 sm')).
  set (s1 := put_view s vid v2).
  set (s2 := ev_w (log_w _ _) _).
  assert (L2 : exists w, st_log s2 = st_log s ++ [w]).
  { assert (E1 : st_log s1 = st_log s).
    { unfold s1, put_view. destruct (vid =? ViewIDVoting); [reflexivity|].
      destruct (vid =? ViewIDCommitting); reflexivity. }
    eexists. unfold s2. cbn [ev_w log_w st_log set_rounds]. rewrite E1. reflexivity. }
  destruct L2 as (w&L2).
  destruct (kind =? KPrevote).
  - destruct (vid =? ViewIDNextRound).
    + intros E. eapply wrote_then_logged; [exact L2|apply logged_check_prevote; exact E].
    + intros E; inversion E; subst. exists w, []. exact L2.
  - destruct (vid =? ViewIDVoting).
    + intros E. eapply wrote_then_logged; [exact L2|apply logged_check_voting; exact E].
    + destruct (vid =? ViewIDNextRound).
      * intros E. eapply wrote_then_logged; [exact L2|apply logged_check_next_round; exact E].
      * intros E; inversion E; subst. exists w, []. exact L2.
Qed.

(** ** a local vote *)

(** the vote is applied: the entered round is the voting or the committing view, the state machine's key is
    in the view's validator set, and the signature verifies under it for (kind, height, round, target) *)
Definition act_vote_applies (kind : N) (s : kstate) (h r : N) (key : option N) (target : bytes) (sg : sigd) : bool :=
  match find_view (kpos_of s) h r with
  | Ok (vid, _) =>
      ((vid =? ViewIDVoting) || (vid =? ViewIDCommitting)) &&
      match key with
      | Some k =>
          match key_index (vs_keys (v_vals (get_view s vid))) k with
          | Some _ => verify_vote k kind h r target sg
          | None => false
          end
      | None => false
      end
  | Panic _ => false
  end.

Theorem local_vote_effect kind s h r key target sg s' :
  (kind = KPrevote \/ kind = KPrecommit) ->
  act_vote kind s h r key target sg = Ok s' ->
  if act_vote_applies kind s h r key target sg then wrote s s' else s' = s.
Proof.
  intros Hk. unfold act_vote, act_vote_applies, bind.
  destruct (find_view _ _ _) as [[vid st]|]; [|discriminate].
  destruct ((vid =? ViewIDVoting) || (vid =? ViewIDCommitting)); cbn [negb andb];
    [|intros E; inversion E; reflexivity].
  destruct (match pm_get _ target with Some p => Ok p | None => _ end) as [base|]; [|discriminate].
  destruct key as [k|]; [|discriminate].
  destruct (key_index _ k) as [i|]; [|intros E; inversion E; reflexivity].
  destruct (verify_vote _ _ _ _ _ _); [|intros E; inversion E; reflexivity].
  apply apply_votes_wrote. exact Hk.
Qed.

(** ** the state machine's own proposed header *)

(** the header is filed: its height and round are those of one of the three views and that view does not
    hold a header with the same signature yet *)
Definition act_ph_applies (s : kstate) (p : ph) : bool :=
  match find_view (kpos_of s) (hd_height (ph_hdr p)) (ph_round p) with
  | Ok (vid, st) =>
      (st =? ViewFound) && negb (existsb (fun q => sigd_eqb (ph_sig q) (ph_sig p)) (v_phs (get_view s vid)))
  | Panic _ => false
  end.

Lemma add_ph_effect s p s' : add_ph s p = Ok s' -> if act_ph_applies s p then wrote s s' else s' = s.
Proof.
  unfold add_ph, act_ph_applies, bind.
  destruct (find_view _ _ _) as [[vid st]|]; [|discriminate].
  destruct (st =? ViewFound); cbn [negb andb]; [|intros E; inversion E; reflexivity].
  destruct (existsb _ _); cbn [negb]; [intros E; inversion E; reflexivity|].
  set (s1 := put_view s vid _).
  set (s2 := ev_w (log_w _ _) _).
  assert (L2 : st_log s2 = st_log s ++ [WPH p]).
  { assert (E1 : st_log s1 = st_log s).
    { unfold s1, put_view. destruct (vid =? ViewIDVoting); [reflexivity|].
      destruct (vid =? ViewIDCommitting); reflexivity. }
    unfold s2. cbn [ev_w log_w st_log set_rounds]. rewrite E1. reflexivity. }
  destruct (negb _); [intros E; inversion E; subst; exists (WPH p), []; exact L2|].
  destruct (vid =? ViewIDVoting).
  - destruct (pm_get _ _).
    + intros E. eapply wrote_then_logged; [exact L2|].
      eapply logged_trans; [apply logged_backfill|apply logged_check_voting; exact E].
    + intros E; inversion E; subst. eapply wrote_then_logged; [exact L2|apply logged_backfill].
  - intros E; inversion E; subst. eapply wrote_then_logged; [exact L2|apply logged_backfill].
Qed.

Theorem local_ph_effect s p s' :
  act_ph s p = Ok s' -> if act_ph_applies s p then wrote s s' else s' = s.
Proof. unfold act_ph. destruct (hd_hash (ph_hdr p)); [discriminate|]. apply add_ph_effect. Qed.

(** ** every operation of [mstep]: the kernel state is unchanged, or a store write was issued, or the
    mirror process was restarted *)
Definition lact_applies (s : kstate) (h r : N) (key : option N) (a : lact) : bool :=
  match a with
  | ActPrevote t sg => act_vote_applies KPrevote s h r key t sg
  | ActPrecommit t sg => act_vote_applies KPrecommit s h r key t sg
  | ActPH p => act_ph_applies s p
  end.

Theorem local_action_effect s h r key a s' :
  act_step s h r key a = Ok s' -> if lact_applies s h r key a then wrote s s' else s' = s.
Proof.
  destruct a as [t sg|t sg|p]; cbn [act_step lact_applies].
  - apply local_vote_effect. left; reflexivity.
  - apply local_vote_effect. right; reflexivity.
  - apply local_ph_effect.
Qed.

(** a kernel message that returns Ok leaves the state unchanged or only appends store writes *)
Theorem message_effect s o s' res : step s o = Ok (s', res) -> logged s s'.
Proof. apply step_is_logged. Qed.

Theorem local_action_changes_iff_applied s h r key a s' :
  act_step s h r key a = Ok s' ->
  if lact_applies s h r key a then wrote s s' /\ s' <> s else s' = s.
Proof.
  intros H. pose proof (local_action_effect s h r key a s' H) as G.
  destruct (lact_applies s h r key a); [split; [exact G|apply wrote_neq; exact G]|exact G].
Qed.
