(** Reachability closures that contain the local validator's actions, and the invariants over them.

    [mreachable]: every state of mirror + view managers reached from [ms_init] by ANY consumer-facing
    operations of Model/MirrorMgr.v - kernel operations (messages, replayed headers, crashes, restarts),
    round entrances with or without a key, reads, and the state machine's own proposed headers, prevotes
    and precommits ([MAct], kernel.go handleStateMachineAction).  Authenticity ([auth_state]) holds in
    all of them, with NO hypothesis on what the state machine hands over: AddSignature verifies.

    [lreachable]: the same without crashes/restarts (those are Proofs/MirrorResume*.v), with the size
    bound of [reachable_b] on headers, and with the hypothesis [accept_facts] on the state machine's own
    proposed header (the kernel files it WITHOUT the checks of HandleProposedHeader).  [INV] - the chain
    invariant [cinv], authenticity, the summaries, the commit certificates - holds in all of them; local
    votes need no hypothesis.  Without [accept_facts] the chain invariant is false
    ([cinv_local_ph_refuted]). *)
From Coq Require Import List NArith Arith Bool Lia String.
From GV Require Import Base.Ints Gen.Math Gen.Kernel Model.Mirror Model.MirrorMgr
  Proofs.MirrorAuth Proofs.MirrorNoop Proofs.MirrorChain Proofs.MirrorCert Proofs.MirrorRestart Proofs.MirrorAct.
Import ListNotations.
Local Open Scope N_scope.

(** ** What an operation does to the kernel state *)
Lemma mstep_kernel s o s' r io : mstep s o = Ok (s', r, io) ->
  ms_k s' = ms_k s \/
  (exists x, o = MK x /\ xstep (ms_k s) x = Ok (ms_k s', r)) \/
  (exists a, o = MAct a /\
             act_step (ms_k s) (smm_h (m_sm (ms_m s))) (smm_r (m_sm (ms_m s))) (smm_key (m_sm (ms_m s))) a = Ok (ms_k s')).
Proof.
  destruct o as [x|h0 r0| | |h0 r0 key0|a]; cbn [mstep].
  - unfold bind. destruct (xstep (ms_k s) x) as [[k' r1]|] eqn:Hx; [|discriminate].
    destruct (is_restart_x x); intros E; inversion E; subst; right; left; exists x; (split; [reflexivity|exact Hx]).
  - unfold bind. destruct (find_view _ _ _) as [[vid st]|]; [|discriminate].
    destruct (st =? ViewFound); [intros E; inversion E; left; reflexivity|].
    destruct (st =? ViewBeforeCommitting); [|discriminate].
    destruct (hdr_get _ _) as [[x cp]|]; [intros E; inversion E; left; reflexivity|discriminate].
  - destruct (sm_output _) as [[[vv jv] sv]|]; intros E; inversion E; left; reflexivity.
  - destruct (g_output _) as [[[[c v] n] nl]|]; intros E; inversion E; left; reflexivity.
  - unfold bind. destruct (find_view _ _ _) as [[vid st]|]; [|discriminate].
    destruct (st =? ViewFound); [intros E; inversion E; left; reflexivity|].
    destruct (st =? ViewBeforeCommitting); [|discriminate].
    destruct (hdr_get _ _) as [[x cp]|]; [intros E; inversion E; left; reflexivity|discriminate].
  - unfold bind. destruct (act_step _ _ _ _ a) as [k'|] eqn:Ha; [|discriminate].
    intros E; inversion E; subst. right; right. exists a. split; [reflexivity|exact Ha].
Qed.

(** ** Authenticity over every history *)
Lemma auth_xstep s x s' r : auth_state s -> xstep s x = Ok (s', r) -> auth_state s'.
Proof.
  intros H. destruct x as [o|k o|]; cbn [xstep]; unfold bind.
  - apply auth_step. exact H.
  - destruct (step s o) as [[s1 r1]|]; [|discriminate].
    destruct (restart _ _ _ _ _) as [s2|] eqn:Hr; [|discriminate].
    intros E; inversion E; subst. eapply restart_views_authentic. exact Hr.
  - destruct (restart _ _ _ _ _) as [s2|] eqn:Hr; [|discriminate].
    intros E; inversion E; subst. eapply restart_views_authentic. exact Hr.
Qed.

Theorem auth_mstep s o s' r io : auth_state (ms_k s) -> mstep s o = Ok (s', r, io) -> auth_state (ms_k s').
Proof.
  intros H Hs. destruct (mstep_kernel _ _ _ _ _ Hs) as [E|[(x&_&Hx)|(a&_&Ha)]].
  - rewrite E. exact H.
  - eapply auth_xstep; eassumption.
  - eapply auth_act_step; eassumption.
Qed.

Inductive mreachable (ih : N) (ivs : valset) : mstate -> Prop :=
| mr_init : mreachable ih ivs (ms_init ih ivs)
| mr_step s o s' r io : mreachable ih ivs s -> mstep s o = Ok (s', r, io) -> mreachable ih ivs s'.

Theorem views_authentic_with_local_votes ih ivs s : mreachable ih ivs s -> auth_state (ms_k s).
Proof.
  induction 1 as [|s o s' r io Hr IH Hs]; [apply auth_init|]. eapply auth_mstep; eassumption.
Qed.

(** the closure is not empty of local votes: a validator's own prevote is filed *)
Fixpoint run_ops (s : mstate) (ops : list mop) : option mstate :=
  match ops with
  | [] => Some s
  | o :: rest => match mstep s o with Ok (s', _, _) => run_ops s' rest | Panic _ => None end
  end.

Lemma run_ops_mreachable ih ivs ops : forall s s', mreachable ih ivs s -> run_ops s ops = Some s' -> mreachable ih ivs s'.
Proof.
  induction ops as [|o rest IH]; intros s s' Hr; cbn [run_ops]; [intros E; inversion E; subst; exact Hr|].
  destruct (mstep s o) as [[[s1 r] io]|] eqn:Hs; [|discriminate].
  apply IH. eapply mr_step; eassumption.
Qed.

Definition e_vs : valset := mk_valset [5; 6] [1; 1] [1] [2] true.
Definition e_ops : list mop := [MEnterK 1 0 (Some 6); MActPrevote [9] (SVote 6 KPrevote 1 0 [9])].
Definition e_state : mstate := match run_ops (ms_init 1 e_vs) e_ops with Some s => s | None => ms_init 1 e_vs end.

Example local_vote_is_filed :
  mreachable 1 e_vs e_state /\ v_pv (k_vot (ms_k e_state)) = [([9], [(1, SVote 6 KPrevote 1 0 [9])])].
Proof.
  split; [|vm_compute; reflexivity].
  apply (run_ops_mreachable 1 e_vs e_ops (ms_init 1 e_vs)); [apply mr_init|]. vm_compute. reflexivity.
Qed.

(** ** The chain invariant, summaries and certificates: [INV] *)
Lemma act_vote_inv kind s h r key target sg s' :
  (kind = KPrevote \/ kind = KPrecommit) -> auth_state s ->
  act_vote kind s h r key target sg = Ok s' ->
  s' = s \/
  exists vid ups, (vid = ViewIDVoting \/ vid = ViewIDCommitting) /\
    auth_pmap (vs_keys (v_vals (get_view s vid))) kind (v_h (get_view s vid)) (v_r (get_view s vid)) ups /\
    apply_votes kind s vid h r ups = Ok s'.
Proof.
  intros Hk H. unfold act_vote, bind.
  destruct (find_view _ _ _) as [[vid st]|] eqn:Hfv; [|discriminate].
  destruct ((vid =? ViewIDVoting) || (vid =? ViewIDCommitting)) eqn:Hvid; cbn [negb];
    [|intros E; inversion E; subst; left; reflexivity].
  destruct (act_view_pos _ _ _ _ _ Hfv Hvid) as [Hh Hr].
  set (v := get_view s vid) in *.
  assert (Hv : auth_view v) by (apply get_view_auth; exact H).
  pose proof (view_votes_auth kind v Hk Hv) as Hvv.
  destruct (match pm_get (view_votes kind v) target with
            | Some p => Ok p
            | None => match vs_keys (v_vals v) with [] => Panic _ | _ => Ok [] end
            end) as [base|] eqn:Hbase; [|discriminate].
  assert (Hb : auth_proof (vs_keys (v_vals v)) kind (v_h v) (v_r v) target base).
  { destruct (pm_get (view_votes kind v) target) as [p|] eqn:Hg.
    - inversion Hbase; subst. eapply pm_get_auth; eassumption.
    - destruct (vs_keys (v_vals v)); [discriminate|]. inversion Hbase; subst. apply auth_proof_nil. }
  destruct key as [k|]; [|discriminate].
  destruct (key_index (vs_keys (v_vals v)) k) as [i|] eqn:Hi; [|intros E; inversion E; subst; left; reflexivity].
  destruct (verify_vote k kind h r target sg) eqn:Hver; [|intros E; inversion E; subst; left; reflexivity].
  apply verify_vote_spec in Hver. subst sg. intros E. right.
  exists vid, [(target, add_sig base i (SVote k kind h r target))].
  split; [|split; [|exact E]].
  - apply orb_true_iff in Hvid as [Hx|Hx]; apply N.eqb_eq in Hx; [left|right]; exact Hx.
  - intros t p [E1|[]]. inversion E1; subst t p. rewrite Hh, Hr.
    apply add_sig_auth; [exact Hb|]. apply key_index_nth. exact Hi.
Qed.

Lemma INV_act_vote ih ivs kind s h r key target sg s' :
  (kind = KPrevote \/ kind = KPrecommit) -> INV ih ivs s ->
  act_vote kind s h r key target sg = Ok s' -> INV ih ivs s'.
Proof.
  intros Hk H Ha. pose proof H as (_&Hauth&_&_).
  destruct (act_vote_inv _ _ _ _ _ _ _ _ Hk Hauth Ha) as [->|(vid&ups&Hvid&Hu&Happ)]; [exact H|].
  eapply INV_apply_votes; [exact Hk| |exact H|exact Hu|exact Happ].
  destruct Hvid as [->| ->]; [left|right; right]; reflexivity.
Qed.

(** the hypothesis on a local action: only the state machine's own proposed header needs one *)
Definition lact_ok (k : kstate) (a : lact) : Prop :=
  match a with
  | ActPH p => accept_facts k p
  | _ => True
  end.

Lemma INV_act_step ih ivs s h r key a s' :
  INV ih ivs s -> lact_ok s a -> act_step s h r key a = Ok s' -> INV ih ivs s'.
Proof.
  destruct a as [target sg|target sg|p]; cbn [act_step lact_ok]; intros H Hok.
  - apply INV_act_vote; [left; reflexivity|exact H].
  - apply INV_act_vote; [right; reflexivity|exact H].
  - unfold act_ph. destruct (hd_hash (ph_hdr p)); [discriminate|]. apply INV_add_ph; assumption.
Qed.

(** local votes alone keep the chain invariant; no hypothesis *)
Lemma cinv_act_vote ih ivs kind s h r key target sg s' :
  cinv ih ivs s -> act_vote kind s h r key target sg = Ok s' -> cinv ih ivs s' /\ adv s s'.
Proof.
  intros H. unfold act_vote, bind.
  destruct (find_view _ _ _) as [[vid st]|]; [|discriminate].
  destruct (negb _); [intros E; inversion E; subst; split; [exact H|apply adv_refl]|].
  destruct (match pm_get _ target with Some p => Ok p | None => _ end) as [base|]; [|discriminate].
  destruct key as [k|]; [|discriminate].
  destruct (key_index _ k) as [i|]; [|intros E; inversion E; subst; split; [exact H|apply adv_refl]].
  destruct (verify_vote _ _ _ _ _ _); [|intros E; inversion E; subst; split; [exact H|apply adv_refl]].
  apply cinv_apply_votes. exact H.
Qed.

Definition mop_ok (s : mstate) (o : mop) : Prop :=
  match o with
  | MK (XOp o) => op_bounded o
  | MK _ => False                  (* crashes and restarts: Proofs/MirrorResume*.v *)
  | MAct a => lact_ok (ms_k s) a
  | _ => True
  end.

Inductive lreachable (ih : N) (ivs : valset) : mstate -> Prop :=
| lr_init : lreachable ih ivs (ms_init ih ivs)
| lr_step s o s' r io : lreachable ih ivs s -> mop_ok s o -> mstep s o = Ok (s', r, io) -> lreachable ih ivs s'.

Theorem lreachable_INV ih ivs s : 1 <= ih -> vs_ok ivs = true -> lreachable ih ivs s -> INV ih ivs (ms_k s).
Proof.
  intros Hi Hok. induction 1 as [|s o s' r io Hr IH Hop Hs]; [apply INV_init; assumption|].
  destruct (mstep_kernel _ _ _ _ _ Hs) as [E|[(x&Eo&Hx)|(a&Eo&Ha)]].
  - rewrite E. exact IH.
  - subst o. destruct x as [o|k o|]; cbn [mop_ok] in Hop; try contradiction.
    cbn [xstep] in Hx. eapply INV_step; eassumption.
  - subst o. cbn [mop_ok] in Hop. eapply INV_act_step; eassumption.
Qed.

Corollary lreachable_cinv ih ivs s : 1 <= ih -> vs_ok ivs = true -> lreachable ih ivs s -> cinv ih ivs (ms_k s).
Proof. intros Hi Hok Hr. exact (proj1 (lreachable_INV ih ivs s Hi Hok Hr)). Qed.

(** every state reached by kernel operations alone is in the closure *)
Lemma reachable_b_lreachable ih ivs k : reachable_b ih ivs k -> exists s, lreachable ih ivs s /\ ms_k s = k.
Proof.
  induction 1 as [|k o k' res Hr (s&Hs&Ek) Hb Hst].
  - exists (ms_init ih ivs). split; [apply lr_init|reflexivity].
  - subst k. destruct (mstep s (MK (XOp o))) as [[[s1 r1] io1]|] eqn:Hm.
    + exists s1. split; [apply (lr_step ih ivs s (MK (XOp o)) s1 r1 io1 Hs Hb Hm)|].
      revert Hm. cbn [mstep xstep is_restart_x]. unfold bind. rewrite Hst. intros E; inversion E; reflexivity.
    + exfalso. revert Hm. cbn [mstep xstep is_restart_x]. unfold bind. rewrite Hst. discriminate.
Qed.

(** ** The hypothesis on the local proposed header is necessary.
    The kernel files the state machine's own header without looking at it: one whose block hash is not the
    hash of its fields ([hd_ok] false) enters the voting view, where [cinv] (C07: held proposals are
    consistent) says every held proposal has a correct hash. *)
Definition w_vs : valset := mk_valset [0] [1] [1] [2] true.
Definition w_hdr : hdr := mk_hdr [7] false 1 [] empty_cproof w_vs w_vs.
Definition w_ph : ph := mk_ph w_hdr 0 (Some 0) (SJunk 1) [3].
Definition w_after : kstate :=
  match act_ph (init_state 1 w_vs) w_ph with Ok s => s | Panic _ => init_state 1 w_vs end.

Theorem cinv_local_ph_refuted :
  exists ih ivs s p s', reachable_b ih ivs s /\ cinv ih ivs s /\ act_ph s p = Ok s' /\
                        In p (v_phs (k_vot s')) /\ hd_ok (ph_hdr p) = false /\ ~ cinv ih ivs s'.
Proof.
  exists 1, w_vs, (init_state 1 w_vs), w_ph, w_after.
  split; [apply rb_init|]. split; [apply cinv_init; [lia|reflexivity]|].
  split; [vm_compute; reflexivity|].
  assert (Hin : In w_ph (v_phs (k_vot w_after))) by (vm_compute; left; reflexivity).
  split; [exact Hin|]. split; [reflexivity|].
  intros (_&_&_&_&_&_&_&_&_&Hphs&_).
  destruct (Hphs w_ph (or_introl Hin)) as (_&Hok&_). discriminate Hok.
Qed.

(** ** Statements in full *)
Theorem views_authentic_with_local_votes_full ih ivs s : mreachable ih ivs s ->
  forall v, (v = k_com (ms_k s) \/ v = k_vot (ms_k s) \/ v = k_nxt (ms_k s)) ->
  (forall t p i sg, In (t, p) (v_pv v) -> In (i, sg) p ->
     exists key, nth_n (vs_keys (v_vals v)) i = Some key /\ sg = SVote key KPrevote (v_h v) (v_r v) t) /\
  (forall t p i sg, In (t, p) (v_pc v) -> In (i, sg) p ->
     exists key, nth_n (vs_keys (v_vals v)) i = Some key /\ sg = SVote key KPrecommit (v_h v) (v_r v) t).
Proof.
  intros Hr v Hv.
  destruct (views_authentic_with_local_votes ih ivs s Hr) as (Hc & Hvo & Hn).
  assert (Ha : auth_view v) by (destruct Hv as [->|[->| ->]]; assumption).
  destruct Ha as [Hpv Hpc]. split; intros t p i sg Hin Hs; [exact (Hpv t p Hin i sg Hs)|exact (Hpc t p Hin i sg Hs)].
Qed.

(** a local vote that does not verify under the state machine's key, or whose key is not in the found view's
    validator set, changes nothing *)
Theorem local_vote_rejected_is_noop kind s h r key target sg s' :
  (forall k, key = Some k ->
     verify_vote k kind h r target sg = false \/
     (forall vid st, find_view (kpos_of s) h r = Ok (vid, st) -> ~ In k (vs_keys (v_vals (get_view s vid))))) ->
  act_vote kind s h r key target sg = Ok s' -> s' = s.
Proof.
  intros Hbad. unfold act_vote, bind.
  destruct (find_view _ _ _) as [[vid st]|] eqn:Hfv; [|discriminate].
  destruct (negb _); [intros E; inversion E; reflexivity|].
  destruct (match pm_get _ target with Some p => Ok p | None => _ end) as [base|]; [|discriminate].
  destruct key as [k|]; [|discriminate].
  destruct (key_index _ k) as [i|] eqn:Hi; [|intros E; inversion E; reflexivity].
  destruct (Hbad k eq_refl) as [Hv|Hn].
  - rewrite Hv. intros E; inversion E; reflexivity.
  - exfalso. apply (Hn vid st eq_refl). apply key_index_nth in Hi. unfold nth_n in Hi. eapply nth_error_In. exact Hi.
Qed.

Theorem commit_needs_certificate_with_local_actions ih ivs s :
  1 <= ih -> vs_ok ivs = true -> lreachable ih ivs s ->
  (forall h x cp, In (h, (x, cp)) (st_hdrs (ms_k s)) ->
     exists p maj,
       In (hd_hash x, as_sparse p) (cp_proofs cp) /\
       (forall i sg, In (i, sg) p ->
          exists key, nth_n (vs_keys (chain_vals ih ivs (st_hdrs (ms_k s)) h)) i = Some key /\
                      sg = SVote key KPrecommit h (cp_round cp) (hd_hash x)) /\
       byz_majority (sum_pows (vs_pows (chain_vals ih ivs (st_hdrs (ms_k s)) h))) = Ok maj /\
       maj <= proof_power (vs_pows (chain_vals ih ivs (st_hdrs (ms_k s)) h)) p).
Proof.
  intros Hi Hok Hr. destruct (lreachable_INV ih ivs s Hi Hok Hr) as (_&_&_&Hh). exact Hh.
Qed.
