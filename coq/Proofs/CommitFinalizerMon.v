(** C13 - model_satisfies_monitor for the commit-proof hand-over, as a THEOREM: on every input the observation of
    Model/CommitFinalizer.v is accepted by the monitor Monitors/C13Cpfm.cpf_mon that judges the implementation
    (for a sign-bytes function that is injective on the proof's block hashes, and key lists of at most 65536 keys). *)
From Coq Require Import List NArith ZArith String Bool Lia ZifyBool ZifyN Permutation.
From GV Require Import Base.Ints Gen.KeyID Model.SimpleProofBase Model.SimpleProof Monitors.C13m Monitors.C13Cpfm
  Proofs.SimpleProof Proofs.SimpleMerge Proofs.SimpleInv Proofs.SimpleRoundtrip Proofs.SimpleFinalize
  Model.CommitFinalizer Proofs.CommitFinalizer.
Import ListNotations.
Local Open Scope N_scope.

Lemma ends_with_app pre suf : ends_with (pre ++ suf) suf = true.
Proof.
  induction pre as [|x t IH]; cbn [app].
  - destruct suf; cbn [ends_with]; rewrite bytes_eqb_refl; reflexivity.
  - cbn [ends_with]. rewrite IH. apply orb_true_r.
Qed.

Lemma mem_bytes_in k l : mem_bytes k l = true -> In k l.
Proof.
  induction l as [|x t IH]; cbn [mem_bytes]; [discriminate|]. intros H. apply orb_true_iff in H.
  destruct H as [H|H]; [left; apply bytes_eqb_eq; exact H|right; apply IH; exact H].
Qed.

Lemma mem_bytes_notin k l : mem_bytes k l = false -> ~ In k l.
Proof.
  induction l as [|x t IH]; cbn [mem_bytes]; intros H; [intros []|]. apply orb_false_iff in H. destruct H as [H1 H2].
  intros [->|Hin]; [rewrite bytes_eqb_refl in H1; discriminate|]. apply (IH H2 Hin).
Qed.

Lemma nodup_bytes_nodup l : nodup_bytes l = true -> NoDup l.
Proof.
  induction l as [|x t IH]; cbn [nodup_bytes]; intros H; [constructor|]. apply andb_true_iff in H. destruct H as [H1 H2].
  apply NoDup_cons; [apply mem_bytes_notin; apply negb_true_iff; exact H1|apply IH; exact H2].
Qed.

Lemma m_get_aget m k : m_get m k = aget [] m k.
Proof. induction m as [|[k' v] t IH]; cbn [m_get aget]; [reflexivity|]. rewrite IH. reflexivity. Qed.

Lemma pd_pairwise l : pd l = pairwise_disjoint l.
Proof. induction l as [|b t IH]; cbn [pd pairwise_disjoint]; [reflexivity|]. rewrite IH. reflexivity. Qed.

Lemma others_length committed (es : list (list N * list sparse_entry)) :
  NoDup (map fst es) -> In committed (map fst es) ->
  S (List.length (filter (is_other committed) es)) = List.length es.
Proof.
  induction es as [|[k v] t IH]; cbn [map fst In filter List.length]; intros ND HI; [contradiction|].
  apply NoDup_cons_iff in ND. destruct ND as [NI ND].
  replace (is_other committed (k, v)) with (negb (bytes_eqb k committed)) by reflexivity.
  destruct (bytes_eqb k committed) eqn:E; cbn [negb].
  - apply bytes_eqb_eq in E. subst k. f_equal.
    (* nothing else equals committed: the filter keeps everything *)
    clear IH HI. induction t as [|[k2 v2] t2 IH2]; cbn [filter List.length]; [reflexivity|].
    replace (is_other committed (k2, v2)) with (negb (bytes_eqb k2 committed)) by reflexivity.
    destruct (bytes_eqb k2 committed) eqn:E2.
    + apply bytes_eqb_eq in E2. subst k2. exfalso. apply NI. left. reflexivity.
    + cbn [negb List.length]. f_equal. apply IH2.
      * intros H. apply NI. right. exact H.
      * cbn [map fst] in ND. apply NoDup_cons_iff in ND. tauto.
  - cbn [List.length]. f_equal. apply IH; [exact ND|].
    destruct HI as [H|H]; [apply bytes_eqb_neq in E; congruence|exact H].
Qed.

Theorem cpf_model_satisfies_monitor sb keys committed p tbl :
  (forall a b, In a (map fst (cp_proofs p)) -> In b (map fst (cp_proofs p)) -> sb a = sb b -> a = b) ->
  N.of_nat (List.length keys) <= 65536 ->
  cpf_mon sb keys committed (cp_round p) (cp_proofs p) (cpf_case_obs sb tbl keys committed p) = 0.
Proof.
  intros INJ LE. unfold cpf_mon.
  destruct keys as [|k0 kt] eqn:EK.
  { cbn [andb]. unfold cpf_hyp. cbn [andb negb]. reflexivity. }
  assert (NE : keys <> []) by (rewrite EK; discriminate). rewrite <- EK in *.
  replace (match keys with [] => false | _ :: _ => true end) with true by (rewrite EK; reflexivity).
  cbn [andb].
  destruct (cpf_finalize_never_panics sb keys committed p NE) as [r ER].
  unfold cpf_case_obs. rewrite ER.
  destruct r as [out|e].
  2:{ (* an error return: not a panic; accepted unless the input was well formed *)
      assert (Hne : bytes_eqb [900 + N.min e 3] [999] = false).
      { cbn [bytes_eqb]. destruct (N.eqb (900 + N.min e 3) 999) eqn:E9; [apply N.eqb_eq in E9; lia|reflexivity]. }
      rewrite Hne.
      destruct (cpf_hyp sb keys committed (cp_proofs p)) eqn:EH; cbn [negb]; [|reflexivity].
      exfalso. unfold cpf_hyp in EH. rewrite EK in EH at 1. cbn [andb] in EH.
      apply andb_true_iff in EH. destruct EH as [EH H3]. apply andb_true_iff in EH. destruct EH as [H1 H2].
      assert (OKs : forall x, In x (cp_proofs p) -> entry_ok keys (sb (fst x)) (snd x)).
      { intros x Hx. rewrite forallb_forall in H3. specialize (H3 x Hx). unfold m_entry_ok in H3.
        apply andb_true_iff in H3. destruct H3 as [A B]. split; [exact A|].
        apply negb_true_iff in B. apply N.eqb_neq in B. exact B. }
      destruct (cpf_then_receive sb keys committed p NE LE (nodup_bytes_nodup _ H1) (mem_bytes_in _ _ H2) INJ OKs)
        as (o & EO & _). congruence. }
  (* success *)
  cbn [app]. cbn [bytes_eqb]. cbn [N.eqb]. 
  destruct (cpf_hyp sb keys committed (cp_proofs p)) eqn:EH; cbn [negb]; [|reflexivity].
  unfold cpf_hyp in EH. rewrite EK in EH at 1. cbn [andb] in EH.
  apply andb_true_iff in EH. destruct EH as [EH H3]. apply andb_true_iff in EH. destruct EH as [H1 H2].
  assert (OKs : forall x, In x (cp_proofs p) -> entry_ok keys (sb (fst x)) (snd x)).
  { intros x Hx. rewrite forallb_forall in H3. specialize (H3 x Hx). unfold m_entry_ok in H3.
    apply andb_true_iff in H3. destruct H3 as [A B]. split; [exact A|].
    apply negb_true_iff in B. apply N.eqb_neq in B. exact B. }
  pose proof (nodup_bytes_nodup _ H1) as ND. pose proof (mem_bytes_in _ _ H2) as HC.
  destruct (cpf_then_receive sb keys committed p NE LE ND HC INJ OKs) as (o & EO & RO & _ & FO & VO).
  assert (o = out) by congruence. subst o.
  rewrite RO, N.eqb_refl. cbn [negb].
  assert (LEN : List.length (cp_proofs out) = List.length (cp_proofs p)).
  { rewrite <- (map_length fst (cp_proofs out)), FO, map_length. unfold cp_order. cbn [List.length].
    apply others_length; assumption. }
  rewrite LEN, N.eqb_refl. cbn [negb].
  rewrite VO. cbn [andb].
  match goal with |- (if negb (ends_with (?a :: ?b :: ?c :: ?pre ++ ?suf) ?suf') then _ else _) = _ =>
    assert (ES : suf = suf'); [|rewrite <- ES; change (a :: b :: c :: pre ++ suf) with ((a :: b :: c :: pre) ++ suf);
                                rewrite ends_with_app; reflexivity] end.
  f_equal. unfold obs_receive, cpf_expected_v, cp_order.
  replace (m_get (cp_proofs p) committed) with (aget [] (cp_proofs p) committed) by (symmetry; apply m_get_aget).
  rewrite (pd_pairwise (map snd _)).
  rewrite map_map. cbn [snd].
  reflexivity.
Qed.
