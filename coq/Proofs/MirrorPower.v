(** C06, second sentence, at mirror level: "validators holding less than one third of the power cannot
    by themselves make a node skip a round ... or regard a round as fully voted".

    Part A: [set_powers] split into its three independent components (total over the DISTINCT signer
            indices, block powers, most voted target).
    Part B: the invariant [tinv]: in every reachable state the whole vote summary of the voting and the
            next-round view is the recomputation from that view's own vote maps.
    Part C: what makes a vote operation change the voting round (exact causes, read off the summary of
            the state right after the message's signatures were merged).
    Part D: power arithmetic without wrap-around, and the consequence: signers below the Byzantine
            minority move nothing. *)
From Coq Require Import List NArith Arith Bool Lia String Permutation.
From GV Require Import Base.Ints Gen.Math Gen.Kernel Model.Mirror
  Proofs.Thresholds Proofs.MirrorAuth Proofs.MirrorNoop Proofs.MirrorChain Proofs.MirrorCert.
Import ListNotations.
Local Open Scope N_scope.

(** * Part A: the components of [set_powers] *)

(** every index that has a signature in some entry, with repetitions / each index once *)
Definition signer_list (pm : pmap) : list N := flat_map (fun e => map fst (snd e)) pm.
Definition signer_set (pm : pmap) : list N := nodup_n (signer_list pm).

(** power of the distinct signer indices: a validator counts once however many targets it signed *)
Definition total_power (pows : list N) (pm : pmap) : N := idx_power pows (sort_n (signer_set pm)).

(** the most voted target exactly as SetPrevotePowers / SetPrecommitPowers pick it: highest block
    power, ties resolved towards the smaller hash, "" (nil) when nothing has power *)
Definition mv_step (pows : list N) (acc : bytes * N) (e : bytes * proof) : bytes * N :=
  let '(maxh, maxp) := acc in
  let bp := proof_power pows (snd e) in
  if bp =? maxp then (bytes_min maxh (fst e), maxp)
  else if maxp <? bp then (fst e, bp)
  else (maxh, maxp).
Definition most_voted (pows : list N) (pm : pmap) : bytes := fst (fold_left (mv_step pows) pm ([], 0)).

Definition sp_step (pows : list N) :=
  fun (acc : list N * list (bytes * N) * bytes * N) (e : bytes * proof) =>
      let '(present, blocks, maxh, maxp) := acc in
      let bp := proof_power pows (snd e) in
      let present' := present ++ map fst (snd e) in
      let blocks' := pm_set blocks (fst e) bp in
      if bp =? maxp then (present', blocks', bytes_min maxh (fst e), maxp)
      else if maxp <? bp then (present', blocks', fst e, bp)
      else (present', blocks', maxh, maxp).

Lemma signer_list_cons e pm : signer_list (e :: pm) = map fst (snd e) ++ signer_list pm.
Proof. reflexivity. Qed.

Lemma sp_step_eq pows present b maxh maxp e :
  sp_step pows (present, b, maxh, maxp) e =
  (present ++ map fst (snd e), pm_set b (fst e) (proof_power pows (snd e)),
   fst (mv_step pows (maxh, maxp) e), snd (mv_step pows (maxh, maxp) e)).
Proof.
  unfold sp_step, mv_step. destruct (proof_power pows (snd e) =? maxp); [reflexivity|].
  destruct (maxp <? proof_power pows (snd e)); reflexivity.
Qed.

Lemma sp_fold pows pm : forall present b maxh maxp,
  fold_left (sp_step pows) pm (present, b, maxh, maxp) =
  (present ++ signer_list pm,
   fold_left (fun b e => pm_set b (fst e) (proof_power pows (snd e))) pm b,
   fst (fold_left (mv_step pows) pm (maxh, maxp)),
   snd (fold_left (mv_step pows) pm (maxh, maxp))).
Proof.
  induction pm as [|e pm IH]; intros present b maxh maxp.
  - cbn [fold_left signer_list flat_map fst snd]. rewrite app_nil_r. reflexivity.
  - cbn [fold_left]. rewrite sp_step_eq, signer_list_cons.
    destruct (mv_step pows (maxh, maxp) e) as [mh mp]. cbn [fst snd].
    rewrite IH, app_assoc. reflexivity.
Qed.

Lemma set_powers_eq pows pm :
  set_powers pows pm = (total_power pows pm, blocks pows pm, most_voted pows pm).
Proof.
  rewrite blocks_eq. unfold total_power, most_voted, signer_set.
  change (set_powers pows pm) with
    (let '(present, blocks, maxh, maxp) := fold_left (sp_step pows) pm ([], [], [], 0) in
     (idx_power pows (sort_n (nodup_n present)), blocks, maxh)).
  rewrite sp_fold. reflexivity.
Qed.

(** * Part B: the whole summary is a recomputation *)
Definition summary_of (pows : list N) (pv pc : pmap) : summary :=
  mk_sum (sum_pows pows) (total_power pows pv) (total_power pows pc)
         (blocks pows pv) (blocks pows pc) (most_voted pows pv) (most_voted pows pc).

Definition tok (v : view) : Prop := v_sum v = summary_of (vs_pows (v_vals v)) (v_pv v) (v_pc v).
Definition tinv (s : kstate) : Prop := tok (k_vot s) /\ tok (k_nxt s).

Lemma summary_of_nil pows : summary_of pows [] [] = mk_sum (sum_pows pows) 0 0 [] [] [] [].
Proof. reflexivity. Qed.

Lemma tok_same a b :
  v_vals a = v_vals b -> v_pv a = v_pv b -> v_pc a = v_pc b -> v_sum a = v_sum b -> tok a -> tok b.
Proof. unfold tok. intros -> -> -> ->. auto. Qed.

Lemma tok_bump v : tok v -> tok (bump v).
Proof. apply tok_same; reflexivity. Qed.
Lemma tok_with_phs v x : tok v -> tok (with_phs v x).
Proof. apply tok_same; reflexivity. Qed.

Lemma sum_set_prevotes_of pows pv pc pv' :
  sum_set_prevotes (summary_of pows pv pc) pows pv' = summary_of pows pv' pc.
Proof. unfold sum_set_prevotes. rewrite set_powers_eq. reflexivity. Qed.
Lemma sum_set_precommits_of pows pv pc pc' :
  sum_set_precommits (summary_of pows pv pc) pows pc' = summary_of pows pv pc'.
Proof. unfold sum_set_precommits. rewrite set_powers_eq. reflexivity. Qed.

Lemma tok_set_pv v x : tok v ->
  tok (with_sum (with_pv v x) (sum_set_prevotes (v_sum (with_pv v x)) (vs_pows (v_vals (with_pv v x))) x)).
Proof.
  unfold tok. intros H. cbn [with_sum with_pv v_sum v_vals v_pv v_pc]. rewrite H.
  apply sum_set_prevotes_of.
Qed.
Lemma tok_set_pc v x : tok v ->
  tok (with_sum (with_pc v x) (sum_set_precommits (v_sum (with_pc v x)) (vs_pows (v_vals (with_pc v x))) x)).
Proof.
  unfold tok. intros H. cbn [with_sum with_pc v_sum v_vals v_pv v_pc]. rewrite H.
  apply sum_set_precommits_of.
Qed.

(** get_view / put_view (any id other than Voting / Committing addresses the next-round view) *)
Lemma get_view_tok s vid : vid <> ViewIDCommitting -> tinv s -> tok (get_view s vid).
Proof.
  intros Hne [Hv Hn]. unfold get_view.
  destruct (vid =? ViewIDVoting); [exact Hv|].
  destruct (N.eqb_spec vid ViewIDCommitting); [contradiction|exact Hn].
Qed.

Lemma put_view_tinv s vid v : tinv s -> (vid <> ViewIDCommitting -> tok v) -> tinv (put_view s vid v).
Proof.
  intros [Hv Hn] H. unfold put_view.
  destruct (N.eqb_spec vid ViewIDVoting) as [E|E].
  - split; cbn; [apply H; rewrite E; cbv; discriminate|exact Hn].
  - destruct (N.eqb_spec vid ViewIDCommitting) as [E2|E2]; split; cbn; auto.
Qed.

Lemma tinv_increment s : tinv s -> tinv (increment_voting_round s).
Proof.
  intros [Hv Hn]. unfold increment_voting_round, tinv. cbn. split; [apply tok_bump; exact Hn|].
  unfold tok in *. cbn. rewrite Hv. reflexivity.
Qed.
Lemma tinv_advance s : tinv s -> tinv (advance_voting_round s).
Proof. intros H. exact (tinv_increment (ev_w s (EvNil (k_vot s))) H). Qed.
Lemma tinv_jump s : tinv s -> tinv (jump_voting_round s).
Proof. intros H. exact (tinv_increment s H). Qed.

Lemma tinv_shift s voted : tinv (shift_voting_to_committing s voted).
Proof. unfold tinv, tok. split; reflexivity. Qed.

Lemma tinv_check_voting s s' : tinv s -> check_voting_precommit_shift s = Ok s' -> tinv s'.
Proof.
  intros H. unfold check_voting_precommit_shift, bind.
  destruct (byz_majority _) as [maj|]; [|discriminate].
  destruct (_ <? maj).
  - destruct (_ =? _); intros E; inversion E; subst; [apply tinv_advance|]; exact H.
  - destruct (sm_mpc _).
    + intros E; inversion E; subst. apply tinv_advance, H.
    + destruct (find _ _); intros E; inversion E; subst; [apply tinv_shift|exact H].
Qed.

Lemma tinv_check_next_round s s' : tinv s -> check_next_round_precommit_shift s = Ok s' -> tinv s'.
Proof.
  intros H. unfold check_next_round_precommit_shift, bind.
  destruct (byz_minority _) as [mn|]; [|discriminate].
  destruct (_ <? mn); [intros E; inversion E; subst; exact H|].
  destruct (byz_majority _) as [maj|]; [|discriminate].
  destruct (maj <=? _).
  - apply tinv_check_voting, tinv_jump, H.
  - intros E; inversion E; subst. apply tinv_jump, H.
Qed.

Lemma tinv_check_prevote s s' : tinv s -> check_prevote_shift s = Ok s' -> tinv s'.
Proof.
  intros H. unfold check_prevote_shift, bind.
  destruct (byz_minority _) as [mn|]; [|discriminate].
  destruct (_ <? mn); intros E; inversion E; subst; [|apply tinv_jump]; exact H.
Qed.

(** ** The state right after the signatures of a vote message were merged, before any shift check *)
Definition merged (kind : N) (s : kstate) (vid h r : N) (ups : pmap) : kstate :=
  let v := get_view s vid in
  let votes' := fold_left (fun m e => pm_set m (fst e) (snd e)) ups (view_votes kind v) in
  let v1 := if kind =? KPrevote then with_pv v votes' else with_pc v votes' in
  let sm' := if kind =? KPrevote then sum_set_prevotes (v_sum v1) (vs_pows (v_vals v1)) votes'
             else sum_set_precommits (v_sum v1) (vs_pows (v_vals v1)) votes' in
  let v2 := bump (with_sum v1 sm') in
  let s1 := put_view s vid v2 in
  let coll := map_to_sparse (vs_pkh (v_vals v2)) votes' in
  ev_w (log_w (set_rounds s1 (if kind =? KPrevote then rs_overwrite_pv (st_rounds s1) h r coll
                                  else rs_overwrite_pc (st_rounds s1) h r coll))
                  (if kind =? KPrevote then WPV h r coll else WPC h r coll)) (EvMark vid v2).

Definition post_merge (kind vid : N) (s2 : kstate) : res kstate :=
  if kind =? KPrevote then
    if vid =? ViewIDNextRound then check_prevote_shift s2 else Ok s2
  else
    if vid =? ViewIDVoting then check_voting_precommit_shift s2
    else if vid =? ViewIDNextRound then check_next_round_precommit_shift s2
    else Ok s2.

Lemma apply_votes_eq kind s vid h r ups :
  apply_votes kind s vid h r ups = post_merge kind vid (merged kind s vid h r ups).
Proof. reflexivity. Qed.

Lemma frame_merged kind s vid h r ups : frame_eq s (merged kind s vid h r ups).
Proof.
  unfold merged. eapply frame_eq_trans; [apply frame_put_view|apply frame_set_rounds].
  destruct (kind =? KPrevote); repeat split.
Qed.

Lemma tinv_merged kind s vid h r ups : tinv s -> tinv (merged kind s vid h r ups).
Proof.
  intros H. unfold merged. cbv zeta.
  match goal with |- tinv (ev_w (log_w (set_rounds ?s1 _) _) _) => change (tinv s1) end.
  apply put_view_tinv; [exact H|]. intros Hne. apply tok_bump.
  pose proof (get_view_tok s vid Hne H) as Hv.
  destruct (kind =? KPrevote); [apply tok_set_pv|apply tok_set_pc]; exact Hv.
Qed.

Lemma tinv_post_merge kind vid s2 s' : tinv s2 -> post_merge kind vid s2 = Ok s' -> tinv s'.
Proof.
  intros H2. unfold post_merge.
  destruct (kind =? KPrevote).
  - destruct (vid =? ViewIDNextRound); [apply tinv_check_prevote; exact H2|intros E; inversion E; subst; exact H2].
  - destruct (vid =? ViewIDVoting); [apply tinv_check_voting; exact H2|].
    destruct (vid =? ViewIDNextRound); [apply tinv_check_next_round; exact H2|intros E; inversion E; subst; exact H2].
Qed.

Lemma tinv_apply_votes kind s vid h r ups s' :
  tinv s -> apply_votes kind s vid h r ups = Ok s' -> tinv s'.
Proof. intros H. rewrite apply_votes_eq. apply tinv_post_merge, tinv_merged, H. Qed.

Lemma tinv_views s s' : k_vot s' = k_vot s -> k_nxt s' = k_nxt s -> tinv s -> tinv s'.
Proof. unfold tinv. intros -> ->. auto. Qed.

Lemma tinv_handle_votes kind s m s' res : tinv s -> handle_votes kind s m = Ok (s', res) -> tinv s'.
Proof.
  intros H. unfold handle_votes, bind.
  destruct (vm_proofs m) as [|vp0 vpl]; [intros E; inversion E; subst; exact H|].
  destruct (find_view _ _ _) as [[vid st]|]; [|discriminate].
  destruct (st =? ViewFuture).
  { intros E. destruct (handle_future_views _ _ _ _ _ E) as (E1&E2&_). eapply tinv_views; eassumption. }
  destruct (negb (st =? ViewFound)); [intros E; inversion E; subst; exact H|].
  destruct (negb (bytes_eqb _ _)); [intros E; inversion E; subst; exact H|].
  destruct (sigs_to_add _ _ _) as [|x0 l0]; [intros E; inversion E; subst; exact H|].
  destruct (build_updates _ _ _) as [ups allv].
  destruct ups as [|u ups'] eqn:Hu; [intros E; inversion E; subst; exact H|]. rewrite <- Hu. clear Hu.
  destruct (apply_votes _ _ _ _ _ _) as [s2|] eqn:Ha; [|discriminate].
  intros E; inversion E; subst. eapply tinv_apply_votes; eassumption.
Qed.

(** ** Proposed headers: only the committing view's votes change *)
Lemma tinv_backfill s p : tinv s -> tinv (backfill_commit s p).
Proof.
  intros H. unfold backfill_commit. destruct (fold_left _ _ _) as [pc' any]. destruct any; exact H.
Qed.

Lemma tinv_add_ph s p s' : tinv s -> add_ph s p = Ok s' -> tinv s'.
Proof.
  intros H. unfold add_ph, bind.
  destruct (find_view _ _ _) as [[vid st]|]; [|discriminate].
  destruct (negb (st =? ViewFound)); [intros E; inversion E; subst; exact H|].
  destruct (existsb _ _); [intros E; inversion E; subst; exact H|].
  set (s1 := put_view s vid _).
  assert (H1 : tinv s1).
  { apply put_view_tinv; [exact H|]. intros Hne. apply tok_bump, tok_with_phs, get_view_tok; assumption. }
  set (s2 := ev_w (log_w (set_rounds s1 _) _) _).
  assert (H2 : tinv s2) by exact H1.
  destruct (negb _); [intros E; inversion E; subst; exact H2|].
  pose proof (tinv_backfill s2 p H2) as H3.
  destruct (vid =? ViewIDVoting).
  - destruct (pm_get _ _).
    + apply tinv_check_voting; exact H3.
    + intros E; inversion E; subst; exact H3.
  - intros E; inversion E; subst; exact H3.
Qed.

Lemma tinv_handle_ph_loop fuel : forall backfilled s p s' res,
  tinv s -> handle_ph_loop fuel backfilled s p = Ok (s', res) -> tinv s'.
Proof.
  induction fuel as [|f IH]; intros backfilled s p s' res H; cbn [handle_ph_loop];
    destruct (ph_check s p) as [status proposer prev_hash prev_vs view_vs].
  all: repeat match goal with
       | |- (if ?c then _ else _) = _ -> _ => destruct c; [intros E; inversion E; subst; exact H|]
       end.
  all: try (destruct (status =? PHCheckNextHeight);
            [ destruct backfilled; [intros E; inversion E; subst; exact H|] | ]).
  - intros E; inversion E; subst; exact H.
  - revert H. generalize s. clear. intros s H.
    repeat match goal with
       | |- (if ?c then _ else _) = _ -> _ => destruct c; [intros E; inversion E; subst; exact H|]
       end.
    destruct proposer as [key|]; [|intros E; inversion E; subst; exact H].
    repeat match goal with
       | |- (if ?c then _ else _) = _ -> _ => destruct c; [intros E; inversion E; subst; exact H|]
       end.
    assert (Hacc : forall s' res, bind (add_ph s p) (fun s' => Ok (s', HandleProposedHeaderAccepted)) = Ok (s', res) -> tinv s').
    { intros s1 r1. unfold bind. destruct (add_ph s p) eqn:Ha; [|discriminate].
      intros E; inversion E; subst. eapply tinv_add_ph; eassumption. }
    destruct (k_init_h s <? _); [|apply Hacc].
    destruct (vs_keys prev_vs); [intros E; inversion E; subst; exact H|].
    destruct (validate_finalized _ _ _ _ _) as [[bits|] [|]];
      try (intros E; inversion E; subst; exact H).
    unfold bind at 1. destruct (byz_majority _); [|discriminate].
    destruct (_ <? _); [intros E; inversion E; subst; exact H|apply Hacc].
  - unfold bind at 1. destruct (handle_votes KPrecommit s (vote_msg_of_pcp p)) as [[s1 r1]|] eqn:Hv; [|discriminate].
    cbn [fst]. apply IH. eapply tinv_handle_votes; [exact H|exact Hv].
  - revert H. generalize s. clear. intros s H.
    repeat match goal with
       | |- (if ?c then _ else _) = _ -> _ => destruct c; [intros E; inversion E; subst; exact H|]
       end.
    destruct proposer as [key|]; [|intros E; inversion E; subst; exact H].
    repeat match goal with
       | |- (if ?c then _ else _) = _ -> _ => destruct c; [intros E; inversion E; subst; exact H|]
       end.
    assert (Hacc : forall s' res, bind (add_ph s p) (fun s' => Ok (s', HandleProposedHeaderAccepted)) = Ok (s', res) -> tinv s').
    { intros s1 r1. unfold bind. destruct (add_ph s p) eqn:Ha; [|discriminate].
      intros E; inversion E; subst. eapply tinv_add_ph; eassumption. }
    destruct (k_init_h s <? _); [|apply Hacc].
    destruct (vs_keys prev_vs); [intros E; inversion E; subst; exact H|].
    destruct (validate_finalized _ _ _ _ _) as [[bits|] [|]];
      try (intros E; inversion E; subst; exact H).
    unfold bind at 1. destruct (byz_majority _); [|discriminate].
    destruct (_ <? _); [intros E; inversion E; subst; exact H|apply Hacc].
Qed.

(** ** Replayed headers *)
Lemma tinv_replay_insert s hd r s1 : tinv s -> replay_insert s hd r = Ok s1 -> tinv s1.
Proof.
  intros H. unfold replay_insert.
  destruct (existsb _ (v_phs _)); [intros E; inversion E; subst; exact H|].
  destruct H as [Hv Hn].
  destruct (existsb _ (st_rounds s)); intros E; inversion E; subst; split; cbn; try exact Hn;
    apply tok_with_phs; exact Hv.
Qed.

Lemma tinv_handle_replay s0 hd cp s' res : tinv s0 -> handle_replay s0 hd cp = Ok (s', res) -> tinv s'.
Proof.
  intros H0. unfold handle_replay.
  destruct (negb (hd_height hd =? _)); [intros E; inversion E; subst; exact H0|].
  destruct (cp_round cp <? _); [discriminate|].
  set (s := jump_until _ s0 _).
  assert (H : tinv s) by (apply jump_until_ind; [apply tinv_jump|exact H0]).
  destruct (negb (_ && _)); [discriminate|].
  assert (Hsame : forall r0, Ok (s0, r0) = Ok (s', res) -> tinv s') by (intros r0 E; inversion E; subst; exact H0).
  destruct (negb (hd_ok hd)); [apply Hsame|].
  destruct (negb (hd_height hd =? k_init_h s) && _); [apply Hsame|].
  destruct (negb (valset_equal (hd_vals hd) (v_vals (k_vot s)) && vs_ok (hd_vals hd))); [apply Hsame|].
  destruct (negb (vs_ok (hd_next hd))); [apply Hsame|].
  destruct (fold_left _ (signed_entries (cp_proofs cp)) ([], true)) as [temp allv].
  destruct (negb allv); [apply Hsame|].
  destruct (pm_get temp (hd_hash hd)); [|apply Hsame].
  unfold bind at 1. destruct (byz_majority _); [|discriminate].
  destruct (_ <? _); [apply Hsame|].
  fold (replay_insert s hd (cp_round cp)).
  unfold bind at 1. destruct (replay_insert s hd (cp_round cp)) as [s1|] eqn:Hins; [|discriminate].
  pose proof (tinv_replay_insert _ _ _ _ H Hins) as H1.
  unfold bind. destruct (check_voting_precommit_shift _) as [s3|] eqn:Hc; [|discriminate].
  intros E; inversion E; subst.
  eapply tinv_check_voting; [|exact Hc].
  destruct H1 as [Hv1 Hn1]. split; cbn; [|exact Hn1].
  apply tok_set_pc. exact Hv1.
Qed.

Lemma tinv_step s o s' res : tinv s -> step s o = Ok (s', res) -> tinv s'.
Proof.
  intros H. destruct o as [p|m|m|x cp]; cbn [step]; [| | |apply tinv_handle_replay; exact H].
  - unfold handle_ph. destruct (ph_key p); [apply tinv_handle_ph_loop; exact H|].
    intros E; inversion E; subst; exact H.
  - apply tinv_handle_votes; exact H.
  - apply tinv_handle_votes; exact H.
Qed.

Lemma tinv_init ih vs : tinv (init_state ih vs).
Proof. unfold tinv, tok, init_state. cbn. split; reflexivity. Qed.

(** for every operation history, bounded or not *)
Theorem reachable_tinv ih vs s : reachable ih vs s -> tinv s.
Proof. induction 1 as [|s o s' res Hr IH Hs]; [apply tinv_init|]. eapply tinv_step; eassumption. Qed.

Lemma reachable_b_reachable ih ivs s : reachable_b ih ivs s -> reachable ih ivs s.
Proof. induction 1 as [|s o s' res Hr IH Hb Hs]; [apply reach_init|]. eapply reach_step; eassumption. Qed.

(** the statement of Properties/C06Power.v, (1) *)
Theorem totals_recomputed ih ivs s :
  1 <= ih -> vs_ok ivs = true -> reachable_b ih ivs s ->
  forall v, v = k_vot s \/ v = k_nxt s ->
    let pows := vs_pows (v_vals v) in
    sm_tpv (v_sum v) = idx_power pows (sort_n (signer_set (v_pv v))) /\
    sm_tpc (v_sum v) = idx_power pows (sort_n (signer_set (v_pc v))) /\
    sm_pvp (v_sum v) = blocks pows (v_pv v) /\
    sm_pcp (v_sum v) = blocks pows (v_pc v) /\
    sm_mpv (v_sum v) = most_voted pows (v_pv v) /\
    sm_mpc (v_sum v) = most_voted pows (v_pc v) /\
    sm_avail (v_sum v) = sum_pows pows /\
    set_powers pows (v_pv v) = (sm_tpv (v_sum v), sm_pvp (v_sum v), sm_mpv (v_sum v)) /\
    set_powers pows (v_pc v) = (sm_tpc (v_sum v), sm_pcp (v_sum v), sm_mpc (v_sum v)).
Proof.
  intros _ _ Hr v Hv.
  pose proof (reachable_tinv _ _ _ (reachable_b_reachable _ _ _ Hr)) as [Tv Tn].
  assert (T : tok v) by (destruct Hv as [->| ->]; assumption).
  unfold tok in T. cbv zeta. rewrite !set_powers_eq, T.
  cbn [sm_tpv sm_tpc sm_pvp sm_pcp sm_mpv sm_mpc sm_avail summary_of]. repeat split.
Qed.

(** * Part C: what makes a vote operation change the round *)

(** The conditions the kernel reads off a view's summary (all comparisons exactly as in
    checkVotingPrecommitViewShift / checkNextRoundPrecommitViewShift / checkPrevoteViewShift). *)
Definition nil_majority (sm : summary) : Prop :=
  exists maj, byz_majority (sm_avail sm) = Ok maj /\ sm_mpc sm = [] /\ maj <= map_get (sm_pcp sm) [].
Definition all_in_no_majority (sm : summary) : Prop :=
  exists maj, byz_majority (sm_avail sm) = Ok maj /\
    map_get (sm_pcp sm) (sm_mpc sm) < maj /\ sm_tpc sm = sm_avail sm.
Definition block_majority (sm : summary) : Prop :=
  exists maj, byz_majority (sm_avail sm) = Ok maj /\ sm_mpc sm <> [] /\
    maj <= map_get (sm_pcp sm) (sm_mpc sm).
Definition minority_prevotes (sm : summary) : Prop :=
  exists mn, byz_minority (sm_avail sm) = Ok mn /\ mn <= sm_tpv sm.
Definition minority_precommits (sm : summary) : Prop :=
  exists mn, byz_minority (sm_avail sm) = Ok mn /\ mn <= sm_tpc sm.

Lemma check_voting_cases s s' : check_voting_precommit_shift s = Ok s' ->
  s' = s \/
  (s' = advance_voting_round s /\
   (nil_majority (v_sum (k_vot s)) \/ all_in_no_majority (v_sum (k_vot s)))) \/
  (exists p, In p (v_phs (k_vot s)) /\ block_majority (v_sum (k_vot s)) /\
             s' = shift_voting_to_committing s (ph_hdr p)).
Proof.
  unfold check_voting_precommit_shift, bind.
  destruct (byz_majority _) as [maj|] eqn:Hmaj; [|discriminate].
  destruct (_ <? maj) eqn:Hlt.
  - apply N.ltb_lt in Hlt. destruct (_ =? _) eqn:Heq; intros E; inversion E; subst; [|left; reflexivity].
    apply N.eqb_eq in Heq. right; left. split; [reflexivity|]. right. exists maj. auto.
  - apply N.ltb_ge in Hlt. destruct (sm_mpc _) eqn:Hm; try rewrite Hm in Hlt.
    + intros E; inversion E; subst. right; left. split; [reflexivity|]. left. exists maj. auto.
    + destruct (find _ _) as [p|] eqn:Hf; intros E; inversion E; subst; [|left; reflexivity].
      right; right. exists p. split; [eapply find_in; exact Hf|]. split; [|reflexivity].
      exists maj. split; [exact Hmaj|]. rewrite Hm. split; [discriminate|exact Hlt].
Qed.

Lemma check_next_round_cases s s' : check_next_round_precommit_shift s = Ok s' ->
  s' = s \/
  (minority_precommits (v_sum (k_nxt s)) /\
   (s' = jump_voting_round s \/
    (s' = advance_voting_round (jump_voting_round s) /\ nil_majority (v_sum (k_nxt s))) \/
    (exists p, In p (v_phs (k_vot (jump_voting_round s))) /\
               s' = shift_voting_to_committing (jump_voting_round s) (ph_hdr p)))).
Proof.
  unfold check_next_round_precommit_shift, bind.
  destruct (byz_minority _) as [mn|] eqn:Hmn; [|discriminate].
  destruct (_ <? mn) eqn:Hlt; [intros E; inversion E; left; reflexivity|].
  apply N.ltb_ge in Hlt.
  destruct (byz_majority _) as [maj|] eqn:Hmaj; [|discriminate].
  destruct (maj <=? _) eqn:Hle.
  - apply N.leb_le in Hle. intros E. right. split; [exists mn; auto|].
    destruct (check_voting_cases _ _ E) as [->|[(-> & Hc)|(p & Hin & _ & ->)]].
    + left; reflexivity.
    + right; left. split; [reflexivity|].
      change (v_sum (k_vot (jump_voting_round s))) with (v_sum (k_nxt s)) in Hc.
      destruct Hc as [Hc|(maj' & Hm' & Hlt' & _)]; [exact Hc|].
      rewrite Hmaj in Hm'. inversion Hm'; subst. lia.
    + right; right. exists p. auto.
  - intros E; inversion E; subst. right. split; [exists mn; auto|]. left; reflexivity.
Qed.

Lemma check_prevote_cases s s' : check_prevote_shift s = Ok s' ->
  s' = s \/ (minority_prevotes (v_sum (k_nxt s)) /\ s' = jump_voting_round s).
Proof.
  unfold check_prevote_shift, bind.
  destruct (byz_minority _) as [mn|] eqn:Hmn; [|discriminate].
  destruct (_ <? mn) eqn:Hlt; intros E; inversion E; subst; [left; reflexivity|].
  apply N.ltb_ge in Hlt. right. split; [exists mn; auto|reflexivity].
Qed.

(** positions after a round increment / a commit shift *)
Lemma pos_increment ih ivs s : cinv ih ivs s ->
  v_h (k_vot (update_observers (increment_voting_round s))) = v_h (k_vot s) /\
  v_r (k_vot (update_observers (increment_voting_round s))) = wrap32 (v_r (k_vot s) + 1).
Proof. intros (_&_&_&Hnh&Hnr&_). cbn. split; assumption. Qed.

Lemma pos_jump ih ivs s : cinv ih ivs s ->
  v_h (k_vot (jump_voting_round s)) = v_h (k_vot s) /\
  v_r (k_vot (jump_voting_round s)) = wrap32 (v_r (k_vot s) + 1).
Proof. intros H. exact (pos_increment ih ivs s H). Qed.
Lemma pos_advance ih ivs s : cinv ih ivs s ->
  v_h (k_vot (advance_voting_round s)) = v_h (k_vot s) /\
  v_r (k_vot (advance_voting_round s)) = wrap32 (v_r (k_vot s) + 1).
Proof. intros H. exact (pos_increment ih ivs (ev_w s (EvNil (k_vot s))) H). Qed.

Lemma pos_shift ih ivs s p : cinv ih ivs s -> In p (v_phs (k_vot s)) ->
  v_h (k_vot (shift_voting_to_committing s (ph_hdr p))) = v_h (k_vot s) + 1.
Proof.
  intros (_&_&_&_&_&_&_&_&_&Hphs&_) Hin.
  destruct (Hphs p (or_introl Hin)) as (Ph&_&_&Pb&_).
  unfold shift_voting_to_committing, update_observers. cbn.
  unfold wrap64. apply N.mod_small. rewrite <- Ph. exact Pb.
Qed.

(** ** The merge point of a vote message *)
Definition merge_point (kind : N) (s : kstate) (m : vmsg) : option (N * kstate) :=
  match vm_proofs m with
  | [] => None
  | _ =>
    match find_view (kpos_of s) (vm_h m) (vm_r m) with
    | Panic _ => None
    | Ok (vid, st) =>
      if negb (st =? ViewFound) then None else
      let v := get_view s vid in
      if negb (bytes_eqb (vm_pkh m) (vs_pkh (v_vals v))) then None else
      let toadd := sigs_to_add (view_votes kind v) (vm_proofs m) (List.length (vs_keys (v_vals v))) in
      match toadd with
      | [] => None
      | _ =>
          let '(ups, allv) := build_updates kind v toadd in
          match ups with
          | [] => None
          | _ => Some (vid, merged kind s vid (vm_h m) (vm_r m) ups)
          end
      end
    end
  end.

Definition vote_op (o : op) : option (N * vmsg) :=
  match o with
  | OpPrevote m => Some (KPrevote, m)
  | OpPrecommit m => Some (KPrecommit, m)
  | _ => None
  end.

Lemma vote_op_step o kind m s : vote_op o = Some (kind, m) ->
  (kind = KPrevote \/ kind = KPrecommit) /\ step s o = handle_votes kind s m.
Proof.
  destruct o; cbn; try discriminate; intros E; inversion E; subst; (split; [auto|reflexivity]).
Qed.

Lemma auth_merged kind s vid h r ups :
  (kind = KPrevote \/ kind = KPrecommit) -> auth_state s ->
  auth_pmap (vs_keys (v_vals (get_view s vid))) kind (v_h (get_view s vid)) (v_r (get_view s vid)) ups ->
  auth_state (merged kind s vid h r ups).
Proof.
  intros Hk Ha Hu. unfold merged.
  set (v := get_view s vid) in *.
  set (votes' := fold_left (fun m e => pm_set m (fst e) (snd e)) ups (view_votes kind v)).
  set (v1 := if kind =? KPrevote then with_pv v votes' else with_pc v votes').
  set (sm' := if kind =? KPrevote then sum_set_prevotes _ _ _ else _).
  assert (Hv : auth_view v) by (apply get_view_auth; exact Ha).
  assert (Hvotes : auth_pmap (vs_keys (v_vals v)) kind (v_h v) (v_r v) votes')
    by (apply fold_pm_set_auth; [apply view_votes_auth; assumption|exact Hu]).
  assert (Hv1 : auth_view v1)
    by (unfold v1; destruct Hk as [->| ->]; cbn; split; cbn; try apply Hv; exact Hvotes).
  apply auth_set_rounds, put_view_auth; [exact Ha|].
  apply auth_view_bump. eapply auth_view_same; [apply same_votes_with_sum|exact Hv1].
Qed.

(** everything the later proofs need about a successful vote operation *)
Lemma handle_votes_cases kind s m s' res :
  (kind = KPrevote \/ kind = KPrecommit) ->
  handle_votes kind s m = Ok (s', res) ->
  (merge_point kind s m = None /\ k_vot s' = k_vot s /\ k_nxt s' = k_nxt s /\ k_com s' = k_com s) \/
  (exists vid sm, merge_point kind s m = Some (vid, sm) /\
     (vid = ViewIDVoting \/ vid = ViewIDNextRound \/ vid = ViewIDCommitting) /\
     frame_eq s sm /\ (tinv s -> tinv sm) /\ (auth_state s -> auth_state sm) /\
     post_merge kind vid sm = Ok s' /\ res = HandleVoteProofsAccepted).
Proof.
  intros Hk. unfold handle_votes, merge_point, bind.
  assert (Hsame : forall r0, Ok (s, r0) = Ok (s', res) ->
            k_vot s' = k_vot s /\ k_nxt s' = k_nxt s /\ k_com s' = k_com s)
    by (intros r0 E; inversion E; subst; auto).
  destruct (vm_proofs m) as [|vp0 vpl] eqn:Hp; [intros E; left; split; [reflexivity|eapply Hsame; exact E]|].
  rewrite <- Hp. clear Hp vp0 vpl.
  destruct (find_view _ _ _) as [[vid st]|] eqn:Hfv; [|discriminate].
  destruct (st =? ViewFuture) eqn:Hfut.
  { apply N.eqb_eq in Hfut. subst st. change (ViewFuture =? ViewFound) with false. cbn [negb].
    intros E. left. split; [reflexivity|]. eapply handle_future_views; exact E. }
  destruct (st =? ViewFound) eqn:Hst; cbn [negb]; [|intros E; left; split; [reflexivity|eapply Hsame; exact E]].
  apply N.eqb_eq in Hst.
  assert (Hvid : vid = ViewIDVoting \/ vid = ViewIDNextRound \/ vid = ViewIDCommitting).
  { destruct (find_view_found _ _ _ _ _ Hfv Hst) as [(A&_)|[(A&_)|(A&_)]]; auto. }
  destruct (negb (bytes_eqb _ _)); [intros E; left; split; [reflexivity|eapply Hsame; exact E]|].
  destruct (sigs_to_add _ _ _) as [|x0 l0] eqn:Hs; [intros E; left; split; [reflexivity|eapply Hsame; exact E]|].
  rewrite <- Hs. clear Hs.
  pose proof (fun Ha => build_updates_auth kind (get_view s vid)
     (sigs_to_add (view_votes kind (get_view s vid)) (vm_proofs m)
        (List.length (vs_keys (v_vals (get_view s vid))))) Hk (get_view_auth s vid Ha)) as Hb.
  destruct (build_updates _ _ _) as [ups allv]. cbn [fst] in Hb.
  destruct ups as [|u ups'] eqn:Hu; [intros E; left; split; [reflexivity|eapply Hsame; exact E]|].
  rewrite <- Hu in *. clear Hu.
  rewrite apply_votes_eq.
  destruct (post_merge _ _ _) as [s2|] eqn:Hpm; [|discriminate].
  intros E; inversion E; subst. right.
  exists vid, (merged kind s vid (vm_h m) (vm_r m) ups).
  split; [reflexivity|]. split; [exact Hvid|]. split; [apply frame_merged|].
  split; [apply tinv_merged|]. split; [|split; [exact Hpm|reflexivity]].
  intros Ha. apply auth_merged; [exact Hk|exact Ha|apply Hb; exact Ha].
Qed.

Lemma frame_pos s sm : frame_eq s sm ->
  v_h (k_vot sm) = v_h (k_vot s) /\ v_r (k_vot sm) = v_r (k_vot s) /\ kpos_of sm = kpos_of s.
Proof.
  intros ((C1&C2&_)&(V1&V2&_)&_). unfold kpos_of. rewrite <- C1, <- C2, <- V1, <- V2. auto.
Qed.

(** (2), exact form.  A vote operation that keeps the height and changes the voting round goes to the
    next round for one of four reasons read off the merged state, or - only on a precommit message for
    the next round that brings that round both to the minority total and to a majority for nil - two
    rounds ahead (the jump to the next round followed by the advance past its nil commit). *)
Theorem round_change_exact ih ivs kind s m s' res :
  (kind = KPrevote \/ kind = KPrecommit) -> cinv ih ivs s ->
  handle_votes kind s m = Ok (s', res) ->
  v_h (k_vot s') = v_h (k_vot s) -> v_r (k_vot s') <> v_r (k_vot s) ->
  exists vid sm, merge_point kind s m = Some (vid, sm) /\ frame_eq s sm /\ kpos_of sm = kpos_of s /\
    ((v_r (k_vot s') = wrap32 (v_r (k_vot s) + 1) /\
       ((kind = KPrecommit /\ vid = ViewIDVoting /\
           (nil_majority (v_sum (k_vot sm)) \/ all_in_no_majority (v_sum (k_vot sm)))) \/
        (kind = KPrevote /\ vid = ViewIDNextRound /\ minority_prevotes (v_sum (k_nxt sm))) \/
        (kind = KPrecommit /\ vid = ViewIDNextRound /\ minority_precommits (v_sum (k_nxt sm))))) \/
     (v_r (k_vot s') = wrap32 (wrap32 (v_r (k_vot s) + 1) + 1) /\
        kind = KPrecommit /\ vid = ViewIDNextRound /\
        minority_precommits (v_sum (k_nxt sm)) /\ nil_majority (v_sum (k_nxt sm)))).
Proof.
  intros Hk Hc Hv Hh Hr.
  destruct (handle_votes_cases _ _ _ _ _ Hk Hv) as [(_&E1&_)|(vid&sm&Hmp&Hvid&F&_&_&Hpm&_)].
  { exfalso. apply Hr. rewrite E1. reflexivity. }
  exists vid, sm. split; [exact Hmp|]. split; [exact F|].
  destruct (frame_pos _ _ F) as (Ph&Pr&Pk). split; [exact Pk|].
  pose proof (cinv_frame _ _ _ _ F Hc) as Hcm.
  rewrite <- Ph in Hh. rewrite <- Pr in Hr. rewrite <- Pr.
  assert (Hstay : s' = sm -> False) by (intros ->; apply Hr; reflexivity).
  revert Hpm. unfold post_merge.
  destruct Hk as [->| ->]; cbn [N.eqb KPrevote KPrecommit Pos.eqb].
  - (* prevote *)
    destruct Hvid as [->|[->| ->]]; cbn [N.eqb ViewIDVoting ViewIDNextRound ViewIDCommitting Pos.eqb];
      try (intros E; inversion E; subst; exfalso; apply Hstay; reflexivity).
    intros E. destruct (check_prevote_cases _ _ E) as [->|(Hcause & ->)]; [exfalso; apply Hstay; reflexivity|].
    left. split; [apply (proj2 (pos_jump ih ivs sm Hcm))|]. right; left. auto.
  - (* precommit *)
    destruct Hvid as [->|[->| ->]]; cbn [N.eqb ViewIDVoting ViewIDNextRound ViewIDCommitting Pos.eqb];
      try (intros E; inversion E; subst; exfalso; apply Hstay; reflexivity).
    + intros E. destruct (check_voting_cases _ _ E) as [->|[(-> & Hcause)|(p & Hin & _ & ->)]].
      * exfalso; apply Hstay; reflexivity.
      * left. split; [apply (proj2 (pos_advance ih ivs sm Hcm))|]. left. auto.
      * exfalso. rewrite (pos_shift ih ivs sm p Hcm Hin) in Hh. lia.
    + intros E. destruct (check_next_round_cases _ _ E) as [->|(Hmin & [->|[(-> & Hnil)|(p & Hin & ->)]])].
      * exfalso; apply Hstay; reflexivity.
      * left. split; [apply (proj2 (pos_jump ih ivs sm Hcm))|]. right; right. auto.
      * right. pose proof (cinv_jump _ _ _ Hcm) as Hcj.
        destruct (pos_advance ih ivs _ Hcj) as [_ R2]. destruct (pos_jump ih ivs sm Hcm) as [_ R1].
        rewrite R2, R1. repeat split; auto.
      * exfalso. pose proof (cinv_jump _ _ _ Hcm) as Hcj.
        rewrite (pos_shift ih ivs _ p Hcj Hin) in Hh. destruct (pos_jump ih ivs sm Hcm) as [H1 _].
        rewrite H1 in Hh. lia.
Qed.

(** * Part D: power arithmetic without wrap-around *)
Definition pw (pows : list N) (i : N) : N := match nth_n pows i with Some p => p | None => 0 end.
Definition psum (pows : list N) (l : list N) : N := fold_right (fun i a => pw pows i + a) 0 l.
Definition plain_total (pows : list N) : N := fold_right N.add 0 pows.
(** the guard of the exact statements (the Go code does not check it): the powers do not overflow uint64 *)
Definition nowrap (pows : list N) : Prop := plain_total pows < two64.

Lemma psum_cons pows a l : psum pows (a :: l) = pw pows a + psum pows l.
Proof. reflexivity. Qed.

Lemma psum_app pows a b : psum pows (a ++ b) = psum pows a + psum pows b.
Proof.
  induction a as [|x a IH]; [reflexivity|].
  change ((x :: a) ++ b) with (x :: (a ++ b)). rewrite !psum_cons, IH. lia.
Qed.

Lemma psum_incl pows l : forall l', NoDup l ->
  (forall x, In x l -> pw pows x <> 0 -> In x l') -> psum pows l <= psum pows l'.
Proof.
  induction l as [|a l IH]; intros l' Hnd Hin; [change (psum pows []) with 0; lia|].
  rewrite psum_cons.
  inversion Hnd as [|? ? Hna Hnd']; subst.
  destruct (N.eq_dec (pw pows a) 0) as [Hz|Hnz].
  - rewrite Hz. rewrite N.add_0_l. apply IH; [exact Hnd'|]. intros x Hx. apply Hin. right; exact Hx.
  - destruct (in_split a l' (Hin a (or_introl eq_refl) Hnz)) as (l1&l2&->).
    rewrite psum_app, psum_cons.
    assert (H : psum pows l <= psum pows (l1 ++ l2)).
    { apply IH; [exact Hnd'|]. intros x Hx Hpx.
      specialize (Hin x (or_intror Hx) Hpx). apply in_app_or in Hin as [H|[H|H]].
      - apply in_or_app; left; exact H.
      - subst. contradiction.
      - apply in_or_app; right; exact H. }
    rewrite psum_app in H. lia.
Qed.

Lemma pw_app_r pre p ps : pw (pre ++ p :: ps) (N.of_nat (List.length pre)) = p.
Proof.
  unfold pw, nth_n. rewrite Nnat.Nat2N.id, nth_error_app2 by lia. rewrite Nat.sub_diag. reflexivity.
Qed.

Lemma psum_seq_gen pows : forall pre,
  psum (pre ++ pows) (map N.of_nat (seq (List.length pre) (List.length pows))) = plain_total pows.
Proof.
  induction pows as [|p ps IH]; intros pre; cbn [List.length seq map psum fold_right plain_total]; [reflexivity|].
  rewrite pw_app_r. f_equal.
  specialize (IH (pre ++ [p])). rewrite <- app_assoc in IH. cbn [app] in IH.
  rewrite app_length in IH. cbn [List.length] in IH. rewrite Nat.add_1_r in IH. exact IH.
Qed.

Lemma psum_le_total pows l : NoDup l -> psum pows l <= plain_total pows.
Proof.
  intros Hnd. rewrite <- (psum_seq_gen pows []). cbn [app List.length].
  apply psum_incl; [exact Hnd|]. intros x _ Hx.
  apply in_map_iff. exists (N.to_nat x). split; [apply Nnat.N2Nat.id|].
  apply in_seq. split; [lia|]. cbn. unfold pw, nth_n in Hx.
  destruct (nth_error pows (N.to_nat x)) eqn:E; [|exfalso; apply Hx; reflexivity].
  apply nth_error_Some. congruence.
Qed.

Lemma idx_fold_plain pows l : forall a, a + psum pows l < two64 ->
  fold_left (fun a i => match nth_n pows i with Some p => wrap64 (a + p) | None => a end) l a = a + psum pows l.
Proof.
  induction l as [|i l IH]; intros a Ha.
  - change (psum pows []) with 0. cbn [fold_left]. lia.
  - rewrite psum_cons in *. cbn [fold_left]. unfold pw in *. destruct (nth_n pows i) as [p|].
    + assert (Hw : wrap64 (a + p) = a + p) by (unfold wrap64; apply N.mod_small; lia).
      rewrite Hw, IH; lia.
    + rewrite IH; lia.
Qed.

Lemma idx_power_plain pows l : nowrap pows -> NoDup l -> idx_power pows l = psum pows l.
Proof.
  intros Hw Hnd. unfold idx_power. rewrite idx_fold_plain; [lia|].
  pose proof (psum_le_total pows l Hnd). unfold nowrap in Hw. lia.
Qed.

Lemma plain_total_cons p l : plain_total (p :: l) = p + plain_total l.
Proof. reflexivity. Qed.

Lemma sum_fold_plain l : forall a, a + plain_total l < two64 ->
  fold_left (fun a p => wrap64 (a + p)) l a = a + plain_total l.
Proof.
  induction l as [|p l IH]; intros a Ha.
  - change (plain_total []) with 0. cbn [fold_left]. lia.
  - rewrite plain_total_cons in *. cbn [fold_left].
    assert (Hw : wrap64 (a + p) = a + p) by (unfold wrap64; apply N.mod_small; lia).
    rewrite Hw, IH; lia.
Qed.

Lemma sum_pows_plain pows : nowrap pows -> sum_pows pows = plain_total pows.
Proof. intros Hw. unfold sum_pows. rewrite sum_fold_plain; [lia|exact Hw]. Qed.

(** ** [nodup_n] and [sort_n] keep the set *)
Lemma existsb_eqb_in x l : existsb (N.eqb x) l = true <-> In x l.
Proof.
  rewrite existsb_exists. split.
  - intros (y&Hy&E). apply N.eqb_eq in E. subst. exact Hy.
  - intros H. exists x. split; [exact H|apply N.eqb_refl].
Qed.

Lemma in_nodup_n x l : In x (nodup_n l) <-> In x l.
Proof.
  induction l as [|y l IH]; cbn; [tauto|].
  destruct (existsb (N.eqb y) l) eqn:E.
  - apply existsb_eqb_in in E. rewrite IH. split; [auto|]. intros [->|H]; assumption.
  - cbn. rewrite IH. tauto.
Qed.

Lemma NoDup_nodup_n l : NoDup (nodup_n l).
Proof.
  induction l as [|y l IH]; cbn; [constructor|].
  destruct (existsb (N.eqb y) l) eqn:E; [exact IH|].
  constructor; [|exact IH]. rewrite in_nodup_n. intros H. apply existsb_eqb_in in H. congruence.
Qed.

Lemma insert_n_perm x l : Permutation (insert_n x l) (x :: l).
Proof.
  induction l as [|y l IH]; cbn; [reflexivity|].
  destruct (x <=? y); [reflexivity|]. rewrite IH. apply perm_swap.
Qed.

Lemma sort_n_perm l : Permutation (sort_n l) l.
Proof.
  induction l as [|x l IH]; [reflexivity|].
  change (sort_n (x :: l)) with (insert_n x (sort_n l)).
  rewrite insert_n_perm. constructor. exact IH.
Qed.

Lemma NoDup_sort_n l : NoDup l -> NoDup (sort_n l).
Proof. intros H. eapply Permutation_NoDup; [symmetry; apply sort_n_perm|exact H]. Qed.

Lemma in_sort_n x l : In x (sort_n l) <-> In x l.
Proof. split; apply Permutation_in; [apply sort_n_perm|symmetry; apply sort_n_perm]. Qed.

(** ** Totals, block powers and signer sets *)
Lemma total_power_plain pows pm : nowrap pows ->
  total_power pows pm = psum pows (sort_n (signer_set pm)).
Proof. intros Hw. apply idx_power_plain; [exact Hw|]. apply NoDup_sort_n, NoDup_nodup_n. Qed.

(** a set that contains every signer has at least the total's power *)
Lemma total_le_set pows pm S : nowrap pows ->
  (forall i, In i (signer_list pm) -> In i S) -> total_power pows pm <= idx_power pows (nodup_n S).
Proof.
  intros Hw Hin. rewrite total_power_plain by exact Hw.
  rewrite (idx_power_plain pows (nodup_n S) Hw (NoDup_nodup_n S)).
  apply psum_incl; [apply NoDup_sort_n, NoDup_nodup_n|].
  intros x Hx _. apply (proj2 (in_nodup_n _ _)), Hin. apply (proj1 (in_sort_n _ _)) in Hx.
  unfold signer_set in Hx. apply (proj1 (in_nodup_n _ _)) in Hx. exact Hx.
Qed.

Lemma proof_power_le_total pows pm t p : nowrap pows -> In (t, p) pm ->
  proof_power pows p <= total_power pows pm.
Proof.
  intros Hw Hin. unfold proof_power, proof_idxs.
  rewrite (idx_power_plain pows _ Hw (NoDup_nodup_n _)), total_power_plain by exact Hw.
  apply psum_incl; [apply NoDup_nodup_n|]. intros x Hx _.
  apply (proj2 (in_sort_n _ _)). unfold signer_set. apply (proj2 (in_nodup_n _ _)).
  apply (proj1 (in_nodup_n _ _)) in Hx.
  unfold signer_list. apply in_flat_map. exists (t, p). split; [exact Hin|exact Hx].
Qed.

(** no target has more power than the total: an equivocating validator is in several block powers but
    once in the total *)
Lemma block_le_total pows pm t : nowrap pows -> map_get (blocks pows pm) t <= total_power pows pm.
Proof.
  intros Hw. rewrite blocks_eq.
  destruct (fold_blocks_in pows pm [] t) as [H|(p&Hin&Hp)].
  - rewrite H. cbn. lia.
  - rewrite <- Hp. eapply proof_power_le_total; eassumption.
Qed.

Lemma total_le_avail pows pm : nowrap pows -> total_power pows pm <= sum_pows pows.
Proof.
  intros Hw. rewrite total_power_plain, sum_pows_plain by exact Hw.
  apply psum_le_total, NoDup_sort_n, NoDup_nodup_n.
Qed.

(** ** Authenticity: an index in a vote map is a validator with a genuine vote for that view *)
Definition has_genuine_vote (v : view) (i : N) : Prop :=
  exists key kind t p,
    nth_n (vs_keys (v_vals v)) i = Some key /\ (kind = KPrevote \/ kind = KPrecommit) /\
    In (t, p) (view_votes kind v) /\ In (i, SVote key kind (v_h v) (v_r v) t) p.

Lemma signer_genuine v i : auth_view v ->
  In i (signer_list (v_pv v)) \/ In i (signer_list (v_pc v)) -> has_genuine_vote v i.
Proof.
  intros [Hpv Hpc] [H|H]; unfold signer_list in H; apply in_flat_map in H as ([t p]&Hin&Hi);
    cbn [snd] in Hi; apply in_map_iff in Hi as ([j sg]&Hj&Hsg); cbn [fst] in Hj; subst j.
  - destruct (Hpv t p Hin i sg Hsg) as (key&Hk&->).
    exists key, KPrevote, t, p. split; [exact Hk|]. split; [left; reflexivity|]. split; [exact Hin|exact Hsg].
  - destruct (Hpc t p Hin i sg Hsg) as (key&Hk&->).
    exists key, KPrecommit, t, p. split; [exact Hk|]. split; [right; reflexivity|]. split; [exact Hin|exact Hsg].
Qed.

Lemma mnr_le_n n : 1 <= n -> mnr n <= n.
Proof. unfold mnr. destruct (N.eqb_spec (n mod 3) 0); lia. Qed.

(** (3): if every validator with a genuine prevote or precommit in the voting or the next-round view of
    the merged state lies in a set [S] whose distinct power is below the Byzantine minority of the
    available power, the operation only merges: the state after it is the merged state. *)
Theorem minority_only_merges ih ivs kind s m s' res vid sm S mn :
  (kind = KPrevote \/ kind = KPrecommit) -> cinv ih ivs s -> auth_state s -> tinv s ->
  handle_votes kind s m = Ok (s', res) ->
  merge_point kind s m = Some (vid, sm) ->
  nowrap (vs_pows (v_vals (k_vot sm))) ->
  byz_minority (sm_avail (v_sum (k_vot sm))) = Ok mn ->
  (forall i, has_genuine_vote (k_vot sm) i \/ has_genuine_vote (k_nxt sm) i -> In i S) ->
  idx_power (vs_pows (v_vals (k_vot sm))) (nodup_n S) < mn ->
  s' = sm /\ kpos_of s' = kpos_of s.
Proof.
  intros Hk Hc Ha Ht Hv Hmp Hw Hmn HS Hpow.
  destruct (handle_votes_cases _ _ _ _ _ Hk Hv) as [(E&_)|(vid'&sm'&Hmp'&Hvid&F&Ht'&Ha'&Hpm&_)];
    [rewrite E in Hmp; discriminate|].
  rewrite Hmp in Hmp'. inversion Hmp'; subst vid' sm'. clear Hmp'.
  destruct (frame_pos _ _ F) as (_&_&Pk).
  enough (s' = sm) by (subst; auto).
  pose proof (cinv_frame _ _ _ _ F Hc) as Hcm.
  destruct (Ht' Ht) as [Tv Tn]. destruct (Ha' Ha) as (_&Av&An).
  assert (Hvals : v_vals (k_nxt sm) = v_vals (k_vot sm))
    by (destruct Hcm as (_&_&_&_&_&_&Hvv&Hvn&_); congruence).
  set (pows := vs_pows (v_vals (k_vot sm))) in *.
  unfold tok in Tv, Tn. rewrite Hvals in Tn. fold pows in Tv, Tn.
  (* the available power and the thresholds *)
  assert (Hav : sm_avail (v_sum (k_vot sm)) = sum_pows pows) by (rewrite Tv; reflexivity).
  assert (Hav' : sm_avail (v_sum (k_nxt sm)) = sum_pows pows) by (rewrite Tn; reflexivity).
  rewrite Hav in Hmn.
  assert (Hrange : in_range (sum_pows pows)).
  { split; [|apply sum_pows_lt]. destruct (N.eq_dec (sum_pows pows) 0) as [Hz|]; [|lia].
    rewrite Hz in Hmn. cbn in Hmn. discriminate. }
  destruct (no_wrap _ Hrange) as (Emaj&Emin&_).
  rewrite Emin in Hmn. inversion Hmn; subst mn. clear Hmn.
  pose proof (mnr_le_maj _ (proj1 Hrange)) as Hmm. pose proof (mnr_le_n _ (proj1 Hrange)) as Hmn.
  (* all four totals are below the minority *)
  assert (Hall : forall v, (v = k_vot sm \/ v = k_nxt sm) ->
            total_power pows (v_pv v) < mnr (sum_pows pows) /\ total_power pows (v_pc v) < mnr (sum_pows pows)).
  { intros v Hvv. assert (Hav_v : auth_view v) by (destruct Hvv as [->| ->]; assumption).
    assert (HinS : forall i, In i (signer_list (v_pv v)) \/ In i (signer_list (v_pc v)) -> In i S).
    { intros i Hi. apply HS. destruct Hvv as [->| ->]; [left|right]; apply signer_genuine; assumption. }
    split; (eapply N.le_lt_trans;
             [apply (total_le_set pows _ S Hw); intros i Hi; apply HinS; auto|exact Hpow]). }
  destruct (Hall _ (or_introl eq_refl)) as [_ Fvc]. destruct (Hall _ (or_intror eq_refl)) as [Fnv Fnc].
  assert (Etpc : sm_tpc (v_sum (k_vot sm)) = total_power pows (v_pc (k_vot sm))) by (rewrite Tv; reflexivity).
  assert (Epcp : sm_pcp (v_sum (k_vot sm)) = blocks pows (v_pc (k_vot sm))) by (rewrite Tv; reflexivity).
  assert (Entpv : sm_tpv (v_sum (k_nxt sm)) = total_power pows (v_pv (k_nxt sm))) by (rewrite Tn; reflexivity).
  assert (Entpc : sm_tpc (v_sum (k_nxt sm)) = total_power pows (v_pc (k_nxt sm))) by (rewrite Tn; reflexivity).
  assert (Hblk : forall t, map_get (sm_pcp (v_sum (k_vot sm))) t < mnr (sum_pows pows)).
  { intros t. rewrite Epcp. eapply N.le_lt_trans; [apply block_le_total; exact Hw|exact Fvc]. }
  (* no check fires *)
  assert (Hvoting : forall s2, check_voting_precommit_shift sm = Ok s2 -> s2 = sm).
  { intros s2 E. destruct (check_voting_cases _ _ E) as [->|[(_ & [Hc1|Hc1])|(p & _ & Hc1 & _)]]; [reflexivity| | |]; exfalso.
    - destruct Hc1 as (maj0&Hm0&_&Hle). rewrite Hav, Emaj in Hm0. inversion Hm0; subst maj0.
      specialize (Hblk []). lia.
    - destruct Hc1 as (maj0&_&_&Heq). rewrite Hav, Etpc in Heq. lia.
    - destruct Hc1 as (maj0&Hm0&_&Hle). rewrite Hav, Emaj in Hm0. inversion Hm0; subst maj0.
      specialize (Hblk (sm_mpc (v_sum (k_vot sm)))). lia. }
  revert Hpm. unfold post_merge.
  destruct (kind =? KPrevote).
  - destruct (vid =? ViewIDNextRound); [|intros E; inversion E; reflexivity].
    intros E. destruct (check_prevote_cases _ _ E) as [->|((mn0&Hm0&Hle)&_)]; [reflexivity|exfalso].
    rewrite Hav', Emin in Hm0. inversion Hm0; subst mn0. rewrite Entpv in Hle. lia.
  - destruct (vid =? ViewIDVoting); [apply Hvoting|].
    destruct (vid =? ViewIDNextRound); [|intros E; inversion E; reflexivity].
    intros E. destruct (check_next_round_cases _ _ E) as [->|((mn0&Hm0&Hle)&_)]; [reflexivity|exfalso].
    rewrite Hav', Emin in Hm0. inversion Hm0; subst mn0. rewrite Entpc in Hle. lia.
Qed.

(** ** Statements in the form of Properties/C06Power.v *)
Lemma merge_point_inv kind s m vid sm :
  (kind = KPrevote \/ kind = KPrecommit) -> merge_point kind s m = Some (vid, sm) ->
  frame_eq s sm /\ (tinv s -> tinv sm) /\ (auth_state s -> auth_state sm).
Proof.
  intros Hk. unfold merge_point.
  destruct (vm_proofs m) as [|vp0 vpl] eqn:Hp; [discriminate|]. rewrite <- Hp. clear Hp vp0 vpl.
  destruct (find_view _ _ _) as [[vid0 st]|]; [|discriminate].
  destruct (negb (st =? ViewFound)); [discriminate|].
  destruct (negb (bytes_eqb _ _)); [discriminate|].
  destruct (sigs_to_add _ _ _) as [|x0 l0] eqn:Hs; [discriminate|]. rewrite <- Hs. clear Hs.
  pose proof (fun Ha => build_updates_auth kind (get_view s vid0)
     (sigs_to_add (view_votes kind (get_view s vid0)) (vm_proofs m)
        (List.length (vs_keys (v_vals (get_view s vid0))))) Hk (get_view_auth s vid0 Ha)) as Hb.
  destruct (build_updates _ _ _) as [ups allv]. cbn [fst] in Hb.
  destruct ups as [|u ups'] eqn:Hu; [discriminate|]. rewrite <- Hu in *. clear Hu.
  intros E; inversion E; subst.
  split; [apply frame_merged|]. split; [apply tinv_merged|].
  intros Ha. apply auth_merged; [exact Hk|exact Ha|apply Hb; exact Ha].
Qed.

(** (2) in the form asked for, except that clause (a) "exactly the next round" is false (see
    [round_change_next_refuted] in Proofs/MirrorPowerWitness.v): next or next-but-one. *)
Theorem round_change_has_cause_partial ih ivs s o kind m s' res :
  1 <= ih -> vs_ok ivs = true -> reachable_b ih ivs s ->
  vote_op o = Some (kind, m) -> step s o = Ok (s', res) ->
  v_h (k_vot s') = v_h (k_vot s) -> v_r (k_vot s') <> v_r (k_vot s) ->
  nowrap (vs_pows (v_vals (k_vot s))) ->
  (v_r (k_vot s') = wrap32 (v_r (k_vot s) + 1) \/
   v_r (k_vot s') = wrap32 (wrap32 (v_r (k_vot s) + 1) + 1)) /\
  exists vid sm, merge_point kind s m = Some (vid, sm) /\ kpos_of sm = kpos_of s /\
    ((exists maj, byz_majority (sm_avail (v_sum (k_vot sm))) = Ok maj /\ maj <= sm_tpc (v_sum (k_vot sm))) \/
     sm_tpc (v_sum (k_vot sm)) = sm_avail (v_sum (k_vot sm)) \/
     (exists mn, byz_minority (sm_avail (v_sum (k_nxt sm))) = Ok mn /\
        (mn <= sm_tpv (v_sum (k_nxt sm)) \/ mn <= sm_tpc (v_sum (k_nxt sm))))).
Proof.
  intros Hi Hok Hreach Hop Hstep Hh Hr Hw.
  destruct (vote_op_step o kind m s Hop) as [Hk Es]. rewrite Es in Hstep.
  pose proof (reachable_cinv _ _ _ Hi Hok Hreach) as Hc.
  pose proof (reachable_tinv _ _ _ (reachable_b_reachable _ _ _ Hreach)) as Ht.
  destruct (round_change_exact _ _ _ _ _ _ _ Hk Hc Hstep Hh Hr) as (vid&sm&Hmp&F&Pk&Hcause).
  destruct (merge_point_inv _ _ _ _ _ Hk Hmp) as (_&Ht'&_). destruct (Ht' Ht) as [Tv _].
  assert (Hvals : v_vals (k_vot sm) = v_vals (k_vot s)) by (destruct F as (_&(_&_&E&_)&_); symmetry; exact E).
  rewrite <- Hvals in Hw.
  split.
  - destruct Hcause as [(R&_)|(R&_)]; auto.
  - exists vid, sm. split; [exact Hmp|]. split; [exact Pk|].
    destruct Hcause as [(_&[(_&_&[Hn|Ha])|[(_&_&(mn&Hm&Hle))|(_&_&(mn&Hm&Hle))]])|(_&_&_&(mn&Hm&Hle)&_)].
    + left. destruct Hn as (maj&Hm&_&Hle). exists maj. split; [exact Hm|].
      unfold tok in Tv. rewrite Tv in Hle |- *. cbn [sm_pcp sm_tpc summary_of] in *.
      eapply N.le_trans; [exact Hle|apply block_le_total; exact Hw].
    + right; left. destruct Ha as (_&_&_&E). exact E.
    + right; right. exists mn. auto.
    + right; right. exists mn. auto.
    + right; right. exists mn. auto.
Qed.

Theorem minority_cannot_move ih ivs s o kind m s' res vid sm S mn :
  1 <= ih -> vs_ok ivs = true -> reachable_b ih ivs s ->
  vote_op o = Some (kind, m) -> step s o = Ok (s', res) ->
  merge_point kind s m = Some (vid, sm) ->
  nowrap (vs_pows (v_vals (k_vot sm))) ->
  byz_minority (sm_avail (v_sum (k_vot sm))) = Ok mn ->
  (forall i, has_genuine_vote (k_vot sm) i \/ has_genuine_vote (k_nxt sm) i -> In i S) ->
  idx_power (vs_pows (v_vals (k_vot sm))) (nodup_n S) < mn ->
  v_h (k_vot s') = v_h (k_vot s) /\ v_r (k_vot s') = v_r (k_vot s) /\ kpos_of s' = kpos_of s /\ s' = sm.
Proof.
  intros Hi Hok Hreach Hop Hstep Hmp Hw Hmn HS Hpow.
  destruct (vote_op_step o kind m s Hop) as [Hk Es]. rewrite Es in Hstep.
  pose proof (reachable_INV _ _ _ Hi Hok Hreach) as (Hc&Ha&_).
  pose proof (reachable_tinv _ _ _ (reachable_b_reachable _ _ _ Hreach)) as Ht.
  destruct (minority_only_merges _ _ _ _ _ _ _ _ _ _ _ Hk Hc Ha Ht Hstep Hmp Hw Hmn HS Hpow) as [E Pk].
  destruct (merge_point_inv _ _ _ _ _ Hk Hmp) as (F&_). destruct (frame_pos _ _ F) as (Ph&Pr&_).
  subst s'. repeat split; auto.
Qed.

(** a vote message that reaches no merge point leaves the three views as they are *)
Theorem no_merge_no_move s o kind m s' res :
  vote_op o = Some (kind, m) -> step s o = Ok (s', res) -> merge_point kind s m = None ->
  k_vot s' = k_vot s /\ k_nxt s' = k_nxt s /\ k_com s' = k_com s.
Proof.
  intros Hop Hstep Hmp. destruct (vote_op_step o kind m s Hop) as [Hk Es]. rewrite Es in Hstep.
  destruct (handle_votes_cases _ _ _ _ _ Hk Hstep) as [(_&H)|(vid&sm&E&_)]; [exact H|].
  rewrite E in Hmp. discriminate.
Qed.

(** ** What a replayed header does: a different, certificate-carrying operation *)

(** a replayed header that is not accepted (result 1: other height, result 2: validation error) leaves
    the whole state as it was - for every state, no invariant needed *)
Theorem replay_rejected_identity s0 hd cp s' res :
  handle_replay s0 hd cp = Ok (s', res) -> res <> 0 -> s' = s0.
Proof.
  unfold handle_replay.
  assert (Hsame : forall r0, Ok (s0, r0) = Ok (s', res) -> res <> 0 -> s' = s0)
    by (intros r0 E _; inversion E; reflexivity).
  destruct (negb (hd_height hd =? _)); [apply Hsame|].
  destruct (cp_round cp <? _); [discriminate|].
  set (s := jump_until _ s0 _).
  destruct (negb (_ && _)); [discriminate|].
  destruct (negb (hd_ok hd)); [apply Hsame|].
  destruct (negb (hd_height hd =? k_init_h s) && _); [apply Hsame|].
  destruct (negb (valset_equal (hd_vals hd) (v_vals (k_vot s)) && vs_ok (hd_vals hd))); [apply Hsame|].
  destruct (negb (vs_ok (hd_next hd))); [apply Hsame|].
  destruct (fold_left _ (signed_entries (cp_proofs cp)) ([], true)) as [temp allv].
  destruct (negb allv); [apply Hsame|].
  destruct (pm_get temp (hd_hash hd)); [|apply Hsame].
  unfold bind at 1. destruct (byz_majority _); [|discriminate].
  destruct (_ <? _); [apply Hsame|].
  fold (replay_insert s hd (cp_round cp)).
  unfold bind at 1. destruct (replay_insert s hd (cp_round cp)) as [s1|]; [|discriminate].
  unfold bind. destruct (check_voting_precommit_shift _) as [s3|]; [|discriminate].
  intros E; inversion E; subst. intros Hn. exfalso. apply Hn. reflexivity.
Qed.

Lemma jump_until_vals fuel s r X :
  v_vals (k_vot s) = X -> v_vals (k_nxt s) = X ->
  v_vals (k_vot (jump_until fuel s r)) = X /\ v_vals (k_nxt (jump_until fuel s r)) = X.
Proof.
  intros A B.
  apply (jump_until_ind (fun s => v_vals (k_vot s) = X /\ v_vals (k_nxt s) = X)); [|split; assumption].
  intros s1 [A1 B1]. unfold jump_voting_round, increment_voting_round, update_observers. cbn. split; assumption.
Qed.

(** An accepted replayed header (result 0) is for the voting height and the voting round or a later one,
    carries a majority certificate for exactly that height, the replayed round and the header's hash -
    genuine precommits of the voting view's validators with at least the Byzantine majority of that set's
    power (the replayed signatures merged with the ones already held for that round) - and, if the height
    stays, leaves the mirror in the replayed commit round or one past it. *)
Theorem replay_round ih ivs s0 hd cp s' res :
  INV ih ivs s0 -> hd_height hd + 1 < two64 -> handle_replay s0 hd cp = Ok (s', res) ->
  (res <> 0 /\ s' = s0) \/
  (res = 0 /\ hd_height hd = v_h (k_vot s0) /\ v_r (k_vot s0) <= cp_round cp /\
   (exists hp maj,
      auth_proof (vs_keys (v_vals (k_vot s0))) KPrecommit (hd_height hd) (cp_round cp) (hd_hash hd) hp /\
      byz_majority (sum_pows (vs_pows (v_vals (k_vot s0)))) = Ok maj /\
      maj <= proof_power (vs_pows (v_vals (k_vot s0))) hp) /\
   (v_h (k_vot s') = v_h (k_vot s0) ->
      v_r (k_vot s') = cp_round cp \/ v_r (k_vot s') = wrap32 (cp_round cp + 1))).
Proof.
  intros I0 Hb Hres.
  destruct (N.eq_dec res 0) as [Hz|Hnz]; [|left; split; [exact Hnz|eapply replay_rejected_identity; eassumption]].
  right. subst res. split; [reflexivity|]. revert Hres. unfold handle_replay.
  assert (Hno : forall r0, r0 <> 0 -> Ok (s0, r0) = Ok (s', 0) -> False)
    by (intros r0 Hr0 E; inversion E; congruence).
  destruct (N.eqb_spec (hd_height hd) (v_h (k_vot s0))) as [Eh|Eh]; cbn [negb];
    [|intros E; exfalso; eapply (Hno 1); [discriminate|exact E]].
  destruct (cp_round cp <? _) eqn:Hlt0; [discriminate|]. apply N.ltb_ge in Hlt0.
  pose proof (INV_jump_until ih ivs (N.to_nat (cp_round cp - v_r (k_vot s0))) s0 (cp_round cp) I0) as I.
  assert (Hvals0 : v_vals (k_vot s0) = v_vals (k_vot s0) /\ v_vals (k_nxt s0) = v_vals (k_vot s0)).
  { split; [reflexivity|]. destruct I0 as ((_&_&_&_&_&_&Hvv&Hvn&_)&_). congruence. }
  destruct (jump_until_vals (N.to_nat (cp_round cp - v_r (k_vot s0))) s0 (cp_round cp) _ (proj1 Hvals0) (proj2 Hvals0))
    as [Hvals _].
  set (s := jump_until _ s0 _) in *.
  destruct I as (H&Ha&[[Savail _] _]&_).
  destruct ((v_r (k_vot s) =? cp_round cp) && (v_h (k_vot s) =? hd_height hd)) eqn:Hpos; cbn [negb]; [|discriminate].
  apply andb_true_iff in Hpos as [Hr Hh]. apply N.eqb_eq in Hr, Hh.
  assert (Hs : Ok (s0, 2) = Ok (s', 0) ->
            hd_height hd = v_h (k_vot s0) /\ v_r (k_vot s0) <= cp_round cp /\
            (exists hp maj,
               auth_proof (vs_keys (v_vals (k_vot s0))) KPrecommit (hd_height hd) (cp_round cp) (hd_hash hd) hp /\
               byz_majority (sum_pows (vs_pows (v_vals (k_vot s0)))) = Ok maj /\
               maj <= proof_power (vs_pows (v_vals (k_vot s0))) hp) /\
            (v_h (k_vot s') = v_h (k_vot s0) ->
               v_r (k_vot s') = cp_round cp \/ v_r (k_vot s') = wrap32 (cp_round cp + 1)))
    by (intros E; exfalso; eapply (Hno 2); [discriminate|exact E]).
  destruct (hd_ok hd) eqn:Hok; cbn [negb]; [|exact Hs].
  destruct (negb (hd_height hd =? k_init_h s) && negb (bytes_eqb (hd_prev hd) (chdr_hash s))) eqn:Hprev; [exact Hs|].
  destruct (valset_equal (hd_vals hd) (v_vals (k_vot s)) && vs_ok (hd_vals hd)) eqn:Hveq; cbn [negb]; [|exact Hs].
  apply andb_true_iff in Hveq as [Hveq _]. destruct (valset_equal_keys _ _ Hveq) as [Hkeys Hpows].
  destruct (vs_ok (hd_next hd)) eqn:Hnext; cbn [negb]; [|exact Hs].
  destruct (fold_left _ (signed_entries (cp_proofs cp)) ([], true)) as [temp allv] eqn:Hf.
  assert (Htemp : auth_pmap (vs_keys (hd_vals hd)) KPrecommit (hd_height hd) (cp_round cp) temp).
  { eapply replay_temp_auth; [| |exact Hf].
    - destruct Ha as (_&[_ Hvpc]&_). rewrite Hkeys, <- Hr, <- Hh. exact Hvpc.
    - apply auth_pmap_nil. }
  destruct (negb allv); [exact Hs|].
  destruct (pm_get temp (hd_hash hd)) as [hp|] eqn:Hg; [|exact Hs].
  unfold bind at 1. destruct (byz_majority (sm_avail (v_sum (k_vot s)))) as [maj|] eqn:Hmaj; [|discriminate].
  destruct (proof_power (vs_pows (hd_vals hd)) hp <? maj) eqn:Hpw; [exact Hs|]. apply N.ltb_ge in Hpw.
  fold (replay_insert s hd (cp_round cp)).
  unfold bind at 1. destruct (replay_insert s hd (cp_round cp)) as [s1|] eqn:Hins; [|discriminate].
  pose proof (replay_checks_good _ _ _ _ (cp_round cp) H Hh Hok Hnext Hb Hprev) as Hgood.
  destruct (cinv_replay_insert _ _ _ _ _ _ H Hgood Hins) as [H1 (_&F1b&F1c&_)].
  unfold bind. destruct (check_voting_precommit_shift _) as [s3|] eqn:Hc; [|discriminate].
  intros E; inversion E; subst s3.
  split; [exact Eh|]. split; [exact Hlt0|]. split.
  { exists hp, maj. rewrite <- Hvals, <- Hkeys, <- Hpows.
    split; [eapply pm_get_auth; eassumption|]. split; [|exact Hpw].
    rewrite Hpows, <- Savail. exact Hmaj. }
  intros Hsame.
  match type of Hc with check_voting_precommit_shift ?X = _ => set (s2 := X) in * end.
  assert (F2 : frame_eq s1 s2) by (unfold s2, frame_eq, pos_eq; cbn; repeat split).
  pose proof (cinv_frame _ _ _ _ F2 H1) as H2. destruct (frame_pos _ _ F2) as (P2h&P2r&_).
  destruct (check_voting_cases _ _ Hc) as [->|[(-> & _)|(q & Hin & _ & ->)]].
  - left. congruence.
  - right. destruct (pos_advance ih ivs s2 H2) as [_ R]. rewrite R. congruence.
  - exfalso. rewrite (pos_shift ih ivs s2 q H2 Hin) in Hsame. lia.
Qed.

Theorem replay_round_reachable ih ivs s0 hd cp s' res :
  1 <= ih -> vs_ok ivs = true -> reachable_b ih ivs s0 -> hd_height hd + 1 < two64 ->
  step s0 (OpReplay hd cp) = Ok (s', res) ->
  (res <> 0 /\ s' = s0) \/
  (res = 0 /\ hd_height hd = v_h (k_vot s0) /\ v_r (k_vot s0) <= cp_round cp /\
   (exists hp maj,
      auth_proof (vs_keys (v_vals (k_vot s0))) KPrecommit (hd_height hd) (cp_round cp) (hd_hash hd) hp /\
      byz_majority (sum_pows (vs_pows (v_vals (k_vot s0)))) = Ok maj /\
      maj <= proof_power (vs_pows (v_vals (k_vot s0))) hp) /\
   (v_h (k_vot s') = v_h (k_vot s0) ->
      v_r (k_vot s') = cp_round cp \/ v_r (k_vot s') = wrap32 (cp_round cp + 1))).
Proof.
  intros Hi Hok Hr Hb Hs. eapply replay_round; [apply reachable_INV; eassumption|exact Hb|exact Hs].
Qed.

(** ** Small facts stated in Properties/C06Power.v *)
Theorem signer_set_spec pm :
  NoDup (signer_set pm) /\
  forall i, In i (signer_set pm) <-> exists t p sg, In (t, p) pm /\ In (i, sg) p.
Proof.
  split; [apply NoDup_nodup_n|]. intros i. unfold signer_set. rewrite in_nodup_n.
  unfold signer_list. rewrite in_flat_map. split.
  - intros ([t p]&Hin&Hi). apply in_map_iff in Hi as ([j sg]&Hj&Hsg). cbn in Hj. subst j.
    exists t, p, sg. auto.
  - intros (t&p&sg&Hin&Hsg). exists (t, p). split; [exact Hin|]. apply in_map_iff. exists (i, sg). auto.
Qed.

Theorem total_plain_facts pows pm :
  nowrap pows ->
  total_power pows pm = psum pows (sort_n (signer_set pm)) /\
  (forall t, map_get (blocks pows pm) t <= total_power pows pm) /\
  total_power pows pm <= sum_pows pows.
Proof.
  intros Hw. split; [apply total_power_plain; exact Hw|].
  split; [intros t; apply block_le_total; exact Hw|apply total_le_avail; exact Hw].
Qed.

Theorem held_signatures_genuine v i :
  auth_view v -> In i (signer_set (v_pv v)) \/ In i (signer_set (v_pc v)) -> has_genuine_vote v i.
Proof.
  intros Ha H. apply signer_genuine; [exact Ha|].
  unfold signer_set in H. rewrite !in_nodup_n in H. exact H.
Qed.
