(** C02 over ALL event histories of the round state machine model: the action store only grows, a vote
    is emitted only right after it was signed and saved (and the store refused nothing), and therefore -
    across restarts on the same stores - at most one prevote and one precommit per height/round is
    ever emitted. C08: the strategy is asked at most one thing per event, and nothing while it holds a call. *)
From Coq Require Import List NArith String Bool Lia.
From GV Require Import Base.Ints Gen.Math Gen.StepSM Model.StateMachine Model.SMWire
  Proofs.SMStep Proofs.SMOutputs Proofs.SMInv Proofs.SMInvH Proofs.SMInvStep Proofs.SMRel.
Import ListNotations.
Local Open Scope N_scope.

(** ** The action store *)
Definition getra (m : list (N * N * ra)) (h r : N) : ra :=
  match astore_get m h r with Some a => a | None => ra0 end.

Lemma astore_get_set m h r a k l :
  astore_get (astore_set m h r a) k l = if (h =? k) && (r =? l) then Some a else astore_get m k l.
Proof.
  induction m as [|[[h' r'] a'] m IH]; simpl; [reflexivity|].
  destruct ((h' =? h) && (r' =? r)) eqn:E; simpl.
  - apply andb_true_iff in E. destruct E as [E1 E2]. apply N.eqb_eq in E1. apply N.eqb_eq in E2. subst.
    destruct ((h =? k) && (r =? l)); reflexivity.
  - rewrite IH. destruct ((h' =? k) && (r' =? l)) eqn:E2; [|reflexivity].
    destruct ((h =? k) && (r =? l)) eqn:E3; [|reflexivity]. exfalso.
    apply andb_true_iff in E2. destruct E2 as [A1 A2]. apply N.eqb_eq in A1. apply N.eqb_eq in A2.
    apply andb_true_iff in E3. destruct E3 as [B1 B2]. apply N.eqb_eq in B1. apply N.eqb_eq in B2. subst.
    rewrite !N.eqb_refl in E. discriminate.
Qed.

Definition ra_le (a b : ra) : Prop :=
  (forall t, ra_pv a = Some t -> ra_pv b = Some t) /\ (forall t, ra_pc a = Some t -> ra_pc b = Some t) /\
  (forall t, ra_ph a = Some t -> ra_ph b = Some t).
Definition store_le (m m' : list (N * N * ra)) : Prop := forall h r, ra_le (getra m h r) (getra m' h r).

Lemma ra_le_refl a : ra_le a a. Proof. unfold ra_le; auto. Qed.
Lemma store_le_refl m : store_le m m. Proof. intros h r. apply ra_le_refl. Qed.
Lemma store_le_eq m m' : m' = m -> store_le m m'. Proof. intros ->. apply store_le_refl. Qed.
Lemma store_le_trans a b c : store_le a b -> store_le b c -> store_le a c.
Proof.
  intros H1 H2 h r. destruct (H1 h r) as (A1 & A2 & A3). destruct (H2 h r) as (B1 & B2 & B3).
  repeat split; auto.
Qed.

Lemma store_le_set m h r a : ra_le (getra m h r) a -> store_le m (astore_set m h r a).
Proof.
  intros H k l. unfold getra at 2. rewrite astore_get_set.
  destruct ((h =? k) && (r =? l)) eqn:E; [|apply ra_le_refl].
  apply andb_true_iff in E. destruct E as [E1 E2]. apply N.eqb_eq in E1. apply N.eqb_eq in E2. subst. exact H.
Qed.

Lemma getra_set_same m h r a : getra (astore_set m h r a) h r = a.
Proof. unfold getra. rewrite astore_get_set, !N.eqb_refl. reflexivity. Qed.

Definition is_emit_pv (o : out) : bool := match o with OEmitPrevote _ _ _ => true | _ => false end.
Definition is_emit_pc (o : out) : bool := match o with OEmitPrecommit _ _ _ => true | _ => false end.

(** ** The two vote recorders, by evaluation *)
Record vote_facts (s : sm) (r : sm * list out * flow) (pv : bool) (t : hash) : Prop := mkVF {
  vf_store : store_le (aStore s) (aStore (st r));
  vf_reqs : reqs (ou r) = [];
  vf_cm : cm (st r) = cm s;
  vf_nosusp : fl r <> Susp;
  vf_other : forall h r' t', ~ In (if pv then OEmitPrecommit h r' t' else OEmitPrevote h r' t') (ou r);
  vf_emit : forall h r' t', In (if pv then OEmitPrevote h r' t' else OEmitPrecommit h r' t') (ou r) ->
     t' = t /\ rOut (rl s) = Some (h, r') /\
     (if pv then ra_pv else ra_pc) (getra (aStore s) (rH (rl s)) (rR (rl s))) = None /\
     (if pv then ra_pv else ra_pc) (getra (aStore (st r)) (rH (rl s)) (rR (rl s))) = Some t /\
     In (if pv then OSavePrevote (rH (rl s)) (rR (rl s)) t 0 (pend s) else OSavePrecommit (rH (rl s)) (rR (rl s)) t 0 (pend s)) (ou r) /\
     In (if pv then OSignPrevote (rH (rl s)) (rR (rl s)) t else OSignPrecommit (rH (rl s)) (rR (rl s)) t) (ou r) /\
     List.length (filter (if pv then is_emit_pv else is_emit_pc) (ou r)) = 1%nat
}.

Ltac inl H := simpl in H; repeat (destruct H as [H|H]; [try discriminate H|]); try contradiction.
Ltac vf SL C :=
  split; unfold st, fl, ou; simpl;
  [ first [apply store_le_refl|exact SL] | reflexivity | reflexivity | discriminate
  | let H := fresh "H" in intros ? ? ? H; inl H
  | let H := fresh "H" in intros ? ? ? H; inl H;
    try (inversion H; subst; rewrite getra_set_same; rewrite <- C; simpl; repeat split; auto) ].

Lemma record_prevote_facts t s : vote_facts s ((record_prevote t ;; updr (set_rPvCh false)) s) true t.
Proof.
  unfold record_prevote, withS, when, bindM, say, upd, updr, stop, ret, emit, withS, cancel_timer, withS.
  change (match astore_get (aStore s) (rH (rl s)) (rR (rl s)) with Some a => a | None => ra0 end) with (cur_ra s).
  assert (C : cur_ra s = getra (aStore s) (rH (rl s)) (rR (rl s))) by reflexivity.
  assert (SL0 : True) by exact I.
  destruct (participating s); simpl.
  2:{ destruct (rS (rl s) =? StepAwaitingProposal); simpl; [destruct (rTimer (rl s)) as [[[k a] b]|]; simpl|]; vf SL0 C. }
  destruct (ra_pv (cur_ra s)) eqn:EP; simpl.
  { vf SL0 C. }
  assert (SL : store_le (aStore s) (astore_set (aStore s) (rH (rl s)) (rR (rl s)) (mkRa (ra_ph (cur_ra s)) (Some t) (ra_pc (cur_ra s))))).
  { apply store_le_set. rewrite <- C. unfold ra_le. simpl. rewrite EP. repeat split; auto; discriminate. }
  destruct (rOut (rl s)) as [[eh er]|] eqn:EO; simpl.
  2:{ vf SL C. }
  destruct (rS (rl s) =? StepAwaitingProposal); simpl; [destruct (rTimer (rl s)) as [[[k a] b]|]; simpl|]; vf SL C.
Qed.

Lemma record_precommit_facts t s : vote_facts s ((record_precommit t ;; updr (set_rPcCh false)) s) false t.
Proof.
  unfold record_precommit, withS, when, bindM, say, upd, updr, stop, ret, emit, withS.
  change (match astore_get (aStore s) (rH (rl s)) (rR (rl s)) with Some a => a | None => ra0 end) with (cur_ra s).
  assert (C : cur_ra s = getra (aStore s) (rH (rl s)) (rR (rl s))) by reflexivity.
  assert (SL0 : True) by exact I.
  destruct (participating s); simpl.
  2:{ vf SL0 C. }
  destruct (ra_pc (cur_ra s)) eqn:EP; simpl.
  { vf SL0 C. }
  assert (SL : store_le (aStore s) (astore_set (aStore s) (rH (rl s)) (rR (rl s)) (mkRa (ra_ph (cur_ra s)) (ra_pv (cur_ra s)) (Some t)))).
  { apply store_le_set. rewrite <- C. unfold ra_le. simpl. rewrite EP. repeat split; auto; discriminate. }
  destruct (rOut (rl s)) as [[eh er]|] eqn:EO; simpl.
  2:{ vf SL C. }
  vf SL C.
Qed.

(** ** Every event: the store only grows; at most one request to the strategy, none while it holds a call *)
Definition EF (s : sm) (x : sm * list out) : Prop :=
  store_le (aStore s) (aStore (fst x)) /\ (reqs (snd x) = [] \/ (cm s = None /\ exists k, reqs (snd x) = [k])).

Lemma EF_pre s s0 x : aStore s = aStore s0 -> cm s = cm s0 -> EF s x -> EF s0 x.
Proof. unfold EF. intros -> ->. auto. Qed.

Lemma reqs_plain o x : reqk x = None -> reqs (o ++ [x]) = reqs o.
Proof. intros H. rewrite reqs_app. unfold reqs at 2. simpl. rewrite H. apply app_nil_r. Qed.

Lemma EF_of_R b s s' o f : R b s (s', o, f) -> EF s (s', o).
Proof.
  intros (_ & C & A & _). unfold st, ou in *. simpl in *. split; [apply store_le_eq; exact A|].
  unfold cmrel in C. destruct (cm s).
  - left. tauto.
  - destruct C as [[C _]|(k & g & b' & C & _)]; [left; exact C|right; split; [reflexivity|eauto]].
Qed.

Lemma EF_finish b s r : R b s r -> EF s (finish r).
Proof.
  destruct r as [[s' o] f]. intros H. apply EF_of_R in H. destruct H as [A B]. simpl in *.
  unfold EF. destruct f; simpl; try destruct (run s'); simpl; (split; [exact A|]); rewrite ?reqs_plain by reflexivity; exact B.
Qed.

Lemma start_up_rel s : aStore (st (start_up s)) = aStore s /\ Forall (fun o => is_ent o = true) (ou (start_up s)) /\
  (fl (start_up s) = Susp \/ fl (start_up s) = FHalt).
Proof.
  unfold start_up, withS.
  destruct (sStore s) as [h0 r0].
  destruct (if h0 =? 0 then (initial_height, 0) else (h0, r0)) as [h1 r1].
  destruct (match fstore_get (fStore s) h1 with Some _ => (wrap64 (h1 + 1), 0) | None => (h1, r1) end) as [h r].
  match goal with |- context [match ?x with Some _ => _ | None => stop FHalt end] => destruct x as [[cur prev]|] end.
  - unfold bindM, updr, send_entrance, withS, bindM, say, upd, stop, st, fl, ou. simpl. repeat split; auto.
  - simpl. unfold st, fl, ou. simpl. auto.
Qed.

Lemma reqs_ent o : Forall (fun x => is_ent x = true) o -> reqs o = [].
Proof.
  induction 1 as [|x o H _ IH]; [reflexivity|]. unfold reqs in *. simpl. rewrite IH.
  destruct x; try discriminate H; reflexivity.
Qed.

Lemma EF_nil s s' : aStore s' = aStore s -> EF s (s', []).
Proof. intros H. split; [apply store_le_eq; exact H|left; reflexivity]. Qed.

Lemma EF_vote s s1 pv t m : aStore s1 = aStore s -> vote_facts s1 (m s1) pv t -> EF s (finish (m s1)).
Proof.
  intros E F. destruct F as [F1 F2 F3 F4 _ _]. unfold st, fl, ou in *.
  destruct (m s1) as [[s' o] f]. simpl in *. rewrite E in F1.
  unfold EF. destruct f; simpl; try congruence; try destruct (run s'); simpl; (split; [exact F1|]); rewrite ?reqs_plain by reflexivity; auto.
Qed.

Lemma record_ph_facts d s :
  let r := (record_proposed_header d ;; updr (set_rPropCh false) ;; upd (set_propOut 2)) s in
  store_le (aStore s) (aStore (st r)) /\ reqs (ou r) = [] /\ fl r <> Susp.
Proof.
  unfold record_proposed_header, withS, when, bindM, say, upd, updr, stop, ret, emit, withS.
  change (match astore_get (aStore s) (rH (rl s)) (rR (rl s)) with Some a => a | None => ra0 end) with (cur_ra s).
  assert (C : cur_ra s = getra (aStore s) (rH (rl s)) (rR (rl s))) by reflexivity.
  assert (G : forall x : sm * list out * flow, x = x) by reflexivity.
  destruct (initial_height <? rH (rl s)); simpl;
    [destruct (rVRV (rl s)); simpl; [destruct (rPrevVS (rl s) =? 0); simpl; [|destruct (pcp_finalizes (rl s) v); simpl]|]|];
    try (unfold st, fl, ou; simpl; split; [apply store_le_refl|split; [reflexivity|discriminate]]);
    (destruct (signer s); simpl; [|unfold st, fl, ou; simpl; split; [apply store_le_refl|split; [reflexivity|discriminate]]]);
    (destruct (ra_ph (cur_ra s)) eqn:EP; simpl; [unfold st, fl, ou; simpl; split; [apply store_le_refl|split; [reflexivity|discriminate]]|]);
    (assert (SL : store_le (aStore s) (astore_set (aStore s) (rH (rl s)) (rR (rl s)) (mkRa (Some d) (ra_pv (cur_ra s)) (ra_pc (cur_ra s)))))
       by (apply store_le_set; rewrite <- C; unfold ra_le; simpl; rewrite EP; repeat split; auto; discriminate));
    (destruct (rOut (rl s)) as [[eh er]|]; simpl; unfold st, fl, ou; simpl; (split; [exact SL|split; [reflexivity|discriminate]])).
Qed.

Ltac via s1 H := apply (EF_pre s1); [reflexivity|reflexivity|apply (EF_finish false); apply H].

Theorem dispatch_EF s e : EF s (dispatch s e).
Proof.
  destruct e; unfold dispatch.
  - destruct (start_up_rel s) as (A & B & C). unfold st, fl, ou in *.
    destruct (start_up s) as [[s1 o] f]. simpl in *.
    unfold EF. destruct C as [-> | ->]; simpl; (split; [apply store_le_eq; exact A|left]); rewrite ?reqs_plain by reflexivity;
      apply reqs_ent; exact B.
  - apply EF_nil. reflexivity.
  - destruct (run s); try (apply EF_nil; reflexivity).
    + destruct (is_ch_view v); [via (set_run Idle s) hm_init_after_ch|via (set_run Idle s) hm_init_after_vrv].
    + destruct (is_ch_view v); apply (EF_pre (set_run Idle s)); try reflexivity; apply (EF_finish false); apply R_resume.
      * apply hm_advance_after_ch. * apply hm_advance_after_vrv.
  - destruct (run s); try (apply EF_nil; reflexivity).
    + via (set_run Idle s) hm_init_after_ch.
    + apply (EF_pre (set_run Idle s)); try reflexivity; apply (EF_finish false); apply R_resume. apply hm_advance_after_ch.
  - apply (EF_finish false). apply (hm_handle_view_update false).
  - destruct (rTimer (rl (set_hTimer None s))); [|apply EF_nil; reflexivity].
    via (set_hTimer None s) (hm_handle_timer_elapsed false).
  - destruct (cm s) as [[[ck g] op]|]; [|apply EF_nil; reflexivity].
    destruct ((kind =? 1) && (ck =? K_consider)); [apply EF_nil; reflexivity|].
    destruct (negb op); [simpl; split; [apply store_le_refl|left; reflexivity]|].
    match goal with |- context [if ?b then _ else _] => destruct b end; [|apply EF_nil; reflexivity].
    destruct (kind =? 0); [|simpl; split; [apply store_le_refl|left; reflexivity]].
    destruct (ck =? K_decide).
    + apply (EF_vote s (set_cm None s) false t); [reflexivity|apply record_precommit_facts].
    + apply (EF_vote s (set_cm None s) true t); [reflexivity|apply record_prevote_facts].
  - destruct (propOut s =? 1); [|apply EF_nil; reflexivity].
    pose proof (record_ph_facts d s) as F. cbv zeta in F. destruct F as (F1 & F2 & F3). unfold st, fl, ou in *.
    destruct ((record_proposed_header d;; updr (set_rPropCh false);; upd (set_propOut 2)) s) as [[s' o] f]. simpl in *.
    unfold EF. destruct f; simpl; try congruence; try destruct (run s'); simpl; (split; [exact F1|]); rewrite ?reqs_plain by reflexivity; auto.
  - destruct (finReq s) as [[[[g ?] ?] ?]|]; [|apply EF_nil; reflexivity].
    match goal with |- context [if ?b then _ else _] => destruct b end; [|apply EF_nil; reflexivity].
    match goal with |- context [match ?x with Some _ => _ | None => _ end] => destruct x end.
    + via (set_finReq None s) (hm_handle_finalization false).
    + apply (EF_pre (set_finReq None s)); try reflexivity. apply (EF_finish false).
      apply (hm_bind false); [apply hm_updr; discriminate|apply hm_handle_finalization].
  - match goal with |- context [if ?b then _ else _] => destruct b end; [|apply EF_nil; reflexivity].
    via (set_hcOpen false s) (hm_handle_height_committed false).
  - apply (EF_finish false). apply (hm_handle_block_data false).
  - apply EF_nil. reflexivity.
Qed.

Theorem step_EF s e : EF s (step s e).
Proof.
  unfold step. destruct (deliverable s e).
  - pose proof (dispatch_EF (set_pend 0 s) e) as H. destruct (dispatch (set_pend 0 s) e) as [s1 o].
    destruct H as [A B]. split; [exact A|exact B].
  - split; [apply store_le_refl|left; reflexivity].
Qed.

(** ** Emissions *)
Lemma finish_in r x : In x (snd (finish r)) -> In x (ou r) \/ x = OHalt \/ (exists n, x = OPanic n) \/ x = OBlocked.
Proof.
  destruct r as [[s o] f]. unfold ou. simpl. destruct f; simpl; auto; try (destruct (run s); auto);
    intros H; apply in_app_or in H; destruct H as [H|[H|[]]]; eauto.
Qed.

Lemma finish_filter (f : out -> bool) r : f OHalt = false -> (forall n, f (OPanic n) = false) -> f OBlocked = false ->
  filter f (snd (finish r)) = filter f (ou r).
Proof.
  intros H1 H2 H3. destruct r as [[s o] fl0]. unfold ou. simpl.
  destruct fl0; simpl; try (destruct (run s); reflexivity); try reflexivity;
    rewrite filter_app; simpl; rewrite ?H1, ?H2, ?H3; apply app_nil_r.
Qed.

Lemma finish_astore r : aStore (fst (finish r)) = aStore (st r).
Proof. destruct r as [[s o] f]. unfold st. simpl. destruct f; simpl; try reflexivity. destruct (run s); reflexivity. Qed.

Lemma finish_in_l r x : In x (ou r) -> In x (snd (finish r)).
Proof.
  destruct r as [[s o] f]. unfold ou. simpl. destruct f; simpl; auto; try (destruct (run s); auto);
    intros H; apply in_or_app; auto.
Qed.

Definition emit_facts (pv : bool) (s s' : sm) (o : list out) (h r : N) (t : hash) : Prop :=
  (if pv then ra_pv else ra_pc) (getra (aStore s) h r) = None /\
  (if pv then ra_pv else ra_pc) (getra (aStore s') h r) = Some t /\
  (exists p, In (if pv then OSavePrevote h r t 0 p else OSavePrecommit h r t 0 p) o) /\
  In (if pv then OSignPrevote h r t else OSignPrecommit h r t) o /\
  List.length (filter (if pv then is_emit_pv else is_emit_pc) o) = 1%nat.

Lemma out_ok_round s h r : GI s -> (rPvCh (rl s) = true \/ rPcCh (rl s) = true) -> rOut (rl s) = Some (h, r) ->
  h = rH (rl s) /\ r = rR (rl s).
Proof.
  intros ((_ & _ & O & _) & _) HC E. destruct O as [[O|O]|(O1 & O2 & _)].
  - congruence.
  - rewrite E in O. inversion O; auto.
  - destruct HC; congruence.
Qed.

Lemma answer_emit s t (pv : bool) h r t' : Inv s ->
  In (if pv then OEmitPrevote h r t' else OEmitPrecommit h r t') (snd (dispatch s (EvAnswer 0 t))) ->
  emit_facts pv s (fst (dispatch s (EvAnswer 0 t))) (snd (dispatch s (EvAnswer 0 t))) h r t'.
Proof.
  intros HI. unfold dispatch.
  destruct (cm s) as [[[ck g] op]|]; [|intros []]. cbv zeta.
  assert (HI1 : Inv (set_cm None s)) by (apply (Inv_irrel _ _ eq_refl eq_refl eq_refl eq_refl eq_refl HI)).
  change ((0 =? 1) && (ck =? K_consider)) with false. cbv iota.
  destruct (negb op); [intros H; apply finish_in in H; unfold ou in H; simpl in H; destruct H as [H|[H|[[n H]|H]]]; try contradiction; destruct pv; discriminate H|].
  match goal with |- context [if (?a && ?b && ?c) then _ else _] => destruct (a && b && c) eqn:B end; [|simpl; intros []].
  change (0 =? 0) with true. cbv iota.
  apply andb_true_iff in B. destruct B as [B B3]. apply andb_true_iff in B. destruct B as [B1 B2].
  assert (R : run (set_cm None s) = Idle) by (destruct (run (set_cm None s)); try discriminate; reflexivity).
  assert (G : GI (set_cm None s)) by (apply Inv_idle; assumption).
  destruct (ck =? K_decide) eqn:K; intros H; apply finish_in in H;
    (destruct H as [H|[H|[[n H]|H]]]; [|destruct pv; discriminate H..]).
  - pose proof (record_precommit_facts t (set_cm None s)) as F. destruct F as [F1 F2 F3 F4 F5 F6].
    destruct pv; [destruct (F5 _ _ _ H)|].
    destruct (F6 _ _ _ H) as (E1 & E2 & E3 & E4 & E5 & E6 & E7).
    destruct (out_ok_round _ _ _ G (or_intror B3) E2) as [-> ->]. subst t'.
    unfold emit_facts. rewrite finish_astore, finish_filter by (intros; reflexivity).
    split; [exact E3|split; [exact E4|split; [eexists; apply finish_in_l; exact E5|split; [apply finish_in_l; exact E6|exact E7]]]].
  - pose proof (record_prevote_facts t (set_cm None s)) as F. destruct F as [F1 F2 F3 F4 F5 F6].
    destruct pv; [|destruct (F5 _ _ _ H)].
    destruct (F6 _ _ _ H) as (E1 & E2 & E3 & E4 & E5 & E6 & E7).
    destruct (out_ok_round _ _ _ G (or_introl B3) E2) as [-> ->]. subst t'.
    unfold emit_facts. rewrite finish_astore, finish_filter by (intros; reflexivity).
    split; [exact E3|split; [exact E4|split; [eexists; apply finish_in_l; exact E5|split; [apply finish_in_l; exact E6|exact E7]]]].
Qed.

From GV Require Import Proofs.SMTheorems.

Lemma step_start_outs s x : In x (snd (step s EvStart)) -> is_ent x = true \/ x = OHalt \/ x = OUndeliverable.
Proof.
  unfold step. destruct (deliverable s EvStart); [|simpl; intros [<-|[]]; auto].
  unfold dispatch. destruct (start_up_rel (set_pend 0 s)) as (_ & B & C). unfold st, fl, ou in *.
  destruct (start_up (set_pend 0 s)) as [[s1 o] f]. simpl in *.
  destruct C as [-> | ->]; simpl; intros H.
  - left. exact (proj1 (Forall_forall _ _) B x H).
  - apply in_app_or in H. destruct H as [H|[<-|[]]]; auto. left. exact (proj1 (Forall_forall _ _) B x H).
Qed.

Definition emit_of (pv : bool) (h r : N) (t : hash) : out := if pv then OEmitPrevote h r t else OEmitPrecommit h r t.

Theorem emit_step s e (pv : bool) h r t : Inv s -> In (emit_of pv h r t) (snd (step s e)) ->
  emit_facts pv s (fst (step s e)) (snd (step s e)) h r t.
Proof.
  intros HI H. unfold emit_of in H.
  assert (E : e = EvAnswer 0 t).
  { destruct e; try (match type of H with In _ (snd (step _ ?e0)) =>
      assert (P : Pout (ctx_of s) e0 (if pv then OEmitPrevote h r t else OEmitPrecommit h r t))
        by (apply pout_in; [discriminate|exact H]) end; destruct pv; simpl in P; exact P).
    apply step_start_outs in H. destruct pv; simpl in H; destruct H as [H|[H|H]]; discriminate H. }
  subst e. revert H. unfold step. destruct (deliverable s (EvAnswer 0 t)).
  2:{ simpl. intros [H|[]]. destruct pv; discriminate H. }
  assert (HI0 : Inv (set_pend 0 s)) by (apply (Inv_irrel _ _ eq_refl eq_refl eq_refl eq_refl eq_refl HI)).
  pose proof (answer_emit (set_pend 0 s) t pv h r t HI0) as A.
  destruct (dispatch (set_pend 0 s) (EvAnswer 0 t)) as [s1 o]. simpl in *. intros H. exact (A H).
Qed.

Definition done_at (pv : bool) (h r : N) (s : sm) : Prop :=
  (if pv then ra_pv else ra_pc) (getra (aStore s) h r) <> None.

Lemma done_step pv h r s e : done_at pv h r s -> done_at pv h r (fst (step s e)).
Proof.
  unfold done_at. intros H. destruct (step_EF s e) as [SL _]. destruct (SL h r) as (A & B & _).
  destruct pv.
  - destruct (ra_pv (getra (aStore s) h r)) eqn:E; [|congruence]. rewrite (A _ eq_refl). discriminate.
  - destruct (ra_pc (getra (aStore s) h r)) eqn:E; [|congruence]. rewrite (B _ eq_refl). discriminate.
Qed.

Lemma no_emit_after pv h r es : forall s, Inv s -> done_at pv h r s ->
  forall outs t, In outs (run_events s es) -> ~ In (emit_of pv h r t) outs.
Proof.
  induction es as [|e es IH]; intros s HI HD outs t; simpl; [intros []|].
  pose proof (step_inv s e HI) as [HI1 _]. pose proof (done_step pv h r s e HD) as HD1.
  pose proof (emit_step s e pv h r t HI) as ES.
  destruct (step s e) as [s1 o]. simpl in *. intros [<-|H].
  - intros X. destruct (ES X) as (N0 & _). apply HD. exact N0.
  - eapply IH; eauto.
Qed.

(** (I2) across restarts on the same stores: two emissions of a prevote (precommit) for the same
    height/round in one history are the same emission *)
Theorem emit_once pv es : forall s, Inv s -> forall i j oi oj h r t1 t2,
  nth_error (run_events s es) i = Some oi -> nth_error (run_events s es) j = Some oj ->
  In (emit_of pv h r t1) oi -> In (emit_of pv h r t2) oj -> i = j.
Proof.
  induction es as [|e es IH]; intros s HI i j oi oj h r t1 t2; simpl.
  { destruct i; discriminate. }
  pose proof (step_inv s e HI) as [HI1 _].
  pose proof (emit_step s e pv h r t1 HI) as ES1. pose proof (emit_step s e pv h r t2 HI) as ES2.
  destruct (step s e) as [s1 o]. simpl in *.
  destruct i as [|i], j as [|j]; simpl; intros Ei Ej Hi Hj; auto.
  - exfalso. inversion Ei; subst. destruct (ES1 Hi) as (_ & D & _).
    apply (no_emit_after pv h r es s1 HI1 ltac:(unfold done_at; congruence) oj t2 (nth_error_In _ _ Ej) Hj).
  - exfalso. inversion Ej; subst. destruct (ES2 Hj) as (_ & D & _).
    apply (no_emit_after pv h r es s1 HI1 ltac:(unfold done_at; congruence) oi t1 (nth_error_In _ _ Ei) Hi).
  - f_equal. eapply IH; eauto.
Qed.

Theorem emit_once_history sg pv es i j oi oj h r t1 t2 :
  nth_error (run_events (sm0 sg) es) i = Some oi -> nth_error (run_events (sm0 sg) es) j = Some oj ->
  In (emit_of pv h r t1) oi -> In (emit_of pv h r t2) oj -> i = j.
Proof. apply emit_once. apply Inv_init. Qed.

Lemma run_events_split s es outs : In outs (run_events s es) ->
  exists es1 e, outs = snd (step (final_state s es1) e).
Proof.
  revert s. induction es as [|e es IH]; intros s; simpl; [intros []|].
  destruct (step s e) as [s1 o] eqn:E. intros [<-|H].
  - exists [], e. simpl. rewrite E. reflexivity.
  - destruct (IH s1 H) as (es1 & e1 & X). exists (e :: es1), e1. simpl. rewrite E. exact X.
Qed.

Lemma Inv_final s es : Inv s -> Inv (final_state s es).
Proof. revert s. induction es as [|e es IH]; intros s H; simpl; [exact H|]. apply IH. apply step_inv. exact H. Qed.

(** (I2) every emitted vote was signed and saved first, in the same event, for the round the machine is
    in; the store had no such vote before and has this one afterwards; one emission per event *)
Theorem emit_saved_first sg pv es e h r t :
  let s := final_state (sm0 sg) es in
  In (emit_of pv h r t) (snd (step s e)) -> emit_facts pv s (fst (step s e)) (snd (step s e)) h r t.
Proof. intros s. apply emit_step. apply Inv_final, Inv_init. Qed.

(** (I3, part) the strategy is asked at most one thing per event, and nothing while it holds a call
    (except in the event that delivers its answer, which asks nothing) *)
Theorem one_request_per_event s e :
  reqs (snd (step s e)) = [] \/ (cm s = None /\ exists k, reqs (snd (step s e)) = [k]).
Proof. exact (proj2 (step_EF s e)). Qed.

Theorem store_only_grows s e : store_le (aStore s) (aStore (fst (step s e))).
Proof. exact (proj1 (step_EF s e)). Qed.

(** non-vacuity *)
From GV Require Import Model.SMWalk Proofs.SMWitness.
Example ex_emit_w3 :
  existsb is_emit_pv (nth 3 (run_events (sm0 true) w3) []) = true /\
  List.length (filter is_emit_pv (List.concat (run_events (sm0 true) w3))) = 1%nat.
Proof. vm_compute. split; reflexivity. Qed.

Definition ex_req_hist : list event :=
  [ EvStart; EvRERespVRV (mkv 1 0 1 (vs_of 0 0 [] []) []);
    EvView (mkv 1 0 2 (vs_of 30 0 [([7], 20); ([], 10)] []) [gph 7]) None ].
Example ex_one_request : reqs (last (run_events (sm0 true) ex_req_hist) []) = [K_consider].
Proof. vm_compute. reflexivity. Qed.
