(** C16 - validator store and round store refine their contracts (continuation of Stores.v). *)
From Coq Require Import List NArith Bool Lia.
From GV Require Import Base.Ints Model.Stores Model.StoresEq Monitors.C16m Proofs.Stores.
Import ListNotations.
Local Open Scope N_scope.

(** * Validator store, for an arbitrary hash scheme *)
Section Val.
  Variable hk : list bytes -> hres.
  Variable hp : list N -> hres.

  Definition v_R (hist : list (vop * vout)) (s : vstate) : Prop :=
    (forall h, al_get bytes_eqb h (vs_keys s) = v_keys_for hk h hist) /\
    (forall h, al_get bytes_eqb h (vs_pows s) = v_pows_for hp h hist).

  Lemma bytes_eqb_sym a b : bytes_eqb a b = bytes_eqb b a.
  Proof.
    destruct (bytes_eqb a b) eqn:E.
    - apply bytes_eqb_eq in E. subst. symmetry. apply bytes_eqb_refl.
    - destruct (bytes_eqb b a) eqn:E2; auto. apply bytes_eqb_eq in E2. subst.
      rewrite bytes_eqb_refl in E. discriminate.
  Qed.

  Lemma v_R_step hist s o : v_R hist s -> no_guard hist o = true ->
    snd (vstep hk hp s o) = v_expected hk hp hist o /\
    v_R ((o, snd (vstep hk hp s o)) :: hist) (fst (vstep hk hp s o)).
  Proof.
    intros [HK HP] _. destruct o as [ks|ps|h|h|kh ph|i]; simpl.
    - destruct (hk ks) as [h| |] eqn:E; simpl.
      + rewrite <- (HK h). destruct (al_get bytes_eqb h (vs_keys s)) eqn:E2; simpl.
        * split; [reflexivity|]. split; auto. intros h'. simpl. rewrite <- (HK h').
          destruct (al_get bytes_eqb h' (vs_keys s)) eqn:E3; auto.
          rewrite E. simpl. destruct (bytes_eqb h h') eqn:E4; auto.
          apply bytes_eqb_eq in E4. subst. congruence.
        * split; [reflexivity|]. split; auto. intros h'. simpl. rewrite <- (HK h'). rewrite E. simpl.
          rewrite (bytes_eqb_sym h' h). destruct (bytes_eqb h h') eqn:E4.
          -- apply bytes_eqb_eq in E4. subst. rewrite E2. reflexivity.
          -- destruct (al_get bytes_eqb h' (vs_keys s)); reflexivity.
      + split; [reflexivity|]. split; auto. intros h'. simpl. rewrite E. simpl. rewrite <- (HK h').
        destruct (al_get bytes_eqb h' (vs_keys s)); reflexivity.
      + split; [reflexivity|]. split; auto. intros h'. simpl. rewrite E. simpl. rewrite <- (HK h').
        destruct (al_get bytes_eqb h' (vs_keys s)); reflexivity.
    - destruct (hp ps) as [h| |] eqn:E; simpl.
      + rewrite <- (HP h). destruct (al_get bytes_eqb h (vs_pows s)) eqn:E2; simpl.
        * split; [reflexivity|]. split; auto. intros h'. simpl. rewrite <- (HP h').
          destruct (al_get bytes_eqb h' (vs_pows s)) eqn:E3; auto.
          rewrite E. simpl. destruct (bytes_eqb h h') eqn:E4; auto.
          apply bytes_eqb_eq in E4. subst. congruence.
        * split; [reflexivity|]. split; auto. intros h'. simpl. rewrite <- (HP h'). rewrite E. simpl.
          rewrite (bytes_eqb_sym h' h). destruct (bytes_eqb h h') eqn:E4.
          -- apply bytes_eqb_eq in E4. subst. rewrite E2. reflexivity.
          -- destruct (al_get bytes_eqb h' (vs_pows s)); reflexivity.
      + split; [reflexivity|]. split; auto. intros h'. simpl. rewrite E. simpl. rewrite <- (HP h').
        destruct (al_get bytes_eqb h' (vs_pows s)); reflexivity.
      + split; [reflexivity|]. split; auto. intros h'. simpl. rewrite E. simpl. rewrite <- (HP h').
        destruct (al_get bytes_eqb h' (vs_pows s)); reflexivity.
    - rewrite <- (HK h). destruct (al_get bytes_eqb h (vs_keys s)); simpl; (split; [reflexivity|split; auto]).
    - rewrite <- (HP h). destruct (al_get bytes_eqb h (vs_pows s)); simpl; (split; [reflexivity|split; auto]).
    - rewrite <- (HK kh), <- (HP ph).
      destruct (al_get bytes_eqb kh (vs_keys s)) as [ks|], (al_get bytes_eqb ph (vs_pows s)) as [ps|]; simpl;
        try (split; [reflexivity|split; auto]).
      destruct (Nat.eqb (length ks) (length ps)); simpl; (split; [reflexivity|split; auto]).
    - split; [reflexivity|split; auto].
  Qed.

  Lemma val_refines : forall ops,
    v_mon hk hp (trace (vstep hk hp) vinit ops) = 0 /\
    v_R (rev (trace (vstep hk hp) vinit ops)) (run (vstep hk hp) vinit ops).
  Proof.
    intros ops. unfold v_mon, mon_run.
    destruct (refine_gen (vstep hk hp) (v_expected hk hp) vout_eqb class1 no_guard v_R vout_eqb_refl v_R_step ops [] vinit 0
                (conj (fun h => eq_refl) (fun h => eq_refl)) (guarded_no_guard _ _)) as [A B].
    rewrite app_nil_r in B. auto.
  Qed.

  Lemma val_answers_by_contract : forall ops o,
    snd (vstep hk hp (run (vstep hk hp) vinit ops) o) = v_expected hk hp (rev (trace (vstep hk hp) vinit ops)) o.
  Proof. intros. apply v_R_step; [apply val_refines | reflexivity]. Qed.

  (** Key lists saved so far, in the order of a (newest-first) history. *)
  Definition saved_keys (hist : list (vop * vout)) : list (list bytes) :=
    flat_map (fun e : vop * vout => match fst e with VSaveKeys ks => [ks] | _ => [] end) hist.
  Definition saved_pows (hist : list (vop * vout)) : list (list N) :=
    flat_map (fun e : vop * vout => match fst e with VSavePows ps => [ps] | _ => [] end) hist.

  Lemma v_keys_for_spec h hist :
    match v_keys_for hk h hist with
    | Some ks => In ks (saved_keys hist) /\ hk ks = HOk h
    | None => forall ks, In ks (saved_keys hist) -> hk ks <> HOk h
    end.
  Proof.
    induction hist as [|[o out] hist IH]; simpl.
    - intros ks [].
    - destruct o; simpl; try exact IH.
      destruct (v_keys_for hk h hist) as [x|].
      + destruct IH as [A B]. split; auto.
      + unfold hres_is. destruct (hk ks) as [h'| |] eqn:E.
        * destruct (bytes_eqb h' h) eqn:E2.
          -- apply bytes_eqb_eq in E2. subst. split; auto.
          -- intros ks' [<-|H]; [|apply IH; exact H]. rewrite E. intros X. inversion X. subst.
             rewrite bytes_eqb_refl in E2. discriminate.
        * intros ks' [<-|H]; [|apply IH; exact H]. rewrite E. discriminate.
        * intros ks' [<-|H]; [|apply IH; exact H]. rewrite E. discriminate.
  Qed.

  Lemma v_pows_for_spec h hist :
    match v_pows_for hp h hist with
    | Some ps => In ps (saved_pows hist) /\ hp ps = HOk h
    | None => forall ps, In ps (saved_pows hist) -> hp ps <> HOk h
    end.
  Proof.
    induction hist as [|[o out] hist IH]; simpl.
    - intros ps [].
    - destruct o; simpl; try exact IH.
      destruct (v_pows_for hp h hist) as [x|].
      + destruct IH as [A B]. split; auto.
      + unfold hres_is. destruct (hp ps) as [h'| |] eqn:E.
        * destruct (bytes_eqb h' h) eqn:E2.
          -- apply bytes_eqb_eq in E2. subst. split; auto.
          -- intros ps' [<-|H]; [|apply IH; exact H]. rewrite E. intros X. inversion X. subst.
             rewrite bytes_eqb_refl in E2. discriminate.
        * intros ps' [<-|H]; [|apply IH; exact H]. rewrite E. discriminate.
        * intros ps' [<-|H]; [|apply IH; exact H]. rewrite E. discriminate.
  Qed.

  Lemma saved_keys_trace : forall ops s ks,
    In ks (saved_keys (rev (trace (vstep hk hp) s ops))) <-> In (VSaveKeys ks) ops.
  Proof.
    intros ops s ks. unfold saved_keys. rewrite in_flat_map. split.
    - intros [[o out] [Hin Hk]]. apply in_rev in Hin. simpl in Hk.
      destruct o; simpl in Hk; try contradiction. destruct Hk as [<-|[]].
      revert s Hin. induction ops as [|o ops IH]; intros s Hin; simpl in *; [contradiction|].
      destruct (vstep hk hp s o) as [s' out'] eqn:E. destruct Hin as [H|H].
      + inversion H. left. reflexivity.
      + right. eapply IH. exact H.
    - intros Hin. revert s. induction ops as [|o ops IH]; intros s; simpl in *; [contradiction|].
      destruct (vstep hk hp s o) as [s' out'] eqn:E. destruct Hin as [->|H].
      + exists (VSaveKeys ks, out'). split; [|left; reflexivity]. simpl. apply in_or_app. right. left. reflexivity.
      + destruct (IH H s') as [e [A B]]. exists e. split; auto. simpl. apply in_or_app. left. exact A.
  Qed.

  Lemma saved_pows_trace : forall ops s ps,
    In ps (saved_pows (rev (trace (vstep hk hp) s ops))) <-> In (VSavePows ps) ops.
  Proof.
    intros ops s ps. unfold saved_pows. rewrite in_flat_map. split.
    - intros [[o out] [Hin Hk]]. apply in_rev in Hin. simpl in Hk.
      destruct o; simpl in Hk; try contradiction. destruct Hk as [<-|[]].
      revert s Hin. induction ops as [|o ops IH]; intros s Hin; simpl in *; [contradiction|].
      destruct (vstep hk hp s o) as [s' out'] eqn:E. destruct Hin as [H|H].
      + inversion H. left. reflexivity.
      + right. eapply IH. exact H.
    - intros Hin. revert s. induction ops as [|o ops IH]; intros s; simpl in *; [contradiction|].
      destruct (vstep hk hp s o) as [s' out'] eqn:E. destruct Hin as [->|H].
      + exists (VSavePows ps, out'). split; [|left; reflexivity]. simpl. apply in_or_app. right. left. reflexivity.
      + destruct (IH H s') as [e [A B]]. exists e. split; auto. simpl. apply in_or_app. left. exact A.
  Qed.

  (** Whatever a hash retrieves does hash to it and was saved (no assumption on the scheme). *)
  Lemma validator_load_sound : forall ops h ks,
    snd (vstep hk hp (run (vstep hk hp) vinit ops) (VLoadKeys h)) = VKeys ks ->
    hk ks = HOk h /\ In (VSaveKeys ks) ops.
  Proof.
    intros ops h ks. rewrite val_answers_by_contract. simpl.
    pose proof (v_keys_for_spec h (rev (trace (vstep hk hp) vinit ops))) as S.
    destruct (v_keys_for hk h (rev (trace (vstep hk hp) vinit ops))) as [x|]; intros H; inversion H. subst.
    destruct S as [A B]. split; auto. apply saved_keys_trace in A. exact A.
  Qed.

  (** load (hash ks) = ks, provided no other saved list collides with it under the scheme. *)
  Lemma validator_load_exact_keys : forall ops ks h,
    In (VSaveKeys ks) ops -> hk ks = HOk h ->
    (forall ks', In (VSaveKeys ks') ops -> hk ks' = HOk h -> ks' = ks) ->
    snd (vstep hk hp (run (vstep hk hp) vinit ops) (VLoadKeys h)) = VKeys ks.
  Proof.
    intros ops ks h Hin Hh Hnc. rewrite val_answers_by_contract. simpl.
    pose proof (v_keys_for_spec h (rev (trace (vstep hk hp) vinit ops))) as S.
    destruct (v_keys_for hk h (rev (trace (vstep hk hp) vinit ops))) as [x|].
    - destruct S as [A B]. apply saved_keys_trace in A. rewrite (Hnc x A B). reflexivity.
    - exfalso. apply (S ks); auto. apply saved_keys_trace. exact Hin.
  Qed.

  Lemma validator_load_exact_pows : forall ops ps h,
    In (VSavePows ps) ops -> hp ps = HOk h ->
    (forall ps', In (VSavePows ps') ops -> hp ps' = HOk h -> ps' = ps) ->
    snd (vstep hk hp (run (vstep hk hp) vinit ops) (VLoadPows h)) = VPows ps.
  Proof.
    intros ops ps h Hin Hh Hnc. rewrite val_answers_by_contract. simpl.
    pose proof (v_pows_for_spec h (rev (trace (vstep hk hp) vinit ops))) as S.
    destruct (v_pows_for hp h (rev (trace (vstep hk hp) vinit ops))) as [x|].
    - destruct S as [A B]. apply saved_pows_trace in A. rewrite (Hnc x A B). reflexivity.
    - exfalso. apply (S ps); auto. apply saved_pows_trace. exact Hin.
  Qed.

  (** The documented not-found error, exactly when nothing saved hashes to the argument. *)
  Lemma validator_not_found_iff : forall ops h,
    snd (vstep hk hp (run (vstep hk hp) vinit ops) (VLoadKeys h)) = VFail (ENoHash (Some h) None) <->
    (forall ks, In (VSaveKeys ks) ops -> hk ks <> HOk h).
  Proof.
    intros ops h. rewrite val_answers_by_contract. simpl.
    pose proof (v_keys_for_spec h (rev (trace (vstep hk hp) vinit ops))) as S.
    destruct (v_keys_for hk h (rev (trace (vstep hk hp) vinit ops))) as [x|].
    - destruct S as [A B]. apply saved_keys_trace in A. split; [discriminate|].
      intros H. exfalso. exact (H x A B).
    - split; auto. intros _ ks Hin. apply S. apply saved_keys_trace. exact Hin.
  Qed.

  (** The caller overwriting the slice it passed to SavePubKeys is not a store operation:
      it changes nothing (the Go store keeps a copy since the fix; the harness performs the overwrite). *)
  Lemma validator_caller_mutation_is_invisible : forall s i, vstep hk hp s (VMutateSavedKeys i) = (s, VDone).
  Proof. reflexivity. Qed.
End Val.

(** * Round store *)
Definition r_R (hist : list (rop * rout)) (s : rstate) : Prop :=
  rs_phs s = r_phs hist /\ rs_rep s = r_rep hist /\
  (forall h r, match al_get hr_eqb (h, r) (rs_pv s) with Some c => c | None => ssc_zero end = r_pv h r hist) /\
  (forall h r, match al_get hr_eqb (h, r) (rs_pc s) with Some c => c | None => ssc_zero end = r_pc h r hist).

Lemma r_pv_cons h r o out hist :
  r_pv h r ((o, out) :: hist) =
  match o, out with
  | RSetPV h' r' c, ROk => if hr_eqb (h, r) (h', r') then c else r_pv h r hist
  | _, _ => r_pv h r hist
  end.
Proof.
  unfold r_pv; simpl. destruct o; try reflexivity. destruct out; try reflexivity.
  destruct (hr_eqb (h, r) (h0, r0)); reflexivity.
Qed.
Lemma r_pc_cons h r o out hist :
  r_pc h r ((o, out) :: hist) =
  match o, out with
  | RSetPC h' r' c, ROk => if hr_eqb (h, r) (h', r') then c else r_pc h r hist
  | _, _ => r_pc h r hist
  end.
Proof.
  unfold r_pc; simpl. destruct o; try reflexivity. destruct out; try reflexivity.
  destruct (hr_eqb (h, r) (h0, r0)); reflexivity.
Qed.

Lemma r_R_step hist s o : r_R hist s -> no_guard hist o = true ->
  snd (rstep s o) = r_expected hist o /\ r_R ((o, snd (rstep s o)) :: hist) (fst (rstep s o)).
Proof.
  intros (HP & HRp & HV & HC) _. destruct o as [p|h hash tag|h r c|h r c|h r]; simpl.
  - rewrite <- HP.
    destruct (filter (ph_at_hash (ph_h p) (ph_r p) (ph_hash p)) (rs_phs s)) as [|x have] eqn:E; simpl.
    + split; [reflexivity|]. repeat split; simpl; auto; try congruence.
    + destruct (ph_key p) as [k|]; simpl.
      * destruct (same_proposer k x || existsb (same_proposer k) have); simpl;
          (split; [reflexivity|]; repeat split; simpl; auto; try congruence).
      * split; [reflexivity|]. repeat split; simpl; auto.
  - rewrite <- HP.
    destruct (existsb (fun p => N.eqb (ph_h p) h && bytes_eqb (ph_hash p) hash) (rs_phs s)); simpl;
      (split; [reflexivity|]; repeat split; simpl; auto; try congruence).
  - split; [reflexivity|]. split; [exact HP|]. split; [exact HRp|]. split; [|exact HC].
    intros h' r'. rewrite r_pv_cons. simpl. destruct (hr_eqb (h', r') (h, r)); auto; apply HV.
  - split; [reflexivity|]. split; [exact HP|]. split; [exact HRp|]. split; [exact HV|].
    intros h' r'. rewrite r_pc_cons. simpl. destruct (hr_eqb (h', r') (h, r)); auto; apply HC.
  - rewrite <- HP, <- HRp, <- (HV h r), <- (HC h r).
    set (pv := match al_get hr_eqb (h, r) (rs_pv s) with Some c => c | None => ssc_zero end).
    set (pc := match al_get hr_eqb (h, r) (rs_pc s) with Some c => c | None => ssc_zero end).
    destruct (filter (ph_at h r) (rs_phs s) ++ replayed_for h (rs_rep s) pc) eqn:E; simpl.
    + destruct (ssc_nilmap pv && ssc_nilmap pc); simpl; (split; [reflexivity|]; repeat split; simpl; auto).
    + split; [reflexivity|]. repeat split; simpl; auto.
Qed.

Lemma round_refines : forall ops,
  r_mon (trace rstep rinit ops) = 0 /\ r_R (rev (trace rstep rinit ops)) (run rstep rinit ops).
Proof.
  intros ops. unfold r_mon, mon_run.
  assert (I : r_R [] rinit) by (repeat split; auto).
  destruct (refine_gen rstep r_expected rout_eqb class1 no_guard r_R rout_eqb_refl r_R_step ops [] rinit 0
              I (guarded_no_guard _ _)) as [A B].
  rewrite app_nil_r in B. auto.
Qed.

(** Round store load specification: for every op sequence, [LoadRoundState h r] returns the
    accepted proposals of (h, r) plus the replayed headers named by the latest precommit
    overwrite, the latest prevote/precommit overwrites, and RoundUnknown exactly when all
    three are absent. *)
Lemma round_store_load_spec : forall ops h r,
  let hist := rev (trace rstep rinit ops) in
  snd (rstep (run rstep rinit ops) (RLoad h r)) =
  match filter (ph_at h r) (r_phs hist) ++ replayed_for h (r_rep hist) (r_pc h r hist) with
  | [] => if ssc_nilmap (r_pv h r hist) && ssc_nilmap (r_pc h r hist)
          then RUnknown (r_pv h r hist) (r_pc h r hist) h r
          else RLoaded [] (r_pv h r hist) (r_pc h r hist)
  | phs => RLoaded phs (r_pv h r hist) (r_pc h r hist)
  end.
Proof.
  intros ops h r hist. destruct (r_R_step hist (run rstep rinit ops) (RLoad h r)) as [A _].
  - apply round_refines.
  - reflexivity.
  - exact A.
Qed.

Lemma round_answers_by_contract : forall ops o,
  snd (rstep (run rstep rinit ops) o) = r_expected (rev (trace rstep rinit ops)) o.
Proof. intros. apply r_R_step; [apply round_refines | reflexivity]. Qed.

(** No-overwrite contract of SaveRoundProposedHeader: among the stored proposals there are
    never two with the same height, round, hash and (non-nil) proposer key. *)
Definition ph_dup (a b : ph) : bool :=
  ph_at_hash (ph_h a) (ph_r a) (ph_hash a) b &&
  match ph_key a with Some k => same_proposer k b | None => false end.

Fixpoint no_dup_phs (l : list ph) : bool :=
  match l with
  | [] => true
  | p :: l' => negb (existsb (ph_dup p) l') && no_dup_phs l'
  end.

Lemma round_no_duplicate_proposals : forall ops, no_dup_phs (rs_phs (run rstep rinit ops)) = true.
Proof.
  assert (G : forall ops s, no_dup_phs (rs_phs s) = true -> no_dup_phs (rs_phs (run rstep s ops)) = true).
  { induction ops as [|o ops IH]; intros s Hs; simpl; auto. apply IH.
    destruct o as [p|h hash tag|h r c|h r c|h r]; simpl.
    - destruct (filter (ph_at_hash (ph_h p) (ph_r p) (ph_hash p)) (rs_phs s)) as [|x have] eqn:E; simpl.
      + rewrite Hs, andb_true_r. apply negb_true_iff. apply not_true_iff_false. intros X.
        apply existsb_exists in X as [q [Hq Hd]]. unfold ph_dup in Hd. apply andb_true_iff in Hd as [Hd _].
        assert (In q (filter (ph_at_hash (ph_h p) (ph_r p) (ph_hash p)) (rs_phs s))) by (apply filter_In; auto).
        rewrite E in H. contradiction.
      + destruct (ph_key p) as [k|] eqn:Ek; simpl; auto.
        destruct (same_proposer k x || existsb (same_proposer k) have) eqn:Ex; simpl; auto.
        rewrite Hs, andb_true_r. apply negb_true_iff. apply not_true_iff_false. intros X.
        apply existsb_exists in X as [q [Hq Hd]]. unfold ph_dup in Hd. rewrite Ek in Hd.
        apply andb_true_iff in Hd as [Hd1 Hd2].
        assert (Hin : In q (x :: have)) by (rewrite <- E; apply filter_In; auto).
        assert (existsb (same_proposer k) (x :: have) = true) by (apply existsb_exists; eauto).
        simpl in H. congruence.
    - destruct (existsb (fun p => N.eqb (ph_h p) h && bytes_eqb (ph_hash p) hash) (rs_phs s)); simpl; auto.
    - exact Hs.
    - exact Hs.
    - destruct (filter (ph_at h r) (rs_phs s) ++ _); simpl; auto.
      destruct (ssc_nilmap _ && ssc_nilmap _); simpl; auto. }
  intros ops. apply G. reflexivity.
Qed.
