(** C13 / C01 - the proposer's CommitProofFinalizer and the receiver's previous-commit-proof check
    compose: what tsi.CommitProofFinalizer.Finalize builds from well-formed precommit proofs is
    accepted by HandleProposedHeader's ValidateFinalizedProof call with exactly the per-block signer
    sets the proofs held, for every number of blocks, every Go map iteration order and every key-set
    size up to 65536.  Model: Model/CommitFinalizer.v over Model/SimpleProof.v. *)
From Coq Require Import List NArith ZArith String Bool Lia ZifyBool ZifyN Permutation.
From GV Require Import Base.Ints Gen.KeyID Model.SimpleProofBase Model.SimpleProof Monitors.C13m
  Proofs.SimpleProof Proofs.SimpleMerge Proofs.SimpleInv Proofs.SimpleRoundtrip Proofs.SimpleFinalize
  Model.CommitFinalizer.
Import ListNotations.
Local Open Scope N_scope.

(* ------------------------------------------------------------------ association lists *)
Lemma rest_set_aset m k v : rest_set m k v = aset m k v.
Proof. induction m as [|[k' v'] t IH]; cbn [rest_set aset]; [reflexivity|]. rewrite IH. reflexivity. Qed.

Lemma hash_get_aget m k : hash_get m k = aget [] m k.
Proof. induction m as [|[k' v'] t IH]; cbn [hash_get aget]; [reflexivity|]. rewrite IH. reflexivity. Qed.

Lemma aset_fresh {V} (m : list (list N * V)) k v :
  ~ In k (map fst m) -> aset m k v = m ++ [(k, v)].
Proof.
  induction m as [|[k' v'] t IH]; cbn [aset map fst In app]; intros H; [reflexivity|].
  destruct (bytes_eqb k' k) eqn:E.
  - apply bytes_eqb_eq in E. exfalso. apply H. left. exact E.
  - rewrite IH; [reflexivity|]. intros Hin. apply H. right. exact Hin.
Qed.

Lemma fold_aset_fresh {A V} (kf : A -> list N) (vf : A -> V) l : forall acc,
  NoDup (map fst acc ++ map kf l) ->
  fold_left (fun m x => aset m (kf x) (vf x)) l acc = acc ++ map (fun x => (kf x, vf x)) l.
Proof.
  induction l as [|x t IH]; intros acc ND; cbn [fold_left map].
  - rewrite app_nil_r. reflexivity.
  - cbn [map] in ND. rewrite aset_fresh.
    + rewrite IH.
      * rewrite <- app_assoc. reflexivity.
      * rewrite map_app. cbn [map fst]. rewrite <- app_assoc. exact ND.
    + apply NoDup_remove_2 in ND. intros Hin. apply ND. apply in_or_app. left. exact Hin.
Qed.

Lemma aget_in {V} (d : V) m k v : NoDup (map fst m) -> In (k, v) m -> aget d m k = v.
Proof.
  induction m as [|[k' v'] t IH]; cbn [aget map fst In]; intros ND H; [contradiction|].
  apply NoDup_cons_iff in ND. destruct ND as [NI ND].
  destruct H as [H|H].
  - injection H as -> ->. rewrite bytes_eqb_refl. reflexivity.
  - destruct (bytes_eqb k' k) eqn:E.
    + apply bytes_eqb_eq in E. subst k'. exfalso. apply NI. apply in_map_iff. exists (k, v). split; [reflexivity|exact H].
    + apply IH; assumption.
Qed.

Lemma aget_in_fst {V} (d : V) m k : In k (map fst m) -> In (k, aget d m k) m.
Proof.
  induction m as [|[k' v'] t IH]; cbn [aget map fst In]; intros H; [contradiction|].
  destruct (bytes_eqb k' k) eqn:E.
  - apply bytes_eqb_eq in E. subst k'. left. reflexivity.
  - destruct H as [H|H]; [apply bytes_eqb_neq in E; contradiction|]. right. apply IH. exact H.
Qed.

(* ------------------------------------------------------------------ popcount *)
Lemma pos_popcount_pos p : 0 < pos_popcount p.
Proof. induction p as [q IH|q IH|]; cbn [pos_popcount]; lia. Qed.

Lemma popcount_pos b : b <> 0 -> 0 < popcount b.
Proof. destruct b as [|p]; [congruence|]. intros _. cbn [popcount]. apply pos_popcount_pos. Qed.

Lemma b2n_inj a b : b2n a = b2n b -> a = b.
Proof. destruct a, b; cbn [b2n]; intros H; try reflexivity; discriminate. Qed.

(* ------------------------------------------------------------------ one block *)
(** The signer bit set a sparse signature list stands for, and "what the kernel hands the state machine":
    every entry names an in-range key with a two-byte id and carries a signature that verifies under it,
    and there is at least one. *)
Definition signers (keys msg : list N) (sigs : list sparse_entry) : N := snd (snd (spec_sparse keys msg sigs)).
Definition entry_ok (keys msg : list N) (sigs : list sparse_entry) : Prop :=
  fst (spec_sparse keys msg sigs) = true /\ signers keys msg sigs <> 0.

Definition P1 (keys pkh msg : list N) (sigs : list sparse_entry) (p : proof) : Prop :=
  Inv p /\ p_msg p = msg /\ p_keys p = keys /\ p_hash p = pkh /\ p_bits p = signers keys msg sigs.

Lemma cpf_one_ok keys pkh msg sigs :
  keys <> [] -> entry_ok keys msg sigs ->
  exists p1, cpf_one keys pkh msg sigs = Ok (inl p1) /\ P1 keys pkh msg sigs p1.
Proof.
  intros NE [AV UN]. unfold cpf_one. rewrite (new_proof_ok _ _ _ NE). cbn [bind].
  set (q0 := mk_proof msg keys pkh 0 []).
  destruct (merge_sparse_spec q0 pkh sigs) as (p' & fl & E & F & B & M & K & H).
  rewrite E. cbn [bind].
  assert (I' : Inv p') by (apply (Inv_merge_sparse q0 _ p' fl (Inv_fresh _ _ _) E)).
  unfold exp_merge_sparse in F, B.
  cbn [mreg_of q0 m_hash m_bits m_keys m_msg p_hash p_keys p_msg p_bits] in F, B, M, K, H.
  rewrite bytes_eqb_refl in F, B. cbn [negb] in F, B.
  unfold signers in UN |- *. unfold P1, signers.
  destruct (spec_sparse keys msg sigs) as [sa [sd su]]. cbn [fst snd] in *.
  subst sa. rewrite N.lor_0_l in F, B.
  unfold obs_flags in F.
  assert (F1 : b2n (fl_all_valid fl) = b2n true) by (injection F; auto).
  assert (F2 : b2n (fl_increased fl) = b2n (popcount 0 <? popcount su)) by (injection F; auto).
  apply b2n_inj in F1. apply b2n_inj in F2.
  assert (Hpc : (popcount 0 <? popcount su) = true).
  { apply N.ltb_lt. cbn [popcount]. apply popcount_pos. exact UN. }
  rewrite Hpc in F2. rewrite F1, F2. cbn [negb].
  exists p'. split; [reflexivity|]. split; [exact I'|]. repeat split; assumption.
Qed.

Lemma cpf_one_total keys pkh msg sigs :
  keys <> [] -> exists r, cpf_one keys pkh msg sigs = Ok r.
Proof.
  intros NE. unfold cpf_one. rewrite (new_proof_ok _ _ _ NE). cbn [bind].
  destruct (merge_sparse_spec (mk_proof msg keys pkh 0 []) pkh sigs) as (p' & fl & E & _).
  rewrite E. cbn [bind].
  destruct (negb (fl_increased fl)); [eexists; reflexivity|].
  destruct (negb (fl_all_valid fl)); eexists; reflexivity.
Qed.

Lemma cpf_one_nil keys pkh msg : keys <> [] -> cpf_one keys pkh msg [] = Ok (inr 1).
Proof.
  intros NE. unfold cpf_one. rewrite (new_proof_ok _ _ _ NE). cbn [bind].
  unfold merge_sparse. cbn [p_hash fst snd]. rewrite bytes_eqb_refl. cbn [negb ms_loop bind p_bits].
  reflexivity.
Qed.

(* ------------------------------------------------------------------ the loop *)
Section Loop.
Variable sb : list N -> list N.
Variables keys pkh committed : list N.

Definition dummy_proof : proof := mk_proof [] [] [] 0 [].
Definition mkp (e : list N * list sparse_entry) : proof :=
  match cpf_one keys pkh (sb (fst e)) (snd e) with Ok (inl p) => p | _ => dummy_proof end.
Definition is_other (e : list N * list sparse_entry) : bool := negb (bytes_eqb (fst e) committed).

Lemma mkp_ok e : keys <> [] -> entry_ok keys (sb (fst e)) (snd e) ->
  cpf_one keys pkh (sb (fst e)) (snd e) = Ok (inl (mkp e)) /\ P1 keys pkh (sb (fst e)) (snd e) (mkp e).
Proof.
  intros NE OK. destruct (cpf_one_ok keys pkh _ _ NE OK) as (p1 & E & P).
  unfold mkp. rewrite E. split; [reflexivity|exact P].
Qed.

Lemma cpf_loop_some es : forall rest m,
  keys <> [] ->
  (forall e, In e es -> entry_ok keys (sb (fst e)) (snd e)) ->
  cpf_loop sb keys pkh committed es rest (Some m) =
  Ok (inl (rest ++ map mkp (filter is_other es),
           Some (fold_left (fun m e => aset m (sb (fst e)) (fst e)) (filter is_other es) m))).
Proof.
  induction es as [|[bh sigs] t IH]; intros rest m NE OK; cbn [cpf_loop filter].
  - cbn [map fold_left]. rewrite app_nil_r. reflexivity.
  - replace (is_other (bh, sigs)) with (negb (bytes_eqb bh committed)) by reflexivity.
    destruct (bytes_eqb bh committed) eqn:E; cbn [negb].
    + apply IH; [exact NE|]. intros e He. apply OK. right. exact He.
    + destruct (mkp_ok (bh, sigs) NE (OK _ (or_introl eq_refl))) as [E1 _]. cbn [fst snd] in E1.
      rewrite E1. cbn [bind]. rewrite IH; [|exact NE|intros e He; apply OK; right; exact He].
      cbn [map fold_left fst]. rewrite <- app_assoc. reflexivity.
Qed.

Lemma cpf_loop_some_total es : forall rest m,
  keys <> [] -> exists r, cpf_loop sb keys pkh committed es rest (Some m) = Ok r.
Proof.
  induction es as [|[bh sigs] t IH]; intros rest m NE; cbn [cpf_loop]; [eexists; reflexivity|].
  destruct (bytes_eqb bh committed); [apply IH; exact NE|].
  destruct (cpf_one_total keys pkh (sb bh) sigs NE) as [r E]. rewrite E. cbn [bind].
  destruct r as [p|e]; [apply IH; exact NE|eexists; reflexivity].
Qed.

Lemma cpf_loop_none es rest :
  filter is_other es = [] -> cpf_loop sb keys pkh committed es rest None = Ok (inl (rest, None)).
Proof.
  induction es as [|[bh sigs] t IH]; cbn [cpf_loop filter]; intros F; [reflexivity|].
  replace (is_other (bh, sigs)) with (negb (bytes_eqb bh committed)) in F by reflexivity.
  destruct (bytes_eqb bh committed); cbn [negb] in F; [apply IH; exact F|discriminate].
Qed.
End Loop.

(* ------------------------------------------------------------------ totality *)
Theorem cpf_finalize_never_panics sb keys committed p :
  keys <> [] -> exists r, cpf_finalize sb keys committed p = Ok r.
Proof.
  intros NE. unfold cpf_finalize.
  destruct (cpf_one keys (cp_pkh p) (sb committed) (aget [] (cp_proofs p) committed)) as [[mp|e]|s] eqn:E1;
    cbn [bind].
  3:{ destruct (cpf_one_total keys (cp_pkh p) (sb committed) (aget [] (cp_proofs p) committed) NE) as [r Er].
      congruence. }
  2:{ eexists; reflexivity. }
  destruct (1 <? List.length (cp_proofs p))%nat eqn:EL.
  - destruct (cpf_loop_some_total sb keys (cp_pkh p) committed (cp_proofs p) [] [] NE) as [r Er].
    rewrite Er. cbn [bind]. destruct r as [[rest hbs]|e]; eexists; reflexivity.
  - (* at most one entry: either it is the committed one, or the main block had no signatures *)
    destruct (cp_proofs p) as [|[bh sigs] [|e2 t]] eqn:Ep; cbn [List.length] in EL.
    + cbn [cpf_loop bind]. eexists; reflexivity.
    + cbn [cpf_loop]. destruct (bytes_eqb bh committed) eqn:Eb; [cbn [bind]; eexists; reflexivity|].
      cbn [aget] in E1. rewrite Eb in E1. rewrite (cpf_one_nil _ _ _ NE) in E1. discriminate.
    + apply Nat.ltb_ge in EL. cbn in EL. lia.
Qed.

(* ------------------------------------------------------------------ list helpers *)
Lemma fold_left_map' {A B C} (g : A -> C -> A) (f : B -> C) l : forall a,
  fold_left g (map f l) a = fold_left (fun a x => g a (f x)) l a.
Proof. induction l as [|x t IH]; intros a; cbn [map fold_left]; [reflexivity|apply IH]. Qed.

Lemma map_eq_pointwise {A B} (f g : A -> B) l : map f l = map g l -> forall x, In x l -> f x = g x.
Proof.
  induction l as [|y t IH]; cbn [map]; intros H x Hx; [contradiction|].
  injection H as Hy Ht. destruct Hx as [<-|Hx]; [exact Hy|apply IH; assumption].
Qed.

Lemma filter_nodup_fst {V} (f : list N * V -> bool) (l : list (list N * V)) :
  NoDup (map fst l) -> NoDup (map fst (filter f l)).
Proof.
  induction l as [|e t IH]; cbn [filter map]; intros ND; [constructor|].
  apply NoDup_cons_iff in ND. destruct ND as [NI ND'].
  destruct (f e); cbn [map]; [|apply IH; exact ND'].
  apply NoDup_cons; [|apply IH; exact ND'].
  intros H. apply NI. apply in_map_iff in H. destruct H as (x & Hx & Hin).
  apply filter_In in Hin. apply in_map_iff. exists x. tauto.
Qed.

Lemma nodup_map_inj {A B} (f : A -> B) l :
  NoDup l -> (forall a b, In a l -> In b l -> f a = f b -> a = b) -> NoDup (map f l).
Proof.
  induction l as [|a t IH]; cbn [map]; intros ND INJ; [constructor|].
  apply NoDup_cons_iff in ND. destruct ND as [NI ND'].
  apply NoDup_cons.
  - intros H. apply in_map_iff in H. destruct H as (b & Hb & Hin).
    assert (b = a) by (apply INJ; [right; exact Hin|left; reflexivity|exact Hb]). subst b. contradiction.
  - apply IH; [exact ND'|]. intros x y Hx Hy. apply INJ; right; assumption.
Qed.

Definition cp_order (committed : list N) (es : list (list N * list sparse_entry)) :=
  (committed, aget [] es committed) :: filter (is_other committed) es.

Lemma single_no_others committed (l : list (list N * list sparse_entry)) v :
  (List.length l <= 1)%nat -> In (committed, v) l -> filter (is_other committed) l = [].
Proof.
  destruct l as [|e1 [|e2 t]]; cbn [List.length]; intros HL HI; [contradiction| |lia].
  destruct HI as [->|[]]. cbn [filter]. unfold is_other. cbn [fst]. rewrite bytes_eqb_refl. reflexivity.
Qed.

(* ------------------------------------------------------------------ the composition *)
Section Compose.
Variable sb : list N -> list N.
Variables keys committed : list N.
Variable p : commit_proof.
Hypothesis NE : keys <> [].
Hypothesis LE : N.of_nat (List.length keys) <= 65536.
Hypothesis ND : NoDup (map fst (cp_proofs p)).
Hypothesis HC : In committed (map fst (cp_proofs p)).
Hypothesis INJ : forall a b, In a (map fst (cp_proofs p)) -> In b (map fst (cp_proofs p)) -> sb a = sb b -> a = b.
Hypothesis OK : forall e, In e (cp_proofs p) -> entry_ok keys (sb (fst e)) (snd e).

Local Notation es := (cp_proofs p).
Local Notation pkh := (cp_pkh p).
Local Notation others := (filter (is_other committed) (cp_proofs p)).
Local Notation csigs := (aget [] (cp_proofs p) committed).
Local Notation mk := (mkp sb keys (cp_pkh p)).
Local Notation mp := (mkp sb keys (cp_pkh p) (committed, aget [] (cp_proofs p) committed)).
Local Notation ps := (map (mkp sb keys (cp_pkh p)) (filter (is_other committed) (cp_proofs p))).

Lemma main_in : In (committed, csigs) es.
Proof. apply aget_in_fst. exact HC. Qed.

Lemma others_in e : In e others -> In e es /\ fst e <> committed.
Proof.
  intros H. apply filter_In in H. destruct H as [H1 H2]. split; [exact H1|].
  unfold is_other in H2. apply negb_true_iff, bytes_eqb_neq in H2. exact H2.
Qed.

Lemma nodup_order : NoDup (committed :: map fst others).
Proof.
  apply NoDup_cons.
  - intros H. apply in_map_iff in H. destruct H as (e & He & Hin). apply others_in in Hin. tauto.
  - apply filter_nodup_fst. exact ND.
Qed.

Lemma order_in_es a : In a (committed :: map fst others) -> In a (map fst es).
Proof.
  intros [<-|H]; [exact HC|]. apply in_map_iff in H. destruct H as (e & <- & Hin).
  apply in_map. apply others_in in Hin. tauto.
Qed.

Lemma nodup_sb_order : NoDup (map sb (committed :: map fst others)).
Proof.
  apply nodup_map_inj; [exact nodup_order|].
  intros a b Ha Hb. apply INJ; apply order_in_es; assumption.
Qed.

Lemma nodup_sb_others : NoDup (map (fun e => sb (fst e)) others).
Proof.
  pose proof nodup_sb_order as N0. cbn [map] in N0. apply NoDup_cons_iff in N0.
  rewrite map_map in N0. tauto.
Qed.

Lemma mk_main : cpf_one keys pkh (sb committed) csigs = Ok (inl mp) /\ P1 keys pkh (sb committed) csigs mp.
Proof. apply (mkp_ok sb keys pkh (committed, csigs) NE). apply (OK _ main_in). Qed.

Lemma mk_other e : In e others -> P1 keys pkh (sb (fst e)) (snd e) (mk e).
Proof. intros H. apply (mkp_ok sb keys pkh e NE). apply OK. apply others_in in H. tauto. Qed.

Lemma ps_msgs : map p_msg ps = map sb (map fst others).
Proof.
  rewrite !map_map. apply map_ext_in. intros e He.
  destruct (mk_other e He) as (_ & M & _). exact M.
Qed.

Lemma ps_wf : rest_wf mp ps.
Proof.
  unfold rest_wf. apply Forall_forall. intros r Hr. apply in_map_iff in Hr.
  destruct Hr as (e & <- & He). destruct (mk_other e He) as (I & _ & K & H & _).
  destruct mk_main as [_ (_ & _ & K' & H' & _)].
  split; [exact I|]. split; congruence.
Qed.

Lemma fin_items : map fin_item ps = map (fun e => (sb (fst e), snd (as_sparse (mk e)))) others.
Proof.
  rewrite map_map. apply map_ext_in. intros e He. unfold fin_item.
  destruct (mk_other e He) as (_ & M & _). rewrite M. reflexivity.
Qed.

(** the loop's result in both cases of the nil-map guard *)
Lemma loop_result :
  exists hbs, cpf_loop sb keys pkh committed es []
                (if (1 <? List.length es)%nat then Some [] else None) = Ok (inl (ps, hbs)) /\
    map (fun e => match hbs with Some m => aget [] m (sb (fst e)) | None => [] end) others = map fst others.
Proof.
  destruct (1 <? List.length es)%nat eqn:EL.
  - eexists. split.
    + rewrite (cpf_loop_some sb keys pkh committed es [] [] NE OK). cbn [app]. reflexivity.
    + rewrite (fold_aset_fresh (fun e => sb (fst e)) (fun e => fst e) others []).
      2:{ cbn [map app]. exact nodup_sb_others. }
      cbn [app]. apply map_ext_in. intros e He.
      apply aget_in.
      * rewrite map_map. cbn [fst]. exact nodup_sb_others.
      * apply in_map_iff. exists e. split; [reflexivity|exact He].
  - apply Nat.ltb_ge in EL.
    assert (Ho : others = []) by (apply (single_no_others committed es csigs); [lia|exact main_in]).
    exists None. split.
    + rewrite Ho. cbn [map]. apply cpf_loop_none. exact Ho.
    + rewrite Ho. reflexivity.
Qed.

Definition out_entries : list (list N * list sparse_entry) :=
  (committed, snd (as_sparse mp)) :: map (fun e => (fst e, snd (as_sparse (mk e)))) others.

Lemma nodup_ps_msgs : NoDup (map p_msg (mp :: ps)).
Proof.
  cbn [map]. rewrite ps_msgs. destruct mk_main as [_ (_ & M & _)]. rewrite M.
  exact nodup_sb_order.
Qed.

Lemma finalize_shape :
  finalize mp ps = mk_fin keys pkh (sb committed) (snd (as_sparse mp)) (map fin_item ps).
Proof.
  unfold finalize. destruct mk_main as [_ (_ & M & K & H & _)].
  rewrite M, K, H. f_equal.
  apply (finalize_rest_fold ps []). cbn [map app].
  pose proof nodup_ps_msgs as N0. cbn [map] in N0. apply NoDup_cons_iff in N0. tauto.
Qed.

Lemma finalize_out : cpf_finalize sb keys committed p = Ok (inl (mk_cp (cp_round p) pkh out_entries)).
Proof.
  unfold cpf_finalize. destruct mk_main as [E1 _]. rewrite E1. cbn [bind].
  destruct loop_result as (hbs & EL & HB). rewrite EL. cbn [bind].
  do 3 f_equal. unfold cpf_out. rewrite finalize_shape. cbn [f_rest f_main_sigs].
  rewrite fin_items, fold_left_map'. cbn [fst snd].
  rewrite (fold_aset_fresh (fun e => match hbs with Some m => aget [] m (sb (fst e)) | None => [] end)
                           (fun e => snd (as_sparse (mk e))) others).
  - cbn [app]. unfold out_entries. f_equal. apply map_ext_in. intros e He. f_equal.
    apply (map_eq_pointwise _ _ _ HB e He).
  - cbn [map fst app]. rewrite HB. exact nodup_order.
Qed.

(** the receiver's reconstruction of the finalized proof from [out_entries] *)
Lemma out_others :
  (if (1 <? List.length out_entries)%nat
   then filter (fun e => negb (bytes_eqb (fst e) committed)) out_entries else []) =
  map (fun e => (fst e, snd (as_sparse (mk e)))) others.
Proof.
  assert (F : filter (fun e : list N * list sparse_entry => negb (bytes_eqb (fst e) committed)) out_entries =
              map (fun e => (fst e, snd (as_sparse (mk e)))) others).
  { unfold out_entries. cbn [filter fst]. rewrite bytes_eqb_refl. cbn [negb].
    assert (G : forall l : list (list N * list sparse_entry), (forall e, In e l -> fst e <> committed) ->
              filter (fun e : list N * list sparse_entry => negb (bytes_eqb (fst e) committed))
                     (map (fun e => (fst e, snd (as_sparse (mk e)))) l) =
              map (fun e => (fst e, snd (as_sparse (mk e)))) l).
    { induction l as [|x t IH]; intros Hne; cbn [map filter fst]; [reflexivity|].
      assert (Hx : bytes_eqb (fst x) committed = false) by (apply bytes_eqb_neq, Hne; left; reflexivity).
      rewrite Hx. cbn [negb]. f_equal. apply IH. intros e He. apply Hne. right. exact He. }
    apply G. intros e He. apply others_in in He. tauto. }
  unfold out_entries in *. cbn [List.length].
  destruct (map (fun e => (fst e, snd (as_sparse (mk e)))) others) as [|x t] eqn:Em.
  - cbn [List.length]. reflexivity.
  - cbn [List.length]. exact F.
Qed.

Definition recv_hashes : list (list N * list N) :=
  (sb committed, committed) :: map (fun e => (sb (fst e), fst e)) others.

Lemma recv_hash_get r e : In e ((committed, csigs) :: others) -> r = mk e ->
  hash_get recv_hashes (p_msg r) = fst e.
Proof.
  intros He ->. rewrite hash_get_aget.
  assert (M : p_msg (mk e) = sb (fst e)).
  { destruct He as [<-|He]; [destruct mk_main as [_ (_ & M & _)]; exact M|].
    destruct (mk_other e He) as (_ & M & _). exact M. }
  rewrite M. apply aget_in.
  - unfold recv_hashes. cbn [map fst]. rewrite map_map. cbn [fst].
    pose proof nodup_sb_order as N0. cbn [map] in N0. rewrite map_map in N0. exact N0.
  - unfold recv_hashes. destruct He as [<-|He]; [left; reflexivity|].
    right. apply in_map_iff. exists e. split; [reflexivity|exact He].
Qed.

Theorem cpf_then_receive :
  exists out, cpf_finalize sb keys committed p = Ok (inl out) /\
    cp_round out = cp_round p /\ cp_pkh out = cp_pkh p /\
    map fst (cp_proofs out) = map fst (cp_order committed es) /\
    cp_receive sb keys committed out =
      Ok (Some (map (fun e => (fst e, signers keys (sb (fst e)) (snd e))) (cp_order committed es)),
          pairwise_disjoint (map (fun e => signers keys (sb (fst e)) (snd e)) (cp_order committed es))).
Proof.
  exists (mk_cp (cp_round p) pkh out_entries). split; [exact finalize_out|].
  split; [reflexivity|]. split; [reflexivity|]. split.
  - cbn [cp_proofs]. unfold out_entries, cp_order. cbn [map fst]. f_equal. rewrite map_map. reflexivity.
  - unfold cp_receive. cbn [cp_proofs cp_pkh]. rewrite out_others.
    assert (Emain : aget [] out_entries committed = snd (as_sparse mp)).
    { unfold out_entries. cbn [aget]. rewrite bytes_eqb_refl. reflexivity. }
    rewrite Emain.
    rewrite fold_left_map'. cbn [fst snd].
    rewrite (fold_aset_fresh (fun e => sb (fst e)) (fun e => snd (as_sparse (mk e))) others []).
    2:{ cbn [map app]. exact nodup_sb_others. }
    cbn [app]. rewrite <- fin_items.
    rewrite fold_left_map'. cbn [fst snd].
    rewrite (fold_aset_fresh (fun e => sb (fst e)) (fun e => fst e) others [(sb committed, committed)]).
    2:{ cbn [map fst app]. pose proof nodup_sb_order as N0. cbn [map] in N0. rewrite map_map in N0. exact N0. }
    cbn [app]. fold recv_hashes.
    rewrite <- finalize_shape.
    destruct mk_main as [_ (Im & Mm & Km & Hm & Bm)].
    rewrite (simple_finalize_validate_roundtrip mp ps recv_hashes Im ps_wf).
    + f_equal. f_equal.
      * f_equal. unfold cp_order. cbn [map]. f_equal.
        -- unfold out_item. rewrite (recv_hash_get mp (committed, csigs)); [|left; reflexivity|reflexivity].
           cbn [fst snd]. rewrite Bm. reflexivity.
        -- rewrite map_map. apply map_ext_in. intros e He. unfold out_item.
           rewrite (recv_hash_get (mk e) e); [|right; exact He|reflexivity].
           destruct (mk_other e He) as (_ & _ & _ & _ & B). rewrite B. reflexivity.
      * unfold cp_order. cbn [map]. rewrite Bm. cbn [fst snd]. f_equal.
        rewrite !map_map. f_equal. apply map_ext_in. intros e He.
        destruct (mk_other e He) as (_ & _ & _ & _ & B). exact B.
    + rewrite Km. exact NE.
    + rewrite Km. exact LE.
    + exact nodup_ps_msgs.
    + assert (E : map (fun r => hash_get recv_hashes (p_msg r)) (mp :: ps) = committed :: map fst others).
      { cbn [map]. f_equal.
        - rewrite (recv_hash_get mp (committed, csigs)); [reflexivity|left; reflexivity|reflexivity].
        - rewrite map_map. apply map_ext_in. intros e He.
          rewrite (recv_hash_get (mk e) e); [reflexivity|right; exact He|reflexivity]. }
      rewrite E. exact nodup_order.
Qed.

End Compose.
