(** Facts about the fixture instance (Model/TxBufInst.v) used by the correspondence run:
    its equalities are real equalities (so the generic monitor theorems apply to it), and
    concrete examples showing that the theorems' hypotheses are satisfiable and what the
    fatal-error guard excludes. *)
From Coq Require Import List NArith Bool Lia.
From GV Require Import Model.TxBuf Model.TxBufSpec Model.TxBufInst Monitors.C19m Proofs.TxBuf.
Import ListNotations.
Local Open Scope N_scope.

Lemma tx_eqb_refl : forall t, tx_eqb t t = true.
Proof. intros [[[k a] b] v]; cbn. rewrite !N.eqb_refl. reflexivity. Qed.

Lemma tx_eqb_sound : forall x y, tx_eqb x y = true -> x = y.
Proof.
  intros [[[k1 a1] b1] v1] [[[k2 a2] b2] v2]; cbn. intros H.
  repeat (apply andb_true_iff in H as [H ?]).
  apply N.eqb_eq in H, H0, H1, H2. congruence.
Qed.

Lemma st_eqb_refl : forall s, st_eqb s s = true.
Proof. unfold st_eqb. induction s; cbn; [reflexivity|]. rewrite N.eqb_refl; auto. Qed.

(** The instance of the monitor theorems that the check evaluates. *)
Lemma inst_model_satisfies_monitors : forall mode cap ops b,
  let rs := run_states (apply_inst cap) (deleter_inst mode) (init b) ops in
  c19_api_mon (apply_inst cap) (deleter_inst mode) tx_eqb b [] (api_trace ops rs) = true /\
  c19_inv_mon (apply_inst cap) st_eqb (map (fun xw => (fst xw, snap_of (snd xw))) rs) = true.
Proof.
  intros mode cap ops b rs. split.
  - apply (model_satisfies_api_mon (apply_inst cap) (deleter_inst mode) tx_eqb tx_eqb_refl ops (init b)).
    apply init_inv.
  - apply (model_satisfies_inv_mon (apply_inst cap) (deleter_inst mode) st_eqb st_eqb_refl ops (init b)).
    apply init_inv.
Qed.

(** Non-vacuity: the duplicate-value history (base 2, dec, dec, rebase to base 1, dec).
    The model keeps ONE dec, invalidates the other, and the working state is 0 = 1 - 1;
    the next dec is then refused because 0 < 1 -- consistently with pending = [dec]. *)
Definition dec1 : tx := (0, 0, 0, 1).
Definition dup_ops : list (op st tx) :=
  [OpAdd dec1; OpAdd dec1; OpRebase [1] []; OpBuffered []; OpAdd dec1].

Example dup_history_outputs :
  run (apply_inst 9) (deleter_inst 0) (init [2]) dup_ops =
  (mkW [1] [0] true [dec1],
   [OutAdd ENone; OutAdd ENone; OutRebase ENone [dec1]; OutBuffered [dec1]; OutAdd (EInvalid 1)]).
Proof. vm_compute. reflexivity. Qed.

Example dup_history_inv :
  Inv (apply_inst 9) (fst (run (apply_inst 9) (deleter_inst 0) (init [2]) dup_ops)).
Proof. vm_compute. reflexivity. Qed.

(** What the repaired defect was: deleting the invalidated transactions BY VALUE (second
    DeleteFunc pass with the user's deleter) empties the pending list in that history while the
    working state stays 0, so the invariant fails.  [legacy_finish] is the old last step. *)
Definition legacy_finish (mode : N) (l inv : list tx) : list tx :=
  match inv with [] => l | _ => filter (fun t => negb (deleter_inst mode inv t)) l end.

Example legacy_by_value_breaks_invariant :
  let l := [dec1; dec1] in
  match rebase_loop (apply_inst 9) [1] false l with
  | LDone cs _ _ inv =>
      legacy_finish 0 l inv = [] /\ cs = [0] /\
      fold_apply (apply_inst 9) [1] (legacy_finish 0 l inv) <> Some cs
  | LFatal _ _ _ => False
  end.
Proof. vm_compute. repeat split; discriminate. Qed.

(** What the fatal-error guard excludes (errors.go: a non-TxInvalidError error is fatal to the
    buffer): after a rebase that returned a fatal error the state is left half-updated and the
    invariant does not hold -- so the guard in C19_invariant_always cannot be dropped. *)
Definition trap0 : tx := (4, 0, 0, 0).
Definition fatal_ops : list (op st tx) := [OpAdd dec1; OpAdd trap0; OpAdd dec1; OpRebase [1] []].

Example fatal_rebase_leaves_invariant_broken :
  let '(w, outs) := run (apply_inst 9) (deleter_inst 0) (init [3]) fatal_ops in
  outs = [OutAdd ENone; OutAdd ENone; OutAdd ENone; OutRebase (EFatal 100) []] /\
  ~ Inv (apply_inst 9) w.
Proof. vm_compute. split; [reflexivity | discriminate]. Qed.
