(** C10 (start-up): [restart] (NewKernel) is total on stores satisfying the store invariant
    [SI], and the state it returns satisfies the kernel invariants again. *)
From Coq Require Import List NArith Arith Bool Lia String.
From GV Require Import Base.Ints Gen.Math Gen.Kernel Model.Mirror
  Proofs.Thresholds Proofs.MirrorAuth Proofs.MirrorNoop Proofs.MirrorChain Proofs.MirrorCert
  Proofs.MirrorTotal Proofs.MirrorRestart Proofs.MirrorResumeLoad Proofs.MirrorResumeInv.
Import ListNotations.
Local Open Scope N_scope.

(** * The start-up re-evaluation of the view shifts *)
Lemma recheck_total ih ivs s : INV ih ivs s -> tinv s ->
  exists s1, recheck_view_shifts s = Ok s1 /\ INV ih ivs s1 /\ tinv s1 /\ adv s s1.
Proof.
  intros HI [HA HP]. unfold recheck_view_shifts.
  destruct (check_voting_total s HA) as (s1&E1&T1). rewrite E1. cbn [bind].
  pose proof (INV_check_voting _ _ _ _ HI E1) as I1. pose proof (T1 HP) as [A1 P1].
  destruct (cinv_check_voting _ _ _ _ (proj1 HI) E1) as [_ Ad1].
  destruct (negb _); [exists s1; split; [reflexivity|]; split; [exact I1|]; split; [split; assumption|exact Ad1]|].
  destruct (check_next_round_total s1 A1) as (s2&E2&T2). rewrite E2. cbn [bind].
  pose proof (INV_check_next_round _ _ _ _ I1 E2) as I2. pose proof (T2 P1) as [A2 P2].
  destruct (cinv_check_next_round _ _ _ _ (proj1 I1) E2) as [_ Ad2].
  destruct (negb _); [exists s2; split; [reflexivity|]; split; [exact I2|]; split; [split; assumption|eapply adv_trans; eassumption]|].
  destruct (check_prevote_total s2 A2) as (s3&E3&T3). rewrite E3.
  pose proof (INV_check_prevote _ _ _ _ I2 E3) as I3. pose proof (T3 P2) as [A3 P3].
  destruct (cinv_check_prevote _ _ _ _ (proj1 I2) E3) as [_ Ad3].
  exists s3. split; [reflexivity|]. split; [exact I3|]. split; [split; assumption|]. eapply adv_trans; [exact Ad1|]. eapply adv_trans; eassumption.
Qed.

(** * Start-up in continuation-passing form: whatever holds of the re-evaluation of every state
    satisfying the invariants whose stores are [st], holds of [restart] on [st] *)
Lemma restart_cps ih ivs st vals log (P : res kstate -> Prop) :
  1 <= ih -> vwf ivs -> SI ih ivs st ->
  (forall s0, stores_of s0 = st -> st_log s0 = log -> st_vals s0 = vals ->
      INV ih ivs s0 -> tinv s0 -> comvals ih ivs s0 -> ne_state s0 -> n1 s0 -> kok s0 -> loadedv s0 ->
      P (bind (recheck_view_shifts s0) (fun s1 => Ok (update_observers s1)))) ->
  P (restart ih ivs st vals log).
Proof.
  intros Hih Hivs (vh&vr&ch&cr&Hnhr&Hshape&Hfine&Hcert&Hrounds&Hrep) HP.
  assert (Hvh : (vh =? 0) = false).
  { apply N.eqb_neq. destruct Hshape as [(_&_&E&_)|(_&E&_)]; lia. }
  assert (Hstores : mk_stores (vh, vr, ch, cr) (sr_hdrs st) (sr_rounds st) (sr_replayed st) = st).
  { clear -Hnhr. destruct st as [a b c d]. cbn in Hnhr |- *. rewrite Hnhr. reflexivity. }
  unfold restart. rewrite Hnhr. cbv beta iota zeta. rewrite Hvh. cbv beta iota zeta.
  destruct Hshape as [(Ech&Ecr&Evh&EH)|(Hchain&Evh&Hb&Hcg)].
  - (* nothing committed yet *)
    destruct (N.leb_spec ih ch) as [Hle|_]; [lia|]. cbn [bind]. cbv beta iota zeta.
    rewrite Evh at 1. rewrite N.eqb_refl. cbn [bind].
    assert (Evs : ivs = chain_vals ih ivs (sr_hdrs st) vh) by (rewrite Evh; symmetry; apply chain_vals_at_init).
    pose proof (voting_entry_good ih ivs st vh Hrounds ivs Evs) as Hg.
    destruct (load_total (sr_rounds st) (sr_replayed st) vh vr ivs (proj2 (proj2 Hivs))
                (proj1 (Hg vr)) (proj1 (proj2 (Hg vr)))) as [vot0 Lv].
    destruct (load_total (sr_rounds st) (sr_replayed st) vh (wrap32 (vr + 1)) ivs (proj2 (proj2 Hivs))
                (proj1 (Hg _)) (proj1 (proj2 (Hg _)))) as [nxt0 Ln].
    rewrite Lv, Ln. cbn [bind]. cbv beta iota zeta.
    match goal with |- P (bind (recheck_view_shifts (mk_k _ _ ?com (bump (with_pcp _ ?cpv)) _ _ _ _ _ _ _ _ ?evs)) _) =>
      pose proof (loaded_state_ok ih ivs st vals log evs vh vr ch cr Hih Hnhr Hfine Hcert Hrounds Hrep ivs Evs
                    com None vot0 nxt0 cpv Lv Ln Hivs) as HS end.
    cbv zeta in HS. rewrite Hnhr in HS. unfold dressed in HS.
    destruct HS as (S1&S2&S3&S4&S5&S6&S7).
    + cbn [v_h]. lia.
    + cbn [v_r]. lia.
    + apply auth_view_fresh.
    + split; intros t p [].
    + reflexivity.
    + repeat split; try assumption; reflexivity.
    + apply HP; try assumption; try reflexivity.
  - (* a committing header exists *)
    destruct (hchain_bounds _ _ _ Hchain) as [Hle _].
    destruct (N.leb_spec ih ch) as [_|Hlt]; [|lia].
    set (vsc := chain_vals ih ivs (sr_hdrs st) ch) in *.
    assert (Hvsc : (if ch =? ih then Ok ivs
                    else match hdr_get (sr_hdrs st) (ch - 1) with
                         | Some (x, _) => Ok (hd_next x)
                         | None => Panic "loadInitialCommittingView: committed header below the committing height is missing"
                         end) = Ok vsc /\ vwf vsc).
    { unfold vsc. destruct (N.eqb_spec ch ih) as [E|Hne].
      - rewrite E, chain_vals_at_init. split; [reflexivity|exact Hivs].
      - destruct (hchain_lookup _ _ _ Hchain (ch - 1)) as (y&ycp&Hy&Hyin&_); [lia|lia|].
        rewrite Hy. rewrite (chain_vals_hdr_get ih ivs _ ch y ycp Hne Hy).
        split; [reflexivity|]. exact (proj2 (Hfine _ _ _ Hyin)). }
    destruct Hvsc as [Hvsc Hvscwf]. rewrite Hvsc. cbn [bind].
    destruct Hcg as (Gpv&Gpc&pkh&en&enl&Epc).
    destruct (load_total (sr_rounds st) (sr_replayed st) ch cr vsc (proj2 (proj2 Hvscwf)) Gpv Gpc) as [v0 Lc].
    rewrite Lc. cbn [bind].
    destruct (load_facts _ _ _ _ _ _ Lc) as (C1&C2&C3&C4&C5&C6&C7&C8).
    assert (Hpcne : v_pc v0 <> []).
    { destruct (to_full_map_good KPrecommit ch cr (vs_keys vsc) _ (proj2 (proj2 Hvscwf)) Gpc) as (pm&Epm&Hne).
      rewrite C8 in Epm. inversion Epm; subst pm. eapply Hne. exact Epc. }
    destruct (v_pc v0) as [|pc0 pcl] eqn:Evpc; [contradiction|].
    assert (Hpcp : exists pcp, (if ih <? ch
                    then match hdr_get (sr_hdrs st) (ch - 1) with
                         | Some (_, cp) => Ok cp
                         | None => Panic "error: failed to load committed header for previous commit proof"
                         end
                    else Ok empty_cproof) = Ok pcp).
    { destruct (N.ltb_spec ih ch) as [Hl|_]; [|eexists; reflexivity].
      destruct (hchain_lookup _ _ _ Hchain (ch - 1)) as (y&ycp&Hy&_&_); [lia|lia|].
      rewrite Hy. eexists; reflexivity. }
    destruct Hpcp as [pcp Hpcp]. rewrite Hpcp. cbn [bind]. cbv beta iota zeta.
    destruct (hchain_lookup _ _ _ Hchain ch Hle (N.le_refl _)) as (x&xcp&Hx&Hxin&Hxh).
    rewrite Hx. cbn [bind]. cbv beta iota zeta.
    destruct (N.eqb_spec vh ih) as [E|_]; [lia|].
    destruct (Hfine _ _ _ Hxin) as [Hxvals Hxnext].
    destruct (vs_keys (hd_next x)) as [|k0 kl] eqn:Ekeys; [exfalso; apply (proj2 (proj2 Hxnext)); exact Ekeys|].
    cbn [bind].
    assert (Evs : hd_next x = chain_vals ih ivs (sr_hdrs st) vh).
    { symmetry. apply (chain_vals_hdr_get ih ivs _ vh x xcp); [lia|]. replace (vh - 1) with ch by lia. exact Hx. }
    assert (Hkne : vs_keys (hd_next x) <> []) by (rewrite Ekeys; discriminate).
    pose proof (voting_entry_good ih ivs st vh Hrounds (hd_next x) Evs) as Hg.
    destruct (load_total (sr_rounds st) (sr_replayed st) vh vr (hd_next x) Hkne
                (proj1 (Hg vr)) (proj1 (proj2 (Hg vr)))) as [vot0 Lv].
    destruct (load_total (sr_rounds st) (sr_replayed st) vh (wrap32 (vr + 1)) (hd_next x) Hkne
                (proj1 (Hg _)) (proj1 (proj2 (Hg _)))) as [nxt0 Ln].
    rewrite Lv, Ln. cbn [bind]. cbv beta iota zeta.
    match goal with |- P (bind (recheck_view_shifts (mk_k _ _ ?com (bump (with_pcp _ ?cpv)) _ _ _ _ _ _ _ _ ?evs)) _) =>
      pose proof (loaded_state_ok ih ivs st vals log evs vh vr ch cr Hih Hnhr Hfine Hcert Hrounds Hrep (hd_next x) Evs
                    com (Some x) vot0 nxt0 cpv Lv Ln Hxnext) as HS end.
    cbv zeta in HS. rewrite Hnhr in HS. unfold dressed in HS.
    destruct HS as (S1&S2&S3&S4&S5&S6&S7).
    + cbn. exact C1.
    + cbn. exact C2.
    + apply auth_view_bump. destruct C5 as [A B]. split; cbn; [exact A|]. first [exact B|rewrite <- Evpc; exact B|rewrite Evpc; exact B].
    + destruct C7 as [A B]. split; cbn; [exact A|]. first [exact B|rewrite <- Evpc; exact B|rewrite Evpc; exact B].
    + reflexivity.
    + split; [exists xcp; exact Hx|]. split; [exact Hxh|]. split; [exact Evh|]. split; [exact Hb|].
      split; [exact Hchain|]. cbn. exact C3.
    + apply HP; try assumption; try reflexivity.
Qed.

(** * Start-up never fails on a store satisfying [SI] *)
Theorem restart_on_SI ih ivs st vals log :
  1 <= ih -> vwf ivs -> SI ih ivs st ->
  exists s0 s1,
    restart ih ivs st vals log = Ok (update_observers s1) /\
    recheck_view_shifts s0 = Ok s1 /\
    stores_of s0 = st /\ st_log s0 = log /\ st_vals s0 = vals /\
    INV ih ivs s0 /\ tinv s0 /\ comvals ih ivs s0 /\ ne_state s0 /\ n1 s0 /\ kok s0 /\ loadedv s0 /\
    INV ih ivs s1 /\ tinv s1 /\ adv s0 s1.
Proof.
  intros Hih Hivs HSI. apply (restart_cps ih ivs st vals log); try assumption.
  intros s0 E1 E2 E3 HI HT HC HN H1 HK HL.
  destruct (recheck_total ih ivs s0 HI HT) as (s1&Er&I1&T1&A1).
  exists s0, s1. rewrite Er. cbn [bind]. split; [reflexivity|]. split; [reflexivity|]. repeat (split; [assumption|]). assumption.
Qed.
