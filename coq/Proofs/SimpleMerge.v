(** C13 - MergeSparse / Merge of the simple scheme: verified set union, flags, monotone, idempotent,
    order irrelevant, totality. *)
From Coq Require Import List NArith ZArith String Bool Lia ZifyBool ZifyN Permutation.
From GV Require Import Base.Ints Gen.KeyID Model.SimpleProofBase Model.SimpleProof Monitors.C13m Proofs.SimpleProof.
Import ListNotations.
Local Open Scope N_scope.

Definition add_ok (p : proof) (s : sigv) (k t : N) : proof :=
  mk_proof (p_msg p) (p_keys p) (p_hash p) (N.lor (p_bits p) (bit t)) (sigs_set (p_sigs p) s k).

Definition entry_key (keys : list N) (e : sparse_entry) : N :=
  match entry_index (List.length keys) (fst e) with
  | Some n => match nth_key keys n with Some k => k | None => 0 end
  | None => 0
  end.

(** The loop body of MergeSparse as a total function of the specification-level [good_entry]. *)
Definition ms_pure (st : proof * (bool * N)) (e : sparse_entry) : proof * (bool * N) :=
  let '(p, (av, ad)) := st in
  match good_entry (p_keys p) (p_msg p) e with
  | Some (n, t) => (add_ok p (snd e) (entry_key (p_keys p) e) t, (av, N.lor ad (bit n)))
  | None => (p, (false, ad))
  end.

Lemma ms_step_pure st e : ms_step st e = Ok (ms_pure st e).
Proof.
  destruct st as [p [av ad]], e as [id s].
  unfold ms_step, ms_pure, good_entry, entry_key. cbn [fst snd].
  rewrite key_id_valid_spec. cbn [bind].
  destruct (entry_index (List.length (p_keys p)) id) as [n|] eqn:E; cbn [negb]; [|reflexivity].
  rewrite (entry_index_be16 _ _ _ E). cbn [bind].
  pose proof (entry_index_lt _ _ _ E) as Hlt.
  destruct (Z.ltb_spec (Z.of_N n) 0); [lia|].
  destruct (Z.leb_spec (Z.of_nat (List.length (p_keys p))) (Z.of_N n)); [lia|]. cbn [orb].
  unfold nth_key in *. destruct (nth_error (p_keys p) (N.to_nat n)) as [k|] eqn:Ek.
  2:{ apply nth_error_None in Ek. lia. }
  unfold add_signature.
  destruct (key_index (p_keys p) k) as [t|] eqn:Ei; destruct (sig_verify k (p_msg p) s) eqn:Ev;
    cbn [negb N.eqb]; reflexivity.
Qed.

Lemma ms_loop_pure es : forall st, ms_loop st es = Ok (fold_left ms_pure es st).
Proof.
  induction es as [|e t IH]; intros st; cbn [ms_loop fold_left]; [reflexivity|].
  rewrite ms_step_pure. cbn [bind]. apply IH.
Qed.

Lemma ms_pure_params st e :
  let p := fst st in let p' := fst (ms_pure st e) in
  p_msg p' = p_msg p /\ p_keys p' = p_keys p /\ p_hash p' = p_hash p.
Proof.
  destruct st as [p [av ad]]. cbn [fst]. unfold ms_pure.
  destruct (good_entry (p_keys p) (p_msg p) e) as [[n t]|]; cbn [fst add_ok p_msg p_keys p_hash]; auto.
Qed.

Lemma fold_ms_pure_spec es : forall p av ad p' av' ad',
  fold_left ms_pure es (p, (av, ad)) = (p', (av', ad')) ->
  let '(sa, (sd, su)) := spec_sparse (p_keys p) (p_msg p) es in
  p_bits p' = N.lor (p_bits p) su /\ av' = av && sa /\ ad' = N.lor ad sd /\
  p_msg p' = p_msg p /\ p_keys p' = p_keys p /\ p_hash p' = p_hash p.
Proof.
  induction es as [|e t IH]; intros p av ad p' av' ad' H.
  - cbn in H. inversion H; subst. cbn [spec_sparse]. rewrite N.lor_0_r, andb_true_r, N.lor_0_r. auto 6.
  - cbn [fold_left] in H. cbn [spec_sparse].
    unfold ms_pure in H at 2.
    destruct (good_entry (p_keys p) (p_msg p) e) as [[n i]|] eqn:G.
    + specialize (IH _ _ _ _ _ _ H). cbn [add_ok p_keys p_msg p_bits p_hash] in IH.
      destruct (spec_sparse (p_keys p) (p_msg p) t) as [sa [sd su]].
      destruct IH as (Hb & Ha & Hd & Hm & Hk & Hh).
      repeat split; try assumption.
      * rewrite Hb. bitwise.
      * rewrite Hd. bitwise.
    + specialize (IH _ _ _ _ _ _ H).
      destruct (spec_sparse (p_keys p) (p_msg p) t) as [sa [sd su]].
      destruct IH as (Hb & Ha & Hd & Hm & Hk & Hh).
      repeat split; try assumption.
      rewrite Ha. rewrite andb_false_r. reflexivity.
Qed.

Definition mreg_of (p : proof) : mreg := mk_mreg (p_msg p) (p_keys p) (p_hash p) (p_bits p).

(** TOTAL + FLAGS + UNION in one statement: MergeSparse never panics, and its flags and resulting
    signer set are exactly the ones of the set-union specification used by the monitor. *)
Theorem merge_sparse_spec p hash ents :
  exists p' fl, merge_sparse p (hash, ents) = Ok (p', fl) /\
    obs_flags fl (p_bits p') = fst (exp_merge_sparse (mreg_of p) hash ents) /\
    p_bits p' = snd (exp_merge_sparse (mreg_of p) hash ents) /\
    p_msg p' = p_msg p /\ p_keys p' = p_keys p /\ p_hash p' = p_hash p.
Proof.
  unfold merge_sparse, exp_merge_sparse. cbn [fst snd mreg_of m_hash m_bits m_keys m_msg].
  destruct (bytes_eqb (p_hash p) hash); cbn [negb].
  2:{ exists p, flags_zero. cbn. auto 6. }
  rewrite ms_loop_pure. cbn [bind].
  destruct (fold_left ms_pure ents (p, (true, 0))) as [p' [av' ad']] eqn:F.
  pose proof (fold_ms_pure_spec _ _ _ _ _ _ _ F) as S.
  destruct (spec_sparse (p_keys p) (p_msg p) ents) as [sa [sd su]].
  destruct S as (Hb & Ha & Hd & Hm & Hk & Hh).
  eexists; eexists; split; [reflexivity|].
  cbn [andb] in Ha. rewrite N.lor_0_l in Hd. subst av' ad'.
  unfold obs_flags. cbn [fl_all_valid fl_increased fl_strict fst snd]. rewrite Hb. auto 6.
Qed.

Corollary merge_sparse_total p s : exists r, merge_sparse p s = Ok r.
Proof. destruct s as [h e]. destruct (merge_sparse_spec p h e) as (p' & fl & H & _). eauto. Qed.

(* ------------------------------------------------------------------ union, monotone, idempotent, order *)
Definition offers_bit (keys msg : list N) (i : N) (e : sparse_entry) : bool :=
  match good_entry keys msg e with Some (_, t) => N.eqb t i | None => false end.

Lemma spec_un_testbit keys msg es i :
  N.testbit (snd (snd (spec_sparse keys msg es))) i = existsb (offers_bit keys msg i) es.
Proof.
  induction es as [|e t IH]; cbn [spec_sparse existsb]; [apply N.bits_0|].
  destruct (spec_sparse keys msg t) as [sa [sd su]]. cbn [snd] in IH. unfold offers_bit at 1.
  destruct (good_entry keys msg e) as [[n j]|]; cbn [snd].
  - rewrite N.lor_spec, testbit_bit, IH. apply orb_comm.
  - rewrite IH. reflexivity.
Qed.

Lemma merge_sparse_bits p hash ents p' fl :
  merge_sparse p (hash, ents) = Ok (p', fl) ->
  p_bits p' = if bytes_eqb (p_hash p) hash
              then N.lor (p_bits p) (snd (snd (spec_sparse (p_keys p) (p_msg p) ents))) else p_bits p.
Proof.
  intros H. destruct (merge_sparse_spec p hash ents) as (q & fl' & H' & _ & Hb & _).
  rewrite H in H'. inversion H'; subst q fl'. rewrite Hb.
  unfold exp_merge_sparse. cbn [mreg_of m_hash m_bits m_keys m_msg].
  destruct (bytes_eqb (p_hash p) hash); cbn [negb snd]; [|reflexivity].
  destruct (spec_sparse (p_keys p) (p_msg p) ents) as [sa [sd su]]. reflexivity.
Qed.

(** merge_sparse_union: afterwards bit i is set iff it was set before or some offered entry has a
    well-formed in-range id whose signature verifies under the key at that index (and i is that key's bit). *)
Theorem merge_sparse_union p hash ents p' fl i :
  merge_sparse p (hash, ents) = Ok (p', fl) -> bytes_eqb (p_hash p) hash = true ->
  N.testbit (p_bits p') i = N.testbit (p_bits p) i || existsb (offers_bit (p_keys p) (p_msg p) i) ents.
Proof.
  intros H Hh. rewrite (merge_sparse_bits _ _ _ _ _ H), Hh, N.lor_spec, spec_un_testbit. reflexivity.
Qed.

(** With distinct candidate keys the bit that gets set is the index named by the id. *)
Lemma good_entry_nodup keys msg e n t :
  nodup_N keys = true -> good_entry keys msg e = Some (n, t) -> t = n.
Proof.
  unfold good_entry. intros Hnd.
  destruct (entry_index (List.length keys) (fst e)) as [m|]; [|discriminate].
  destruct (nth_key keys m) as [k|] eqn:Ek; [|discriminate].
  destruct (sig_verify k msg (snd e)); [|discriminate].
  rewrite (key_index_nodup _ _ _ Hnd Ek). intros H; inversion H; subst. reflexivity.
Qed.

Theorem merge_sparse_union_ids p hash ents p' fl i :
  nodup_N (p_keys p) = true ->
  merge_sparse p (hash, ents) = Ok (p', fl) -> bytes_eqb (p_hash p) hash = true ->
  N.testbit (p_bits p') i = N.testbit (p_bits p) i ||
    existsb (fun e => match entry_index (List.length (p_keys p)) (fst e), nth_key (p_keys p) i with
                      | Some n, Some k => N.eqb n i && sig_verify k (p_msg p) (snd e)
                      | _, _ => false end) ents.
Proof.
  intros Hnd H Hh. rewrite (merge_sparse_union _ _ _ _ _ i H Hh). f_equal.
  clear H. induction ents as [|e t IH]; [reflexivity|]. cbn [existsb]. rewrite <- IH. clear IH. f_equal.
  unfold offers_bit. destruct (good_entry (p_keys p) (p_msg p) e) as [[n j]|] eqn:G.
  - pose proof (good_entry_nodup _ _ _ _ _ Hnd G) as ->. unfold good_entry in G.
    destruct (entry_index (List.length (p_keys p)) (fst e)) as [m|]; [|discriminate].
    destruct (nth_key (p_keys p) m) as [k|] eqn:Ek; [|discriminate].
    destruct (sig_verify k (p_msg p) (snd e)) eqn:Ev; [|discriminate].
    destruct (key_index (p_keys p) k); [|discriminate]. inversion G; subst.
    destruct (N.eqb_spec n i) as [->|Hne]; cbn [andb].
    + rewrite Ek, Ev. reflexivity.
    + destruct (nth_key (p_keys p) i); reflexivity.
  - unfold good_entry in G.
    destruct (entry_index (List.length (p_keys p)) (fst e)) as [m|]; [|reflexivity].
    destruct (N.eqb_spec m i) as [->|Hne]; cbn [andb].
    + destruct (nth_key (p_keys p) i) as [k|] eqn:Ek; [|reflexivity].
      destruct (sig_verify k (p_msg p) (snd e)); [|reflexivity].
      rewrite (key_index_nodup _ _ _ Hnd Ek) in G. discriminate.
    + destruct (nth_key (p_keys p) i); reflexivity.
Qed.

Theorem merge_monotone p s p' fl :
  merge_sparse p s = Ok (p', fl) -> is_superset (p_bits p') (p_bits p) = true.
Proof.
  destruct s as [hash ents]. intros H. rewrite (merge_sparse_bits _ _ _ _ _ H).
  destruct (bytes_eqb (p_hash p) hash); [apply lor_superset|].
  unfold is_superset. rewrite N.land_diag. apply N.eqb_refl.
Qed.

(** merge_idempotent: offering the same sparse proof again changes no bit and reports no increase. *)
Theorem merge_idempotent p s p1 fl1 :
  merge_sparse p s = Ok (p1, fl1) ->
  exists p2 fl2, merge_sparse p1 s = Ok (p2, fl2) /\ p_bits p2 = p_bits p1 /\
                 fl_increased fl2 = false /\ fl_all_valid fl2 = fl_all_valid fl1.
Proof.
  destruct s as [hash ents]. intros H1.
  destruct (merge_sparse_spec p hash ents) as (q1 & g1 & E1 & F1 & B1 & M1 & K1 & H1').
  rewrite H1 in E1. inversion E1; subst q1 g1. clear E1.
  destruct (merge_sparse_spec p1 hash ents) as (p2 & fl2 & E2 & F2 & B2 & _).
  exists p2, fl2. split; [exact E2|].
  unfold exp_merge_sparse in *. cbn [mreg_of m_hash m_bits m_keys m_msg] in *.
  rewrite H1', M1, K1 in *.
  destruct (bytes_eqb (p_hash p) hash); cbn [negb fst snd] in *.
  - destruct (spec_sparse (p_keys p) (p_msg p) ents) as [sa [sd su]]. cbn [fst snd] in *.
    assert (Hb : p_bits p2 = p_bits p1) by (rewrite B2, B1; bitwise).
    split; [exact Hb|].
    unfold obs_flags in F1, F2. inversion F1. inversion F2.
    rewrite B1 in *.
    replace (N.lor (N.lor (p_bits p) su) su) with (N.lor (p_bits p) su) in * by bitwise.
    rewrite N.ltb_irrefl in *.
    split; [destruct (fl_increased fl2); [discriminate|reflexivity]|].
    destruct (fl_all_valid fl2), (fl_all_valid fl1), sa; cbn in *; congruence.
  - unfold obs_flags in F1, F2. inversion F1. inversion F2. subst.
    repeat split; try congruence.
    + destruct (fl_increased fl2); [discriminate|reflexivity].
    + destruct (fl_all_valid fl2), (fl_all_valid fl1); cbn in *; congruence.
Qed.

(** Merging a list of offers one after the other. *)
Fixpoint merge_all (p : proof) (offers : list sparse) : res proof :=
  match offers with
  | [] => Ok p
  | s :: t => bind (merge_sparse p s) (fun r => merge_all (fst r) t)
  end.

Definition offer_bits (p : proof) (s : sparse) : N :=
  if bytes_eqb (p_hash p) (fst s) then snd (snd (spec_sparse (p_keys p) (p_msg p) (snd s))) else 0.

Lemma merge_all_bits offers : forall p,
  exists p', merge_all p offers = Ok p' /\
             p_bits p' = fold_right N.lor (p_bits p) (map (offer_bits p) offers) /\
             p_msg p' = p_msg p /\ p_keys p' = p_keys p /\ p_hash p' = p_hash p.
Proof.
  induction offers as [|[hash ents] t IH]; intros p; cbn [merge_all map fold_right].
  - exists p. auto.
  - destruct (merge_sparse_spec p hash ents) as (q & fl & E & _ & _ & M & K & H).
    rewrite E. cbn [bind fst]. destruct (IH q) as (p' & E' & B' & M' & K' & H').
    exists p'. split; [exact E'|]. pose proof (merge_sparse_bits _ _ _ _ _ E) as Bq.
    split; [|split; [congruence|split; congruence]].
    rewrite B'. replace (map (offer_bits q) t) with (map (offer_bits p) t)
      by (apply map_ext; intros s; unfold offer_bits; rewrite M, K, H; reflexivity).
    rewrite Bq. unfold offer_bits at 2. cbn [fst snd].
    generalize (map (offer_bits p) t) as l. intros l.
    destruct (bytes_eqb (p_hash p) hash).
    + induction l as [|x l IHl]; cbn [fold_right]; [apply N.lor_comm|]. rewrite IHl. bitwise.
    + induction l as [|x l IHl]; cbn [fold_right]; [rewrite N.lor_0_l; reflexivity|]. rewrite IHl. bitwise.
Qed.

Lemma fold_lor_perm a l l' : Permutation l l' -> fold_right N.lor a l = fold_right N.lor a l'.
Proof.
  induction 1; cbn [fold_right]; try congruence. bitwise.
Qed.

(** merge_order_irrelevant: the signer set after merging a list of offers does not depend on the order
    (nor on repetitions being adjacent) of the offers. *)
Theorem merge_order_irrelevant p offers offers' :
  Permutation offers offers' ->
  exists q q', merge_all p offers = Ok q /\ merge_all p offers' = Ok q' /\ p_bits q = p_bits q'.
Proof.
  intros HP. destruct (merge_all_bits offers p) as (q & E & B & _).
  destruct (merge_all_bits offers' p) as (q' & E' & B' & _).
  exists q, q'. repeat split; try assumption. rewrite B, B'.
  apply fold_lor_perm. apply Permutation_map. exact HP.
Qed.

Lemma spec_un_perm keys msg es es' : Permutation es es' ->
  snd (snd (spec_sparse keys msg es)) = snd (snd (spec_sparse keys msg es')).
Proof.
  intros HP. apply N.bits_inj. intros i. rewrite !spec_un_testbit.
  apply eq_true_iff_eq. rewrite !existsb_exists. split; intros (x & Hx & Hy); exists x; split; try assumption.
  - eapply Permutation_in; eassumption.
  - eapply Permutation_in; [apply Permutation_sym|]; eassumption.
Qed.

Theorem merge_entry_order_irrelevant p hash es es' p1 f1 p2 f2 :
  Permutation es es' ->
  merge_sparse p (hash, es) = Ok (p1, f1) -> merge_sparse p (hash, es') = Ok (p2, f2) -> p_bits p1 = p_bits p2.
Proof.
  intros HP H1 H2. rewrite (merge_sparse_bits _ _ _ _ _ H1), (merge_sparse_bits _ _ _ _ _ H2).
  rewrite (spec_un_perm _ _ _ _ HP). reflexivity.
Qed.
